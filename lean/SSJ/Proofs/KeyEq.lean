/-
  SSJ.Proofs.KeyEq — `validate_key_attr` compares key values with Python equality (`Cell.pyEq`, the equality of pandas'
  `unique()`): facts about `dedupBy` under an arbitrary Boolean equality, reflexivity of `Cell.pyEq`, and the
  consequences for a validated key column (`validateKeyAttr k f = .ok ()`):

  * `dedupBy_length_eq_iff`               `len(unique) == len` ⇔ no element is `eq` to a later one;
  * `Cell.pyEq_refl`, `Cell.pyEq_of_eq`   Python equality is reflexive;
  * `PyDistinct`, `PyDistinct.nodup`      pairwise not Python-equal ⇒ pairwise different;
  * `dedupBy_pyEq_length_eq_imp_nodup`    `len(unique) == len` ⇒ `Nodup`;
  * `validateKeyAttr_ok_iff`              validation succeeds ⇔ `PyDistinct` and no missing cell;
  * `validateKeyAttr_pyEq_rejected`       two positions holding Python-equal cells ⇒ AssertionError.
-/
import SSJ.Model.Frame
import Mathlib.Data.List.Basic
import Mathlib.Data.List.Nodup
import Mathlib.Data.List.Perm.Basic

namespace SSJ
open Profiler

/-! ### `dedupBy` under an arbitrary Boolean "equality" -/

theorem Profiler.dedupBy_foldl_length {α : Type} (eq : α → α → Bool) (l acc : List α) :
    (l.foldl (fun acc a => if acc.any (fun b => eq b a) then acc else a :: acc) acc).length ≤ acc.length + l.length ∧
    ((l.foldl (fun acc a => if acc.any (fun b => eq b a) then acc else a :: acc) acc).length = acc.length + l.length ↔
      l.Pairwise (fun a b => eq a b = false) ∧ ∀ x ∈ l, ∀ b ∈ acc, eq b x = false) := by
  induction l generalizing acc with
  | nil => exact ⟨Nat.le_refl _, fun _ => ⟨List.Pairwise.nil, fun x hx => by cases hx⟩, fun _ => rfl⟩
  | cons a l ih =>
    rw [List.foldl_cons, List.length_cons]
    by_cases ha : acc.any (fun b => eq b a) = true
    · rw [if_pos ha]
      have h := (ih acc).1
      refine ⟨by omega, fun h' => by omega, fun h' => ?_⟩
      exfalso
      obtain ⟨b, hb, hba⟩ := List.any_eq_true.1 ha
      rw [h'.2 a List.mem_cons_self b hb] at hba
      cases hba
    · rw [if_neg ha]
      have h := ih (a :: acc)
      rw [List.length_cons] at h
      have ha' : ∀ b ∈ acc, eq b a = false := by
        intro b hb
        cases hba : eq b a
        · rfl
        · exact absurd (List.any_eq_true.2 ⟨b, hb, hba⟩) ha
      refine ⟨by omega, fun h' => ?_, fun h' => ?_⟩
      · obtain ⟨hpw, hnot⟩ := h.2.1 (by omega)
        refine ⟨List.pairwise_cons.2 ⟨fun x hx => hnot x hx a List.mem_cons_self, hpw⟩, ?_⟩
        intro x hx b hb
        rcases List.mem_cons.1 hx with rfl | hx
        · exact ha' b hb
        · exact hnot x hx b (List.mem_cons_of_mem _ hb)
      · obtain ⟨hpw, hnot⟩ := h'
        obtain ⟨hhd, hpw'⟩ := List.pairwise_cons.1 hpw
        have := h.2.2 ⟨hpw', fun x hx b hb => by
          rcases List.mem_cons.1 hb with rfl | hb
          · exact hhd x hx
          · exact hnot x (List.mem_cons_of_mem _ hx) b hb⟩
        omega

/-- a table keyed by `eq` never holds more elements than were inserted -/
theorem Profiler.dedupBy_length_le {α : Type} (eq : α → α → Bool) (l : List α) : (dedupBy eq l).length ≤ l.length := by
  have := (dedupBy_foldl_length eq l []).1
  rwa [List.length_nil, Nat.zero_add] at this

/-- `len(unique(l)) == len(l)` exactly when no element is `eq` to a later one -/
theorem Profiler.dedupBy_length_eq_iff {α : Type} (eq : α → α → Bool) (l : List α) :
    (dedupBy eq l).length = l.length ↔ l.Pairwise (fun a b => eq a b = false) := by
  have := (dedupBy_foldl_length eq l []).2
  rw [List.length_nil, Nat.zero_add] at this
  unfold dedupBy
  rw [this]
  exact ⟨fun h => h.1, fun h => ⟨h, fun x _ b hb => by cases hb⟩⟩

/-! ### Python equality of cells -/

/-- Python `==` is reflexive on cells (the model has no NaN cell: NaN is `.missing`, rejected separately) -/
theorem Cell.pyEq_refl (a : Cell) : a.pyEq a = true := by
  cases a with
  | int i => simp [Cell.pyEq]
  | str s => simp [Cell.pyEq]
  | missing => simp [Cell.pyEq, Cell.numVal?]
  | flt q => simp [Cell.pyEq, Cell.numVal?]
  | other t =>
    unfold Cell.pyEq
    cases h : (Cell.other t).numVal? <;> simp

theorem Cell.pyEq_of_eq {a b : Cell} (h : a = b) : a.pyEq b = true := h ▸ Cell.pyEq_refl a

theorem Cell.ne_of_pyEq_false {a b : Cell} (h : a.pyEq b = false) : a ≠ b := by
  rintro rfl
  rw [Cell.pyEq_refl] at h
  cases h

/-- `Cell.pyEq` without its two fast paths -/
theorem Cell.pyEq_eq (a b : Cell) :
    a.pyEq b = (match a.numVal?, b.numVal? with
      | some x, some y => x == y
      | none, none => a == b
      | _, _ => false) := by
  cases a <;> cases b <;> first | rfl | simp [Cell.pyEq, Cell.numVal?]

/-- Python `==` is symmetric on cells -/
theorem Cell.pyEq_comm (a b : Cell) : a.pyEq b = b.pyEq a := by
  rw [Cell.pyEq_eq, Cell.pyEq_eq]
  cases a.numVal? <;> cases b.numVal? <;> first | rfl | exact BEq.comm

/-- the cells are pairwise different under Python equality (`1`, `1.0`, `True` are the same value; `'1'` is not) -/
def PyDistinct (c : List Cell) : Prop := c.Pairwise (fun a b => a.pyEq b = false)

instance (c : List Cell) : Decidable (PyDistinct c) := by unfold PyDistinct; infer_instance

/-- pairwise not Python-equal ⇒ pairwise different -/
theorem PyDistinct.nodup {c : List Cell} (h : PyDistinct c) : c.Nodup :=
  List.Pairwise.imp (fun hab => Cell.ne_of_pyEq_false hab) h

theorem PyDistinct.perm {c c' : List Cell} (hp : c.Perm c') : PyDistinct c ↔ PyDistinct c' :=
  hp.pairwise_iff (fun {a b} h => by rw [Cell.pyEq_comm]; exact h)

theorem PyDistinct.sublist {c c' : List Cell} (h : PyDistinct c) (hs : c'.Sublist c) : PyDistinct c' :=
  List.Pairwise.sublist hs h

/-- `len(column.unique()) == len(column)` ⇒ the cells are pairwise different -/
theorem dedupBy_pyEq_length_eq_imp_nodup (c : List Cell) (h : (dedupBy Cell.pyEq c).length = c.length) : c.Nodup :=
  PyDistinct.nodup ((dedupBy_length_eq_iff Cell.pyEq c).1 h)

/-- two positions `i < j` holding Python-equal cells: the column is not `PyDistinct` -/
theorem not_pyDistinct_of_pyEq (c : List Cell) (i j : Nat) (hij : i < j) (hj : j < c.length)
    (h : (c.getD i .missing).pyEq (c.getD j .missing) = true) : ¬ PyDistinct c := by
  intro hd
  have hi : i < c.length := Nat.lt_trans hij hj
  have := (List.pairwise_iff_getElem.1 hd) i j hi hj hij
  simp only [List.getD_eq_getElem?_getD, List.getElem?_eq_getElem hi, List.getElem?_eq_getElem hj,
    Option.getD_some] at h
  rw [this] at h
  cases h

/-! ### `validate_key_attr` -/

/-- `validate_key_attr` succeeds exactly on columns without Python-equal cells and without missing cells -/
theorem validateKeyAttr_ok_iff (k : String) (f : Frame) :
    validateKeyAttr k f = .ok () ↔ PyDistinct (f.col k) ∧ ∀ c ∈ f.col k, c.isMissing = false := by
  unfold validateKeyAttr raiseIf PyDistinct
  dsimp only
  rw [← dedupBy_length_eq_iff]
  split
  · next hc =>
    simp only [Bool.not_eq_true', Bool.and_eq_false_iff, beq_eq_false_iff_ne, ne_eq, Bool.not_eq_false',
      List.any_eq_true] at hc
    constructor
    · intro h; cases h
    · rintro ⟨h1, h2⟩
      rcases hc with hc | ⟨x, hx, hx'⟩
      · exact absurd h1 hc
      · rw [h2 x hx] at hx'; cases hx'
  · next hc =>
    simp only [Bool.not_eq_true', Bool.not_eq_false, Bool.and_eq_true, beq_iff_eq, List.any_eq_false] at hc
    exact ⟨fun _ => ⟨hc.1, fun x hx => Bool.eq_false_iff.mpr (hc.2 x hx)⟩, fun _ => rfl⟩

/-- every failure of `validate_key_attr` is an AssertionError -/
theorem validateKeyAttr_error (k : String) (f : Frame) (e : PyErr) (h : validateKeyAttr k f = .error e) :
    e = .assertion := by
  unfold validateKeyAttr raiseIf at h
  dsimp only at h
  split at h
  · cases h; rfl
  · cases h

theorem validateKeyAttr_not_ok (k : String) (f : Frame) (h : validateKeyAttr k f ≠ .ok ()) :
    validateKeyAttr k f = .error .assertion := by
  cases hv : validateKeyAttr k f with
  | ok u => cases u; exact absurd hv h
  | error e => rw [validateKeyAttr_error k f e hv]

/-- two rows whose key cells are equal as Python values (`1` and `1.0`, `1` and `True`, `0.0` and `False`, …):
    `validate_key_attr` raises AssertionError -/
theorem validateKeyAttr_pyEq_rejected (k : String) (f : Frame) (i j : Nat) (hij : i < j) (hj : j < f.rows.length)
    (h : ((f.rows.getD i []).cell (f.colIdx k)).pyEq ((f.rows.getD j []).cell (f.colIdx k)) = true) :
    validateKeyAttr k f = .error .assertion := by
  apply validateKeyAttr_not_ok
  intro hok
  have hd := ((validateKeyAttr_ok_iff k f).1 hok).1
  have hlen : (f.col k).length = f.rows.length := by simp [Frame.col]
  have hi : i < f.rows.length := Nat.lt_trans hij hj
  refine not_pyDistinct_of_pyEq (f.col k) i j hij (hlen ▸ hj) ?_ hd
  have hi' : i < (f.col k).length := hlen ▸ hi
  have hj' : j < (f.col k).length := hlen ▸ hj
  simp only [List.getD_eq_getElem?_getD, List.getElem?_eq_getElem hi, List.getElem?_eq_getElem hj,
    Option.getD_some] at h
  simp only [List.getD_eq_getElem?_getD, List.getElem?_eq_getElem hi', List.getElem?_eq_getElem hj',
    Option.getD_some]
  simpa [Frame.col] using h

namespace AxiomCheck
#print axioms Profiler.dedupBy_length_eq_iff
#print axioms Cell.pyEq_refl
#print axioms Cell.pyEq_comm
#print axioms PyDistinct.perm
#print axioms dedupBy_pyEq_length_eq_imp_nodup
#print axioms validateKeyAttr_ok_iff
#print axioms validateKeyAttr_pyEq_rejected
end AxiomCheck

end SSJ

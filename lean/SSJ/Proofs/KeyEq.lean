/-
  SSJ.Proofs.KeyEq — `validate_key_attr` compares key values with Python equality (`Cell.pyEq`, the equality of pandas'
  `unique()`): facts about `dedupBy` under an arbitrary Boolean equality, reflexivity of `Cell.pyEq`, and the
  consequences for a validated key column (`validateKeyAttr k f = .ok ()`):

  * `dedupBy_length_eq_iff`               `len(unique) == len` ⇔ no element is `eq` to a later one;
  * `Cell.pyEq_refl`, `Cell.pyEq_of_eq`   Python equality is reflexive;
  * `PyDistinct`, `PyDistinct.nodup`      pairwise not Python-equal ⇒ pairwise different;
  * `dedupBy_pyEq_length_eq_imp_nodup`    `len(unique) == len` ⇒ `Nodup`;
  * `validateKeyAttr_ok_iff`              validation succeeds ⇔ `PyDistinct` and no missing cell;
  * `validateKeyAttr_pyEq_rejected`       two positions holding Python-equal cells ⇒ AssertionError;
  * `Cell.pyEq_trans`, `Cell.pyEq_congr_right`   Python equality is an equivalence;
  * `Dict.getPy?_congr`, `Dict.getPy?_setPy`, `getPy?_foldl_setPy_of_mem / _of_not_mem / _some / _isSome`
                                          cell-keyed Python dicts (`table_dict[k]`, `table_dict[k] = v`): lookup and
                                          assignment identify keys by Python equality (`d[1.0]` is `d[1]`);
  * `PyMem`, `PyMem.of_mem`, `PyDistinct.unique`   "some cell of the column is Python-equal to the probe".
-/
import SSJ.Model.Frame
import Mathlib.Data.List.Basic
import Mathlib.Data.List.Nodup
import Mathlib.Data.List.Perm.Basic

namespace SSJ
open Profiler

/-! ### `dedupBy` under an arbitrary Boolean "equality" -/

theorem Profiler.dedupBy_foldl_length {α : Type} (eq : α → α → Bool) (l acc : List α) :
    (l.foldl (fun acc a => if acc.any (fun b => eq b a) then acc else a :: acc) acc).length ≤ acc.length + l.length ∧
    ((l.foldl (fun acc a => if acc.any (fun b => eq b a) then acc else a :: acc) acc).length = acc.length + l.length ↔
      l.Pairwise (fun a b => eq a b = false) ∧ ∀ x ∈ l, ∀ b ∈ acc, eq b x = false) := by
  induction l generalizing acc with
  | nil => exact ⟨Nat.le_refl _, fun _ => ⟨List.Pairwise.nil, fun x hx => by cases hx⟩, fun _ => rfl⟩
  | cons a l ih =>
    rw [List.foldl_cons, List.length_cons]
    by_cases ha : acc.any (fun b => eq b a) = true
    · rw [if_pos ha]
      have h := (ih acc).1
      refine ⟨by omega, fun h' => by omega, fun h' => ?_⟩
      exfalso
      obtain ⟨b, hb, hba⟩ := List.any_eq_true.1 ha
      rw [h'.2 a List.mem_cons_self b hb] at hba
      cases hba
    · rw [if_neg ha]
      have h := ih (a :: acc)
      rw [List.length_cons] at h
      have ha' : ∀ b ∈ acc, eq b a = false := by
        intro b hb
        cases hba : eq b a
        · rfl
        · exact absurd (List.any_eq_true.2 ⟨b, hb, hba⟩) ha
      refine ⟨by omega, fun h' => ?_, fun h' => ?_⟩
      · obtain ⟨hpw, hnot⟩ := h.2.1 (by omega)
        refine ⟨List.pairwise_cons.2 ⟨fun x hx => hnot x hx a List.mem_cons_self, hpw⟩, ?_⟩
        intro x hx b hb
        rcases List.mem_cons.1 hx with rfl | hx
        · exact ha' b hb
        · exact hnot x hx b (List.mem_cons_of_mem _ hb)
      · obtain ⟨hpw, hnot⟩ := h'
        obtain ⟨hhd, hpw'⟩ := List.pairwise_cons.1 hpw
        have := h.2.2 ⟨hpw', fun x hx b hb => by
          rcases List.mem_cons.1 hb with rfl | hb
          · exact hhd x hx
          · exact hnot x (List.mem_cons_of_mem _ hx) b hb⟩
        omega

/-- a table keyed by `eq` never holds more elements than were inserted -/
theorem Profiler.dedupBy_length_le {α : Type} (eq : α → α → Bool) (l : List α) : (dedupBy eq l).length ≤ l.length := by
  have := (dedupBy_foldl_length eq l []).1
  rwa [List.length_nil, Nat.zero_add] at this

/-- `len(unique(l)) == len(l)` exactly when no element is `eq` to a later one -/
theorem Profiler.dedupBy_length_eq_iff {α : Type} (eq : α → α → Bool) (l : List α) :
    (dedupBy eq l).length = l.length ↔ l.Pairwise (fun a b => eq a b = false) := by
  have := (dedupBy_foldl_length eq l []).2
  rw [List.length_nil, Nat.zero_add] at this
  unfold dedupBy
  rw [this]
  exact ⟨fun h => h.1, fun h => ⟨h, fun x _ b hb => by cases hb⟩⟩

/-! ### Python equality of cells -/

/-- Python `==` is reflexive on cells (the model has no NaN cell: NaN is `.missing`, rejected separately) -/
theorem Cell.pyEq_refl (a : Cell) : a.pyEq a = true := by
  cases a with
  | int i => simp [Cell.pyEq]
  | str s => simp [Cell.pyEq]
  | missing => simp [Cell.pyEq, Cell.numVal?]
  | flt q => simp [Cell.pyEq, Cell.numVal?]
  | other t =>
    unfold Cell.pyEq
    cases h : (Cell.other t).numVal? <;> simp

theorem Cell.pyEq_of_eq {a b : Cell} (h : a = b) : a.pyEq b = true := h ▸ Cell.pyEq_refl a

theorem Cell.ne_of_pyEq_false {a b : Cell} (h : a.pyEq b = false) : a ≠ b := by
  rintro rfl
  rw [Cell.pyEq_refl] at h
  cases h

/-- `Cell.pyEq` without its two fast paths -/
theorem Cell.pyEq_eq (a b : Cell) :
    a.pyEq b = (match a.numVal?, b.numVal? with
      | some x, some y => x == y
      | none, none => a == b
      | _, _ => false) := by
  cases a <;> cases b <;> first | rfl | simp [Cell.pyEq, Cell.numVal?]

/-- Python `==` is symmetric on cells -/
theorem Cell.pyEq_comm (a b : Cell) : a.pyEq b = b.pyEq a := by
  rw [Cell.pyEq_eq, Cell.pyEq_eq]
  cases a.numVal? <;> cases b.numVal? <;> first | rfl | exact BEq.comm

/-- the cells are pairwise different under Python equality (`1`, `1.0`, `True` are the same value; `'1'` is not) -/
def PyDistinct (c : List Cell) : Prop := c.Pairwise (fun a b => a.pyEq b = false)

instance (c : List Cell) : Decidable (PyDistinct c) := by unfold PyDistinct; infer_instance

/-- pairwise not Python-equal ⇒ pairwise different -/
theorem PyDistinct.nodup {c : List Cell} (h : PyDistinct c) : c.Nodup :=
  List.Pairwise.imp (fun hab => Cell.ne_of_pyEq_false hab) h

theorem PyDistinct.perm {c c' : List Cell} (hp : c.Perm c') : PyDistinct c ↔ PyDistinct c' :=
  hp.pairwise_iff (fun {a b} h => by rw [Cell.pyEq_comm]; exact h)

theorem PyDistinct.sublist {c c' : List Cell} (h : PyDistinct c) (hs : c'.Sublist c) : PyDistinct c' :=
  List.Pairwise.sublist hs h

/-- `len(column.unique()) == len(column)` ⇒ the cells are pairwise different -/
theorem dedupBy_pyEq_length_eq_imp_nodup (c : List Cell) (h : (dedupBy Cell.pyEq c).length = c.length) : c.Nodup :=
  PyDistinct.nodup ((dedupBy_length_eq_iff Cell.pyEq c).1 h)

/-- two positions `i < j` holding Python-equal cells: the column is not `PyDistinct` -/
theorem not_pyDistinct_of_pyEq (c : List Cell) (i j : Nat) (hij : i < j) (hj : j < c.length)
    (h : (c.getD i .missing).pyEq (c.getD j .missing) = true) : ¬ PyDistinct c := by
  intro hd
  have hi : i < c.length := Nat.lt_trans hij hj
  have := (List.pairwise_iff_getElem.1 hd) i j hi hj hij
  simp only [List.getD_eq_getElem?_getD, List.getElem?_eq_getElem hi, List.getElem?_eq_getElem hj,
    Option.getD_some] at h
  rw [this] at h
  cases h

/-! ### `validate_key_attr` -/

/-- `validate_key_attr` succeeds exactly on columns without Python-equal cells and without missing cells -/
theorem validateKeyAttr_ok_iff (k : String) (f : Frame) :
    validateKeyAttr k f = .ok () ↔ PyDistinct (f.col k) ∧ ∀ c ∈ f.col k, c.isMissing = false := by
  unfold validateKeyAttr raiseIf PyDistinct
  dsimp only
  rw [← dedupBy_length_eq_iff]
  split
  · next hc =>
    simp only [Bool.not_eq_true', Bool.and_eq_false_iff, beq_eq_false_iff_ne, ne_eq, Bool.not_eq_false',
      List.any_eq_true] at hc
    constructor
    · intro h; cases h
    · rintro ⟨h1, h2⟩
      rcases hc with hc | ⟨x, hx, hx'⟩
      · exact absurd h1 hc
      · rw [h2 x hx] at hx'; cases hx'
  · next hc =>
    simp only [Bool.not_eq_true', Bool.not_eq_false, Bool.and_eq_true, beq_iff_eq, List.any_eq_false] at hc
    exact ⟨fun _ => ⟨hc.1, fun x hx => Bool.eq_false_iff.mpr (hc.2 x hx)⟩, fun _ => rfl⟩

/-- every failure of `validate_key_attr` is an AssertionError -/
theorem validateKeyAttr_error (k : String) (f : Frame) (e : PyErr) (h : validateKeyAttr k f = .error e) :
    e = .assertion := by
  unfold validateKeyAttr raiseIf at h
  dsimp only at h
  split at h
  · cases h; rfl
  · cases h

theorem validateKeyAttr_not_ok (k : String) (f : Frame) (h : validateKeyAttr k f ≠ .ok ()) :
    validateKeyAttr k f = .error .assertion := by
  cases hv : validateKeyAttr k f with
  | ok u => cases u; exact absurd hv h
  | error e => rw [validateKeyAttr_error k f e hv]

/-- two rows whose key cells are equal as Python values (`1` and `1.0`, `1` and `True`, `0.0` and `False`, …):
    `validate_key_attr` raises AssertionError -/
theorem validateKeyAttr_pyEq_rejected (k : String) (f : Frame) (i j : Nat) (hij : i < j) (hj : j < f.rows.length)
    (h : ((f.rows.getD i []).cell (f.colIdx k)).pyEq ((f.rows.getD j []).cell (f.colIdx k)) = true) :
    validateKeyAttr k f = .error .assertion := by
  apply validateKeyAttr_not_ok
  intro hok
  have hd := ((validateKeyAttr_ok_iff k f).1 hok).1
  have hlen : (f.col k).length = f.rows.length := by simp [Frame.col]
  have hi : i < f.rows.length := Nat.lt_trans hij hj
  refine not_pyDistinct_of_pyEq (f.col k) i j hij (hlen ▸ hj) ?_ hd
  have hi' : i < (f.col k).length := hlen ▸ hi
  have hj' : j < (f.col k).length := hlen ▸ hj
  simp only [List.getD_eq_getElem?_getD, List.getElem?_eq_getElem hi, List.getElem?_eq_getElem hj,
    Option.getD_some] at h
  simp only [List.getD_eq_getElem?_getD, List.getElem?_eq_getElem hi', List.getElem?_eq_getElem hj',
    Option.getD_some]
  simpa [Frame.col] using h

/-! ### Cell-keyed Python dicts: lookup / assignment under Python equality (`Dict.getPy?`, `Dict.setPy`) -/

/-- Python `==` is transitive on cells -/
theorem Cell.pyEq_trans {a b c : Cell} (hab : a.pyEq b = true) (hbc : b.pyEq c = true) : a.pyEq c = true := by
  rw [Cell.pyEq_eq] at hab hbc ⊢
  cases ha : a.numVal? <;> cases hb : b.numVal? <;> cases hc : c.numVal? <;>
    simp only [ha, hb, hc, beq_iff_eq] at hab hbc ⊢ <;>
    first | exact hab.trans hbc | exact Bool.noConfusion hbc | exact Bool.noConfusion hab

/-- Python-equal probes are interchangeable: `k₀ == k` decides `k₀ == k'` whenever `k == k'` -/
theorem Cell.pyEq_congr_right {k k' : Cell} (h : k.pyEq k' = true) (k₀ : Cell) : k₀.pyEq k = k₀.pyEq k' := by
  cases h1 : k₀.pyEq k' with
  | true => exact Cell.pyEq_trans h1 (by rw [Cell.pyEq_comm]; exact h)
  | false =>
    cases h2 : k₀.pyEq k with
    | false => rfl
    | true => rw [Cell.pyEq_trans h2 h] at h1; cases h1

namespace Dict
variable {ν : Type}

/-- the lookup sees the probe only up to Python equality: `d[1.0]` is `d[1]` -/
theorem getPy?_congr (d : List (Cell × ν)) {k k' : Cell} (h : k.pyEq k' = true) : getPy? d k = getPy? d k' := by
  induction d with
  | nil => rfl
  | cons p m ih =>
    obtain ⟨k₀, v₀⟩ := p
    simp only [getPy?, ih, Cell.pyEq_congr_right h k₀]

theorem getPy?_setPy (d : List (Cell × ν)) (k k' : Cell) (v : ν) :
    getPy? (setPy d k v) k' = if k.pyEq k' then some v else getPy? d k' := by
  induction d with
  | nil => simp only [setPy, getPy?]
  | cons p m ih =>
    obtain ⟨k₀, v₀⟩ := p
    simp only [setPy]
    cases h0 : k₀.pyEq k with
    | true =>
      simp only [if_true, getPy?]
      have : k₀.pyEq k' = k.pyEq k' := by
        rw [Cell.pyEq_comm k₀, Cell.pyEq_comm k, Cell.pyEq_congr_right h0]
      rw [this]
      split <;> rfl
    | false =>
      simp only [Bool.false_eq_true, if_false, getPy?, ih]
      cases h1 : k₀.pyEq k' with
      | false => simp only [Bool.false_eq_true, if_false]
      | true =>
        simp only [if_true]
        cases h2 : k.pyEq k' with
        | false => simp only [Bool.false_eq_true, if_false]
        | true =>
          rw [Cell.pyEq_trans h1 (by rw [Cell.pyEq_comm]; exact h2)] at h0
          cases h0

end Dict

section FoldSetPy
variable {α ν : Type}

/-- building a dict by successive assignment: a probe Python-equal to no assigned key keeps its old value -/
theorem getPy?_foldl_setPy_of_not_mem (key : α → Cell) (val : α → ν) (l : List α) (d : List (Cell × ν)) (k : Cell)
    (h : ∀ a ∈ l, (key a).pyEq k = false) :
    Dict.getPy? (l.foldl (fun d a => Dict.setPy d (key a) (val a)) d) k = Dict.getPy? d k := by
  induction l generalizing d with
  | nil => rfl
  | cons a l ih =>
    rw [List.foldl_cons, ih _ (fun b hb => h b (List.mem_cons_of_mem _ hb)), Dict.getPy?_setPy,
      h a List.mem_cons_self]
    rfl

/-- with pairwise Python-different keys, a probe Python-equal to an assigned key finds that key's own value -/
theorem getPy?_foldl_setPy_of_mem (key : α → Cell) (val : α → ν) (l : List α) (d : List (Cell × ν))
    (hnd : PyDistinct (l.map key)) (a : α) (ha : a ∈ l) (k : Cell) (hk : (key a).pyEq k = true) :
    Dict.getPy? (l.foldl (fun d a => Dict.setPy d (key a) (val a)) d) k = some (val a) := by
  induction l generalizing d with
  | nil => cases ha
  | cons b l ih =>
    unfold PyDistinct at hnd
    rw [List.map_cons, List.pairwise_cons] at hnd
    rw [List.foldl_cons]
    rcases List.mem_cons.1 ha with rfl | ha'
    · rw [getPy?_foldl_setPy_of_not_mem key val l _ k, Dict.getPy?_setPy, hk]
      · rfl
      · intro c hc
        rw [Cell.pyEq_congr_right (k := k) (k' := key a) (by rw [Cell.pyEq_comm]; exact hk) (key c), Cell.pyEq_comm]
        exact hnd.1 _ (List.mem_map_of_mem hc)
    · exact ih _ hnd.2 ha'

/-- whatever a lookup returns was assigned under a Python-equal key, or was there before -/
theorem getPy?_foldl_setPy_some (key : α → Cell) (val : α → ν) (l : List α) (d : List (Cell × ν)) (k : Cell) (v : ν)
    (h : Dict.getPy? (l.foldl (fun d a => Dict.setPy d (key a) (val a)) d) k = some v) :
    (∃ a ∈ l, (key a).pyEq k = true ∧ val a = v) ∨ Dict.getPy? d k = some v := by
  induction l generalizing d with
  | nil => exact Or.inr h
  | cons b l ih =>
    rw [List.foldl_cons] at h
    rcases ih _ h with ⟨a, ha, hk, hv⟩ | h'
    · exact Or.inl ⟨a, List.mem_cons_of_mem _ ha, hk, hv⟩
    · rw [Dict.getPy?_setPy] at h'
      cases hb : (key b).pyEq k with
      | true =>
        rw [hb, if_pos rfl] at h'
        exact Or.inl ⟨b, List.mem_cons_self, hb, Option.some.inj h'⟩
      | false =>
        rw [hb] at h'
        exact Or.inr h'

/-- a probe Python-equal to an assigned key (or already present) is found -/
theorem getPy?_foldl_setPy_isSome (key : α → Cell) (val : α → ν) (l : List α) (d : List (Cell × ν)) (k : Cell)
    (h : (Dict.getPy? d k).isSome ∨ ∃ a ∈ l, (key a).pyEq k = true) :
    (Dict.getPy? (l.foldl (fun d a => Dict.setPy d (key a) (val a)) d) k).isSome := by
  induction l generalizing d with
  | nil =>
    rcases h with h | ⟨a, ha, _⟩
    · exact h
    · cases ha
  | cons x xs ih =>
    rw [List.foldl_cons]
    apply ih
    rcases h with h | ⟨a, ha, hk⟩
    · left
      rw [Dict.getPy?_setPy]
      split
      · rfl
      · exact h
    · rcases List.mem_cons.mp ha with rfl | ha'
      · left; rw [Dict.getPy?_setPy, hk]; rfl
      · exact Or.inr ⟨a, ha', hk⟩

end FoldSetPy

/-- the probe `k` is Python-equal to a cell of the column: `1.0` (or `True`) "occurs" in `[1, 2, 3]` -/
def PyMem (k : Cell) (col : List Cell) : Prop := ∃ k' ∈ col, k'.pyEq k = true

instance (k : Cell) (col : List Cell) : Decidable (PyMem k col) := by unfold PyMem; infer_instance

/-- a cell that occurs in the column occurs there up to Python equality -/
theorem PyMem.of_mem {k : Cell} {col : List Cell} (h : k ∈ col) : PyMem k col := ⟨k, h, Cell.pyEq_refl k⟩

/-- in a `PyDistinct` column the cell Python-equal to a probe is unique -/
theorem PyDistinct.unique {col : List Cell} (hd : PyDistinct col) {k k₁ k₂ : Cell} (h₁ : k₁ ∈ col) (h₂ : k₂ ∈ col)
    (e₁ : k₁.pyEq k = true) (e₂ : k₂.pyEq k = true) : k₁ = k₂ := by
  have e : k₁.pyEq k₂ = true := Cell.pyEq_trans e₁ (by rw [Cell.pyEq_comm]; exact e₂)
  unfold PyDistinct at hd
  induction col with
  | nil => cases h₁
  | cons c cs ih =>
    rw [List.pairwise_cons] at hd
    rcases List.mem_cons.1 h₁ with rfl | h₁' <;> rcases List.mem_cons.1 h₂ with rfl | h₂'
    · rfl
    · have := hd.1 _ h₂'; rw [e] at this; cases this
    · have := hd.1 _ h₁'; rw [Cell.pyEq_comm, e] at this; cases this
    · exact ih hd.2 h₁' h₂'

namespace AxiomCheck
#print axioms Profiler.dedupBy_length_eq_iff
#print axioms Cell.pyEq_refl
#print axioms Cell.pyEq_comm
#print axioms PyDistinct.perm
#print axioms dedupBy_pyEq_length_eq_imp_nodup
#print axioms validateKeyAttr_ok_iff
#print axioms validateKeyAttr_pyEq_rejected
#print axioms Cell.pyEq_trans
#print axioms Dict.getPy?_setPy
#print axioms getPy?_foldl_setPy_of_mem
#print axioms getPy?_foldl_setPy_some
#print axioms PyDistinct.unique
end AxiomCheck

end SSJ

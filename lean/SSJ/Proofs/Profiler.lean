/-
  SSJ.Proofs.Profiler — property C17, the light part: `dedup` lengths (also used by Proofs/Session.lean) and the
  profiler's comment selection on given counts.  The counts and the percentage strings against the specification
  (`SSJ/Spec/ProfilerSpec.lean`) are in `SSJ/Proofs/ProfilerExact.lean` (kept apart so that the imports of this file,
  and with them the `simp` set seen by its importers, stay as they were).
-/
import Mathlib.Data.List.Perm.Subperm
import SSJ.Model.Profiler
import SSJ.Proofs.TokenOrdering

namespace SSJ.Profiler
open SSJ

/-! ### `dedup` and lengths -/
section Dedup
variable {α : Type} [DecidableEq α]

theorem dedup_subperm (l : List α) : (dedup l).Subperm l :=
  List.subperm_of_subset (dedup_nodup l) (fun a ha => (mem_dedup l a).mp ha)

theorem dedup_length_le (l : List α) : (dedup l).length ≤ l.length :=
  (dedup_subperm l).length_le

theorem dedup_length_eq_iff (l : List α) : (dedup l).length = l.length ↔ l.Nodup := by
  constructor
  · intro h
    have hp : (dedup l).Perm l := (dedup_subperm l).perm_of_length_le (le_of_eq h.symm)
    exact hp.nodup_iff.mp (dedup_nodup l)
  · intro h
    rw [dedup_eq_self_of_nodup l h]

theorem dedup_ne_nil (l : List α) (h : l ≠ []) : dedup l ≠ [] := by
  obtain ⟨a, ha⟩ := List.exists_mem_of_ne_nil l h
  exact List.ne_nil_of_mem ((mem_dedup l a).mpr ha)

end Dedup

/-! ### comment selection -/

def keyComment : String := "This attribute can be used as a key attribute."
def ignoreComment (fm : String) : String := s!"Joining on this attribute will ignore {fm} rows."
def ignorePrefix : String := "Joining on this attribute will ignore "

theorem ignoreComment_toList (fm : String) :
    (ignoreComment fm).toList = ignorePrefix.toList ++ (fm.toList ++ " rows.".toList) := by
  show ("Joining on this attribute will ignore " ++ fm ++ " rows.").toList = _
  simp only [String.toList_append, List.append_assoc, ignorePrefix]

theorem ignoreComment_ne_key (fm : String) : ignoreComment fm ≠ keyComment := by
  intro h
  have := congrArg String.toList h
  rw [ignoreComment_toList] at this
  simp [ignorePrefix, keyComment] at this

theorem ignoreComment_ne_empty (fm : String) : ignoreComment fm ≠ "" := by
  intro h
  have := congrArg String.toList h
  rw [ignoreComment_toList] at this
  simp [ignorePrefix] at this

theorem comment_eq (u m n : Nat) (fm : String) :
    comment u m n fm =
      if u = n ∧ m = 0 then keyComment else if 0 < m then ignoreComment fm else "" := by
  unfold comment keyComment ignoreComment
  by_cases h1 : u = n <;> by_cases h2 : m = 0 <;> simp [h1, h2]

/-- the comment is the "key attribute" one exactly on the exact counts -/
theorem comment_key_iff (u m n : Nat) (fm : String) :
    comment u m n fm = "This attribute can be used as a key attribute." ↔ u = n ∧ m = 0 := by
  rw [comment_eq]
  split_ifs with h1 h2
  · simp [keyComment, h1]
  · simp only [h1, iff_false]
    exact ignoreComment_ne_key fm
  · simp only [h1, iff_false]
    decide

/-- the comment is the "will ignore … rows" one exactly when it is not a key and a value is missing -/
theorem comment_ignore_iff (u m n : Nat) (fm : String) :
    comment u m n fm = s!"Joining on this attribute will ignore {fm} rows." ↔ ¬(u = n ∧ m = 0) ∧ m > 0 := by
  rw [comment_eq]
  split_ifs with h1 h2
  · constructor
    · intro h
      exact absurd h.symm (ignoreComment_ne_key fm)
    · rintro ⟨h, _⟩
      exact absurd h1 h
  · exact ⟨fun _ => ⟨h1, h2⟩, fun _ => rfl⟩
  · constructor
    · intro h
      exact absurd h.symm (ignoreComment_ne_empty fm)
    · rintro ⟨_, h⟩
      exact absurd h h2

/-- … which simplifies: `m > 0` already excludes the key case -/
theorem comment_ignore_iff' (u m n : Nat) (fm : String) :
    comment u m n fm = s!"Joining on this attribute will ignore {fm} rows." ↔ 0 < m := by
  rw [comment_ignore_iff]
  omega

theorem comment_empty_iff (u m n : Nat) (fm : String) :
    comment u m n fm = "" ↔ u ≠ n ∧ m = 0 := by
  rw [comment_eq]
  split_ifs with h1 h2
  · have : keyComment ≠ "" := by decide
    simp only [this, false_iff]
    omega
  · simp only [ignoreComment_ne_empty, false_iff]
    omega
  · simp only [true_iff]
    omega

/-- the comment starts with "Joining on this attribute will ignore " iff a value is missing -/
theorem comment_prefix_iff (u m n : Nat) (fm : String) :
    ignorePrefix.toList <+: (comment u m n fm).toList ↔ 0 < m := by
  rw [comment_eq]
  split_ifs with h1 h2
  · have : ¬ ignorePrefix.toList <+: keyComment.toList := by decide
    simp only [this, false_iff]
    omega
  · simp only [h2, iff_true, ignoreComment_toList]
    exact List.prefix_append _ _
  · have : ¬ ignorePrefix.toList <+: "".toList := by decide
    simp only [this, false_iff]
    exact h2

end SSJ.Profiler

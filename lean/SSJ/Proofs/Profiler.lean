/-
  SSJ.Proofs.Profiler — property C17: the profiler's counts and its comment selection.
-/
import Mathlib.Data.List.Perm.Subperm
import SSJ.Model.Profiler
import SSJ.Proofs.TokenOrdering

namespace SSJ.Profiler
open SSJ

/-! ### `dedup` and lengths -/
section Dedup
variable {α : Type} [DecidableEq α]

theorem dedup_subperm (l : List α) : (dedup l).Subperm l :=
  List.subperm_of_subset (dedup_nodup l) (fun a ha => (mem_dedup l a).mp ha)

theorem dedup_length_le (l : List α) : (dedup l).length ≤ l.length :=
  (dedup_subperm l).length_le

theorem dedup_length_eq_iff (l : List α) : (dedup l).length = l.length ↔ l.Nodup := by
  constructor
  · intro h
    have hp : (dedup l).Perm l := (dedup_subperm l).perm_of_length_le (le_of_eq h.symm)
    exact hp.nodup_iff.mp (dedup_nodup l)
  · intro h
    rw [dedup_eq_self_of_nodup l h]

theorem dedup_ne_nil (l : List α) (h : l ≠ []) : dedup l ≠ [] := by
  obtain ⟨a, ha⟩ := List.exists_mem_of_ne_nil l h
  exact List.ne_nil_of_mem ((mem_dedup l a).mpr ha)

end Dedup

/-! ### counts -/

theorem uniqueCount_le (col : List Cell) : uniqueCount col ≤ col.length :=
  dedup_length_le col

theorem uniqueCount_pos (col : List Cell) (h : col ≠ []) : 1 ≤ uniqueCount col :=
  List.length_pos_iff.mpr (dedup_ne_nil col h)

/-- all values distinct ⇔ the unique count equals the number of rows -/
theorem uniqueCount_eq_length_iff (col : List Cell) : uniqueCount col = col.length ↔ col.Nodup :=
  dedup_length_eq_iff col

theorem missingCount_le (col : List Cell) : missingCount col ≤ col.length :=
  List.length_filter_le _ _

theorem missingCount_pos_iff (col : List Cell) :
    0 < missingCount col ↔ ∃ c ∈ col, c.isMissing = true := by
  unfold missingCount
  rw [List.length_pos_iff_exists_mem]
  simp only [List.mem_filter]

theorem missingCount_eq_zero_iff (col : List Cell) :
    missingCount col = 0 ↔ ∀ c ∈ col, c.isMissing = false := by
  unfold missingCount
  rw [List.length_eq_zero_iff, List.filter_eq_nil_iff]
  simp

theorem uniqueCount_bounds (col : List Cell) (h : col ≠ []) :
    1 ≤ uniqueCount col ∧ uniqueCount col ≤ col.length :=
  ⟨uniqueCount_pos col h, uniqueCount_le col⟩

/-! ### comment selection -/

def keyComment : String := "This attribute can be used as a key attribute."
def ignoreComment (fm : String) : String := s!"Joining on this attribute will ignore {fm} rows."
def ignorePrefix : String := "Joining on this attribute will ignore "

theorem ignoreComment_toList (fm : String) :
    (ignoreComment fm).toList = ignorePrefix.toList ++ (fm.toList ++ " rows.".toList) := by
  show ("Joining on this attribute will ignore " ++ fm ++ " rows.").toList = _
  simp only [String.toList_append, List.append_assoc, ignorePrefix]

theorem ignoreComment_ne_key (fm : String) : ignoreComment fm ≠ keyComment := by
  intro h
  have := congrArg String.toList h
  rw [ignoreComment_toList] at this
  simp [ignorePrefix, keyComment] at this

theorem ignoreComment_ne_empty (fm : String) : ignoreComment fm ≠ "" := by
  intro h
  have := congrArg String.toList h
  rw [ignoreComment_toList] at this
  simp [ignorePrefix] at this

theorem comment_eq (u m n : Nat) (fm : String) :
    comment u m n fm =
      if u = n ∧ m = 0 then keyComment else if 0 < m then ignoreComment fm else "" := by
  unfold comment keyComment ignoreComment
  by_cases h1 : u = n <;> by_cases h2 : m = 0 <;> simp [h1, h2]

/-- the comment is the "key attribute" one exactly on the exact counts -/
theorem comment_key_iff (u m n : Nat) (fm : String) :
    comment u m n fm = "This attribute can be used as a key attribute." ↔ u = n ∧ m = 0 := by
  rw [comment_eq]
  split_ifs with h1 h2
  · simp [keyComment, h1]
  · simp only [h1, iff_false]
    exact ignoreComment_ne_key fm
  · simp only [h1, iff_false]
    decide

/-- the comment is the "will ignore … rows" one exactly when it is not a key and a value is missing -/
theorem comment_ignore_iff (u m n : Nat) (fm : String) :
    comment u m n fm = s!"Joining on this attribute will ignore {fm} rows." ↔ ¬(u = n ∧ m = 0) ∧ m > 0 := by
  rw [comment_eq]
  split_ifs with h1 h2
  · constructor
    · intro h
      exact absurd h.symm (ignoreComment_ne_key fm)
    · rintro ⟨h, _⟩
      exact absurd h1 h
  · exact ⟨fun _ => ⟨h1, h2⟩, fun _ => rfl⟩
  · constructor
    · intro h
      exact absurd h.symm (ignoreComment_ne_empty fm)
    · rintro ⟨_, h⟩
      exact absurd h h2

/-- … which simplifies: `m > 0` already excludes the key case -/
theorem comment_ignore_iff' (u m n : Nat) (fm : String) :
    comment u m n fm = s!"Joining on this attribute will ignore {fm} rows." ↔ 0 < m := by
  rw [comment_ignore_iff]
  omega

theorem comment_empty_iff (u m n : Nat) (fm : String) :
    comment u m n fm = "" ↔ u ≠ n ∧ m = 0 := by
  rw [comment_eq]
  split_ifs with h1 h2
  · have : keyComment ≠ "" := by decide
    simp only [this, false_iff]
    omega
  · simp only [ignoreComment_ne_empty, false_iff]
    omega
  · simp only [true_iff]
    omega

/-- the comment starts with "Joining on this attribute will ignore " iff a value is missing -/
theorem comment_prefix_iff (u m n : Nat) (fm : String) :
    ignorePrefix.toList <+: (comment u m n fm).toList ↔ 0 < m := by
  rw [comment_eq]
  split_ifs with h1 h2
  · have : ¬ ignorePrefix.toList <+: keyComment.toList := by decide
    simp only [this, false_iff]
    omega
  · simp only [h2, iff_true, ignoreComment_toList]
    exact List.prefix_append _ _
  · have : ¬ ignorePrefix.toList <+: "".toList := by decide
    simp only [this, false_iff]
    exact h2

/-! ### C17 for `profileColumn` -/

/-- "This attribute can be used as a key attribute." ⇔ all values distinct and none missing -/
theorem profileColumn_key_iff (col : List Cell) :
    (profileColumn col).2.2 = "This attribute can be used as a key attribute." ↔
      col.Nodup ∧ ∀ c ∈ col, c.isMissing = false := by
  unfold profileColumn
  simp only
  rw [comment_key_iff, uniqueCount_eq_length_iff, missingCount_eq_zero_iff]

/-- "Joining on this attribute will ignore <missing stat> rows." ⇔ some value is missing -/
theorem profileColumn_ignore_iff (col : List Cell) :
    (profileColumn col).2.2 =
        s!"Joining on this attribute will ignore {(profileColumn col).2.1} rows." ↔
      ∃ c ∈ col, c.isMissing = true := by
  unfold profileColumn
  simp only
  rw [comment_ignore_iff', missingCount_pos_iff]

/-- the comment starts with "Joining on this attribute will ignore " ⇔ some value is missing -/
theorem profileColumn_ignore_prefix_iff (col : List Cell) :
    "Joining on this attribute will ignore ".toList <+: (profileColumn col).2.2.toList ↔
      ∃ c ∈ col, c.isMissing = true := by
  unfold profileColumn
  simp only
  rw [← missingCount_pos_iff]
  exact comment_prefix_iff _ _ _ _

/-- the comment is empty ⇔ no value is missing but some value repeats -/
theorem profileColumn_empty_iff (col : List Cell) :
    (profileColumn col).2.2 = "" ↔ ¬ col.Nodup ∧ ∀ c ∈ col, c.isMissing = false := by
  unfold profileColumn
  simp only
  rw [comment_empty_iff, ← uniqueCount_eq_length_iff, missingCount_eq_zero_iff]

/-- a column with a missing value is never reported as a key -/
theorem profileColumn_missing_not_key (col : List Cell) (h : ∃ c ∈ col, c.isMissing = true) :
    (profileColumn col).2.2 ≠ "This attribute can be used as a key attribute." := by
  rw [Ne, profileColumn_key_iff]
  rintro ⟨_, h2⟩
  obtain ⟨c, hc, hm⟩ := h
  rw [h2 c hc] at hm
  cases hm

/-- the three comments are mutually exclusive and exhaustive -/
theorem profileColumn_comment_cases (col : List Cell) :
    (profileColumn col).2.2 = "This attribute can be used as a key attribute." ∨
    (profileColumn col).2.2 = s!"Joining on this attribute will ignore {(profileColumn col).2.1} rows." ∨
    (profileColumn col).2.2 = "" := by
  unfold profileColumn
  simp only
  rw [comment_eq]
  split_ifs
  · exact Or.inl rfl
  · exact Or.inr (Or.inl rfl)
  · exact Or.inr (Or.inr rfl)

/-- the count bounds for a non-empty table -/
theorem profileColumn_counts (col : List Cell) (h : col ≠ []) :
    missingCount col ≤ col.length ∧ 1 ≤ uniqueCount col ∧ uniqueCount col ≤ col.length :=
  ⟨missingCount_le col, uniqueCount_pos col h, uniqueCount_le col⟩

end SSJ.Profiler

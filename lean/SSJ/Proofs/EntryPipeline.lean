/-
  SSJ.Proofs.EntryPipeline — helpers for property C07 ("a join equals filter_tables followed by apply_matcher").

  1. arithmetic: the similarity function py_stringmatching applies to two token LISTS (`simRaw`: exact-list-match
     shortcut, else the formula on set sizes) and the similarity of the two token SETS (`Spec.simSet`: equal-set
     shortcut) agree after rounding to 4 decimals — also for two lists denoting the same set in different order,
     where `simRaw` evaluates the double-precision formula on `(n, n, n)`, which rounds to 1.0;
  2. the candidate set produced by ANY `filter_tables` / join entry point (`TableCall`): its key columns are
     columns 1 and 2 and every row carries the keys of two source rows;
  3. `apply_matcher` on such a candidate set, per pair of source rows (from `C05.keeps_exactly`);
  4. the arguments of the two pipeline stages derived from the join's arguments, and their validity.
-/
import SSJ.Proofs.EntryFilters
import SSJ.Proofs.EntryGeneric
import SSJ.Proofs.EntryLaws
import SSJ.Props.C05
import SSJ.Props.C11
import SSJ.Props.C13

namespace SSJ
namespace EntryPipeline
open SSJ.Props F64

/-! ## 1. arithmetic: `round(simRaw, 4) = score4` -/

theorem round4_one : round4 1 = 1 := by
  rw [round4_eq]
  have h : rhe ((1 : Rat) * 10000) = 10000 := by
    have := rhe_int 10000
    norm_num at this ⊢
    exact this
  rw [h]
  norm_num
  exact EntrySetSim.rn_one

/-- a double within `2⁻⁴⁰` of 1 rounds (4 decimals) to 1.0 -/
theorem round4_near_one {v : Rat} (h1 : 1 - 1 / 2 ^ 40 ≤ v) (h2 : v ≤ 1 + 1 / 2 ^ 40) : round4 v = 1 := by
  rw [round4_eq]
  have h : rhe (v * 10000) = 10000 := by
    apply le_antisymm
    · apply rhe_le_of_lt
      push_cast
      have : (1 : Rat) / 2 ^ 40 * 10000 < 1 / 2 := by norm_num
      nlinarith
    · apply le_rhe_of_lt
      push_cast
      have : (1 : Rat) / 2 ^ 40 * 10000 < 1 / 2 := by norm_num
      nlinarith
  rw [h]
  norm_num
  exact EntrySetSim.rn_one

/-- cosine of a set with itself, computed by the formula: `x / (sqrt x * sqrt x)` in double precision is within a few
    ulp of 1 -/
theorem cos_self_near_one {x : Rat} (hx : 1 ≤ x) :
    1 - 1 / 2 ^ 40 ≤ rn (x / rn (fsqrt x * fsqrt x)) ∧ rn (x / rn (fsqrt x * fsqrt x)) ≤ 1 + 1 / 2 ^ 40 := by
  have hx0 : 0 < x := by linarith
  obtain ⟨hP1, hP2⟩ := fsqrt_sq' hx0
  set P := fsqrt x * fsqrt x with hP
  have hPlo : (1 : Rat) / 2 ≤ P := by
    have : x * (1 / 2) ≤ x * (1 - 1 / 2 ^ 51) := mul_le_mul_of_nonneg_left (by norm_num) hx0.le
    linarith
  have hP100 : (1 : Rat) / 2 ^ 100 ≤ P := le_trans (by norm_num) hPlo
  have hD1 := rn_lb hP100
  have hD2 := rn_ub hP100
  set D := rn P with hD
  -- D within 2⁻⁵⁰ of x
  have hDlo : x * (1 - 1 / 2 ^ 50) ≤ D := by
    have a : x * (1 - 1 / 2 ^ 50) ≤ x * ((1 - 1 / 2 ^ 51) * (1 - 1 / 2 ^ 53)) :=
      mul_le_mul_of_nonneg_left (by norm_num) hx0.le
    have b : x * (1 - 1 / 2 ^ 51) * (1 - 1 / 2 ^ 53) ≤ P * (1 - 1 / 2 ^ 53) :=
      mul_le_mul_of_nonneg_right hP1 (by norm_num)
    linarith [mul_assoc x ((1 : Rat) - 1 / 2 ^ 51) (1 - 1 / 2 ^ 53)]
  have hDhi : D ≤ x * (1 + 1 / 2 ^ 50) := by
    have a : x * ((1 + 1 / 2 ^ 51) * (1 + 1 / 2 ^ 53)) ≤ x * (1 + 1 / 2 ^ 50) :=
      mul_le_mul_of_nonneg_left (by norm_num) hx0.le
    have b : P * (1 + 1 / 2 ^ 53) ≤ x * (1 + 1 / 2 ^ 51) * (1 + 1 / 2 ^ 53) :=
      mul_le_mul_of_nonneg_right hP2 (by norm_num)
    linarith [mul_assoc x ((1 : Rat) + 1 / 2 ^ 51) (1 + 1 / 2 ^ 53)]
  have hD0 : 0 < D := lt_of_lt_of_le (mul_pos hx0 (by norm_num)) hDlo
  -- the quotient
  have hw1 : 1 - 1 / 2 ^ 49 ≤ x / D := by
    rw [le_div_iff₀ hD0]
    have a : (1 - 1 / 2 ^ 49) * D ≤ (1 - 1 / 2 ^ 49) * (x * (1 + 1 / 2 ^ 50)) :=
      mul_le_mul_of_nonneg_left hDhi (by norm_num)
    have b : x * ((1 - 1 / 2 ^ 49) * (1 + 1 / 2 ^ 50)) ≤ x * 1 :=
      mul_le_mul_of_nonneg_left (by norm_num) hx0.le
    nlinarith
  have hw2 : x / D ≤ 1 + 1 / 2 ^ 49 := by
    rw [div_le_iff₀ hD0]
    have a : (1 + 1 / 2 ^ 49) * (x * (1 - 1 / 2 ^ 50)) ≤ (1 + 1 / 2 ^ 49) * D :=
      mul_le_mul_of_nonneg_left hDlo (by norm_num)
    have b : x * 1 ≤ x * ((1 + 1 / 2 ^ 49) * (1 - 1 / 2 ^ 50)) :=
      mul_le_mul_of_nonneg_left (by norm_num) hx0.le
    nlinarith
  have hw100 : (1 : Rat) / 2 ^ 100 ≤ x / D := le_trans (by norm_num) hw1
  have hv1 := rn_lb hw100
  have hv2 := rn_ub hw100
  constructor
  · have a : (1 - 1 / 2 ^ 49) * (1 - 1 / 2 ^ 53) ≤ x / D * (1 - 1 / 2 ^ 53) :=
      mul_le_mul_of_nonneg_right hw1 (by norm_num)
    have b : (1 : Rat) - 1 / 2 ^ 40 ≤ (1 - 1 / 2 ^ 49) * (1 - 1 / 2 ^ 53) := by norm_num
    linarith
  · have a : x / D * (1 + 1 / 2 ^ 53) ≤ (1 + 1 / 2 ^ 49) * (1 + 1 / 2 ^ 53) :=
      mul_le_mul_of_nonneg_right hw2 (by norm_num)
    have b : (1 + 1 / 2 ^ 49) * (1 + 1 / 2 ^ 53) ≤ (1 : Rat) + 1 / 2 ^ 40 := by norm_num
    linarith

/-- the double-precision formula on a set paired with itself (`|A ∩ B| = |A| = |B| = n`) rounds to 1.0 -/
theorem round4_simF_self (m : Measure) (hm : SetMeasure m) (n : Nat) (hn1 : 1 ≤ n) :
    round4 (simF m n n n) = 1 := by
  have hn1' : (1 : Rat) ≤ n := by exact_mod_cast hn1
  have hn0 : (0 : Rat) < n := by linarith
  rcases hm with rfl | rfl | rfl
  · have : (n : Rat) / (n + n - n) = 1 := by
      rw [show (n : Rat) + n - n = n by ring, div_self hn0.ne']
    simp only [simF, this, EntrySetSim.rn_one]
    exact round4_one
  · simp only [simF]
    obtain ⟨h1, h2⟩ := cos_self_near_one hn1'
    exact round4_near_one h1 h2
  · have : 2 * (n : Rat) / (n + n) = 1 := by
      rw [show (n : Rat) + n = 2 * n by ring, div_self (by positivity)]
    simp only [simF, this, EntrySetSim.rn_one]
    exact round4_one

theorem setLen_of_nodup (A : List Tok) (hA : A.Nodup) : setLen A = A.length := by
  unfold setLen
  rw [dedup_eq_self_of_nodup A hA]

theorem sameSet_self (A : List Tok) : Spec.sameSet A A = true := by
  rw [jss_sameSet_iff]
  exact fun _ => Iff.rfl

/-- on duplicate-free lists that are NOT the same set (or are the same LIST) the list similarity and the set
    similarity coincide -/
theorem simRaw_eq_simSet (m : Measure) (A B : List Tok) (hA : A.Nodup) (hB : B.Nodup)
    (h : Spec.sameSet A B = true → A = B) : simRaw m A B = Spec.simSet m A B := by
  unfold simRaw Spec.simSet
  by_cases hAB : A = B
  · subst hAB
    rw [if_pos rfl, sameSet_self, if_pos rfl]
  · have hss : Spec.sameSet A B = false := by
      cases hs : Spec.sameSet A B with
      | false => rfl
      | true => exact absurd (h hs) hAB
    rw [if_neg hAB, hss, setLen_of_nodup A hA, setLen_of_nodup B hB]
    rfl

/-- KEY ARITHMETIC FACT: rounded to 4 decimals, py_stringmatching's similarity on the two token LISTS is the score
    the join reports (`Spec.score4`), for all duplicate-free lists of fewer than 2³² tokens — including two lists
    that denote the same set in a different order -/
theorem round_simRaw_eq_score4 (m : Measure) (hm : SetMeasure m) (A B : List Tok) (hA : A.Nodup) (hB : B.Nodup)
    (hAs : A.length < 2 ^ 32) (_hBs : B.length < 2 ^ 32) :
    PyV.round (simRaw m A B) (.int 4) = Spec.score4 m A B := by
  unfold Spec.score4
  by_cases h : Spec.sameSet A B = true → A = B
  · rw [simRaw_eq_simSet m A B hA hB h]
  · rw [Classical.not_imp] at h
    obtain ⟨hss, hne⟩ := h
    obtain ⟨e1, e2⟩ := EntryFilters.sameSet_counts A B hA hB hss
    have hApos : 1 ≤ A.length := by
      rcases Nat.eq_zero_or_pos A.length with h0 | hp
      · exfalso
        apply hne
        have hA0 : A = [] := List.length_eq_zero_iff.1 h0
        have hB0 : B = [] := List.length_eq_zero_iff.1 (by omega)
        rw [hA0, hB0]
      · exact hp
    have hraw : simRaw m A B = .float (simF m A.length A.length A.length) := by
      unfold simRaw
      rw [if_neg hne, setLen_of_nodup A hA, setLen_of_nodup B hB, e1, e2]
      have : (decide (A.length = 0) || decide (A.length = 0)) = false := by
        simp only [Bool.or_self, decide_eq_false_iff_not]; omega
      rw [if_neg (by rw [this]; exact Bool.false_ne_true)]
      exact simFormula_eq m hm _ _ _ hApos le_rfl le_rfl hAs hAs
    have hset : Spec.simSet m A B = .float 1 := by
      unfold Spec.simSet
      rw [if_pos hss]
    rw [hraw, hset, round4_f, round4_f, round4_simF_self m hm _ hApos, round4_one]

/-! ## 2. the candidate set produced by a first stage (any `filter_tables` / join entry point) -/

section Candset
variable {call : Bool → Int → Int → Except PyErr Frame} {a : TableArgs} {l r : Frame} {oss : Bool}

/-- the two key columns of the result of an entry point are columns 1 and 2 (after `_id`), provided their
    (prefixed) names differ from `_id` and from each other -/
theorem candset_columns (h : TableCall call a l r oss) (am : Bool) (nj cpu : Int) (C : Frame)
    (hC : call am nj cpu = .ok C)
    (h1 : a.lPre ++ a.lKey ≠ "_id") (h2 : a.rPre ++ a.rKey ≠ "_id") (h3 : a.lPre ++ a.lKey ≠ a.rPre ++ a.rKey) :
    C.colIdx (a.lPre ++ a.lKey) = 1 ∧ C.colIdx (a.rPre ++ a.rKey) = 2 ∧
    C.hasCol (a.lPre ++ a.lKey) = true ∧ C.hasCol (a.rPre ++ a.rKey) = true := by
  have hcols := C11.columns h am nj cpu C hC
  unfold Frame.colIdx Frame.hasCol
  rw [hcols]
  unfold C11.documentedColumns
  simp only [List.cons_append, List.nil_append, List.idxOf_cons, List.contains_cons]
  have e1 : ("_id" == a.lPre ++ a.lKey) = false := by simpa using Ne.symm h1
  have e2 : ("_id" == a.rPre ++ a.rKey) = false := by simpa using Ne.symm h2
  have e3 : (a.lPre ++ a.lKey == a.rPre ++ a.rKey) = false := by simpa using h3
  simp [e1, e2, e3]

/-- every row of the result carries the keys of a left and a right source row -/
theorem candset_rows (h : TableCall call a l r oss) (am : Bool) (nj cpu : Int) (C : Frame)
    (hC : call am nj cpu = .ok C) :
    ∀ row ∈ C.rows, ∃ ls ∈ l.rows, ∃ rs ∈ r.rows, rowKeys row = (keyOf l a.lKey ls, keyOf r a.rKey rs) := by
  intro row hrow
  obtain ⟨i, hi, rfl⟩ := List.getElem_of_mem hrow
  obtain ⟨ls, hls, rs, hrs, -, -, hk, -, -⟩ := C11.projection_faithful h am nj cpu C hC i hi
  exact ⟨ls, hls, rs, hrs, hk⟩

end Candset

/-! ## 3. `apply_matcher` on a candidate set whose key columns are columns 1 and 2, per pair of source rows -/

theorem rowKeys_outRow (a : MatcherArgs) (l r : Frame) (id : Cell) (ls rs : Row) (score : Cell) :
    rowKeys (C05.outRow a l r id ls rs score) = (keyOf l a.lKey ls, keyOf r a.rKey rs) := by
  unfold rowKeys C05.outRow
  rw [withScore_cell _ _ _ 1 (by simp), withScore_cell _ _ _ 2 (by simp)]
  rfl

theorem pairSpec_keys (a : MatcherArgs) (tok : Option (String → List Tok)) (sim : SimArg → SimArg → PyV)
    (l r : Frame) (id : Cell) (ls rs row : Row) (h : C05.pairSpec a tok sim l r id ls rs = some row) :
    rowKeys row = (keyOf l a.lKey ls, keyOf r a.rKey rs) := by
  unfold C05.pairSpec at h
  simp only at h
  split_ifs at h <;> cases h <;> exact rowKeys_outRow _ _ _ _ _ _ _

/-- the key cells of every candidate row occur in the key columns of the two tables (so `apply_matcher` raises no
    KeyError) -/
theorem cand_keys_mem (aM : MatcherArgs) (C l r : Frame)
    (hcl : C.colIdx aM.candLKey = 1) (hcr : C.colIdx aM.candRKey = 2)
    (hsrc : ∀ row ∈ C.rows, ∃ ls ∈ l.rows, ∃ rs ∈ r.rows, rowKeys row = (keyOf l aM.lKey ls, keyOf r aM.rKey rs)) :
    (∀ cr ∈ C.rows, cr.cell (C.colIdx aM.candLKey) ∈ l.col aM.lKey) ∧
    (∀ cr ∈ C.rows, cr.cell (C.colIdx aM.candRKey) ∈ r.col aM.rKey) := by
  have hcell : ∀ cr : Row, (cr.cell (C.colIdx aM.candLKey), cr.cell (C.colIdx aM.candRKey)) = rowKeys cr := by
    intro cr; rw [hcl, hcr]; rfl
  constructor
  · intro cr hcr'
    obtain ⟨ls', hls', rs', hrs', hk⟩ := hsrc cr hcr'
    rw [← hcell cr, Prod.mk.injEq] at hk
    rw [hk.1]
    exact List.mem_map.2 ⟨ls', hls', rfl⟩
  · intro cr hcr'
    obtain ⟨ls', hls', rs', hrs', hk⟩ := hsrc cr hcr'
    rw [← hcell cr, Prod.mk.injEq] at hk
    rw [hk.2]
    exact List.mem_map.2 ⟨rs', hrs', rfl⟩

/-- PER-PAIR CHARACTERISATION of `apply_matcher` (from `C05.keeps_exactly`): if the candidate set's key columns are
    its columns 1 and 2 and each of its rows carries the keys of two source rows, then a pair of source rows with
    present join values is in the matcher's output iff it is listed in the candidate set and `sim_function` of the
    two values satisfies the comparison; and its `_sim_score` is the value `sim_function` returned. -/
theorem matcher_iff (aM : MatcherArgs) (t : Option TokObj) (toks : TokFn) (sim : SimArg → SimArg → PyV) (cpu : Int)
    (C l r P : Frame) (hv : validateMatcher aM t = .ok (C, l, r))
    (hcl : C.colIdx aM.candLKey = 1) (hcr : C.colIdx aM.candRKey = 2)
    (hsrc : ∀ row ∈ C.rows, ∃ ls ∈ l.rows, ∃ rs ∈ r.rows, rowKeys row = (keyOf l aM.lKey ls, keyOf r aM.rKey rs))
    (hlen : C.rows.length < 2 ^ 40)
    (hP : applyMatcher aM t toks sim cpu = .ok P)
    (ls rs : Row) (hls : ls ∈ l.rows) (hrs : rs ∈ r.rows)
    (hpl : Present l aM.lAttr ls) (hpr : Present r aM.rAttr rs)
    (hstr : t.isSome → StrColumn l aM.lAttr ∧ StrColumn r aM.rAttr) :
    (C13.InResult P (keyOf l aM.lKey ls) (keyOf r aM.rKey rs) ↔
      C13.InResult C (keyOf l aM.lKey ls) (keyOf r aM.rKey rs) ∧
      compFn aM.compOp (C05.simValue (C05.tokOf t toks) sim (valOf l aM.lAttr ls) (valOf r aM.rAttr rs))
        aM.threshold = true) ∧
    (aM.outSimScore = true → C13.ScoreOf P (keyOf l aM.lKey ls) (keyOf r aM.rKey rs)
      (scoreCell (C05.simValue (C05.tokOf t toks) sim (valOf l aM.lAttr ls) (valOf r aM.rAttr rs)))) := by
  have hV := (validateMatcher_ok_iff aM t C l r).1 hv
  have hlk := hV.lKeyValid.nodup
  have hrk := hV.rKeyValid.nodup
  have hkeyL : ∀ s₁ ∈ l.rows, ∀ s₂ ∈ l.rows, keyOf l aM.lKey s₁ = keyOf l aM.lKey s₂ → s₁ = s₂ :=
    fun s₁ h₁ s₂ h₂ he => List.inj_on_of_nodup_map hlk h₁ h₂ he
  have hkeyR : ∀ s₁ ∈ r.rows, ∀ s₂ ∈ r.rows, keyOf r aM.rKey s₁ = keyOf r aM.rKey s₂ → s₁ = s₂ :=
    fun s₁ h₁ s₂ h₂ he => List.inj_on_of_nodup_map hrk h₁ h₂ he
  have hcell : ∀ cr : Row, (cr.cell (C.colIdx aM.candLKey), cr.cell (C.colIdx aM.candRKey)) = rowKeys cr := by
    intro cr; rw [hcl, hcr]; rfl
  obtain ⟨hl, hr⟩ := cand_keys_mem aM C l r hcl hcr hsrc
  obtain ⟨P', hP', hrows, -⟩ := C05.keeps_exactly aM t toks sim cpu C l r hv
    (fun cr hcr => PyMem.of_mem (hl cr hcr)) (fun cr hcr => PyMem.of_mem (hr cr hcr)) hlen hstr
  rw [hP] at hP'
  cases Except.ok.inj hP'
  -- what a row of `P` naming the pair looks like
  have hback : ∀ row ∈ P.rows, rowKeys row = (keyOf l aM.lKey ls, keyOf r aM.rKey rs) →
      ∃ cr ∈ C.rows, rowKeys cr = (keyOf l aM.lKey ls, keyOf r aM.rKey rs) ∧
        C05.pairSpec aM (C05.tokOf t toks) sim l r (cr.cell 0) ls rs = some row := by
    intro row hrow hk
    rw [hrows] at hrow
    obtain ⟨cr, hcr', hspec⟩ := List.mem_filterMap.1 hrow
    obtain ⟨ls', hls', rs', hrs', hk'⟩ := hsrc cr hcr'
    have hk'' := hk'
    rw [← hcell cr, Prod.mk.injEq] at hk''
    rw [C05.rowSpec_eq_pairSpec aM _ sim C l r hV.lKeyValid.1 hV.rKeyValid.1 cr ls' rs' hls' hrs' hk''.1.symm hk''.2.symm] at hspec
    have hkr := pairSpec_keys aM _ sim l r _ ls' rs' row hspec
    rw [hk, Prod.mk.injEq] at hkr
    have e1 : ls' = ls := hkeyL ls' hls' ls hls hkr.1.symm
    have e2 : rs' = rs := hkeyR rs' hrs' rs hrs hkr.2.symm
    subst e1 e2
    exact ⟨cr, hcr', hk', hspec⟩
  refine ⟨⟨?_, ?_⟩, ?_⟩
  · rintro ⟨row, hrow, hk⟩
    obtain ⟨cr, hcr', hkc, hspec⟩ := hback row hrow hk
    refine ⟨⟨cr, hcr', hkc⟩, ?_⟩
    rw [C05.present_kept_iff aM _ sim l r _ ls rs hpl hpr] at hspec
    by_contra hno
    rw [if_neg hno] at hspec
    cases hspec
  · rintro ⟨⟨cr, hcr', hkc⟩, hcmp⟩
    have hkc' := hkc
    rw [← hcell cr, Prod.mk.injEq] at hkc'
    have hspec : C05.rowSpec aM (C05.tokOf t toks) sim C l r cr =
        some (C05.outRow aM l r (cr.cell 0) ls rs
          (scoreCell (C05.simValue (C05.tokOf t toks) sim (valOf l aM.lAttr ls) (valOf r aM.rAttr rs)))) := by
      rw [C05.rowSpec_eq_pairSpec aM _ sim C l r hV.lKeyValid.1 hV.rKeyValid.1 cr ls rs hls hrs hkc'.1.symm hkc'.2.symm,
        C05.present_kept_iff aM _ sim l r _ ls rs hpl hpr, if_pos hcmp]
    have hmem : C05.outRow aM l r (cr.cell 0) ls rs
        (scoreCell (C05.simValue (C05.tokOf t toks) sim (valOf l aM.lAttr ls) (valOf r aM.rAttr rs))) ∈ P.rows := by
      rw [hrows]
      exact List.mem_filterMap.2 ⟨cr, hcr', hspec⟩
    exact ⟨_, hmem, rowKeys_outRow aM l r (cr.cell 0) ls rs _⟩
  · intro ho row hrow hk
    obtain ⟨cr, -, -, hspec⟩ := hback row hrow hk
    rw [C05.present_kept_iff aM _ sim l r _ ls rs hpl hpr] at hspec
    split_ifs at hspec
    cases hspec
    exact C05.score_is_last aM l r _ ls rs _ ho

/-! ## 4. the two stages' arguments, derived from the join's arguments -/

/-- first stage (`filter_tables`): the join's tables, keys, join attributes and prefixes; no output attributes;
    its own `n_jobs` -/
def stage1Args (a : JoinArgs) (nj : Int) : TableArgs :=
  { ltable := a.ltable, rtable := a.rtable, lKey := a.lKey, rKey := a.rKey, lAttr := a.lAttr, rAttr := a.rAttr,
    lOut := none, rOut := none, lPre := a.lPre, rPre := a.rPre, nJobs := nj }

/-- second stage (`apply_matcher`): candidate set `C` with key columns `l_<key>`, `r_<key>`; the join's tables, keys,
    join attributes, threshold, operator, flags, output attributes and prefixes; its own `n_jobs` -/
def stage2Args (a : JoinArgs) (C : Frame) (nj : Int) : MatcherArgs :=
  { candset := some C, candLKey := a.lPre ++ a.lKey, candRKey := a.rPre ++ a.rKey,
    ltable := a.ltable, rtable := a.rtable, lKey := a.lKey, rKey := a.rKey, lAttr := a.lAttr, rAttr := a.rAttr,
    threshold := a.threshold, compOp := a.compOp, allowMissing := a.allowMissing,
    lOut := a.lOut, rOut := a.rOut, lPre := a.lPre, rPre := a.rPre, outSimScore := a.outSimScore, nJobs := nj }

/-- the first stage's table arguments are valid whenever the join's are -/
theorem stage1_valid (mname : String) (a : JoinArgs) (t : TokObj) (l r : Frame) (nj : Int)
    (hv : validateJoin mname a t = .ok (l, r)) :
    validateTablesAttrs (stage1Args a nj) = .ok (l, r) ∧ validateOutAndKeys (stage1Args a nj) l r = .ok () := by
  obtain ⟨h1, h2⟩ := validateJoin_parts mname a t l r hv
  refine ⟨h1, ?_⟩
  rw [EntryLaws.validateOutAndKeys_ok_iff] at h2 ⊢
  exact ⟨rfl, rfl, h2.2.2.1, h2.2.2.2⟩

/-- the second stage's arguments are valid whenever the join's are and the candidate set has the two key columns -/
theorem stage2_valid (mname : String) (a : JoinArgs) (t : TokObj) (l r C : Frame) (nj : Int)
    (hv : validateJoin mname a t = .ok (l, r))
    (hop : a.compOp ∈ [">=", ">", "<=", "<", "=", "!="])
    (hc1 : C.hasCol (a.lPre ++ a.lKey) = true) (hc2 : C.hasCol (a.rPre ++ a.rKey) = true)
    (t' : Option TokObj) (ht : t' = some t ∨ t' = none) :
    validateMatcher (stage2Args a C nj) t' = .ok (C, l, r) := by
  obtain ⟨hT, hTok, -, -, hO, hkl, hkr⟩ := (validateJoin_ok_iff mname a t l r).1 hv
  rw [validateMatcher_ok_iff]
  refine ⟨rfl, hT.ltable, hT.rtable, hc1, hc2, hT.lKey, hT.rKey, hT.lAttr, hT.rAttr, hO.1, hO.2, ?_, hop, hkl, hkr⟩
  intro tk htk
  rcases ht with rfl | rfl
  · cases htk; exact hTok.1
  · cases htk

/-- the second stage returns a frame: on the candidate set of ANY entry point run on `stage1Args` (fewer than 2⁴⁰
    rows), `apply_matcher` with `stage2Args` does not raise -/
theorem stage2_total (mname : String) (a : JoinArgs) (t : TokObj) (l r : Frame)
    (hv : validateJoin mname a t = .ok (l, r)) (hop : a.compOp ∈ [">=", ">", "<=", "<", "=", "!="])
    (hn1 : a.lPre ++ a.lKey ≠ "_id") (hn2 : a.rPre ++ a.rKey ≠ "_id") (hn3 : a.lPre ++ a.lKey ≠ a.rPre ++ a.rKey)
    {call : Bool → Int → Int → Except PyErr Frame} (nj₁ : Int) (hcall : TableCall call (stage1Args a nj₁) l r false)
    (am : Bool) (nj cpu₁ : Int) (C : Frame) (hC : call am nj cpu₁ = .ok C) (hClen : C.rows.length < 2 ^ 40)
    (t' : Option TokObj) (ht : t' = some t ∨ t' = none) (toks : TokFn) (sim : SimArg → SimArg → PyV)
    (nj₂ cpu₂ : Int) : ∃ P, applyMatcher (stage2Args a C nj₂) t' toks sim cpu₂ = .ok P := by
  obtain ⟨c1, c2, c3, c4⟩ := candset_columns hcall am nj cpu₁ C hC hn1 hn2 hn3
  have hsrc := candset_rows hcall am nj cpu₁ C hC
  have hvM := stage2_valid mname a t l r C nj₂ hv hop c3 c4 t' ht
  obtain ⟨hl, hr⟩ := cand_keys_mem (stage2Args a C nj₂) C l r c1 c2 hsrc
  obtain ⟨P, hP, -⟩ := C05.keeps_exactly (stage2Args a C nj₂) t' toks sim cpu₂ C l r hvM
    (fun cr hcr => PyMem.of_mem (hl cr hcr)) (fun cr hcr => PyMem.of_mem (hr cr hcr)) hClen
    (fun _ => ⟨(hcall.bodyOK hC).lstr, (hcall.bodyOK hC).rstr⟩)
  exact ⟨P, hP⟩

/-! ## 5. the two pipelines, per pair of source rows, for an abstract SAFE first stage -/

/-- a comparison (`>=`, `>`, `=`) of the set similarity against a positive float threshold can only hold if the
    similarity is a float reaching the threshold -/
theorem reaches_of_comp (m : Measure) (hm : SetMeasure m) (op : String) (hop : op ∈ [">=", ">", "="])
    (thr : Rat) (h0 : 0 < thr) (A B : List Tok) (hA : A.Nodup) (hB : B.Nodup)
    (hAs : A.length < 2 ^ 32) (hBs : B.length < 2 ^ 32)
    (h : compFn op (Spec.simSet m A B) (.float thr) = true) :
    ∃ s : Rat, Spec.simSet m A B = .float s ∧ thr ≤ s := by
  rcases EntryFilters.simSet_cases m hm A B hA hB hAs hBs with e | ⟨s, e⟩
  · rw [e, EntrySetSim.compFn_int0_false hop h0] at h
    cases h
  · rw [e] at h
    exact ⟨s, e, EntrySetSim.compFn_float_ge hop h⟩

/-- non-straddling w.r.t. the LIST similarity (what the pipeline's second stage computes) implies non-straddling
    w.r.t. the SET similarity (`C13.NonStraddling`, what the join's characterisation needs) -/
theorem c13_nonStraddling (m : Measure) (hm : SetMeasure m) (op : String) (thr : Rat) (A B : List Tok)
    (hA : A.Nodup) (hB : B.Nodup) (hAs : A.length < 2 ^ 32) (hBs : B.length < 2 ^ 32)
    (h : compFn op (simRaw m A B) (.float thr) = compFn op (PyV.round (simRaw m A B) (.int 4)) (.float thr)) :
    C13.NonStraddling m op thr A B := by
  have hround := round_simRaw_eq_score4 m hm A B hA hB hAs hBs
  unfold C13.NonStraddling Spec.qualStrict Spec.qualRounded
  by_cases hc : Spec.sameSet A B = true → A = B
  · rw [← simRaw_eq_simSet m A B hA hB hc, ← hround, h, Bool.and_self]
  · rw [Classical.not_imp] at hc
    have hset : Spec.simSet m A B = .float 1 := by
      unfold Spec.simSet
      rw [if_pos hc.1]
    have hsc : Spec.score4 m A B = .float 1 := by
      unfold Spec.score4
      rw [hset, round4_f, round4_one]
    rw [hset, hsc, Bool.and_self]

section SetSimCore
variable (m : Measure) (a : JoinArgs) (t : TokObj) (toks : TokFn) (l r : Frame)

/-- CORE of C07 for jaccard / cosine / dice.  The first stage is ANY entry point `call` run on `stage1Args` that is
    SAFE for the pair (`hsafe`: lists it whenever its set similarity reaches the threshold). -/
theorem setsim_core (hm : SetMeasure m) (hv : validateJoin m.name a t = .ok (l, r))
    (thr : Rat) (hthr : a.threshold = .float thr) (hok : ThrOK thr) (hs : InScope (toks true) r)
    (hset : t.returnSet = true)
    (hn1 : a.lPre ++ a.lKey ≠ "_id") (hn2 : a.rPre ++ a.rKey ≠ "_id") (hn3 : a.lPre ++ a.lKey ≠ a.rPre ++ a.rKey)
    {call : Bool → Int → Int → Except PyErr Frame} (nj₁ : Int) (hcall : TableCall call (stage1Args a nj₁) l r false)
    (am : Bool) (nj cpu₁ : Int) (C : Frame) (hC : call am nj cpu₁ = .ok C) (hClen : C.rows.length < 2 ^ 40)
    (sim : SimArg → SimArg → PyV) (hsim : ∀ A B, sim (.toks A) (.toks B) = simRaw m A B)
    (nj₂ cpu₂ : Int) (P : Frame) (h2 : applyMatcher (stage2Args a C nj₂) (some t) toks sim cpu₂ = .ok P)
    (cpu : Int) (J : Frame) (hJ : (setSimJoinPy m a t toks cpu).result = .ok J)
    (ls rs : Row) (hls : ls ∈ l.rows) (hrs : rs ∈ r.rows)
    (hpl : Present l a.lAttr ls) (hpr : Present r a.rAttr rs)
    (hne : Spec.bothEmpty (tokensOf (toks true) l a.lAttr ls) (tokensOf (toks true) r a.rAttr rs) = false)
    (hsafe : ∀ s : Rat, Spec.simSet m (tokensOf (toks true) l a.lAttr ls) (tokensOf (toks true) r a.rAttr rs) = .float s →
      thr ≤ s → C13.InResult C (keyOf l a.lKey ls) (keyOf r a.rKey rs))
    (hns : compFn a.compOp (simRaw m (tokensOf (toks true) l a.lAttr ls) (tokensOf (toks true) r a.rAttr rs)) (.float thr) =
      compFn a.compOp (PyV.round (simRaw m (tokensOf (toks true) l a.lAttr ls) (tokensOf (toks true) r a.rAttr rs)) (.int 4))
        (.float thr)) :
    (C13.InResult P (keyOf l a.lKey ls) (keyOf r a.rKey rs) ↔ C13.InResult J (keyOf l a.lKey ls) (keyOf r a.rKey rs)) ∧
    (a.outSimScore = true →
      C13.ScoreOf P (keyOf l a.lKey ls) (keyOf r a.rKey rs)
        (scoreCell (simRaw m (tokensOf (toks true) l a.lAttr ls) (tokensOf (toks true) r a.rAttr rs))) ∧
      C13.ScoreOf J (keyOf l a.lKey ls) (keyOf r a.rKey rs)
        (scoreCell (PyV.round (simRaw m (tokensOf (toks true) l a.lAttr ls) (tokensOf (toks true) r a.rAttr rs))
          (.int 4)))) := by
  obtain ⟨-, -, hop⟩ := EntrySetSim.of_validateJoin hm hv
  have hop6 : a.compOp ∈ [">=", ">", "<=", "<", "=", "!="] := by
    simp only [List.mem_cons, List.not_mem_nil, or_false] at hop ⊢
    rcases hop with h | h | h <;> simp [h]
  obtain ⟨c1, c2, c3, c4⟩ := candset_columns hcall am nj cpu₁ C hC hn1 hn2 hn3
  have hsrc := candset_rows hcall am nj cpu₁ C hC
  have hvM := stage2_valid m.name a t l r C nj₂ hv hop6 c3 c4 (some t) (Or.inl rfl)
  have hM := matcher_iff (stage2Args a C nj₂) (some t) toks sim cpu₂ C l r P hvM c1 c2 hsrc hClen h2 ls rs hls hrs hpl hpr
    (fun _ => ⟨(hcall.bodyOK hC).lstr, (hcall.bodyOK hC).rstr⟩)
  set A := tokensOf (toks true) l a.lAttr ls with hA
  set B := tokensOf (toks true) r a.rAttr rs with hB
  have hAn : A.Nodup := hs.nodup _
  have hBn : B.Nodup := hs.nodup _
  have hAs : A.length < 2 ^ 32 := hs.small _
  have hBs : B.length < 2 ^ 32 := hs.small _
  have hnsJ := c13_nonStraddling m hm a.compOp thr A B hAn hBn hAs hBs hns
  have hJ' := C13.setsim_iff m a t toks cpu l r hm hv thr hthr hok hs J hJ ls rs hls hrs hpl hpr hne hnsJ
  have hround := round_simRaw_eq_score4 m hm A B hAn hBn hAs hBs
  have hval : C05.simValue (C05.tokOf (some t) toks) sim (valOf l a.lAttr ls) (valOf r a.rAttr rs) = simRaw m A B := by
    show sim (.toks (toks t.returnSet _)) (.toks (toks t.returnSet _)) = _
    rw [hset, hsim]
    rfl
  have hM1 : C13.InResult P (keyOf l a.lKey ls) (keyOf r a.rKey rs) ↔
      C13.InResult C (keyOf l a.lKey ls) (keyOf r a.rKey rs) ∧
      compFn a.compOp (C05.simValue (C05.tokOf (some t) toks) sim (valOf l a.lAttr ls) (valOf r a.rAttr rs))
        a.threshold = true := hM.1
  have hM2 : a.outSimScore = true → C13.ScoreOf P (keyOf l a.lKey ls) (keyOf r a.rKey rs)
      (scoreCell (C05.simValue (C05.tokOf (some t) toks) sim (valOf l a.lAttr ls) (valOf r a.rAttr rs))) := hM.2
  rw [hval, hthr] at hM1
  rw [hval] at hM2
  have hq : compFn a.compOp (simRaw m A B) (.float thr) = Spec.qualRounded m a.compOp (.float thr) A B := by
    unfold Spec.qualRounded
    rw [← hround]
    exact hns
  refine ⟨?_, fun ho => ⟨hM2 ho, ?_⟩⟩
  · rw [hM1, hJ'.1, hq]
    refine ⟨fun h => h.2, fun h => ⟨?_, h⟩⟩
    have hstrict : Spec.qualStrict m a.compOp (.float thr) A B = true := by rw [hnsJ]; exact h
    unfold Spec.qualStrict at hstrict
    rw [Bool.and_eq_true] at hstrict
    obtain ⟨s, hs1, hs2⟩ := reaches_of_comp m hm a.compOp hop thr hok.pos A B hAn hBn hAs hBs hstrict.1
    exact hsafe s hs1 hs2
  · rw [hround]
    exact hJ'.2 ho

end SetSimCore

section EDCore
open SSJ.Spec
variable (a : JoinArgs) (t : TokObj) (toks : TokFn) (l r : Frame)

/-- CORE of C07 for edit distance.  The first stage is ANY entry point `call` run on `stage1Args`; the second stage is
    `apply_matcher` WITHOUT tokenizer and the Levenshtein distance on the raw strings as `sim_function`.
    Characterises membership in the pipeline's result and in the join's result. -/
theorem ed_core (hv : validateJoin "EDIT_DISTANCE" a t = .ok (l, r))
    (tau : Int) (hthr : a.threshold = .int tau) (hrows : r.rows.length < 2 ^ 40)
    (q : Nat) (hq : t.qval = q) (pad : Bool) (htok : ∀ s, toks false s = qgrams q pad s)
    (hn1 : a.lPre ++ a.lKey ≠ "_id") (hn2 : a.rPre ++ a.rKey ≠ "_id") (hn3 : a.lPre ++ a.lKey ≠ a.rPre ++ a.rKey)
    {call : Bool → Int → Int → Except PyErr Frame} (nj₁ : Int) (hcall : TableCall call (stage1Args a nj₁) l r false)
    (am : Bool) (nj cpu₁ : Int) (C : Frame) (hC : call am nj cpu₁ = .ok C) (hClen : C.rows.length < 2 ^ 40)
    (sim : SimArg → SimArg → PyV) (hsim : ∀ s s', sim (.raw (.str s)) (.raw (.str s')) = .int (lev s s'))
    (nj₂ cpu₂ : Int) (P : Frame) (h2 : applyMatcher (stage2Args a C nj₂) none toks sim cpu₂ = .ok P)
    (cpu : Int) (J : Frame) (hJ : (editDistanceJoinPy a t toks cpu).result = .ok J)
    (ls rs : Row) (hls : ls ∈ l.rows) (hrs : rs ∈ r.rows)
    (s s' : String) (hsl : valOf l a.lAttr ls = .str s) (hsr : valOf r a.rAttr rs = .str s') :
    (C13.InResult P (keyOf l a.lKey ls) (keyOf r a.rKey rs) ↔
      C13.InResult C (keyOf l a.lKey ls) (keyOf r a.rKey rs) ∧ qualED a.compOp tau s s' = true) ∧
    (C13.InResult J (keyOf l a.lKey ls) (keyOf r a.rKey rs) ↔
      qualED a.compOp tau s s' = true ∧ shareToken (qgrams q pad) s s' = true) ∧
    (a.outSimScore = true →
      C13.ScoreOf P (keyOf l a.lKey ls) (keyOf r a.rKey rs) (.int (lev s s')) ∧
      C13.ScoreOf J (keyOf l a.lKey ls) (keyOf r a.rKey rs) (.int (lev s s'))) := by
  have hpl : Present l a.lAttr ls := by unfold Present; rw [hsl]; rfl
  have hpr : Present r a.rAttr rs := by unfold Present; rw [hsr]; rfl
  have hstrL : strOf l a.lAttr ls = s := by unfold strOf; rw [hsl]; rfl
  have hstrR : strOf r a.rAttr rs = s' := by unfold strOf; rw [hsr]; rfl
  have hopED := EntryED.op_cases a.compOp ((validateJoin_ok_iff _ a t l r).1 hv).2.2.2.1
  have hop6 : a.compOp ∈ [">=", ">", "<=", "<", "=", "!="] := by
    rcases hopED with h | h | h <;> simp [h]
  obtain ⟨c1, c2, c3, c4⟩ := candset_columns hcall am nj cpu₁ C hC hn1 hn2 hn3
  have hsrc := candset_rows hcall am nj cpu₁ C hC
  have hvM := stage2_valid "EDIT_DISTANCE" a t l r C nj₂ hv hop6 c3 c4 none (Or.inr rfl)
  have hM := matcher_iff (stage2Args a C nj₂) none toks sim cpu₂ C l r P hvM c1 c2 hsrc hClen h2 ls rs hls hrs hpl hpr
    (fun _ => ⟨(hcall.bodyOK hC).lstr, (hcall.bodyOK hC).rstr⟩)
  have hqn : t.qval.toNat = q := by rw [hq]; exact Int.toNat_natCast q
  have hJ' := C13.ed_iff a t toks cpu l r tau hv (by rw [hthr]; rfl) hrows pad (by rw [hqn]; exact htok) J hJ
    ls rs hls hrs hpl hpr
  rw [hqn, hstrL, hstrR] at hJ'
  have hval : C05.simValue (C05.tokOf none toks) sim (valOf l a.lAttr ls) (valOf r a.rAttr rs) = .int (lev s s') := by
    show sim (.raw (valOf l a.lAttr ls)) (.raw (valOf r a.rAttr rs)) = _
    rw [hsl, hsr, hsim]
  have hM1 : C13.InResult P (keyOf l a.lKey ls) (keyOf r a.rKey rs) ↔
      C13.InResult C (keyOf l a.lKey ls) (keyOf r a.rKey rs) ∧
      compFn a.compOp (C05.simValue (C05.tokOf none toks) sim (valOf l a.lAttr ls) (valOf r a.rAttr rs))
        a.threshold = true := hM.1
  have hM2 : a.outSimScore = true → C13.ScoreOf P (keyOf l a.lKey ls) (keyOf r a.rKey rs)
      (scoreCell (C05.simValue (C05.tokOf none toks) sim (valOf l a.lAttr ls) (valOf r a.rAttr rs))) := hM.2
  rw [hval, hthr] at hM1
  rw [hval] at hM2
  exact ⟨hM1, hJ'.1, fun ho => ⟨hM2 ho, hJ'.2 ho⟩⟩

end EDCore

/-! ## 6. safety of the concrete first stages, in the form `setsim_core` / the ED theorems use -/

theorem not_both_of_bothEmpty (A B : List Tok) (h : Spec.bothEmpty A B = false) :
    ¬ (A.length = 0 ∧ B.length = 0) := by
  rintro ⟨h1, h2⟩
  simp [Spec.bothEmpty, h1, h2] at h

section StageSafe
variable (m : Measure) (a : JoinArgs) (t : TokObj) (toks : TokFn) (l r : Frame)

/-- Size / Prefix / Position / SuffixFilter.filter_tables (measure and threshold of the join, tokenizer in set mode)
    list every pair whose set similarity reaches the threshold (`C04.tables_safe_*`) -/
theorem filter_stage_safe (hm : SetMeasure m) (mname : String) (hv : validateJoin mname a t = .ok (l, r))
    (thr : Rat) (hok : ThrOK thr) (hs : InScope (toks true) r) (hset : t.returnSet = true)
    (k : FilterKind) (f : FilterObj) (h4 : k = .suffix → prefThr m ≤ thr)
    (hmeas : f.cfg.measure = m) (hfthr : f.cfg.threshold = .float thr)
    (nj cpu₁ : Int) (C : Frame) (hres : filterTables k f (stage1Args a nj) t toks cpu₁ = .ok C)
    (ls rs : Row) (hls : ls ∈ l.rows) (hrs : rs ∈ r.rows)
    (hpl : Present l a.lAttr ls) (hpr : Present r a.rAttr rs)
    (hne : Spec.bothEmpty (tokensOf (toks true) l a.lAttr ls) (tokensOf (toks true) r a.rAttr rs) = false)
    (s : Rat) (hs1 : Spec.simSet m (tokensOf (toks true) l a.lAttr ls) (tokensOf (toks true) r a.rAttr rs) = .float s)
    (hs2 : thr ≤ s) : C13.InResult C (keyOf l a.lKey ls) (keyOf r a.rKey rs) := by
  obtain ⟨hv1, hk1⟩ := stage1_valid mname a t l r nj hv
  have key := EntryFilters.filterTables_safe_set k f (stage1Args a nj) t toks cpu₁ l r C m hm thr hok hmeas hfthr hv1 hk1
    hs.rows (by rw [hset]; exact hs.nodup) (by rw [hset]; exact hs.small) hres ls rs hls hrs hpl hpr
  rw [hset] at key
  exact key (not_both_of_bothEmpty _ _ hne) s hs1 hs2 h4

/-- OverlapFilter(overlap_size = 1, '>=').filter_tables lists every pair whose set similarity reaches a positive
    threshold: such a pair has a common token (`C04.overlap_filter_tables_exact`) -/
theorem overlap_stage_safe (hm : SetMeasure m) (mname : String) (hv : validateJoin mname a t = .ok (l, r))
    (thr : Rat) (hok : ThrOK thr) (hs : InScope (toks true) r) (hset : t.returnSet = true)
    (fo : OverlapFilterObj) (hsize : fo.overlapSize = .int 1) (hop : fo.compOp = ">=")
    (nj cpu₁ : Int) (C : Frame) (hres : overlapFilterTables fo (stage1Args a nj) false (toks t.returnSet) cpu₁ = .ok C)
    (ls rs : Row) (hls : ls ∈ l.rows) (hrs : rs ∈ r.rows)
    (hpl : Present l a.lAttr ls) (hpr : Present r a.rAttr rs)
    (hne : Spec.bothEmpty (tokensOf (toks true) l a.lAttr ls) (tokensOf (toks true) r a.rAttr rs) = false)
    (s : Rat) (hs1 : Spec.simSet m (tokensOf (toks true) l a.lAttr ls) (tokensOf (toks true) r a.rAttr rs) = .float s)
    (hs2 : thr ≤ s) : C13.InResult C (keyOf l a.lKey ls) (keyOf r a.rKey rs) := by
  obtain ⟨hv1, hk1⟩ := stage1_valid mname a t l r nj hv
  rw [hset] at hres
  have key := EntryFilters.overlapFilterTables_iff fo (stage1Args a nj) false (toks true) cpu₁ l r C hs.nodup hv1 hk1
    hs.rows hres ls rs hls hrs hpl hpr
  have h1 := (EntryFilters.qual_facts m hm thr hok _ _ (hs.nodup _) (hs.nodup _) (hs.small _) (hs.small _)
    (not_both_of_bothEmpty _ _ hne) s hs1 hs2).1
  refine key.2 ⟨h1, ?_⟩
  rw [hop, hsize, EntryFilters.compFn_ge]
  simp only [PyV.geb, PyV.leb, PyV.numVal?, decide_eq_true_eq]
  exact_mod_cast h1

end StageSafe

end EntryPipeline
end SSJ

section AxiomCheck
open SSJ.EntryPipeline
#print axioms round_simRaw_eq_score4
#print axioms candset_columns
#print axioms candset_rows
#print axioms matcher_iff
#print axioms stage1_valid
#print axioms stage2_valid
#print axioms c13_nonStraddling
#print axioms setsim_core
#print axioms ed_core
#print axioms stage2_total
#print axioms filter_stage_safe
#print axioms overlap_stage_safe
end AxiomCheck

/-
  SSJ.Proofs.FloatThr — FLOAT thresholds under EDIT_DISTANCE and OVERLAP (finding F9, repaired in filter_utils.py:
  every bound is now `int(ceil(..))` / `int(floor(..))` / `int(min(..))` / `int(max(..))`).
-/
import SSJ.Proofs.EntryFilters
import SSJ.Proofs.PositionBag
import SSJ.Proofs.SuffixBag

namespace SSJ
namespace FloatThr
open SSJ.Props SSJ.Spec F64 EntryFilters

/-! ## 1. rounding never crosses a representable integer, signed versions -/

theorem rn_le_int_s {q : Rat} {k : Int} (hq : -(2 ^ 53) ≤ q) (hk : (k : Rat) ≤ 2 ^ 53) (h : q ≤ k) : rn q ≤ k := by
  rcases le_or_gt 0 q with h0 | h0
  · exact rn_le_int h0 hk h
  · -- q < 0
    rcases le_or_gt 0 k with hk0 | hk0
    · have : rn q ≤ 0 := by
        have := rn_nonneg (q := -q) (by linarith)
        rw [rn_neg] at this; linarith
      have hk0' : (0 : Rat) ≤ (k : Rat) := by exact_mod_cast hk0
      linarith
    · have := rn_ge_int (q := -q) (k := -k) (by omega) (by linarith) (by push_cast; linarith)
      rw [rn_neg] at this; push_cast at this; linarith

theorem rn_ge_int_s {q : Rat} {k : Int} (hq : q ≤ 2 ^ 53) (hk : -(2 ^ 53) ≤ (k : Rat)) (h : (k : Rat) ≤ q) :
    (k : Rat) ≤ rn q := by
  have := rn_le_int_s (q := -q) (k := -k) (by linarith) (by push_cast; linarith) (by push_cast; linarith)
  rw [rn_neg] at this; push_cast at this; linarith

theorem ofExact_float_s {q : Rat} (h1 : -(2 ^ 100) ≤ q) (h2 : q ≤ 2 ^ 100) : PyV.ofExact q = .float (rn q) := by
  rcases le_or_gt 0 q with h0 | h0
  · exact ofExact_float h0 h2
  · have hb := rn_le_big (q := -q) (by linarith) (by linarith)
    have hn := rn_nonneg (q := -q) (by linarith)
    rw [rn_neg] at hb hn
    have hh : (2 : Rat) ^ 101 < huge := by
      simp only [huge, Nat.cast_pow, Nat.cast_ofNat]; exact pow_lt_pow_right₀ (by norm_num) (by norm_num)
    unfold PyV.ofExact
    simp only [ge_iff_le]
    rw [if_neg (by linarith), if_neg (by linarith)]


/-! ## 2. `PyV` evaluation steps with a float operand -/

theorem mul_nf (n : Nat) (y : Rat) (hn : (n : Rat) ≤ 2 ^ 53) :
    PyV.mul (.int (n : Int)) (.float y) = PyV.ofExact (n * y) := by
  simp [PyV.mul, PyV.floatOp, intToFloat_nat hn]

theorem add_f1 (x : Rat) : PyV.add (.float x) (.int 1) = PyV.ofExact (x + 1) := by
  have := intToFloat_nat (n := 1) (by norm_num)
  simp only [Nat.cast_one] at this
  simp [PyV.add, PyV.floatOp, this]

theorem natCast_le_53 {n : Nat} (h : n < 2 ^ 32) : (n : Rat) ≤ 2 ^ 53 := by
  have : (n : Rat) ≤ 2 ^ 32 := by exact_mod_cast h.le
  linarith [show (2 : Rat) ^ 32 ≤ 2 ^ 53 by norm_num]

/-- `n - t` in floating point -/
theorem sub_nf_val (n : Nat) (t : Rat) (hn : n < 2 ^ 32) (ht0 : 0 ≤ t) (ht : t ≤ 2 ^ 40) :
    PyV.sub (.int (n : Int)) (.float t) = .float (rn (n - t)) := by
  have hn' : (n : Rat) ≤ 2 ^ 32 := by exact_mod_cast hn.le
  have hn0 : (0 : Rat) ≤ n := by positivity
  rw [sub_nf n t (natCast_le_53 hn), ofExact_float_s (by linarith [show (2:Rat)^40 ≤ 2^100 by norm_num])
    (by linarith [show (2:Rat)^32 ≤ 2^100 by norm_num])]

/-- `n + t` in floating point -/
theorem add_nf_val (n : Nat) (t : Rat) (hn : n < 2 ^ 32) (ht0 : 0 ≤ t) (ht : t ≤ 2 ^ 40) :
    PyV.add (.int (n : Int)) (.float t) = .float (rn (n + t)) := by
  have hn' : (n : Rat) ≤ 2 ^ 32 := by exact_mod_cast hn.le
  have hn0 : (0 : Rat) ≤ n := by positivity
  rw [add_nf n t (natCast_le_53 hn), ofExact_float (by linarith)
    (by linarith [show (2:Rat)^32 + 2^40 ≤ 2^100 by norm_num])]


/-! ## 3. EDIT_DISTANCE with a float threshold `t`: shape of the generated bounds -/

/-- the configuration of a filter under EDIT_DISTANCE with a FLOAT threshold `t`, q-gram size `q` -/
abbrev edCfgF (t : Rat) (q : Int) : FCfg := { measure := .editDistance, threshold := .float t, qval := .int q }

/-- `tokenizer.qval * threshold` as computed (one rounding) -/
def qtF (q : Nat) (t : Rat) : Rat := rn ((q : Rat) * t)

/-- `int(qval * threshold + 1)` as computed (two roundings, truncation) -/
def prefF (q : Nat) (t : Rat) : Int := (rn (qtF q t + 1)).floor

section Shapes
variable (c : FCfg) (t : Rat) (q : Nat) (ht0 : 0 ≤ t) (ht1 : t ≤ 2 ^ 30)
include ht0 ht1

theorem lower_ed_f (hm : c.measure = .editDistance) (ht : c.threshold = .float t) (n : Nat) (hn : n < 2 ^ 32) :
    c.lower n = (rn ((n : Rat) - t)).ceil := by
  unfold FCfg.lower FCfg.lowerV Gen.get_size_lower_bound
  simp only [hm, ht, Measure.name, ed_e1, ed_e2, ed_e3, Bool.false_eq_true, if_false, if_true]
  rw [sub_nf_val n t hn ht0 (by linarith [show (2:Rat)^30 ≤ 2^40 by norm_num])]
  simp only [PyV.ceil, PyV.toInt, PyV.toIntD]

theorem upper_ed_f (hm : c.measure = .editDistance) (ht : c.threshold = .float t) (n : Nat) (hn : n < 2 ^ 32) :
    c.upper n = (rn ((n : Rat) + t)).floor := by
  unfold FCfg.upper FCfg.upperV Gen.get_size_upper_bound
  simp only [hm, ht, Measure.name, ed_e1, ed_e2, ed_e3, Bool.false_eq_true, if_false, if_true]
  rw [add_nf_val n t hn ht0 (by linarith [show (2:Rat)^30 ≤ 2^40 by norm_num])]
  simp only [PyV.floor, PyV.toInt, PyV.toIntD]

theorem qt_bounds (hq : q ≤ 2 ^ 10) : 0 ≤ (q : Rat) * t ∧ (q : Rat) * t ≤ 2 ^ 40 := by
  have hq' : (q : Rat) ≤ 2 ^ 10 := by exact_mod_cast hq
  have hq0 : (0 : Rat) ≤ q := by positivity
  constructor
  · positivity
  · nlinarith

theorem qtF_bounds (hq : q ≤ 2 ^ 10) : 0 ≤ qtF q t ∧ qtF q t ≤ 2 ^ 40 := by
  obtain ⟨h1, h2⟩ := qt_bounds t q ht0 ht1 hq
  refine ⟨rn_nonneg h1, ?_⟩
  have := rn_le_int (q := (q : Rat) * t) (k := 2 ^ 40) h1 (by norm_num) (by push_cast; exact h2)
  push_cast at this
  exact this

/-- `tokenizer.qval * threshold` evaluates to the float `qtF q t` -/
theorem mul_qt (hq : q ≤ 2 ^ 10) : PyV.mul (.int (q : Int)) (.float t) = .float (qtF q t) := by
  obtain ⟨h1, h2⟩ := qt_bounds t q ht0 ht1 hq
  have hq' : (q : Rat) ≤ 2 ^ 10 := by exact_mod_cast hq
  rw [mul_nf q t (by linarith [show (2:Rat)^10 ≤ 2^53 by norm_num]),
    ofExact_float h1 (by linarith [show (2:Rat)^40 ≤ 2^100 by norm_num])]
  rfl

theorem prefixLen_ed_f (hq : q ≤ 2 ^ 10) (n : Nat) :
    (edCfgF t q).prefixLen n = if n = 0 then 0 else min (prefF q t) (n : Int) := by
  have e0 : PyV.eqb (.int (n : Int)) (.int 0) = decide (n = 0) := eqb_int0 n
  obtain ⟨h1, h2⟩ := qtF_bounds t q ht0 ht1 hq
  unfold FCfg.prefixLen FCfg.prefixV Gen.get_prefix_length
  simp only [Measure.name, e0, ed_e1, ed_e2, ed_e3]
  by_cases hn : n = 0
  · simp [hn, PyV.toIntD]
  · simp only [hn, decide_false, Bool.false_eq_true, if_false, if_true]
    rw [mul_qt t q ht0 ht1 hq, add_f1, ofExact_float (by linarith)
      (by linarith [show (2:Rat)^40 + 1 ≤ 2^100 by norm_num])]
    have hP : 0 ≤ rn (qtF q t + 1) := rn_nonneg (by linarith)
    simp only [PyV.min, PyV.ltb, PyV.numVal?]
    unfold prefF
    by_cases h : ((n : Int) : Rat) < rn (qtF q t + 1)
    · simp only [h, decide_true, if_true, PyV.toInt, PyV.toIntD]
      have : (n : Int) ≤ (rn (qtF q t + 1)).floor := Rat.le_floor_iff.2 h.le
      omega
    · simp only [h, decide_false, Bool.false_eq_true, if_false, PyV.toInt, PyV.toIntD, ge_iff_le, hP, if_true]
      have h' : rn (qtF q t + 1) ≤ (n : Rat) := by exact_mod_cast not_lt.1 h
      have : (rn (qtF q t + 1)).floor < (n : Int) + 1 := Rat.floor_lt_iff.2 (by push_cast; linarith)
      omega

end Shapes

/-- the integer part of the EDIT_DISTANCE overlap threshold: `max(l + q - 1, r + q - 1) - q + 1 = max(l, r)` -/
theorem ovThr_int_part (l r : Nat) (q : Int) :
    PyV.add (PyV.sub (PyV.max (PyV.sub (PyV.add (.int (l : Int)) (.int q)) (.int 1))
      (PyV.sub (PyV.add (.int (r : Int)) (.int q)) (.int 1))) (.int q)) (.int 1) = .int ((max l r : Nat) : Int) := by
  simp only [PyV.add, PyV.sub, PyV.max, PyV.gtb, PyV.ltb, PyV.numVal?]
  by_cases h : (l : Int) + q - 1 < (r : Int) + q - 1
  · have h' : (((l : Int) + q - 1 : Int) : Rat) < (((r : Int) + q - 1 : Int) : Rat) := by exact_mod_cast h
    simp only [h', decide_true, if_true]
    congr 1; omega
  · have h' : ¬ (((l : Int) + q - 1 : Int) : Rat) < (((r : Int) + q - 1 : Int) : Rat) := by exact_mod_cast h
    simp only [h', decide_false, Bool.false_eq_true, if_false]
    congr 1; omega

theorem ovThr_ed_f (t : Rat) (q : Nat) (ht0 : 0 ≤ t) (ht1 : t ≤ 2 ^ 30) (hq : q ≤ 2 ^ 10) (l r : Nat)
    (hl : l < 2 ^ 32) (hr : r < 2 ^ 32) :
    (edCfgF t q).ovThr l r = (rn (((max l r : Nat) : Rat) - qtF q t)).ceil := by
  obtain ⟨h1, h2⟩ := qtF_bounds t q ht0 ht1 hq
  unfold FCfg.ovThr FCfg.ovThrV Gen.get_overlap_threshold
  simp only [Measure.name, ed_e1, ed_e2, ed_e3, Bool.false_eq_true, if_false, if_true]
  rw [ovThr_int_part, mul_qt t q ht0 ht1 hq, sub_nf_val _ _ (by omega) h1 h2]
  simp only [PyV.ceil, PyV.toInt, PyV.toIntD]

/-! ## 4. EDIT_DISTANCE with a float threshold `t`: every bound is at least as permissive as with the int
       threshold `⌊t⌋` -/

section Permissive
variable (t : Rat) (q : Nat) (ht0 : 0 ≤ t) (ht1 : t ≤ 2 ^ 30)
include ht0 ht1

theorem floor_bounds : 0 ≤ t.floor ∧ ((t.floor : Int) : Rat) ≤ t ∧ ((t.floor : Int) : Rat) ≤ 2 ^ 30 := by
  have h1 : ((t.floor : Int) : Rat) ≤ t := Rat.floor_le t
  exact ⟨Rat.le_floor_iff.2 (by simpa using ht0), h1, le_trans h1 ht1⟩

/-- the size window contains the one of the int threshold `⌊t⌋`: lower bound -/
theorem lower_ed_f_le (c : FCfg) (hm : c.measure = .editDistance) (ht : c.threshold = .float t) (n : Nat)
    (hn : n < 2 ^ 32) : c.lower n ≤ (n : Int) - t.floor := by
  obtain ⟨f0, f1, f2⟩ := floor_bounds t ht0 ht1
  have hn' : (n : Rat) ≤ 2 ^ 32 := by exact_mod_cast hn.le
  have hn0 : (0 : Rat) ≤ n := by positivity
  have f0' : (0 : Rat) ≤ (t.floor : Int) := by exact_mod_cast f0
  rw [lower_ed_f c t ht0 ht1 hm ht n hn, Rat.ceil_le_iff]
  exact rn_le_int_s (by linarith [show -(2:Rat)^53 ≤ -(2^30) by norm_num])
    (by push_cast; linarith [show (2:Rat)^32 ≤ 2^53 by norm_num]) (by push_cast; linarith)

/-- the size window contains the one of the int threshold `⌊t⌋`: upper bound -/
theorem upper_ed_f_ge (c : FCfg) (hm : c.measure = .editDistance) (ht : c.threshold = .float t) (n : Nat)
    (hn : n < 2 ^ 32) : (n : Int) + t.floor ≤ c.upper n := by
  obtain ⟨f0, f1, f2⟩ := floor_bounds t ht0 ht1
  have hn' : (n : Rat) ≤ 2 ^ 32 := by exact_mod_cast hn.le
  have hn0 : (0 : Rat) ≤ n := by positivity
  have f0' : (0 : Rat) ≤ (t.floor : Int) := by exact_mod_cast f0
  rw [upper_ed_f c t ht0 ht1 hm ht n hn, Rat.le_floor_iff]
  exact rn_ge_int_s (by linarith [show (2:Rat)^32 + 2^30 ≤ 2^53 by norm_num])
    (by push_cast; linarith [show -(2:Rat)^53 ≤ 0 by norm_num]) (by push_cast; linarith)

/-- `q·⌊t⌋ ≤ rn(q·t)` -/
theorem qtF_ge (hq : q ≤ 2 ^ 10) : (((q : Int) * t.floor : Int) : Rat) ≤ qtF q t := by
  obtain ⟨f0, f1, f2⟩ := floor_bounds t ht0 ht1
  obtain ⟨h1, h2⟩ := qt_bounds t q ht0 ht1 hq
  have hq0 : (0 : Rat) ≤ q := by positivity
  unfold qtF
  apply rn_ge_int (Int.mul_nonneg (Int.natCast_nonneg q) f0)
    (by linarith [show (2:Rat)^40 ≤ 2^53 by norm_num])
  push_cast
  exact mul_le_mul_of_nonneg_left f1 hq0

/-- the prefix is at least as long as with the int threshold `⌊t⌋` -/
theorem prefF_ge (hq : q ≤ 2 ^ 10) : (q : Int) * t.floor + 1 ≤ prefF q t := by
  obtain ⟨h1, h2⟩ := qtF_bounds t q ht0 ht1 hq
  obtain ⟨f0, -, -⟩ := floor_bounds t ht0 ht1
  have := qtF_ge t q ht0 ht1 hq
  unfold prefF
  rw [Rat.le_floor_iff]
  apply rn_ge_int (by have := Int.mul_nonneg (Int.natCast_nonneg q) f0; omega)
    (by linarith [show (2:Rat)^40 + 1 ≤ 2^53 by norm_num])
  push_cast at this ⊢
  linarith

/-- the required overlap is at most the one of the int threshold `⌊t⌋` -/
theorem ovThr_ed_f_le (hq : q ≤ 2 ^ 10) (l r : Nat) (hl : l < 2 ^ 32) (hr : r < 2 ^ 32) :
    (edCfgF t q).ovThr l r ≤ max (l : Int) r - (q : Int) * t.floor := by
  obtain ⟨h1, h2⟩ := qtF_bounds t q ht0 ht1 hq
  have := qtF_ge t q ht0 ht1 hq
  have hm : (max l r : Nat) < 2 ^ 32 := by omega
  have hm' : ((max l r : Nat) : Rat) ≤ 2 ^ 32 := by exact_mod_cast hm.le
  have hm0 : (0 : Rat) ≤ ((max l r : Nat) : Rat) := by positivity
  have e : max (l : Int) r = ((max l r : Nat) : Int) := by omega
  rw [ovThr_ed_f t q ht0 ht1 hq l r hl hr, Rat.ceil_le_iff, e]
  generalize (max l r : Nat) = M at hm hm' hm0 ⊢
  apply rn_le_int_s (by linarith [show -(2:Rat)^53 ≤ -(2^40) by norm_num])
  · push_cast at this ⊢
    have : (0:Rat) ≤ (q : Rat) * (t.floor : Int) := by
      obtain ⟨f0, -, -⟩ := floor_bounds t ht0 ht1
      have f0' : (0 : Rat) ≤ (t.floor : Int) := by exact_mod_cast f0
      positivity
    linarith [show (2:Rat)^32 ≤ 2^53 by norm_num]
  · push_cast at this ⊢
    linarith

end Permissive

/-! ## 5. what the proofs on bags need of the generated bounds; the four filters, pair level -/

/-- The facts about the generated bounds the EDIT_DISTANCE proofs need, for token counts below `B`: the size window
    contains `[n - d, n + d]`, the prefix is the first `K1 + 1` tokens, `K ≤ K1`, and the required overlap of two bags is at
    most `max(l, r) - K`.  (`K` is the number of tokens two qualifying bags may lose against each other.) -/
structure EdBounds (c : FCfg) (B : Nat) (d : Int) (K K1 : Nat) : Prop where
  meas : c.measure = .editDistance
  hK : K ≤ K1
  pref : ∀ n, n ≠ 0 → n < B → c.prefixLen n = min ((K1 : Int) + 1) (n : Int)
  lower : ∀ n, n < B → c.lower n ≤ (n : Int) - d
  upper : ∀ n, n < B → (n : Int) + d ≤ c.upper n
  ovThr : ∀ l r, l < B → r < B → c.ovThr l r ≤ max (l : Int) r - K

/-- the int threshold `tau ≥ 0` (the case of SSJ/Props/C04*.lean) -/
theorem edBounds_int (tau : Int) (q : Nat) (htau : 0 ≤ tau) (B : Nat) :
    EdBounds (edCfg tau q) B tau ((q : Int) * tau).toNat ((q : Int) * tau).toNat := by
  have hqt : 0 ≤ (q : Int) * tau := Int.mul_nonneg (Int.natCast_nonneg q) htau
  have hK : ((((q : Int) * tau).toNat : Nat) : Int) = (q : Int) * tau := Int.toNat_of_nonneg hqt
  refine ⟨rfl, le_refl _, ?_, ?_, ?_, ?_⟩
  · intro n hn _; rw [prefixLen_ed, if_neg hn, hK]
  · intro n _; rw [lower_ed _ tau rfl rfl]
  · intro n _; rw [upper_ed _ tau rfl rfl]
  · intro l r _ _; rw [ovThr_ed _ tau q rfl rfl rfl, hK]

/-- the FLOAT threshold `0 ≤ t ≤ 2³⁰`, `q ≤ 2¹⁰`, token counts below 2³²: every bound is at least as permissive as
    with the int threshold `⌊t⌋` -/
theorem edBounds_float (t : Rat) (q : Nat) (ht0 : 0 ≤ t) (ht1 : t ≤ 2 ^ 30) (hq : q ≤ 2 ^ 10) :
    EdBounds (edCfgF t q) (2 ^ 32) t.floor ((q : Int) * t.floor).toNat (prefF q t - 1).toNat := by
  obtain ⟨f0, -, -⟩ := floor_bounds t ht0 ht1
  have hqt : 0 ≤ (q : Int) * t.floor := Int.mul_nonneg (Int.natCast_nonneg q) f0
  have hK : ((((q : Int) * t.floor).toNat : Nat) : Int) = (q : Int) * t.floor := Int.toNat_of_nonneg hqt
  have hp := prefF_ge t q ht0 ht1 hq
  have hK1 : (((prefF q t - 1).toNat : Nat) : Int) = prefF q t - 1 := Int.toNat_of_nonneg (by omega)
  refine ⟨rfl, by omega, ?_, ?_, ?_, ?_⟩
  · intro n hn _; rw [prefixLen_ed_f t q ht0 ht1 hq, if_neg hn, hK1]; omega
  · intro n hn; exact lower_ed_f_le t ht0 ht1 _ rfl rfl n hn
  · intro n hn; exact upper_ed_f_ge t ht0 ht1 _ rfl rfl n hn
  · intro l r hl hr; rw [hK]; exact ovThr_ed_f_le t q ht0 ht1 hq l r hl hr

theorem pyTake_min {α : Type} (A : List α) (K1 : Nat) :
    pyTake A (min ((K1 : Int) + 1) (A.length : Int)) = A.take (K1 + 1) := by
  unfold pyTake
  rw [if_pos (by omega), List.take_eq_take_iff]
  omega

section PairLevel
variable (f : FilterObj) (B : Nat) (d : Int) (K K1 : Nat) (hb : EdBounds f.cfg B d K K1)
include hb

/-- SizeFilter.filter_pair keeps a pair whose token counts differ by at most `d` -/
theorem sizeFilterPair_safe_bnd (tok : String → List Tok) (l r : Cell)
    (hl : l.isMissing = false) (hr : r.isMissing = false) (hn : (tok l.strVal).length < B)
    (h1 : ((tok l.strVal).length : Int) - (tok r.strVal).length ≤ d)
    (h2 : ((tok r.strVal).length : Int) - (tok l.strVal).length ≤ d) :
    filterPair .size f tok l r = false := by
  by_cases hne : (tok l.strVal).length = 0 ∧ (tok r.strVal).length = 0
  · rw [show filterPair .size f tok l r = sizeFilterPair f tok l r from rfl,
      sizeFilterPair_empty f _ l r hl hr (List.length_eq_zero_iff.1 hne.1) (List.length_eq_zero_iff.1 hne.2)]
    unfold emptyPairDropped; rw [hb.meas]
  · refine sizeFilterPair_safe f _ l r hl hr hne ?_ ?_
    · have := hb.lower _ hn; omega
    · have := hb.upper _ hn; omega

/-- PrefixFilter.filter_pair keeps two bags which lose at most `K` tokens against each other and share a token -/
theorem prefixFilterPair_safe_bnd (tok : String → List Tok) (l r : Cell)
    (hl : l.isMissing = false) (hr : r.isMissing = false)
    (hnl : (tok l.strVal).length < B) (hnr : (tok r.strVal).length < B)
    (hd1 : ((tok l.strVal).diff (tok r.strVal)).length ≤ K) (hd2 : ((tok r.strVal).diff (tok l.strVal)).length ≤ K)
    (hc : ∃ g, g ∈ tok l.strVal ∧ g ∈ tok r.strVal) :
    filterPair .prefix f tok l r = false := by
  obtain ⟨g, hg1, hg2⟩ := hc
  have hn1 : (tok l.strVal).length ≠ 0 := fun h => by
    rw [List.length_eq_zero_iff.1 h] at hg1; simp at hg1
  have hn2 : (tok r.strVal).length ≠ 0 := fun h => by
    rw [List.length_eq_zero_iff.1 h] at hg2; simp at hg2
  show prefixFilterPair f tok l r = false
  unfold prefixFilterPair
  simp only [hl, hr, Bool.or_self, Bool.false_eq_true, if_false]
  rw [if_neg (by simp only [Bool.and_eq_true, decide_eq_true_eq]; exact fun h => hn1 h.1)]
  have hs1 := genTokenOrdering_isSome [tok l.strVal, tok r.strVal] _ (by simp : tok l.strVal ∈ _)
  have hs2 := genTokenOrdering_isSome [tok l.strVal, tok r.strVal] _ (by simp : tok r.strVal ∈ _)
  have p1 := hb.pref _ hn1 hnl
  have p2 := hb.pref _ hn2 hnr
  rw [if_neg (by simp only [Bool.or_eq_true, decide_eq_true_eq]; omega), if_pos]
  rw [p1, p2]
  have e1 := pyTake_min (orderUsing (tok l.strVal) (genTokenOrdering [tok l.strVal, tok r.strVal])) K1
  have e2 := pyTake_min (orderUsing (tok r.strVal) (genTokenOrdering [tok l.strVal, tok r.strVal])) K1
  rw [orderUsing_length _ _ hs1] at e1
  rw [orderUsing_length _ _ hs2] at e2
  rw [e1, e2]
  obtain ⟨v, hv1, hv2⟩ := bag_prefix_orderUsing _ (genTokenOrdering_inj _) _ _ hs1 hs2 K1
    (le_trans hd1 hb.hK) (le_trans hd2 hb.hK) ⟨g, hg1, hg2⟩
  exact List.any_eq_true.2 ⟨v, hv1, by simpa using hv2⟩

end PairLevel

section PairLevel2
variable (f : FilterObj) (B : Nat) (d : Int) (K K1 : Nat) (hb : EdBounds f.cfg B d K K1)
include hb

/-- PositionFilter.filter_pair keeps two bags which lose at most `K` tokens against each other and share a token -/
theorem positionFilterPair_safe_bnd (tok : String → List Tok) (l r : Cell)
    (hl : l.isMissing = false) (hr : r.isMissing = false)
    (hnl : (tok l.strVal).length < B) (hnr : (tok r.strVal).length < B)
    (hd1 : ((tok l.strVal).diff (tok r.strVal)).length ≤ K) (hd2 : ((tok r.strVal).diff (tok l.strVal)).length ≤ K)
    (hc : ∃ g, g ∈ tok l.strVal ∧ g ∈ tok r.strVal) :
    filterPair .position f tok l r = false := by
  obtain ⟨g, hg1, hg2⟩ := hc
  show positionFilterPair f tok l r = false
  rw [positionFilterPair_eq]
  simp only [hl, hr, Bool.or_self, Bool.false_eq_true, if_false]
  generalize tok l.strVal = a at *
  generalize tok r.strVal = b at *
  have hn1 : a.length ≠ 0 := fun h => by
    rw [List.length_eq_zero_iff.1 h] at hg1; simp at hg1
  have hn2 : b.length ≠ 0 := fun h => by
    rw [List.length_eq_zero_iff.1 h] at hg2; simp at hg2
  have hs1 := genTokenOrdering_isSome [a, b] a (by simp)
  have hs2 := genTokenOrdering_isSome [a, b] b (by simp)
  have hxl := orderUsing_length a _ hs1
  have hyl := orderUsing_length b _ hs2
  have p1 := hb.pref _ hn1 hnl
  have p2 := hb.pref _ hn2 hnr
  rw [if_neg (by simp only [Bool.and_eq_true, decide_eq_true_eq]; exact fun h => hn1 h.1),
    if_neg (by simp only [Bool.or_eq_true, decide_eq_true_eq]; omega)]
  have e1 : pyTake (orderUsing a (genTokenOrdering [a, b])) (f.cfg.prefixLen a.length) =
      (orderUsing a (genTokenOrdering [a, b])).take (K1 + 1) := by
    rw [p1, ← hxl]; exact pyTake_min _ K1
  have e2 : pyTake (orderUsing b (genTokenOrdering [a, b])) (f.cfg.prefixLen b.length) =
      (orderUsing b (genTokenOrdering [a, b])).take (K1 + 1) := by
    rw [p2, ← hyl]; exact pyTake_min _ K1
  have hthr := hb.ovThr _ _ hnl hnr
  rw [e1, e2]
  have hinj : ∀ t1 t2 r, Dict.get? (genTokenOrdering [a, b]) t1 = some r →
      Dict.get? (genTokenOrdering [a, b]) t2 = some r → t1 = t2 := genTokenOrdering_inj _
  have hscan := ppScan ((orderUsing a (genTokenOrdering [a, b])).take (K1 + 1))
    ((orderUsing b (genTokenOrdering [a, b])).take (K1 + 1))
    a.length b.length (f.cfg.ovThr a.length b.length)
    (by
      intro y0 u ys hyp hu
      have := pp_bound_bag _ _ (orderUsing_sorted a _) (orderUsing_sorted b _) _ _ y0 u ys hyp hu K
        (by rw [orderUsing_diff_length _ hinj _ _ hs1 hs2]; exact hd1)
        (by rw [orderUsing_diff_length _ hinj _ _ hs2 hs1]; exact hd2)
      rw [hxl, hyl] at this
      exact le_trans hthr this)
    ((orderUsing b (genTokenOrdering [a, b])).take (K1 + 1)) [] rfl
  simp only [List.filter_nil, List.length_nil, Nat.cast_zero] at hscan
  rw [hscan]
  obtain ⟨v, hv1, hv2⟩ := bag_prefix_orderUsing _ hinj a b hs1 hs2 K1 (le_trans hd1 hb.hK) (le_trans hd2 hb.hK)
    ⟨g, hg1, hg2⟩
  have hpos : 1 ≤ (((orderUsing b (genTokenOrdering [a, b])).take (K1 + 1)).filter
      (fun u => decide (u ∈ (orderUsing a (genTokenOrdering [a, b])).take (K1 + 1)))).length :=
    List.length_pos_of_mem (List.mem_filter.2 ⟨hv2, by simpa using hv1⟩)
  simp only [Bool.false_eq_true, if_false]
  rw [if_pos (by omega)]

/-- `_filter_suffix` as called under EDIT_DISTANCE keeps two non-empty token bags which lose at most `K` tokens against
    each other, under any injective ordering which knows all their tokens -/
theorem suffixFilterSuffixN_bnd (a b : List Tok) (ord : List (Tok × Nat))
    (hka : ∀ x ∈ a, (Dict.get? ord x).isSome) (hkb : ∀ x ∈ b, (Dict.get? ord x).isSome)
    (hinj : ∀ t1 t2 r, Dict.get? ord t1 = some r → Dict.get? ord t2 = some r → t1 = t2)
    (ha0 : a.length ≠ 0) (hb0 : b.length ≠ 0) (hna : a.length < B) (hnb : b.length < B)
    (hd1 : (a.diff b).length ≤ K) (hd2 : (b.diff a).length ≤ K) :
    suffixFilterSuffixN f (pyDrop (orderUsing a ord) (f.cfg.prefixLen a.length))
      (pyDrop (orderUsing b ord) (f.cfg.prefixLen b.length))
      (f.cfg.prefixLen a.length) (f.cfg.prefixLen b.length) a.length b.length = false := by
  have pa := hb.pref _ ha0 hna
  have pb := hb.pref _ hb0 hnb
  have ov := hb.ovThr _ _ hna hnb
  have hla := orderUsing_length a ord hka
  have hlb := orderUsing_length b ord hkb
  have e1 := orderUsing_diff_length ord hinj a b hka hkb
  have e2 := orderUsing_diff_length ord hinj b a hkb hka
  have hc := length_add_diff (orderUsing a ord) (orderUsing b ord)
  rw [e1, e2, hla, hlb] at hc
  have := suffixFilterSuffixN_safe_bag f hb.meas (orderUsing a ord) (orderUsing b ord)
    (orderUsing_sorted a ord) (orderUsing_sorted b ord)
    (f.cfg.prefixLen a.length) (f.cfg.prefixLen b.length)
    (by rw [pa]; omega) (by rw [pb]; omega) (by rw [hla, pa]; omega) (by rw [hlb, pb]; omega)
    (by rw [hla, hlb, e1]; omega)
  rw [hla, hlb] at this
  exact this

/-- SuffixFilter.filter_pair keeps two bags which lose at most `K` tokens against each other and share a token -/
theorem suffixFilterPair_safe_bnd (tok : String → List Tok) (l r : Cell)
    (hl : l.isMissing = false) (hr : r.isMissing = false)
    (hnl : (tok l.strVal).length < B) (hnr : (tok r.strVal).length < B)
    (hd1 : ((tok l.strVal).diff (tok r.strVal)).length ≤ K) (hd2 : ((tok r.strVal).diff (tok l.strVal)).length ≤ K)
    (hc : ∃ g, g ∈ tok l.strVal ∧ g ∈ tok r.strVal) :
    filterPair .suffix f tok l r = false := by
  obtain ⟨g, hg1, hg2⟩ := hc
  have hn1 : (tok l.strVal).length ≠ 0 := fun h => by
    rw [List.length_eq_zero_iff.1 h] at hg1; simp at hg1
  have hn2 : (tok r.strVal).length ≠ 0 := fun h => by
    rw [List.length_eq_zero_iff.1 h] at hg2; simp at hg2
  have p1 := hb.pref _ hn1 hnl
  have p2 := hb.pref _ hn2 hnr
  show suffixFilterPair f tok l r = false
  unfold suffixFilterPair
  simp only [hl, hr, Bool.or_self, Bool.false_eq_true, if_false]
  rw [if_neg (by simp only [Bool.and_eq_true, decide_eq_true_eq]; exact fun h => hn1 h.1),
    if_neg (by simp only [Bool.or_eq_true, decide_eq_true_eq]; omega)]
  exact suffixFilterSuffixN_bnd f B d K K1 hb _ _ _
    (genTokenOrdering_isSome _ _ (by simp)) (genTokenOrdering_isSome _ _ (by simp)) (genTokenOrdering_inj _)
    hn1 hn2 hnl hnr hd1 hd2

end PairLevel2

/-! ## 6. the four filters, `_filter_tables_split` level -/

section SplitLevel
variable (f : FilterObj) (B : Nat) (d : Int) (K K1 : Nat) (hb : EdBounds f.cfg B d K K1)
include hb

theorem pyTake_pref (A : List Nat) (h0 : A.length ≠ 0) (hB : A.length < B) :
    pyTake A (f.cfg.prefixLen A.length) = A.take (K1 + 1) := by
  rw [hb.pref _ h0 hB]; exact pyTake_min A K1

/-- PrefixFilter._filter_tables_split emits every pair of rows whose token bags lose at most `K` tokens against each
    other and share a token -/
theorem emits_prefix_bnd (tok : String → List Tok) (lAttr rAttr : Nat) (lt rt : List Row) (x y : Row)
    (hx : x ∈ lt) (hy : y ∈ rt)
    (hnx : (tok (x.cell lAttr).strVal).length < B) (hny : (tok (y.cell rAttr).strVal).length < B)
    (h1 : ((tok (x.cell lAttr).strVal).diff (tok (y.cell rAttr).strVal)).length ≤ K)
    (h2 : ((tok (y.cell rAttr).strVal).diff (tok (x.cell lAttr).strVal)).length ≤ K)
    (hc : ∃ g, g ∈ tok (x.cell lAttr).strVal ∧ g ∈ tok (y.cell rAttr).strVal) :
    Emits f tok lAttr rAttr lt rt .prefix x y := by
  obtain ⟨c, hc', rfl⟩ := exists_index lt x hx
  obtain ⟨e, he, rfl⟩ := exists_index rt y hy
  refine ⟨c, e, ?_, rfl, rfl⟩
  have hhe : handleEmpty f = false := handleEmpty_ed f hb.meas
  obtain ⟨g, hg1, hg2⟩ := hc
  have hn1 : (rowToks tok lAttr lt c).length ≠ 0 := fun h => by
    have : rowToks tok lAttr lt c = [] := List.length_eq_zero_iff.1 h
    unfold rowToks at this
    rw [this] at hg1; simp at hg1
  have hn2 : (rowToks tok rAttr rt e).length ≠ 0 := fun h => by
    have : rowToks tok rAttr rt e = [] := List.length_eq_zero_iff.1 h
    unfold rowToks at this
    rw [this] at hg2; simp at hg2
  unfold prefixPairs
  rw [mem_idPairs, mem_prefixCands_nonempty f tok lAttr rAttr lt rt e he (fun h => by rw [hhe] at h; cases h.1)]
  refine ⟨he, hc', ?_⟩
  have hxl := rOrd_length tok lAttr rAttr lt rt e he
  have hyl := lOrd_length tok lAttr rAttr lt rt c hc'
  rw [pyTake_pref f B d K K1 hb _ (by rw [hxl]; exact hn2) (by rw [hxl]; exact hny),
    pyTake_pref f B d K K1 hb _ (by rw [hyl]; exact hn1) (by rw [hyl]; exact hnx)]
  obtain ⟨v, hv1, hv2⟩ := bag_prefix_orderUsing (tableOrdering tok lAttr rAttr lt rt) (genTokenOrdering_inj _)
    (rowToks tok lAttr lt c) (rowToks tok rAttr rt e)
    (genTokenOrdering_isSome _ _ (rowToks_mem_left tok lAttr rAttr lt rt c hc'))
    (genTokenOrdering_isSome _ _ (rowToks_mem_right tok lAttr rAttr lt rt e he))
    K1 (le_trans h1 hb.hK) (le_trans h2 hb.hK) ⟨g, hg1, hg2⟩
  exact ⟨v, hv2, hv1⟩

/-- PositionFilter._filter_tables_split emits every pair of rows whose token bags lose at most `K` tokens against each
    other, whose token counts differ by at most `d`, and which share a token -/
theorem emits_position_bnd (tok : String → List Tok) (lAttr rAttr : Nat) (lt rt : List Row) (x y : Row)
    (hx : x ∈ lt) (hy : y ∈ rt)
    (hnx : (tok (x.cell lAttr).strVal).length < B) (hny : (tok (y.cell rAttr).strVal).length < B)
    (h1 : ((tok (x.cell lAttr).strVal).diff (tok (y.cell rAttr).strVal)).length ≤ K)
    (h2 : ((tok (y.cell rAttr).strVal).diff (tok (x.cell lAttr).strVal)).length ≤ K)
    (hs1 : ((tok (x.cell lAttr).strVal).length : Int) - (tok (y.cell rAttr).strVal).length ≤ d)
    (hs2 : ((tok (y.cell rAttr).strVal).length : Int) - (tok (x.cell lAttr).strVal).length ≤ d)
    (hc : ∃ g, g ∈ tok (x.cell lAttr).strVal ∧ g ∈ tok (y.cell rAttr).strVal) :
    Emits f tok lAttr rAttr lt rt .position x y := by
  obtain ⟨c, hc', rfl⟩ := exists_index lt x hx
  obtain ⟨e, he, rfl⟩ := exists_index rt y hy
  refine ⟨c, e, ?_, rfl, rfl⟩
  obtain ⟨g, hg1, hg2⟩ := hc
  have hn1 : (rowToks tok lAttr lt c).length ≠ 0 := fun h => by
    have : rowToks tok lAttr lt c = [] := List.length_eq_zero_iff.1 h
    unfold rowToks at this
    rw [this] at hg1; simp at hg1
  have hn2 : (rowToks tok rAttr rt e).length ≠ 0 := fun h => by
    have : rowToks tok rAttr rt e = [] := List.length_eq_zero_iff.1 h
    unfold rowToks at this
    rw [this] at hg2; simp at hg2
  unfold positionPairs
  rw [mem_idPairs, mem_positionCands_nonempty f tok lAttr rAttr lt rt e he (fun h => hn2 h.2)]
  refine ⟨he, ?_⟩
  have hsl := genTokenOrdering_isSome _ _ (rowToks_mem_left tok lAttr rAttr lt rt c hc')
  have hsr := genTokenOrdering_isSome _ _ (rowToks_mem_right tok lAttr rAttr lt rt e he)
  have hinj : ∀ t1 t2 r, Dict.get? (tableOrdering tok lAttr rAttr lt rt) t1 = some r →
      Dict.get? (tableOrdering tok lAttr rAttr lt rt) t2 = some r → t1 = t2 := genTokenOrdering_inj _
  have hxl := rOrd_length tok lAttr rAttr lt rt e he
  have hyl := lOrd_length tok lAttr rAttr lt rt c hc'
  have hd1 : ((rOrd tok lAttr rAttr lt rt e).diff (lOrd tok lAttr rAttr lt rt c)).length ≤ K := by
    unfold rOrd lOrd
    rw [orderUsing_diff_length _ hinj _ _ hsr hsl]; exact h2
  have hd2 : ((lOrd tok lAttr rAttr lt rt c).diff (rOrd tok lAttr rAttr lt rt e)).length ≤ K := by
    unfold rOrd lOrd
    rw [orderUsing_diff_length _ hinj _ _ hsl hsr]; exact h1
  have hA := length_bagInter_add_diff (rOrd tok lAttr rAttr lt rt e) (lOrd tok lAttr rAttr lt rt c)
  have hB := length_add_diff (rOrd tok lAttr rAttr lt rt e) (lOrd tok lAttr rAttr lt rt c)
  have hs1' : ((rowToks tok lAttr lt c).length : Int) - (rowToks tok rAttr rt e).length ≤ d := hs1
  have hs2' : ((rowToks tok rAttr rt e).length : Int) - (rowToks tok lAttr lt c).length ≤ d := hs2
  have hnx' : (rowToks tok lAttr lt c).length < B := hnx
  have hny' : (rowToks tok rAttr rt e).length < B := hny
  have hlo := hb.lower _ hny'
  have hhi := hb.upper _ hny'
  have hov := hb.ovThr _ _ hnx' hny'
  obtain ⟨v, hv, hpos⟩ := positionFindCandidates_complete_bag_gen f (lOrdToks tok lAttr rAttr lt rt)
    (rOrd tok lAttr rAttr lt rt e) c (lOrd tok lAttr rAttr lt rt c)
    ((lOrdToks_getElem? tok lAttr rAttr lt rt c _).2 ⟨hc', rfl⟩)
    (orderUsing_sorted _ _) (orderUsing_sorted _ _) _ rfl
    (by rw [hxl, hyl]; omega) (by rw [hxl, hyl]; omega) (by rw [hxl, hyl]; omega)
    (K1 + 1) (K1 + 1)
    (pyTake_pref f B d K K1 hb _ (by rw [hxl]; exact hn2) (by rw [hxl]; exact hny))
    (pyTake_pref f B d K K1 hb _ (by rw [hyl]; exact hn1) (by rw [hyl]; exact hnx))
    (bag_prefix _ _ (orderUsing_sorted _ _) (orderUsing_sorted _ _) K1 (le_trans hd1 hb.hK) (le_trans hd2 hb.hK)
      (by
        obtain ⟨r, hr⟩ := Option.isSome_iff_exists.1 (hsl g hg1)
        exact ⟨r, (mem_orderUsing _ _ _).2 ⟨g, hg2, hr⟩, (mem_orderUsing _ _ _).2 ⟨g, hg1, hr⟩⟩))
    (handleEmpty f) false
  exact ⟨v, Dict.mem_of_get? _ _ _ hv, hpos⟩

/-- SuffixFilter._filter_tables_split emits every pair of rows whose token bags are non-empty and lose at most `K`
    tokens against each other -/
theorem emits_suffix_bnd (tok : String → List Tok) (lAttr rAttr : Nat) (lt rt : List Row) (x y : Row)
    (hx : x ∈ lt) (hy : y ∈ rt)
    (ha0 : (tok (x.cell lAttr).strVal).length ≠ 0) (hb0 : (tok (y.cell rAttr).strVal).length ≠ 0)
    (hnx : (tok (x.cell lAttr).strVal).length < B) (hny : (tok (y.cell rAttr).strVal).length < B)
    (h1 : ((tok (x.cell lAttr).strVal).diff (tok (y.cell rAttr).strVal)).length ≤ K)
    (h2 : ((tok (y.cell rAttr).strVal).diff (tok (x.cell lAttr).strVal)).length ≤ K) :
    Emits f tok lAttr rAttr lt rt .suffix x y := by
  have hka := genTokenOrdering_isSome (lt.map (fun row => tok (row.cell lAttr).strVal) ++
      rt.map (fun row => tok (row.cell rAttr).strVal)) _
    (List.mem_append_left _ (List.mem_map.2 ⟨x, hx, rfl⟩))
  have hkb := genTokenOrdering_isSome (lt.map (fun row => tok (row.cell lAttr).strVal) ++
      rt.map (fun row => tok (row.cell rAttr).strVal)) _
    (List.mem_append_right _ (List.mem_map.2 ⟨y, hy, rfl⟩))
  have p1 := hb.pref _ ha0 hnx
  have p2 := hb.pref _ hb0 hny
  refine ⟨hx, hy, ?_⟩
  unfold suffixKeeps tableOrdering
  simp only [orderUsing_length _ _ hka, orderUsing_length _ _ hkb]
  rw [if_neg (by
    simp only [Bool.and_eq_true, decide_eq_true_eq, not_and]
    intro h3 _
    exact absurd h3.2 ha0)]
  rw [if_neg (by simp only [Bool.or_eq_true, decide_eq_true_eq]; omega)]
  rw [suffixFilterSuffixN_bnd f B d K K1 hb _ _ _ hka hkb (genTokenOrdering_inj _) ha0 hb0 hnx hny h1 h2]
  rfl

end SplitLevel

/-! ## 7. q-gram bags: `filter_pair` and `filter_tables` (entry level) from `EdBounds` -/

section QGramPair
variable (f : FilterObj) (B : Nat) (d : Int) (q : Nat) (K1 : Nat)
  (hb : EdBounds f.cfg B d ((q : Int) * d).toNat K1) (pad : Bool)
include hb

theorem filterPair_size_safe_qg (l r : Cell) (hl : l.isMissing = false) (hr : r.isMissing = false)
    (hnl : (qgrams q pad l.strVal).length < B)
    (hd : (lev l.strVal r.strVal : Int) ≤ d) :
    filterPair .size f (qgrams q pad) l r = false := by
  obtain ⟨h1, h2⟩ := qgrams_count_diff q pad l.strVal r.strVal
  exact sizeFilterPair_safe_bnd f B d _ K1 hb _ l r hl hr hnl (by omega) (by omega)

theorem filterPair_safe_qg (k : FilterKind) (hk : k ≠ .size) (l r : Cell)
    (hl : l.isMissing = false) (hr : r.isMissing = false)
    (hnl : (qgrams q pad l.strVal).length < B) (hnr : (qgrams q pad r.strVal).length < B)
    (hd : (lev l.strVal r.strVal : Int) ≤ d)
    (hshare : shareToken (qgrams q pad) l.strVal r.strVal = true) :
    filterPair k f (qgrams q pad) l r = false := by
  have hd1 := le_trans (qgrams_diff_le q pad l.strVal r.strVal) (qlev_le q d _ hd)
  have hd2 := le_trans (qgrams_diff_le' q pad l.strVal r.strVal) (qlev_le q d _ hd)
  have hc := (shareToken_iff _ _ _).1 hshare
  cases k
  · exact absurd rfl hk
  · exact prefixFilterPair_safe_bnd f B d _ K1 hb _ l r hl hr hnl hnr hd1 hd2 hc
  · exact positionFilterPair_safe_bnd f B d _ K1 hb _ l r hl hr hnl hnr hd1 hd2 hc
  · exact suffixFilterPair_safe_bnd f B d _ K1 hb _ l r hl hr hnl hnr hd1 hd2 hc

end QGramPair

section QGramTables
variable (f : FilterObj) (B : Nat) (d : Int) (q : Nat) (K1 : Nat)
  (hb : EdBounds f.cfg B d ((q : Int) * d).toNat K1) (pad : Bool)
  (a : TableArgs) (t : TokObj) (toks : TokFn) (cpu : Int) (l r fr : Frame)
  (htok : ∀ s, toks t.returnSet s = qgrams q pad s)
  (hv : validateTablesAttrs a = .ok (l, r)) (hk : validateOutAndKeys a l r = .ok ())
  (hrows : r.rows.length < 2 ^ 40)
include hb htok hv hk hrows

/-- `filter_tables` of each of the four filters lists every pair of present source rows within distance `d` which
    share a q-gram (token counts below `B`) -/
theorem filterTables_safe_qg (k : FilterKind) (hres : filterTables k f a t toks cpu = .ok fr)
    (ls rs : Row) (hls : ls ∈ l.rows) (hrs : rs ∈ r.rows)
    (hlp : Present l a.lAttr ls) (hrp : Present r a.rAttr rs)
    (hnl : (qgrams q pad (strOf l a.lAttr ls)).length < B) (hnr : (qgrams q pad (strOf r a.rAttr rs)).length < B)
    (hd : (lev (strOf l a.lAttr ls) (strOf r a.rAttr rs) : Int) ≤ d)
    (hshare : shareToken (qgrams q pad) (strOf l a.lAttr ls) (strOf r a.rAttr rs) = true) :
    ∃ row ∈ fr.rows, rowKeys row = (keyOf l a.lKey ls, keyOf r a.rKey rs) := by
  obtain ⟨g, hg1, hg2⟩ := (shareToken_iff _ _ _).1 hshare
  obtain ⟨hc1, hc2⟩ := qgrams_count_diff q pad (strOf l a.lAttr ls) (strOf r a.rAttr rs)
  have hd1 := le_trans (qgrams_diff_le q pad (strOf l a.lAttr ls) (strOf r a.rAttr rs)) (qlev_le q d _ hd)
  have hd2 := le_trans (qgrams_diff_le' q pad (strOf l a.lAttr ls) (strOf r a.rAttr rs)) (qlev_le q d _ hd)
  have hA0 : (qgrams q pad (strOf l a.lAttr ls)).length ≠ 0 := fun h => by
    rw [List.length_eq_zero_iff.1 h] at hg1; simp at hg1
  have hB0 : (qgrams q pad (strOf r a.rAttr rs)).length ≠ 0 := fun h => by
    rw [List.length_eq_zero_iff.1 h] at hg2; simp at hg2
  cases k
  · rw [filterTables_size_iff f a t toks cpu l r fr hv hk hrows hres ls rs hls hrs hlp hrp]
    have eA : tokensOf (toks t.returnSet) l a.lAttr ls = qgrams q pad (strOf l a.lAttr ls) := htok _
    have eB : tokensOf (toks t.returnSet) r a.rAttr rs = qgrams q pad (strOf r a.rAttr rs) := htok _
    rw [eA, eB]
    have hlo := hb.lower _ hnr
    have hhi := hb.upper _ hnr
    have hlo' := hb.lower _ hnl
    refine Or.inr ⟨hA0, fun h => ?_, ?_, ?_, ?_⟩
    · rw [handleEmpty_ed f hb.meas] at h; cases h.1
    · omega
    · omega
    · omega
  all_goals
    rw [mem_filterTables_iff _ f a t toks cpu l r fr hv hk hrows hres ls rs hls hrs hlp hrp]
    obtain ⟨ch, hch, hy⟩ := rRow_mem_chunk a cpu r hrows rs hrs hrp
    have eA : toks t.returnSet ((RT.lRow a l ls).cell (RT.lAttrIdx a)).strVal = qgrams q pad (strOf l a.lAttr ls) := by
      rw [lRow_tokens a l (toks t.returnSet)]; exact htok _
    have eB : toks t.returnSet ((RT.rRow a r rs).cell (RT.rAttrIdx a)).strVal = qgrams q pad (strOf r a.rAttr rs) := by
      rw [rRow_tokens a r (toks t.returnSet)]; exact htok _
    refine ⟨ch, hch, ?_⟩
  · exact emits_prefix_bnd f B d _ K1 hb _ _ _ _ _ _ _ (lRow_mem a l ls hls hlp) hy
      (by rw [eA]; exact hnl) (by rw [eB]; exact hnr) (by rw [eA, eB]; exact hd1) (by rw [eA, eB]; exact hd2)
      (by rw [eA, eB]; exact ⟨g, hg1, hg2⟩)
  · exact emits_position_bnd f B d _ K1 hb _ _ _ _ _ _ _ (lRow_mem a l ls hls hlp) hy
      (by rw [eA]; exact hnl) (by rw [eB]; exact hnr) (by rw [eA, eB]; exact hd1) (by rw [eA, eB]; exact hd2)
      (by rw [eA, eB]; omega) (by rw [eA, eB]; omega) (by rw [eA, eB]; exact ⟨g, hg1, hg2⟩)
  · exact emits_suffix_bnd f B d _ K1 hb _ _ _ _ _ _ _ (lRow_mem a l ls hls hlp) hy
      (by rw [eA]; exact hA0) (by rw [eB]; exact hB0)
      (by rw [eA]; exact hnl) (by rw [eB]; exact hnr) (by rw [eA, eB]; exact hd1) (by rw [eA, eB]; exact hd2)

end QGramTables

/-! ## 8. OVERLAP with a float threshold `t`: shape of the generated bounds -/

/-- `num_tokens - threshold + 1` as computed (two roundings) -/
def ovPrefF (n : Nat) (t : Rat) : Rat := rn (rn ((n : Rat) - t) + 1)

theorem rn_sub_bounds (t : Rat) (ht0 : 0 ≤ t) (ht1 : t ≤ 2 ^ 30) (n : Nat) (hn : n < 2 ^ 32) :
    -(2 ^ 30) ≤ rn ((n : Rat) - t) ∧ rn ((n : Rat) - t) ≤ n := by
  have hn' : (n : Rat) ≤ 2 ^ 32 := by exact_mod_cast hn.le
  have hn0 : (0 : Rat) ≤ n := by positivity
  constructor
  · have := rn_ge_int_s (q := (n : Rat) - t) (k := -(2 ^ 30)) (by linarith [show (2:Rat)^32 ≤ 2^53 by norm_num])
      (by push_cast; norm_num) (by push_cast; linarith)
    push_cast at this; exact this
  · have := rn_le_int_s (q := (n : Rat) - t) (k := (n : Int)) (by linarith [show -(2:Rat)^53 ≤ -(2^30) by norm_num])
      (by push_cast; linarith [show (2:Rat)^32 ≤ 2^53 by norm_num]) (by push_cast; linarith)
    exact_mod_cast this

section OverlapShapes
variable (c : FCfg) (t : Rat) (hm : c.measure = .overlap) (ht : c.threshold = .float t)
include hm ht

theorem lower_overlap_f (n : Nat) : c.lower n = t.ceil := by
  unfold FCfg.lower FCfg.lowerV Gen.get_size_lower_bound
  simp only [hm, ht, Measure.name, ov_e1, ov_e2, ov_e3, ov_e4, ov_e5, Bool.false_eq_true, if_false, if_true,
    PyV.ceil, PyV.toInt, PyV.toIntD]

theorem ovThr_overlap_f (l r : Nat) : c.ovThr l r = t.ceil := by
  unfold FCfg.ovThr FCfg.ovThrV Gen.get_overlap_threshold
  simp only [hm, ht, Measure.name, ov_e1, ov_e2, ov_e3, ov_e4, ov_e5, Bool.false_eq_true, if_false, if_true,
    PyV.ceil, PyV.toInt, PyV.toIntD]

theorem prefixLen_overlap_f (ht0 : 0 ≤ t) (ht1 : t ≤ 2 ^ 30) (n : Nat) (hn : n < 2 ^ 32) :
    c.prefixLen n = if n = 0 then 0 else if ovPrefF n t < 0 then 0 else (ovPrefF n t).floor := by
  have e0 : PyV.eqb (.int (n : Int)) (.int 0) = decide (n = 0) := eqb_int0 n
  obtain ⟨d1, d2⟩ := rn_sub_bounds t ht0 ht1 n hn
  have hn' : (n : Rat) ≤ 2 ^ 32 := by exact_mod_cast hn.le
  unfold FCfg.prefixLen FCfg.prefixV Gen.get_prefix_length
  simp only [hm, ht, Measure.name, e0, ov_e1, ov_e2, ov_e3, ov_e4, ov_e5]
  by_cases hn0 : n = 0
  · simp [hn0, PyV.toIntD]
  · simp only [hn0, decide_false, Bool.false_eq_true, if_false, if_true]
    rw [sub_nf_val n t hn ht0 (by linarith [show (2:Rat)^30 ≤ 2^40 by norm_num]), add_f1,
      ofExact_float_s (by linarith [show -(2:Rat)^100 ≤ -(2^30) + 1 by norm_num])
        (by linarith [show (2:Rat)^32 + 1 ≤ 2^100 by norm_num])]
    simp only [PyV.max, PyV.gtb, PyV.ltb, PyV.numVal?]
    unfold ovPrefF
    by_cases h : rn (rn ((n : Rat) - t) + 1) < ((0 : Int) : Rat)
    · have h' : rn (rn ((n : Rat) - t) + 1) < 0 := by exact_mod_cast h
      simp only [h, decide_true, if_true, PyV.toInt, PyV.toIntD, h']
    · have h' : ¬ rn (rn ((n : Rat) - t) + 1) < 0 := by exact_mod_cast h
      have h'' : 0 ≤ rn (rn ((n : Rat) - t) + 1) := not_lt.1 h'
      simp only [h, decide_false, Bool.false_eq_true, if_false, PyV.toInt, PyV.toIntD, h', ge_iff_le, h'', if_true]

end OverlapShapes

/-! ## 9. OVERLAP with a float threshold `0 < t ≤ 2³⁰`: every bound accepts a pair with `⌈t⌉ ≤ o` common tokens -/

theorem ceil_pos (t : Rat) (ht0 : 0 < t) : 1 ≤ t.ceil := by
  have : (0 : Int) < t.ceil := Rat.lt_ceil_iff.2 (by simpa using ht0)
  omega

section OverlapBounds
variable (c : FCfg) (t : Rat) (hm : c.measure = .overlap) (ht : c.threshold = .float t) (ht0 : 0 < t) (ht1 : t ≤ 2 ^ 30)
include hm ht ht0 ht1

/-- the prefix is at least as long as with the int threshold `⌈t⌉` -/
theorem prefixLen_overlap_f_ge (n : Nat) (hn : n < 2 ^ 32) (hn0 : n ≠ 0) (hc : t.ceil ≤ n) :
    (n : Int) - t.ceil + 1 ≤ c.prefixLen n := by
  obtain ⟨d1, d2⟩ := rn_sub_bounds t ht0.le ht1 n hn
  have hn' : (n : Rat) ≤ 2 ^ 32 := by exact_mod_cast hn.le
  have hce : t ≤ ((t.ceil : Int) : Rat) := Rat.le_ceil
  have hcn : ((t.ceil : Int) : Rat) ≤ n := by exact_mod_cast hc
  have k1 : (((n : Int) - t.ceil : Int) : Rat) ≤ rn ((n : Rat) - t) :=
    rn_ge_int_s (by linarith [show (2:Rat)^32 ≤ 2^53 by norm_num])
      (by push_cast; linarith [show -(2:Rat)^53 ≤ 0 by norm_num]) (by push_cast; linarith)
  have k2 : (((n : Int) - t.ceil + 1 : Int) : Rat) ≤ ovPrefF n t := by
    unfold ovPrefF
    exact rn_ge_int_s (by linarith [show (2:Rat)^32 + 1 ≤ 2^53 by norm_num])
      (by push_cast; linarith [show -(2:Rat)^53 ≤ 0 by norm_num]) (by push_cast at k1 ⊢; linarith)
  have k0 : (0:Rat) ≤ ovPrefF n t := by
    refine le_trans ?_ k2
    push_cast; linarith
  rw [prefixLen_overlap_f c t hm ht ht0.le ht1 n hn, if_neg hn0, if_neg (not_lt.2 k0), Rat.le_floor_iff]
  exact k2

/-- for `1 < t` the prefix is not longer than the record -/
theorem prefixLen_overlap_f_le (h1 : 1 < t) (n : Nat) (hn : n < 2 ^ 32) : c.prefixLen n ≤ (n : Int) := by
  have hn' : (n : Rat) ≤ 2 ^ 32 := by exact_mod_cast hn.le
  rw [prefixLen_overlap_f c t hm ht ht0.le ht1 n hn]
  by_cases hn0 : n = 0
  · rw [if_pos hn0]; omega
  · rw [if_neg hn0]
    split_ifs with h
    · omega
    · have hn1 : (1 : Rat) ≤ n := by exact_mod_cast Nat.one_le_iff_ne_zero.2 hn0
      have k1 : rn ((n : Rat) - t) ≤ (((n : Int) - 1 : Int) : Rat) :=
        rn_le_int_s (by linarith [show -(2:Rat)^53 ≤ -(2^30) by norm_num])
          (by push_cast; linarith [show (2:Rat)^32 ≤ 2^53 by norm_num]) (by push_cast; linarith)
      obtain ⟨d1, -⟩ := rn_sub_bounds t ht0.le ht1 n hn
      have k2 : ovPrefF n t ≤ ((n : Int) : Rat) := by
        unfold ovPrefF
        exact rn_le_int_s (by linarith [show -(2:Rat)^53 ≤ -(2^30) + 1 by norm_num])
          (by push_cast; linarith [show (2:Rat)^32 ≤ 2^53 by norm_num]) (by push_cast at k1 ⊢; linarith)
      have : (ovPrefF n t).floor < (n : Int) + 1 := Rat.floor_lt_iff.2 (by push_cast at k2 ⊢; linarith)
      omega

/-- under OVERLAP with a float threshold every bound accepts a pair with at least `⌈t⌉` common tokens -/
theorem bounds_overlap_f (n kk o : Nat) (hko : t.ceil ≤ (o : Int)) (hon : o ≤ n) (hok : o ≤ kk)
    (hn : n < 2 ^ 32) (hk : kk < 2 ^ 32) :
    BoundsFacts c n kk o ∧ c.ovThr n kk ≤ (o : Int) ∧ c.lower n ≤ (n : Int) := by
  have hc1 := ceil_pos t ht0
  have hn0 : n ≠ 0 := by omega
  have hk0 : kk ≠ 0 := by omega
  have p1 := prefixLen_overlap_f_ge c t hm ht ht0 ht1 n hn hn0 (by omega)
  have p2 := prefixLen_overlap_f_ge c t hm ht ht0 ht1 kk hk hk0 (by omega)
  refine ⟨⟨?_, ?_, ?_, ?_, ?_⟩, ?_, ?_⟩
  · rw [lower_overlap_f c t hm ht]; omega
  · rw [upper_overlap c hm]; unfold maxsize; omega
  · rw [ovThr_overlap_f c t hm ht]; exact hko
  · omega
  · omega
  · rw [ovThr_overlap_f c t hm ht]; exact hko
  · rw [lower_overlap_f c t hm ht]; omega

end OverlapBounds

/-! ## 10. OVERLAP with a float threshold: `filter_pair`, `filter_tables` -/

section OverlapEntry
variable (kind : FilterKind) (f : FilterObj) (t : Rat) (hm : f.cfg.measure = .overlap)
  (ht : f.cfg.threshold = .float t) (ht0 : 0 < t) (ht1 : t ≤ 2 ^ 30)
include hm ht ht0 ht1

/-- for `t ≤ 1` the required overlap is 1 and `_filter_suffix` leaves through its early exit -/
theorem suffixFilterSuffixN_overlap_small (h1 : t ≤ 1) (lSuf rSuf : List Nat) (n kk : Nat)
    (hn : n < 2 ^ 32) (hk : kk < 2 ^ 32) (hn0 : n ≠ 0) (hk0 : kk ≠ 0) :
    0 < f.cfg.prefixLen n ∧ 0 < f.cfg.prefixLen kk ∧
    suffixFilterSuffixN f lSuf rSuf (f.cfg.prefixLen n) (f.cfg.prefixLen kk) n kk = false := by
  have hc1 := ceil_pos t ht0
  have hc2 : t.ceil ≤ 1 := Rat.ceil_le_iff.2 (by simpa using h1)
  have p1 := prefixLen_overlap_f_ge f.cfg t hm ht ht0 ht1 n hn hn0 (by omega)
  have p2 := prefixLen_overlap_f_ge f.cfg t hm ht ht0 ht1 kk hk hk0 (by omega)
  refine ⟨by omega, by omega, ?_⟩
  rw [suffixFilterSuffixN_of_ne f _ _ _ _ _ _ (by rw [hm]; intro h; cases h)]
  apply SuffixSmall.suffixFilterSuffix_early
  · rw [ovThr_overlap_f f.cfg t hm ht]; omega
  · rw [ovThr_overlap_f f.cfg t hm ht]; omega

/-- C04 for `filter_pair` under OVERLAP with a FLOAT threshold: a pair with at least `⌈t⌉` common tokens is kept -/
theorem filterPair_safe_overlap_f (tok : String → List Tok) (hnd : ∀ s, (tok s).Nodup) (l r : Cell)
    (hl : l.isMissing = false) (hr : r.isMissing = false)
    (hnl : (tok l.strVal).length < 2 ^ 32) (hnr : (tok r.strVal).length < 2 ^ 32)
    (ho : t.ceil ≤ (interCount (tok l.strVal) (tok r.strVal) : Int)) :
    filterPair kind f tok l r = false := by
  have hc1 := ceil_pos t ht0
  have h1 := interCount_le_length_left _ (tok r.strVal) (hnd l.strVal)
  have h2 := interCount_le_length_right (tok l.strVal) _ (hnd r.strVal)
  obtain ⟨hb, hthr, -⟩ := bounds_overlap_f f.cfg t hm ht ht0 ht1 _ _ _ ho h1 h2 hnl hnr
  by_cases hs : kind = .suffix ∧ t ≤ 1
  · obtain ⟨rfl, hs1⟩ := hs
    have hn0 : (tok l.strVal).length ≠ 0 := by omega
    have hk0 : (tok r.strVal).length ≠ 0 := by omega
    obtain ⟨q1, q2, q3⟩ := suffixFilterSuffixN_overlap_small f t hm ht ht0 ht1 hs1
      (pyDrop (orderUsing (tok l.strVal) (genTokenOrdering [tok l.strVal, tok r.strVal]))
        (f.cfg.prefixLen (tok l.strVal).length))
      (pyDrop (orderUsing (tok r.strVal) (genTokenOrdering [tok l.strVal, tok r.strVal]))
        (f.cfg.prefixLen (tok r.strVal).length)) _ _ hnl hnr hn0 hk0
    show suffixFilterPair f tok l r = false
    unfold suffixFilterPair
    rw [if_neg (by simp [hl, hr])]
    simp only
    rw [if_neg (by simp only [Bool.and_eq_true, decide_eq_true_eq]; exact fun h => hn0 h.1),
      if_neg (by simp only [Bool.or_eq_true, decide_eq_true_eq]; omega)]
    exact q3
  · refine filterPair_safe_of_bounds kind f tok hnd l r hl hr (by omega) hb hthr (fun hk => ?_)
    have h1t : 1 < t := by
      by_contra hc; exact hs ⟨hk, not_lt.1 hc⟩
    exact ⟨prefixLen_overlap_f_le f.cfg t hm ht ht0 ht1 h1t _ hnl, prefixLen_overlap_f_le f.cfg t hm ht ht0 ht1 h1t _ hnr⟩

/-- SuffixFilter._filter_tables_split under OVERLAP with a float threshold `t ≤ 1` emits every pair of rows with
    non-empty token lists (the early exit of `_filter_suffix`) -/
theorem emits_suffix_overlap_small (h1 : t ≤ 1) (tok : String → List Tok) (lAttr rAttr : Nat) (lt rt : List Row)
    (x y : Row) (hx : x ∈ lt) (hy : y ∈ rt)
    (ha0 : (tok (x.cell lAttr).strVal).length ≠ 0) (hb0 : (tok (y.cell rAttr).strVal).length ≠ 0)
    (hnx : (tok (x.cell lAttr).strVal).length < 2 ^ 32) (hny : (tok (y.cell rAttr).strVal).length < 2 ^ 32) :
    Emits f tok lAttr rAttr lt rt .suffix x y := by
  have hka := genTokenOrdering_isSome (lt.map (fun row => tok (row.cell lAttr).strVal) ++
      rt.map (fun row => tok (row.cell rAttr).strVal)) _
    (List.mem_append_left _ (List.mem_map.2 ⟨x, hx, rfl⟩))
  have hkb := genTokenOrdering_isSome (lt.map (fun row => tok (row.cell lAttr).strVal) ++
      rt.map (fun row => tok (row.cell rAttr).strVal)) _
    (List.mem_append_right _ (List.mem_map.2 ⟨y, hy, rfl⟩))
  refine ⟨hx, hy, ?_⟩
  unfold suffixKeeps tableOrdering
  simp only [orderUsing_length _ _ hka, orderUsing_length _ _ hkb]
  obtain ⟨q1, q2, q3⟩ := suffixFilterSuffixN_overlap_small f t hm ht ht0 ht1 h1
    (pyDrop (orderUsing (tok (x.cell lAttr).strVal) (genTokenOrdering (lt.map (fun row => tok (row.cell lAttr).strVal) ++
      rt.map (fun row => tok (row.cell rAttr).strVal)))) (f.cfg.prefixLen (tok (x.cell lAttr).strVal).length))
    (pyDrop (orderUsing (tok (y.cell rAttr).strVal) (genTokenOrdering (lt.map (fun row => tok (row.cell lAttr).strVal) ++
      rt.map (fun row => tok (row.cell rAttr).strVal)))) (f.cfg.prefixLen (tok (y.cell rAttr).strVal).length))
    _ _ hnx hny ha0 hb0
  rw [if_neg (by
    simp only [Bool.and_eq_true, decide_eq_true_eq, not_and]
    intro h3 _
    exact absurd h3.2 ha0)]
  rw [if_neg (by simp only [Bool.or_eq_true, decide_eq_true_eq]; omega)]
  rw [q3]
  rfl

/-- C04 for `filter_tables` under OVERLAP with a FLOAT threshold -/
theorem filterTables_safe_overlap_f (a : TableArgs) (tk : TokObj) (toks : TokFn)
    (cpu : Int) (l r fr : Frame)
    (hv : validateTablesAttrs a = .ok (l, r))
    (hk : validateOutAndKeys a l r = .ok ()) (hrows : r.rows.length < 2 ^ 40)
    (hnd : ∀ s, (toks tk.returnSet s).Nodup)
    (hres : filterTables kind f a tk toks cpu = .ok fr)
    (ls rs : Row) (hls : ls ∈ l.rows) (hrs : rs ∈ r.rows)
    (hlp : Present l a.lAttr ls) (hrp : Present r a.rAttr rs)
    (hnl : (tokensOf (toks tk.returnSet) l a.lAttr ls).length < 2 ^ 32)
    (hnr : (tokensOf (toks tk.returnSet) r a.rAttr rs).length < 2 ^ 32)
    (ho : t.ceil ≤ (interCount (tokensOf (toks tk.returnSet) l a.lAttr ls) (tokensOf (toks tk.returnSet) r a.rAttr rs) : Int)) :
    ∃ row ∈ fr.rows, rowKeys row = (keyOf l a.lKey ls, keyOf r a.rKey rs) := by
  have hc1 := ceil_pos t ht0
  have h1 := interCount_le_length_left _ (tokensOf (toks tk.returnSet) r a.rAttr rs) (hnd (valOf l a.lAttr ls).strVal)
  have h2 := interCount_le_length_right (tokensOf (toks tk.returnSet) l a.lAttr ls) _ (hnd (valOf r a.rAttr rs).strVal)
  obtain ⟨hb, -, he⟩ := bounds_overlap_f f.cfg t hm ht ht0 ht1 _ _ _ ho h2 h1 hnr hnl
  by_cases hs : kind = .suffix ∧ t ≤ 1
  · obtain ⟨rfl, hs1⟩ := hs
    rw [mem_filterTables_iff .suffix f a tk toks cpu l r fr hv hk hrows hres ls rs hls hrs hlp hrp]
    obtain ⟨ch, hch, hy⟩ := rRow_mem_chunk a cpu r hrows rs hrs hrp
    refine ⟨ch, hch, emits_suffix_overlap_small f t hm ht ht0 ht1 hs1 _ _ _ _ _ _ _ (lRow_mem a l ls hls hlp) hy
      ?_ ?_ ?_ ?_⟩
    · rw [lRow_tokens a l (toks tk.returnSet)]; unfold tokensOf at *; omega
    · rw [rRow_tokens a r (toks tk.returnSet)]; unfold tokensOf at *; omega
    · rw [lRow_tokens a l (toks tk.returnSet)]; exact hnl
    · rw [rRow_tokens a r (toks tk.returnSet)]; exact hnr
  · refine filterTables_safe_of_bounds kind f a tk toks cpu l r fr hv hk hrows hnd hres ls rs hls hrs hlp hrp
      (by unfold tokensOf at *; omega) hb (fun _ => he) (fun hk' => ?_)
    have h1t : 1 < t := by
      by_contra hc; exact hs ⟨hk', not_lt.1 hc⟩
    exact ⟨prefixLen_overlap_f_le f.cfg t hm ht ht0 ht1 h1t _ hnl, prefixLen_overlap_f_le f.cfg t hm ht ht0 ht1 h1t _ hnr⟩

end OverlapEntry

/-! ## 11. EDIT_DISTANCE with a float threshold: the statements used by SSJ/Props/C04_float.lean -/

/-- "within the float threshold `t`" is "within the int threshold `⌊t⌋`" -/
theorem lev_le_floor_iff (t : Rat) (n : Nat) : ((n : Int) ≤ t.floor) ↔ ((n : Rat) ≤ t) := by
  rw [Rat.le_floor_iff]; norm_cast

section EdFloat
variable (f : FilterObj) (t : Rat) (q : Nat) (pad : Bool) (ht0 : 0 ≤ t) (ht1 : t ≤ 2 ^ 30)
include ht0 ht1

/-- SizeFilter.filter_pair, EDIT_DISTANCE, float threshold (only measure and threshold of the filter matter) -/
theorem sizeFilterPair_safe_ed_f (hm : f.cfg.measure = .editDistance) (ht : f.cfg.threshold = .float t)
    (l r : Cell) (hl : l.isMissing = false) (hr : r.isMissing = false)
    (hnl : (qgrams q pad l.strVal).length < 2 ^ 32)
    (hd : ((lev l.strVal r.strVal : Nat) : Rat) ≤ t) :
    filterPair .size f (qgrams q pad) l r = false := by
  have hd' := (lev_le_floor_iff t _).2 hd
  by_cases hne : (qgrams q pad l.strVal).length = 0 ∧ (qgrams q pad r.strVal).length = 0
  · rw [show filterPair .size f (qgrams q pad) l r = sizeFilterPair f (qgrams q pad) l r from rfl,
      sizeFilterPair_empty f _ l r hl hr (List.length_eq_zero_iff.1 hne.1) (List.length_eq_zero_iff.1 hne.2)]
    unfold emptyPairDropped; rw [hm]
  · obtain ⟨h1, h2⟩ := qgrams_count_diff q pad l.strVal r.strVal
    have lo := lower_ed_f_le t ht0 ht1 f.cfg hm ht _ hnl
    have hi := upper_ed_f_ge t ht0 ht1 f.cfg hm ht _ hnl
    exact sizeFilterPair_safe f _ l r hl hr hne (by omega) (by omega)

/-- SizeFilter.filter_tables, EDIT_DISTANCE, float threshold -/
theorem filterTables_size_safe_ed_f (hm : f.cfg.measure = .editDistance) (ht : f.cfg.threshold = .float t)
    (a : TableArgs) (tk : TokObj) (toks : TokFn) (cpu : Int) (l r fr : Frame)
    (htok : ∀ s, toks tk.returnSet s = qgrams q pad s)
    (hv : validateTablesAttrs a = .ok (l, r)) (hk : validateOutAndKeys a l r = .ok ())
    (hrows : r.rows.length < 2 ^ 40) (hres : filterTables .size f a tk toks cpu = .ok fr)
    (ls rs : Row) (hls : ls ∈ l.rows) (hrs : rs ∈ r.rows)
    (hlp : Present l a.lAttr ls) (hrp : Present r a.rAttr rs)
    (hnr : (qgrams q pad (strOf r a.rAttr rs)).length < 2 ^ 32)
    (hd : ((lev (strOf l a.lAttr ls) (strOf r a.rAttr rs) : Nat) : Rat) ≤ t)
    (hA : qgrams q pad (strOf l a.lAttr ls) ≠ []) :
    ∃ row ∈ fr.rows, rowKeys row = (keyOf l a.lKey ls, keyOf r a.rKey rs) := by
  have hd' := (lev_le_floor_iff t _).2 hd
  rw [filterTables_size_iff f a tk toks cpu l r fr hv hk hrows hres ls rs hls hrs hlp hrp]
  have eA : tokensOf (toks tk.returnSet) l a.lAttr ls = qgrams q pad (strOf l a.lAttr ls) := htok _
  have eB : tokensOf (toks tk.returnSet) r a.rAttr rs = qgrams q pad (strOf r a.rAttr rs) := htok _
  rw [eA, eB]
  obtain ⟨h1, h2⟩ := qgrams_count_diff q pad (strOf l a.lAttr ls) (strOf r a.rAttr rs)
  obtain ⟨f0, -, -⟩ := floor_bounds t ht0 ht1
  have lo := lower_ed_f_le t ht0 ht1 f.cfg hm ht _ hnr
  have hi := upper_ed_f_ge t ht0 ht1 f.cfg hm ht _ hnr
  refine Or.inr ⟨fun h => hA (List.length_eq_zero_iff.1 h), fun h => ?_, ?_, ?_, ?_⟩
  · rw [handleEmpty_ed f hm] at h; cases h.1
  · omega
  · omega
  · omega

end EdFloat
end FloatThr
end SSJ

section AxiomCheck
open SSJ.FloatThr
/-- info: 'SSJ.FloatThr.edBounds_float' depends on axioms: [propext, Classical.choice, Quot.sound] -/
#guard_msgs in #print axioms edBounds_float
/-- info: 'SSJ.FloatThr.filterPair_safe_qg' depends on axioms: [propext, Classical.choice, Quot.sound] -/
#guard_msgs in #print axioms filterPair_safe_qg
/-- info: 'SSJ.FloatThr.filterTables_safe_qg' depends on axioms: [propext, Classical.choice, Quot.sound] -/
#guard_msgs in #print axioms filterTables_safe_qg
/-- info: 'SSJ.FloatThr.sizeFilterPair_safe_ed_f' depends on axioms: [propext, Classical.choice, Quot.sound] -/
#guard_msgs in #print axioms sizeFilterPair_safe_ed_f
/-- info: 'SSJ.FloatThr.filterTables_size_safe_ed_f' depends on axioms: [propext, Classical.choice, Quot.sound] -/
#guard_msgs in #print axioms filterTables_size_safe_ed_f
/-- info: 'SSJ.FloatThr.filterPair_safe_overlap_f' depends on axioms: [propext, Classical.choice, Quot.sound] -/
#guard_msgs in #print axioms filterPair_safe_overlap_f
/-- info: 'SSJ.FloatThr.filterTables_safe_overlap_f' depends on axioms: [propext, Classical.choice, Quot.sound] -/
#guard_msgs in #print axioms filterTables_safe_overlap_f
end AxiomCheck

/-
  SSJ.Proofs.SuffixBag — the suffix filter (`filter/suffix_filter.py`) on BAGS, i.e. under EDIT_DISTANCE, where the
  q-gram tokenizer returns lists with duplicates and the ordered rank lists are only weakly sorted.

  FINDING F8 (repaired in the real code by commit 113c284).  The body of `_filter_suffix` — `suffixFilterSuffix`, the
  estimator on the token lists as they are — is NOT safe on bags: `_partition` cuts a list at the position where
  `_binary_search` finds the probe token; with duplicates the copies of the probe token end up on different sides in
  the two lists and the sum of the size differences of the parts is no longer a lower bound of the Hamming distance of
  the bags.  Before the repair `SuffixFilter` therefore dropped pairs within the distance threshold sharing a q-gram,
  e.g. the identical strings "aaa"/"aaa" (q = 1, τ = 0) and "aaaaaabbbbb"/"aaaabbbbb" (q = 1, τ = 2).  Kernel-checked
  counterexamples for the UNNUMBERED body: `suffixFilterSuffix_bag_counterexample_tau0/_tau2`,
  `unnumbered_pair_counterexample_tau0/_tau2`.

  THE REPAIR.  Under EDIT_DISTANCE `_filter_suffix` now pairs every token of the two suffixes with its occurrence number
  (`_number_repeated_tokens`, model: `numberRepeated`, `suffixFilterSuffixN`), which turns the bags into sets with the
  same overlap.  PROVED here for the repaired model, in full: `suffixFilterSuffixN_ed` (token bags, any injective
  ordering), `suffixFilterPair_safe_ed` (`filter_pair`), `filterTables_suffix_safe_ed` (`filter_tables`, entry level) —
  every pair of strings within distance τ sharing a q-gram is kept.  The combinatorial core is in SSJ/Proofs/Suffix.lean
  §6b (`numberRepeated_spec`, `commonCount_numbered_ge`, `commonCount_drop_numbered_le`,
  `suffixFilterSuffix_numbered_safe`); `repaired_keeps_tau0/_tau2` instantiate it at the two former counterexamples.
-/
import SSJ.Proofs.EntryFilters
import SSJ.Proofs.SuffixSmall

namespace SSJ
namespace SuffixBag
open SSJ.Props SSJ.Spec EntryFilters

/-! ## 1. evaluating the model on concrete strings (the sorts are defined by well-founded recursion and do not
       reduce in the kernel; on already sorted inputs they are the identity) -/

theorem sortNat_of_sorted (x : List Nat) (h : x.Pairwise (fun a b => decide (a ≤ b) = true)) : sortNat x = x :=
  List.mergeSort_of_pairwise h

theorem orderUsing_eq_of_sorted (toks : List Tok) (ord : List (Tok × Nat)) (x : List Nat)
    (h : toks.filterMap (fun t => Dict.get? ord t) = x)
    (hs : x.Pairwise (fun a b => decide (a ≤ b) = true)) : orderUsing toks ord = x := by
  unfold orderUsing; rw [h]; exact sortNat_of_sorted x hs

theorem rankTokens_eq_of_sorted (freq : List (Tok × Nat))
    (h1 : freq.Pairwise (fun a b => decide (a.1 ≤ b.1) = true))
    (h2 : freq.Pairwise (fun a b => decide (a.2 ≤ b.2) = true)) :
    rankTokens freq = freq.zipIdx.map (fun (p, i) => (p.1, i + 1)) := by
  unfold rankTokens
  simp only
  rw [List.mergeSort_of_pairwise h1, List.mergeSort_of_pairwise h2]

/-- `filter_pair` of the suffix filter on two present values (not both without tokens), given the two ordered
    rank lists -/
theorem suffixFilterPair_eq (f : FilterObj) (tok : String → List Tok) (l r : Cell)
    (hl : l.isMissing = false) (hr : r.isMissing = false) (x y : List Nat)
    (hne : ¬ ((tok l.strVal).length = 0 ∧ (tok r.strVal).length = 0))
    (hx : orderUsing (tok l.strVal) (genTokenOrdering [tok l.strVal, tok r.strVal]) = x)
    (hy : orderUsing (tok r.strVal) (genTokenOrdering [tok l.strVal, tok r.strVal]) = y) :
    filterPair .suffix f tok l r =
      (if f.cfg.prefixLen (tok l.strVal).length ≤ 0 || f.cfg.prefixLen (tok r.strVal).length ≤ 0 then true else
        suffixFilterSuffixN f (pyDrop x (f.cfg.prefixLen (tok l.strVal).length))
          (pyDrop y (f.cfg.prefixLen (tok r.strVal).length))
          (f.cfg.prefixLen (tok l.strVal).length) (f.cfg.prefixLen (tok r.strVal).length)
          (tok l.strVal).length (tok r.strVal).length) := by
  have h0 : ¬ ((decide ((tok l.strVal).length = 0) && decide ((tok r.strVal).length = 0)) = true) := by
    simpa using hne
  show suffixFilterPair f tok l r = _
  unfold suffixFilterPair
  rw [if_neg (by simp [hl, hr])]
  simp only
  rw [if_neg h0, hx, hy]

/-! ## 2. COUNTEREXAMPLES: `_filter_suffix` is not safe on weakly sorted lists -/

/-- the filter object `SuffixFilter(QgramTokenizer(qval=q), 'EDIT_DISTANCE', tau)` -/
def edObj (tau q : Int) : FilterObj := { cfg := edCfg tau q }

/-- τ = 0, q = 1, two IDENTICAL bags of three equal tokens (ranks `[1,1,1]`, prefixes of 1 token, suffixes `[1,1]`):
    the required overlap is 3 = the bag overlap, yet `_filter_suffix` drops the pair.  (`hamming_dist_max = 1`; the
    right suffix is cut at index 1, the left one at index 0 — window `[0,1]`, middle 0 —; estimate
    `|0 − 1| + |1 − 0| = 2 > 1`.) -/
theorem suffixFilterSuffix_bag_counterexample_tau0 :
    (edObj 0 1).cfg.ovThr 3 3 = 3 ∧ ([1, 1, 1].bagInter [1, 1, 1]).length = 3 ∧
      (edObj 0 1).cfg.prefixLen 3 = 1 ∧
      suffixFilterSuffix (edObj 0 1) (pyDrop [1, 1, 1] 1) (pyDrop [1, 1, 1] 1) 1 1 3 3 = true := by
  decide +kernel

/-- τ = 2, q = 1: ranks `[1⁶,2⁵]` (11 tokens) against `[1⁴,2⁵]` (9 tokens): bag overlap 9 = required overlap
    `11 − 2`, prefixes of 3 tokens, `hamming_dist_max = 5`; the estimator returns 6 and the pair is dropped.  (The right
    suffix `[1,2,2,2,2,2]` is cut at its middle, INSIDE the run of 2s: left part `[1,2,2]`; the left suffix
    `[1,1,1,2,2,2,2,2]` is cut at its first 2: left part `[1,1,1]`; the copies of the probe token 2 sit on different
    sides and the recursive estimate for the left parts alone is 4.) -/
theorem suffixFilterSuffix_bag_counterexample_tau2 :
    (edObj 2 1).cfg.ovThr 11 9 = 9 ∧
      ([1, 1, 1, 1, 1, 1, 2, 2, 2, 2, 2].bagInter [1, 1, 1, 1, 2, 2, 2, 2, 2]).length = 9 ∧
      (edObj 2 1).cfg.prefixLen 11 = 3 ∧ (edObj 2 1).cfg.prefixLen 9 = 3 ∧
      suffixFilterSuffix (edObj 2 1) (pyDrop [1, 1, 1, 1, 1, 1, 2, 2, 2, 2, 2] 3) (pyDrop [1, 1, 1, 1, 2, 2, 2, 2, 2] 3)
        3 3 11 9 = true := by
  decide +kernel

/-- the ordered lists of the pair "aaa" / "aaa" under 1-grams -/
theorem order_aaa :
    orderUsing (qgrams 1 false "aaa") (genTokenOrdering [qgrams 1 false "aaa", qgrams 1 false "aaa"]) = [1, 1, 1] := by
  have ho : genTokenOrdering [qgrams 1 false "aaa", qgrams 1 false "aaa"] = [("a", 1)] := by
    unfold genTokenOrdering
    rw [show tokenFreq [qgrams 1 false "aaa", qgrams 1 false "aaa"] = [("a", 6)] by decide +kernel]
    rw [rankTokens_eq_of_sorted _ (by decide +kernel) (by decide +kernel)]
    decide +kernel
  rw [ho]
  exact orderUsing_eq_of_sorted _ _ _ (by decide +kernel) (by decide +kernel)

/-- PRE-REPAIR COUNTEREXAMPLE for `SuffixFilter.filter_pair` under EDIT_DISTANCE: threshold 0, unpadded 1-grams, the
    IDENTICAL strings "aaa" / "aaa" (distance 0 ≤ 0, they share the 1-gram "a"): both ordered token lists are `[1,1,1]`,
    the prefix length is 1, and the unnumbered body of `_filter_suffix` drops the pair -/
theorem unnumbered_pair_counterexample_tau0 :
    qualED "<=" 0 "aaa" "aaa" = true ∧ shareToken (qgrams 1 false) "aaa" "aaa" = true ∧
      orderUsing (qgrams 1 false "aaa") (genTokenOrdering [qgrams 1 false "aaa", qgrams 1 false "aaa"]) = [1, 1, 1] ∧
      (edObj 0 1).cfg.prefixLen (qgrams 1 false "aaa").length = 1 ∧
      suffixFilterSuffix (edObj 0 1) (pyDrop [1, 1, 1] 1) (pyDrop [1, 1, 1] 1) 1 1 3 3 = true :=
  ⟨by decide +kernel, by decide +kernel, order_aaa, by decide +kernel, by decide +kernel⟩

theorem order_ab (s : String) (x : List Nat)
    (hf : tokenFreq [qgrams 1 false "aaaaaabbbbb", qgrams 1 false "aaaabbbbb"] = [("a", 10), ("b", 10)])
    (hx : (qgrams 1 false s).filterMap (fun t => Dict.get? [("a", 1), ("b", 2)] t) = x)
    (hs : x.Pairwise (fun a b => decide (a ≤ b) = true)) :
    orderUsing (qgrams 1 false s)
      (genTokenOrdering [qgrams 1 false "aaaaaabbbbb", qgrams 1 false "aaaabbbbb"]) = x := by
  have ho : genTokenOrdering [qgrams 1 false "aaaaaabbbbb", qgrams 1 false "aaaabbbbb"] = [("a", 1), ("b", 2)] := by
    unfold genTokenOrdering
    rw [hf, rankTokens_eq_of_sorted _ (by decide +kernel) (by decide +kernel)]
    decide +kernel
  rw [ho]
  exact orderUsing_eq_of_sorted _ _ _ hx hs

/-- PRE-REPAIR COUNTEREXAMPLE with a positive threshold: τ = 2, unpadded 1-grams, "aaaaaabbbbb" / "aaaabbbbb" (distance 2:
    two deletions): ordered token lists `[1⁶,2⁵]` / `[1⁴,2⁵]`, prefixes of 3 tokens, dropped by the unnumbered body -/
theorem unnumbered_pair_counterexample_tau2 :
    qualED "<=" 2 "aaaaaabbbbb" "aaaabbbbb" = true ∧ shareToken (qgrams 1 false) "aaaaaabbbbb" "aaaabbbbb" = true ∧
      orderUsing (qgrams 1 false "aaaaaabbbbb")
        (genTokenOrdering [qgrams 1 false "aaaaaabbbbb", qgrams 1 false "aaaabbbbb"]) = [1, 1, 1, 1, 1, 1, 2, 2, 2, 2, 2] ∧
      orderUsing (qgrams 1 false "aaaabbbbb")
        (genTokenOrdering [qgrams 1 false "aaaaaabbbbb", qgrams 1 false "aaaabbbbb"]) = [1, 1, 1, 1, 2, 2, 2, 2, 2] ∧
      suffixFilterSuffix (edObj 2 1) (pyDrop [1, 1, 1, 1, 1, 1, 2, 2, 2, 2, 2] 3) (pyDrop [1, 1, 1, 1, 2, 2, 2, 2, 2] 3)
        3 3 11 9 = true :=
  ⟨by decide +kernel, by decide +kernel,
    order_ab _ _ (by decide +kernel) (by decide +kernel) (by decide +kernel),
    order_ab _ _ (by decide +kernel) (by decide +kernel) (by decide +kernel), by decide +kernel⟩

/-- what the repair does to the first counterexample: the suffixes `[1,1]` are numbered `[(1,0),(1,1)]` (codes 5, 6 with
    base 5) and the estimator keeps the pair -/
theorem numbered_ranklist_tau0 :
    numberRepeated 5 [1, 1] = [5, 6] ∧
      suffixFilterSuffixN (edObj 0 1) (pyDrop [1, 1, 1] 1) (pyDrop [1, 1, 1] 1) 1 1 3 3 = false := by
  decide +kernel

/-! ## 3. the repaired filter is safe on bags -/

/-- `_filter_suffix` as called under EDIT_DISTANCE (threshold `tau`, q-gram size `q`) keeps two non-empty token BAGS `a`, `b`
    which lose at most `q·tau` tokens against each other, under any injective ordering which knows all their tokens -/
theorem suffixFilterSuffixN_ed (f : FilterObj) (tau : Int) (q : Nat) (hf : f.cfg = edCfg tau q)
    (a b : List Tok) (ord : List (Tok × Nat))
    (hka : ∀ x ∈ a, (Dict.get? ord x).isSome) (hkb : ∀ x ∈ b, (Dict.get? ord x).isSome)
    (hinj : ∀ t1 t2 r, Dict.get? ord t1 = some r → Dict.get? ord t2 = some r → t1 = t2)
    (htau : 0 ≤ tau) (ha0 : a.length ≠ 0) (hb0 : b.length ≠ 0)
    (hd1 : (a.diff b).length ≤ ((q : Int) * tau).toNat) (hd2 : (b.diff a).length ≤ ((q : Int) * tau).toNat) :
    suffixFilterSuffixN f (pyDrop (orderUsing a ord) (f.cfg.prefixLen a.length))
      (pyDrop (orderUsing b ord) (f.cfg.prefixLen b.length))
      (f.cfg.prefixLen a.length) (f.cfg.prefixLen b.length) a.length b.length = false := by
  have hK0 : 0 ≤ (q : Int) * tau := Int.mul_nonneg (Int.natCast_nonneg q) htau
  have hKn : ((((q : Int) * tau).toNat : Nat) : Int) = (q : Int) * tau := Int.toNat_of_nonneg hK0
  have pa : f.cfg.prefixLen a.length = min ((q : Int) * tau + 1) (a.length : Int) := by
    rw [hf, prefixLen_ed, if_neg ha0]
  have pb : f.cfg.prefixLen b.length = min ((q : Int) * tau + 1) (b.length : Int) := by
    rw [hf, prefixLen_ed, if_neg hb0]
  have ov : f.cfg.ovThr a.length b.length = max (a.length : Int) b.length - (q : Int) * tau := by
    rw [hf]; exact ovThr_ed _ tau q rfl rfl rfl _ _
  have hm : f.cfg.measure = .editDistance := by rw [hf]
  have hla := orderUsing_length a ord hka
  have hlb := orderUsing_length b ord hkb
  have e1 := orderUsing_diff_length ord hinj a b hka hkb
  have e2 := orderUsing_diff_length ord hinj b a hkb hka
  have hc := length_add_diff (orderUsing a ord) (orderUsing b ord)
  rw [e1, e2, hla, hlb] at hc
  have := suffixFilterSuffixN_safe_bag f hm (orderUsing a ord) (orderUsing b ord)
    (orderUsing_sorted a ord) (orderUsing_sorted b ord)
    (f.cfg.prefixLen a.length) (f.cfg.prefixLen b.length)
    (by rw [pa]; omega) (by rw [pb]; omega) (by rw [hla, pa]; omega) (by rw [hlb, pb]; omega)
    (by rw [hla, hlb, e1, ov]; omega)
  rw [hla, hlb] at this
  exact this

/-- C04, SuffixFilter.filter_pair under EDIT_DISTANCE (repaired code): strings within distance `tau` sharing a q-gram are
    kept -/
theorem suffixFilterPair_safe_ed (f : FilterObj) (tau : Int) (q : Nat) (hf : f.cfg = edCfg tau q) (pad : Bool)
    (l r : Cell) (hl : l.isMissing = false) (hr : r.isMissing = false)
    (hd : (lev l.strVal r.strVal : Int) ≤ tau)
    (hshare : shareToken (qgrams q pad) l.strVal r.strVal = true) :
    filterPair .suffix f (qgrams q pad) l r = false := by
  have htau : 0 ≤ tau := le_trans (Int.natCast_nonneg _) hd
  obtain ⟨g, hg1, hg2⟩ := (shareToken_iff _ _ _).1 hshare
  have hn1 : (qgrams q pad l.strVal).length ≠ 0 := fun h => by
    rw [List.length_eq_zero_iff.1 h] at hg1; simp at hg1
  have hn2 : (qgrams q pad r.strVal).length ≠ 0 := fun h => by
    rw [List.length_eq_zero_iff.1 h] at hg2; simp at hg2
  have hqt : 0 ≤ (q : Int) * tau := Int.mul_nonneg (Int.natCast_nonneg q) htau
  have hd1 := le_trans (qgrams_diff_le q pad l.strVal r.strVal) (qlev_le q tau _ hd)
  have hd2 := le_trans (qgrams_diff_le' q pad l.strVal r.strVal) (qlev_le q tau _ hd)
  have hp1 : 0 < f.cfg.prefixLen (qgrams q pad l.strVal).length := by
    rw [hf, prefixLen_ed, if_neg hn1]; omega
  have hp2 : 0 < f.cfg.prefixLen (qgrams q pad r.strVal).length := by
    rw [hf, prefixLen_ed, if_neg hn2]; omega
  show suffixFilterPair f (qgrams q pad) l r = false
  unfold suffixFilterPair
  simp only [hl, hr, Bool.or_self, Bool.false_eq_true, if_false]
  rw [if_neg (by simp only [Bool.and_eq_true, decide_eq_true_eq]; exact fun h => hn1 h.1),
    if_neg (by simp only [Bool.or_eq_true, decide_eq_true_eq]; omega)]
  exact suffixFilterSuffixN_ed f tau q hf _ _ _
    (genTokenOrdering_isSome _ _ (by simp)) (genTokenOrdering_isSome _ _ (by simp)) (genTokenOrdering_inj _)
    htau hn1 hn2 hd1 hd2

/-- SuffixFilter._filter_tables_split under EDIT_DISTANCE emits every pair of rows whose token bags are non-empty and lose
    at most `q·τ` tokens against each other -/
theorem emits_suffix_ed (f : FilterObj) (tau : Int) (q : Nat) (htau : 0 ≤ tau) (hf : f.cfg = edCfg tau q)
    (tok : String → List Tok) (lAttr rAttr : Nat) (lt rt : List Row) (x y : Row) (hx : x ∈ lt) (hy : y ∈ rt)
    (ha0 : (tok (x.cell lAttr).strVal).length ≠ 0) (hb0 : (tok (y.cell rAttr).strVal).length ≠ 0)
    (h1 : ((tok (x.cell lAttr).strVal).diff (tok (y.cell rAttr).strVal)).length ≤ ((q : Int) * tau).toNat)
    (h2 : ((tok (y.cell rAttr).strVal).diff (tok (x.cell lAttr).strVal)).length ≤ ((q : Int) * tau).toNat) :
    Emits f tok lAttr rAttr lt rt .suffix x y := by
  have hqt : 0 ≤ (q : Int) * tau := Int.mul_nonneg (Int.natCast_nonneg q) htau
  have hka := genTokenOrdering_isSome (lt.map (fun row => tok (row.cell lAttr).strVal) ++
      rt.map (fun row => tok (row.cell rAttr).strVal)) _
    (List.mem_append_left _ (List.mem_map.2 ⟨x, hx, rfl⟩))
  have hkb := genTokenOrdering_isSome (lt.map (fun row => tok (row.cell lAttr).strVal) ++
      rt.map (fun row => tok (row.cell rAttr).strVal)) _
    (List.mem_append_right _ (List.mem_map.2 ⟨y, hy, rfl⟩))
  have hp1 : 0 < f.cfg.prefixLen (tok (x.cell lAttr).strVal).length := by
    rw [hf, prefixLen_ed, if_neg ha0]; omega
  have hp2 : 0 < f.cfg.prefixLen (tok (y.cell rAttr).strVal).length := by
    rw [hf, prefixLen_ed, if_neg hb0]; omega
  refine ⟨hx, hy, ?_⟩
  unfold suffixKeeps tableOrdering
  simp only [orderUsing_length _ _ hka, orderUsing_length _ _ hkb]
  rw [if_neg (by
    simp only [Bool.and_eq_true, decide_eq_true_eq, not_and]
    intro h3 _
    exact absurd h3.2 ha0)]
  rw [if_neg (by simp only [Bool.or_eq_true, decide_eq_true_eq]; omega)]
  rw [suffixFilterSuffixN_ed f tau q hf _ _ _ hka hkb (genTokenOrdering_inj _) htau ha0 hb0 h1 h2]
  rfl

/-- C04, SuffixFilter.filter_tables under EDIT_DISTANCE (repaired code) -/
theorem filterTables_suffix_safe_ed (f : FilterObj) (a : TableArgs) (t : TokObj) (toks : TokFn) (cpu : Int)
    (l r fr : Frame) (tau : Int) (q : Nat) (hf : f.cfg = edCfg tau q)
    (pad : Bool) (htok : ∀ s, toks t.returnSet s = qgrams q pad s)
    (hv : validateTablesAttrs a = .ok (l, r)) (hk : validateOutAndKeys a l r = .ok ())
    (hrows : r.rows.length < 2 ^ 40) (hres : filterTables .suffix f a t toks cpu = .ok fr)
    (ls rs : Row) (hls : ls ∈ l.rows) (hrs : rs ∈ r.rows)
    (hlp : Present l a.lAttr ls) (hrp : Present r a.rAttr rs)
    (hd : (lev (strOf l a.lAttr ls) (strOf r a.rAttr rs) : Int) ≤ tau)
    (hshare : shareToken (qgrams q pad) (strOf l a.lAttr ls) (strOf r a.rAttr rs) = true) :
    ∃ row ∈ fr.rows, rowKeys row = (keyOf l a.lKey ls, keyOf r a.rKey rs) := by
  rw [mem_filterTables_iff .suffix f a t toks cpu l r fr hv hk hrows hres ls rs hls hrs hlp hrp]
  obtain ⟨ch, hch, hy⟩ := rRow_mem_chunk a cpu r hrows rs hrs hrp
  have htau : 0 ≤ tau := le_trans (Int.natCast_nonneg _) hd
  obtain ⟨g, hg1, hg2⟩ := (shareToken_iff _ _ _).1 hshare
  have eA : toks t.returnSet ((RT.lRow a l ls).cell (RT.lAttrIdx a)).strVal = qgrams q pad (strOf l a.lAttr ls) := by
    rw [lRow_tokens a l (toks t.returnSet)]; exact htok _
  have eB : toks t.returnSet ((RT.rRow a r rs).cell (RT.rAttrIdx a)).strVal = qgrams q pad (strOf r a.rAttr rs) := by
    rw [rRow_tokens a r (toks t.returnSet)]; exact htok _
  refine ⟨ch, hch, emits_suffix_ed f tau q htau hf _ _ _ _ _ _ _ (lRow_mem a l ls hls hlp) hy ?_ ?_ ?_ ?_⟩
  · rw [eA]; intro h; rw [List.length_eq_zero_iff.1 h] at hg1; simp at hg1
  · rw [eB]; intro h; rw [List.length_eq_zero_iff.1 h] at hg2; simp at hg2
  · rw [eA, eB]; exact le_trans (qgrams_diff_le q pad _ _) (qlev_le q tau _ hd)
  · rw [eA, eB]; exact le_trans (qgrams_diff_le' q pad _ _) (qlev_le q tau _ hd)

/-- the repaired model keeps the first former counterexample … -/
theorem repaired_keeps_tau0 :
    filterPair .suffix (edObj 0 1) (qgrams 1 false) (.str "aaa") (.str "aaa") = false :=
  suffixFilterPair_safe_ed (edObj 0 1) 0 1 rfl false _ _ rfl rfl (by decide +kernel) (by decide +kernel)

/-- … and the second -/
theorem repaired_keeps_tau2 :
    filterPair .suffix (edObj 2 1) (qgrams 1 false) (.str "aaaaaabbbbb") (.str "aaaabbbbb") = false :=
  suffixFilterPair_safe_ed (edObj 2 1) 2 1 rfl false _ _ rfl rfl (by decide +kernel) (by decide +kernel)

end SuffixBag
end SSJ

section AxiomCheck
open SSJ.SuffixBag
/-- info: 'SSJ.SuffixBag.suffixFilterSuffix_bag_counterexample_tau0' depends on axioms: [propext, Classical.choice, Quot.sound] -/
#guard_msgs in #print axioms suffixFilterSuffix_bag_counterexample_tau0
/-- info: 'SSJ.SuffixBag.unnumbered_pair_counterexample_tau0' depends on axioms: [propext, Classical.choice, Quot.sound] -/
#guard_msgs in #print axioms unnumbered_pair_counterexample_tau0
/-- info: 'SSJ.SuffixBag.unnumbered_pair_counterexample_tau2' depends on axioms: [propext, Classical.choice, Quot.sound] -/
#guard_msgs in #print axioms unnumbered_pair_counterexample_tau2
/-- info: 'SSJ.SuffixBag.suffixFilterPair_safe_ed' depends on axioms: [propext, Classical.choice, Quot.sound] -/
#guard_msgs in #print axioms suffixFilterPair_safe_ed
/-- info: 'SSJ.SuffixBag.filterTables_suffix_safe_ed' depends on axioms: [propext, Classical.choice, Quot.sound] -/
#guard_msgs in #print axioms filterTables_suffix_safe_ed
/-- info: 'SSJ.SuffixBag.repaired_keeps_tau2' depends on axioms: [propext, Classical.choice, Quot.sound] -/
#guard_msgs in #print axioms repaired_keeps_tau2
end AxiomCheck

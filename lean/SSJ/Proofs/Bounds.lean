/-
  SSJ.Proofs.Bounds — the interface between the arithmetic of `filter_utils.py` (proved about the
  generated code in `Proofs/Arith.lean`) and the combinatorial proofs about indexes, filters and
  joins: the five integer facts a pruning step needs about a pair with `n` probe tokens,
  `k` candidate tokens and `o` common tokens.
-/
import SSJ.Model.Basic

namespace SSJ

structure BoundsFacts (c : FCfg) (n k o : Nat) : Prop where
  /-- the candidate size is inside the size window of the probe size -/
  lower : c.lower n ≤ (k : Int)
  upper : (k : Int) ≤ c.upper n
  /-- the required overlap for (candidate size, probe size) is reached -/
  ovThr : c.ovThr k n ≤ (o : Int)
  /-- both prefixes are long enough for the prefix-filter principle -/
  prefN : (n : Int) - o + 1 ≤ c.prefixLen n
  prefK : (k : Int) - o + 1 ≤ c.prefixLen k

end SSJ

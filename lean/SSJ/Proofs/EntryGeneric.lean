/-
  SSJ.Proofs.EntryGeneric — helpers for the ENTRY-LEVEL properties C08 / C10 / C11.

  * the per-chunk `work` function of every `*_join_py` / `filter_tables` entry point, and the fact that it only
    emits rows `withScore oss (outputRow o la ra) s` built from its two array arguments (`WorkFaithful`);
  * `TableCall`: the six entry points (as functions of `allow_missing`, `n_jobs` and the cpu count) applied to
    valid arguments, and their normal form `runTables … work`;
  * generic consequences for `runTables` under `WorkFaithful`: totality, row decomposition, source rows behind
    every result row, the missing-value rows;
  * independence of `n_jobs`: list equality for the entry points whose per-chunk work is a `flatMap` over the
    right rows (overlap filter / join, overlap-coefficient join, size filter) and a permutation for the
    edit-distance join (per right row the candidates are characterised chunk-independently).
-/
import SSJ.Proofs.Frames
import SSJ.Proofs.Session
import SSJ.Proofs.JoinSetSim
import SSJ.Proofs.JoinExact
import SSJ.Proofs.JoinED
import SSJ.Proofs.QGram
import SSJ.Proofs.FilterSafe
import Mathlib.Data.List.Perm.Basic
import Mathlib.Data.List.Perm.Lattice

namespace SSJ

/-! ## 1. faithful work functions -/

/-- the type of the per-chunk work handed to `runTables` -/
abbrev Work := OutCfg → Nat → Nat → List Row → List Row → List Row

/-- `work` only emits output rows of pairs (row of the left array, row of the chunk), followed by a score
    cell iff `oss` -/
def WorkFaithful (oss : Bool) (work : Work) : Prop :=
  ∀ o i j lArr ch, ∀ row ∈ work o i j lArr ch,
    ∃ la ∈ lArr, ∃ ra ∈ ch, ∃ s, row = withScore oss (outputRow o la ra) s

theorem getD_mem_of_lt {α : Type} (l : List α) (i : Nat) (d : α) (h : i < l.length) : l.getD i d ∈ l := by
  rw [List.getD_eq_getElem?_getD, List.getElem?_eq_getElem h]
  exact List.getElem_mem h

theorem eg_withScore_eq_append (b : Bool) (row : Row) (s : Cell) :
    withScore b row s = row ++ (if b then [s] else []) := by
  cases b <;> simp [withScore]

/-- the work functions of the entry points -/
def Work.setSim (m : Measure) (threshold : PyV) (compOp : String) (allowEmpty oss : Bool)
    (tok : String → List Tok) : Work :=
  fun o lAttr rAttr lArr ch =>
    setSimJoin { f := { cfg := { measure := m, threshold := threshold }, allowEmpty := allowEmpty },
                 compOp := compOp, lAttr := lAttr, rAttr := rAttr, out := o, outSimScore := oss } tok lArr ch

def Work.ovc (threshold : PyV) (compOp : String) (allowEmpty oss : Bool) (tok : String → List Tok) : Work :=
  fun o lAttr rAttr lArr ch =>
    overlapCoefficientJoinSplit threshold compOp allowEmpty lAttr rAttr o oss tok lArr ch

def Work.ed (tau qval : Int) (compOp : String) (oss : Bool) (tok : String → List Tok) : Work :=
  fun o lAttr rAttr lArr ch => editDistanceJoinSplit tau qval compOp lAttr rAttr o oss tok lArr ch

def Work.filter (k : FilterKind) (f : FilterObj) (tok : String → List Tok) : Work :=
  fun o lAttr rAttr lArr ch => filterTablesSplit k f tok o lAttr rAttr lArr ch

def Work.overlap (f : OverlapFilterObj) (oss : Bool) (tok : String → List Tok) : Work :=
  fun o lAttr rAttr lArr ch => overlapFilterTablesSplit f tok o lAttr rAttr oss lArr ch

theorem Work.setSim_faithful (m : Measure) (threshold : PyV) (compOp : String) (allowEmpty oss : Bool)
    (tok : String → List Tok) : WorkFaithful oss (Work.setSim m threshold compOp allowEmpty oss tok) := by
  intro o i j lArr ch row hrow
  unfold Work.setSim at hrow
  rw [setSimJoin_eq_pairs] at hrow
  obtain ⟨p, hp, rfl⟩ := List.mem_map.1 hrow
  obtain ⟨hc, hd⟩ := setSimJoinPairs_valid _ _ _ _ p hp
  exact ⟨_, getD_mem_of_lt _ _ _ hc, _, getD_mem_of_lt _ _ _ hd, _, rfl⟩

/-! ### candidate ids of the inverted index are valid (no hypothesis on the tokenizer) -/

theorem keys_foldl_ovIncr (cands : List Nat) (d : List (Nat × Int)) :
    ∀ c ∈ (cands.foldl ovIncr d).map (·.1), c ∈ d.map (·.1) ∨ c ∈ cands := by
  induction cands generalizing d with
  | nil => intro c hc; exact Or.inl hc
  | cons a cands ih =>
    intro c hc
    rw [List.foldl_cons] at hc
    rcases ih _ c hc with h | h
    · unfold ovIncr at h
      rw [Dict.keys_set] at h
      split at h
      · exact Or.inl h
      · rcases List.mem_append.1 h with h | h
        · exact Or.inl h
        · rw [List.mem_singleton] at h
          exact Or.inr (by rw [h]; exact List.mem_cons_self)
    · exact Or.inr (List.mem_cons_of_mem _ h)

theorem overlapFindCandidates_valid (toks : List (List Tok)) (x : List Tok) (cs ce : Bool) (c : Nat) (k : Int)
    (h : (c, k) ∈ overlapFindCandidates x (InvIndex.build toks cs ce)) : c < toks.length := by
  rw [overlapFindCandidates_eq] at h
  have hk : c ∈ ((x.flatMap (fun t => probe (InvIndex.build toks cs ce).index t)).foldl ovIncr []).map (·.1) :=
    List.mem_map.2 ⟨(c, k), h, rfl⟩
  rcases keys_foldl_ovIncr _ _ c hk with h' | h'
  · simp at h'
  · obtain ⟨t, _, ht⟩ := List.mem_flatMap.1 h'
    have := (mem_probe_rows (fun y => y) toks t c).1 ht
    obtain ⟨y, hy, _⟩ := this
    by_contra hcon
    rw [List.getElem?_eq_none (by omega)] at hy
    cases hy

theorem emptyRecords_valid (ce : Bool) (sizes : List Nat) (c : Nat) (h : c ∈ emptyRecords ce sizes) :
    c < sizes.length := by
  obtain ⟨_, h⟩ := (jx_mem_emptyRecords ce sizes c).1 h
  by_contra hcon
  rw [List.getElem?_eq_none (by omega)] at h
  cases h

theorem Work.ovc_faithful (threshold : PyV) (compOp : String) (allowEmpty oss : Bool)
    (tok : String → List Tok) : WorkFaithful oss (Work.ovc threshold compOp allowEmpty oss tok) := by
  intro o i j lArr ch row hrow
  unfold Work.ovc overlapCoefficientJoinSplit at hrow
  simp only [List.mem_flatMap] at hrow
  obtain ⟨ra, hra, hrow⟩ := hrow
  split at hrow
  · obtain ⟨lid, hlid, rfl⟩ := List.mem_map.1 hrow
    have hv := emptyRecords_valid _ _ _ hlid
    rw [List.length_map, List.length_map] at hv
    exact ⟨_, getD_mem_of_lt _ _ _ hv, ra, hra, _, rfl⟩
  · obtain ⟨⟨cand, ov⟩, hq, hsome⟩ := List.mem_filterMap.1 hrow
    have hv := overlapFindCandidates_valid _ _ _ _ _ _ hq
    rw [List.length_map] at hv
    simp only at hsome
    split at hsome
    · cases hsome
      exact ⟨_, getD_mem_of_lt _ _ _ hv, ra, hra, _, rfl⟩
    · cases hsome

theorem Work.overlap_faithful (f : OverlapFilterObj) (oss : Bool) (tok : String → List Tok) :
    WorkFaithful oss (Work.overlap f oss tok) := by
  intro o i j lArr ch row hrow
  unfold Work.overlap overlapFilterTablesSplit at hrow
  simp only [List.mem_flatMap] at hrow
  obtain ⟨ra, hra, hrow⟩ := hrow
  obtain ⟨⟨cand, ov⟩, hq, hsome⟩ := List.mem_filterMap.1 hrow
  have hv := overlapFindCandidates_valid _ _ _ _ _ _ hq
  rw [List.length_map] at hv
  simp only at hsome
  split at hsome
  · cases hsome
    exact ⟨_, getD_mem_of_lt _ _ _ hv, ra, hra, Cell.int ov, (eg_withScore_eq_append _ _ _).symm⟩
  · cases hsome

theorem Work.ed_faithful (tau qval : Int) (compOp : String) (oss : Bool) (tok : String → List Tok) :
    WorkFaithful oss (Work.ed tau qval compOp oss tok) := by
  intro o i j lArr ch row hrow
  unfold Work.ed at hrow
  rw [editDistanceJoinSplit_eq_pairs] at hrow
  obtain ⟨⟨c, d, k⟩, hp, rfl⟩ := List.mem_map.1 hrow
  obtain ⟨hc, hd, -⟩ := edPairs_sound _ _ _ _ _ _ _ _ c d k hp
  exact ⟨_, getD_mem_of_lt _ _ _ hc, _, getD_mem_of_lt _ _ _ hd, _, rfl⟩

section FilterKinds
variable (f : FilterObj) (tok : String → List Tok) (lAttr rAttr : Nat) (ltable rtable : List Row)

theorem sizePairs_valid (c d : Nat) (h : (c, d) ∈ sizePairs f tok lAttr rAttr ltable rtable) :
    c < ltable.length ∧ d < rtable.length := by
  obtain ⟨hc, hd, -⟩ := (mem_sizePairs_iff f tok lAttr rAttr ltable rtable c d).1 h
  exact ⟨hc, hd⟩

theorem prefixPairs_valid (c d : Nat) (h : (c, d) ∈ prefixPairs f tok lAttr rAttr ltable rtable) :
    c < ltable.length ∧ d < rtable.length := by
  obtain ⟨hd, hc⟩ := (mem_idPairs _ _ c d).1 h
  refine ⟨?_, hd⟩
  by_cases he : handleEmpty f = true ∧ (rowToks tok rAttr rtable d).length = 0
  · exact ((mem_prefixCands_empty f tok lAttr rAttr ltable rtable d hd he c).1 hc).1
  · exact ((mem_prefixCands_nonempty f tok lAttr rAttr ltable rtable d hd he c).1 hc).1

theorem positionPairs_valid (c d : Nat) (h : (c, d) ∈ positionPairs f tok lAttr rAttr ltable rtable) :
    c < ltable.length ∧ d < rtable.length :=
  prefixPairs_valid f tok lAttr rAttr ltable rtable c d
    (positionPairs_subset_prefixPairs f tok lAttr rAttr ltable rtable (c, d) h)

end FilterKinds

theorem mem_of_mem_zip_map {α β : Type} (l : List α) (g : α → β) (x : α × β) (h : x ∈ l.zip (l.map g)) :
    x.1 ∈ l := (List.of_mem_zip (a := x.1) (b := x.2) h).1

theorem Work.filter_faithful (k : FilterKind) (f : FilterObj) (tok : String → List Tok) :
    WorkFaithful false (Work.filter k f tok) := by
  intro o i j lArr ch row hrow
  unfold Work.filter filterTablesSplit at hrow
  cases k with
  | size =>
    simp only at hrow
    rw [sizeFilterTablesSplit_eq] at hrow
    obtain ⟨⟨c, d⟩, hp, rfl⟩ := List.mem_map.1 hrow
    obtain ⟨hc, hd⟩ := sizePairs_valid _ _ _ _ _ _ c d hp
    exact ⟨_, getD_mem_of_lt _ _ _ hc, _, getD_mem_of_lt _ _ _ hd, Cell.missing, rfl⟩
  | «prefix» =>
    simp only at hrow
    rw [prefixFilterTablesSplit_eq] at hrow
    obtain ⟨⟨c, d⟩, hp, rfl⟩ := List.mem_map.1 hrow
    obtain ⟨hc, hd⟩ := prefixPairs_valid _ _ _ _ _ _ c d hp
    exact ⟨_, getD_mem_of_lt _ _ _ hc, _, getD_mem_of_lt _ _ _ hd, Cell.missing, rfl⟩
  | position =>
    simp only at hrow
    rw [positionFilterTablesSplit_eq] at hrow
    obtain ⟨⟨c, d⟩, hp, rfl⟩ := List.mem_map.1 hrow
    obtain ⟨hc, hd⟩ := positionPairs_valid _ _ _ _ _ _ c d hp
    exact ⟨_, getD_mem_of_lt _ _ _ hc, _, getD_mem_of_lt _ _ _ hd, Cell.missing, rfl⟩
  | suffix =>
    simp only at hrow
    unfold suffixFilterTablesSplit at hrow
    simp only [List.mem_flatMap] at hrow
    obtain ⟨x, hx, y, hy, hrow⟩ := hrow
    have hxl := mem_of_mem_zip_map _ _ x hx
    have hyl := mem_of_mem_zip_map _ _ y hy
    split at hrow
    · rw [List.mem_singleton] at hrow
      exact ⟨x.1, hxl, y.1, hyl, Cell.missing, hrow⟩
    · split at hrow
      · cases hrow
      · split at hrow
        · rw [List.mem_singleton] at hrow
          exact ⟨x.1, hxl, y.1, hyl, Cell.missing, hrow⟩
        · cases hrow

/-! ## 2. the entry points in normal form -/

theorem except_bind_eq_ok {ε α β : Type} (x : Except ε α) (f : α → Except ε β) (b : β) (h : x >>= f = .ok b) :
    ∃ a, x = .ok a ∧ f a = .ok b := by
  cases x with
  | error e => cases h
  | ok a => exact ⟨a, rfl, h⟩

/-- the same table arguments with another `n_jobs` -/
def TableArgs.withJobs (a : TableArgs) (nj : Int) : TableArgs := { a with nJobs := nj }

/-- the same join arguments with other `allow_missing` and `n_jobs` -/
def JoinArgs.set (a : JoinArgs) (am : Bool) (nj : Int) : JoinArgs := { a with allowMissing := am, nJobs := nj }

theorem JoinArgs.set_self (a : JoinArgs) : a.set a.allowMissing a.nJobs = a := rfl
theorem TableArgs.withJobs_self (a : TableArgs) : a.withJobs a.nJobs = a := rfl
theorem JoinArgs.set_toTableArgs (a : JoinArgs) (am : Bool) (nj : Int) :
    (a.set am nj).toTableArgs = a.toTableArgs.withJobs nj := rfl

theorem validateTablesAttrs_withJobs (a : TableArgs) (nj : Int) :
    validateTablesAttrs (a.withJobs nj) = validateTablesAttrs a := rfl
theorem validateOutAndKeys_withJobs (a : TableArgs) (nj : Int) (l r : Frame) :
    validateOutAndKeys (a.withJobs nj) l r = validateOutAndKeys a l r := rfl
theorem validateJoin_set (mname : String) (a : JoinArgs) (t : TokObj) (am : Bool) (nj : Int) :
    validateJoin mname (a.set am nj) t = validateJoin mname a t := rfl

/-- a successful `validateJoin` ran the table/attribute validations and the output/key validations -/
theorem validateJoin_parts (mname : String) (a : JoinArgs) (t : TokObj) (l r : Frame)
    (h : validateJoin mname a t = .ok (l, r)) :
    validateTablesAttrs a.toTableArgs = .ok (l, r) ∧ validateOutAndKeys a.toTableArgs l r = .ok () := by
  rw [validateJoin_eq] at h
  obtain ⟨p, h1, h⟩ := except_bind_eq_ok _ _ _ h
  obtain ⟨_, _, h⟩ := except_bind_eq_ok _ _ _ h
  obtain ⟨_, _, h⟩ := except_bind_eq_ok _ _ _ h
  obtain ⟨_, _, h⟩ := except_bind_eq_ok _ _ _ h
  obtain ⟨_, h5, h⟩ := except_bind_eq_ok _ _ _ h
  cases h
  exact ⟨h1, h5⟩

theorem eg_validateOutAndKeys_keys (a : TableArgs) (l r : Frame) (h : validateOutAndKeys a l r = .ok ()) :
    validateKeyAttr a.lKey l = .ok () ∧ validateKeyAttr a.rKey r = .ok () := by
  unfold validateOutAndKeys at h
  obtain ⟨_, _, h⟩ := except_bind_eq_ok _ _ _ h
  obtain ⟨_, h2, h⟩ := except_bind_eq_ok _ _ _ h
  exact ⟨h2, h⟩

/-- a threshold that is a finite number (an int or a finite float) -/
def FiniteNum (v : PyV) : Prop := (∃ i : Int, v = .int i) ∨ (∃ q : Rat, v = .float q)

/-- `int(floor(threshold))` of the edit-distance join -/
def edTau (thr : PyV) : Int := (PyV.toInt (PyV.floor thr)).toIntD

theorem toInt_floor_of_finite (v : PyV) (h : FiniteNum v) : PyV.toInt (PyV.floor v) = .int (edTau v) := by
  rcases h with ⟨i, rfl⟩ | ⟨q, rfl⟩ <;> rfl

theorem eg_mkOverlapFilter_ok (thr : PyV) (op : String) (am : Bool) (t : TokObj) (f : OverlapFilterObj)
    (h : mkOverlapFilter thr op am t = .ok f) (am' : Bool) :
    mkOverlapFilter thr op am' t = .ok { overlapSize := thr, compOp := op, allowMissing := am' } := by
  unfold mkOverlapFilter at h ⊢
  obtain ⟨_, h1, h⟩ := except_bind_eq_ok _ _ _ h
  obtain ⟨_, h2, h⟩ := except_bind_eq_ok _ _ _ h
  obtain ⟨_, h3, h⟩ := except_bind_eq_ok _ _ _ h
  rw [h1, except_ok_bind, h2, except_ok_bind, h3, except_ok_bind]
  rfl

theorem eg_overlapFilterTables_eq (f : OverlapFilterObj) (a : TableArgs) (oss : Bool) (tok : String → List Tok)
    (cpu : Int) (l r : Frame) (hv : validateTablesAttrs a = .ok (l, r)) (hk : validateOutAndKeys a l r = .ok ()) :
    overlapFilterTables f a oss tok cpu = runTables a l r f.allowMissing oss cpu (Work.overlap f oss tok) := by
  unfold overlapFilterTables
  rw [hv, except_ok_bind]
  show (validateOutAndKeys a l r >>= _) = _
  rw [hk, except_ok_bind]
  rfl

theorem eg_filterTables_eq (k : FilterKind) (f : FilterObj) (a : TableArgs) (t : TokObj) (toks : TokFn)
    (cpu : Int) (l r : Frame) (hv : validateTablesAttrs a = .ok (l, r)) (hk : validateOutAndKeys a l r = .ok ()) :
    filterTables k f a t toks cpu = runTables a l r f.allowMissing false cpu (Work.filter k f (toks t.returnSet)) := by
  unfold filterTables
  rw [hv, except_ok_bind]
  show (validateOutAndKeys a l r >>= _) = _
  rw [hk, except_ok_bind]
  rfl

theorem setSimJoinPy_eq (m : Measure) (a : JoinArgs) (t : TokObj) (toks : TokFn) (cpu : Int) (l r : Frame)
    (hv : validateJoin m.name a t = .ok (l, r)) :
    (setSimJoinPy m a t toks cpu).result =
      runTables a.toTableArgs l r a.allowMissing a.outSimScore cpu
        (Work.setSim m a.threshold a.compOp a.allowEmpty a.outSimScore (toks true)) := by
  unfold setSimJoinPy
  rw [hv]
  exact withFlag_result _ _ _

theorem overlapCoefficientJoinPy_eq (a : JoinArgs) (t : TokObj) (toks : TokFn) (cpu : Int) (l r : Frame)
    (hv : validateJoin "OVERLAP_COEFFICIENT" a t = .ok (l, r)) :
    (overlapCoefficientJoinPy a t toks cpu).result =
      runTables a.toTableArgs l r a.allowMissing a.outSimScore cpu
        (Work.ovc a.threshold a.compOp a.allowEmpty a.outSimScore (toks true)) := by
  unfold overlapCoefficientJoinPy
  rw [hv]
  exact withFlag_result _ _ _

theorem editDistanceJoinPy_eq (a : JoinArgs) (t : TokObj) (toks : TokFn) (cpu : Int) (l r : Frame)
    (hv : validateJoin "EDIT_DISTANCE" a t = .ok (l, r)) (hthr : FiniteNum a.threshold) :
    (editDistanceJoinPy a t toks cpu).result =
      runTables a.toTableArgs l r a.allowMissing a.outSimScore cpu
        (Work.ed (edTau a.threshold) t.qval a.compOp a.outSimScore (toks false)) := by
  unfold editDistanceJoinPy
  rw [hv]
  simp only [toInt_floor_of_finite _ hthr]
  exact withFlag_result _ _ _

theorem overlapJoinPy_eq (a : JoinArgs) (t : TokObj) (toks : TokFn) (cpu : Int) (l r : Frame) (f : OverlapFilterObj)
    (hf : mkOverlapFilter a.threshold a.compOp a.allowMissing t = .ok f)
    (hv : validateTablesAttrs a.toTableArgs = .ok (l, r)) (hk : validateOutAndKeys a.toTableArgs l r = .ok ()) :
    (overlapJoinPy a t toks cpu).result =
      runTables a.toTableArgs l r a.allowMissing a.outSimScore cpu
        (Work.overlap { overlapSize := a.threshold, compOp := a.compOp } a.outSimScore (toks true)) := by
  unfold overlapJoinPy
  simp only
  rw [eg_mkOverlapFilter_ok _ _ _ _ _ hf a.allowMissing, except_ok_bind, eg_overlapFilterTables_eq _ _ _ _ _ l r hv hk]
  rfl

/-- THE ENTRY POINTS.  `TableCall call a l r oss`: `call am nj cpu` is the outcome of one of the six join /
    `filter_tables` entry points, applied to arguments that pass its validations, as a function of
    `allow_missing = am`, `n_jobs = nj` and the machine's cpu count; `a` are the table arguments, `l`, `r`
    the two validated tables and `oss` tells whether a `_sim_score` column is requested. -/
inductive TableCall : (Bool → Int → Int → Except PyErr Frame) → TableArgs → Frame → Frame → Bool → Prop
  /-- `jaccard_join_py`, `cosine_join_py`, `dice_join_py` -/
  | setSim (m : Measure) (a : JoinArgs) (t : TokObj) (toks : TokFn) (l r : Frame)
      (hv : validateJoin m.name a t = .ok (l, r)) :
      TableCall (fun am nj cpu => (setSimJoinPy m (a.set am nj) t toks cpu).result) a.toTableArgs l r a.outSimScore
  /-- `overlap_coefficient_join_py` -/
  | ovc (a : JoinArgs) (t : TokObj) (toks : TokFn) (l r : Frame)
      (hv : validateJoin "OVERLAP_COEFFICIENT" a t = .ok (l, r)) :
      TableCall (fun am nj cpu => (overlapCoefficientJoinPy (a.set am nj) t toks cpu).result)
        a.toTableArgs l r a.outSimScore
  /-- `edit_distance_join_py` (the threshold must be a finite number: `math.floor(inf)` raises) -/
  | ed (a : JoinArgs) (t : TokObj) (toks : TokFn) (l r : Frame)
      (hv : validateJoin "EDIT_DISTANCE" a t = .ok (l, r)) (hthr : FiniteNum a.threshold) :
      TableCall (fun am nj cpu => (editDistanceJoinPy (a.set am nj) t toks cpu).result)
        a.toTableArgs l r a.outSimScore
  /-- `overlap_join_py` -/
  | overlapJoin (a : JoinArgs) (t : TokObj) (toks : TokFn) (l r : Frame) (f : OverlapFilterObj)
      (hf : mkOverlapFilter a.threshold a.compOp a.allowMissing t = .ok f)
      (hv : validateTablesAttrs a.toTableArgs = .ok (l, r)) (hk : validateOutAndKeys a.toTableArgs l r = .ok ()) :
      TableCall (fun am nj cpu => (overlapJoinPy (a.set am nj) t toks cpu).result) a.toTableArgs l r a.outSimScore
  /-- `SizeFilter / PrefixFilter / PositionFilter / SuffixFilter .filter_tables` -/
  | filterTables (k : FilterKind) (f : FilterObj) (a : TableArgs) (t : TokObj) (toks : TokFn) (l r : Frame)
      (hv : validateTablesAttrs a = .ok (l, r)) (hk : validateOutAndKeys a l r = .ok ()) :
      TableCall (fun am nj cpu => filterTables k { f with allowMissing := am } (a.withJobs nj) t toks cpu) a l r false
  /-- `OverlapFilter.filter_tables` -/
  | overlapFilterTables (f : OverlapFilterObj) (a : TableArgs) (oss : Bool) (tok : String → List Tok) (l r : Frame)
      (hv : validateTablesAttrs a = .ok (l, r)) (hk : validateOutAndKeys a l r = .ok ()) :
      TableCall (fun am nj cpu => overlapFilterTables { f with allowMissing := am } (a.withJobs nj) oss tok cpu) a l r oss

theorem Work.filter_allowMissing (k : FilterKind) (f : FilterObj) (am : Bool) (tok : String → List Tok) :
    Work.filter k { f with allowMissing := am } tok = Work.filter k f tok := by
  cases k <;> rfl

/-- NORMAL FORM of every entry point: the keys are validated, and the call is `runTables` with a faithful
    `work` that depends neither on `allow_missing` nor on `n_jobs` nor on the cpu count -/
theorem TableCall.normal {call : Bool → Int → Int → Except PyErr Frame} {a : TableArgs} {l r : Frame} {oss : Bool}
    (h : TableCall call a l r oss) :
    validateKeyAttr a.lKey l = .ok () ∧ validateKeyAttr a.rKey r = .ok () ∧
    ∃ work, WorkFaithful oss work ∧
      ∀ am nj cpu, call am nj cpu = runTables (a.withJobs nj) l r am oss cpu work := by
  cases h with
  | setSim m a t toks l r hv =>
    obtain ⟨_, hk⟩ := validateJoin_parts _ _ _ _ _ hv
    obtain ⟨k1, k2⟩ := eg_validateOutAndKeys_keys _ _ _ hk
    exact ⟨k1, k2, _, Work.setSim_faithful m a.threshold a.compOp a.allowEmpty a.outSimScore (toks true),
      fun am nj cpu => setSimJoinPy_eq m (a.set am nj) t toks cpu l r hv⟩
  | ovc a t toks l r hv =>
    obtain ⟨_, hk⟩ := validateJoin_parts _ _ _ _ _ hv
    obtain ⟨k1, k2⟩ := eg_validateOutAndKeys_keys _ _ _ hk
    exact ⟨k1, k2, _, Work.ovc_faithful a.threshold a.compOp a.allowEmpty a.outSimScore (toks true),
      fun am nj cpu => overlapCoefficientJoinPy_eq (a.set am nj) t toks cpu l r hv⟩
  | ed a t toks l r hv hthr =>
    obtain ⟨_, hk⟩ := validateJoin_parts _ _ _ _ _ hv
    obtain ⟨k1, k2⟩ := eg_validateOutAndKeys_keys _ _ _ hk
    exact ⟨k1, k2, _, Work.ed_faithful (edTau a.threshold) t.qval a.compOp a.outSimScore (toks false),
      fun am nj cpu => editDistanceJoinPy_eq (a.set am nj) t toks cpu l r hv hthr⟩
  | overlapJoin a t toks l r f hf hv hk =>
    obtain ⟨k1, k2⟩ := eg_validateOutAndKeys_keys _ _ _ hk
    exact ⟨k1, k2, _, Work.overlap_faithful { overlapSize := a.threshold, compOp := a.compOp } a.outSimScore (toks true),
      fun am nj cpu => overlapJoinPy_eq (a.set am nj) t toks cpu l r _
        (eg_mkOverlapFilter_ok _ _ _ _ _ hf am) hv hk⟩
  | filterTables k f a t toks l r hv hk =>
    obtain ⟨k1, k2⟩ := eg_validateOutAndKeys_keys _ _ _ hk
    refine ⟨k1, k2, _, Work.filter_faithful k f (toks t.returnSet), fun am nj cpu => ?_⟩
    dsimp only
    rw [eg_filterTables_eq k _ (a.withJobs nj) t toks cpu l r hv hk, Work.filter_allowMissing]
  | overlapFilterTables f a oss tok l r hv hk =>
    obtain ⟨k1, k2⟩ := eg_validateOutAndKeys_keys _ _ _ hk
    refine ⟨k1, k2, _, Work.overlap_faithful f oss tok, fun am nj cpu => ?_⟩
    dsimp only
    rw [eg_overlapFilterTables_eq _ (a.withJobs nj) oss tok cpu l r hv hk]
    rfl

/-! ## 3. generic consequences for `runTables` with a faithful work -/

/-- elements of a chunk are elements of the table (no size restriction) -/
theorem mem_pySlice {α : Type} (l : List α) (lo hi : Int) (x : α) (h : x ∈ pySlice l lo hi) : x ∈ l := by
  unfold pySlice at h
  exact List.mem_of_mem_drop (List.mem_of_mem_take h)

theorem mem_of_mem_chunksFor {α : Type} (table : List α) (nJobs cpu : Int) (ch : List α)
    (hch : ch ∈ chunksFor table nJobs cpu) (x : α) (hx : x ∈ ch) : x ∈ table := by
  unfold chunksFor at hch
  simp only at hch
  split at hch
  · rw [List.mem_singleton] at hch
    rw [← hch]; exact hx
  · unfold splitTable at hch
    obtain ⟨b, _, rfl⟩ := List.mem_map.1 hch
    exact mem_pySlice _ _ _ _ hx

namespace RT

/-- nothing but the chunking depends on `n_jobs` -/
theorem lArr_withJobs (a : TableArgs) (nj : Int) (l : Frame) : lArr (a.withJobs nj) l = lArr a l := rfl
theorem rArr_withJobs (a : TableArgs) (nj : Int) (r : Frame) : rArr (a.withJobs nj) r = rArr a r := rfl
theorem out_withJobs (a : TableArgs) (nj : Int) : out (a.withJobs nj) = out a := rfl
theorem header_withJobs (a : TableArgs) (nj : Int) (oss : Bool) : header (a.withJobs nj) oss = header a oss := rfl
theorem missingRows_withJobs (a : TableArgs) (nj : Int) (l r : Frame) (oss : Bool) :
    missingRows (a.withJobs nj) l r oss = missingRows a l r oss := rfl

/-- the rows over present values: the per-chunk results in chunk order, for `n_jobs = nj` -/
def presentRows (a : TableArgs) (l r : Frame) (nj cpu : Int) (work : Work) : List Row :=
  (chunksFor (rArr a r) nj cpu).flatMap (fun ch => work (out a) (lAttrIdx a) (rAttrIdx a) (lArr a l) ch)

/-- the documented content of a result row (after `_id`, before the score) for the source rows `ls`, `rs` -/
def docRow (a : TableArgs) (l r : Frame) (ls rs : Row) : Row :=
  [ls.cell (l.colIdx a.lKey), rs.cell (r.colIdx a.rKey)] ++
    ((lOut a).getD []).map (fun c => ls.cell (l.colIdx c)) ++
    ((rOut a).getD []).map (fun c => rs.cell (r.colIdx c))

theorem docRow_length (a : TableArgs) (l r : Frame) (ls rs : Row) :
    (docRow a l r ls rs).length = (header a false).length := by
  rw [header_length_eq]
  simp [docRow]
  omega

theorem width_of_faithful {oss : Bool} {work : Work} (hwf : WorkFaithful oss work) (a : TableArgs) (l : Frame) :
    ∀ ch, ∀ row ∈ work (out a) (lAttrIdx a) (rAttrIdx a) (lArr a l) ch, row.length = (header a oss).length := by
  intro ch row hrow
  obtain ⟨la, _, ra, _, s, rfl⟩ := hwf _ _ _ _ _ row hrow
  exact withScore_outputRow_length a oss la ra s

/-- TOTALITY and SHAPE: with a faithful work, `runTables` returns a frame with the documented columns whose
    rows are the present rows followed (iff `allow_missing`) by the missing-value rows, numbered `0..n-1` -/
theorem run_ok {oss : Bool} {work : Work} (hwf : WorkFaithful oss work) (a : TableArgs) (l r : Frame)
    (am : Bool) (nj cpu : Int) (hb : Props.BodyOK a l r oss) :
    ∃ fr, runTables (a.withJobs nj) l r am oss cpu work = .ok fr ∧
      fr.columns = "_id" :: header a oss ∧
      fr.rows = (presentRows a l r nj cpu work ++ (if am then missingRows a l r oss else [])).zipIdx.map
        (fun (x : Row × Nat) => Cell.int x.2 :: x.1) := by
  have hw := width_of_faithful hwf (a.withJobs nj) l
  obtain ⟨fr, hfr, _⟩ := runTables_ok (a.withJobs nj) l r am oss cpu work hw hb.lstr hb.rstr hb.noClash
  obtain ⟨hc, hr⟩ := runTables_rows (a.withJobs nj) l r am oss cpu work hw fr hfr
  exact ⟨fr, hfr, hc, hr⟩

theorem zipIdx_map_drop (L : List Row) :
    (L.zipIdx.map (fun (x : Row × Nat) => Cell.int x.2 :: x.1)).map (fun row => row.drop 1) = L := by
  rw [List.map_map]
  have : ((fun (row : Row) => row.drop 1) ∘ fun (x : Row × Nat) => Cell.int x.2 :: x.1) = Prod.fst := by
    funext x; rfl
  rw [this, List.zipIdx_map_fst]

theorem getElem_zipIdx_map (L : List Row) (i : Nat)
    (hi : i < (L.zipIdx.map (fun (x : Row × Nat) => Cell.int x.2 :: x.1)).length) :
    (L.zipIdx.map (fun (x : Row × Nat) => Cell.int x.2 :: x.1))[i] =
      Cell.int i :: L[i]'(by simpa using hi) := by
  simp [List.getElem_zipIdx]

/-- every present row is the documented row of two source rows with PRESENT join values -/
theorem presentRows_faithful {oss : Bool} {work : Work} (hwf : WorkFaithful oss work) (a : TableArgs) (l r : Frame)
    (nj cpu : Int) :
    ∀ row ∈ presentRows a l r nj cpu work,
      ∃ ls ∈ l.rows, ∃ rs ∈ r.rows,
        (ls.cell (l.colIdx a.lAttr)).isMissing = false ∧ (rs.cell (r.colIdx a.rAttr)).isMissing = false ∧
        ∃ s, row = withScore oss (docRow a l r ls rs) s := by
  intro row hrow
  obtain ⟨ch, hch, hrow⟩ := List.mem_flatMap.1 hrow
  obtain ⟨la, hla, ra, hra, s, rfl⟩ := hwf _ _ _ _ _ row hrow
  have hra' : ra ∈ rArr a r := mem_of_mem_chunksFor _ _ _ ch hch ra hra
  obtain ⟨ls, hls, hlm, rfl⟩ := (mem_lArr_iff a l la).1 hla
  obtain ⟨rs, hrs, hrm, rfl⟩ := (mem_rArr_iff a r ra).1 hra'
  exact ⟨ls, hls, rs, hrs, hlm, hrm, s, by rw [outputRow_faithful]; rfl⟩

/-- the missing-value rows in documented form, one per position of `missingPairIdx` -/
theorem missingRows_doc (a : TableArgs) (l r : Frame) (oss : Bool) :
    missingRows a l r oss =
      (missingPairIdx l.rows r.rows (l.colIdx a.lAttr) (r.colIdx a.rAttr)).map (fun ij =>
        withScore oss (docRow a l r (l.rows.getD ij.1 []) (r.rows.getD ij.2 [])) Cell.missing) := by
  rw [missingRows_eq_positions]
  apply List.map_congr_left
  intro ij _
  rw [missingRow_faithful]; rfl

/-- every missing-value row is the documented row of two source rows, at least one with a MISSING join
    value, with a missing score -/
theorem missingRows_faithful (a : TableArgs) (l r : Frame) (oss : Bool) :
    ∀ row ∈ missingRows a l r oss,
      ∃ ls ∈ l.rows, ∃ rs ∈ r.rows,
        ((ls.cell (l.colIdx a.lAttr)).isMissing = true ∨ (rs.cell (r.colIdx a.rAttr)).isMissing = true) ∧
        row = withScore oss (docRow a l r ls rs) Cell.missing := by
  intro row hrow
  obtain ⟨ls, hls, rs, hrs, hm, rfl⟩ := (mem_missingRows_iff a l r oss row).1 hrow
  exact ⟨ls, hls, rs, hrs, hm, by rw [missingRow_faithful]; rfl⟩

theorem docRow_cell_zero (a : TableArgs) (l r : Frame) (ls rs : Row) :
    (docRow a l r ls rs).cell 0 = ls.cell (l.colIdx a.lKey) := rfl
theorem docRow_cell_one (a : TableArgs) (l r : Frame) (ls rs : Row) :
    (docRow a l r ls rs).cell 1 = rs.cell (r.colIdx a.rKey) := rfl

theorem two_le_docRow_length (a : TableArgs) (l r : Frame) (ls rs : Row) : 2 ≤ (docRow a l r ls rs).length := by
  simp [docRow]

/-- the key cells (columns 1 and 2) of a numbered documented row -/
theorem cons_withScore_docRow_keys (a : TableArgs) (l r : Frame) (ls rs : Row) (oss : Bool) (s i : Cell) :
    Row.cell (i :: withScore oss (docRow a l r ls rs) s) 1 = ls.cell (l.colIdx a.lKey) ∧
    Row.cell (i :: withScore oss (docRow a l r ls rs) s) 2 = rs.cell (r.colIdx a.rKey) := by
  have h2 := two_le_docRow_length a l r ls rs
  have e1 : Row.cell (i :: withScore oss (docRow a l r ls rs) s) 1 = (withScore oss (docRow a l r ls rs) s).cell 0 := rfl
  have e2 : Row.cell (i :: withScore oss (docRow a l r ls rs) s) 2 = (withScore oss (docRow a l r ls rs) s).cell 1 := rfl
  rw [e1, e2, withScore_cell _ _ _ _ (by omega), withScore_cell _ _ _ _ (by omega)]
  exact ⟨rfl, rfl⟩

end RT

/-! ## 4. the master statement for the entry points -/

/-- numbering: row `i` of `L.zipIdx.map (i :: ·)` -/
theorem rows_getElem_of_eq (rows L : List Row)
    (h : rows = L.zipIdx.map (fun (x : Row × Nat) => Cell.int x.2 :: x.1)) (i : Nat) (hi : i < rows.length) :
    ∃ x ∈ L, rows[i] = Cell.int i :: x := by
  subst h
  have hi' : i < L.length := by simpa using hi
  exact ⟨L[i], List.getElem_mem hi', RT.getElem_zipIdx_map L i hi⟩

/-- MASTER STATEMENT: every entry point, for every `allow_missing`, `n_jobs` and cpu count, returns a frame
    with the documented header whose rows are the present rows (per-chunk results of a faithful work that does
    not depend on `allow_missing` / `n_jobs` / cpu), followed iff `allow_missing` by the missing-value rows,
    numbered `0..n-1` -/
theorem TableCall.master {call : Bool → Int → Int → Except PyErr Frame} {a : TableArgs} {l r : Frame} {oss : Bool}
    (h : TableCall call a l r oss) (hb : Props.BodyOK a l r oss) :
    ∃ work, WorkFaithful oss work ∧ ∀ am nj cpu, ∃ fr, call am nj cpu = .ok fr ∧
      fr.columns = "_id" :: RT.header a oss ∧
      fr.rows = (RT.presentRows a l r nj cpu work ++ (if am then RT.missingRows a l r oss else [])).zipIdx.map
        (fun (x : Row × Nat) => Cell.int x.2 :: x.1) := by
  obtain ⟨_, _, work, hwf, hcall⟩ := h.normal
  refine ⟨work, hwf, fun am nj cpu => ?_⟩
  rw [hcall]
  exact RT.run_ok hwf a l r am nj cpu hb

/-- a successful call of any entry point met only string join values and had no `_id` clash -/
theorem TableCall.bodyOK {call : Bool → Int → Int → Except PyErr Frame} {a : TableArgs} {l r : Frame} {oss : Bool}
    (h : TableCall call a l r oss) {am : Bool} {nj cpu : Int} {fr : Frame} (hfr : call am nj cpu = .ok fr) :
    Props.BodyOK a l r oss := by
  obtain ⟨_, _, work, _, hcall⟩ := h.normal
  rw [hcall] at hfr
  have hb' := runTables_bodyOK _ _ _ _ _ _ _ _ hfr
  exact ⟨hb'.lstr, hb'.rstr, hb'.noClash⟩

/-- the master statement for one successful call -/
theorem TableCall.of_ok {call : Bool → Int → Int → Except PyErr Frame} {a : TableArgs} {l r : Frame} {oss : Bool}
    (h : TableCall call a l r oss) :
    ∃ work, WorkFaithful oss work ∧ ∀ am nj cpu fr, call am nj cpu = .ok fr →
      fr.columns = "_id" :: RT.header a oss ∧
      fr.rows = (RT.presentRows a l r nj cpu work ++ (if am then RT.missingRows a l r oss else [])).zipIdx.map
        (fun (x : Row × Nat) => Cell.int x.2 :: x.1) := by
  obtain ⟨_, _, work, hwf, hcall⟩ := h.normal
  refine ⟨work, hwf, fun am nj cpu fr hfr => ?_⟩
  rw [hcall] at hfr
  have hb' := runTables_bodyOK _ _ _ _ _ _ _ _ hfr
  obtain ⟨fr', hfr', hc, hr⟩ := RT.run_ok hwf a l r am nj cpu ⟨hb'.lstr, hb'.rstr, hb'.noClash⟩
  rw [hfr] at hfr'
  cases hfr'
  exact ⟨hc, hr⟩

/-! ## 5. counting the rows of a pair (C08: "exactly once each") -/

namespace RT

/-- the test "the row (without `_id`) carries the keys of the source rows `ls`, `rs`" -/
def hasKeys (a : TableArgs) (l r : Frame) (ls rs : Row) (x : Row) : Bool :=
  decide (x.cell 0 = ls.cell (l.colIdx a.lKey) ∧ x.cell 1 = rs.cell (r.colIdx a.rKey))

theorem withScore_docRow_keys (a : TableArgs) (l r : Frame) (ls rs : Row) (oss : Bool) (s : Cell) :
    (withScore oss (docRow a l r ls rs) s).cell 0 = ls.cell (l.colIdx a.lKey) ∧
    (withScore oss (docRow a l r ls rs) s).cell 1 = rs.cell (r.colIdx a.rKey) := by
  have h2 := two_le_docRow_length a l r ls rs
  rw [withScore_cell _ _ _ _ (by omega), withScore_cell _ _ _ _ (by omega)]
  exact ⟨rfl, rfl⟩

/-- no present row carries the keys of a pair with a missing join value -/
theorem countP_present_missing_pair {oss : Bool} {work : Work} (hwf : WorkFaithful oss work) (a : TableArgs) (l r : Frame)
    (k1 : validateKeyAttr a.lKey l = .ok ()) (k2 : validateKeyAttr a.rKey r = .ok ()) (nj cpu : Int)
    (ls rs : Row) (hls : ls ∈ l.rows) (hrs : rs ∈ r.rows)
    (hm : (ls.cell (l.colIdx a.lAttr)).isMissing = true ∨ (rs.cell (r.colIdx a.rAttr)).isMissing = true) :
    (presentRows a l r nj cpu work).countP (hasKeys a l r ls rs) = 0 := by
  rw [List.countP_eq_zero]
  intro x hx hk
  obtain ⟨ls', hls', rs', hrs', hlp, hrp, s, rfl⟩ := presentRows_faithful hwf a l r nj cpu x hx
  obtain ⟨e0, e1⟩ := withScore_docRow_keys a l r ls' rs' oss s
  simp only [hasKeys, decide_eq_true_eq, e0, e1] at hk
  have hl := row_eq_of_key_eq a.lKey l k1 ls' ls hls' hls hk.1
  have hr := row_eq_of_key_eq a.rKey r k2 rs' rs hrs' hrs hk.2
  subst hl; subst hr
  rcases hm with hm | hm
  · rw [hm] at hlp; cases hlp
  · rw [hm] at hrp; cases hrp

theorem getD_key_inj (key : String) (f : Frame) (hk : validateKeyAttr key f = .ok ()) (i j : Nat)
    (hi : i < f.rows.length) (hj : j < f.rows.length)
    (h : (f.rows.getD i []).cell (f.colIdx key) = (f.rows.getD j []).cell (f.colIdx key)) : i = j := by
  have hnd := rows_nodup_of_validateKeyAttr key f hk
  have e := row_eq_of_key_eq key f hk _ _ (getD_mem_of_lt f.rows i [] hi) (getD_mem_of_lt f.rows j [] hj) h
  rw [List.getD_eq_getElem?_getD, List.getD_eq_getElem?_getD, List.getElem?_eq_getElem hi,
    List.getElem?_eq_getElem hj] at e
  exact (hnd.getElem_inj_iff).1 (by simpa using e)

/-- exactly one missing-value row carries the keys of a pair with a missing join value -/
theorem countP_missing_pair (a : TableArgs) (l r : Frame) (oss : Bool)
    (k1 : validateKeyAttr a.lKey l = .ok ()) (k2 : validateKeyAttr a.rKey r = .ok ())
    (ls rs : Row) (hls : ls ∈ l.rows) (hrs : rs ∈ r.rows)
    (hm : (ls.cell (l.colIdx a.lAttr)).isMissing = true ∨ (rs.cell (r.colIdx a.rAttr)).isMissing = true) :
    (missingRows a l r oss).countP (hasKeys a l r ls rs) = 1 := by
  obtain ⟨i0, hi0, rfl⟩ := (mem_iff_getD l.rows [] ls).1 hls
  obtain ⟨j0, hj0, rfl⟩ := (mem_iff_getD r.rows [] rs).1 hrs
  rw [missingRows_doc, List.countP_map]
  have hmem : (i0, j0) ∈ missingPairIdx l.rows r.rows (l.colIdx a.lAttr) (r.colIdx a.rAttr) :=
    (mem_missingPairIdx _ _ _ _ i0 j0).2 ⟨hi0, hj0, hm⟩
  have hcount := List.count_eq_one_of_mem (nodup_missingPairIdx l.rows r.rows (l.colIdx a.lAttr) (r.colIdx a.rAttr)) hmem
  rw [← hcount, List.count]
  apply List.countP_congr
  rintro ⟨i, j⟩ hij
  obtain ⟨hi, hj, _⟩ := (mem_missingPairIdx _ _ _ _ i j).1 hij
  obtain ⟨e0, e1⟩ := withScore_docRow_keys a l r (l.rows.getD i []) (r.rows.getD j []) oss Cell.missing
  simp only [Function.comp, hasKeys, decide_eq_true_eq, e0, e1, beq_iff_eq, Prod.mk.injEq]
  constructor
  · rintro ⟨h1, h2⟩
    exact ⟨getD_key_inj a.lKey l k1 i i0 hi hi0 h1, getD_key_inj a.rKey r k2 j j0 hj hj0 h2⟩
  · rintro ⟨rfl, rfl⟩
    exact ⟨rfl, rfl⟩

/-- counting numbered rows by a test on the payload -/
theorem countP_numbered (L : List Row) (q : Row → Bool) :
    (L.zipIdx.map (fun (x : Row × Nat) => Cell.int x.2 :: x.1)).countP (fun row => q (row.drop 1)) = L.countP q := by
  rw [List.countP_map]
  have : ((fun row : Row => q (row.drop 1)) ∘ fun (x : Row × Nat) => Cell.int x.2 :: x.1) = q ∘ Prod.fst := by
    funext x; rfl
  rw [this, ← List.countP_map, List.zipIdx_map_fst]

/-- the numbered present rows are a prefix of the numbered (present ++ missing) rows -/
theorem numbered_take (P M : List Row) :
    ((P ++ M).zipIdx.map (fun (x : Row × Nat) => Cell.int x.2 :: x.1)).take
        ((P ++ ([] : List Row)).zipIdx.map (fun (x : Row × Nat) => Cell.int x.2 :: x.1)).length
      = (P ++ ([] : List Row)).zipIdx.map (fun (x : Row × Nat) => Cell.int x.2 :: x.1) := by
  rw [List.append_nil, List.zipIdx_append, List.map_append]
  apply List.take_left'
  rfl

end RT

/-! ## 6. apply_matcher / filter_pair on missing values (C08) -/

/-- all four `filter_pair`s drop (or, with `allow_missing`, keep) a pair with a missing value without looking
    at anything else -/
theorem filterPair_missing (k : FilterKind) (f : FilterObj) (tok : String → List Tok) (lv rv : Cell)
    (h : lv.isMissing = true ∨ rv.isMissing = true) : filterPair k f tok lv rv = !f.allowMissing := by
  cases k with
  | size => exact sizeFilterPair_missing f tok lv rv h
  | «prefix» => exact prefixFilterPair_missing f tok lv rv h
  | position => exact positionFilterPair_missing f tok lv rv h
  | suffix =>
    unfold filterPair suffixFilterPair
    have : (lv.isMissing || rv.isMissing) = true := by
      rcases h with h | h <;> simp [h]
    simp only [this, if_true]

/-- what `apply_matcher` does with a candidate row one of whose values is missing -/
theorem matcherRowSpec_missing (a : MatcherArgs) (o : OutCfg) (tok : Option (String → List Tok))
    (sim : SimArg → SimArg → PyV) (li ri : Nat) (cr lRow rRow : Row) (lId rId : Cell)
    (h : (lRow.cell li).isMissing = true ∨ (rRow.cell ri).isMissing = true) :
    matcherRowSpec a o tok sim li ri cr lRow rRow lId rId =
      if a.allowMissing then
        some (withScore a.outSimScore
          (if o.hasOut then cr.cell 0 :: getOutputRow o lRow rRow else [cr.cell 0, lId, rId]) Cell.missing)
      else none := by
  unfold matcherRowSpec
  have : ((lRow.cell li).isMissing || (rRow.cell ri).isMissing) = true := by
    rcases h with h | h <;> simp [h]
  simp only [this, if_true]

/-- the specification row of `apply_matcher` for a candidate row, in terms of the SOURCE rows whose keys are
    Python-equal to its key cells -/
theorem matcherTableSpec_of_rows (a : MatcherArgs) (t : Option TokObj) (toks : TokFn) (sim : SimArg → SimArg → PyV)
    (c l r : Frame) (k1 : validateKeyAttr a.lKey l = .ok ()) (k2 : validateKeyAttr a.rKey r = .ok ())
    (cr ls rs : Row) (hls : ls ∈ l.rows) (hrs : rs ∈ r.rows)
    (hkl : (ls.cell (l.colIdx a.lKey)).pyEq (cr.cell (c.colIdx a.candLKey)) = true)
    (hkr : (rs.cell (r.colIdx a.rKey)).pyEq (cr.cell (c.colIdx a.candRKey)) = true) :
    matcherTableSpec a t toks sim c l r cr =
      matcherRowSpec a (matcherOutCfg a) (t.map (fun tk => toks tk.returnSet)) sim
        ((matcherLProj a).idxOf a.lAttr) ((matcherRProj a).idxOf a.rAttr) cr
        (((matcherLProj a).map l.colIdx).map ls.cell) (((matcherRProj a).map r.colIdx).map rs.cell)
        (cr.cell (c.colIdx a.candLKey)) (cr.cell (c.colIdx a.candRKey)) := by
  have hlk : PyDistinct ((matcherLRows a l).map (·.cell ((matcherLProj a).idxOf a.lKey))) := by
    rw [matcherLRows_keys]; exact pyDistinct_of_validateKeyAttr _ _ k1
  have hrk : PyDistinct ((matcherRRows a r).map (·.cell ((matcherRProj a).idxOf a.rKey))) := by
    rw [matcherRRows_keys]; exact pyDistinct_of_validateKeyAttr _ _ k2
  have hl := buildDict_get _ _ hlk (((matcherLProj a).map l.colIdx).map ls.cell)
    (List.mem_map.2 ⟨ls, hls, rfl⟩) (cr.cell (c.colIdx a.candLKey))
    (by
      have hkc : Row.cell (((matcherLProj a).map l.colIdx).map ls.cell) ((matcherLProj a).idxOf a.lKey)
          = ls.cell (l.colIdx a.lKey) := (projection_faithful l a.lKey a.lAttr a.lOut ls).1
      rw [hkc]; exact hkl)
  have hr := buildDict_get _ _ hrk (((matcherRProj a).map r.colIdx).map rs.cell)
    (List.mem_map.2 ⟨rs, hrs, rfl⟩) (cr.cell (c.colIdx a.candRKey))
    (by
      have hkc : Row.cell (((matcherRProj a).map r.colIdx).map rs.cell) ((matcherRProj a).idxOf a.rKey)
          = rs.cell (r.colIdx a.rKey) := (projection_faithful r a.rKey a.rAttr a.rOut rs).1
      rw [hkc]; exact hkr)
  unfold matcherTableSpec matcherSpecFn
  rw [hl, hr]

/-- the join cell of the projected row that `apply_matcher` looks at is the join cell of the source row -/
theorem matcher_attr_cell (a : MatcherArgs) (l r : Frame) (ls rs : Row) :
    Row.cell (((matcherLProj a).map l.colIdx).map ls.cell) ((matcherLProj a).idxOf a.lAttr) = ls.cell (l.colIdx a.lAttr) ∧
    Row.cell (((matcherRProj a).map r.colIdx).map rs.cell) ((matcherRProj a).idxOf a.rAttr) = rs.cell (r.colIdx a.rAttr) :=
  ⟨(projection_faithful l a.lKey a.lAttr a.lOut ls).2.1, (projection_faithful r a.rKey a.rAttr a.rOut rs).2.1⟩

/-! ## 7. independence of `n_jobs` -/

theorem eg_flatMap_flatMap_chunks {α β : Type} (chunks : List (List α)) (g : α → List β) :
    chunks.flatMap (fun ch => ch.flatMap g) = chunks.flatten.flatMap g := by
  induction chunks with
  | nil => rfl
  | cons ch chunks ih => rw [List.flatMap_cons, List.flatten_cons, List.flatMap_append, ih]

/-- `work` treats the rows of the chunk one by one, independently of the rest of the chunk, up to the order of
    the rows produced for one right row: it is a permutation of `ch.flatMap (G o i j lArr)` -/
def WorkRowwisePerm (work : Work) (G : OutCfg → Nat → Nat → List Row → Row → List Row) : Prop :=
  ∀ o i j lArr ch, (work o i j lArr ch).Perm (ch.flatMap (G o i j lArr))

/-- … literally: it IS `ch.flatMap (G o i j lArr)` -/
def WorkRowwise (work : Work) (G : OutCfg → Nat → Nat → List Row → Row → List Row) : Prop :=
  ∀ o i j lArr ch, work o i j lArr ch = ch.flatMap (G o i j lArr)

theorem WorkRowwise.perm {work : Work} {G : OutCfg → Nat → Nat → List Row → Row → List Row}
    (h : WorkRowwise work G) : WorkRowwisePerm work G := fun o i j lArr ch => by rw [h o i j lArr ch]

namespace RT

theorem eg_rArr_length_le (a : TableArgs) (r : Frame) : (rArr a r).length ≤ r.rows.length := by
  rw [rArr_eq, List.length_map]
  exact List.length_filter_le _ _

/-- for a row-wise work the present rows do not depend on `n_jobs` / the cpu count at all -/
theorem presentRows_rowwise {work : Work} {G : OutCfg → Nat → Nat → List Row → Row → List Row}
    (hG : WorkRowwise work G) (a : TableArgs) (l r : Frame) (nj cpu : Int) (hlen : r.rows.length < 2 ^ 40) :
    presentRows a l r nj cpu work = (rArr a r).flatMap (G (out a) (lAttrIdx a) (rAttrIdx a) (lArr a l)) := by
  unfold presentRows
  have hG' : ∀ o i j lArr ch, work o i j lArr ch = ch.flatMap (G o i j lArr) := hG
  simp only [hG']
  rw [eg_flatMap_flatMap_chunks, chunksFor_flatten _ _ _ (lt_of_le_of_lt (eg_rArr_length_le a r) hlen)]

/-- for a work that is row-wise up to permutation they are a permutation of a list that does not depend on them -/
theorem presentRows_perm {work : Work} {G : OutCfg → Nat → Nat → List Row → Row → List Row}
    (hG : WorkRowwisePerm work G) (a : TableArgs) (l r : Frame) (nj cpu : Int) (hlen : r.rows.length < 2 ^ 40) :
    (presentRows a l r nj cpu work).Perm
      ((rArr a r).flatMap (G (out a) (lAttrIdx a) (rAttrIdx a) (lArr a l))) := by
  unfold presentRows
  refine (List.Perm.flatMap_left _ (fun ch _ => hG _ _ _ _ ch)).trans ?_
  rw [eg_flatMap_flatMap_chunks, chunksFor_flatten _ _ _ (lt_of_le_of_lt (eg_rArr_length_le a r) hlen)]

/-- two runs of `runTables` that differ only in `n_jobs` and the cpu count, with a faithful work that is row-wise
    up to permutation: both succeed, same columns, rows (without `_id`) permutations of each other -/
theorem njobs_perm {oss : Bool} {work : Work} {G : OutCfg → Nat → Nat → List Row → Row → List Row}
    (hwf : WorkFaithful oss work) (hG : WorkRowwisePerm work G) (a : TableArgs) (l r : Frame) (am : Bool)
    (hlen : r.rows.length < 2 ^ 40) (nj cpu nj' cpu' : Int) (hb : Props.BodyOK a l r oss) :
    ∃ fr fr', runTables (a.withJobs nj) l r am oss cpu work = .ok fr ∧
      runTables (a.withJobs nj') l r am oss cpu' work = .ok fr' ∧
      fr.columns = fr'.columns ∧
      (fr.rows.map (fun row => row.drop 1)).Perm (fr'.rows.map (fun row => row.drop 1)) := by
  obtain ⟨fr, h1, c1, r1⟩ := run_ok hwf a l r am nj cpu hb
  obtain ⟨fr', h2, c2, r2⟩ := run_ok hwf a l r am nj' cpu' hb
  refine ⟨fr, fr', h1, h2, c1.trans c2.symm, ?_⟩
  rw [r1, r2, zipIdx_map_drop, zipIdx_map_drop]
  exact List.Perm.append_right _
    ((presentRows_perm hG a l r nj cpu hlen).trans (presentRows_perm hG a l r nj' cpu' hlen).symm)

/-- … with a row-wise work: the same rows in the same order, `_id` included -/
theorem njobs_eq {oss : Bool} {work : Work} {G : OutCfg → Nat → Nat → List Row → Row → List Row}
    (hwf : WorkFaithful oss work) (hG : WorkRowwise work G) (a : TableArgs) (l r : Frame) (am : Bool)
    (hlen : r.rows.length < 2 ^ 40) (nj cpu nj' cpu' : Int) (hb : Props.BodyOK a l r oss) :
    ∃ fr fr', runTables (a.withJobs nj) l r am oss cpu work = .ok fr ∧
      runTables (a.withJobs nj') l r am oss cpu' work = .ok fr' ∧
      fr.columns = fr'.columns ∧ fr.rows = fr'.rows := by
  obtain ⟨fr, h1, c1, r1⟩ := run_ok hwf a l r am nj cpu hb
  obtain ⟨fr', h2, c2, r2⟩ := run_ok hwf a l r am nj' cpu' hb
  refine ⟨fr, fr', h1, h2, c1.trans c2.symm, ?_⟩
  rw [r1, r2, presentRows_rowwise hG a l r nj cpu hlen, presentRows_rowwise hG a l r nj' cpu' hlen]

end RT

/-! ### the row-wise works -/

theorem Work.ovc_rowwise (threshold : PyV) (compOp : String) (allowEmpty oss : Bool) (tok : String → List Tok) :
    ∃ G, WorkRowwise (Work.ovc threshold compOp allowEmpty oss tok) G := ⟨_, fun _ _ _ _ _ => rfl⟩

theorem Work.overlap_rowwise (f : OverlapFilterObj) (oss : Bool) (tok : String → List Tok) :
    ∃ G, WorkRowwise (Work.overlap f oss tok) G := ⟨_, fun _ _ _ _ _ => rfl⟩

theorem Work.sizeFilter_rowwise (f : FilterObj) (tok : String → List Tok) :
    ∃ G, WorkRowwise (Work.filter .size f tok) G := ⟨_, fun _ _ _ _ _ => rfl⟩

/-! ### the edit-distance join: row-wise up to the order of the candidates of one right row -/

theorem compFn_ed_le (op : String) (hop : op ∈ ["<=", "<", "="]) (d : Nat) (tau : Int)
    (h : compFn op (.int d) (.int tau) = true) : (d : Int) ≤ tau := by
  simp only [List.mem_cons, List.not_mem_nil, or_false] at hop
  rcases hop with rfl | rfl | rfl
  · simp [compFn, Gen.comp_op_map, PyV.leb, PyV.numVal?] at h
    exact_mod_cast h
  · simp [compFn, Gen.comp_op_map, PyV.ltb, PyV.numVal?] at h
    have : (d : Int) < tau := by exact_mod_cast h
    omega
  · simp [compFn, Gen.comp_op_map, PyV.eqb, PyV.numVal?] at h
    have : (d : Int) = tau := by exact_mod_cast h
    omega

theorem edRow_nodup (threshold qval : Int) (compOp : String) (tok : String → List Tok) (lAttr rAttr : Nat)
    (ltable rtable : List Row) (rRow : Row) :
    ((edRow threshold qval compOp tok lAttr rAttr ltable rtable rRow).map (·.1)).Nodup := by
  have hsub : ((edRow threshold qval compOp tok lAttr rAttr ltable rtable rRow).map (·.1)).Sublist
      (edCands threshold qval tok lAttr rAttr ltable rtable rRow) := by
    unfold edRow
    rw [List.map_filterMap]
    have : ∀ (l : List Nat) (F : Nat → Option (Nat × Nat)) (_ : ∀ a p, F a = some p → p.1 = a),
        (l.filterMap (fun a => (F a).map (·.1))).Sublist l := by
      intro l F hF
      induction l with
      | nil => simp
      | cons a l ih =>
        rw [List.filterMap_cons]
        cases hFa : F a with
        | none => simpa using ih.cons a
        | some p =>
          have := hF a p hFa
          simp only [Option.map_some]
          rw [this]
          exact ih.cons_cons a
    apply this
    intro a p hp
    dsimp only at hp
    split at hp
    · split at hp
      · simp only [Option.some.injEq] at hp; rw [← hp]
      · cases hp
    · cases hp
  exact hsub.nodup (prefixFindCandidates_nodup _ _ _ _)

/-- EXACT, chunk-independent characterisation of what one right row contributes to the edit-distance join: the
    left rows within the distance bound that share a q-gram with it (for the operators `<=`, `<`, `=` and a
    tokenizer obeying the q-gram count lemma) -/
theorem mem_edRow_iff_spec (tau q : Int) (compOp : String) (tok : String → List Tok) (lAttr rAttr : Nat)
    (ltable rtable : List Row) (hq1 : 1 ≤ q) (hop : compOp ∈ ["<=", "<", "="])
    (hqg : ∀ s t : String, ((tok s).diff (tok t)).length ≤ q.toNat * lev s t)
    (rRow : Row) (hr : rRow ∈ rtable) (c k : Nat) :
    (c, k) ∈ edRow tau q compOp tok lAttr rAttr ltable rtable rRow ↔
      c < ltable.length ∧ k = lev ((ltable.getD c []).cell lAttr).strVal (rRow.cell rAttr).strVal ∧
      Spec.qualED compOp tau ((ltable.getD c []).cell lAttr).strVal (rRow.cell rAttr).strVal = true ∧
      Spec.shareToken tok ((ltable.getD c []).cell lAttr).strVal (rRow.cell rAttr).strVal = true := by
  obtain ⟨d, hd⟩ := List.mem_iff_getElem?.1 hr
  obtain ⟨hget, hdlt⟩ := jed_getD_of_getElem? rtable d rRow [] hd
  constructor
  · intro h
    have hp : (c, d, k) ∈ edPairs tau q compOp tok lAttr rAttr ltable rtable :=
      (mem_edPairs _ _ _ _ _ _ _ _ c d k).2 ⟨rRow, hd, h⟩
    obtain ⟨hc, _, hk, hqual, hshare⟩ := edPairs_sound _ _ _ _ _ _ _ _ c d k hp
    rw [hget] at hk hqual hshare
    exact ⟨hc, hk, hqual, hshare⟩
  · rintro ⟨hc, rfl, hqual, hshare⟩
    have hdist : (lev ((ltable.getD c []).cell lAttr).strVal (rRow.cell rAttr).strVal : Int) ≤ tau :=
      compFn_ed_le compOp hop _ tau hqual
    have htau : 0 ≤ tau := le_trans (Int.natCast_nonneg _) hdist
    have hp := edPairs_complete tau q compOp tok lAttr rAttr ltable rtable hq1 htau lev_length_diff hqg lev_comm
      c d hc hdlt (by rw [hget]; exact hdist) (by rw [hget]; exact hqual) (by rw [hget]; exact hshare)
    rw [hget] at hp
    obtain ⟨rRow', hd', h⟩ := (mem_edPairs _ _ _ _ _ _ _ _ _ _ _).1 hp
    rw [hd] at hd'
    cases hd'
    exact h

/-- hence the contribution of a right row is, up to order, the same whatever chunk it is processed in -/
theorem edRow_perm (tau q : Int) (compOp : String) (tok : String → List Tok) (lAttr rAttr : Nat)
    (ltable rt1 rt2 : List Row) (hq1 : 1 ≤ q) (hop : compOp ∈ ["<=", "<", "="])
    (hqg : ∀ s t : String, ((tok s).diff (tok t)).length ≤ q.toNat * lev s t)
    (rRow : Row) (h1 : rRow ∈ rt1) (h2 : rRow ∈ rt2) :
    (edRow tau q compOp tok lAttr rAttr ltable rt1 rRow).Perm (edRow tau q compOp tok lAttr rAttr ltable rt2 rRow) := by
  rw [List.perm_ext_iff_of_nodup (List.Nodup.of_map _ (edRow_nodup ..)) (List.Nodup.of_map _ (edRow_nodup ..))]
  rintro ⟨c, k⟩
  rw [mem_edRow_iff_spec tau q compOp tok lAttr rAttr ltable rt1 hq1 hop hqg rRow h1,
    mem_edRow_iff_spec tau q compOp tok lAttr rAttr ltable rt2 hq1 hop hqg rRow h2]

theorem editDistanceJoinSplit_eq_flatMap (threshold qval : Int) (compOp : String) (lAttr rAttr : Nat) (o : OutCfg)
    (outSimScore : Bool) (tok : String → List Tok) (ltable rtable : List Row) :
    editDistanceJoinSplit threshold qval compOp lAttr rAttr o outSimScore tok ltable rtable =
      rtable.flatMap (fun rRow =>
        (edRow threshold qval compOp tok lAttr rAttr ltable rtable rRow).map (fun ck =>
          withScore outSimScore (outputRow o (ltable.getD ck.1 []) rRow) (.int ck.2))) := by
  unfold editDistanceJoinSplit
  simp only [jed_zip_map, List.flatMap_map]
  apply List.flatMap_congr
  intro rRow _
  exact jed_row_eq threshold qval compOp lAttr rAttr o outSimScore tok ltable rtable rRow

theorem Work.ed_rowwisePerm (tau q : Int) (compOp : String) (oss : Bool) (tok : String → List Tok)
    (hq1 : 1 ≤ q) (hop : compOp ∈ ["<=", "<", "="])
    (hqg : ∀ s t : String, ((tok s).diff (tok t)).length ≤ q.toNat * lev s t) :
    ∃ G, WorkRowwisePerm (Work.ed tau q compOp oss tok) G := by
  refine ⟨fun o lAttr rAttr lArr rRow =>
    (edRow tau q compOp tok lAttr rAttr lArr [rRow] rRow).map (fun ck =>
      withScore oss (outputRow o (lArr.getD ck.1 []) rRow) (.int ck.2)), ?_⟩
  intro o i j lArr ch
  unfold Work.ed
  rw [editDistanceJoinSplit_eq_flatMap]
  apply List.Perm.flatMap_left
  intro rRow hr
  exact (edRow_perm tau q compOp tok i j lArr ch [rRow] hq1 hop hqg rRow hr (List.mem_singleton.2 rfl)).map _

/-- the operator of a validated edit-distance join is one of `<=`, `<`, `=` -/
theorem validateJoin_ed_op (a : JoinArgs) (t : TokObj) (l r : Frame)
    (hv : validateJoin "EDIT_DISTANCE" a t = .ok (l, r)) : a.compOp ∈ ["<=", "<", "="] := by
  obtain ⟨_, _, _, hop, _⟩ := (validateJoin_ok_iff _ _ _ _ _).1 hv
  by_contra hcon
  exact hop ((Gen.validate_comp_op_for_sim_measure_ed a.compOp).2 hcon)

end SSJ

namespace SSJ

/-! ### apply_matcher / filter_candset with another `n_jobs` -/

def MatcherArgs.withJobs (a : MatcherArgs) (nj : Int) : MatcherArgs := { a with nJobs := nj }
def CandsetArgs.withJobs (a : CandsetArgs) (nj : Int) : CandsetArgs := { a with nJobs := nj }

theorem matcherTableSpec_withJobs (a : MatcherArgs) (nj : Int) (t : Option TokObj) (toks : TokFn)
    (sim : SimArg → SimArg → PyV) (c l r : Frame) :
    matcherTableSpec (a.withJobs nj) t toks sim c l r = matcherTableSpec a t toks sim c l r := rfl

theorem matcherHeader_withJobs (a : MatcherArgs) (nj : Int) : matcherHeader (a.withJobs nj) = matcherHeader a := rfl

theorem eg_candLabelled_length (c : Frame) : (candLabelled c).length = c.rows.length := by
  have := congrArg List.length (candLabelled_map_fst c)
  rwa [List.length_map] at this

end SSJ

namespace SSJ

/-! ## 8. entry-level soundness of the set-similarity joins, by keys (used by C10) -/

namespace RT

/-- a row of the result that carries the keys of two source rows with PRESENT join values is one of the present
    rows (the missing-value rows carry keys of pairs with a missing value, and keys are unique) -/
theorem present_of_keys (a : TableArgs) (l r : Frame) (oss : Bool)
    (k1 : validateKeyAttr a.lKey l = .ok ()) (k2 : validateKeyAttr a.rKey r = .ok ())
    (P : List Row) (am : Bool) (x : Row) (hx : x ∈ P ++ (if am then missingRows a l r oss else []))
    (ls rs : Row) (hls : ls ∈ l.rows) (hrs : rs ∈ r.rows)
    (hlp : (ls.cell (l.colIdx a.lAttr)).isMissing = false) (hrp : (rs.cell (r.colIdx a.rAttr)).isMissing = false)
    (h0 : x.cell 0 = ls.cell (l.colIdx a.lKey)) (h1 : x.cell 1 = rs.cell (r.colIdx a.rKey)) : x ∈ P := by
  rcases List.mem_append.1 hx with hx | hx
  · exact hx
  · exfalso
    cases am with
    | false => simp at hx
    | true =>
      obtain ⟨ls', hls', rs', hrs', hm, rfl⟩ := missingRows_faithful a l r oss x hx
      obtain ⟨e0, e1⟩ := withScore_docRow_keys a l r ls' rs' oss Cell.missing
      rw [e0] at h0; rw [e1] at h1
      have hl := row_eq_of_key_eq a.lKey l k1 ls' ls hls' hls h0
      have hr := row_eq_of_key_eq a.rKey r k2 rs' rs hrs' hrs h1
      subst hl; subst hr
      rcases hm with hm | hm
      · rw [hm] at hlp; cases hlp
      · rw [hm] at hrp; cases hrp

/-- SOUND, by keys: a present row of a Jaccard / cosine / Dice join carrying the keys of the source rows `ls`, `rs`
    is either an admitted empty/empty pair or a pair whose rounded similarity satisfies the comparison -/
theorem setSim_present_sound (m : Measure) (thr : PyV) (op : String) (ae oss : Bool) (tok : String → List Tok)
    (hnd : ∀ s, (tok s).Nodup) (a : TableArgs) (l r : Frame)
    (k1 : validateKeyAttr a.lKey l = .ok ()) (k2 : validateKeyAttr a.rKey r = .ok ()) (nj cpu : Int)
    (x : Row) (hx : x ∈ presentRows a l r nj cpu (Work.setSim m thr op ae oss tok))
    (ls rs : Row) (hls : ls ∈ l.rows) (hrs : rs ∈ r.rows)
    (h0 : x.cell 0 = ls.cell (l.colIdx a.lKey)) (h1 : x.cell 1 = rs.cell (r.colIdx a.rKey)) :
    (Spec.bothEmpty (tok (ls.cell (l.colIdx a.lAttr)).strVal) (tok (rs.cell (r.colIdx a.rAttr)).strVal) = true ∧
      ae = true) ∨
    (Spec.bothEmpty (tok (ls.cell (l.colIdx a.lAttr)).strVal) (tok (rs.cell (r.colIdx a.rAttr)).strVal) = false ∧
      Spec.qualRounded m op thr (tok (ls.cell (l.colIdx a.lAttr)).strVal)
        (tok (rs.cell (r.colIdx a.rAttr)).strVal) = true) := by
  obtain ⟨ch, hch, hx⟩ := List.mem_flatMap.1 hx
  unfold Work.setSim at hx
  rw [setSimJoin_eq_pairs] at hx
  obtain ⟨⟨c, d, s⟩, hp, rfl⟩ := List.mem_map.1 hx
  obtain ⟨hc, hd⟩ := setSimJoinPairs_valid _ _ _ _ _ hp
  have hsound := setSimJoinPairs_sound _ tok (lArr a l) ch hnd c d s hp
  dsimp only at hc hd hsound h0 h1
  obtain ⟨ls', hls', _, ela⟩ := (mem_lArr_iff a l _).1 (getD_mem_of_lt (lArr a l) c [] hc)
  obtain ⟨rs', hrs', _, era⟩ := (mem_rArr_iff a r _).1
    (mem_of_mem_chunksFor _ _ _ ch hch _ (getD_mem_of_lt ch d [] hd))
  rw [withScore_outputRow_cell_zero, ela, lRow_key] at h0
  rw [withScore_outputRow_cell_one, era, rRow_key] at h1
  have hl := row_eq_of_key_eq a.lKey l k1 ls' ls hls' hls h0
  have hr := row_eq_of_key_eq a.rKey r k2 rs' rs hrs' hrs h1
  subst hl; subst hr
  rw [ela, era, lRow_attr, rRow_attr] at hsound
  rcases hsound with ⟨hb, hae, _⟩ | ⟨hb, _, hq⟩
  · exact Or.inl ⟨hb, hae⟩
  · exact Or.inr ⟨hb, hq⟩

end RT

end SSJ

section AxiomCheck
open SSJ
#print axioms SSJ.TableCall.normal
#print axioms SSJ.TableCall.master
#print axioms SSJ.RT.presentRows_faithful
#print axioms SSJ.RT.countP_missing_pair
#print axioms SSJ.RT.countP_present_missing_pair
#print axioms SSJ.RT.njobs_perm
#print axioms SSJ.RT.njobs_eq
#print axioms SSJ.Work.ed_rowwisePerm
#print axioms SSJ.mem_edRow_iff_spec
#print axioms SSJ.matcherTableSpec_of_rows
#print axioms SSJ.filterPair_missing
end AxiomCheck

/-
  SSJ.Proofs.GenLoops3 — stage 4: the generated functions of `SSJ/Gen/Loops3.lean` (functions that may raise:
  `Except PyErr` do-blocks written by tools/py2lean2.py from the Python AST) EQUAL the hand-model functions.
-/
import SSJ.Gen.Loops3
import SSJ.Proofs.GenLoops2
import SSJ.Proofs.KeyEq

namespace SSJ.Gen2
open SSJ

set_option linter.unusedSimpArgs false

/-! ## Stage 4: functions that may raise -/

/-- pandas boolean-mask selection `frame[mask]` on a list of rows (with whatever is attached to them) -/
def selectMask {α : Type} (xs : List α) (mask : List Bool) : List α :=
  (xs.zip mask).filterMap (fun q => if q.2 then some q.1 else none)

theorem selectMask_append {α : Type} (xs ys : List α) (m n : List Bool) (h : xs.length = m.length) :
    selectMask (xs ++ ys) (m ++ n) = selectMask xs m ++ selectMask ys n := by
  unfold selectMask
  rw [List.zip_append h, List.filterMap_append]

/-- the mask loop of `_filter_candset_split`: a `for` loop in `Except` that appends `not drop(row)` to the mask and
    then selects by the mask, is `filterMapM` over the (labelled) rows -/
theorem mask_loop {α : Type} (d : Row → Except PyErr Bool) (ch pre : List (Row × α)) (acc : List Bool)
    (hlen : pre.length = acc.length) :
    (do let s ← forIn (ch.map (·.1)) acc (fun cr s => do
            let t ← d cr
            pure (ForInStep.yield (s ++ [!t])))
        pure (selectMask (pre ++ ch) s) : Except PyErr (List (Row × α)))
      = (fun kept => selectMask pre acc ++ kept) <$>
          ch.filterMapM (fun p => do let t ← d p.1; pure (if (!t) = true then some p else none)) := by
  induction ch generalizing pre acc with
  | nil => simp [selectMask]
  | cons p ps ih =>
    simp only [List.map_cons, List.forIn_cons, List.filterMapM_cons, bind_assoc]
    cases hd : d p.1 with
    | error e => rfl
    | ok t =>
      have hp : (Except.ok t : Except PyErr Bool) = pure t := rfl
      simp only [hp, pure_bind]
      have := ih (pre ++ [p]) (acc ++ [!t]) (by simp [hlen])
      simp only [List.append_assoc, List.singleton_append] at this
      rw [this]
      have hsel : ∀ b : Bool, selectMask (pre ++ [p]) (acc ++ [b]) = selectMask pre acc ++ (if b then [p] else []) := by
        intro b
        rw [selectMask_append _ _ _ _ hlen]
        cases b <;> simp [selectMask]
      simp only [hsel]
      cases t <;> simp

/-- `d[k]` on a cell-keyed dict (lookup by Python equality): KeyError ↦ `PyErr.other` -/
def dictLookup {ν : Type} (d : List (Cell × ν)) (k : Cell) : Except PyErr ν :=
  match Dict.getPy? d k with
  | some v => pure v
  | none => throw PyErr.other

theorem filter_candset_split_eq (candCols lCols rCols : List String) (ch : List (Row × Cell))
    (lRows rRows : List Row) (clk crk lk rk la ra : String) (fp : Cell → Cell → Except PyErr Bool) :
    filter_candset_split candCols lCols rCols (ch.map (·.1)) lRows rRows clk crk lk rk la ra fp
        (fun _ mask => selectMask ch mask)
      = ch.filterMapM (fun (p : Row × Cell) => do
          let lRow ← match Dict.getPy? (buildDict lRows (lCols.idxOf lk)) (p.1.cell (candCols.idxOf clk)) with
            | some x => pure x | none => throw PyErr.other
          let rRow ← match Dict.getPy? (buildDict rRows (rCols.idxOf rk)) (p.1.cell (candCols.idxOf crk)) with
            | some x => pure x | none => throw PyErr.other
          let drop ← fp (lRow.cell (lCols.idxOf la)) (rRow.cell (rCols.idxOf ra))
          pure (if !drop then some p else none)) := by
  unfold filter_candset_split
  simp only [build_dict_from_table_eq]
  have h := mask_loop (α := Cell) (fun cr => do
      let lRow ← dictLookup (buildDict lRows (lCols.idxOf lk)) (cr.cell (candCols.idxOf clk))
      let rRow ← dictLookup (buildDict rRows (rCols.idxOf rk)) (cr.cell (candCols.idxOf crk))
      fp (lRow.cell (lCols.idxOf la)) (rRow.cell (rCols.idxOf ra))) ch [] [] rfl
  simp only [List.nil_append, bind_assoc, dictLookup, selectMask, List.zip_nil_left, List.filterMap_nil,
    id_map'] at h
  simp only [selectMask]
  refine Eq.trans ?_ (h.trans ?_)
  · congr 2
    funext cr acc
    cases Dict.getPy? (buildDict lRows (List.idxOf lk lCols)) (cr.cell (List.idxOf clk candCols)) <;>
      cases Dict.getPy? (buildDict rRows (List.idxOf rk rCols)) (cr.cell (List.idxOf crk candCols)) <;> rfl
  congr 1
  funext p
  cases Dict.getPy? (buildDict lRows (List.idxOf lk lCols)) (p.1.cell (List.idxOf clk candCols)) <;>
    cases Dict.getPy? (buildDict rRows (List.idxOf rk rCols)) (p.1.cell (List.idxOf crk candCols)) <;> rfl

/-! ### `_apply_matcher_split` -/
theorem loop_mapM {α β ε : Type} (step : α → Except ε (Option β)) (l : List α) (acc : List β) :
    forIn l acc (fun a s => do
        let o ← step a
        pure (ForInStep.yield (match o with | some r => s ++ [r] | none => s)))
      = (fun rows => acc ++ rows.filterMap id) <$> l.mapM step := by
  induction l generalizing acc with
  | nil => simp
  | cons x xs ih =>
    simp only [List.forIn_cons, List.mapM_cons, bind_assoc]
    cases hx : step x with
    | error e => rfl
    | ok o =>
      have hp : (Except.ok o : Except ε (Option β)) = pure o := rfl
      simp only [hp, pure_bind, ih]
      cases o <;> simp

/-- a worker loop in `Except` whose body handles one row (`step`), appends its row if any, and returns the rows
    with a header -/
theorem worker_except {α β γ ε : Type} (hdr hdr' : γ) (l : List α)
    (body : α → List β → Except ε (ForInStep (List β))) (step : α → Except ε (Option β))
    (hh : hdr = hdr')
    (h : ∀ a s, body a s = (step a >>= fun o =>
        pure (ForInStep.yield (match o with | some r => s ++ [r] | none => s)))) :
    (forIn l [] body >>= fun s => pure (hdr, s))
      = Except.map (fun rows => (hdr', rows)) (l.mapM step >>= fun rows => pure (rows.filterMap id)) := by
  have hb : body = (fun a s => step a >>= fun o =>
      pure (ForInStep.yield (match o with | some r => s ++ [r] | none => s))) := by
    funext a s; exact h a s
  subst hb
  subst hh
  rw [loop_mapM]
  cases l.mapM step <;> rfl

theorem apply_matcher_split_eq (a : MatcherArgs) (candCols lCols rCols : List String) (chunk lRows rRows : List Row)
    (clk crk lk rk la ra : String) (tok : Option (String → List Tok)) (sim : SimArg → SimArg → PyV)
    (cache : Option (List (Cell × List Tok) × List (Cell × List Tok)))
    (lout rout : Option (List String)) (lpre rpre : String)
    (hc : ∀ lc rc, cache = some (lc, rc) → tok.isSome →
      (∀ k row, Dict.getPy? (buildDict lRows (lCols.idxOf lk)) k = some row →
          (row.cell (lCols.idxOf la)).isMissing = false → (Dict.getPy? lc k).isSome) ∧
      (∀ k row, Dict.getPy? (buildDict rRows (rCols.idxOf rk)) k = some row →
          (row.cell (rCols.idxOf ra)).isMissing = false → (Dict.getPy? rc k).isSome)) :
    apply_matcher_split candCols lCols rCols chunk lRows rRows clk crk lk rk la ra tok sim a.threshold a.compOp
        a.allowMissing lout rout lpre rpre a.outSimScore (cache.map (·.1)) (cache.map (·.2))
      = (applyMatcherSplit a (candCols.idxOf clk) (candCols.idxOf crk) lRows rRows (lCols.idxOf lk) (lCols.idxOf la)
            (rCols.idxOf rk) (rCols.idxOf ra)
            { lKey := lCols.idxOf lk, rKey := rCols.idxOf rk, lOut := findOutputAttributeIndices lCols lout,
              rOut := findOutputAttributeIndices rCols rout, hasOut := lout.isSome || rout.isSome }
            tok sim cache chunk).map
          (fun rows => ("_id" :: (getOutputHeader lk rk lout rout lpre rpre ++
              (if a.outSimScore then ["_sim_score"] else [])), rows)) := by
  unfold apply_matcher_split applyMatcherSplit
  simp only [build_dict_from_table_eq, find_output_attribute_indices_eq, get_output_header_from_tables_eq,
    get_output_row_from_tables_eq' _ _ _ _ _ _ (lout.isSome || rout.isSome)]
  generalize a.outSimScore = outSim
  generalize a.allowMissing = am
  generalize a.compOp = cop
  generalize a.threshold = thr
  generalize (lout.isSome || rout.isSome) = hasOut
  generalize findOutputAttributeIndices lCols lout = lo
  generalize findOutputAttributeIndices rCols rout = ro
  generalize getOutputHeader lk rk lout rout lpre rpre = hdr
  generalize hlD : buildDict lRows _ = lDict at hc ⊢
  generalize hrD : buildDict rRows _ = rDict at hc ⊢
  cases tok with
  | none =>
    cases outSim <;>
      simp only [Option.isSome_none, Bool.false_eq_true, if_false, if_true, Bool.false_and] <;>
      refine worker_except _ _ _ _ _ (by simp) ?_
    all_goals (
      intro cr s
      cases Dict.getPy? lDict (cr.cell (List.idxOf clk candCols)) with
      | none => rfl
      | some lRow =>
        cases Dict.getPy? rDict (cr.cell (List.idxOf crk candCols)) with
        | none => rfl
        | some rRow =>
          simp only [pure_bind, simArgCell, withScore, Bool.false_eq_true, if_false, if_true, Option.isSome_none,
            Bool.false_and, List.singleton_append, List.cons_append, List.nil_append]
          split_ifs <;> rfl)
  | some tk =>
    cases cache with
    | none =>
      cases outSim <;>
        simp only [Option.isSome_some, Option.isSome_none, Option.isNone_none, Option.map_none, Bool.false_eq_true,
          if_false, if_true, Bool.false_and, Bool.true_and, Bool.and_false] <;>
        refine worker_except _ _ _ _ _ (by simp) ?_
      all_goals (
        intro cr s
        cases Dict.getPy? lDict (cr.cell (List.idxOf clk candCols)) with
        | none => rfl
        | some lRow =>
          cases Dict.getPy? rDict (cr.cell (List.idxOf crk candCols)) with
          | none => rfl
          | some rRow =>
            simp only [pure_bind, simArgCell, withScore, Bool.false_eq_true, if_false, if_true,
              List.singleton_append, List.cons_append, List.nil_append, Option.getD_some]
            by_cases hl : (lRow.cell (List.idxOf la lCols)).isStr = true <;>
              by_cases hr : (rRow.cell (List.idxOf ra rCols)).isStr = true <;>
              simp only [hl, hr, Bool.false_eq_true, if_false, if_true, Bool.and_false, Bool.false_and, Bool.and_self,
                Bool.not_false, Bool.not_true, pure_bind, Bool.not_eq_true, Bool.and_true, Bool.true_and] <;>
              split_ifs <;> rfl)
    | some c =>
      obtain ⟨lc, rc⟩ := c
      obtain ⟨hcl, hcr⟩ := hc lc rc rfl rfl
      cases outSim <;>
        simp only [Option.isSome_some, Option.isSome_none, Option.isNone_some, Option.map_some, Bool.false_eq_true,
          if_false, if_true, Bool.false_and, Bool.true_and, Bool.and_false, Bool.and_self] <;>
        refine worker_except _ _ _ _ _ (by simp) ?_
      all_goals (
        intro cr s
        cases hL : Dict.getPy? lDict (cr.cell (List.idxOf clk candCols)) with
        | none => rfl
        | some lRow =>
          cases hR : Dict.getPy? rDict (cr.cell (List.idxOf crk candCols)) with
          | none => rfl
          | some rRow =>
            simp only [pure_bind, simArgCell, withScore, Bool.false_eq_true, if_false, if_true,
              List.singleton_append, List.cons_append, List.nil_append, Option.getD_some]
            by_cases hm : ((lRow.cell (List.idxOf la lCols)).isMissing || (rRow.cell (List.idxOf ra rCols)).isMissing) = true
            · simp only [hm, if_true]
              split_ifs <;> rfl
            · simp only [hm, if_false]
              simp only [Bool.or_eq_true, not_or, Bool.not_eq_true] at hm
              obtain ⟨lt, hlt⟩ := Option.isSome_iff_exists.mp (hcl _ _ hL hm.1)
              obtain ⟨rt, hrt⟩ := Option.isSome_iff_exists.mp (hcr _ _ hR hm.2)
              simp only [hlt, hrt, Dict.getPyD, Option.getD_some, pure_bind]
              split_ifs <;> rfl)

/-! the hypothesis of `apply_matcher_split_eq` holds for the cache that `apply_matcher` builds (`tokenCache`) -/
theorem generateTokens_isSome (rows : List Row) (ki ai : Nat) (tk : String → List Tok) (k : Cell) (row : Row)
    (h : Dict.getPy? (buildDict rows ki) k = some row) (hm : (row.cell ai).isMissing = false) :
    (Dict.getPy? (generateTokens rows ki ai tk) k).isSome := by
  have hrow : row ∈ rows ∧ (row.cell ki).pyEq k = true := by
    rcases getPy?_foldl_setPy_some (fun r : Row => r.cell ki) (fun r => r) rows [] k row h with ⟨a, ha, hk, hv⟩ | h'
    · cases hv; exact ⟨ha, hk⟩
    · cases h'
  obtain ⟨hmem, hk⟩ := hrow
  unfold generateTokens
  apply getPy?_foldl_setPy_isSome
  right
  exact ⟨row, List.mem_filter.mpr ⟨hmem, by simp [hm]⟩, hk⟩

theorem tokenCache_keys (tk : String → List Tok) (useCache : Bool) (lRows rRows : List Row)
    (lki lai rki rai : Nat) (lc rc : List (Cell × List Tok))
    (h : tokenCache (some tk) useCache lRows rRows lki lai rki rai = .ok (some (lc, rc))) :
    (∀ k row, Dict.getPy? (buildDict lRows lki) k = some row → (row.cell lai).isMissing = false →
        (Dict.getPy? lc k).isSome) ∧
    (∀ k row, Dict.getPy? (buildDict rRows rki) k = some row → (row.cell rai).isMissing = false →
        (Dict.getPy? rc k).isSome) := by
  unfold tokenCache at h
  simp only at h
  split at h
  · split at h
    · simp only [Except.ok.injEq, Option.some.injEq, Prod.mk.injEq] at h
      obtain ⟨rfl, rfl⟩ := h
      exact ⟨fun k row => generateTokens_isSome lRows lki lai tk k row,
             fun k row => generateTokens_isSome rRows rki rai tk k row⟩
    · cases h
  · cases h

/-! ### `generate_tokens` / the token cache -/
theorem mapM_guard {α β ε : Type} (p : α → Bool) (g : α → β) (e : ε) (l : List α) :
    l.mapM (fun c => if p c then (pure (g c) : Except ε β) else throw e)
      = if l.all p then .ok (l.map g) else .error e := by
  induction l with
  | nil => rfl
  | cons x xs ih =>
    simp only [List.mapM_cons, ih, List.all_cons, List.map_cons]
    cases hx : p x
    · simp; rfl
    · simp only [if_true, Bool.true_and]
      cases hxs : xs.all p <;> rfl

theorem strOrMissing_eq (c : Cell) : c.strOrMissing = (c.isMissing || c.isStr) := by
  cases c <;> rfl

theorem joinCellsOk_eq (rows : List Row) (ai : Nat) :
    joinCellsOk rows ai
      = ((rows.filter (fun r => !(r.cell ai).isMissing)).map (fun r => r.cell ai)).all Cell.isStr := by
  unfold joinCellsOk
  induction rows with
  | nil => rfl
  | cons r rs ih =>
    simp only [List.all_cons, ih, List.filter_cons, strOrMissing_eq]
    cases hm : (r.cell ai).isMissing <;> simp [hm]

theorem generate_tokens_eq (rows : List Row) (ki ai : Nat) (tk : String → List Tok) :
    generate_tokens ((rows.filter (fun r => !(r.cell ai).isMissing)).map (fun r => r.cell ki))
        ((rows.filter (fun r => !(r.cell ai).isMissing)).map (fun r => r.cell ai)) tk
      = if joinCellsOk rows ai then .ok (generateTokens rows ki ai tk) else .error .typeErr := by
  unfold generate_tokens
  rw [mapM_guard Cell.isStr (fun c => tk c.strVal), ← joinCellsOk_eq]
  cases joinCellsOk rows ai
  · rfl
  · simp only [if_true]
    unfold generateTokens
    show Except.ok _ = _
    congr 1
    rw [List.map_map, List.zip_map', List.foldl_map]
    rfl

/-- `apply_matcher`'s token cache is two calls of `generate_tokens` -/
theorem tokenCache_eq (tk : String → List Tok) (lRows rRows : List Row) (lki lai rki rai : Nat) :
    tokenCache (some tk) true lRows rRows lki lai rki rai = (do
      let l ← generate_tokens ((lRows.filter (fun r => !(r.cell lai).isMissing)).map (fun r => r.cell lki))
                ((lRows.filter (fun r => !(r.cell lai).isMissing)).map (fun r => r.cell lai)) tk
      let r ← generate_tokens ((rRows.filter (fun r => !(r.cell rai).isMissing)).map (fun r => r.cell rki))
                ((rRows.filter (fun r => !(r.cell rai).isMissing)).map (fun r => r.cell rai)) tk
      pure (some (l, r))) := by
  rw [generate_tokens_eq, generate_tokens_eq]
  unfold tokenCache
  cases joinCellsOk lRows lai <;> cases joinCellsOk rRows rai <;> rfl

/-! ### profiler -/
theorem format_statistic_eq (stat : Nat) (pct : PyV) :
    format_statistic stat pct = Profiler.formatStatistic stat pct := by
  unfold format_statistic Profiler.formatStatistic strOfPercent
  have h1 : ∀ s : String, s ++ " (" ++ "?" ++ "%)" = s ++ " (?%)" := by
    intro s; rw [String.append_assoc, String.append_assoc]; rfl
  cases pct <;> simp only [String.join, List.foldl, Id.run, String.empty_append] <;>
    first | exact h1 _ | rfl

theorem profile_loop {α β : Type} (g : α → β) (use : List α)
    (body : α → List β → Except PyErr (ForInStep (List β)))
    (h1 : ∀ a s, body a s = pure (ForInStep.yield (s ++ [g a]))) :
    forIn use [] body = pure (use.map g) := by
  have hb : body = fun a s => pure (ForInStep.yield (s ++ [g a])) := by
    funext a s; exact h1 a s
  subst hb
  rw [List.forIn_pure_yield_eq_foldl, foldl_append_map]
  simp

theorem validate_loop (cols : List String) (f : Frame) (hc : f.columns = cols) (l : List String) :
    (forIn l PUnit.unit (fun attr _ =>
        if (!cols.contains attr) = true then
          (do throw PyErr.assertion; pure (ForInStep.yield PUnit.unit) : Except PyErr (ForInStep PUnit))
        else pure (ForInStep.yield PUnit.unit)))
      = l.forM (fun a => validateAttr a f) := by
  subst hc
  induction l with
  | nil => rfl
  | cons x xs ih =>
    have hcons : (x :: xs).forM (fun a => validateAttr a f)
        = validateAttr x f >>= fun _ => xs.forM (fun a => validateAttr a f) := by
      simp
    rw [hcons, List.forIn_cons, ← ih]
    unfold validateAttr raiseIf Frame.hasCol
    cases hx : f.columns.contains x <;> rfl

theorem profile_table_for_join_eq (f : Frame) (attrs : Option (List String)) :
    Profiler.profileTable (some f) attrs
      = profile_table_for_join f.columns f.rows.length (fun a => Profiler.missingCount (f.col a))
          (fun a => Profiler.nunique (f.col a)) attrs := by
  unfold profile_table_for_join Profiler.profileTable
  simp only [format_statistic_eq, validateInputTable]
  have hok : ∀ {β : Type} (k : Frame → Except PyErr β), (Except.ok f >>= k) = k f := fun _ => rfl
  rw [hok]
  generalize hB : (fun (attr : String) (__s : List (String × String × String × String)) =>
      if decide (Profiler.missingCount (f.col attr) > 0) = true then _ else _) = B
  have key : ∀ use : List String, forIn use [] B
      = pure (use.map (fun a => (a, (Profiler.profileColumn (f.col a)).1,
            (Profiler.profileColumn (f.col a)).2.1, (Profiler.profileColumn (f.col a)).2.2))) := by
    intro use
    apply profile_loop
    intro a s
    rw [← hB]
    have hlen : (f.col a).length = f.rows.length := by simp [Frame.col]
    unfold Profiler.profileColumn Profiler.uniqueCount Profiler.percent Profiler.comment
    rw [hlen]
    have hj : ∀ x : String, String.join ["Joining on this attribute will ignore ", x, " rows."]
        = s!"Joining on this attribute will ignore {x} rows." := by
      intro x; simp only [String.join, List.foldl, String.empty_append]; rfl
    by_cases hn : f.rows.length = 0
    · -- a table without rows: the `else` branch, both percentages `0.0`
      have hm0 : Profiler.missingCount (f.col a) = 0 := by
        have := List.length_filter_le Cell.isMissing (f.col a)
        unfold Profiler.missingCount; omega
      have hu0 : Profiler.nunique (f.col a) = 0 := by
        have hc : f.col a = [] := List.length_eq_zero_iff.mp (by omega)
        rw [hc]; rfl
      simp [hn, hm0, hu0]
    · have hne : (f.rows.length == 0) = false := by simpa using hn
      have hpos : 0 < f.rows.length := by omega
      simp only [hne, hpos, hn, decide_true, Bool.false_eq_true, if_false, if_true, pure_bind]
      by_cases hm : Profiler.missingCount (f.col a) > 0
      · have hm0 : ¬ Profiler.missingCount (f.col a) = 0 := by omega
        simp [hm, hm0, hj]
      · have hm0 : Profiler.missingCount (f.col a) = 0 := by omega
        by_cases hu : Profiler.nunique (f.col a) = f.rows.length <;> simp [hu, hm0]
  cases attrs with
  | none =>
    simp only [Option.isNone_none, if_true, Option.getD_some, key, pure_bind, bind_pure]
  | some l =>
    simp only [Option.isNone_some, Bool.false_eq_true, if_false, Option.getD_some, key, pure_bind, bind_pure,
      validate_loop f.columns f rfl l]

end SSJ.Gen2

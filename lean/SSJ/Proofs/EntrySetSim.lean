/-
  SSJ.Proofs.EntrySetSim — from the per-chunk facts about `setSimJoin` (`Proofs/JoinSetSim.lean`), the
  arithmetic of the pruning bounds (`Proofs/Arith.lean`) and the DataFrame plumbing (`Proofs/Frames.lean`)
  to the ENTRY-POINT level: what `setSimJoinPy m a t toks cpu` (jaccard / cosine / dice join) returns, in
  terms of the source rows of the two input frames.

  Layout
  1. arithmetic glue: `qualStrict` ⇒ `BoundsFacts` (incl. the equal-sets case and the no-common-token case);
  2. the result rows of `setSimJoinPy` = `_id` :: payload, payload = chunk part ++ missing-value part;
  3. source rows behind the indices of a chunk; keys;
  4. chunk part: SOUND / COMPLETE / EMPTY;
  5. ONCE: the key pairs of the whole result are duplicate-free;
  6. the entry-level theorems used by `Props/C01`, `C02`, `C09`.
-/
import SSJ.Proofs.Frames
import SSJ.Proofs.BodyOK
import SSJ.Proofs.Arith
import SSJ.Proofs.JoinSetSim
import SSJ.Proofs.Session
import SSJ.Props.Common

namespace SSJ
namespace EntrySetSim
open SSJ.Props F64

/-! ## 1. arithmetic glue -/

/-- the three operators accepted by the similarity joins all imply `threshold ≤ score` -/
theorem compFn_float_ge {op : String} (hop : op ∈ [">=", ">", "="]) {s thr : Rat}
    (h : compFn op (.float s) (.float thr) = true) : thr ≤ s := by
  simp only [List.mem_cons, List.not_mem_nil, or_false] at hop
  rcases hop with rfl | rfl | rfl
  · simpa [compFn, Gen.comp_op_map, PyV.geb, PyV.leb, PyV.numVal?] using h
  · have : thr < s := by simpa [compFn, Gen.comp_op_map, PyV.gtb, PyV.ltb, PyV.numVal?] using h
    exact this.le
  · have : s = thr := by simpa [compFn, Gen.comp_op_map, PyV.eqb, PyV.numVal?] using h
    exact this.ge

/-- the int 0 (py_stringmatching's score when one side is empty) never reaches a positive threshold -/
theorem compFn_int0_false {op : String} (hop : op ∈ [">=", ">", "="]) {thr : Rat} (h0 : 0 < thr) :
    compFn op (.int 0) (.float thr) = false := by
  simp only [List.mem_cons, List.not_mem_nil, or_false] at hop
  rcases hop with rfl | rfl | rfl
  · simpa [compFn, Gen.comp_op_map, PyV.geb, PyV.leb, PyV.numVal?] using h0
  · simpa [compFn, Gen.comp_op_map, PyV.gtb, PyV.ltb, PyV.numVal?] using h0.le
  · simpa [compFn, Gen.comp_op_map, PyV.eqb, PyV.numVal?] using h0.ne

/-- `simFormula_eq` without the hypothesis `1 ≤ o` (both sizes positive instead) -/
theorem simFormula_eq' (m : Measure) (hm : SetMeasure m) (n k o : Nat) (hn1 : 1 ≤ n) (hk1 : 1 ≤ k)
    (hon : o ≤ n) (hok : o ≤ k) (hn : n < 2 ^ 32) (hk : k < 2 ^ 32) :
    simFormula m o n k = .float (simF m o n k) := by
  have hn' := natCast_le_of_lt hn
  have hk' := natCast_le_of_lt hk
  have ho' : (o : Rat) ≤ 2 ^ 32 := le_trans (by exact_mod_cast hon) hn'
  have ho0 : (0 : Rat) ≤ o := by positivity
  have hn1' : (1 : Rat) ≤ n := by exact_mod_cast hn1
  have hk1' : (1 : Rat) ≤ k := by exact_mod_cast hk1
  have hon' : (o : Rat) ≤ n := by exact_mod_cast hon
  have hok' : (o : Rat) ≤ k := by exact_mod_cast hok
  have ho53 : (o : Rat) ≤ 2 ^ 53 := by linarith
  rcases hm with rfl | rfl | rfl
  · have e : ((n : Int) + k - o) = ((n + k - o : Nat) : Int) := by omega
    have eu : ((n + k - o : Nat) : Rat) = (n : Rat) + k - o := by
      rw [Nat.cast_sub (by omega)]; push_cast; rfl
    have hu1 : (1 : Rat) ≤ (n : Rat) + k - o := by linarith
    simp only [simFormula, simF]
    rw [e, toFloat_n _ ho53, toFloat_n _ (by rw [eu]; linarith), eu, div_ff _ _ (by linarith),
      ofExact_float (by positivity) (by rw [div_le_iff₀ (by linarith)]; nlinarith)]
  · obtain ⟨p1, p2⟩ := sqrt_prod_range hn1 hn hk1 hk
    have a0 := fsqrt_nonneg (n : Rat)
    have b0 := fsqrt_nonneg (k : Rat)
    have hs : ∀ x : Nat, PyV.sqrt (.float (x : Rat)) = .float (fsqrt x) := by
      intro x
      have : ¬ ((x : Rat) < 0) := not_lt.mpr (by positivity)
      simp only [PyV.sqrt, this, if_false]
    simp only [simFormula, simF]
    rw [toFloat_n _ ho53, toFloat_n _ (by linarith), toFloat_n _ (by linarith), hs, hs, mul_ff,
      ofExact_float (by positivity) (by nlinarith [fsqrt_range hn1 hn, fsqrt_range hk1 hk]),
      div_ff _ _ (by linarith),
      ofExact_float (by positivity) (by rw [div_le_iff₀ (by linarith)]; nlinarith)]
  · have e : ((n : Int) + k) = ((n + k : Nat) : Int) := by push_cast; rfl
    have h2o : rn (2 * (o : Rat)) = 2 * o := by
      have := rn_int (2 * (o : Int)) (by push_cast; rw [abs_of_nonneg (by positivity)]; linarith)
      push_cast at this; exact this
    simp only [simFormula, simF]
    rw [e, toFloat_n _ ho53, toFloat_n _ (by push_cast; linarith), mul_ff,
      ofExact_float (by positivity) (by linarith), h2o, div_ff _ _ (by push_cast; linarith),
      ofExact_float (by positivity) (by rw [div_le_iff₀ (by push_cast; linarith)]; push_cast; nlinarith)]
    push_cast; rfl

/-- without a common token the formula yields 0.0 -/
theorem simFormula_zero (m : Measure) (hm : SetMeasure m) (n k : Nat) (hn1 : 1 ≤ n) (hk1 : 1 ≤ k)
    (hn : n < 2 ^ 32) (hk : k < 2 ^ 32) : simFormula m 0 n k = .float 0 := by
  rw [simFormula_eq' m hm n k 0 hn1 hk1 (Nat.zero_le _) (Nat.zero_le _) hn hk]
  rcases hm with rfl | rfl | rfl <;> simp [simF, rn_zero]

theorem rn_one : rn 1 = 1 := by
  have := rn_int 1 (by norm_num)
  simpa using this

/-- the bounds accept a set paired with itself (the "equal sets ↦ 1.0" shortcut of py_stringmatching is not
    the double-precision formula, so this case is not covered by `bounds_of_qual_core`) -/
theorem bounds_self (m : Measure) (hm : SetMeasure m) (t : Rat) (ht : ThrOK t) (n : Nat) (hn1 : 1 ≤ n)
    (hn : n < 2 ^ 32) : BoundsFacts (cfgOf m t) n n n := by
  have hc : Counts (n : Rat) n n := Counts.ofNat hn1 le_rfl le_rfl hn hn
  have hn1' : (1 : Rat) ≤ n := by exact_mod_cast hn1
  have hn0 : (0 : Rat) < n := by linarith
  have hF : lowF m t n ≤ n + 4 / 100000 ∧ (n : Rat) - 4 / 100000 ≤ upF m t n ∧ ovF m t n n ≤ n + 4 / 100000 := by
    rcases hm with rfl | rfl | rfl
    · apply F_bounds .jaccard (Or.inl rfl) ht hc
      have : (n : Rat) / (n + n - n) = 1 := by
        rw [show (n : Rat) + n - n = n by ring, div_self hn0.ne']
      simp only [simF, this, rn_one]; exact ht.hi
    · have ht0 := ht.pos
      have ht1 := ht.hi
      have hs : t * t * ((n : Rat) * n) ≤ (n : Rat) * n *
          ((1 + (1 : Rat) / 2 ^ 53) * (1 + (1 : Rat) / 2 ^ 53) /
            ((1 - (1 : Rat) / 2 ^ 51) * (1 - (1 : Rat) / 2 ^ 51) * ((1 - (1 : Rat) / 2 ^ 53) * (1 - (1 : Rat) / 2 ^ 53)))) := by
        have hK : (1 : Rat) ≤ (1 + (1 : Rat) / 2 ^ 53) * (1 + (1 : Rat) / 2 ^ 53) /
            ((1 - (1 : Rat) / 2 ^ 51) * (1 - (1 : Rat) / 2 ^ 51) * ((1 - (1 : Rat) / 2 ^ 53) * (1 - (1 : Rat) / 2 ^ 53))) := by
          norm_num
        have htt : t * t ≤ 1 := by nlinarith
        have hnn : (0 : Rat) ≤ (n : Rat) * n := by positivity
        calc t * t * ((n : Rat) * n) ≤ 1 * ((n : Rat) * n) := mul_le_mul_of_nonneg_right htt hnn
          _ = (n : Rat) * n * 1 := by ring
          _ ≤ _ := mul_le_mul_of_nonneg_left hK hnn
      exact ⟨cos_low ht hc hs, cos_up ht hc hs, cos_ov ht hc hs⟩
    · apply F_bounds .dice (Or.inr (Or.inr rfl)) ht hc
      have : 2 * (n : Rat) / (n + n) = 1 := by
        rw [show (n : Rat) + n = 2 * n by ring, div_self (by positivity)]
      simp only [simF, this, rn_one]; exact ht.hi
  obtain ⟨f1, f2, f3⟩ := hF
  have L := lower_le_of m hm ht n n hn hn f1
  have hp := prefixLen_eq m hm t ht n hn1 hn
  exact ⟨L, le_upper_of m hm ht n n hn hn f2, ovThr_le_of m hm ht n n n hn hn hn f3,
    by rw [hp]; omega, by rw [hp]; omega⟩

theorem interCount_le_len_left (a b : List Tok) (ha : a.Nodup) : interCount a b ≤ a.length := by
  have := interCount_le_left a b
  unfold setLen at this
  rwa [dedup_eq_self_of_nodup a ha] at this

theorem interCount_le_len_right (a b : List Tok) (hb : b.Nodup) : interCount a b ≤ b.length := by
  rw [interCount_comm]; exact interCount_le_len_left b a hb

/-- two duplicate-free lists denoting the same set: same length, and all tokens common -/
theorem sameSet_counts (a b : List Tok) (ha : a.Nodup) (hb : b.Nodup) (h : Spec.sameSet a b = true) :
    a.length = b.length ∧ interCount b a = b.length := by
  rw [jss_sameSet_iff] at h
  refine ⟨((List.perm_ext_iff_of_nodup ha hb).2 h).length_eq, ?_⟩
  unfold interCount
  rw [dedup_eq_self_of_nodup b hb, List.filter_eq_self.2]
  intro t ht
  exact decide_eq_true ((h t).2 ht)

/-- C01's arithmetic core: if the similarity computed in double precision satisfies the comparison (one of
    `>=`, `>`, `=`) against a threshold in `[2⁻²⁰, 1]`, the pair has a common token and all pruning bounds
    accept it -/
theorem boundsFacts_of_qual (m : Measure) (hm : SetMeasure m) (thr : Rat) (hok : ThrOK thr) (op : String)
    (hop : op ∈ [">=", ">", "="]) (a b : List Tok) (ha : a.Nodup) (hb : b.Nodup)
    (hal : a.length < 2 ^ 32) (hbl : b.length < 2 ^ 32)
    (hne : Spec.bothEmpty a b = false)
    (hq : compFn op (Spec.simSet m a b) (.float thr) = true) :
    1 ≤ interCount b a ∧ BoundsFacts (cfgOf m thr) b.length a.length (interCount b a) := by
  unfold Spec.simSet at hq
  split at hq
  · rename_i hs
    obtain ⟨e1, e2⟩ := sameSet_counts a b ha hb hs
    have hb1 : 1 ≤ b.length := by
      by_contra hlt
      have hb0 : b.length = 0 := by omega
      have : Spec.bothEmpty a b = true := (jss_bothEmpty_eq_true_iff a b).2 ⟨by omega, hb0⟩
      rw [this] at hne; cases hne
    rw [e1, e2]
    exact ⟨hb1, bounds_self m hm thr hok b.length hb1 hbl⟩
  · split at hq
    · rw [compFn_int0_false hop hok.pos] at hq; cases hq
    · rename_i hs hz
      simp only [Bool.or_eq_true, decide_eq_true_eq, not_or] at hz
      have ha1 : 1 ≤ a.length := by omega
      have hb1 : 1 ≤ b.length := by omega
      have hoa : interCount a b ≤ a.length := interCount_le_len_left a b ha
      have hob : interCount a b ≤ b.length := interCount_le_len_right a b hb
      rw [interCount_comm b a]
      by_cases ho : interCount a b = 0
      · rw [ho, simFormula_zero m hm _ _ ha1 hb1 hal hbl] at hq
        have := compFn_float_ge hop hq
        have := hok.pos
        linarith
      · have ho1 : 1 ≤ interCount a b := by omega
        obtain ⟨s, hs', -⟩ := simFormula_float m hm a.length b.length _ ho1 hoa hob hal hbl
        rw [hs'] at hq
        have hts := compFn_float_ge hop hq
        rw [simFormula_symm m hm] at hs'
        obtain ⟨h1, h2, -, h4, h5, h6, -, -⟩ :=
          bounds_of_qual_core m hm thr hok b.length a.length _ ho1 hob hoa hbl hal s hs' hts
        exact ⟨ho1, ⟨h1, h2, h4, h5, h6⟩⟩

/-! ## 2. what validation provides; the result rows of `setSimJoinPy` -/

theorem setMeasure_name_ne_ed {m : Measure} (hm : SetMeasure m) : m.name ≠ "EDIT_DISTANCE" := by
  rcases hm with rfl | rfl | rfl <;> decide

theorem validateKeyAttr_of_keyValid (f : Frame) (k : String) (h : KeyValid f k) : validateKeyAttr k f = .ok () := by
  have h' := (keyTest_iff f k).2 h
  unfold keyTest at h'
  unfold validateKeyAttr raiseIf
  simp only [h']
  rfl

/-- what the theorems use of a successful validation: both key columns are keys, the operator is one of the three
    operators of the similarity joins -/
theorem of_validateJoin {m : Measure} (hm : SetMeasure m) {a : JoinArgs} {t : TokObj} {l r : Frame}
    (hv : validateJoin m.name a t = .ok (l, r)) :
    validateKeyAttr a.lKey l = .ok () ∧ validateKeyAttr a.rKey r = .ok () ∧ a.compOp ∈ [">=", ">", "="] := by
  obtain ⟨-, -, -, hop, -, hkl, hkr⟩ := (validateJoin_ok_iff m.name a t l r).1 hv
  refine ⟨validateKeyAttr_of_keyValid _ _ hkl, validateKeyAttr_of_keyValid _ _ hkr, ?_⟩
  by_contra hno
  exact hop ((Gen.validate_comp_op_for_sim_measure_sim a.compOp m.name (setMeasure_name_ne_ed hm)).2 hno)

/-- the per-chunk join configuration inside `setSimJoinPy` -/
def jcfg (m : Measure) (a : JoinArgs) : JoinCfg :=
  { f := { cfg := { measure := m, threshold := a.threshold }, allowEmpty := a.allowEmpty },
    compOp := a.compOp, lAttr := RT.lAttrIdx a.toTableArgs, rAttr := RT.rAttrIdx a.toTableArgs,
    out := RT.out a.toTableArgs, outSimScore := a.outSimScore }

theorem jcfg_cfg (m : Measure) (a : JoinArgs) (thr : Rat) (hthr : a.threshold = .float thr) :
    (jcfg m a).f.cfg = cfgOf m thr := by
  show ({ measure := m, threshold := a.threshold } : FCfg) = _
  rw [hthr]; rfl

/-- the rows the chunks contribute (in chunk order), without the `_id` cell -/
def chunkPart (m : Measure) (a : JoinArgs) (toks : TokFn) (cpu : Int) (l r : Frame) : List Row :=
  (chunksFor (RT.rArr a.toTableArgs r) a.nJobs cpu).flatMap (fun ch =>
    setSimJoin (jcfg m a) (toks true) (RT.lArr a.toTableArgs l) ch)

/-- the missing-value rows, without the `_id` cell -/
def missPart (a : JoinArgs) (l r : Frame) : List Row :=
  if a.allowMissing then RT.missingRows a.toTableArgs l r a.outSimScore else []

/-- all result rows without the `_id` cell -/
def payload (m : Measure) (a : JoinArgs) (toks : TokFn) (cpu : Int) (l r : Frame) : List Row :=
  chunkPart m a toks cpu l r ++ missPart a l r

/-- the two key cells of a payload row -/
def pkeys (p : Row) : Cell × Cell := (p.cell 0, p.cell 1)

theorem rowKeys_cons (c : Cell) (p : Row) : rowKeys (c :: p) = pkeys p := rfl

theorem setSimJoin_row_length (m : Measure) (a : JoinArgs) (toks : TokFn) (l : Frame) (ch : List Row) :
    ∀ row ∈ setSimJoin (jcfg m a) (toks true) (RT.lArr a.toTableArgs l) ch,
      row.length = (RT.header a.toTableArgs a.outSimScore).length := by
  intro row hrow
  rw [setSimJoin_eq_pairs, List.mem_map] at hrow
  obtain ⟨p, -, rfl⟩ := hrow
  exact RT.withScore_outputRow_length a.toTableArgs a.outSimScore _ _ _

/-- TOTALITY + DECOMPOSITION: after a successful validation the call returns a frame whose rows are the
    payload rows, each preceded by its position -/
theorem result_rows (m : Measure) (a : JoinArgs) (t : TokObj) (toks : TokFn) (cpu : Int) (l r : Frame)
    (hv : validateJoin m.name a t = .ok (l, r)) (hb : Props.BodyOK a.toTableArgs l r a.outSimScore) :
    ∃ fr, (setSimJoinPy m a t toks cpu).result = .ok fr ∧
      fr.rows = (payload m a toks cpu l r).zipIdx.map (fun (x : Row × Nat) => Cell.int x.2 :: x.1) := by
  have hw := fun ch => setSimJoin_row_length m a toks l ch
  have hrun := runTables_eq a.toTableArgs l r a.allowMissing a.outSimScore cpu
      (fun o lAttr rAttr lArr ch =>
        setSimJoin { f := { cfg := { measure := m, threshold := a.threshold }, allowEmpty := a.allowEmpty },
                     compOp := a.compOp, lAttr := lAttr, rAttr := rAttr, out := o, outSimScore := a.outSimScore }
          (toks true) lArr ch) hw hb.lstr hb.rstr hb.noClash
  have hres : (setSimJoinPy m a t toks cpu).result = runTables a.toTableArgs l r a.allowMissing a.outSimScore cpu
      (fun o lAttr rAttr lArr ch =>
        setSimJoin { f := { cfg := { measure := m, threshold := a.threshold }, allowEmpty := a.allowEmpty },
                     compOp := a.compOp, lAttr := lAttr, rAttr := rAttr, out := o, outSimScore := a.outSimScore }
          (toks true) lArr ch) := by
    unfold setSimJoinPy
    rw [hv]
    exact withFlag_result _ _ _
  rw [hres, hrun]
  refine ⟨_, rfl, ?_⟩
  rw [finish_rows, ← List.flatMap_def]
  unfold payload chunkPart missPart
  cases a.allowMissing <;> rfl

theorem mem_rows_elim (L : List Row) (row : Row)
    (h : row ∈ L.zipIdx.map (fun (x : Row × Nat) => Cell.int x.2 :: x.1)) : ∃ p ∈ L, ∃ i : Nat, row = Cell.int i :: p := by
  rw [List.mem_map] at h
  obtain ⟨x, hx, rfl⟩ := h
  rw [List.mem_zipIdx_iff_getElem?] at hx
  exact ⟨x.1, List.mem_of_getElem? hx, x.2, rfl⟩

theorem mem_rows_intro (L : List Row) (p : Row) (hp : p ∈ L) :
    ∃ i : Nat, Cell.int i :: p ∈ L.zipIdx.map (fun (x : Row × Nat) => Cell.int x.2 :: x.1) := by
  obtain ⟨i, hi⟩ := List.mem_iff_getElem?.1 hp
  exact ⟨i, List.mem_map.2 ⟨(p, i), List.mem_zipIdx_iff_getElem?.2 hi, rfl⟩⟩

theorem rows_map_rowKeys (L : List Row) :
    (L.zipIdx.map (fun (x : Row × Nat) => Cell.int x.2 :: x.1)).map rowKeys = L.map pkeys := by
  rw [List.map_map]
  have : (rowKeys ∘ fun (x : Row × Nat) => Cell.int x.2 :: x.1) = pkeys ∘ Prod.fst := by funext x; rfl
  rw [this, ← List.map_map, List.zipIdx_map_fst]

/-! ## 3. source rows behind the indices; keys -/

section Source
variable (A : TableArgs) (l r : Frame)

theorem lArr_source (c : Nat) (hc : c < (RT.lArr A l).length) :
    ∃ ls ∈ l.rows, Present l A.lAttr ls ∧ (RT.lArr A l).getD c [] = RT.lRow A l ls := by
  have hmem : (RT.lArr A l).getD c [] ∈ RT.lArr A l := (mem_iff_getD _ [] _).2 ⟨c, hc, rfl⟩
  obtain ⟨s, hs, hp, he⟩ := (RT.mem_lArr_iff A l _).1 hmem
  exact ⟨s, hs, hp, he⟩

theorem lArr_index (ls : Row) (hls : ls ∈ l.rows) (hp : Present l A.lAttr ls) :
    ∃ c, c < (RT.lArr A l).length ∧ (RT.lArr A l).getD c [] = RT.lRow A l ls := by
  have : RT.lRow A l ls ∈ RT.lArr A l := (RT.mem_lArr_iff A l _).2 ⟨ls, hls, hp, rfl⟩
  obtain ⟨c, hc, he⟩ := (mem_iff_getD _ [] _).1 this
  exact ⟨c, hc, he.symm⟩

theorem rArr_length_lt (hrows : r.rows.length < 2 ^ 40) : (RT.rArr A r).length < 2 ^ 40 := by
  rw [RT.rArr_eq, List.length_map]
  exact lt_of_le_of_lt (List.length_filter_le _ _) hrows

theorem chunk_source (cpu : Int) (hrows : r.rows.length < 2 ^ 40) (ch : List Row)
    (hch : ch ∈ chunksFor (RT.rArr A r) A.nJobs cpu) (d : Nat) (hd : d < ch.length) :
    ∃ rs ∈ r.rows, Present r A.rAttr rs ∧ ch.getD d [] = RT.rRow A r rs := by
  have hmem : ch.getD d [] ∈ RT.rArr A r :=
    (RT.exists_chunk_index A r cpu (rArr_length_lt A r hrows) _).2 ⟨ch, hch, d, hd, rfl⟩
  obtain ⟨s, hs, hp, he⟩ := (RT.mem_rArr_iff A r _).1 hmem
  exact ⟨s, hs, hp, he⟩

theorem chunk_index (cpu : Int) (hrows : r.rows.length < 2 ^ 40) (rs : Row) (hrs : rs ∈ r.rows)
    (hp : Present r A.rAttr rs) :
    ∃ ch ∈ chunksFor (RT.rArr A r) A.nJobs cpu, ∃ d, d < ch.length ∧ ch.getD d [] = RT.rRow A r rs := by
  have : RT.rRow A r rs ∈ RT.rArr A r := (RT.mem_rArr_iff A r _).2 ⟨rs, hrs, hp, rfl⟩
  obtain ⟨ch, hch, d, hd, he⟩ := (RT.exists_chunk_index A r cpu (rArr_length_lt A r hrows) _).1 this
  exact ⟨ch, hch, d, hd, he.symm⟩

theorem lRow_tokens (tok : String → List Tok) (ls : Row) :
    tok ((RT.lRow A l ls).cell (RT.lAttrIdx A)).strVal = tokensOf tok l A.lAttr ls := by
  rw [RT.lRow_attr]; rfl

theorem rRow_tokens (tok : String → List Tok) (rs : Row) :
    tok ((RT.rRow A r rs).cell (RT.rAttrIdx A)).strVal = tokensOf tok r A.rAttr rs := by
  rw [RT.rRow_attr]; rfl

/-- the payload row of a pair of source rows, with score cell `s` -/
def prow (oss : Bool) (ls rs : Row) (s : Cell) : Row :=
  withScore oss (outputRow (RT.out A) (RT.lRow A l ls) (RT.rRow A r rs)) s

theorem pkeys_prow (oss : Bool) (ls rs : Row) (s : Cell) :
    pkeys (prow A l r oss ls rs s) = (keyOf l A.lKey ls, keyOf r A.rKey rs) := by
  obtain ⟨h0, h1⟩ := RT.outputRow_keys A l r ls rs oss s
  exact Prod.ext h0 h1

theorem score_prow (i : Nat) (ls rs : Row) (s : Cell) :
    rowScore (Cell.int i :: prow A l r true ls rs s) = s := by
  unfold rowScore prow withScore
  rw [if_pos rfl, List.getLastD_cons, List.getLastD_concat]

theorem pkeys_missingRow (oss : Bool) (ls rs : Row) :
    pkeys (missingRow (RT.missOut A l r) oss ls rs) = (keyOf l A.lKey ls, keyOf r A.rKey rs) := by
  obtain ⟨h0, h1⟩ := RT.missingRow_keys A l r oss ls rs
  exact Prod.ext h0 h1

theorem score_missingRow (i : Nat) (ls rs : Row) :
    rowScore (Cell.int i :: missingRow (RT.missOut A l r) true ls rs) = Cell.missing := by
  unfold rowScore missingRow withScore
  rw [if_pos rfl, List.getLastD_cons, List.getLastD_concat]

/-- keys identify source rows -/
theorem source_eq_of_keys (hkl : validateKeyAttr A.lKey l = .ok ()) (hkr : validateKeyAttr A.rKey r = .ok ())
    (ls ls' rs rs' : Row) (hls : ls ∈ l.rows) (hls' : ls' ∈ l.rows) (hrs : rs ∈ r.rows) (hrs' : rs' ∈ r.rows)
    (h : (keyOf l A.lKey ls, keyOf r A.rKey rs) = (keyOf l A.lKey ls', keyOf r A.rKey rs')) :
    ls = ls' ∧ rs = rs' := by
  obtain ⟨h1, h2⟩ := Prod.mk.inj h
  exact ⟨row_eq_of_key_eq A.lKey l hkl ls ls' hls hls' h1, row_eq_of_key_eq A.rKey r hkr rs rs' hrs hrs' h2⟩

end Source

/-! ## 4. the chunk part: SOUND, COMPLETE, EMPTY -/

/-- what the join asserts about a pair of present rows (token lists `ta`, `tb`) that it emits with score cell `s` -/
def Emitted (m : Measure) (a : JoinArgs) (ta tb : List Tok) (s : Cell) : Prop :=
  (ta.length = 0 ↔ tb.length = 0) ∧
  ((Spec.bothEmpty ta tb = true ∧ a.allowEmpty = true ∧ s = .flt 1) ∨
   (Spec.bothEmpty ta tb = false ∧ Spec.qualRounded m a.compOp a.threshold ta tb = true ∧
      s = scoreCell (Spec.score4 m ta tb)))

section Chunk
variable (m : Measure) (a : JoinArgs) (toks : TokFn) (cpu : Int) (l r : Frame)

theorem mem_chunkPart_iff (p : Row) :
    p ∈ chunkPart m a toks cpu l r ↔
      ∃ ch ∈ chunksFor (RT.rArr a.toTableArgs r) a.nJobs cpu, ∃ c d s,
        (c, d, s) ∈ setSimJoinPairs (jcfg m a) (toks true) (RT.lArr a.toTableArgs l) ch ∧
        p = withScore a.outSimScore
          (outputRow (RT.out a.toTableArgs) ((RT.lArr a.toTableArgs l).getD c []) (ch.getD d [])) s := by
  unfold chunkPart
  rw [List.mem_flatMap]
  constructor
  · rintro ⟨ch, hch, hp⟩
    rw [setSimJoin_eq_pairs, List.mem_map] at hp
    obtain ⟨⟨c, d, s⟩, hp, rfl⟩ := hp
    exact ⟨ch, hch, c, d, s, hp, rfl⟩
  · rintro ⟨ch, hch, c, d, s, hp, rfl⟩
    refine ⟨ch, hch, ?_⟩
    rw [setSimJoin_eq_pairs, List.mem_map]
    exact ⟨(c, d, s), hp, rfl⟩

/-- every emitted triple of a chunk is about a pair of present source rows and satisfies `Emitted` -/
theorem pair_facts (hs : InScope (toks true) r) (ch : List Row)
    (hch : ch ∈ chunksFor (RT.rArr a.toTableArgs r) a.nJobs cpu) (c d : Nat) (s : Cell)
    (h : (c, d, s) ∈ setSimJoinPairs (jcfg m a) (toks true) (RT.lArr a.toTableArgs l) ch) :
    ∃ ls ∈ l.rows, ∃ rs ∈ r.rows, Present l a.lAttr ls ∧ Present r a.rAttr rs ∧
      (RT.lArr a.toTableArgs l).getD c [] = RT.lRow a.toTableArgs l ls ∧
      ch.getD d [] = RT.rRow a.toTableArgs r rs ∧
      Emitted m a (tokensOf (toks true) l a.lAttr ls) (tokensOf (toks true) r a.rAttr rs) s := by
  obtain ⟨hc, hd⟩ := setSimJoinPairs_valid (jcfg m a) (toks true) _ ch _ h
  obtain ⟨ls, hls, hpl, hel⟩ := lArr_source a.toTableArgs l c hc
  obtain ⟨rs, hrs, hpr, her⟩ := chunk_source a.toTableArgs r cpu hs.rows ch hch d hd
  have tA : (toks true) (((RT.lArr a.toTableArgs l).getD c []).cell (jcfg m a).lAttr).strVal
      = tokensOf (toks true) l a.lAttr ls := by
    rw [hel]; exact lRow_tokens a.toTableArgs l (toks true) ls
  have tB : (toks true) ((ch.getD d []).cell (jcfg m a).rAttr).strVal = tokensOf (toks true) r a.rAttr rs := by
    rw [her]; exact rRow_tokens a.toTableArgs r (toks true) rs
  have hsound := setSimJoinPairs_sound (jcfg m a) (toks true) _ ch hs.nodup c d s h
  have hone := setSimJoinPairs_oneEmpty (jcfg m a) (toks true) _ ch c d s h
  rw [tA, tB] at hsound hone
  refine ⟨ls, hls, rs, hrs, hpl, hpr, hel, her, hone, ?_⟩
  rcases hsound with ⟨h1, h2, h3⟩ | ⟨h1, h2, h3⟩
  · exact Or.inl ⟨h1, h2, h3⟩
  · exact Or.inr ⟨h1, h3, h2⟩

/-- SOUND -/
theorem chunkPart_sound (hs : InScope (toks true) r) (p : Row) (hp : p ∈ chunkPart m a toks cpu l r) :
    ∃ ls ∈ l.rows, ∃ rs ∈ r.rows, Present l a.lAttr ls ∧ Present r a.rAttr rs ∧ ∃ s,
      p = prow a.toTableArgs l r a.outSimScore ls rs s ∧
      Emitted m a (tokensOf (toks true) l a.lAttr ls) (tokensOf (toks true) r a.rAttr rs) s := by
  obtain ⟨ch, hch, c, d, s, h, rfl⟩ := (mem_chunkPart_iff m a toks cpu l r p).1 hp
  obtain ⟨ls, hls, rs, hrs, hpl, hpr, hel, her, hE⟩ := pair_facts m a toks cpu l r hs ch hch c d s h
  refine ⟨ls, hls, rs, hrs, hpl, hpr, s, ?_, hE⟩
  rw [hel, her]; rfl

/-- COMPLETE -/
theorem chunkPart_complete (hm : SetMeasure m) (hop : a.compOp ∈ [">=", ">", "="])
    (thr : Rat) (hthr : a.threshold = .float thr) (hok : ThrOK thr) (hs : InScope (toks true) r)
    (ls : Row) (hls : ls ∈ l.rows) (rs : Row) (hrs : rs ∈ r.rows)
    (hpl : Present l a.lAttr ls) (hpr : Present r a.rAttr rs)
    (hne : Spec.bothEmpty (tokensOf (toks true) l a.lAttr ls) (tokensOf (toks true) r a.rAttr rs) = false)
    (hq : Spec.qualStrict m a.compOp (.float thr) (tokensOf (toks true) l a.lAttr ls)
      (tokensOf (toks true) r a.rAttr rs) = true) :
    prow a.toTableArgs l r a.outSimScore ls rs
      (scoreCell (Spec.score4 m (tokensOf (toks true) l a.lAttr ls) (tokensOf (toks true) r a.rAttr rs)))
      ∈ chunkPart m a toks cpu l r := by
  obtain ⟨c, hc, hel⟩ := lArr_index a.toTableArgs l ls hls hpl
  obtain ⟨ch, hch, d, hd, her⟩ := chunk_index a.toTableArgs r cpu hs.rows rs hrs hpr
  have tA : (toks true) (((RT.lArr a.toTableArgs l).getD c []).cell (jcfg m a).lAttr).strVal
      = tokensOf (toks true) l a.lAttr ls := by
    rw [hel]; exact lRow_tokens a.toTableArgs l (toks true) ls
  have tB : (toks true) ((ch.getD d []).cell (jcfg m a).rAttr).strVal = tokensOf (toks true) r a.rAttr rs := by
    rw [her]; exact rRow_tokens a.toTableArgs r (toks true) rs
  unfold Spec.qualStrict at hq
  rw [Bool.and_eq_true] at hq
  obtain ⟨ho1, hb⟩ := boundsFacts_of_qual m hm thr hok a.compOp hop _ _ (hs.nodup _) (hs.nodup _)
    (hs.small _) (hs.small _) hne hq.1
  have key := setSimJoinPairs_complete (jcfg m a) (toks true) (RT.lArr a.toTableArgs l) ch hs.nodup c d hc hd
  rw [tA, tB, jcfg_cfg m a thr hthr] at key
  have hmem := key ho1 hb hq.2
  refine (mem_chunkPart_iff m a toks cpu l r _).2 ⟨ch, hch, c, d, _, hmem, ?_⟩
  rw [hel, her]; rfl

/-- EMPTY: with `allow_empty` a pair of present rows with two empty token lists is emitted -/
theorem chunkPart_bothEmpty (hs : InScope (toks true) r) (hae : a.allowEmpty = true)
    (ls : Row) (hls : ls ∈ l.rows) (rs : Row) (hrs : rs ∈ r.rows)
    (hpl : Present l a.lAttr ls) (hpr : Present r a.rAttr rs)
    (he : Spec.bothEmpty (tokensOf (toks true) l a.lAttr ls) (tokensOf (toks true) r a.rAttr rs) = true) :
    ∃ s, prow a.toTableArgs l r a.outSimScore ls rs s ∈ chunkPart m a toks cpu l r := by
  obtain ⟨c, hc, hel⟩ := lArr_index a.toTableArgs l ls hls hpl
  obtain ⟨ch, hch, d, hd, her⟩ := chunk_index a.toTableArgs r cpu hs.rows rs hrs hpr
  have tA : (toks true) (((RT.lArr a.toTableArgs l).getD c []).cell (jcfg m a).lAttr).strVal
      = tokensOf (toks true) l a.lAttr ls := by
    rw [hel]; exact lRow_tokens a.toTableArgs l (toks true) ls
  have tB : (toks true) ((ch.getD d []).cell (jcfg m a).rAttr).strVal = tokensOf (toks true) r a.rAttr rs := by
    rw [her]; exact rRow_tokens a.toTableArgs r (toks true) rs
  have key := setSimJoinPairs_bothEmpty (jcfg m a) (toks true) (RT.lArr a.toTableArgs l) ch c d hc hd
  rw [tA, tB] at key
  obtain ⟨s, hmem⟩ := (key he).2 hae
  refine ⟨s, (mem_chunkPart_iff m a toks cpu l r _).2 ⟨ch, hch, c, d, s, hmem, ?_⟩⟩
  rw [hel, her]; rfl

end Chunk

/-! ## 5. classification of the payload rows; ONCE -/

section Whole
variable (m : Measure) (a : JoinArgs) (toks : TokFn) (cpu : Int) (l r : Frame)

theorem mem_missPart_iff (p : Row) :
    p ∈ missPart a l r ↔ a.allowMissing = true ∧ ∃ ls ∈ l.rows, ∃ rs ∈ r.rows,
      (¬ Present l a.lAttr ls ∨ ¬ Present r a.rAttr rs) ∧
      p = missingRow (RT.missOut a.toTableArgs l r) a.outSimScore ls rs := by
  unfold missPart
  split
  · rename_i h
    rw [RT.mem_missingRows_iff]
    constructor
    · rintro ⟨ls, hls, rs, hrs, hmiss, rfl⟩
      refine ⟨h, ls, hls, rs, hrs, ?_, rfl⟩
      rcases hmiss with h1 | h1
      · exact Or.inl (fun hp : (ls.cell (l.colIdx a.lAttr)).isMissing = false => by rw [h1] at hp; cases hp)
      · exact Or.inr (fun hp : (rs.cell (r.colIdx a.rAttr)).isMissing = false => by rw [h1] at hp; cases hp)
    · rintro ⟨-, ls, hls, rs, hrs, hmiss, rfl⟩
      refine ⟨ls, hls, rs, hrs, ?_, rfl⟩
      rcases hmiss with h1 | h1
      · exact Or.inl (by
          cases hc : (ls.cell (l.colIdx a.lAttr)).isMissing
          · exact absurd hc h1
          · rfl)
      · exact Or.inr (by
          cases hc : (rs.cell (r.colIdx a.rAttr)).isMissing
          · exact absurd hc h1
          · rfl)
  · rename_i h
    constructor
    · intro hp; cases hp
    · rintro ⟨h', -⟩; exact absurd h' h

/-- every payload row is a missing-value row or the row of an emitted pair of present rows -/
theorem payload_cases (hs : InScope (toks true) r) (p : Row) (hp : p ∈ payload m a toks cpu l r) :
    (a.allowMissing = true ∧ ∃ ls ∈ l.rows, ∃ rs ∈ r.rows,
      (¬ Present l a.lAttr ls ∨ ¬ Present r a.rAttr rs) ∧
      p = missingRow (RT.missOut a.toTableArgs l r) a.outSimScore ls rs) ∨
    (∃ ls ∈ l.rows, ∃ rs ∈ r.rows, Present l a.lAttr ls ∧ Present r a.rAttr rs ∧ ∃ s,
      p = prow a.toTableArgs l r a.outSimScore ls rs s ∧
      Emitted m a (tokensOf (toks true) l a.lAttr ls) (tokensOf (toks true) r a.rAttr rs) s) := by
  unfold payload at hp
  rcases List.mem_append.1 hp with h | h
  · exact Or.inr (chunkPart_sound m a toks cpu l r hs p h)
  · exact Or.inl ((mem_missPart_iff a l r p).1 h)

/-- a payload row carrying the keys of a pair of PRESENT source rows is the emitted row of that pair -/
theorem payload_inv (hkl : validateKeyAttr a.lKey l = .ok ()) (hkr : validateKeyAttr a.rKey r = .ok ())
    (hs : InScope (toks true) r) (p : Row) (hp : p ∈ payload m a toks cpu l r)
    (ls : Row) (hls : ls ∈ l.rows) (rs : Row) (hrs : rs ∈ r.rows)
    (hpl : Present l a.lAttr ls) (hpr : Present r a.rAttr rs)
    (hk : pkeys p = (keyOf l a.lKey ls, keyOf r a.rKey rs)) :
    ∃ s, p = prow a.toTableArgs l r a.outSimScore ls rs s ∧
      Emitted m a (tokensOf (toks true) l a.lAttr ls) (tokensOf (toks true) r a.rAttr rs) s := by
  rcases payload_cases m a toks cpu l r hs p hp with ⟨-, ls', hls', rs', hrs', hmiss, rfl⟩ |
      ⟨ls', hls', rs', hrs', -, -, s, rfl, hE⟩
  · rw [pkeys_missingRow] at hk
    obtain ⟨rfl, rfl⟩ := source_eq_of_keys a.toTableArgs l r hkl hkr _ _ _ _ hls' hls hrs' hrs hk
    rcases hmiss with h | h
    · exact absurd hpl h
    · exact absurd hpr h
  · rw [pkeys_prow] at hk
    obtain ⟨rfl, rfl⟩ := source_eq_of_keys a.toTableArgs l r hkl hkr _ _ _ _ hls' hls hrs' hrs hk
    exact ⟨s, rfl, hE⟩

theorem getD_inj_of_nodup_map {α β : Type} (L : List α) (f : α → β) (d₀ : α) (h : (L.map f).Nodup)
    (i j : Nat) (hi : i < L.length) (hj : j < L.length) (e : f (L.getD i d₀) = f (L.getD j d₀)) : i = j := by
  have hi' : i < (L.map f).length := by simpa using hi
  have hj' : j < (L.map f).length := by simpa using hj
  apply (h.getElem_inj_iff (hi := hi') (hj := hj')).1
  rw [List.getD_eq_getElem?_getD, List.getD_eq_getElem?_getD, List.getElem?_eq_getElem hi,
    List.getElem?_eq_getElem hj] at e
  simpa using e

/-- the right-key columns of the chunks: duplicate-free, pairwise disjoint -/
theorem chunk_rkeys (hkr : validateKeyAttr a.rKey r = .ok ()) (hrows : r.rows.length < 2 ^ 40) :
    (∀ ch ∈ chunksFor (RT.rArr a.toTableArgs r) a.nJobs cpu,
      (ch.map (fun x => x.cell (RT.out a.toTableArgs).rKey)).Nodup) ∧
    (chunksFor (RT.rArr a.toTableArgs r) a.nJobs cpu).Pairwise (fun c1 c2 =>
      List.Disjoint (c1.map (fun x => x.cell (RT.out a.toTableArgs).rKey))
        (c2.map (fun x => x.cell (RT.out a.toTableArgs).rKey))) := by
  have h := RT.rArr_keys_nodup a.toTableArgs r hkr
  rw [← RT.chunks_flatten a.toTableArgs r cpu (rArr_length_lt a.toTableArgs r hrows), List.map_flatten,
    List.nodup_flatten] at h
  obtain ⟨h1, h2⟩ := h
  refine ⟨fun ch hch => h1 _ (List.mem_map.2 ⟨ch, hch, rfl⟩), ?_⟩
  exact List.pairwise_map.1 h2

/-- the key pairs of the rows of one chunk -/
theorem chunk_row_keys (ch : List Row) :
    (setSimJoin (jcfg m a) (toks true) (RT.lArr a.toTableArgs l) ch).map pkeys =
      ((setSimJoinPairs (jcfg m a) (toks true) (RT.lArr a.toTableArgs l) ch).map (fun p => (p.1, p.2.1))).map
        (fun cd => (((RT.lArr a.toTableArgs l).getD cd.1 []).cell (RT.out a.toTableArgs).lKey,
          (ch.getD cd.2 []).cell (RT.out a.toTableArgs).rKey)) := by
  rw [setSimJoin_eq_pairs, List.map_map, List.map_map]
  apply List.map_congr_left
  rintro ⟨c, d, s⟩ _
  exact Prod.ext (withScore_outputRow_cell_zero _ _ _ _ _) (withScore_outputRow_cell_one _ _ _ _ _)

theorem chunkPart_keys_nodup (hkl : validateKeyAttr a.lKey l = .ok ()) (hkr : validateKeyAttr a.rKey r = .ok ())
    (hrows : r.rows.length < 2 ^ 40) : ((chunkPart m a toks cpu l r).map pkeys).Nodup := by
  obtain ⟨hnd, hdisj⟩ := chunk_rkeys a cpu r hkr hrows
  have hval : ∀ (ch : List Row) (cd : Nat × Nat),
      cd ∈ (setSimJoinPairs (jcfg m a) (toks true) (RT.lArr a.toTableArgs l) ch).map (fun p => (p.1, p.2.1)) →
      cd.1 < (RT.lArr a.toTableArgs l).length ∧ cd.2 < ch.length := by
    intro ch cd hcd
    obtain ⟨p, hp, rfl⟩ := List.mem_map.1 hcd
    exact setSimJoinPairs_valid (jcfg m a) (toks true) _ ch p hp
  unfold chunkPart
  rw [List.map_flatMap, List.nodup_flatMap]
  constructor
  · intro ch hch
    rw [chunk_row_keys]
    apply List.Nodup.map_on _ (setSimJoinPairs_nodup (jcfg m a) (toks true) _ ch)
    rintro ⟨c, d⟩ hx ⟨c', d'⟩ hy hxy
    obtain ⟨hc, hd⟩ := hval ch _ hx
    obtain ⟨hc', hd'⟩ := hval ch _ hy
    obtain ⟨e1, e2⟩ := Prod.mk.inj hxy
    have := getD_inj_of_nodup_map _ _ [] (RT.lArr_keys_nodup a.toTableArgs l hkl) c c' hc hc' e1
    have := getD_inj_of_nodup_map _ _ [] (hnd ch hch) d d' hd hd' e2
    subst_vars
    rfl
  · apply hdisj.imp
    intro c1 c2 hd
    show List.Disjoint _ _
    intro x hx1 hx2
    beta_reduce at hx1 hx2
    rw [chunk_row_keys] at hx1 hx2
    obtain ⟨cd1, h1, rfl⟩ := List.mem_map.1 hx1
    obtain ⟨cd2, h2, e⟩ := List.mem_map.1 hx2
    have v1 := (hval c1 cd1 h1).2
    have v2 := (hval c2 cd2 h2).2
    apply hd (a := (c1.getD cd1.2 []).cell (RT.out a.toTableArgs).rKey)
    · exact List.mem_map.2 ⟨_, (mem_iff_getD c1 [] _).2 ⟨cd1.2, v1, rfl⟩, rfl⟩
    · rw [← (Prod.mk.inj e).2]
      exact List.mem_map.2 ⟨_, (mem_iff_getD c2 [] _).2 ⟨cd2.2, v2, rfl⟩, rfl⟩

theorem missPart_keys_nodup (hkl : validateKeyAttr a.lKey l = .ok ()) (hkr : validateKeyAttr a.rKey r = .ok ()) :
    ((missPart a l r).map pkeys).Nodup := by
  unfold missPart
  split
  · rw [RT.missingRows_eq_positions, List.map_map]
    apply List.Nodup.map_on _ (nodup_missingPairIdx _ _ _ _)
    rintro ⟨i, j⟩ h1 ⟨i', j'⟩ h2 e
    simp only [Function.comp, pkeys_missingRow] at e
    obtain ⟨hi, hj, -⟩ := (mem_missingPairIdx _ _ _ _ _ _).1 h1
    obtain ⟨hi', hj', -⟩ := (mem_missingPairIdx _ _ _ _ _ _).1 h2
    obtain ⟨e1, e2⟩ := Prod.mk.inj e
    have := getD_inj_of_nodup_map _ _ [] (keys_nodup_of_validateKeyAttr a.lKey l hkl) i i' hi hi' e1
    have := getD_inj_of_nodup_map _ _ [] (keys_nodup_of_validateKeyAttr a.rKey r hkr) j j' hj hj' e2
    subst_vars
    rfl
  · exact List.nodup_nil

/-- ONCE, globally: no key pair occurs twice among the payload rows -/
theorem payload_keys_nodup (hkl : validateKeyAttr a.lKey l = .ok ()) (hkr : validateKeyAttr a.rKey r = .ok ())
    (hs : InScope (toks true) r) : ((payload m a toks cpu l r).map pkeys).Nodup := by
  unfold payload
  rw [List.map_append, List.nodup_append]
  refine ⟨chunkPart_keys_nodup m a toks cpu l r hkl hkr hs.rows, missPart_keys_nodup a l r hkl hkr, ?_⟩
  intro x hx y hy hxy
  subst hxy
  obtain ⟨p, hp, rfl⟩ := List.mem_map.1 hx
  obtain ⟨q, hq, hqk⟩ := List.mem_map.1 hy
  obtain ⟨ls, hls, rs, hrs, hpl, hpr, s, rfl, -⟩ := chunkPart_sound m a toks cpu l r hs p hp
  obtain ⟨-, ls', hls', rs', hrs', hmiss, rfl⟩ := (mem_missPart_iff a l r q).1 hq
  rw [pkeys_missingRow, pkeys_prow] at hqk
  obtain ⟨rfl, rfl⟩ := source_eq_of_keys a.toTableArgs l r hkl hkr _ _ _ _ hls' hls hrs' hrs hqk
  rcases hmiss with h | h
  · exact h hpl
  · exact h hpr

end Whole

/-! ## 6. entry level -/

section Entry
variable (m : Measure) (a : JoinArgs) (t : TokObj) (toks : TokFn) (cpu : Int) (l r : Frame)

theorem keys_of_validateJoin (hv : validateJoin m.name a t = .ok (l, r)) :
    validateKeyAttr a.lKey l = .ok () ∧ validateKeyAttr a.rKey r = .ok () := by
  obtain ⟨-, -, -, -, -, hkl, hkr⟩ := (validateJoin_ok_iff m.name a t l r).1 hv
  exact ⟨validateKeyAttr_of_keyValid _ _ hkl, validateKeyAttr_of_keyValid _ _ hkr⟩

/-- a successful result is THE frame of `result_rows` -/
theorem rows_of_result (hv : validateJoin m.name a t = .ok (l, r)) (fr : Frame)
    (hres : (setSimJoinPy m a t toks cpu).result = .ok fr) :
    fr.rows = (payload m a toks cpu l r).zipIdx.map (fun (x : Row × Nat) => Cell.int x.2 :: x.1) := by
  obtain ⟨fr', h1, h2⟩ := result_rows m a t toks cpu l r hv (setSimJoinPy_bodyOK m a t toks cpu l r hv fr hres)
  rw [hres] at h1
  cases Except.ok.inj h1
  exact h2

/-- after a successful validation the call returns a frame -/
theorem total (hv : validateJoin m.name a t = .ok (l, r)) (hb : Props.BodyOK a.toTableArgs l r a.outSimScore) :
    ∃ fr, (setSimJoinPy m a t toks cpu).result = .ok fr := by
  obtain ⟨fr, h, -⟩ := result_rows m a t toks cpu l r hv hb
  exact ⟨fr, h⟩

/-- C01 -/
theorem complete (hm : SetMeasure m) (hv : validateJoin m.name a t = .ok (l, r))
    (thr : Rat) (hthr : a.threshold = .float thr) (hok : ThrOK thr) (hs : InScope (toks true) r)
    (ls : Row) (hls : ls ∈ l.rows) (rs : Row) (hrs : rs ∈ r.rows)
    (hpl : Present l a.lAttr ls) (hpr : Present r a.rAttr rs)
    (hne : Spec.bothEmpty (tokensOf (toks true) l a.lAttr ls) (tokensOf (toks true) r a.rAttr rs) = false)
    (hq : Spec.qualStrict m a.compOp (.float thr) (tokensOf (toks true) l a.lAttr ls)
      (tokensOf (toks true) r a.rAttr rs) = true)
    (hb : Props.BodyOK a.toTableArgs l r a.outSimScore) :
    ∃ fr, (setSimJoinPy m a t toks cpu).result = .ok fr ∧
      ∃ row ∈ fr.rows, rowKeys row = (keyOf l a.lKey ls, keyOf r a.rKey rs) ∧
        (a.outSimScore = true → rowScore row = scoreCell (Spec.score4 m (tokensOf (toks true) l a.lAttr ls)
          (tokensOf (toks true) r a.rAttr rs))) := by
  obtain ⟨fr, hres, hrows⟩ := result_rows m a t toks cpu l r hv hb
  obtain ⟨-, -, hop⟩ := of_validateJoin hm hv
  have hmem := chunkPart_complete m a toks cpu l r hm hop thr hthr hok hs ls hls rs hrs hpl hpr hne hq
  obtain ⟨i, hi⟩ := mem_rows_intro (payload m a toks cpu l r) _ (List.mem_append_left _ hmem)
  refine ⟨fr, hres, _, by rw [hrows]; exact hi, ?_, ?_⟩
  · rw [rowKeys_cons, pkeys_prow]
  · intro hss
    rw [hss]
    exact score_prow _ _ _ _ _ _ _

/-- C02 (sound) -/
theorem sound (hv : validateJoin m.name a t = .ok (l, r))
    (thr : Rat) (hthr : a.threshold = .float thr) (hs : InScope (toks true) r)
    (fr : Frame) (hres : (setSimJoinPy m a t toks cpu).result = .ok fr) (row : Row) (hrow : row ∈ fr.rows) :
    (a.allowMissing = true ∧ ∃ ls ∈ l.rows, ∃ rs ∈ r.rows,
      (¬ Present l a.lAttr ls ∨ ¬ Present r a.rAttr rs) ∧
      rowKeys row = (keyOf l a.lKey ls, keyOf r a.rKey rs) ∧
      (a.outSimScore = true → rowScore row = Cell.missing)) ∨
    (∃ ls ∈ l.rows, ∃ rs ∈ r.rows, Present l a.lAttr ls ∧ Present r a.rAttr rs ∧
      rowKeys row = (keyOf l a.lKey ls, keyOf r a.rKey rs) ∧
      ((Spec.bothEmpty (tokensOf (toks true) l a.lAttr ls) (tokensOf (toks true) r a.rAttr rs) = true ∧
          a.allowEmpty = true ∧ (a.outSimScore = true → rowScore row = Cell.flt 1)) ∨
       (Spec.bothEmpty (tokensOf (toks true) l a.lAttr ls) (tokensOf (toks true) r a.rAttr rs) = false ∧
          Spec.qualRounded m a.compOp (.float thr) (tokensOf (toks true) l a.lAttr ls)
            (tokensOf (toks true) r a.rAttr rs) = true ∧
          (a.outSimScore = true → rowScore row = scoreCell (Spec.score4 m (tokensOf (toks true) l a.lAttr ls)
            (tokensOf (toks true) r a.rAttr rs)))))) := by
  rw [rows_of_result m a t toks cpu l r hv fr hres] at hrow
  obtain ⟨p, hp, i, rfl⟩ := mem_rows_elim _ _ hrow
  rcases payload_cases m a toks cpu l r hs p hp with ⟨ham, ls, hls, rs, hrs, hmiss, rfl⟩ |
      ⟨ls, hls, rs, hrs, hpl, hpr, s, rfl, -, hE⟩
  · left
    refine ⟨ham, ls, hls, rs, hrs, hmiss, by rw [rowKeys_cons, pkeys_missingRow], ?_⟩
    intro hss
    rw [hss]
    exact score_missingRow _ _ _ _ _ _
  · right
    refine ⟨ls, hls, rs, hrs, hpl, hpr, by rw [rowKeys_cons, pkeys_prow], ?_⟩
    have hsc : a.outSimScore = true →
        rowScore (Cell.int i :: prow a.toTableArgs l r a.outSimScore ls rs s) = s := by
      intro hss
      rw [hss]
      exact score_prow _ _ _ _ _ _ _
    rcases hE with ⟨h1, h2, rfl⟩ | ⟨h1, h2, rfl⟩
    · exact Or.inl ⟨h1, h2, hsc⟩
    · rw [hthr] at h2
      exact Or.inr ⟨h1, h2, hsc⟩

/-- C02 (once), global form: no key pair occurs twice in the result -/
theorem once (hv : validateJoin m.name a t = .ok (l, r)) (hs : InScope (toks true) r)
    (fr : Frame) (hres : (setSimJoinPy m a t toks cpu).result = .ok fr) :
    (fr.rows.map rowKeys).Nodup := by
  obtain ⟨hkl, hkr⟩ := keys_of_validateJoin m a t l r hv
  rw [rows_of_result m a t toks cpu l r hv fr hres, rows_map_rowKeys]
  exact payload_keys_nodup m a toks cpu l r hkl hkr hs

/-- a result row carrying the keys of a pair of PRESENT source rows is the emitted row of that pair -/
theorem row_inv (hv : validateJoin m.name a t = .ok (l, r)) (hs : InScope (toks true) r)
    (fr : Frame) (hres : (setSimJoinPy m a t toks cpu).result = .ok fr) (row : Row) (hrow : row ∈ fr.rows)
    (ls : Row) (hls : ls ∈ l.rows) (rs : Row) (hrs : rs ∈ r.rows)
    (hpl : Present l a.lAttr ls) (hpr : Present r a.rAttr rs)
    (hk : rowKeys row = (keyOf l a.lKey ls, keyOf r a.rKey rs)) :
    ∃ s, Emitted m a (tokensOf (toks true) l a.lAttr ls) (tokensOf (toks true) r a.rAttr rs) s ∧
      (a.outSimScore = true → rowScore row = s) := by
  obtain ⟨hkl, hkr⟩ := keys_of_validateJoin m a t l r hv
  rw [rows_of_result m a t toks cpu l r hv fr hres] at hrow
  obtain ⟨p, hp, i, rfl⟩ := mem_rows_elim _ _ hrow
  rw [rowKeys_cons] at hk
  obtain ⟨s, rfl, hE⟩ := payload_inv m a toks cpu l r hkl hkr hs p hp ls hls rs hrs hpl hpr hk
  refine ⟨s, hE, ?_⟩
  intro hss
  rw [hss]
  exact score_prow _ _ _ _ _ _ _

/-- C09: a pair of present rows that both tokenize to nothing is in the result iff `allow_empty` -/
theorem both_empty_iff (hv : validateJoin m.name a t = .ok (l, r)) (hs : InScope (toks true) r)
    (fr : Frame) (hres : (setSimJoinPy m a t toks cpu).result = .ok fr)
    (ls : Row) (hls : ls ∈ l.rows) (rs : Row) (hrs : rs ∈ r.rows)
    (hpl : Present l a.lAttr ls) (hpr : Present r a.rAttr rs)
    (he : Spec.bothEmpty (tokensOf (toks true) l a.lAttr ls) (tokensOf (toks true) r a.rAttr rs) = true) :
    (∃ row ∈ fr.rows, rowKeys row = (keyOf l a.lKey ls, keyOf r a.rKey rs)) ↔ a.allowEmpty = true := by
  constructor
  · rintro ⟨row, hrow, hk⟩
    obtain ⟨s, ⟨-, hE⟩, -⟩ := row_inv m a t toks cpu l r hv hs fr hres row hrow ls hls rs hrs hpl hpr hk
    rcases hE with ⟨-, h, -⟩ | ⟨h, -, -⟩
    · exact h
    · rw [he] at h; cases h
  · intro hae
    obtain ⟨s, hmem⟩ := chunkPart_bothEmpty m a toks cpu l r hs hae ls hls rs hrs hpl hpr he
    obtain ⟨i, hi⟩ := mem_rows_intro (payload m a toks cpu l r) _ (List.mem_append_left _ hmem)
    refine ⟨_, by rw [rows_of_result m a t toks cpu l r hv fr hres]; exact hi, ?_⟩
    rw [rowKeys_cons, pkeys_prow]

/-- C09: … and then its score is 1.0 -/
theorem both_empty_score (hv : validateJoin m.name a t = .ok (l, r)) (hs : InScope (toks true) r)
    (fr : Frame) (hres : (setSimJoinPy m a t toks cpu).result = .ok fr)
    (ls : Row) (hls : ls ∈ l.rows) (rs : Row) (hrs : rs ∈ r.rows)
    (hpl : Present l a.lAttr ls) (hpr : Present r a.rAttr rs)
    (he : Spec.bothEmpty (tokensOf (toks true) l a.lAttr ls) (tokensOf (toks true) r a.rAttr rs) = true)
    (row : Row) (hrow : row ∈ fr.rows) (hk : rowKeys row = (keyOf l a.lKey ls, keyOf r a.rKey rs))
    (hss : a.outSimScore = true) : rowScore row = Cell.flt 1 := by
  obtain ⟨s, ⟨-, hE⟩, hsc⟩ := row_inv m a t toks cpu l r hv hs fr hres row hrow ls hls rs hrs hpl hpr hk
  rcases hE with ⟨-, -, rfl⟩ | ⟨h, -, -⟩
  · exact hsc hss
  · rw [he] at h; cases h

/-- C09: a pair of present rows exactly one of which tokenizes to nothing is never in the result -/
theorem one_empty_never (hv : validateJoin m.name a t = .ok (l, r)) (hs : InScope (toks true) r)
    (fr : Frame) (hres : (setSimJoinPy m a t toks cpu).result = .ok fr)
    (ls : Row) (hls : ls ∈ l.rows) (rs : Row) (hrs : rs ∈ r.rows)
    (hpl : Present l a.lAttr ls) (hpr : Present r a.rAttr rs)
    (hone : ¬ ((tokensOf (toks true) l a.lAttr ls).length = 0 ↔ (tokensOf (toks true) r a.rAttr rs).length = 0)) :
    ¬ ∃ row ∈ fr.rows, rowKeys row = (keyOf l a.lKey ls, keyOf r a.rKey rs) := by
  rintro ⟨row, hrow, hk⟩
  obtain ⟨s, ⟨hiff, -⟩, -⟩ := row_inv m a t toks cpu l r hv hs fr hres row hrow ls hls rs hrs hpl hpr hk
  exact hone hiff

/-- C02 (once), position form: two different positions of the result never carry the same key pair -/
theorem once_positions (hv : validateJoin m.name a t = .ok (l, r)) (hs : InScope (toks true) r)
    (fr : Frame) (hres : (setSimJoinPy m a t toks cpu).result = .ok fr)
    (i j : Nat) (hi : i < fr.rows.length) (hj : j < fr.rows.length) (hij : i ≠ j) :
    rowKeys fr.rows[i] ≠ rowKeys fr.rows[j] := by
  have h := once m a t toks cpu l r hv hs fr hres
  intro e
  apply hij
  have hi' : i < (fr.rows.map rowKeys).length := by simpa using hi
  have hj' : j < (fr.rows.map rowKeys).length := by simpa using hj
  apply (h.getElem_inj_iff (hi := hi') (hj := hj')).1
  simpa using e

end Entry

/-! ## 7. a concrete request (used by the non-vacuity examples of `Props/C01`, `C02`, `C09`) -/

namespace Ex

/-- left table: `id`, `s` -/
def exL : Frame :=
  { columns := ["id", "s"], dtypes := ["int64", "object"],
    rows := [[.int 1, .str "ab"], [.int 2, .str ""], [.int 3, .missing], [.int 4, .str "x"]] }

/-- right table: `id`, `s` -/
def exR : Frame :=
  { columns := ["id", "s"], dtypes := ["int64", "object"],
    rows := [[.int 7, .str "abc"], [.int 8, .str ""], [.int 9, .missing]] }

/-- `jaccard_join(exL, exR, 'id', 'id', 's', 's', tok, 0.5, allow_missing=True, n_jobs=2)` -/
def exArgs : JoinArgs :=
  { ltable := some exL, rtable := some exR, lKey := "id", rKey := "id", lAttr := "s", rAttr := "s",
    threshold := .float (1/2), allowMissing := true, nJobs := 2 }

/-- a tokenization table: "ab" ↦ {a, b}, "abc" ↦ {a, b, c}, "" ↦ ∅, any other string ↦ itself -/
def exToks : TokFn := fun _ s =>
  if s = "ab" then ["a", "b"] else if s = "abc" then ["a", "b", "c"] else if s = "" then [] else [s]

theorem exValid : validateJoin Measure.jaccard.name exArgs {} = .ok (exL, exR) := by decide +kernel

theorem exThr : ThrOK (1/2) := ⟨by norm_num, by norm_num⟩

theorem exScope : InScope (exToks true) exR := by
  refine ⟨fun s => ?_, fun s => ?_, by decide⟩
  · unfold exToks; split_ifs <;> simp
  · unfold exToks; split_ifs <;> simp

/-- the source rows used in the examples: ("ab", "abc") qualifies with Jaccard 2/3; ("", "") is the empty pair;
    ("ab", "") has exactly one empty side -/
def exLs : Row := [.int 1, .str "ab"]
def exRs : Row := [.int 7, .str "abc"]
def exLe : Row := [.int 2, .str ""]
def exRe : Row := [.int 8, .str ""]

theorem exLs_mem : exLs ∈ exL.rows := by decide +kernel
theorem exRs_mem : exRs ∈ exR.rows := by decide +kernel
theorem exLe_mem : exLe ∈ exL.rows := by decide +kernel
theorem exRe_mem : exRe ∈ exR.rows := by decide +kernel

theorem exLs_present : Present exL exArgs.lAttr exLs := by
  show (_ : Bool) = false
  decide +kernel
theorem exRs_present : Present exR exArgs.rAttr exRs := by
  show (_ : Bool) = false
  decide +kernel
theorem exLe_present : Present exL exArgs.lAttr exLe := by
  show (_ : Bool) = false
  decide +kernel
theorem exRe_present : Present exR exArgs.rAttr exRe := by
  show (_ : Bool) = false
  decide +kernel

theorem exLs_tokens : tokensOf (exToks true) exL exArgs.lAttr exLs = ["a", "b"] := by decide +kernel
theorem exRs_tokens : tokensOf (exToks true) exR exArgs.rAttr exRs = ["a", "b", "c"] := by decide +kernel
theorem exLe_tokens : tokensOf (exToks true) exL exArgs.lAttr exLe = [] := by decide +kernel
theorem exRe_tokens : tokensOf (exToks true) exR exArgs.rAttr exRe = [] := by decide +kernel

/-- Jaccard of {a, b} and {a, b, c} as py_stringmatching computes it: the double nearest to 2/3 -/
theorem exSim : Spec.simSet .jaccard ["a", "b"] ["a", "b", "c"] = .float (rn (2 / 3)) := by
  have h1 : Spec.sameSet ["a", "b"] ["a", "b", "c"] = false := by decide +kernel
  have h2 : interCount ["a", "b"] ["a", "b", "c"] = 2 := by decide +kernel
  have h3 : simFormula .jaccard 2 2 3 = .float (rn (2 / 3)) := by
    rw [simFormula_eq .jaccard (Or.inl rfl) 2 3 2 (by norm_num) (by norm_num) (by norm_num) (by norm_num)
      (by norm_num)]
    simp only [simF]
    norm_num
  unfold Spec.simSet
  rw [h1, h2]
  exact h3

/-- … which is `>= 0.5` both raw and rounded to 4 decimals -/
theorem exQual : Spec.qualStrict .jaccard ">=" (.float (1 / 2)) ["a", "b"] ["a", "b", "c"] = true := by
  have hv1 := rn_lb (q := 2 / 3) (by norm_num)
  have hr : (6667 : Int) ≤ rhe (rn (2 / 3) * 10000) := by
    apply le_rhe_of_lt; push_cast; linarith
  have hr' : (6667 : Rat) ≤ ((rhe (rn (2 / 3) * 10000) : Int) : Rat) := by exact_mod_cast hr
  have hw : (6667 : Rat) / 10000 ≤ ((rhe (rn (2 / 3) * 10000) : Int) : Rat) / 10000 := by
    rw [div_le_div_iff_of_pos_right (by norm_num)]; exact hr'
  have h4 : (1 : Rat) / 2 ≤ round4 (rn (2 / 3)) := by
    rw [round4_eq]
    have := rn_lb_of_le (x := ((rhe (rn (2 / 3) * 10000) : Int) : Rat) / 10000) (y := 6667 / 10000) (by norm_num) hw
    linarith
  unfold Spec.qualStrict Spec.score4
  rw [exSim, round4_f]
  have h5 : (1 : Rat) / 2 ≤ rn (2 / 3) := by linarith
  simp only [compFn, Gen.comp_op_map, PyV.geb, PyV.leb, PyV.numVal?, Option.getD_some, Bool.and_eq_true,
    decide_eq_true_eq, BEq.rfl, if_true]
  exact ⟨h5, h4⟩

theorem exPair_qual : Spec.qualStrict .jaccard exArgs.compOp (.float (1 / 2))
    (tokensOf (exToks true) exL exArgs.lAttr exLs) (tokensOf (exToks true) exR exArgs.rAttr exRs) = true := by
  rw [exLs_tokens, exRs_tokens]; exact exQual

theorem exPair_nonempty : Spec.bothEmpty (tokensOf (exToks true) exL exArgs.lAttr exLs)
    (tokensOf (exToks true) exR exArgs.rAttr exRs) = false := by
  rw [exLs_tokens, exRs_tokens]; rfl

theorem exEmpty_both : Spec.bothEmpty (tokensOf (exToks true) exL exArgs.lAttr exLe)
    (tokensOf (exToks true) exR exArgs.rAttr exRe) = true := by
  rw [exLe_tokens, exRe_tokens]; rfl

theorem exOne_empty : ¬ ((tokensOf (exToks true) exL exArgs.lAttr exLs).length = 0 ↔
    (tokensOf (exToks true) exR exArgs.rAttr exRe).length = 0) := by
  rw [exLs_tokens, exRe_tokens]; decide

end Ex

section AxiomCheck
#print axioms boundsFacts_of_qual
#print axioms result_rows
#print axioms total
#print axioms complete
#print axioms sound
#print axioms once
#print axioms row_inv
#print axioms both_empty_iff
#print axioms both_empty_score
#print axioms one_empty_never
#print axioms once_positions
#print axioms Ex.exValid
#print axioms Ex.exQual
end AxiomCheck

end EntrySetSim
end SSJ

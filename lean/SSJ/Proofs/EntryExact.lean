/-
  SSJ.Proofs.EntryExact — lifting of the EXACT joins (`OverlapFilter.filter_tables` = `overlap_join`, and the
  overlap-coefficient join) from the array level (`Proofs/JoinExact.lean`) to the DataFrame level
  (`overlapFilterTables`, `overlapJoinPy`, `overlapCoefficientJoinPy` of `Model/Frame.lean`), in the vocabulary
  of `Props/Common.lean`.

  The central notion is `EX.Described a l r am oss P fr`: the frame `fr` lists, exactly once per key pair,
  (1) one row for every pair of source rows with present join values whose join cells satisfy `P · · s`
  (with score cell `s`), and (2) only when `am`, one row per pair with a missing join value.
-/
import SSJ.Proofs.Frames
import SSJ.Proofs.BodyOK
import SSJ.Proofs.JoinExact
import SSJ.Proofs.Session
import SSJ.Proofs.Arith
import SSJ.Props.Common

namespace SSJ
open SSJ.Props

namespace EX

/-! ### small list / row helpers -/

/-- key pair of a payload row (a result row without its `_id` cell) -/
def k2 (p : Row) : Cell × Cell := (p.cell 0, p.cell 1)

theorem cell_drop_one (row : Row) (i : Nat) : Row.cell (row.drop 1) i = row.cell (i + 1) := by
  simp only [Row.cell, List.getD_eq_getElem?_getD, List.getElem?_drop]
  rw [Nat.add_comm]

theorem rowKeys_eq (row : Row) : rowKeys row = k2 (row.drop 1) := by
  simp only [rowKeys, k2, cell_drop_one]

theorem rowScore_eq (row : Row) (h : row.drop 1 ≠ []) : rowScore row = (row.drop 1).getLastD .missing := by
  unfold rowScore
  cases row with
  | nil => exact absurd rfl h
  | cons x p =>
    cases p with
    | nil => exact absurd rfl h
    | cons y q => rfl

theorem withScore_eq_append (b : Bool) (row : Row) (s : Cell) :
    withScore b row s = row ++ (if b then [s] else []) := by
  cases b <;> simp [withScore]

theorem withScore_true_last (row : Row) (s : Cell) : (withScore true row s).getLastD .missing = s := by
  simp only [withScore, if_true]
  exact List.getLastD_concat

theorem withScore_true_ne_nil (row : Row) (s : Cell) : withScore true row s ≠ [] := by
  simp [withScore]

theorem getD_mem {α : Type} (l : List α) (c : Nat) (d0 : α) (h : c < l.length) : l.getD c d0 ∈ l := by
  rw [List.getD_eq_getElem?_getD, List.getElem?_eq_getElem h]
  exact List.getElem_mem h

theorem index_inj {α κ : Type} (l : List α) (key : α → κ) (d0 : α) (hnd : (l.map key).Nodup) {c c' : Nat}
    (hc : c < l.length) (hc' : c' < l.length) (h : key (l.getD c d0) = key (l.getD c' d0)) : c = c' := by
  have h1 : c < (l.map key).length := by rw [List.length_map]; exact hc
  have h2 : c' < (l.map key).length := by rw [List.length_map]; exact hc'
  apply (List.Nodup.getElem_inj_iff hnd (hi := h1) (hj := h2)).1
  rw [List.getElem_map, List.getElem_map]
  rw [List.getD_eq_getElem?_getD, List.getElem?_eq_getElem hc, List.getD_eq_getElem?_getD,
    List.getElem?_eq_getElem hc'] at h
  exact h

/-- key pairs addressed through a duplicate-free list of valid index pairs into two tables with
    duplicate-free keys are duplicate-free -/
theorem nodup_map_index_pairs {κ₁ κ₂ : Type} (X Y : List Row) (kx : Row → κ₁) (ky : Row → κ₂)
    (hx : (X.map kx).Nodup) (hy : (Y.map ky).Nodup) (I : List (Nat × Nat)) (hI : I.Nodup)
    (hr : ∀ ij ∈ I, ij.1 < X.length ∧ ij.2 < Y.length) :
    (I.map (fun ij => (kx (X.getD ij.1 []), ky (Y.getD ij.2 [])))).Nodup := by
  refine List.Nodup.map_on ?_ hI
  rintro ⟨i, j⟩ h1 ⟨i', j'⟩ h2 he
  simp only [Prod.mk.injEq] at he
  obtain ⟨hi, hj⟩ := hr _ h1
  obtain ⟨hi', hj'⟩ := hr _ h2
  have e1 : i = i' := index_inj X kx [] hx hi hi' he.1
  have e2 : j = j' := index_inj Y ky [] hy hj hj' he.2
  rw [e1, e2]

theorem flatMap_flatMap_chunks {α β : Type} (g : α → List β) (chunks : List (List α)) :
    chunks.flatMap (fun ch => ch.flatMap g) = chunks.flatten.flatMap g := by
  induction chunks with
  | nil => rfl
  | cons ch rest ih => rw [List.flatMap_cons, List.flatten_cons, List.flatMap_append, ih]

/-! ### the description of an exact join's result -/

/-- `fr` is the result of an exact join on `l`, `r`: every row names an existing left and right row by key;
    a row of two present join values satisfies `P` (with its score cell, reported when `oss`); rows of a
    missing join value occur only when `am` (score: missing); every present pair satisfying `P` has a row;
    no key pair occurs twice. -/
structure Described (a : TableArgs) (l r : Frame) (am oss : Bool) (P : Cell → Cell → Cell → Prop)
    (fr : Frame) : Prop where
  sound : ∀ row ∈ fr.rows, ∃ ls ∈ l.rows, ∃ rs ∈ r.rows,
      rowKeys row = (keyOf l a.lKey ls, keyOf r a.rKey rs) ∧
      ((Present l a.lAttr ls ∧ Present r a.rAttr rs ∧
          ∃ s, P (valOf l a.lAttr ls) (valOf r a.rAttr rs) s ∧ (oss = true → rowScore row = s)) ∨
       (¬(Present l a.lAttr ls ∧ Present r a.rAttr rs) ∧ am = true ∧ (oss = true → rowScore row = .missing)))
  complete : ∀ ls ∈ l.rows, ∀ rs ∈ r.rows, Present l a.lAttr ls → Present r a.rAttr rs →
      ∀ s, P (valOf l a.lAttr ls) (valOf r a.rAttr rs) s →
        ∃ row ∈ fr.rows, rowKeys row = (keyOf l a.lKey ls, keyOf r a.rKey rs)
  once : (fr.rows.map rowKeys).Nodup

/-- a row carrying the keys of a present pair satisfies `P` and reports its score -/
theorem Described.of_keys {a : TableArgs} {l r : Frame} {am oss : Bool} {P : Cell → Cell → Cell → Prop} {fr : Frame}
    (h : Described a l r am oss P fr)
    (hkl : validateKeyAttr a.lKey l = .ok ()) (hkr : validateKeyAttr a.rKey r = .ok ())
    (ls : Row) (hls : ls ∈ l.rows) (rs : Row) (hrs : rs ∈ r.rows)
    (hpl : Present l a.lAttr ls) (hpr : Present r a.rAttr rs)
    (row : Row) (hrow : row ∈ fr.rows) (hk : rowKeys row = (keyOf l a.lKey ls, keyOf r a.rKey rs)) :
    ∃ s, P (valOf l a.lAttr ls) (valOf r a.rAttr rs) s ∧ (oss = true → rowScore row = s) := by
  obtain ⟨ls', hls', rs', hrs', hk', hcase⟩ := h.sound row hrow
  rw [hk] at hk'
  simp only [Prod.mk.injEq, keyOf] at hk'
  have e1 : ls = ls' := row_eq_of_key_eq a.lKey l hkl ls ls' hls hls' hk'.1
  have e2 : rs = rs' := row_eq_of_key_eq a.rKey r hkr rs rs' hrs hrs' hk'.2
  subst e1 e2
  rcases hcase with ⟨_, _, hs⟩ | ⟨hn, _⟩
  · exact hs
  · exact absurd ⟨hpl, hpr⟩ hn

/-- the IFF characterisation: a present pair has a result row iff it satisfies `P` -/
theorem Described.iff {a : TableArgs} {l r : Frame} {am oss : Bool} {P : Cell → Cell → Cell → Prop} {fr : Frame}
    (h : Described a l r am oss P fr)
    (hkl : validateKeyAttr a.lKey l = .ok ()) (hkr : validateKeyAttr a.rKey r = .ok ())
    (ls : Row) (hls : ls ∈ l.rows) (rs : Row) (hrs : rs ∈ r.rows)
    (hpl : Present l a.lAttr ls) (hpr : Present r a.rAttr rs) :
    (∃ row ∈ fr.rows, rowKeys row = (keyOf l a.lKey ls, keyOf r a.rKey rs)) ↔
      ∃ s, P (valOf l a.lAttr ls) (valOf r a.rAttr rs) s := by
  constructor
  · rintro ⟨row, hrow, hk⟩
    obtain ⟨s, hs, _⟩ := h.of_keys hkl hkr ls hls rs hrs hpl hpr row hrow hk
    exact ⟨s, hs⟩
  · rintro ⟨s, hs⟩
    exact h.complete ls hls rs hrs hpl hpr s hs

/-! ### the generic lifting theorem -/

theorem rArr_length_le (a : TableArgs) (r : Frame) : (RT.rArr a r).length ≤ r.rows.length := by
  rw [RT.rArr_eq, List.length_map]
  exact List.length_filter_le _ _

/-- source row behind a position of the left array -/
theorem lArr_getD (a : TableArgs) (l : Frame) (c : Nat) (hc : c < (RT.lArr a l).length) :
    ∃ ls ∈ l.rows, Present l a.lAttr ls ∧ (RT.lArr a l).getD c [] = ((RT.lProj a).map l.colIdx).map ls.cell :=
  (RT.mem_lArr_iff a l _).1 (getD_mem _ c [] hc)

theorem rArr_getD (a : TableArgs) (r : Frame) (d : Nat) (hd : d < (RT.rArr a r).length) :
    ∃ rs ∈ r.rows, Present r a.rAttr rs ∧ (RT.rArr a r).getD d [] = ((RT.rProj a).map r.colIdx).map rs.cell :=
  (RT.mem_rArr_iff a r _).1 (getD_mem _ d [] hd)

theorem lArr_index (a : TableArgs) (l : Frame) (ls : Row) (hls : ls ∈ l.rows) (hp : Present l a.lAttr ls) :
    ∃ c, c < (RT.lArr a l).length ∧ (RT.lArr a l).getD c [] = ((RT.lProj a).map l.colIdx).map ls.cell := by
  have hm : ((RT.lProj a).map l.colIdx).map ls.cell ∈ RT.lArr a l :=
    (RT.mem_lArr_iff a l _).2 ⟨ls, hls, hp, rfl⟩
  obtain ⟨c, hc, he⟩ := (RT.mem_chunk_index _ _).1 hm
  exact ⟨c, hc, he.symm⟩

theorem rArr_index (a : TableArgs) (r : Frame) (rs : Row) (hrs : rs ∈ r.rows) (hp : Present r a.rAttr rs) :
    ∃ d, d < (RT.rArr a r).length ∧ (RT.rArr a r).getD d [] = ((RT.rProj a).map r.colIdx).map rs.cell := by
  have hm : ((RT.rProj a).map r.colIdx).map rs.cell ∈ RT.rArr a r :=
    (RT.mem_rArr_iff a r _).2 ⟨rs, hrs, hp, rfl⟩
  obtain ⟨d, hd, he⟩ := (RT.mem_chunk_index _ _).1 hm
  exact ⟨d, hd, he.symm⟩

/-- the exact rows: one per emitted triple -/
def exactRows (a : TableArgs) (l r : Frame) (oss : Bool) (pairs : List (Nat × Nat × Cell)) : List Row :=
  pairs.map (fun p => withScore oss
    (outputRow (RT.out a) ((RT.lArr a l).getD p.1 []) ((RT.rArr a r).getD p.2.1 [])) p.2.2)

theorem k2_exactRow (a : TableArgs) (oss : Bool) (la ra : Row) (s : Cell) :
    k2 (withScore oss (outputRow (RT.out a) la ra) s) = (la.cell (RT.out a).lKey, ra.cell (RT.out a).rKey) := by
  unfold k2
  rw [withScore_outputRow_cell_zero, withScore_outputRow_cell_one]

theorem k2_missingRow (a : TableArgs) (l r : Frame) (oss : Bool) (ls rs : Row) :
    k2 (missingRow (RT.missOut a l r) oss ls rs) = (ls.cell (l.colIdx a.lKey), rs.cell (r.colIdx a.rKey)) := by
  unfold k2
  rw [(RT.missingRow_keys a l r oss ls rs).1, (RT.missingRow_keys a l r oss ls rs).2]

/-- GENERIC LIFTING.  If the per-chunk results of `work`, concatenated over the chunks of the right array, are
    the rows of a list of triples `(left position, right position, score cell)` that is duplicate-free on
    positions and contains `(c, d, s)` exactly when the join cells of the two addressed rows satisfy `P · · s`,
    then `runTables` succeeds and its result is `Described` by `P`. -/
theorem runTables_described (a : TableArgs) (l r : Frame) (am oss : Bool) (cpu : Int)
    (work : OutCfg → Nat → Nat → List Row → List Row → List Row)
    (P : Cell → Cell → Cell → Prop) (pairs : List (Nat × Nat × Cell))
    (hkl : validateKeyAttr a.lKey l = .ok ()) (hkr : validateKeyAttr a.rKey r = .ok ())
    (hb : Props.BodyOK a l r oss)
    (hwidth : ∀ ch, ∀ row ∈ work (RT.out a) (RT.lAttrIdx a) (RT.rAttrIdx a) (RT.lArr a l) ch,
      row.length = (RT.header a oss).length)
    (hwork : (chunksFor (RT.rArr a r) a.nJobs cpu).flatMap (fun ch =>
        work (RT.out a) (RT.lAttrIdx a) (RT.rAttrIdx a) (RT.lArr a l) ch) = exactRows a l r oss pairs)
    (hmem : ∀ c d s, (c, d, s) ∈ pairs ↔ c < (RT.lArr a l).length ∧ d < (RT.rArr a r).length ∧
        P (((RT.lArr a l).getD c []).cell (RT.lAttrIdx a)) (((RT.rArr a r).getD d []).cell (RT.rAttrIdx a)) s)
    (hnd : (pairs.map (fun p => (p.1, p.2.1))).Nodup) :
    ∃ fr, runTables a l r am oss cpu work = .ok fr ∧ Described a l r am oss P fr := by
  obtain ⟨fr, hfr, hrows⟩ := runTables_ok a l r am oss cpu work hwidth hb.lstr hb.rstr hb.noClash
  refine ⟨fr, hfr, ?_⟩
  rw [hwork] at hrows
  -- membership in the two parts
  have hE : ∀ p ∈ exactRows a l r oss pairs, ∃ ls ∈ l.rows, ∃ rs ∈ r.rows,
      Present l a.lAttr ls ∧ Present r a.rAttr rs ∧ ∃ s, P (valOf l a.lAttr ls) (valOf r a.rAttr rs) s ∧
        p = withScore oss (outputRow (RT.out a) (((RT.lProj a).map l.colIdx).map ls.cell)
              (((RT.rProj a).map r.colIdx).map rs.cell)) s := by
    intro p hp
    unfold exactRows at hp
    rw [List.mem_map] at hp
    obtain ⟨⟨c, d, s⟩, hq, rfl⟩ := hp
    obtain ⟨hc, hd, hP⟩ := (hmem c d s).1 hq
    obtain ⟨ls, hls, hpl, hel⟩ := lArr_getD a l c hc
    obtain ⟨rs, hrs, hpr, her⟩ := rArr_getD a r d hd
    refine ⟨ls, hls, rs, hrs, hpl, hpr, s, ?_, ?_⟩
    · rw [hel, her, RT.lRow_attr, RT.rRow_attr] at hP
      exact hP
    · simp only [hel, her]
  have hM : ∀ p ∈ (if am then RT.missingRows a l r oss else []), am = true ∧ ∃ ls ∈ l.rows, ∃ rs ∈ r.rows,
      ¬(Present l a.lAttr ls ∧ Present r a.rAttr rs) ∧ p = missingRow (RT.missOut a l r) oss ls rs := by
    intro p hp
    cases am with
    | false => simp at hp
    | true =>
      simp only [if_true] at hp
      obtain ⟨ls, hls, rs, hrs, hm, he⟩ := (RT.mem_missingRows_iff a l r oss p).1 hp
      refine ⟨rfl, ls, hls, rs, hrs, ?_, he⟩
      rintro ⟨h1, h2⟩
      unfold Present valOf at h1 h2
      rcases hm with hm | hm
      · rw [hm] at h1; cases h1
      · rw [hm] at h2; cases h2
  refine ⟨?_, ?_, ?_⟩
  · -- sound
    intro row hrow
    have hmemp : row.drop 1 ∈ fr.rows.map (fun row => row.drop 1) := List.mem_map_of_mem hrow
    rw [hrows, List.mem_append] at hmemp
    rcases hmemp with hp | hp
    · obtain ⟨ls, hls, rs, hrs, hpl, hpr, s, hP, he⟩ := hE _ hp
      refine ⟨ls, hls, rs, hrs, ?_, Or.inl ⟨hpl, hpr, s, hP, ?_⟩⟩
      · rw [rowKeys_eq, he, k2_exactRow, RT.lRow_key, RT.rRow_key]; rfl
      · intro ho
        subst ho
        rw [rowScore_eq row (by rw [he]; exact withScore_true_ne_nil _ _), he, withScore_true_last]
    · obtain ⟨ham, ls, hls, rs, hrs, hn, he⟩ := hM _ hp
      refine ⟨ls, hls, rs, hrs, ?_, Or.inr ⟨hn, ham, ?_⟩⟩
      · rw [rowKeys_eq, he, k2_missingRow]; rfl
      · intro ho
        subst ho
        rw [rowScore_eq row (by rw [he]; exact withScore_true_ne_nil _ _), he]
        exact withScore_true_last _ _
  · -- complete
    intro ls hls rs hrs hpl hpr s hP
    obtain ⟨c, hc, hel⟩ := lArr_index a l ls hls hpl
    obtain ⟨d, hd, her⟩ := rArr_index a r rs hrs hpr
    have hq : (c, d, s) ∈ pairs := by
      rw [hmem]
      refine ⟨hc, hd, ?_⟩
      rw [hel, her, RT.lRow_attr, RT.rRow_attr]
      exact hP
    have hp : withScore oss (outputRow (RT.out a) ((RT.lArr a l).getD c []) ((RT.rArr a r).getD d [])) s ∈
        fr.rows.map (fun row => row.drop 1) := by
      rw [hrows, List.mem_append]
      left
      unfold exactRows
      rw [List.mem_map]
      exact ⟨(c, d, s), hq, rfl⟩
    rw [List.mem_map] at hp
    obtain ⟨row, hrow, he⟩ := hp
    refine ⟨row, hrow, ?_⟩
    rw [rowKeys_eq, he, k2_exactRow, hel, her, RT.lRow_key, RT.rRow_key]
    rfl
  · -- once
    have hmap : fr.rows.map rowKeys = (fr.rows.map (fun row => row.drop 1)).map k2 := by
      rw [List.map_map]
      apply List.map_congr_left
      intro row _
      exact rowKeys_eq row
    rw [hmap, hrows, List.map_append, List.nodup_append]
    refine ⟨?_, ?_, ?_⟩
    · -- exact part
      have e : (exactRows a l r oss pairs).map k2 =
          (pairs.map (fun p => (p.1, p.2.1))).map (fun ij =>
            ((fun x : Row => x.cell (RT.out a).lKey) ((RT.lArr a l).getD ij.1 []),
             (fun x : Row => x.cell (RT.out a).rKey) ((RT.rArr a r).getD ij.2 []))) := by
        unfold exactRows
        rw [List.map_map, List.map_map]
        apply List.map_congr_left
        intro p _
        exact k2_exactRow a oss _ _ _
      rw [e]
      apply nodup_map_index_pairs _ _ _ _ (RT.lArr_keys_nodup a l hkl) (RT.rArr_keys_nodup a r hkr) _ hnd
      intro ij hij
      rw [List.mem_map] at hij
      obtain ⟨⟨c, d, s⟩, hq, rfl⟩ := hij
      obtain ⟨hc, hd, _⟩ := (hmem c d s).1 hq
      exact ⟨hc, hd⟩
    · -- missing part
      cases am with
      | false => simp
      | true =>
        simp only [if_true]
        rw [RT.missingRows_eq_positions, List.map_map]
        have e : (k2 ∘ fun ij : Nat × Nat =>
            missingRow (RT.missOut a l r) oss (l.rows.getD ij.1 []) (r.rows.getD ij.2 [])) =
            (fun ij => ((fun x : Row => x.cell (l.colIdx a.lKey)) (l.rows.getD ij.1 []),
                        (fun x : Row => x.cell (r.colIdx a.rKey)) (r.rows.getD ij.2 []))) := by
          funext ij
          exact k2_missingRow a l r oss _ _
        rw [e]
        apply nodup_map_index_pairs _ _ _ _ (keys_nodup_of_validateKeyAttr a.lKey l hkl)
          (keys_nodup_of_validateKeyAttr a.rKey r hkr) _ (nodup_missingPairIdx _ _ _ _)
        rintro ⟨i, j⟩ hij
        obtain ⟨hi, hj, _⟩ := (mem_missingPairIdx _ _ _ _ i j).1 hij
        exact ⟨hi, hj⟩
    · -- disjoint
      intro x hx y hy hxy
      subst hxy
      rw [List.mem_map] at hx hy
      obtain ⟨p, hp, rfl⟩ := hx
      obtain ⟨q, hq, hkq⟩ := hy
      obtain ⟨ls, hls, rs, hrs, hpl, hpr, s, _, he⟩ := hE p hp
      obtain ⟨_, ls', hls', rs', hrs', hn, he'⟩ := hM q hq
      rw [he, he', k2_exactRow, k2_missingRow, RT.lRow_key, RT.rRow_key] at hkq
      simp only [Prod.mk.injEq] at hkq
      have e1 : ls' = ls := row_eq_of_key_eq a.lKey l hkl ls' ls hls' hls hkq.1
      have e2 : rs' = rs := row_eq_of_key_eq a.rKey r hkr rs' rs hrs' hrs hkq.2
      subst e1 e2
      exact hn ⟨hpl, hpr⟩

end EX

/-! ## validation plumbing -/

theorem validateKeyAttr_of_keyTest (f : Frame) (k : String) (h : keyTest f k = true) :
    validateKeyAttr k f = .ok () := by
  show raiseIf (!keyTest f k) .assertion = .ok ()
  rw [h]; rfl

theorem validateKeyAttr_of_KeyValid (f : Frame) (k : String) (h : KeyValid f k) : validateKeyAttr k f = .ok () :=
  validateKeyAttr_of_keyTest f k ((keyTest_iff f k).2 h)

theorem validateOutAndKeys_keys (a : TableArgs) (l r : Frame) (h : validateOutAndKeys a l r = .ok ()) :
    validateKeyAttr a.lKey l = .ok () ∧ validateKeyAttr a.rKey r = .ok () := by
  have hb := validateOutAndKeys_bind a l r (fun _ => (Except.ok () : Except PyErr Unit))
  rw [h] at hb
  change Except.ok () = _ at hb
  split_ifs at hb with h1 h2 h3 h4
  exact ⟨validateKeyAttr_of_keyTest _ _ (by simpa using h3), validateKeyAttr_of_keyTest _ _ (by simpa using h4)⟩

theorem validateOutAndKeys_of_validateJoin (mname : String) (a : JoinArgs) (t : TokObj) (l r : Frame)
    (h : validateJoin mname a t = .ok (l, r)) :
    validateKeyAttr a.lKey l = .ok () ∧ validateKeyAttr a.rKey r = .ok () := by
  have h' := (validateJoin_ok_iff mname a t l r).1 h
  exact ⟨validateKeyAttr_of_KeyValid _ _ h'.2.2.2.2.2.1, validateKeyAttr_of_KeyValid _ _ h'.2.2.2.2.2.2⟩

theorem mkOverlapFilter_ok (size : PyV) (op : String) (am : Bool) (t : TokObj) (f : OverlapFilterObj)
    (h : mkOverlapFilter size op am t = .ok f) :
    f = { overlapSize := size, compOp := op, allowMissing := am } := by
  unfold mkOverlapFilter validateTokenizer at h
  rw [raiseIf_bind,
    genCheck_bind_of_cases _ _ _ (Gen.validate_threshold_cases _ _) rfl,
    genCheck_bind_of_cases _ _ _ (Gen.validate_comp_op_for_sim_measure_cases _ _) rfl] at h
  split_ifs at h
  exact (Except.ok.inj h).symm

/-! ## OverlapFilter.filter_tables / overlap_join -/

namespace EX

/-- the OverlapFilter's condition on two present join cells, together with the score cell it reports:
    at least one common token, the comparison holds for the number of common tokens, the score is that number -/
def POverlap (f : OverlapFilterObj) (tok : String → List Tok) (lv rv s : Cell) : Prop :=
  1 ≤ interCount (tok lv.strVal) (tok rv.strVal) ∧
  s = Cell.int (interCount (tok lv.strVal) (tok rv.strVal)) ∧
  compFn f.compOp (.int (interCount (tok lv.strVal) (tok rv.strVal))) f.overlapSize = true

theorem overlapFilterTablesSplit_chunks (f : OverlapFilterObj) (tok : String → List Tok) (o : OutCfg)
    (lAttr rAttr : Nat) (oss : Bool) (lt : List Row) (chunks : List (List Row)) :
    chunks.flatMap (fun ch => overlapFilterTablesSplit f tok o lAttr rAttr oss lt ch) =
      overlapFilterTablesSplit f tok o lAttr rAttr oss lt chunks.flatten := by
  unfold overlapFilterTablesSplit
  exact flatMap_flatMap_chunks _ chunks

theorem overlapCoefficientJoinSplit_chunks (threshold : PyV) (compOp : String) (allowEmpty : Bool)
    (lAttr rAttr : Nat) (o : OutCfg) (oss : Bool) (tok : String → List Tok) (lt : List Row)
    (chunks : List (List Row)) :
    chunks.flatMap (fun ch => overlapCoefficientJoinSplit threshold compOp allowEmpty lAttr rAttr o oss tok lt ch) =
      overlapCoefficientJoinSplit threshold compOp allowEmpty lAttr rAttr o oss tok lt chunks.flatten := by
  unfold overlapCoefficientJoinSplit
  exact flatMap_flatMap_chunks _ chunks

/-- `OverlapFilter.filter_tables` after its validations: succeeds, and the result is described by `POverlap` -/
theorem overlapFilterTables_described (f : OverlapFilterObj) (a : TableArgs) (oss : Bool) (tok : String → List Tok)
    (cpu : Int) (l r : Frame) (hnd : ∀ s, (tok s).Nodup)
    (hv : validateTablesAttrs a = .ok (l, r)) (hk : validateOutAndKeys a l r = .ok ())
    (hlen : r.rows.length < 2 ^ 40) (hb : Props.BodyOK a l r oss) :
    ∃ fr, overlapFilterTables f a oss tok cpu = .ok fr ∧ Described a l r f.allowMissing oss (POverlap f tok) fr := by
  have e : overlapFilterTables f a oss tok cpu = runTables a l r f.allowMissing oss cpu
      (fun o lAttr rAttr lArr ch => overlapFilterTablesSplit f tok o lAttr rAttr oss lArr ch) := by
    unfold overlapFilterTables
    rw [hv]
    show (validateOutAndKeys a l r >>= _) = _
    rw [hk]
    rfl
  rw [e]
  obtain ⟨hkl, hkr⟩ := validateOutAndKeys_keys a l r hk
  have hlen' : (RT.rArr a r).length < 2 ^ 40 := Nat.lt_of_le_of_lt (rArr_length_le a r) hlen
  apply runTables_described a l r f.allowMissing oss cpu _ (POverlap f tok)
    ((overlapPairs f tok (RT.lAttrIdx a) (RT.rAttrIdx a) (RT.lArr a l) (RT.rArr a r)).map
      (fun p => (p.1, p.2.1, Cell.int p.2.2))) hkl hkr hb
  · intro ch row hrow
    rw [overlapFilterTablesSplit_eq_pairs, List.mem_map] at hrow
    obtain ⟨p, _, rfl⟩ := hrow
    exact RT.outputRow_append_length a oss _ _ _
  · rw [overlapFilterTablesSplit_chunks, RT.chunks_flatten a r cpu hlen', overlapFilterTablesSplit_eq_pairs]
    unfold exactRows
    rw [List.map_map]
    apply List.map_congr_left
    intro p _
    exact (withScore_eq_append oss _ _).symm
  · intro c d s
    rw [List.mem_map]
    constructor
    · rintro ⟨⟨c', d', k⟩, hp, he⟩
      simp only [Prod.mk.injEq] at he
      obtain ⟨rfl, rfl, rfl⟩ := he
      obtain ⟨hc, hd, hk', h1, hcmp⟩ := (overlapPairs_mem f tok hnd _ _ _ _ c' d' k).1 hp
      rw [interCount_comm] at hk' h1
      subst hk'
      exact ⟨hc, hd, h1, rfl, hcmp⟩
    · rintro ⟨hc, hd, h1, rfl, hcmp⟩
      refine ⟨(c, d, _), ?_, rfl⟩
      rw [overlapPairs_mem f tok hnd]
      have hcm := interCount_comm (tok (((RT.lArr a l).getD c []).cell (RT.lAttrIdx a)).strVal)
        (tok (((RT.rArr a r).getD d []).cell (RT.rAttrIdx a)).strVal)
      refine ⟨hc, hd, by rw [hcm], by rw [← hcm]; exact h1, hcmp⟩
  · rw [List.map_map]
    exact overlapPairs_nodup f tok _ _ _ _

/-- `overlap_join_py` with valid arguments: succeeds, result described by `POverlap` of the requested
    operator and threshold -/
theorem overlapJoinPy_described (a : JoinArgs) (t : TokObj) (toks : TokFn) (cpu : Int) (f : OverlapFilterObj)
    (l r : Frame) (hnd : ∀ s, (toks true s).Nodup)
    (hf : mkOverlapFilter a.threshold a.compOp a.allowMissing t = .ok f)
    (hv : validateTablesAttrs a.toTableArgs = .ok (l, r)) (hk : validateOutAndKeys a.toTableArgs l r = .ok ())
    (hlen : r.rows.length < 2 ^ 40) (hb : Props.BodyOK a.toTableArgs l r a.outSimScore) :
    ∃ fr, (overlapJoinPy a t toks cpu).result = .ok fr ∧
      Described a.toTableArgs l r a.allowMissing a.outSimScore
        (POverlap { overlapSize := a.threshold, compOp := a.compOp, allowMissing := a.allowMissing } (toks true)) fr := by
  have e : (overlapJoinPy a t toks cpu).result = overlapFilterTables f a.toTableArgs a.outSimScore (toks true) cpu := by
    show (mkOverlapFilter a.threshold a.compOp a.allowMissing t >>= _) = _
    rw [hf]
    rfl
  rw [e]
  have hf' := mkOverlapFilter_ok _ _ _ _ _ hf
  subst hf'
  exact overlapFilterTables_described _ a.toTableArgs a.outSimScore (toks true) cpu l r hnd hv hk hlen hb

/-! ## overlap-coefficient join -/

/-- the overlap-coefficient join's condition on two present join cells, with the score cell it reports -/
def POvc (thr : PyV) (op : String) (ae : Bool) (tok : String → List Tok) (lv rv s : Cell) : Prop :=
  (Spec.bothEmpty (tok lv.strVal) (tok rv.strVal) = true ∧ ae = true ∧ s = .flt 1) ∨
  (1 ≤ interCount (tok lv.strVal) (tok rv.strVal) ∧
    s = scoreCell (Spec.ovcScore (tok lv.strVal) (tok rv.strVal)) ∧
    compFn op (Spec.ovcScore (tok lv.strVal) (tok rv.strVal)) thr = true)

theorem overlapCoefficientJoinPy_described (a : JoinArgs) (t : TokObj) (toks : TokFn) (cpu : Int)
    (l r : Frame) (hnd : ∀ s, (toks true s).Nodup)
    (hv : validateJoin "OVERLAP_COEFFICIENT" a t = .ok (l, r))
    (hlen : r.rows.length < 2 ^ 40) (hb : Props.BodyOK a.toTableArgs l r a.outSimScore) :
    ∃ fr, (overlapCoefficientJoinPy a t toks cpu).result = .ok fr ∧
      Described a.toTableArgs l r a.allowMissing a.outSimScore
        (POvc a.threshold a.compOp a.allowEmpty (toks true)) fr := by
  have e : (overlapCoefficientJoinPy a t toks cpu).result =
      runTables a.toTableArgs l r a.allowMissing a.outSimScore cpu
        (fun o lAttr rAttr lArr ch =>
          overlapCoefficientJoinSplit a.threshold a.compOp a.allowEmpty lAttr rAttr o a.outSimScore (toks true) lArr ch) := by
    unfold overlapCoefficientJoinPy
    rw [hv]
    exact withFlag_result _ _ _
  rw [e]
  obtain ⟨hkl, hkr⟩ := validateOutAndKeys_of_validateJoin _ a t l r hv
  have hlen' : (RT.rArr a.toTableArgs r).length < 2 ^ 40 := Nat.lt_of_le_of_lt (rArr_length_le _ r) hlen
  apply runTables_described a.toTableArgs l r a.allowMissing a.outSimScore cpu _
    (POvc a.threshold a.compOp a.allowEmpty (toks true))
    (ovcPairs a.threshold a.compOp a.allowEmpty (toks true) (RT.lAttrIdx a.toTableArgs) (RT.rAttrIdx a.toTableArgs)
      (RT.lArr a.toTableArgs l) (RT.rArr a.toTableArgs r)) hkl hkr hb
  · intro ch row hrow
    rw [overlapCoefficientJoinSplit_eq_pairs, List.mem_map] at hrow
    obtain ⟨p, _, rfl⟩ := hrow
    exact RT.withScore_outputRow_length _ _ _ _ _
  · rw [overlapCoefficientJoinSplit_chunks, RT.chunks_flatten _ r cpu hlen', overlapCoefficientJoinSplit_eq_pairs]
    rfl
  · intro c d s
    rw [ovcPairs_mem' a.threshold a.compOp a.allowEmpty (toks true) hnd]
    unfold POvc
    rw [interCount_comm]
  · exact ovcPairs_nodup _ _ _ _ _ _ _ _

/-! ## a pair without a common token never satisfies a positive threshold -/

theorem toFloat_int_shape (i : Int) :
    (∃ y, PyV.toFloat (.int i) = .float y) ∨ (∃ e, PyV.toFloat (.int i) = .err e) := by
  unfold PyV.toFloat PyV.intToFloat PyV.ofExact
  simp only
  split_ifs <;> simp

theorem ofExact_zero : PyV.ofExact 0 = .float 0 := by
  rw [ofExact_float (le_refl _) (by norm_num), F64.rn_zero]

/-- without a common token the overlap coefficient evaluates to `0.0` (or to the ZeroDivisionError /
    OverflowError value when a side is empty / astronomically large) -/
theorem ovcScore_of_no_common (A B : List Tok) (h : interCount A B = 0) :
    Spec.ovcScore A B = .float 0 ∨ ∃ e, Spec.ovcScore A B = .err e := by
  unfold Spec.ovcScore
  rw [h]
  have h0 : PyV.toFloat (.int ((0 : Nat) : Int)) = .float 0 := by
    have := toFloat_n 0 (by norm_num)
    simpa using this
  rw [h0]
  rcases toFloat_int_shape ((min A.length B.length : Nat) : Int) with ⟨y, hy⟩ | ⟨e, he⟩
  · rw [hy]
    by_cases hy0 : y = 0
    · right
      exact ⟨.zeroDiv, by simp [PyV.div, PyV.floatOp, hy0]⟩
    · left
      rw [div_ff _ _ hy0, zero_div, ofExact_zero]
  · right
    rw [he]
    exact ⟨e, rfl⟩

/-- `0`, `0.0` and error values never compare `>=`, `>` or `=` to a positive threshold -/
theorem compFn_zero_false (op : String) (thr v : PyV) (hop : op ∈ [">=", ">", "="])
    (hthr : PyV.leb thr (.int 0) = false) (hv : v = .float 0 ∨ v = .int 0 ∨ ∃ e, v = .err e) :
    compFn op v thr = false := by
  simp only [List.mem_cons, List.not_mem_nil, or_false] at hop
  rcases hv with rfl | rfl | ⟨e, rfl⟩
  · rcases hop with rfl | rfl | rfl <;>
      cases thr <;>
        simp_all [compFn, Gen.comp_op_map, PyV.geb, PyV.gtb, PyV.eqb, PyV.leb, PyV.ltb, PyV.numVal?] <;>
          first
          | exact hthr.le
          | exact ne_of_lt hthr
          | (intro h; have h2 : (0 : Rat) < _ := Int.cast_pos.mpr hthr; rw [← h] at h2; exact lt_irrefl _ h2)
          | (rename_i b; cases b <;> simp_all)
  · rcases hop with rfl | rfl | rfl <;>
      cases thr <;>
        simp_all [compFn, Gen.comp_op_map, PyV.geb, PyV.gtb, PyV.eqb, PyV.leb, PyV.ltb, PyV.numVal?] <;>
          first
          | exact hthr.le
          | exact ne_of_lt hthr
          | (intro h; have h2 : (0 : Rat) < _ := Int.cast_pos.mpr hthr; rw [← h] at h2; exact lt_irrefl _ h2)
          | (rename_i b; cases b <;> simp_all)
  · rcases hop with rfl | rfl | rfl <;>
      cases thr <;>
        simp [compFn, Gen.comp_op_map, PyV.geb, PyV.gtb, PyV.eqb, PyV.leb, PyV.ltb, PyV.numVal?]

/-- a validated overlap-coefficient threshold is positive, a validated operator is one of `>=`, `>`, `=` -/
theorem ovc_valid_thr_op (a : JoinArgs) (t : TokObj) (l r : Frame)
    (hv : validateJoin "OVERLAP_COEFFICIENT" a t = .ok (l, r)) :
    PyV.leb a.threshold (.int 0) = false ∧ a.compOp ∈ [">=", ">", "="] := by
  have h' := (validateJoin_ok_iff _ a t l r).1 hv
  constructor
  · exact PyV.leb_zero_of_gtb_zero
      ((Gen.validate_threshold_unit_iff _ _ (Or.inr (Or.inr (Or.inr rfl)))).1 h'.2.2.1).1
  · have h4 := h'.2.2.2.1
    by_contra hc
    exact h4 ((Gen.validate_comp_op_for_sim_measure_sim _ _ (by decide)).2 hc)

theorem ovc_no_common_false (a : JoinArgs) (t : TokObj) (l r : Frame)
    (hv : validateJoin "OVERLAP_COEFFICIENT" a t = .ok (l, r)) (A B : List Tok) (h : interCount A B = 0) :
    compFn a.compOp (Spec.ovcScore A B) a.threshold = false :=
  compFn_zero_false _ _ _ (ovc_valid_thr_op a t l r hv).2 (ovc_valid_thr_op a t l r hv).1
    ((ovcScore_of_no_common A B h).elim Or.inl (fun h => Or.inr (Or.inr h)))

/-! ## the conditions `POverlap` / `POvc` in closed form -/

theorem interCount_nil_left (B : List Tok) : interCount ([] : List Tok) B = 0 := by
  simp [interCount, dedup]

theorem interCount_of_empty (A B : List Tok) (h : A.length = 0 ∨ B.length = 0) : interCount A B = 0 := by
  rcases h with h | h
  · rw [List.eq_nil_of_length_eq_zero h]; exact interCount_nil_left B
  · rw [interCount_comm, List.eq_nil_of_length_eq_zero h]; exact interCount_nil_left A

theorem bothEmpty_iff (A B : List Tok) : Spec.bothEmpty A B = true ↔ A.length = 0 ∧ B.length = 0 := by
  unfold Spec.bothEmpty
  rw [Bool.and_eq_true, decide_eq_true_eq, decide_eq_true_eq]

theorem bothEmpty_interCount (A B : List Tok) (h : Spec.bothEmpty A B = true) : interCount A B = 0 :=
  interCount_of_empty A B (Or.inl ((bothEmpty_iff A B).1 h).1)

/-- a validated OverlapFilter has a positive overlap size and one of the operators `>=`, `>`, `=` -/
theorem mkOverlapFilter_valid (size : PyV) (op : String) (am : Bool) (t : TokObj) (f : OverlapFilterObj)
    (h : mkOverlapFilter size op am t = .ok f) :
    PyV.leb size (.int 0) = false ∧ op ∈ [">=", ">", "="] := by
  unfold mkOverlapFilter validateTokenizer at h
  rw [raiseIf_bind,
    genCheck_bind_of_cases _ _ _ (Gen.validate_threshold_cases _ _) rfl,
    genCheck_bind_of_cases _ _ _ (Gen.validate_comp_op_for_sim_measure_cases _ _) rfl] at h
  split_ifs at h with h1 h2 h3
  constructor
  · exact PyV.leb_zero_of_gtb_zero ((Gen.validate_threshold_overlap_iff _).1 h2)
  · by_contra hc
    exact h3 ((Gen.validate_comp_op_for_sim_measure_sim _ _ (by decide)).2 hc)

/-- for a positive threshold the comparison itself forces a common token -/
theorem one_le_of_compFn (op : String) (thr : PyV) (k : Nat) (hop : op ∈ [">=", ">", "="])
    (hthr : PyV.leb thr (.int 0) = false) (h : compFn op (.int (k : Int)) thr = true) : 1 ≤ k := by
  by_contra hc
  have hk : k = 0 := by omega
  subst hk
  have h0 := compFn_zero_false op thr (.int ((0 : Nat) : Int)) hop hthr (Or.inr (Or.inl rfl))
  rw [h0] at h
  cases h

theorem POverlap_exists_iff (f : OverlapFilterObj) (tok : String → List Tok) (lv rv : Cell)
    (hop : f.compOp ∈ [">=", ">", "="]) (hthr : PyV.leb f.overlapSize (.int 0) = false) :
    (∃ s, POverlap f tok lv rv s) ↔
      compFn f.compOp (.int (interCount (tok lv.strVal) (tok rv.strVal))) f.overlapSize = true := by
  unfold POverlap
  constructor
  · rintro ⟨s, _, _, h⟩; exact h
  · intro h
    exact ⟨_, one_le_of_compFn _ _ _ hop hthr h, rfl, h⟩

theorem POverlap_exists_iff' (f : OverlapFilterObj) (tok : String → List Tok) (lv rv : Cell) :
    (∃ s, POverlap f tok lv rv s) ↔
      (1 ≤ interCount (tok lv.strVal) (tok rv.strVal) ∧
       compFn f.compOp (.int (interCount (tok lv.strVal) (tok rv.strVal))) f.overlapSize = true) := by
  unfold POverlap
  constructor
  · rintro ⟨s, h1, _, h⟩; exact ⟨h1, h⟩
  · rintro ⟨h1, h⟩
    exact ⟨_, h1, rfl, h⟩

theorem POvc_exists_iff (thr : PyV) (op : String) (ae : Bool) (tok : String → List Tok) (lv rv : Cell)
    (hop : op ∈ [">=", ">", "="]) (hthr : PyV.leb thr (.int 0) = false) :
    (∃ s, POvc thr op ae tok lv rv s) ↔
      ((Spec.bothEmpty (tok lv.strVal) (tok rv.strVal) = true ∧ ae = true) ∨
       compFn op (Spec.ovcScore (tok lv.strVal) (tok rv.strVal)) thr = true) := by
  unfold POvc
  constructor
  · rintro ⟨s, ⟨h1, h2, _⟩ | ⟨_, _, h⟩⟩
    · exact Or.inl ⟨h1, h2⟩
    · exact Or.inr h
  · rintro (⟨h1, h2⟩ | h)
    · exact ⟨_, Or.inl ⟨h1, h2, rfl⟩⟩
    · refine ⟨_, Or.inr ⟨?_, rfl, h⟩⟩
      by_contra hc
      have h0 : interCount (tok lv.strVal) (tok rv.strVal) = 0 := by omega
      rw [compFn_zero_false op thr _ hop hthr
        ((ovcScore_of_no_common _ _ h0).elim Or.inl (fun h => Or.inr (Or.inr h)))] at h
      cases h

/-- the score cell determined by `POvc` -/
theorem POvc_score (thr : PyV) (op : String) (ae : Bool) (tok : String → List Tok) (lv rv s : Cell)
    (h : POvc thr op ae tok lv rv s) :
    s = if Spec.bothEmpty (tok lv.strVal) (tok rv.strVal) then Cell.flt 1
        else scoreCell (Spec.ovcScore (tok lv.strVal) (tok rv.strVal)) := by
  rcases h with ⟨h1, _, rfl⟩ | ⟨h1, rfl, _⟩
  · rw [if_pos h1]
  · rw [if_neg]
    intro hb
    rw [bothEmpty_interCount _ _ hb] at h1
    omega

/-! ## `∀ fr` forms -/

theorem overlapFilterTables_described_of_ok (f : OverlapFilterObj) (a : TableArgs) (oss : Bool)
    (tok : String → List Tok) (cpu : Int) (l r : Frame) (hnd : ∀ s, (tok s).Nodup)
    (hv : validateTablesAttrs a = .ok (l, r)) (hk : validateOutAndKeys a l r = .ok ())
    (hlen : r.rows.length < 2 ^ 40) (fr : Frame) (h : overlapFilterTables f a oss tok cpu = .ok fr) :
    Described a l r f.allowMissing oss (POverlap f tok) fr := by
  obtain ⟨fr', h', hd⟩ := overlapFilterTables_described f a oss tok cpu l r hnd hv hk hlen
    (overlapFilterTables_bodyOK f a oss tok cpu l r hv fr h)
  rw [h] at h'
  cases Except.ok.inj h'
  exact hd

theorem overlapJoinPy_described_of_ok (a : JoinArgs) (t : TokObj) (toks : TokFn) (cpu : Int) (f : OverlapFilterObj)
    (l r : Frame) (hnd : ∀ s, (toks true s).Nodup)
    (hf : mkOverlapFilter a.threshold a.compOp a.allowMissing t = .ok f)
    (hv : validateTablesAttrs a.toTableArgs = .ok (l, r)) (hk : validateOutAndKeys a.toTableArgs l r = .ok ())
    (hlen : r.rows.length < 2 ^ 40) (fr : Frame) (h : (overlapJoinPy a t toks cpu).result = .ok fr) :
    Described a.toTableArgs l r a.allowMissing a.outSimScore
      (POverlap { overlapSize := a.threshold, compOp := a.compOp, allowMissing := a.allowMissing } (toks true)) fr := by
  obtain ⟨fr', h', hd⟩ := overlapJoinPy_described a t toks cpu f l r hnd hf hv hk hlen
    (overlapJoinPy_bodyOK a t toks cpu l r hv fr h)
  rw [h] at h'
  cases Except.ok.inj h'
  exact hd

theorem overlapCoefficientJoinPy_described_of_ok (a : JoinArgs) (t : TokObj) (toks : TokFn) (cpu : Int)
    (l r : Frame) (hnd : ∀ s, (toks true s).Nodup)
    (hv : validateJoin "OVERLAP_COEFFICIENT" a t = .ok (l, r))
    (hlen : r.rows.length < 2 ^ 40) (fr : Frame) (h : (overlapCoefficientJoinPy a t toks cpu).result = .ok fr) :
    Described a.toTableArgs l r a.allowMissing a.outSimScore
      (POvc a.threshold a.compOp a.allowEmpty (toks true)) fr := by
  obtain ⟨fr', h', hd⟩ := overlapCoefficientJoinPy_described a t toks cpu l r hnd hv hlen
    (overlapCoefficientJoinPy_bodyOK a t toks cpu l r hv fr h)
  rw [h] at h'
  cases Except.ok.inj h'
  exact hd

end EX

/-! ## filter_candset: index labels, chunk hypothesis discharged -/

theorem candLabelled_length_le (c : Frame) : (candLabelled c).length ≤ c.rows.length := by
  unfold candLabelled
  rw [List.length_zip]
  exact Nat.min_le_left _ _

theorem candLabelled_of_wf (c : Frame) (h : c.index.length = c.rows.length) : candLabelled c = c.rows.zip c.index := by
  unfold candLabelled
  rw [h, Nat.sub_self, List.replicate_zero, List.append_nil]

theorem zip_map_fst_snd {α β : Type} (l : List (α × β)) : (l.map Prod.fst).zip (l.map Prod.snd) = l := by
  induction l with
  | nil => rfl
  | cons x l ih => simp [ih]

/-- `filter_candset` with all validations passing, every candidate key resolvable and fewer than 2^40 candidate rows:
    the result has the candset's columns and dtypes, its rows are the candset rows not dropped by `fp` in candset
    order, and (for a well-formed candset: one index label per row) every kept row keeps its index label. -/
theorem filterCandset_full (a : CandsetArgs) (fp : Cell → Cell → Except PyErr Bool) (fpb : Cell → Cell → Bool)
    (cpu : Int) (c l r : Frame)
    (hc : a.candset = some c) (hlt : a.ltable = some l) (hrt : a.rtable = some r)
    (hv1 : validateAttr a.candLKey c = .ok ()) (hv2 : validateAttr a.candRKey c = .ok ())
    (hv3 : validateAttr a.lKey l = .ok ()) (hv4 : validateAttr a.rKey r = .ok ())
    (hv5 : validateAttr a.lAttr l = .ok ()) (hv6 : validateAttr a.rAttr r = .ok ())
    (hv7 : validateAttrType a.lAttr l = .ok ()) (hv8 : validateAttrType a.rAttr r = .ok ())
    (hv9 : validateKeyAttr a.lKey l = .ok ()) (hv10 : validateKeyAttr a.rKey r = .ok ())
    (lval rval : Row → Cell)
    (hl : ∀ cr ∈ c.rows, ∃ lrow ∈ l.rows, (lrow.cell (l.colIdx a.lKey)).pyEq (cr.cell (c.colIdx a.candLKey)) = true ∧
                                         lrow.cell (l.colIdx a.lAttr) = lval cr)
    (hr : ∀ cr ∈ c.rows, ∃ rrow ∈ r.rows, (rrow.cell (r.colIdx a.rKey)).pyEq (cr.cell (c.colIdx a.candRKey)) = true ∧
                                         rrow.cell (r.colIdx a.rAttr) = rval cr)
    (hfp : ∀ cr ∈ c.rows, fp (lval cr) (rval cr) = .ok (fpb (lval cr) (rval cr)))
    (hlen : c.rows.length < 2 ^ 40) :
    ∃ fr, filterCandset a fp cpu = .ok fr ∧ fr.columns = c.columns ∧ fr.dtypes = c.dtypes ∧
      fr.rows = c.rows.filter (fun cr => !fpb (lval cr) (rval cr)) ∧
      (c.index.length = c.rows.length →
        fr.index.length = fr.rows.length ∧
        fr.rows.zip fr.index = (c.rows.zip c.index).filter (fun p => !fpb (lval p.1) (rval p.1))) := by
  have hchunks : (chunksFor (candLabelled c) a.nJobs cpu).flatten = candLabelled c :=
    chunksFor_flatten _ _ _ (Nat.lt_of_le_of_lt (candLabelled_length_le c) hlen)
  obtain ⟨fr, hfr, h1, h2, h3⟩ := filterCandset_rows a fp fpb cpu c l r hc hlt hrt hv1 hv2 hv3 hv4 hv5 hv6 hv7 hv8 hv9 hv10
    lval rval hl hr hfp hchunks
  refine ⟨fr, hfr, h1, h2, h3, ?_⟩
  intro hwf
  have hspec := filterCandset_spec a fp fpb cpu c l r hc hlt hrt hv1 hv2 hv3 hv4 hv5 hv6 hv7 hv8 hv9 hv10
    lval rval hl hr hfp hchunks
  rw [hfr] at hspec
  have hfr' := Except.ok.inj hspec
  by_cases hemp : c.rows.isEmpty = true
  · rw [if_pos hemp] at hfr'
    rw [List.isEmpty_iff] at hemp
    subst hfr'
    rw [hemp] at hwf ⊢
    rw [hwf]
    simp
  · rw [if_neg hemp] at hfr'
    subst hfr'
    simp only
    rw [candLabelled_of_wf c hwf]
    refine ⟨by rw [List.length_map, List.length_map], ?_⟩
    exact zip_map_fst_snd _

/-! ## OverlapFilter: filter_tables lists exactly the pairs filter_pair keeps -/

theorem EX.POverlap_iff_pair (f : OverlapFilterObj) (tok : String → List Tok) (lv rv : Cell)
    (hl : lv.isMissing = false) (hr : rv.isMissing = false) (htok : tok "" = [])
    (hop : f.compOp ∈ [">=", ">", "="]) (hthr : PyV.leb f.overlapSize (.int 0) = false) :
    (∃ s, EX.POverlap f tok lv rv s) ↔ overlapFilterPair f tok lv rv = false := by
  rw [EX.POverlap_exists_iff f tok lv rv hop hthr, overlapFilterPair_iff f tok lv rv hl hr]
  constructor
  · intro h
    have h1 := EX.one_le_of_compFn _ _ _ hop hthr h
    refine ⟨?_, ?_, h⟩
    · intro he
      rw [he, htok, EX.interCount_nil_left] at h1
      exact absurd h1 (by decide)
    · intro he
      rw [he, htok, interCount_comm, EX.interCount_nil_left] at h1
      exact absurd h1 (by decide)
  · rintro ⟨_, _, h⟩
    exact h

section AxiomCheck
#print axioms EX.runTables_described
#print axioms EX.overlapFilterTables_described
#print axioms EX.overlapJoinPy_described
#print axioms EX.overlapCoefficientJoinPy_described
#print axioms EX.ovc_no_common_false
#print axioms EX.POvc_exists_iff
#print axioms EX.POverlap_exists_iff
#print axioms filterCandset_full
#print axioms EX.POverlap_iff_pair
end AxiomCheck

end SSJ

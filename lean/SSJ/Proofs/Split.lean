/-
  SSJ.Proofs.Split — `split_table` / `get_num_processes_to_launch`: the chunks the entry points
  hand to the workers are a contiguous partition of the table.
-/
import SSJ.Model.Frame
import SSJ.Proofs.F64Laws
import Mathlib.Tactic.Linarith
import Mathlib.Tactic.Ring
import Mathlib.Tactic.Positivity
import Mathlib.Tactic.FieldSimp
import Mathlib.Tactic.NormNum
import Mathlib.Data.List.Basic

namespace SSJ
open F64

/-! ### `get_num_processes_to_launch` -/

theorem pyMax_int_one (a : Int) : (PyV.max (.int a) (.int 1)).toIntD = max a 1 := by
  by_cases h : a < 1
  · have h' : ((a : Int) : Rat) < 1 := by exact_mod_cast h
    simp [PyV.max, PyV.gtb, PyV.ltb, PyV.numVal?, h', PyV.toIntD]; omega
  · have h' : ¬ ((a : Int) : Rat) < 1 := by exact_mod_cast h
    simp [PyV.max, PyV.gtb, PyV.ltb, PyV.numVal?, h', PyV.toIntD]; omega

theorem numProcesses_spec (nJobs cpu : Int) :
    numProcesses nJobs cpu = max (if nJobs < 0 then cpu + 1 + nJobs else nJobs) 1 := by
  unfold numProcesses Gen.get_num_processes_to_launch
  by_cases h : nJobs < 0
  · have h' : ((nJobs : Rat) < 0) := by exact_mod_cast h
    simp only [PyV.ltb, PyV.numVal?, PyV.add, h, h', Int.cast_zero, decide_true, if_true]
    exact pyMax_int_one _
  · have h' : ¬ ((nJobs : Rat) < 0) := by exact_mod_cast h
    simp only [PyV.ltb, PyV.numVal?, h, h', Int.cast_zero, decide_false, if_false,
      Bool.false_eq_true]
    exact pyMax_int_one _

/-! ### rounding-error analysis of the slice boundaries -/

theorem pow2_m1022_le_40 : pow2 (-1022) ≤ 1 / 2 ^ 40 := by
  have h1 : pow2 (-1022) ≤ pow2 (-((40 : Nat) : Int)) := pow2_mono (by norm_num)
  rw [pow2_neg] at h1
  exact h1

/-- relative error 2⁻⁵³ for `0` and for everything from `2⁻⁴⁰` upwards -/
theorem rn_err_of_nonneg {t : Rat} (h : t = 0 ∨ 1 / 2 ^ 40 ≤ t) :
    t - t / 2 ^ 53 ≤ rn t ∧ rn t ≤ t + t / 2 ^ 53 := by
  rcases h with h | h
  · subst h; simp [rn_zero]
  · have hpos : 0 < t := lt_of_lt_of_le (by positivity) h
    have h1 : pow2 (-1022) ≤ |t| := by
      rw [abs_of_pos hpos]; exact le_trans pow2_m1022_le_40 h
    have h2 := rn_rel_err h1
    rw [abs_of_pos hpos, abs_le] at h2
    constructor <;> linarith [h2.1, h2.2]

/-- the float `1.0 / num_splits * len(table)` -/
def ssOf (k len : Nat) : Rat := rn (rn (1 / (k : Rat)) * (len : Rat))

/-- the `i`-th slice boundary `int(round(i * split_size))` -/
def bnd (k len i : Nat) : Int := rhe (rn ((i : Rat) * ssOf k len))

theorem rn_inv_bounds {k : Nat} (hk1 : 1 ≤ k) (hk : k < 2 ^ 40) :
    (1 / (k : Rat)) * (1 - 1 / 2 ^ 53) ≤ rn (1 / (k : Rat)) ∧
      rn (1 / (k : Rat)) ≤ (1 / (k : Rat)) * (1 + 1 / 2 ^ 53) ∧ rn (1 / (k : Rat)) ≤ 1 := by
  have hK1 : (1 : Rat) ≤ k := by exact_mod_cast hk1
  have hK : (k : Rat) ≤ 2 ^ 40 := by exact_mod_cast hk.le
  have hKpos : (0 : Rat) < k := by linarith
  have h1 : (1 : Rat) / 2 ^ 40 ≤ 1 / (k : Rat) := one_div_le_one_div_of_le hKpos hK
  have h2 := rn_err_of_nonneg (Or.inr h1)
  have h3 : (1 : Rat) / k ≤ ((1 : Int) : Rat) := by
    rw [div_le_iff₀ hKpos]; push_cast; linarith
  have h4 : rn (1 / (k : Rat)) ≤ ((1 : Int) : Rat) :=
    rn_le_int (by positivity) (by norm_num) h3
  refine ⟨by linarith [h2.1], by linarith [h2.2], by simpa using h4⟩

theorem ssOf_bounds {k len : Nat} (hk1 : 1 ≤ k) (hk : k ≤ len) (hlen : len < 2 ^ 40) :
    ((len : Rat) / k) * (1 - 2 / 2 ^ 53) ≤ ssOf k len ∧
      ssOf k len ≤ ((len : Rat) / k) * (1 + 3 / 2 ^ 53) := by
  have hK1 : (1 : Rat) ≤ k := by exact_mod_cast hk1
  have hKL : (k : Rat) ≤ len := by exact_mod_cast hk
  have hL : (len : Rat) < 2 ^ 40 := by exact_mod_cast hlen
  have hKpos : (0 : Rat) < k := by linarith
  have hLpos : (0 : Rat) < len := by linarith
  obtain ⟨hu1, hu2, -⟩ := rn_inv_bounds hk1 (lt_of_le_of_lt hk hlen)
  have hr : (1 : Rat) ≤ (len : Rat) / k := by rw [le_div_iff₀ hKpos]; linarith
  set u := rn (1 / (k : Rat)) with hu
  set r := (len : Rat) / k with hrdef
  have hrr : 1 / (k : Rat) * len = r := by rw [hrdef]; ring
  -- the product before rounding
  have hp1 : r * (1 - 1 / 2 ^ 53) ≤ u * len := by
    have := mul_le_mul_of_nonneg_right hu1 hLpos.le
    calc r * (1 - 1 / 2 ^ 53) = 1 / (k : Rat) * (1 - 1 / 2 ^ 53) * len := by rw [← hrr]; ring
      _ ≤ u * len := this
  have hp2 : u * len ≤ r * (1 + 1 / 2 ^ 53) := by
    have := mul_le_mul_of_nonneg_right hu2 hLpos.le
    calc u * len ≤ 1 / (k : Rat) * (1 + 1 / 2 ^ 53) * len := this
      _ = r * (1 + 1 / 2 ^ 53) := by rw [← hrr]; ring
  have hp0 : (1 : Rat) / 2 ^ 40 ≤ u * len := by
    have : (1 : Rat) * (1 - 1 / 2 ^ 53) ≤ r * (1 - 1 / 2 ^ 53) :=
      mul_le_mul_of_nonneg_right hr (by norm_num)
    have h' : (1 : Rat) / 2 ^ 40 ≤ 1 * (1 - 1 / 2 ^ 53) := by norm_num
    linarith
  have hs := rn_err_of_nonneg (Or.inr hp0)
  unfold ssOf
  rw [← hu]
  have hrpos : 0 ≤ r := by linarith
  constructor
  · have : r * (1 - 1 / 2 ^ 53) * (1 - 1 / 2 ^ 53) ≤ u * len * (1 - 1 / 2 ^ 53) :=
      mul_le_mul_of_nonneg_right hp1 (by norm_num)
    have e1 : r * (1 - 2 / 2 ^ 53) ≤ r * (1 - 1 / 2 ^ 53) * (1 - 1 / 2 ^ 53) := by
      have : r * (1 - 1 / 2 ^ 53) * (1 - 1 / 2 ^ 53) - r * (1 - 2 / 2 ^ 53)
          = r * (1 / 2 ^ 53 * (1 / 2 ^ 53)) := by ring
      have h0 : 0 ≤ r * ((1 : Rat) / 2 ^ 53 * (1 / 2 ^ 53)) := by positivity
      linarith
    linarith [hs.1]
  · have : u * len * (1 + 1 / 2 ^ 53) ≤ r * (1 + 1 / 2 ^ 53) * (1 + 1 / 2 ^ 53) :=
      mul_le_mul_of_nonneg_right hp2 (by norm_num)
    have e1 : r * (1 + 1 / 2 ^ 53) * (1 + 1 / 2 ^ 53) ≤ r * (1 + 3 / 2 ^ 53) := by
      have : r * (1 + 3 / 2 ^ 53) - r * (1 + 1 / 2 ^ 53) * (1 + 1 / 2 ^ 53)
          = r * (1 / 2 ^ 53 * (1 - 1 / 2 ^ 53)) := by ring
      have h0 : 0 ≤ r * ((1 : Rat) / 2 ^ 53 * (1 - 1 / 2 ^ 53)) :=
        mul_nonneg hrpos (by norm_num)
      linarith
    linarith [hs.2]

theorem ssOf_ge {k len : Nat} (hk1 : 1 ≤ k) (hk : k ≤ len) (hlen : len < 2 ^ 40) :
    1 - 2 / 2 ^ 53 ≤ ssOf k len := by
  have hK1 : (1 : Rat) ≤ k := by exact_mod_cast hk1
  have hKL : (k : Rat) ≤ len := by exact_mod_cast hk
  have hKpos : (0 : Rat) < k := by linarith
  have hr : (1 : Rat) ≤ (len : Rat) / k := by rw [le_div_iff₀ hKpos]; linarith
  have := mul_le_mul_of_nonneg_right hr (show (0 : Rat) ≤ 1 - 2 / 2 ^ 53 by norm_num)
  linarith [(ssOf_bounds hk1 hk hlen).1]

theorem kss_bounds {k len : Nat} (hk1 : 1 ≤ k) (hk : k ≤ len) (hlen : len < 2 ^ 40) :
    (len : Rat) * (1 - 2 / 2 ^ 53) ≤ (k : Rat) * ssOf k len ∧
      (k : Rat) * ssOf k len ≤ (len : Rat) * (1 + 3 / 2 ^ 53) := by
  have hK1 : (1 : Rat) ≤ k := by exact_mod_cast hk1
  have hKpos : (0 : Rat) < k := by linarith
  obtain ⟨h1, h2⟩ := ssOf_bounds hk1 hk hlen
  have e : ∀ c : Rat, (k : Rat) * ((len : Rat) / k * c) = (len : Rat) * c := by
    intro c; field_simp
  constructor
  · rw [← e]; exact mul_le_mul_of_nonneg_left h1 hKpos.le
  · rw [← e]; exact mul_le_mul_of_nonneg_left h2 hKpos.le

theorem iss_bounds {k len i : Nat} (hk1 : 1 ≤ k) (hk : k ≤ len) (hlen : len < 2 ^ 40) (hi : i ≤ k) :
    ((i : Rat) * ssOf k len = 0 ∨ 1 / 2 ^ 40 ≤ (i : Rat) * ssOf k len) ∧
      0 ≤ (i : Rat) * ssOf k len ∧ (i : Rat) * ssOf k len ≤ 2 ^ 40 + 1 := by
  have hss := ssOf_ge hk1 hk hlen
  have hss0 : 0 ≤ ssOf k len := le_trans (by norm_num) hss
  have hL : (len : Rat) ≤ 2 ^ 40 := by exact_mod_cast hlen.le
  have hIK : (i : Rat) ≤ k := by exact_mod_cast hi
  have h1 : (i : Rat) * ssOf k len ≤ (k : Rat) * ssOf k len := mul_le_mul_of_nonneg_right hIK hss0
  have h2 := (kss_bounds hk1 hk hlen).2
  refine ⟨?_, by positivity, by linarith⟩
  rcases Nat.eq_zero_or_pos i with h0 | h0
  · left; subst h0; simp
  · right
    have hI1 : (1 : Rat) ≤ i := by exact_mod_cast h0
    have := mul_le_mul_of_nonneg_right hI1 hss0
    linarith

theorem rn_iss_mono {k len i : Nat} (hk1 : 1 ≤ k) (hk : k ≤ len) (hlen : len < 2 ^ 40) (hi : i < k) :
    rn ((i : Rat) * ssOf k len) ≤ rn (((i + 1 : Nat) : Rat) * ssOf k len) := by
  obtain ⟨ha, ha0, ha1⟩ := iss_bounds hk1 hk hlen hi.le
  obtain ⟨hb, hb0, hb1⟩ := iss_bounds hk1 hk hlen (Nat.succ_le_of_lt hi)
  have hss := ssOf_ge hk1 hk hlen
  have e1 := (rn_err_of_nonneg ha).2
  have e2 := (rn_err_of_nonneg hb).1
  have hstep : ((i + 1 : Nat) : Rat) * ssOf k len = (i : Rat) * ssOf k len + ssOf k len := by
    push_cast; ring
  rw [hstep] at hb1 e2 ⊢
  set t := (i : Rat) * ssOf k len
  set s := ssOf k len
  linarith

theorem bnd_zero (k len : Nat) : bnd k len 0 = 0 := by
  have : rhe ((0 : Int) : Rat) = 0 := rhe_int 0
  simpa [bnd, rn_zero] using this

theorem bnd_nonneg (k len i : Nat) (hk1 : 1 ≤ k) (hk : k ≤ len) (hlen : len < 2 ^ 40) (hi : i ≤ k) :
    0 ≤ bnd k len i :=
  rhe_nonneg (rn_nonneg (iss_bounds hk1 hk hlen hi).2.1)

theorem bnd_mono {k len i : Nat} (hk1 : 1 ≤ k) (hk : k ≤ len) (hlen : len < 2 ^ 40) (hi : i < k) :
    bnd k len i ≤ bnd k len (i + 1) :=
  rhe_mono (rn_iss_mono hk1 hk hlen hi)

theorem bnd_last {k len : Nat} (hk1 : 1 ≤ k) (hk : k ≤ len) (hlen : len < 2 ^ 40) :
    bnd k len k = len := by
  obtain ⟨ha, ha0, ha1⟩ := iss_bounds hk1 hk hlen (le_refl k)
  obtain ⟨h1, h2⟩ := kss_bounds hk1 hk hlen
  obtain ⟨e1, e2⟩ := rn_err_of_nonneg ha
  have hL : (len : Rat) ≤ 2 ^ 40 := by exact_mod_cast hlen.le
  have hL0 : (0 : Rat) ≤ len := by positivity
  unfold bnd
  set t := (k : Rat) * ssOf k len
  have hlo : (((len : Nat) : Int) : Rat) - 1 / 2 < rn t := by push_cast; linarith
  have hhi : rn t < (((len : Nat) : Int) : Rat) + 1 / 2 := by push_cast; linarith
  exact le_antisymm (rhe_le_of_lt hhi) (le_rhe_of_lt hlo)

/-! ### shape of the translated code on in-range arguments -/

theorem ofExact_eq {q : Rat} (h0 : 0 ≤ q) (h : q ≤ 2 ^ 53) : PyV.ofExact q = .float (rn q) := by
  have h1 : rn q ≤ (((2 : Int) ^ 53 : Int) : Rat) :=
    rn_le_int h0 (by norm_num) (by push_cast; exact h)
  have h2 := rn_nonneg h0
  have hh : (2 : Rat) ^ 53 < huge := by
    simp only [huge, Nat.cast_pow, Nat.cast_ofNat]
    exact pow_lt_pow_right₀ (by norm_num) (by norm_num)
  push_cast at h1
  unfold PyV.ofExact
  simp only
  rw [if_neg (by linarith), if_neg (by linarith)]

theorem intToFloat_eq (n : Nat) (h : n < 2 ^ 40) : PyV.intToFloat (n : Int) = .float (n : Rat) := by
  have hn : ((n : Int) : Rat) ≤ 2 ^ 40 := by exact_mod_cast h.le
  have h0 : (0 : Rat) ≤ ((n : Int) : Rat) := by positivity
  unfold PyV.intToFloat
  rw [ofExact_eq h0 (by linarith), rn_int _ (by rw [abs_of_nonneg h0]; linarith)]
  simp

theorem div_float_int (x : Rat) (j : Int) (hj : j ≠ 0) :
    PyV.div (.float x) (.int j) =
      PyV.floatOp (fun x y => if y = 0 then .err .zeroDiv else PyV.ofExact (x / y)) (.float x) (.int j) := by
  unfold PyV.div
  split <;> simp_all

theorem mul_float_int (x : Rat) (j : Int) :
    PyV.mul (.float x) (.int j) = PyV.floatOp (fun x y => PyV.ofExact (x * y)) (.float x) (.int j) := by
  rfl

theorem mul_int_float (i : Int) (y : Rat) :
    PyV.mul (.int i) (.float y) = PyV.floatOp (fun x y => PyV.ofExact (x * y)) (.int i) (.float y) := by
  rfl

theorem floatOp_float_int (f : Rat → Rat → PyV) (x : Rat) (n : Nat) (h : n < 2 ^ 40) :
    PyV.floatOp f (.float x) (.int n) = f x n := by
  simp only [PyV.floatOp, intToFloat_eq n h]

theorem floatOp_int_float (f : Rat → Rat → PyV) (n : Nat) (y : Rat) (h : n < 2 ^ 40) :
    PyV.floatOp f (.int n) (.float y) = f n y := by
  simp only [PyV.floatOp, intToFloat_eq n h]

theorem split_size_eq {k len : Nat} (hk1 : 1 ≤ k) (hk : k ≤ len) (hlen : len < 2 ^ 40) :
    Gen.split_table_split_size (.int k) (.int len) = .float (ssOf k len) := by
  obtain ⟨hu1, hu2, hu3⟩ := rn_inv_bounds hk1 (lt_of_le_of_lt hk hlen)
  have hk0 : (k : Int) ≠ 0 := by omega
  have hkq : (k : Rat) ≠ 0 := by positivity
  unfold Gen.split_table_split_size
  rw [div_float_int _ _ hk0, floatOp_float_int _ _ _ (lt_of_le_of_lt hk hlen)]
  simp only [hkq, if_false]
  have hinv0 : (0 : Rat) ≤ 1 / (k : Rat) := by positivity
  have hK1 : (1 : Rat) ≤ k := by exact_mod_cast hk1
  have hinv1 : (1 : Rat) / (k : Rat) ≤ 2 ^ 53 := by
    have : (1 : Rat) / k ≤ 1 := by rw [div_le_iff₀ (by linarith)]; linarith
    linarith
  have hL : (len : Rat) ≤ 2 ^ 40 := by exact_mod_cast hlen.le
  have hL0 : (0 : Rat) ≤ len := by positivity
  have hu0 : 0 ≤ rn (1 / (k : Rat)) := rn_nonneg hinv0
  rw [show (1 : Rat) / 1 / (k : Rat) = 1 / k by norm_num, ofExact_eq hinv0 hinv1, mul_float_int,
    floatOp_float_int _ _ _ hlen]
  have hp : rn (1 / (k : Rat)) * len ≤ 2 ^ 53 := by
    have := mul_le_mul_of_nonneg_right hu3 hL0
    linarith
  rw [ofExact_eq (mul_nonneg hu0 hL0) hp]
  rfl

theorem split_lo_eq {k len i : Nat} (hk1 : 1 ≤ k) (hk : k ≤ len) (hlen : len < 2 ^ 40) (hi : i ≤ k) :
    (Gen.split_table_lo (.int i) (.float (ssOf k len))).toIntD = bnd k len i := by
  obtain ⟨-, h0, h1⟩ := iss_bounds hk1 hk hlen hi
  unfold Gen.split_table_lo
  rw [mul_int_float, floatOp_int_float _ _ _ (by omega), ofExact_eq h0 (by linarith)]
  rfl

theorem split_hi_eq {k len i : Nat} (hk1 : 1 ≤ k) (hk : k ≤ len) (hlen : len < 2 ^ 40) (hi : i < k) :
    (Gen.split_table_hi (.int i) (.float (ssOf k len))).toIntD = bnd k len (i + 1) := by
  rw [← split_lo_eq hk1 hk hlen (Nat.succ_le_of_lt hi)]
  rfl

theorem splitBounds_eq {k len : Nat} (hk1 : 1 ≤ k) (hk : k ≤ len) (hlen : len < 2 ^ 40) :
    splitBounds len k = (List.range k).map (fun i => (bnd k len i, bnd k len (i + 1))) := by
  unfold splitBounds
  simp only [split_size_eq hk1 hk hlen]
  apply List.map_congr_left
  intro i hi
  have hi' : i < k := List.mem_range.mp hi
  rw [split_lo_eq hk1 hk hlen hi'.le, split_hi_eq hk1 hk hlen hi']

/-! ### slices along a monotone sequence of cut points -/

theorem pySlice_nat {α : Type} (l : List α) (a b : Nat) :
    pySlice l (a : Int) (b : Int) = (l.drop a).take (b - a) := by
  have ha : ¬ ((a : Int) < 0) := by omega
  have hb : ¬ ((b : Int) < 0) := by omega
  simp only [pySlice, ha, hb, if_false, Int.toNat_natCast]

theorem slices_flatten {α : Type} (l : List α) (c : Nat → Nat) (k : Nat) (h0 : c 0 = 0)
    (hmono : ∀ i, i < k → c i ≤ c (i + 1)) :
    ((List.range k).map (fun i => (l.drop (c i)).take (c (i + 1) - c i))).flatten = l.take (c k) := by
  induction k with
  | zero => simp [h0]
  | succ n ih =>
    have hstep := hmono n (Nat.lt_succ_self n)
    rw [List.range_succ, List.map_append, List.flatten_append,
      ih (fun i hi => hmono i (Nat.lt_succ_of_lt hi))]
    simp only [List.map_cons, List.map_nil, List.flatten_cons, List.flatten_nil, List.append_nil]
    have : c (n + 1) = c n + (c (n + 1) - c n) := by omega
    conv_rhs => rw [this, List.take_add]

/-! ### the main statements -/

theorem splitTable_length {α : Type} (table : List α) (k : Nat) : (splitTable table k).length = k := by
  simp [splitTable, splitBounds]

/-- for 1 ≤ k ≤ len < 2^40 the k slices are consecutive and cover the table -/
theorem splitTable_flatten {α : Type} (table : List α) (k : Nat) (hk1 : 1 ≤ k) (hk : k ≤ table.length)
    (hlen : table.length < 2 ^ 40) : (splitTable table k).flatten = table := by
  set len := table.length with hlendef
  let c : Nat → Nat := fun i => (bnd k len i).toNat
  have hc : ∀ i, i ≤ k → bnd k len i = (c i : Int) := fun i hi =>
    (Int.toNat_of_nonneg (bnd_nonneg k len i hk1 hk hlen hi)).symm
  have hmono : ∀ i, i < k → c i ≤ c (i + 1) := fun i hi =>
    Int.toNat_le_toNat (bnd_mono hk1 hk hlen hi)
  have h0 : c 0 = 0 := by simp [c, bnd_zero]
  have hlast : c k = len := by simp [c, bnd_last hk1 hk hlen]
  have e : splitTable table k
      = (List.range k).map (fun i => (table.drop (c i)).take (c (i + 1) - c i)) := by
    unfold splitTable
    rw [← hlendef, splitBounds_eq hk1 hk hlen, List.map_map]
    apply List.map_congr_left
    intro i hi
    have hi' : i < k := List.mem_range.mp hi
    simp only [Function.comp_apply, hc i hi'.le, hc (i + 1) hi', pySlice_nat]
  rw [e, slices_flatten table c k h0 hmono, hlast, hlendef, List.take_length]

/-- whatever n_jobs, the chunks the entry points process concatenate to the whole table -/
theorem chunksFor_flatten {α : Type} (table : List α) (nJobs cpu : Int) (hlen : table.length < 2 ^ 40) :
    (chunksFor table nJobs cpu).flatten = table := by
  unfold chunksFor
  simp only
  split
  · simp
  · rename_i h
    apply splitTable_flatten table _ _ _ hlen <;> omega

/-- and there is exactly one chunk (the table itself) when at most one job results -/
theorem chunksFor_single {α : Type} (table : List α) (nJobs cpu : Int)
    (h : min (numProcesses nJobs cpu) table.length ≤ 1) : chunksFor table nJobs cpu = [table] := by
  unfold chunksFor
  simp only [h, if_true]

end SSJ

/-
  SSJ.Proofs.OrderingPerm — the global token order is a function of the MULTISET of token lists, and what follows
  for `Size/Prefix/Position/SuffixFilter._filter_tables_split` and `filter_tables` when the rows of the tables are
  permuted.

  1. `genTokenOrdering_perm`: permuting the token lists does not change `genTokenOrdering` (frequency, ties
     alphabetical: sorting a duplicate-free association list by its keys has a unique result).
  2. emission of a pair of rows by each of the four `_filter_tables_split` is a condition on the two rows, the
     chunk's token order and (position filter) the smallest / largest left record — all invariant under permutations
     of the left array and of the chunk (`emits_perm`).
  3. the per-chunk output is duplicate-free when the keys are (`filterTablesSplit_nodup`), hence permuted inputs give
     permuted outputs (`filterTablesSplit_perm`).
  4. entry level: `filterTables_perm_of_chunks` (chunks pairwise permuted), instances `filterTables_perm_left`
     (left rows permuted, any `n_jobs`) and `filterTables_perm_single` (both tables permuted, one chunk);
     `filterTables_size_perm` (SizeFilter: both tables, any chunking).
  5. `Cex`: with two chunks, moving right rows across chunks changes the superfluous candidates of PrefixFilter.
-/
import SSJ.Proofs.EntryPresentation
import SSJ.Proofs.EntryFilters
import SSJ.Proofs.SuffixBag

namespace SSJ
namespace OrderingPerm
open SSJ.Props SSJ.EntryFilters

/-! ## 1. the token order -/

/-- the global token order does not depend on the order of the token lists -/
theorem genTokenOrdering_perm {ls ls' : List (List Tok)} (h : ls'.Perm ls) :
    genTokenOrdering ls' = genTokenOrdering ls :=
  genTokenOrdering_perm_invariant _ _ h.flatten

theorem tableOrdering_perm (tok : String → List Tok) (la ra : Nat) {L L' R R' : List Row}
    (hL : L'.Perm L) (hR : R'.Perm R) :
    tableOrdering tok la ra L' R' = tableOrdering tok la ra L R := by
  unfold tableOrdering
  exact genTokenOrdering_perm ((hL.map _).append (hR.map _))

/-! ## 2. smallest / largest record -/

theorem minLength_perm {s s' : List Nat} (h : s'.Perm s) : minLength s' = minLength s := by
  unfold minLength
  refine h.foldl_eq' ?_ _
  intro x _ y _ z
  split_ifs <;> omega

theorem maxLength_perm {s s' : List Nat} (h : s'.Perm s) : maxLength s' = maxLength s := by
  unfold maxLength
  refine h.foldl_eq' ?_ _
  intro x _ y _ z
  split_ifs <;> omega

/-! ## 3. `positionFindCandidates`: the entry of one candidate -/

theorem posSteps_nil (xp : List Nat) : posSteps [] xp = [] := by
  unfold posSteps
  rw [List.flatMap_eq_nil_iff]
  intro p _
  rfl

/-- the emptiness test of `find_candidates` is redundant -/
theorem positionFindCandidates_eq' (f : FilterObj) (x : List Nat) (idx : PosIndex) :
    positionFindCandidates f x idx =
      (posSteps idx.index (pyTake x (f.cfg.prefixLen x.length))).foldl
        (posStep' f x.length (max (f.cfg.lower x.length) idx.minLength)
          (min (f.cfg.upper x.length) idx.maxLength) idx.sizeCache) [] := by
  rw [positionFindCandidates_eq]
  split
  · rename_i h
    rw [List.isEmpty_iff.1 h, posSteps_nil]
    rfl
  · rfl

/-- the steps of a candidate with its id erased -/
def scanSteps (yp : List Nat) (k : Nat) (xs : List Nat) : List (Nat × Nat) :=
  (xs.zipIdx k).flatMap (fun p => (yp.zipIdx.filter (fun q => decide (q.1 = p.1))).map (fun q => (q.2, p.2)))

/-- `posUpd` for a candidate of size `m` -/
def scanUpd (f : FilterObj) (n : Nat) (lo hi : Int) (m : Nat) (s : Nat × Nat) (cur? : Option Int) : Option Int :=
  posUpd f n lo hi [m] (0, s.1, s.2) cur?

theorem posUpd_eq_scanUpd (f : FilterObj) (n : Nat) (lo hi : Int) (sizes : List Nat) (c m j i : Nat)
    (hm : sizes.getD c 0 = m) (v : Option Int) :
    posUpd f n lo hi sizes (c, j, i) v = scanUpd f n lo hi m (j, i) v := by
  unfold scanUpd posUpd
  simp only [hm]
  rfl

theorem candSteps_eq_map (c : Nat) (yp : List Nat) (k : Nat) (xs : List Nat) :
    candSteps c yp k xs = (scanSteps yp k xs).map (fun s => (c, s.1, s.2)) := by
  unfold candSteps scanSteps
  rw [List.map_flatMap]
  congr 1
  funext p
  rw [List.map_map]
  rfl

/-- the final entry of a candidate with rank list `y` when the probe has rank list `x`; `mn`, `mx` are the index's
    smallest / largest record size -/
def candVal (f : FilterObj) (x y : List Nat) (mn mx : Int) : Option Int :=
  (scanSteps (pyTake y (f.cfg.prefixLen y.length)) 0 (pyTake x (f.cfg.prefixLen x.length))).foldl
    (fun v s => scanUpd f x.length (max (f.cfg.lower x.length) mn) (min (f.cfg.upper x.length) mx) y.length s v) none

theorem get?_positionFindCandidates (f : FilterObj) (ordToks : List (List Nat)) (x : List Nat) (ce ct : Bool)
    (c : Nat) (y : List Nat) (hy : ordToks[c]? = some y) :
    Dict.get? (positionFindCandidates f x (PosIndex.build f.cfg ordToks ce ct)) c =
      candVal f x y (minLength (ordToks.map List.length)) (maxLength (ordToks.map List.length)) := by
  rw [positionFindCandidates_eq',
    Dict.get?_foldl _ (fun s => s.1) _ (posStep'_self f _ _ _ _) (posStep'_other f _ _ _ _)]
  show List.foldl _ _ (List.filter _ (posSteps (posPostings f.cfg ordToks) _)) = _
  rw [posSteps_filter f.cfg ordToks c y hy, Dict.get?_nil, candSteps_eq_map, List.foldl_map]
  unfold candVal
  congr 1
  funext v s
  exact posUpd_eq_scanUpd f _ _ _ _ c y.length s.1 s.2 (sizeCache_getD ordToks c y hy) v

theorem mem_positionFindCandidates_iff (f : FilterObj) (ordToks : List (List Nat)) (x : List Nat) (ce ct : Bool)
    (c : Nat) (v : Int) :
    (c, v) ∈ positionFindCandidates f x (PosIndex.build f.cfg ordToks ce ct) ↔
      ∃ y, ordToks[c]? = some y ∧
        candVal f x y (minLength (ordToks.map List.length)) (maxLength (ordToks.map List.length)) = some v := by
  obtain ⟨hnd, hlt⟩ := positionFindCandidates_keys f ordToks x ce ct
  constructor
  · intro h
    have hc : c < ordToks.length := hlt _ h
    refine ⟨ordToks[c], List.getElem?_eq_getElem hc, ?_⟩
    rw [← get?_positionFindCandidates f ordToks x ce ct c _ (List.getElem?_eq_getElem hc)]
    exact Dict.get?_of_mem _ _ _ hnd h
  · rintro ⟨y, hy, hv⟩
    rw [← get?_positionFindCandidates f ordToks x ce ct c y hy] at hv
    exact Dict.mem_of_get? _ _ _ hv

/-! ## 4. what each filter emits, as a condition on the two rows -/

section Emit
variable (f : FilterObj) (tok : String → List Tok) (lAttr rAttr : Nat) (lt rt : List Row)

/-- emission by the prefix filter: a condition on the two token lists and the chunk's token order -/
def PrefixEmits (f : FilterObj) (ord : List (Tok × Nat)) (a b : List Tok) : Prop :=
  (handleEmpty f = true ∧ b.length = 0 ∧ a.length = 0) ∨
  (¬ (handleEmpty f = true ∧ b.length = 0) ∧
    ∃ t, t ∈ pyTake (orderUsing b ord) (f.cfg.prefixLen (orderUsing b ord).length) ∧
         t ∈ pyTake (orderUsing a ord) (f.cfg.prefixLen (orderUsing a ord).length))

/-- emission by the position filter: additionally the smallest / largest left record size `mn`, `mx` -/
def PositionEmits (f : FilterObj) (ord : List (Tok × Nat)) (mn mx : Int) (a b : List Tok) : Prop :=
  (handleEmpty f = true ∧ b.length = 0 ∧ a.length = 0) ∨
  (¬ (handleEmpty f = true ∧ b.length = 0) ∧
    ∃ v : Int, candVal f (orderUsing b ord) (orderUsing a ord) mn mx = some v ∧ 0 < v)

/-- the record sizes the position index is built over -/
def leftSizes : List Nat := (lOrdToks tok lAttr rAttr lt rt).map List.length

theorem emits_prefix_iff (x y : Row) :
    Emits f tok lAttr rAttr lt rt .prefix x y ↔
      x ∈ lt ∧ y ∈ rt ∧
      PrefixEmits f (tableOrdering tok lAttr rAttr lt rt) (tok (x.cell lAttr).strVal) (tok (y.cell rAttr).strVal) := by
  have key : ∀ c d, c < lt.length → d < rt.length →
      ((c, d) ∈ prefixPairs f tok lAttr rAttr lt rt ↔
        PrefixEmits f (tableOrdering tok lAttr rAttr lt rt) (tok ((lt.getD c []).cell lAttr).strVal)
          (tok ((rt.getD d []).cell rAttr).strVal)) := by
    intro c d hc hd
    unfold prefixPairs
    rw [mem_idPairs]
    by_cases he : handleEmpty f = true ∧ (rowToks tok rAttr rt d).length = 0
    · rw [mem_prefixCands_empty f tok lAttr rAttr lt rt d hd he c]
      unfold PrefixEmits
      constructor
      · rintro ⟨_, _, h⟩; exact Or.inl ⟨he.1, he.2, h⟩
      · rintro (⟨_, _, h⟩ | ⟨h, _⟩)
        · exact ⟨hd, hc, h⟩
        · exact absurd he h
    · rw [mem_prefixCands_nonempty f tok lAttr rAttr lt rt d hd he c]
      unfold PrefixEmits
      constructor
      · rintro ⟨_, _, h⟩; exact Or.inr ⟨he, h⟩
      · rintro (⟨h1, h2, _⟩ | ⟨_, h⟩)
        · exact absurd ⟨h1, h2⟩ he
        · exact ⟨hd, hc, h⟩
  constructor
  · rintro ⟨c, d, hcd, rfl, rfl⟩
    obtain ⟨hc, hd⟩ := prefixPairs_valid f tok lAttr rAttr lt rt c d hcd
    exact ⟨getD_mem' _ _ hc, getD_mem' _ _ hd, (key c d hc hd).1 hcd⟩
  · rintro ⟨hx, hy, h⟩
    obtain ⟨c, hc, rfl⟩ := exists_index lt x hx
    obtain ⟨d, hd, rfl⟩ := exists_index rt y hy
    exact ⟨c, d, (key c d hc hd).2 h, rfl, rfl⟩

theorem emits_position_iff (x y : Row) :
    Emits f tok lAttr rAttr lt rt .position x y ↔
      x ∈ lt ∧ y ∈ rt ∧
      PositionEmits f (tableOrdering tok lAttr rAttr lt rt) (minLength (leftSizes tok lAttr rAttr lt rt))
        (maxLength (leftSizes tok lAttr rAttr lt rt)) (tok (x.cell lAttr).strVal) (tok (y.cell rAttr).strVal) := by
  have key : ∀ c d, c < lt.length → d < rt.length →
      ((c, d) ∈ positionPairs f tok lAttr rAttr lt rt ↔
        PositionEmits f (tableOrdering tok lAttr rAttr lt rt) (minLength (leftSizes tok lAttr rAttr lt rt))
          (maxLength (leftSizes tok lAttr rAttr lt rt)) (tok ((lt.getD c []).cell lAttr).strVal)
          (tok ((rt.getD d []).cell rAttr).strVal)) := by
    intro c d hc hd
    unfold positionPairs
    rw [mem_idPairs]
    by_cases he : handleEmpty f = true ∧ (rowToks tok rAttr rt d).length = 0
    · rw [mem_positionCands_empty f tok lAttr rAttr lt rt d hd he c]
      unfold PositionEmits
      constructor
      · rintro ⟨_, _, h⟩; exact Or.inl ⟨he.1, he.2, h⟩
      · rintro (⟨_, _, h⟩ | ⟨h, _⟩)
        · exact ⟨hd, hc, h⟩
        · exact absurd he h
    · rw [mem_positionCands_nonempty f tok lAttr rAttr lt rt d hd he c]
      unfold PositionEmits
      constructor
      · rintro ⟨_, v, hm, hv⟩
        obtain ⟨yy, hyy, hval⟩ := (mem_positionFindCandidates_iff f _ _ _ _ c v).1 hm
        obtain ⟨_, rfl⟩ := (lOrdToks_getElem? tok lAttr rAttr lt rt c yy).1 hyy
        exact Or.inr ⟨he, v, hval, hv⟩
      · rintro (⟨h1, h2, _⟩ | ⟨_, v, hval, hv⟩)
        · exact absurd ⟨h1, h2⟩ he
        · exact ⟨hd, v, (mem_positionFindCandidates_iff f _ _ _ _ c v).2
            ⟨_, (lOrdToks_getElem? tok lAttr rAttr lt rt c _).2 ⟨hc, rfl⟩, hval⟩, hv⟩
  constructor
  · rintro ⟨c, d, hcd, rfl, rfl⟩
    obtain ⟨hc, hd⟩ := positionPairs_valid f tok lAttr rAttr lt rt c d hcd
    exact ⟨getD_mem' _ _ hc, getD_mem' _ _ hd, (key c d hc hd).1 hcd⟩
  · rintro ⟨hx, hy, h⟩
    obtain ⟨c, hc, rfl⟩ := exists_index lt x hx
    obtain ⟨d, hd, rfl⟩ := exists_index rt y hy
    exact ⟨c, d, (key c d hc hd).2 h, rfl, rfl⟩

end Emit

/-! ## 5. emission is invariant under permutations of the left array and of the chunk -/

section Perm
variable (f : FilterObj) (tok : String → List Tok) (lAttr rAttr : Nat)

theorem leftSizes_perm {L L' R R' : List Row} (hL : L'.Perm L) (hR : R'.Perm R) :
    (leftSizes tok lAttr rAttr L' R').Perm (leftSizes tok lAttr rAttr L R) := by
  unfold leftSizes lOrdToks
  rw [tableOrdering_perm tok lAttr rAttr hL hR]
  exact (hL.map _).map _

theorem emits_perm {L L' R R' : List Row} (hL : L'.Perm L) (hR : R'.Perm R) (k : FilterKind) (x y : Row) :
    Emits f tok lAttr rAttr L' R' k x y ↔ Emits f tok lAttr rAttr L R k x y := by
  cases k
  · rw [emits_size_iff, emits_size_iff, hL.mem_iff, hR.mem_iff]
  · rw [emits_prefix_iff, emits_prefix_iff, hL.mem_iff, hR.mem_iff, tableOrdering_perm tok lAttr rAttr hL hR]
  · rw [emits_position_iff, emits_position_iff, hL.mem_iff, hR.mem_iff, tableOrdering_perm tok lAttr rAttr hL hR,
      minLength_perm (leftSizes_perm tok lAttr rAttr hL hR), maxLength_perm (leftSizes_perm tok lAttr rAttr hL hR)]
  · show (x ∈ L' ∧ y ∈ R' ∧ _) ↔ (x ∈ L ∧ y ∈ R ∧ _)
    rw [hL.mem_iff, hR.mem_iff, tableOrdering_perm tok lAttr rAttr hL hR]

/-! ## 6. the per-chunk output: duplicate-free, hence permuted -/

theorem index_inj {L : List Row} (g : Row → Cell) (h : (L.map g).Nodup) (i j : Nat) (hi : i < L.length)
    (hj : j < L.length) (e : g (L.getD i []) = g (L.getD j [])) : i = j := by
  rw [List.getD_eq_getElem _ _ hi, List.getD_eq_getElem _ _ hj] at e
  have hi' : i < (L.map g).length := by rw [List.length_map]; exact hi
  have hj' : j < (L.map g).length := by rw [List.length_map]; exact hj
  have e' : (L.map g)[i] = (L.map g)[j] := by rw [List.getElem_map, List.getElem_map]; exact e
  exact (h.getElem_inj_iff).1 e'

theorem pairRow_nodup (o : OutCfg) (L R : List Row) (pairs : List (Nat × Nat)) (hp : pairs.Nodup)
    (hv : ∀ p ∈ pairs, p.1 < L.length ∧ p.2 < R.length)
    (hkl : (L.map (fun x => x.cell o.lKey)).Nodup) (hkr : (R.map (fun x => x.cell o.rKey)).Nodup) :
    (pairs.map (pairRow o L R)).Nodup := by
  refine List.Nodup.map_on ?_ hp
  intro p hp q hq e
  have e0 : (pairRow o L R p).cell 0 = (pairRow o L R q).cell 0 := by rw [e]
  have e1 : (pairRow o L R p).cell 1 = (pairRow o L R q).cell 1 := by rw [e]
  unfold pairRow at e0 e1
  rw [outputRow_cell_zero, outputRow_cell_zero] at e0
  rw [outputRow_cell_one, outputRow_cell_one] at e1
  exact Prod.ext (index_inj _ hkl _ _ (hv p hp).1 (hv q hq).1 e0) (index_inj _ hkr _ _ (hv p hp).2 (hv q hq).2 e1)

/-- the rows one chunk contributes are pairwise different (size / prefix / position filter), when the key cells of
    the left array and of the chunk are -/
theorem filterTablesSplit_nodup (k : FilterKind) (hk : k ≠ .suffix) (o : OutCfg) (L R : List Row)
    (hkl : (L.map (fun x => x.cell o.lKey)).Nodup) (hkr : (R.map (fun x => x.cell o.rKey)).Nodup) :
    (filterTablesSplit k f tok o lAttr rAttr L R).Nodup := by
  cases k
  · show (sizeFilterTablesSplit f tok o lAttr rAttr L R).Nodup
    rw [sizeFilterTablesSplit_eq]
    exact pairRow_nodup o L R _ (sizePairs_nodup f tok lAttr rAttr L R)
      (fun p hp => sizePairs_valid f tok lAttr rAttr L R p.1 p.2 hp) hkl hkr
  · show (prefixFilterTablesSplit f tok o lAttr rAttr L R).Nodup
    rw [prefixFilterTablesSplit_eq]
    exact pairRow_nodup o L R _ (prefixPairs_nodup f tok lAttr rAttr L R)
      (fun p hp => prefixPairs_valid f tok lAttr rAttr L R p.1 p.2 hp) hkl hkr
  · show (positionFilterTablesSplit f tok o lAttr rAttr L R).Nodup
    rw [positionFilterTablesSplit_eq]
    exact pairRow_nodup o L R _ (positionPairs_nodup f tok lAttr rAttr L R)
      (fun p hp => positionPairs_valid f tok lAttr rAttr L R p.1 p.2 hp) hkl hkr
  · exact absurd rfl hk

/-- SuffixFilter: a nested loop over the two arrays, so permuted arrays give permuted output directly -/
theorem suffixFilterTablesSplit_perm (o : OutCfg) {L L' R R' : List Row} (hL : L'.Perm L) (hR : R'.Perm R) :
    (suffixFilterTablesSplit f tok o lAttr rAttr L' R').Perm (suffixFilterTablesSplit f tok o lAttr rAttr L R) := by
  rw [suffixFilterTablesSplit_eq, suffixFilterTablesSplit_eq,
    genTokenOrdering_perm ((hL.map (fun row => tok (row.cell lAttr).strVal)).append
      (hR.map (fun row => tok (row.cell rAttr).strVal)))]
  exact List.Perm.flatMap hL (fun x _ => hR.flatMap_right _)

/-- PER CHUNK: permuting the left array and the chunk permutes the rows `_filter_tables_split` returns -/
theorem filterTablesSplit_perm (k : FilterKind) (o : OutCfg) {L L' R R' : List Row} (hL : L'.Perm L) (hR : R'.Perm R)
    (hkl : (L.map (fun x => x.cell o.lKey)).Nodup) (hkr : (R.map (fun x => x.cell o.rKey)).Nodup) :
    (filterTablesSplit k f tok o lAttr rAttr L' R').Perm (filterTablesSplit k f tok o lAttr rAttr L R) := by
  by_cases hk : k = .suffix
  · subst hk
    exact suffixFilterTablesSplit_perm f tok lAttr rAttr o hL hR
  · have hkl' : (L'.map (fun x => x.cell o.lKey)).Nodup := ((hL.map _).nodup_iff).2 hkl
    have hkr' : (R'.map (fun x => x.cell o.rKey)).Nodup := ((hR.map _).nodup_iff).2 hkr
    rw [List.perm_ext_iff_of_nodup (filterTablesSplit_nodup f tok lAttr rAttr k hk o L' R' hkl' hkr')
      (filterTablesSplit_nodup f tok lAttr rAttr k hk o L R hkl hkr)]
    intro p
    rw [mem_filterTablesSplit_iff, mem_filterTablesSplit_iff]
    simp only [emits_perm f tok lAttr rAttr hL hR]

end Perm

/-! ## 7. entry level -/

theorem chunksFor_sublist {α : Type} (table : List α) (nJobs cpu : Int) :
    ∀ ch ∈ chunksFor table nJobs cpu, ch.Sublist table := by
  intro ch hch
  unfold chunksFor at hch
  simp only at hch
  split at hch
  · rw [List.mem_singleton] at hch
    subst hch
    exact List.Sublist.refl _
  · unfold splitTable at hch
    obtain ⟨b, _, rfl⟩ := List.mem_map.1 hch
    unfold pySlice
    exact (List.take_sublist _ _).trans (List.drop_sublist _ _)

theorem lArr_perm (a : TableArgs) (l l' : Frame) (hc : l'.columns = l.columns) (hp : l'.rows.Perm l.rows) :
    (RT.lArr a l').Perm (RT.lArr a l) := by
  have e : l'.colIdx = l.colIdx := funext fun c => by unfold Frame.colIdx; rw [hc]
  rw [RT.lArr_eq, RT.lArr_eq]
  unfold RT.lRow
  rw [e]
  exact (hp.filter _).map _

theorem rArr_perm (a : TableArgs) (r r' : Frame) (hc : r'.columns = r.columns) (hp : r'.rows.Perm r.rows) :
    (RT.rArr a r').Perm (RT.rArr a r) := by
  have e : r'.colIdx = r.colIdx := funext fun c => by unfold Frame.colIdx; rw [hc]
  rw [RT.rArr_eq, RT.rArr_eq]
  unfold RT.rRow
  rw [e]
  exact (hp.filter _).map _

section Entry
variable (k : FilterKind) (f : FilterObj) (a : TableArgs) (t : TokObj) (toks : TokFn)

/-- ENTRY LEVEL, core: rows of both tables permuted; if the rows the chunks contribute are permuted, both calls
    return, with the same columns and permuted value rows -/
theorem filterTables_perm_core (cpu cpu' : Int) (l r l' r' : Frame)
    (hv : validateTablesAttrs a = .ok (l, r)) (hk : validateOutAndKeys a l r = .ok ())
    (hb : BodyOK a l r false) (hp : EP.RowsPermuted l r l' r')
    (hpres : ((chunksFor (RT.rArr a r') a.nJobs cpu').flatMap (fun ch =>
        work k f t toks (RT.out a) (RT.lAttrIdx a) (RT.rAttrIdx a) (RT.lArr a l') ch)).Perm
      ((chunksFor (RT.rArr a r) a.nJobs cpu).flatMap (fun ch =>
        work k f t toks (RT.out a) (RT.lAttrIdx a) (RT.rAttrIdx a) (RT.lArr a l) ch))) :
    ∃ fr fr', filterTables k f a t toks cpu = .ok fr ∧
      filterTables k f (a.withTables l' r') t toks cpu' = .ok fr' ∧
      fr'.columns = fr.columns ∧
      (fr'.rows.map (fun row => row.drop 1)).Perm (fr.rows.map (fun row => row.drop 1)) := by
  obtain ⟨hv', hk'⟩ := EP.validateTables_perm a l r l' r' hv hk hp
  have hb' := hp.bodyOK a false hb
  obtain ⟨fr, hfr, hrows⟩ := runTables_ok a l r f.allowMissing false cpu (work k f t toks)
    (work_width k f a t toks l) hb.lstr hb.rstr hb.noClash
  obtain ⟨fr', hfr', hrows'⟩ := runTables_ok a l' r' f.allowMissing false cpu' (work k f t toks)
    (work_width k f a t toks l') hb'.lstr hb'.rstr hb.noClash
  have hcol := RT.columns a l r _ false cpu _ fr hfr
  have hcol' := RT.columns a l' r' _ false cpu' _ fr' hfr'
  refine ⟨fr, fr', ?_, ?_, hcol'.trans hcol.symm, ?_⟩
  · rw [filterTables_eq k f a t toks cpu l r hv hk]; exact hfr
  · rw [filterTables_eq k f _ t toks cpu' l' r' hv' hk', EP.runTables_withTables]; exact hfr'
  · rw [hrows, hrows']
    refine List.Perm.append hpres ?_
    cases f.allowMissing
    · exact List.Perm.refl _
    · exact (EP.missingRows_perm a l r l' r' false hp).symm

/-- ENTRY LEVEL, general form: rows of both tables permuted, and the chunks the two calls cut the right array into
    are pairwise permutations of each other -/
theorem filterTables_perm_of_chunks (cpu cpu' : Int) (l r l' r' : Frame)
    (hv : validateTablesAttrs a = .ok (l, r)) (hk : validateOutAndKeys a l r = .ok ())
    (hb : BodyOK a l r false) (hp : EP.RowsPermuted l r l' r')
    (hch : List.Forall₂ List.Perm (chunksFor (RT.rArr a r') a.nJobs cpu') (chunksFor (RT.rArr a r) a.nJobs cpu)) :
    ∃ fr fr', filterTables k f a t toks cpu = .ok fr ∧
      filterTables k f (a.withTables l' r') t toks cpu' = .ok fr' ∧
      fr'.columns = fr.columns ∧
      (fr'.rows.map (fun row => row.drop 1)).Perm (fr.rows.map (fun row => row.drop 1)) := by
  obtain ⟨hkl, hkr⟩ := keys_of_validateOutAndKeys a l r hk
  refine filterTables_perm_core k f a t toks cpu cpu' l r l' r' hv hk hb hp ?_
  rw [List.flatMap_def, List.flatMap_def]
  refine List.Perm.flatten_congr ?_
  rw [List.forall₂_map_right_iff, List.forall₂_map_left_iff]
  refine EP.forall₂_imp_mem (List.Forall₂.flip hch) ?_ |>.flip
  intro ch hch' ch' hperm
  have hsub := chunksFor_sublist (RT.rArr a r) a.nJobs cpu ch hch'
  exact filterTablesSplit_perm f (toks t.returnSet) (RT.lAttrIdx a) (RT.rAttrIdx a) k (RT.out a)
    (lArr_perm a l l' hp.lCols hp.lRows) hperm (RT.lArr_keys_nodup a l hkl)
    ((RT.rArr_keys_nodup a r hkr).sublist (hsub.map _))

/-- LEFT rows permuted, ANY `n_jobs` -/
theorem filterTables_perm_left (cpu : Int) (l r l' : Frame)
    (hv : validateTablesAttrs a = .ok (l, r)) (hk : validateOutAndKeys a l r = .ok ())
    (hb : BodyOK a l r false) (hc : l'.columns = l.columns) (hd : l'.dtypes = l.dtypes) (hp : l'.rows.Perm l.rows) :
    ∃ fr fr', filterTables k f a t toks cpu = .ok fr ∧
      filterTables k f (a.withTables l' r) t toks cpu = .ok fr' ∧
      fr'.columns = fr.columns ∧
      (fr'.rows.map (fun row => row.drop 1)).Perm (fr.rows.map (fun row => row.drop 1)) :=
  filterTables_perm_of_chunks k f a t toks cpu cpu l r l' r hv hk hb ⟨hc, hd, hp, rfl, rfl, List.Perm.refl _⟩
    (List.forall₂_same.2 (fun _ _ => List.Perm.refl _))

/-- BOTH tables permuted, ONE chunk in both calls -/
theorem filterTables_perm_single (cpu cpu' : Int) (l r l' r' : Frame)
    (hv : validateTablesAttrs a = .ok (l, r)) (hk : validateOutAndKeys a l r = .ok ())
    (hb : BodyOK a l r false) (hp : EP.RowsPermuted l r l' r')
    (h1 : min (numProcesses a.nJobs cpu) (RT.rArr a r).length ≤ 1)
    (h1' : min (numProcesses a.nJobs cpu') (RT.rArr a r).length ≤ 1) :
    ∃ fr fr', filterTables k f a t toks cpu = .ok fr ∧
      filterTables k f (a.withTables l' r') t toks cpu' = .ok fr' ∧
      fr'.columns = fr.columns ∧
      (fr'.rows.map (fun row => row.drop 1)).Perm (fr.rows.map (fun row => row.drop 1)) := by
  have hr := rArr_perm a r r' hp.rCols hp.rRows
  refine filterTables_perm_of_chunks k f a t toks cpu cpu' l r l' r' hv hk hb hp ?_
  rw [chunksFor_single _ _ _ h1, chunksFor_single _ _ _ (by rw [hr.length_eq]; exact h1')]
  exact List.Forall₂.cons hr List.Forall₂.nil

/-! ### SizeFilter: no token order, so the chunking is irrelevant altogether -/

theorem sizeFilterTablesSplit_flatMap (o : OutCfg) (la ra : Nat) (tok : String → List Tok) (L R : List Row) :
    sizeFilterTablesSplit f tok o la ra L R =
      R.flatMap (fun rRow => sizeFilterTablesSplit f tok o la ra L [rRow]) := by
  unfold sizeFilterTablesSplit
  simp only [List.flatMap_cons, List.flatMap_nil, List.append_nil]

theorem sizeFilterTablesSplit_chunks (o : OutCfg) (la ra : Nat) (tok : String → List Tok) (L : List Row)
    (chunks : List (List Row)) :
    chunks.flatMap (fun ch => sizeFilterTablesSplit f tok o la ra L ch) =
      sizeFilterTablesSplit f tok o la ra L chunks.flatten := by
  rw [sizeFilterTablesSplit_flatMap f o la ra tok L chunks.flatten, ← List.flatMap_id, List.flatMap_assoc]
  congr 1
  funext ch
  exact sizeFilterTablesSplit_flatMap f o la ra tok L ch

/-- SizeFilter.filter_tables: BOTH tables permuted, ANY `n_jobs`, any two cpu counts -/
theorem filterTables_size_perm (cpu cpu' : Int) (l r l' r' : Frame)
    (hv : validateTablesAttrs a = .ok (l, r)) (hk : validateOutAndKeys a l r = .ok ())
    (hb : BodyOK a l r false) (hp : EP.RowsPermuted l r l' r') (hrows : r.rows.length < 2 ^ 40) :
    ∃ fr fr', filterTables .size f a t toks cpu = .ok fr ∧
      filterTables .size f (a.withTables l' r') t toks cpu' = .ok fr' ∧
      fr'.columns = fr.columns ∧
      (fr'.rows.map (fun row => row.drop 1)).Perm (fr.rows.map (fun row => row.drop 1)) := by
  obtain ⟨hkl, hkr⟩ := keys_of_validateOutAndKeys a l r hk
  have hr := rArr_perm a r r' hp.rCols hp.rRows
  have hlen : (RT.rArr a r).length < 2 ^ 40 := lt_of_le_of_lt (EntryED.rArr_length_le _ _) hrows
  have hlen' : (RT.rArr a r').length < 2 ^ 40 := by rw [hr.length_eq]; exact hlen
  refine filterTables_perm_core .size f a t toks cpu cpu' l r l' r' hv hk hb hp ?_
  show (List.flatMap (fun ch => sizeFilterTablesSplit f (toks t.returnSet) _ _ _ _ ch) _).Perm
    (List.flatMap (fun ch => sizeFilterTablesSplit f (toks t.returnSet) _ _ _ _ ch) _)
  rw [sizeFilterTablesSplit_chunks, sizeFilterTablesSplit_chunks, chunksFor_flatten _ _ _ hlen,
    chunksFor_flatten _ _ _ hlen']
  exact filterTablesSplit_perm f (toks t.returnSet) (RT.lAttrIdx a) (RT.rAttrIdx a) .size (RT.out a)
    (lArr_perm a l l' hp.lCols hp.lRows) hr (RT.lArr_keys_nodup a l hkl) (RT.rArr_keys_nodup a r hkr)

end Entry


/-! ## 8. several chunks: a kernel-checked counterexample (PrefixFilter, `n_jobs = 2`)

  (the sorts of the model are defined by well-founded recursion and do not reduce in the kernel: the two token orders
  are evaluated by rewriting, everything else by `decide`) -/

namespace Cex

def tk : TokFn := fun _ s =>
  if s = "a b" then ["a", "b"] else if s = "a c" then ["a", "c"] else if s = "b c" then ["b", "c"]
  else if s = "x" then ["x"] else if s = "y" then ["y"] else []

def L : Frame := { columns := ["id", "s"], dtypes := ["int64", "object"], index := [.int 0],
                   rows := [[.int 1, .str "a b"]] }
def R : Frame := { columns := ["rid", "u"], dtypes := ["int64", "object"], index := [.int 0, .int 1, .int 2, .int 3],
                   rows := [[.int 7, .str "a c"], [.int 8, .str "b c"], [.int 9, .str "x"], [.int 10, .str "y"]] }
def R' : Frame := { R with rows := [[.int 7, .str "a c"], [.int 9, .str "x"], [.int 8, .str "b c"], [.int 10, .str "y"]] }
def A : TableArgs :=
  { ltable := some L, rtable := some R, lKey := "id", rKey := "rid", lAttr := "s", rAttr := "u", nJobs := 2 }
def F : FilterObj := { cfg := { measure := .jaccard, threshold := .float (4 / 5) } }
def T : TokObj := { returnSet := true }

theorem valid : validateTablesAttrs A = .ok (L, R) :=
  (validateTablesAttrs_ok_iff _ L R).2 ⟨rfl, rfl, by decide, by decide, by decide, by decide, by decide, by decide⟩
theorem keys : validateOutAndKeys A L R = .ok () := by decide
theorem valid' : validateTablesAttrs (A.withTables L R') = .ok (L, R') :=
  (validateTablesAttrs_ok_iff _ L R').2 ⟨rfl, rfl, by decide, by decide, by decide, by decide, by decide, by decide⟩
theorem keys' : validateOutAndKeys (A.withTables L R') L R' = .ok () := by decide

theorem chunks : chunksFor (RT.rArr A R) A.nJobs 4 =
    [[[.int 7, .str "a c"], [.int 8, .str "b c"]], [[.int 9, .str "x"], [.int 10, .str "y"]]] := by decide +kernel
theorem chunks' : chunksFor (RT.rArr A R') A.nJobs 4 =
    [[[.int 7, .str "a c"], [.int 9, .str "x"]], [[.int 8, .str "b c"], [.int 10, .str "y"]]] := by decide +kernel

theorem ord1 : genTokenOrdering [["a", "b"], ["a", "c"], ["b", "c"]] = [("a", 1), ("b", 2), ("c", 3)] := by
  unfold genTokenOrdering
  rw [show tokenFreq [["a", "b"], ["a", "c"], ["b", "c"]] = [("a", 2), ("b", 2), ("c", 2)] by decide +kernel,
    SuffixBag.rankTokens_eq_of_sorted _ (by decide +kernel) (by decide +kernel)]
  decide +kernel

theorem ord2 : genTokenOrdering [["a", "b"], ["a", "c"], ["x"]] = [("b", 1), ("c", 2), ("x", 3), ("a", 4)] := by
  unfold genTokenOrdering
  rw [show tokenFreq [["a", "b"], ["a", "c"], ["x"]] = [("a", 2), ("b", 1), ("c", 1), ("x", 1)] by decide +kernel]
  unfold rankTokens
  simp only
  rw [List.mergeSort_of_pairwise (l := [("a", 2), ("b", 1), ("c", 1), ("x", 1)]) (by decide +kernel)]
  have : [(("a", 2) : Tok × Nat), ("b", 1), ("c", 1), ("x", 1)].mergeSort (fun a b => decide (a.2 ≤ b.2)) =
      [("b", 1), ("c", 1), ("x", 1), ("a", 2)] := by
    simp [List.mergeSort, List.MergeSort.Internal.splitInTwo]
  rw [this]
  decide +kernel


def ls : Row := [.int 1, .str "a b"]
def rs : Row := [.int 7, .str "a c"]

theorem lArr_eq : RT.lArr A L = [[.int 1, .str "a b"]] := by decide +kernel

theorem o1_ab : orderUsing ["a", "b"] [("a", 1), ("b", 2), ("c", 3)] = [1, 2] :=
  SuffixBag.orderUsing_eq_of_sorted _ _ _ (by decide +kernel) (by decide +kernel)
theorem o1_ac : orderUsing ["a", "c"] [("a", 1), ("b", 2), ("c", 3)] = [1, 3] :=
  SuffixBag.orderUsing_eq_of_sorted _ _ _ (by decide +kernel) (by decide +kernel)
theorem o2_ab : orderUsing ["a", "b"] [("b", 1), ("c", 2), ("x", 3), ("a", 4)] = [1, 4] := by
  unfold orderUsing
  rw [show (["a", "b"] : List Tok).filterMap (fun t => Dict.get? [("b", 1), ("c", 2), ("x", 3), ("a", 4)] t) = [4, 1] by
    decide +kernel]
  simp [sortNat, List.mergeSort, List.MergeSort.Internal.splitInTwo]
theorem o2_ac : orderUsing ["a", "c"] [("b", 1), ("c", 2), ("x", 3), ("a", 4)] = [2, 4] := by
  unfold orderUsing
  rw [show (["a", "c"] : List Tok).filterMap (fun t => Dict.get? [("b", 1), ("c", 2), ("x", 3), ("a", 4)] t) = [4, 2] by
    decide +kernel]
  simp [sortNat, List.mergeSort, List.MergeSort.Internal.splitInTwo]

theorem pl2 : F.cfg.prefixLen 2 = 1 := by decide +kernel

/-- chunk {7, 8}: all of a, b, c have frequency 2, the order is alphabetical, both prefixes are `a` (rank 1) -/
theorem emits_chunk1 :
    Emits F (tk T.returnSet) (RT.lAttrIdx A) (RT.rAttrIdx A) (RT.lArr A L)
      [[.int 7, .str "a c"], [.int 8, .str "b c"]] .prefix (RT.lRow A L ls) (RT.rRow A R rs) := by
  rw [emits_prefix_iff, lArr_eq]
  refine ⟨by decide +kernel, by decide +kernel, ?_⟩
  have ht : tableOrdering (tk T.returnSet) (RT.lAttrIdx A) (RT.rAttrIdx A) [[.int 1, .str "a b"]]
      [[.int 7, .str "a c"], [.int 8, .str "b c"]] = [("a", 1), ("b", 2), ("c", 3)] := by
    unfold tableOrdering
    rw [show List.map (fun row : Row => tk T.returnSet (row.cell (RT.lAttrIdx A)).strVal) [[.int 1, .str "a b"]] ++
        List.map (fun row : Row => tk T.returnSet (row.cell (RT.rAttrIdx A)).strVal)
          [[.int 7, .str "a c"], [.int 8, .str "b c"]] = [["a", "b"], ["a", "c"], ["b", "c"]] by decide +kernel]
    exact ord1
  rw [ht, show tk T.returnSet ((RT.lRow A L ls).cell (RT.lAttrIdx A)).strVal = ["a", "b"] by decide +kernel,
    show tk T.returnSet ((RT.rRow A R rs).cell (RT.rAttrIdx A)).strVal = ["a", "c"] by decide +kernel]
  refine Or.inr ⟨by decide +kernel, 1, ?_, ?_⟩
  · rw [o1_ac]; decide +kernel
  · rw [o1_ab]; decide +kernel

/-- chunk {7, 9}: b and c are rarer than a, the prefixes are `b` (rank 1) and `c` (rank 2) -/
theorem not_emits_chunk1' :
    ¬ Emits F (tk T.returnSet) (RT.lAttrIdx A) (RT.rAttrIdx A) (RT.lArr A L)
      [[.int 7, .str "a c"], [.int 9, .str "x"]] .prefix (RT.lRow A L ls) (RT.rRow A R' rs) := by
  rw [emits_prefix_iff, lArr_eq]
  rintro ⟨-, -, h⟩
  have ht : tableOrdering (tk T.returnSet) (RT.lAttrIdx A) (RT.rAttrIdx A) [[.int 1, .str "a b"]]
      [[.int 7, .str "a c"], [.int 9, .str "x"]] = [("b", 1), ("c", 2), ("x", 3), ("a", 4)] := by
    unfold tableOrdering
    rw [show List.map (fun row : Row => tk T.returnSet (row.cell (RT.lAttrIdx A)).strVal) [[.int 1, .str "a b"]] ++
        List.map (fun row : Row => tk T.returnSet (row.cell (RT.rAttrIdx A)).strVal)
          [[.int 7, .str "a c"], [.int 9, .str "x"]] = [["a", "b"], ["a", "c"], ["x"]] by decide +kernel]
    exact ord2
  rw [ht, show tk T.returnSet ((RT.lRow A L ls).cell (RT.lAttrIdx A)).strVal = ["a", "b"] by decide +kernel,
    show tk T.returnSet ((RT.rRow A R' rs).cell (RT.rAttrIdx A)).strVal = ["a", "c"] by decide +kernel] at h
  rcases h with ⟨-, h0, -⟩ | ⟨-, t, h1, h2⟩
  · exact absurd h0 (by decide)
  · rw [o2_ac, show (([2, 4] : List Nat).length : Nat) = 2 from rfl, pl2] at h1
    rw [o2_ab, show (([1, 4] : List Nat).length : Nat) = 2 from rfl, pl2] at h2
    have e1 : t = 2 := by simpa [pyTake] using h1
    have e2 : t = 1 := by simpa [pyTake] using h2
    omega

theorem not_emits_chunk2' :
    ¬ Emits F (tk T.returnSet) (RT.lAttrIdx A) (RT.rAttrIdx A) (RT.lArr A L)
      [[.int 8, .str "b c"], [.int 10, .str "y"]] .prefix (RT.lRow A L ls) (RT.rRow A R' rs) := by
  rw [emits_prefix_iff]
  rintro ⟨-, h, -⟩
  exact absurd h (by decide +kernel)

/-- SEVERAL CHUNKS: the pair (1, 7) is listed for the right table `R` and not for its row permutation `R'` -/
theorem listed_iff (fr fr' : Frame) (h : filterTables .prefix F A T tk 4 = .ok fr)
    (h' : filterTables .prefix F (A.withTables L R') T tk 4 = .ok fr') :
    (∃ row ∈ fr.rows, rowKeys row = (.int 1, .int 7)) ∧ ¬ (∃ row ∈ fr'.rows, rowKeys row = (.int 1, .int 7)) := by
  constructor
  · refine (mem_filterTables_iff .prefix F A T tk 4 L R fr valid keys (by decide) h ls rs (by decide) (by decide)
      (by unfold Present; decide) (by unfold Present; decide)).2 ?_
    rw [chunks]
    exact ⟨_, List.mem_cons_self, emits_chunk1⟩
  · intro hrow
    obtain ⟨ch, hch, hem⟩ := (mem_filterTables_iff .prefix F (A.withTables L R') T tk 4 L R' fr' valid' keys'
      (by decide) h' ls rs (by decide) (by decide) (by unfold Present; decide) (by unfold Present; decide)).1 hrow
    have hch' : ch ∈ chunksFor (RT.rArr A R') A.nJobs 4 := hch
    rw [chunks'] at hch'
    rcases List.mem_cons.1 hch' with rfl | hch'
    · exact not_emits_chunk1' hem
    · rw [List.mem_singleton] at hch'
      subst hch'
      exact not_emits_chunk2' hem

/-- … hence the value rows of the two results are NOT permutations of each other -/
theorem not_perm (fr fr' : Frame) (h : filterTables .prefix F A T tk 4 = .ok fr)
    (h' : filterTables .prefix F (A.withTables L R') T tk 4 = .ok fr') :
    ¬ (fr.rows.map (fun row => row.drop 1)).Perm (fr'.rows.map (fun row => row.drop 1)) := by
  intro hp
  obtain ⟨⟨row, hrow, hk⟩, hn⟩ := listed_iff fr fr' h h'
  obtain ⟨row', hrow', e⟩ := List.mem_map.1 (hp.subset (List.mem_map_of_mem (f := fun row => row.drop 1) hrow))
  refine hn ⟨row', hrow', ?_⟩
  rw [EX.rowKeys_eq, e, ← EX.rowKeys_eq, hk]

end Cex

end OrderingPerm
end SSJ

section AxiomCheck
open SSJ SSJ.OrderingPerm
#print axioms genTokenOrdering_perm
#print axioms emits_perm
#print axioms filterTablesSplit_perm
#print axioms filterTables_perm_of_chunks
#print axioms filterTables_perm_left
#print axioms filterTables_perm_single
#print axioms filterTables_size_perm
#print axioms Cex.listed_iff
#print axioms Cex.not_perm
end AxiomCheck

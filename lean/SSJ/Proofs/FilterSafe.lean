/-
  SSJ.Proofs.FilterSafe — safety (C04), empty-set handling (C09), missing values (C08) and pruning
  promises (C14) of the Size / Prefix / Position filters, relative to the integer facts `BoundsFacts`
  (the arithmetic is proved elsewhere), for an arbitrary filter configuration and a SET tokenizer.
-/
import SSJ.Model.Filters
import SSJ.Proofs.Bounds
import SSJ.Proofs.TokenOrdering
import SSJ.Proofs.DictFold
import SSJ.Proofs.Position
import SSJ.Proofs.Candidates
import Mathlib.Data.List.Basic
import Mathlib.Data.List.Nodup
import Mathlib.Tactic.Linarith

namespace SSJ

/-! ### 0. Bridging token lists and their rank lists -/

theorem commonCount_eq_interCount (x y : List Nat) (hx : x.Nodup) :
    commonCount x y = interCount x y := by
  unfold commonCount interCount
  rw [dedup_eq_self_of_nodup x hx]

theorem interCount_le_length_left (a b : List Tok) (ha : a.Nodup) : interCount a b ≤ a.length := by
  have := interCount_le_left a b
  unfold setLen at this
  rwa [dedup_eq_self_of_nodup a ha] at this

theorem interCount_le_length_right (a b : List Tok) (hb : b.Nodup) : interCount a b ≤ b.length := by
  rw [interCount_comm]; exact interCount_le_length_left b a hb

/-- everything the filters need about the rank lists of two duplicate-free token lists that both
    took part in the construction of the token ordering -/
theorem ordered_facts (lists : List (List Tok)) (a b : List Tok) (ha : a ∈ lists) (hb : b ∈ lists)
    (hna : a.Nodup) (hnb : b.Nodup) :
    (orderUsing a (genTokenOrdering lists)).Pairwise (· < ·) ∧
    (orderUsing a (genTokenOrdering lists)).length = a.length ∧
    commonCount (orderUsing a (genTokenOrdering lists)) (orderUsing b (genTokenOrdering lists)) =
      interCount a b := by
  have hinj : ∀ (l : List Tok), ∀ t1 ∈ l, ∀ t2 ∈ l, ∀ r,
      Dict.get? (genTokenOrdering lists) t1 = some r →
      Dict.get? (genTokenOrdering lists) t2 = some r → t1 = t2 :=
    fun _ t1 _ t2 _ r h1 h2 => genTokenOrdering_inj lists t1 t2 r h1 h2
  have hka := genTokenOrdering_isSome lists a ha
  have hkb := genTokenOrdering_isSome lists b hb
  have hs := orderUsing_strict a (genTokenOrdering lists) hna (hinj a)
  refine ⟨hs, orderUsing_length a _ hka, ?_⟩
  rw [commonCount_eq_interCount _ _ hs.nodup]
  exact interCount_orderUsing a b _ hna hnb hka hkb (hinj (a ++ b))

/-- a common rank comes from a common token -/
theorem common_token_of_common_rank (lists : List (List Tok)) (a b : List Tok) (t : Nat)
    (hta : t ∈ orderUsing a (genTokenOrdering lists))
    (htb : t ∈ orderUsing b (genTokenOrdering lists)) : ∃ w, w ∈ a ∧ w ∈ b := by
  obtain ⟨w, hw, hwr⟩ := (mem_orderUsing a _ t).1 hta
  obtain ⟨w', hw', hwr'⟩ := (mem_orderUsing b _ t).1 htb
  have := genTokenOrdering_inj lists w w' t hwr hwr'
  exact ⟨w, hw, this ▸ hw'⟩

theorem mem_of_mem_pyTake {α : Type} (l : List α) (k : Int) (t : α) (h : t ∈ pyTake l k) : t ∈ l := by
  unfold pyTake at h
  split at h <;> exact List.mem_of_mem_take h

/-! ### A. `filter_pair`: missing values (C08), empty sets (C09), safety (C04) -/

section Pair
variable (f : FilterObj) (tok : String → List Tok)

/-- C08 -/
theorem sizeFilterPair_missing (l r : Cell) (h : l.isMissing = true ∨ r.isMissing = true) :
    sizeFilterPair f tok l r = !f.allowMissing := by
  unfold sizeFilterPair
  rw [if_pos (by simpa using h)]

theorem prefixFilterPair_missing (l r : Cell) (h : l.isMissing = true ∨ r.isMissing = true) :
    prefixFilterPair f tok l r = !f.allowMissing := by
  unfold prefixFilterPair
  rw [if_pos (by simpa using h)]

theorem positionFilterPair_missing (l r : Cell) (h : l.isMissing = true ∨ r.isMissing = true) :
    positionFilterPair f tok l r = !f.allowMissing := by
  unfold positionFilterPair
  rw [if_pos (by simpa using h)]

/-- C09 -/
theorem sizeFilterPair_empty (l r : Cell) (hl : l.isMissing = false) (hr : r.isMissing = false)
    (ha : tok l.strVal = []) (hb : tok r.strVal = []) :
    sizeFilterPair f tok l r = emptyPairDropped f := by
  unfold sizeFilterPair
  simp [hl, hr, ha, hb]

theorem prefixFilterPair_empty (l r : Cell) (hl : l.isMissing = false) (hr : r.isMissing = false)
    (ha : tok l.strVal = []) (hb : tok r.strVal = []) :
    prefixFilterPair f tok l r = emptyPairDropped f := by
  unfold prefixFilterPair
  simp [hl, hr, ha, hb]

theorem positionFilterPair_empty (l r : Cell) (hl : l.isMissing = false) (hr : r.isMissing = false)
    (ha : tok l.strVal = []) (hb : tok r.strVal = []) :
    positionFilterPair f tok l r = emptyPairDropped f := by
  unfold positionFilterPair
  simp [hl, hr, ha, hb]

/-- C04, size filter (the pair version computes the window from the LEFT size) -/
theorem sizeFilterPair_safe (l r : Cell) (hl : l.isMissing = false) (hr : r.isMissing = false)
    (hne : ¬ ((tok l.strVal).length = 0 ∧ (tok r.strVal).length = 0))
    (hlo : f.cfg.lower (tok l.strVal).length ≤ ((tok r.strVal).length : Int))
    (hhi : ((tok r.strVal).length : Int) ≤ f.cfg.upper (tok l.strVal).length) :
    sizeFilterPair f tok l r = false := by
  unfold sizeFilterPair
  simp only [hl, hr, Bool.or_self, Bool.false_eq_true, if_false]
  rw [if_neg (by simpa using hne)]
  simp [hlo, hhi]

/-- the prefix-filter principle for one pair, under its own 2-list token ordering -/
theorem pair_prefix_common (a b : List Tok) (hna : a.Nodup) (hnb : b.Nodup)
    (ho : 1 ≤ interCount a b)
    (hpa : (a.length : Int) - interCount a b + 1 ≤ f.cfg.prefixLen a.length)
    (hpb : (b.length : Int) - interCount a b + 1 ≤ f.cfg.prefixLen b.length) :
    0 < f.cfg.prefixLen a.length ∧ 0 < f.cfg.prefixLen b.length ∧
    ∃ t, t ∈ pyTake (orderUsing a (genTokenOrdering [a, b])) (f.cfg.prefixLen a.length) ∧
         t ∈ pyTake (orderUsing b (genTokenOrdering [a, b])) (f.cfg.prefixLen b.length) := by
  obtain ⟨hx, hxl, hc⟩ := ordered_facts [a, b] a b (by simp) (by simp) hna hnb
  obtain ⟨hy, hyl, -⟩ := ordered_facts [a, b] b a (by simp) (by simp) hnb hna
  have h1 := interCount_le_length_left a b hna
  have h2 := interCount_le_length_right a b hnb
  have hp1 : 0 < f.cfg.prefixLen a.length := by omega
  have hp2 : 0 < f.cfg.prefixLen b.length := by omega
  refine ⟨hp1, hp2, ?_⟩
  rw [pyTake_of_nonneg _ _ (by omega), pyTake_of_nonneg _ _ (by omega)]
  apply prefix_principle _ _ hx hy (interCount a b) ho (by rw [hc])
  · rw [hxl]; omega
  · rw [hyl]; omega

/-- C04, prefix filter -/
theorem prefixFilterPair_safe (hnd : ∀ s, (tok s).Nodup) (l r : Cell)
    (hl : l.isMissing = false) (hr : r.isMissing = false)
    (ho : 1 ≤ interCount (tok l.strVal) (tok r.strVal))
    (hpa : ((tok l.strVal).length : Int) - interCount (tok l.strVal) (tok r.strVal) + 1 ≤
      f.cfg.prefixLen (tok l.strVal).length)
    (hpb : ((tok r.strVal).length : Int) - interCount (tok l.strVal) (tok r.strVal) + 1 ≤
      f.cfg.prefixLen (tok r.strVal).length) :
    prefixFilterPair f tok l r = false := by
  obtain ⟨hp1, hp2, t, ht1, ht2⟩ := pair_prefix_common f _ _ (hnd l.strVal) (hnd r.strVal) ho hpa hpb
  have h1 := interCount_le_length_left _ (tok r.strVal) (hnd l.strVal)
  have h2 := interCount_le_length_right (tok l.strVal) _ (hnd r.strVal)
  unfold prefixFilterPair
  simp only [hl, hr, Bool.or_self, Bool.false_eq_true, if_false]
  rw [if_neg (by simp only [Bool.and_eq_true, decide_eq_true_eq]; omega),
    if_neg (by simp only [Bool.or_eq_true, decide_eq_true_eq]; omega), if_pos]
  exact List.any_eq_true.2 ⟨t, ht1, by simpa using ht2⟩

/-! #### the scan of `PositionFilter.filter_pair` -/

/-- one iteration of the loop over the right prefix; state `(current_overlap, r_pos, dropped)` -/
def ppStep (lpre : List Nat) (ln rn : Nat) (thr : Int) (st : Int × Nat × Bool) (t : Nat) :
    Int × Nat × Bool :=
  let (cur, rpos, dropped) := st
  if dropped then st else
  if decide (t ∈ lpre) then
    let ub : Int := 1 + min ((ln : Int) - 0 - 1) ((rn : Int) - rpos - 1)
    if cur + ub < thr then (cur, rpos, true) else (cur + 1, rpos + 1, false)
  else (cur, rpos + 1, false)

theorem positionFilterPair_eq (l r : Cell) :
    positionFilterPair f tok l r =
      if l.isMissing || r.isMissing then !f.allowMissing else
      let lt := tok l.strVal
      let rt := tok r.strVal
      if lt.length = 0 && rt.length = 0 then emptyPairDropped f else
      let ordering := genTokenOrdering [lt, rt]
      let lp := f.cfg.prefixLen lt.length
      let rp := f.cfg.prefixLen rt.length
      if lp ≤ 0 || rp ≤ 0 then true else
      let fin := (pyTake (orderUsing rt ordering) rp).foldl
        (ppStep (pyTake (orderUsing lt ordering) lp) lt.length rt.length
          (f.cfg.ovThr lt.length rt.length)) ((0 : Int), 0, false)
      if fin.2.2 then true else if fin.1 > 0 then false else true := rfl

/-- the loop never drops and counts the right-prefix tokens that occur in the left prefix, provided
    the positional bound is fine at every match -/
theorem ppScan (lpre ypre : List Nat) (ln rn : Nat) (thr : Int)
    (hb : ∀ y0 t ys, ypre = y0 ++ t :: ys → t ∈ lpre →
      thr ≤ ((y0.filter (fun u => decide (u ∈ lpre))).length : Int) + 1 +
        min ((ln : Int) - 1) ((rn : Int) - y0.length - 1))
    (ys y0 : List Nat) (hy : ypre = y0 ++ ys) :
    ys.foldl (ppStep lpre ln rn thr)
        (((y0.filter (fun u => decide (u ∈ lpre))).length : Int), y0.length, false) =
      (((ypre.filter (fun u => decide (u ∈ lpre))).length : Int), ypre.length, false) := by
  induction ys generalizing y0 with
  | nil => simp at hy; subst hy; rfl
  | cons t ys ih =>
    rw [List.foldl_cons]
    have hy' : ypre = (y0 ++ [t]) ++ ys := by rw [hy]; simp
    have ih' := ih (y0 ++ [t]) hy'
    by_cases ht : t ∈ lpre
    · have := hb y0 t ys hy ht
      have hs : ppStep lpre ln rn thr
          (((y0.filter (fun u => decide (u ∈ lpre))).length : Int), y0.length, false) t =
          ((((y0 ++ [t]).filter (fun u => decide (u ∈ lpre))).length : Int), (y0 ++ [t]).length, false) := by
        unfold ppStep
        simp only [Bool.false_eq_true, if_false, ht, decide_true, if_true]
        rw [if_neg (by omega)]
        simp [List.filter_append, ht]
      rw [hs]; exact ih'
    · have hs : ppStep lpre ln rn thr
          (((y0.filter (fun u => decide (u ∈ lpre))).length : Int), y0.length, false) t =
          ((((y0 ++ [t]).filter (fun u => decide (u ∈ lpre))).length : Int), (y0 ++ [t]).length, false) := by
        unfold ppStep
        simp [List.filter_append, ht]
      rw [hs]; exact ih'

/-- the positional bound at a match: `x`, `y` strictly sorted, `lpre` a prefix of `x` -/
theorem pp_bound (x y : List Nat) (hx : x.Pairwise (· < ·)) (hy : y.Pairwise (· < ·))
    (p q : Nat) (y0 : List Nat) (t : Nat) (ys : List Nat) (hyp : y.take q = y0 ++ t :: ys)
    (ht : t ∈ x.take p) :
    (commonCount y x : Int) ≤ ((y0.filter (fun u => decide (u ∈ x.take p))).length : Int) + 1 +
        min ((x.length : Int) - 1) ((y.length : Int) - y0.length - 1) := by
  obtain ⟨x1, x2, hxp⟩ := List.append_of_mem ht
  have ex : x = x1 ++ t :: (x2 ++ x.drop p) := by
    conv_lhs => rw [← List.take_append_drop p x, hxp]
    simp
  have ey : y = y0 ++ t :: (ys ++ y.drop q) := by
    conv_lhs => rw [← List.take_append_drop q y, hyp]
    simp
  have hx' := hx; rw [ex] at hx'
  have hy' := hy; rw [ey] at hy'
  have := common_bound y0 (ys ++ y.drop q) x1 (x2 ++ x.drop p) t hy' hx' (x.take p)
    (fun u hu => by rw [hxp]; exact List.mem_append_left _ hu)
    (fun u hu => by
      rw [hxp] at hu
      rcases List.mem_append.1 hu with h | h
      · exact List.mem_append_left _ h
      · rcases List.mem_cons.1 h with h | h
        · subst h; simp
        · simp [h])
  rw [← ex, ← ey] at this
  have lx : x.length = x1.length + (x2.length + (x.drop p).length + 1) := by
    conv_lhs => rw [ex]
    simp
  have ly : y.length = y0.length + (ys.length + (y.drop q).length + 1) := by
    conv_lhs => rw [ey]
    simp
  simp only [List.length_append] at this
  omega

/-- C04, position filter -/
theorem positionFilterPair_safe (hnd : ∀ s, (tok s).Nodup) (l r : Cell)
    (hl : l.isMissing = false) (hr : r.isMissing = false)
    (ho : 1 ≤ interCount (tok l.strVal) (tok r.strVal))
    (hpa : ((tok l.strVal).length : Int) - interCount (tok l.strVal) (tok r.strVal) + 1 ≤
      f.cfg.prefixLen (tok l.strVal).length)
    (hpb : ((tok r.strVal).length : Int) - interCount (tok l.strVal) (tok r.strVal) + 1 ≤
      f.cfg.prefixLen (tok r.strVal).length)
    (hthr : f.cfg.ovThr (tok l.strVal).length (tok r.strVal).length ≤
      (interCount (tok l.strVal) (tok r.strVal) : Int)) :
    positionFilterPair f tok l r = false := by
  have hna := hnd l.strVal
  have hnb := hnd r.strVal
  rw [positionFilterPair_eq]
  simp only [hl, hr, Bool.or_self, Bool.false_eq_true, if_false]
  generalize tok l.strVal = a at *
  generalize tok r.strVal = b at *
  obtain ⟨hp1, hp2, t, ht1, ht2⟩ := pair_prefix_common f a b hna hnb ho hpa hpb
  obtain ⟨hx, hxl, -⟩ := ordered_facts [a, b] a b (by simp) (by simp) hna hnb
  obtain ⟨hy, hyl, hc⟩ := ordered_facts [a, b] b a (by simp) (by simp) hnb hna
  rw [interCount_comm] at hc
  have h1 := interCount_le_length_left a b hna
  have h2 := interCount_le_length_right a b hnb
  rw [if_neg (by simp only [Bool.and_eq_true, decide_eq_true_eq]; omega),
    if_neg (by simp only [Bool.or_eq_true, decide_eq_true_eq]; omega)]
  have hscan := ppScan (pyTake (orderUsing a (genTokenOrdering [a, b])) (f.cfg.prefixLen a.length))
    (pyTake (orderUsing b (genTokenOrdering [a, b])) (f.cfg.prefixLen b.length))
    a.length b.length (f.cfg.ovThr a.length b.length)
    (by
      intro y0 u ys hyp hu
      rw [pyTake_of_nonneg _ _ (by omega)] at hyp hu
      have := pp_bound _ _ hx hy _ _ y0 u ys hyp hu
      rw [hc, hxl, hyl] at this
      rw [pyTake_of_nonneg _ _ (by omega)]
      omega)
    (pyTake (orderUsing b (genTokenOrdering [a, b])) (f.cfg.prefixLen b.length)) [] rfl
  simp only [List.filter_nil, List.length_nil, Nat.cast_zero] at hscan
  rw [hscan]
  have hpos : 1 ≤ ((pyTake (orderUsing b (genTokenOrdering [a, b])) (f.cfg.prefixLen b.length)).filter
      (fun u => decide (u ∈ pyTake (orderUsing a (genTokenOrdering [a, b]))
        (f.cfg.prefixLen a.length)))).length :=
    List.length_pos_of_mem (List.mem_filter.2 ⟨ht2, by simpa using ht1⟩)
  simp only [Bool.false_eq_true, if_false]
  rw [if_pos (by omega)]

end Pair

/-! ### Generic list facts for the table versions -/

theorem interCount_pos_length (a b : List Tok) (h : 1 ≤ interCount a b) :
    a.length ≠ 0 ∧ b.length ≠ 0 := by
  constructor
  · intro h0
    have : a = [] := List.length_eq_zero_iff.1 h0
    subst this
    simp [interCount, dedup] at h
  · intro h0
    have : b = [] := List.length_eq_zero_iff.1 h0
    subst this
    simp [interCount] at h

theorem mem_emptyRecords (ce : Bool) (sizes : List Nat) (c : Nat) :
    c ∈ emptyRecords ce sizes ↔ ce = true ∧ sizes[c]? = some 0 := by
  unfold emptyRecords
  cases ce with
  | false => simp
  | true =>
    simp only [if_true, List.mem_filterMap, true_and]
    constructor
    · rintro ⟨⟨n, rid⟩, hm, hv⟩
      rw [List.mem_zipIdx_iff_getElem?] at hm
      simp only at hm hv
      split at hv
      · rename_i h0; subst h0; cases hv; exact hm
      · cases hv
    · intro h
      exact ⟨(0, c), List.mem_zipIdx_iff_getElem?.2 h, by simp⟩

theorem emptyRecords_nodup (ce : Bool) (sizes : List Nat) : (emptyRecords ce sizes).Nodup := by
  unfold emptyRecords
  split
  · have hz : sizes.zipIdx.Nodup :=
      List.Nodup.of_map Prod.snd (by rw [List.zipIdx_map_snd]; exact List.nodup_range' 1)
    refine List.Nodup.filterMap ?_ hz
    rintro ⟨n, i⟩ ⟨n', i'⟩ b hb hb'
    simp only [Option.mem_def] at hb hb'
    split at hb <;> split at hb' <;> simp_all
  · exact List.nodup_nil

/-- pairs `(c, d)` with `d < n` and `c ∈ cands d`, grouped by `d` -/
def idPairs (n : Nat) (cands : Nat → List Nat) : List (Nat × Nat) :=
  (List.range n).flatMap (fun d => (cands d).map (fun c => (c, d)))

theorem mem_idPairs (n : Nat) (cands : Nat → List Nat) (c d : Nat) :
    (c, d) ∈ idPairs n cands ↔ d < n ∧ c ∈ cands d := by
  unfold idPairs
  simp only [List.mem_flatMap, List.mem_range, List.mem_map, Prod.mk.injEq]
  constructor
  · rintro ⟨d', hd', c', hc', rfl, rfl⟩; exact ⟨hd', hc'⟩
  · rintro ⟨hd, hc⟩; exact ⟨d, hd, c, hc, rfl, rfl⟩

theorem idPairs_nodup (n : Nat) (cands : Nat → List Nat) (h : ∀ d < n, (cands d).Nodup) :
    (idPairs n cands).Nodup := by
  unfold idPairs
  rw [List.nodup_flatMap]
  refine ⟨fun d hd => (h d (List.mem_range.1 hd)).map (fun _ _ e => (Prod.mk.inj e).1), ?_⟩
  refine List.Pairwise.imp ?_ (List.nodup_range (n := n))
  intro d1 d2 hne p h1 h2
  simp only [List.mem_map] at h1 h2
  obtain ⟨_, _, rfl⟩ := h1
  obtain ⟨_, _, e⟩ := h2
  exact hne (Prod.mk.inj e).2.symm

theorem flatMap_eq_range {α β : Type} (dflt : α) (l : List α) (g : α → List β) :
    l.flatMap g = (List.range l.length).flatMap (fun d => g (l.getD d dflt)) := by
  have : l = (List.range l.length).map (fun d => l.getD d dflt) := by
    apply List.ext_getElem
    · simp
    · intro i h1 h2
      simp [List.getD_eq_getElem?_getD, List.getElem?_eq_getElem h1]
  conv_lhs => rw [this]
  rw [List.flatMap_map]

theorem ite_map_eq {α β : Type} (c : Bool) (F : α → β) (A B : List α) :
    (if c = true then A.map F else B.map F) = (if c = true then A else B).map F := by
  cases c <;> rfl

theorem zip_map_self {α β : Type} (l : List α) (g : α → β) :
    l.zip (l.map g) = l.map (fun r => (r, g r)) := by
  induction l with
  | nil => rfl
  | cons a l ih => simp [ih]

theorem filterMap_pos_eq {β : Type} (l : List (Nat × Int)) (F : Nat → β) :
    l.filterMap (fun (p : Nat × Int) => if p.2 > 0 then some (F p.1) else none) =
      ((l.filter (fun p => decide (p.2 > 0))).map (·.1)).map F := by
  induction l with
  | nil => rfl
  | cons p l ih =>
    by_cases h : p.2 > 0
    · simp [h, ih]
    · simp [h, ih]

theorem map_getElem?_rows {β : Type} (g : Row → β) (table : List Row) (i : Nat) (v : β) :
    (table.map g)[i]? = some v ↔ i < table.length ∧ g (table.getD i []) = v := by
  rw [List.getElem?_map]
  by_cases h : i < table.length
  · simp [List.getD_eq_getElem?_getD, h]
  · rw [List.getElem?_eq_none (by omega)]
    simp [h]

/-! ### The emitted id pairs of the three `_filter_tables_split` -/

/-- the row emitted for the pair (left row id, right row id) -/
def pairRow (out : OutCfg) (ltable rtable : List Row) (p : Nat × Nat) : Row :=
  outputRow out (ltable.getD p.1 []) (rtable.getD p.2 [])

theorem map_pairRow_idPairs (out : OutCfg) (ltable rtable : List Row) (cands : Nat → List Nat) :
    (idPairs rtable.length cands).map (pairRow out ltable rtable) =
      (List.range rtable.length).flatMap (fun d =>
        (cands d).map (fun c => outputRow out (ltable.getD c []) (rtable.getD d []))) := by
  unfold idPairs
  rw [List.map_flatMap]
  simp only [List.map_map]
  rfl

/-- the token list of the join attribute of row `i` of a table -/
def rowToks (tok : String → List Tok) (attr : Nat) (table : List Row) (i : Nat) : List Tok :=
  tok ((table.getD i []).cell attr).strVal

section Tables
variable (f : FilterObj) (tok : String → List Tok) (lAttr rAttr : Nat) (ltable rtable : List Row)

/-- the global token ordering used by `filter_tables` -/
def tableOrdering : List (Tok × Nat) :=
  genTokenOrdering (ltable.map (fun row => tok (row.cell lAttr).strVal) ++
    rtable.map (fun row => tok (row.cell rAttr).strVal))

/-- the rank lists of the left rows -/
def lOrdToks : List (List Nat) :=
  ltable.map (fun row => orderUsing (tok (row.cell lAttr).strVal) (tableOrdering tok lAttr rAttr ltable rtable))

/-- the rank list of right row `d` -/
def rOrd (d : Nat) : List Nat :=
  orderUsing (rowToks tok rAttr rtable d) (tableOrdering tok lAttr rAttr ltable rtable)

/-- the rank list of left row `c` -/
def lOrd (c : Nat) : List Nat :=
  orderUsing (rowToks tok lAttr ltable c) (tableOrdering tok lAttr rAttr ltable rtable)

/-- left row ids emitted by the size filter for right row `d` -/
def sizeCands (d : Nat) : List Nat :=
  let idx := SizeIndex.build (ltable.map (fun row => (tok (row.cell lAttr).strVal).length)) (handleEmpty f)
  if handleEmpty f && (rowToks tok rAttr rtable d).length = 0 then idx.emptyRecords
  else sizeFindCandidates f (rowToks tok rAttr rtable d).length idx

/-- left row ids emitted by the prefix filter for right row `d` -/
def prefixCands (d : Nat) : List Nat :=
  let idx := PrefIndex.build f.cfg (lOrdToks tok lAttr rAttr ltable rtable) (handleEmpty f)
  if handleEmpty f && (rOrd tok lAttr rAttr ltable rtable d).length = 0 then idx.emptyRecords
  else prefixFindCandidates f (rOrd tok lAttr rAttr ltable rtable d) idx

/-- left row ids emitted by the position filter for right row `d` -/
def positionCands (d : Nat) : List Nat :=
  let idx := PosIndex.build f.cfg (lOrdToks tok lAttr rAttr ltable rtable) (handleEmpty f) false
  if handleEmpty f && (rOrd tok lAttr rAttr ltable rtable d).length = 0 then idx.emptyRecords
  else ((positionFindCandidates f (rOrd tok lAttr rAttr ltable rtable d) idx).filter
    (fun p => decide (p.2 > 0))).map (·.1)

/-- the (left id, right id) pairs emitted by `SizeFilter._filter_tables_split`, in output order -/
def sizePairs : List (Nat × Nat) := idPairs rtable.length (sizeCands f tok lAttr rAttr ltable rtable)
/-- the (left id, right id) pairs emitted by `PrefixFilter._filter_tables_split` -/
def prefixPairs : List (Nat × Nat) := idPairs rtable.length (prefixCands f tok lAttr rAttr ltable rtable)
/-- the (left id, right id) pairs emitted by `PositionFilter._filter_tables_split` -/
def positionPairs : List (Nat × Nat) := idPairs rtable.length (positionCands f tok lAttr rAttr ltable rtable)

theorem sizeFilterTablesSplit_eq (out : OutCfg) :
    sizeFilterTablesSplit f tok out lAttr rAttr ltable rtable =
      (sizePairs f tok lAttr rAttr ltable rtable).map (pairRow out ltable rtable) := by
  unfold sizeFilterTablesSplit sizePairs
  rw [map_pairRow_idPairs, flatMap_eq_range ([] : Row)]
  congr 1
  funext d
  exact ite_map_eq _ _ _ _

theorem prefixFilterTablesSplit_eq (out : OutCfg) :
    prefixFilterTablesSplit f tok out lAttr rAttr ltable rtable =
      (prefixPairs f tok lAttr rAttr ltable rtable).map (pairRow out ltable rtable) := by
  unfold prefixFilterTablesSplit prefixPairs
  simp only
  rw [map_pairRow_idPairs, zip_map_self, List.flatMap_map, flatMap_eq_range ([] : Row), List.map_map]
  congr 1
  funext d
  exact ite_map_eq _ _ _ _

theorem positionFilterTablesSplit_eq (out : OutCfg) :
    positionFilterTablesSplit f tok out lAttr rAttr ltable rtable =
      (positionPairs f tok lAttr rAttr ltable rtable).map (pairRow out ltable rtable) := by
  unfold positionFilterTablesSplit positionPairs
  simp only
  rw [map_pairRow_idPairs, zip_map_self, List.flatMap_map, flatMap_eq_range ([] : Row), List.map_map]
  congr 1
  funext d
  refine Eq.trans ?_ (ite_map_eq _ (fun c => outputRow out (ltable.getD c []) (rtable.getD d [])) _ _)
  rw [← filterMap_pos_eq _ (fun c => outputRow out (ltable.getD c []) (rtable.getD d []))]
  rfl

/-! ### Facts about the rows of the two tables under the global ordering -/

theorem rowToks_mem_left (c : Nat) (hc : c < ltable.length) :
    rowToks tok lAttr ltable c ∈ ltable.map (fun row => tok (row.cell lAttr).strVal) ++
      rtable.map (fun row => tok (row.cell rAttr).strVal) :=
  List.mem_append_left _ (List.mem_of_getElem? ((map_getElem?_rows _ ltable c _).2 ⟨hc, rfl⟩))

theorem rowToks_mem_right (d : Nat) (hd : d < rtable.length) :
    rowToks tok rAttr rtable d ∈ ltable.map (fun row => tok (row.cell lAttr).strVal) ++
      rtable.map (fun row => tok (row.cell rAttr).strVal) :=
  List.mem_append_right _ (List.mem_of_getElem? ((map_getElem?_rows _ rtable d _).2 ⟨hd, rfl⟩))

theorem lOrd_length (c : Nat) (hc : c < ltable.length) :
    (lOrd tok lAttr rAttr ltable rtable c).length = (rowToks tok lAttr ltable c).length :=
  orderUsing_length _ _ (genTokenOrdering_isSome _ _ (rowToks_mem_left tok lAttr rAttr ltable rtable c hc))

theorem rOrd_length (d : Nat) (hd : d < rtable.length) :
    (rOrd tok lAttr rAttr ltable rtable d).length = (rowToks tok rAttr rtable d).length :=
  orderUsing_length _ _ (genTokenOrdering_isSome _ _ (rowToks_mem_right tok lAttr rAttr ltable rtable d hd))

theorem lOrdToks_getElem? (c : Nat) (y : List Nat) :
    (lOrdToks tok lAttr rAttr ltable rtable)[c]? = some y ↔
      c < ltable.length ∧ lOrd tok lAttr rAttr ltable rtable c = y :=
  map_getElem?_rows _ ltable c y

theorem sizes_getElem? (c s : Nat) :
    (ltable.map (fun row => (tok (row.cell lAttr).strVal).length))[c]? = some s ↔
      c < ltable.length ∧ (rowToks tok lAttr ltable c).length = s :=
  map_getElem?_rows _ ltable c s

theorem lOrdSizes_getElem? (c s : Nat) :
    ((lOrdToks tok lAttr rAttr ltable rtable).map List.length)[c]? = some s ↔
      c < ltable.length ∧ (rowToks tok lAttr ltable c).length = s := by
  rw [List.getElem?_map, Option.map_eq_some_iff]
  constructor
  · rintro ⟨y, hy, rfl⟩
    obtain ⟨hc, rfl⟩ := (lOrdToks_getElem? tok lAttr rAttr ltable rtable c y).1 hy
    exact ⟨hc, (lOrd_length tok lAttr rAttr ltable rtable c hc).symm⟩
  · rintro ⟨hc, rfl⟩
    exact ⟨_, (lOrdToks_getElem? tok lAttr rAttr ltable rtable c _).2 ⟨hc, rfl⟩,
      lOrd_length tok lAttr rAttr ltable rtable c hc⟩

/-- the rank lists of a left row and a right row: strictly sorted, overlap preserved -/
theorem table_ordered_facts (hnd : ∀ s, (tok s).Nodup) (c d : Nat) (hc : c < ltable.length)
    (hd : d < rtable.length) :
    (rOrd tok lAttr rAttr ltable rtable d).Pairwise (· < ·) ∧
    (lOrd tok lAttr rAttr ltable rtable c).Pairwise (· < ·) ∧
    commonCount (rOrd tok lAttr rAttr ltable rtable d) (lOrd tok lAttr rAttr ltable rtable c) =
      interCount (rowToks tok lAttr ltable c) (rowToks tok rAttr rtable d) := by
  have ml := rowToks_mem_left tok lAttr rAttr ltable rtable c hc
  have mr := rowToks_mem_right tok lAttr rAttr ltable rtable d hd
  obtain ⟨h1, -, h3⟩ := ordered_facts _ _ _ mr ml (hnd _) (hnd _)
  obtain ⟨h4, -, -⟩ := ordered_facts _ _ _ ml mr (hnd _) (hnd _)
  rw [interCount_comm] at h3
  exact ⟨h1, h4, h3⟩

theorem emptyBranch_iff (d : Nat) (hd : d < rtable.length) :
    (handleEmpty f && decide ((rOrd tok lAttr rAttr ltable rtable d).length = 0)) = true ↔
      handleEmpty f = true ∧ (rowToks tok rAttr rtable d).length = 0 := by
  rw [rOrd_length tok lAttr rAttr ltable rtable d hd]
  simp

/-! ### Membership in the candidate lists -/

/-- what the size filter emits, in terms of the token counts `m` (left row) and `n` (right row) only -/
def SizeEmits (f : FilterObj) (m n : Nat) : Prop :=
  (m = 0 ∧ n = 0 ∧ handleEmpty f = true) ∨
  (m ≠ 0 ∧ ¬ (handleEmpty f = true ∧ n = 0) ∧ f.cfg.lower n ≤ (n : Int) ∧
    f.cfg.lower n ≤ (m : Int) ∧ (m : Int) ≤ f.cfg.upper n)

/-- C14 (size): whether `(c, d)` is emitted depends only on the two token counts -/
theorem mem_sizePairs_iff (c d : Nat) :
    (c, d) ∈ sizePairs f tok lAttr rAttr ltable rtable ↔
      c < ltable.length ∧ d < rtable.length ∧
      SizeEmits f (rowToks tok lAttr ltable c).length (rowToks tok rAttr rtable d).length := by
  unfold sizePairs
  rw [mem_idPairs]
  unfold sizeCands SizeEmits
  simp only
  by_cases h : (handleEmpty f && decide ((rowToks tok rAttr rtable d).length = 0)) = true
  · rw [if_pos h]
    simp only [Bool.and_eq_true, decide_eq_true_eq] at h
    show _ ∧ c ∈ emptyRecords _ _ ↔ _
    rw [mem_emptyRecords, sizes_getElem?]
    constructor
    · rintro ⟨hd, he, hc, hm⟩
      exact ⟨hc, hd, Or.inl ⟨hm, h.2, h.1⟩⟩
    · rintro ⟨hc, hd, ⟨hm, _, _⟩ | ⟨_, hn, _⟩⟩
      · exact ⟨hd, h.1, hc, hm⟩
      · exact absurd h hn
  · rw [if_neg h, sizeFindCandidates_mem]
    simp only [Bool.and_eq_true, decide_eq_true_eq] at h
    constructor
    · rintro ⟨hd, s, hs, hs0, h1, h2, h3⟩
      obtain ⟨hc, rfl⟩ := (sizes_getElem? tok lAttr ltable c s).1 hs
      exact ⟨hc, hd, Or.inr ⟨hs0, h, h1, h2, h3⟩⟩
    · rintro ⟨hc, hd, ⟨_, hn, he⟩ | ⟨hs0, _, h1, h2, h3⟩⟩
      · exact absurd ⟨he, hn⟩ h
      · exact ⟨hd, _, (sizes_getElem? tok lAttr ltable c _).2 ⟨hc, rfl⟩, hs0, h1, h2, h3⟩

theorem mem_prefixCands_empty (d : Nat) (hd : d < rtable.length)
    (h : handleEmpty f = true ∧ (rowToks tok rAttr rtable d).length = 0) (c : Nat) :
    c ∈ prefixCands f tok lAttr rAttr ltable rtable d ↔
      c < ltable.length ∧ (rowToks tok lAttr ltable c).length = 0 := by
  unfold prefixCands
  simp only
  rw [if_pos ((emptyBranch_iff f tok lAttr rAttr ltable rtable d hd).2 h)]
  show c ∈ emptyRecords _ _ ↔ _
  rw [mem_emptyRecords, lOrdSizes_getElem?]
  simp [h.1]

theorem mem_prefixCands_nonempty (d : Nat) (hd : d < rtable.length)
    (h : ¬ (handleEmpty f = true ∧ (rowToks tok rAttr rtable d).length = 0)) (c : Nat) :
    c ∈ prefixCands f tok lAttr rAttr ltable rtable d ↔
      c < ltable.length ∧
      ∃ t, t ∈ pyTake (rOrd tok lAttr rAttr ltable rtable d)
              (f.cfg.prefixLen (rOrd tok lAttr rAttr ltable rtable d).length) ∧
           t ∈ pyTake (lOrd tok lAttr rAttr ltable rtable c)
              (f.cfg.prefixLen (lOrd tok lAttr rAttr ltable rtable c).length) := by
  unfold prefixCands
  simp only
  rw [if_neg (fun e => h ((emptyBranch_iff f tok lAttr rAttr ltable rtable d hd).1 e)),
    prefixFindCandidates_mem]
  constructor
  · rintro ⟨y, hy, ht⟩
    obtain ⟨hc, rfl⟩ := (lOrdToks_getElem? tok lAttr rAttr ltable rtable c y).1 hy
    exact ⟨hc, ht⟩
  · rintro ⟨hc, ht⟩
    exact ⟨_, (lOrdToks_getElem? tok lAttr rAttr ltable rtable c _).2 ⟨hc, rfl⟩, ht⟩

theorem mem_positionCands_empty (d : Nat) (hd : d < rtable.length)
    (h : handleEmpty f = true ∧ (rowToks tok rAttr rtable d).length = 0) (c : Nat) :
    c ∈ positionCands f tok lAttr rAttr ltable rtable d ↔
      c < ltable.length ∧ (rowToks tok lAttr ltable c).length = 0 := by
  unfold positionCands
  simp only
  rw [if_pos ((emptyBranch_iff f tok lAttr rAttr ltable rtable d hd).2 h)]
  show c ∈ emptyRecords _ _ ↔ _
  rw [mem_emptyRecords, lOrdSizes_getElem?]
  simp [h.1]

theorem mem_positionCands_nonempty (d : Nat) (hd : d < rtable.length)
    (h : ¬ (handleEmpty f = true ∧ (rowToks tok rAttr rtable d).length = 0)) (c : Nat) :
    c ∈ positionCands f tok lAttr rAttr ltable rtable d ↔
      ∃ v : Int, (c, v) ∈ positionFindCandidates f (rOrd tok lAttr rAttr ltable rtable d)
        (PosIndex.build f.cfg (lOrdToks tok lAttr rAttr ltable rtable) (handleEmpty f) false) ∧ 0 < v := by
  unfold positionCands
  simp only
  rw [if_neg (fun e => h ((emptyBranch_iff f tok lAttr rAttr ltable rtable d hd).1 e))]
  simp only [List.mem_map, List.mem_filter, decide_eq_true_eq]
  constructor
  · rintro ⟨⟨c', v⟩, ⟨hm, hv⟩, rfl⟩
    exact ⟨v, hm, hv⟩
  · rintro ⟨v, hm, hv⟩
    exact ⟨(c, v), ⟨hm, hv⟩, rfl⟩

/-! ### B. Safety of `filter_tables` (C04), one chunk; probe = right row -/

/-- size filter: needs only the window facts and the early-exit condition `lower n ≤ n` -/
theorem sizePairs_safe (c d : Nat) (hc : c < ltable.length) (hd : d < rtable.length)
    (ho : 1 ≤ interCount (rowToks tok lAttr ltable c) (rowToks tok rAttr rtable d))
    (hb : BoundsFacts f.cfg (rowToks tok rAttr rtable d).length (rowToks tok lAttr ltable c).length
      (interCount (rowToks tok lAttr ltable c) (rowToks tok rAttr rtable d)))
    (hearly : f.cfg.lower (rowToks tok rAttr rtable d).length ≤ ((rowToks tok rAttr rtable d).length : Int)) :
    (c, d) ∈ sizePairs f tok lAttr rAttr ltable rtable := by
  obtain ⟨hm, hn⟩ := interCount_pos_length _ _ ho
  rw [mem_sizePairs_iff]
  exact ⟨hc, hd, Or.inr ⟨hm, fun h => hn h.2, hearly, hb.lower, hb.upper⟩⟩

theorem prefixPairs_safe (hnd : ∀ s, (tok s).Nodup) (c d : Nat) (hc : c < ltable.length)
    (hd : d < rtable.length)
    (ho : 1 ≤ interCount (rowToks tok lAttr ltable c) (rowToks tok rAttr rtable d))
    (hb : BoundsFacts f.cfg (rowToks tok rAttr rtable d).length (rowToks tok lAttr ltable c).length
      (interCount (rowToks tok lAttr ltable c) (rowToks tok rAttr rtable d))) :
    (c, d) ∈ prefixPairs f tok lAttr rAttr ltable rtable := by
  obtain ⟨hm, hn⟩ := interCount_pos_length _ _ ho
  obtain ⟨hx, hy, hcc⟩ := table_ordered_facts tok lAttr rAttr ltable rtable hnd c d hc hd
  have hxl := rOrd_length tok lAttr rAttr ltable rtable d hd
  have hyl := lOrd_length tok lAttr rAttr ltable rtable c hc
  have h1 := interCount_le_length_left _ (rowToks tok rAttr rtable d) (hnd ((ltable.getD c []).cell lAttr).strVal)
  have h2 := interCount_le_length_right (rowToks tok lAttr ltable c) _ (hnd ((rtable.getD d []).cell rAttr).strVal)
  have hN := hb.prefN
  have hK := hb.prefK
  unfold prefixPairs
  rw [mem_idPairs, mem_prefixCands_nonempty f tok lAttr rAttr ltable rtable d hd (fun h => hn h.2)]
  refine ⟨hd, hc, ?_⟩
  rw [hxl, hyl, pyTake_of_nonneg _ _ (by unfold rowToks at *; omega),
    pyTake_of_nonneg _ _ (by unfold rowToks at *; omega)]
  apply prefix_principle _ _ hx hy _ ho (by rw [hcc])
  · rw [hxl]; unfold rowToks at *; omega
  · rw [hyl]; unfold rowToks at *; omega

theorem positionPairs_safe (hnd : ∀ s, (tok s).Nodup) (c d : Nat) (hc : c < ltable.length)
    (hd : d < rtable.length)
    (ho : 1 ≤ interCount (rowToks tok lAttr ltable c) (rowToks tok rAttr rtable d))
    (hb : BoundsFacts f.cfg (rowToks tok rAttr rtable d).length (rowToks tok lAttr ltable c).length
      (interCount (rowToks tok lAttr ltable c) (rowToks tok rAttr rtable d))) :
    (c, d) ∈ positionPairs f tok lAttr rAttr ltable rtable := by
  obtain ⟨hm, hn⟩ := interCount_pos_length _ _ ho
  obtain ⟨hx, hy, hcc⟩ := table_ordered_facts tok lAttr rAttr ltable rtable hnd c d hc hd
  have hxl := rOrd_length tok lAttr rAttr ltable rtable d hd
  have hyl := lOrd_length tok lAttr rAttr ltable rtable c hc
  unfold positionPairs
  rw [mem_idPairs, mem_positionCands_nonempty f tok lAttr rAttr ltable rtable d hd (fun h => hn h.2)]
  refine ⟨hd, ?_⟩
  obtain ⟨v, hv, hpos⟩ := positionFindCandidates_complete f (lOrdToks tok lAttr rAttr ltable rtable)
    (rOrd tok lAttr rAttr ltable rtable d) c (lOrd tok lAttr rAttr ltable rtable c)
    ((lOrdToks_getElem? tok lAttr rAttr ltable rtable c _).2 ⟨hc, rfl⟩) hx hy _ hcc.symm ho
    (by rw [hxl, hyl]; exact hb.lower) (by rw [hxl, hyl]; exact hb.upper)
    (by rw [hxl, hyl]; exact hb.ovThr) (by rw [hxl]; exact hb.prefN) (by rw [hyl]; exact hb.prefK)
    (handleEmpty f) false
  exact ⟨v, Dict.mem_of_get? _ _ _ hv, hpos⟩

/-- C04 for `SizeFilter.filter_tables`: the row of a qualifying pair is emitted -/
theorem sizeFilterTables_safe (out : OutCfg) (c d : Nat) (hc : c < ltable.length) (hd : d < rtable.length)
    (ho : 1 ≤ interCount (rowToks tok lAttr ltable c) (rowToks tok rAttr rtable d))
    (hb : BoundsFacts f.cfg (rowToks tok rAttr rtable d).length (rowToks tok lAttr ltable c).length
      (interCount (rowToks tok lAttr ltable c) (rowToks tok rAttr rtable d)))
    (hearly : f.cfg.lower (rowToks tok rAttr rtable d).length ≤ ((rowToks tok rAttr rtable d).length : Int)) :
    outputRow out (ltable.getD c []) (rtable.getD d []) ∈
      sizeFilterTablesSplit f tok out lAttr rAttr ltable rtable := by
  rw [sizeFilterTablesSplit_eq]
  exact List.mem_map.2 ⟨(c, d), sizePairs_safe f tok lAttr rAttr ltable rtable c d hc hd ho hb hearly, rfl⟩

/-- C04 for `PrefixFilter.filter_tables` -/
theorem prefixFilterTables_safe (hnd : ∀ s, (tok s).Nodup) (out : OutCfg) (c d : Nat)
    (hc : c < ltable.length) (hd : d < rtable.length)
    (ho : 1 ≤ interCount (rowToks tok lAttr ltable c) (rowToks tok rAttr rtable d))
    (hb : BoundsFacts f.cfg (rowToks tok rAttr rtable d).length (rowToks tok lAttr ltable c).length
      (interCount (rowToks tok lAttr ltable c) (rowToks tok rAttr rtable d))) :
    outputRow out (ltable.getD c []) (rtable.getD d []) ∈
      prefixFilterTablesSplit f tok out lAttr rAttr ltable rtable := by
  rw [prefixFilterTablesSplit_eq]
  exact List.mem_map.2 ⟨(c, d), prefixPairs_safe f tok lAttr rAttr ltable rtable hnd c d hc hd ho hb, rfl⟩

/-- C04 for `PositionFilter.filter_tables` -/
theorem positionFilterTables_safe (hnd : ∀ s, (tok s).Nodup) (out : OutCfg) (c d : Nat)
    (hc : c < ltable.length) (hd : d < rtable.length)
    (ho : 1 ≤ interCount (rowToks tok lAttr ltable c) (rowToks tok rAttr rtable d))
    (hb : BoundsFacts f.cfg (rowToks tok rAttr rtable d).length (rowToks tok lAttr ltable c).length
      (interCount (rowToks tok lAttr ltable c) (rowToks tok rAttr rtable d))) :
    outputRow out (ltable.getD c []) (rtable.getD d []) ∈
      positionFilterTablesSplit f tok out lAttr rAttr ltable rtable := by
  rw [positionFilterTablesSplit_eq]
  exact List.mem_map.2 ⟨(c, d), positionPairs_safe f tok lAttr rAttr ltable rtable hnd c d hc hd ho hb, rfl⟩

/-! ### C. Empty sets in `filter_tables` (C09): each id pair is emitted at most once, and a
    both-empty pair is emitted iff `handleEmpty f` -/

theorem sizePairs_nodup : (sizePairs f tok lAttr rAttr ltable rtable).Nodup := by
  apply idPairs_nodup
  intro d _
  unfold sizeCands
  simp only
  split
  · exact emptyRecords_nodup _ _
  · exact sizeFindCandidates_nodup _ _ _ _

theorem prefixPairs_nodup : (prefixPairs f tok lAttr rAttr ltable rtable).Nodup := by
  apply idPairs_nodup
  intro d _
  unfold prefixCands
  simp only
  split
  · exact emptyRecords_nodup _ _
  · exact prefixFindCandidates_nodup _ _ _ _

theorem positionPairs_nodup : (positionPairs f tok lAttr rAttr ltable rtable).Nodup := by
  apply idPairs_nodup
  intro d _
  unfold positionCands
  simp only
  split
  · exact emptyRecords_nodup _ _
  · exact ((positionFindCandidates_keys f _ _ _ _).1).sublist (List.filter_sublist.map _)

theorem lOrd_eq_nil (c : Nat) (hc : c < ltable.length) (ha : rowToks tok lAttr ltable c = []) :
    lOrd tok lAttr rAttr ltable rtable c = [] := by
  apply List.eq_nil_of_length_eq_zero
  rw [lOrd_length tok lAttr rAttr ltable rtable c hc, ha]
  rfl

theorem sizePairs_bothEmpty (c d : Nat) (hc : c < ltable.length) (hd : d < rtable.length)
    (ha : rowToks tok lAttr ltable c = []) (hb : rowToks tok rAttr rtable d = []) :
    (c, d) ∈ sizePairs f tok lAttr rAttr ltable rtable ↔ handleEmpty f = true := by
  rw [mem_sizePairs_iff, ha, hb]
  unfold SizeEmits
  simp [hc, hd]

theorem prefixPairs_bothEmpty (c d : Nat) (hc : c < ltable.length) (hd : d < rtable.length)
    (ha : rowToks tok lAttr ltable c = []) (hb : rowToks tok rAttr rtable d = []) :
    (c, d) ∈ prefixPairs f tok lAttr rAttr ltable rtable ↔ handleEmpty f = true := by
  unfold prefixPairs
  rw [mem_idPairs]
  by_cases he : handleEmpty f = true
  · rw [mem_prefixCands_empty f tok lAttr rAttr ltable rtable d hd ⟨he, by rw [hb]; rfl⟩, ha]
    simp [hc, hd, he]
  · rw [mem_prefixCands_nonempty f tok lAttr rAttr ltable rtable d hd (fun h => he h.1),
      lOrd_eq_nil tok lAttr rAttr ltable rtable c hc ha]
    constructor
    · rintro ⟨-, -, t, -, ht⟩
      exact absurd (mem_of_mem_pyTake _ _ _ ht) (by simp)
    · intro h; exact absurd h he

theorem positionPairs_bothEmpty (c d : Nat) (hc : c < ltable.length) (hd : d < rtable.length)
    (ha : rowToks tok lAttr ltable c = []) (hb : rowToks tok rAttr rtable d = []) :
    (c, d) ∈ positionPairs f tok lAttr rAttr ltable rtable ↔ handleEmpty f = true := by
  unfold positionPairs
  rw [mem_idPairs]
  by_cases he : handleEmpty f = true
  · rw [mem_positionCands_empty f tok lAttr rAttr ltable rtable d hd ⟨he, by rw [hb]; rfl⟩, ha]
    simp [hc, hd, he]
  · rw [mem_positionCands_nonempty f tok lAttr rAttr ltable rtable d hd (fun h => he h.1)]
    constructor
    · rintro ⟨-, v, hv, -⟩
      obtain ⟨y, hy, -, -, t, -, ht⟩ := positionFindCandidates_mem f _ _ _ _ _ hv
      obtain ⟨-, rfl⟩ := (lOrdToks_getElem? tok lAttr rAttr ltable rtable c y).1 hy
      rw [lOrd_eq_nil tok lAttr rAttr ltable rtable c hc ha] at ht
      exact absurd (mem_of_mem_pyTake _ _ _ ht) (by simp)
    · intro h; exact absurd h he

/-! ### D. Pruning promises (C14) -/

/-- every pair emitted by the prefix filter is, unless both sides are empty, a pair of rows sharing a token -/
theorem prefixPairs_common_token (c d : Nat) (h : (c, d) ∈ prefixPairs f tok lAttr rAttr ltable rtable)
    (hne : ¬ (rowToks tok lAttr ltable c = [] ∧ rowToks tok rAttr rtable d = [])) :
    ∃ w, w ∈ rowToks tok lAttr ltable c ∧ w ∈ rowToks tok rAttr rtable d := by
  unfold prefixPairs at h
  rw [mem_idPairs] at h
  obtain ⟨hd, hcand⟩ := h
  by_cases he : handleEmpty f = true ∧ (rowToks tok rAttr rtable d).length = 0
  · rw [mem_prefixCands_empty f tok lAttr rAttr ltable rtable d hd he] at hcand
    exact absurd ⟨List.eq_nil_of_length_eq_zero hcand.2, List.eq_nil_of_length_eq_zero he.2⟩ hne
  · rw [mem_prefixCands_nonempty f tok lAttr rAttr ltable rtable d hd he] at hcand
    obtain ⟨-, t, ht1, ht2⟩ := hcand
    exact common_token_of_common_rank _ _ _ t (mem_of_mem_pyTake _ _ _ ht2) (mem_of_mem_pyTake _ _ _ ht1)

/-- the position filter emits only pairs the prefix filter emits -/
theorem positionPairs_subset_prefixPairs :
    ∀ p ∈ positionPairs f tok lAttr rAttr ltable rtable, p ∈ prefixPairs f tok lAttr rAttr ltable rtable := by
  rintro ⟨c, d⟩ h
  unfold positionPairs at h
  unfold prefixPairs
  rw [mem_idPairs] at h ⊢
  obtain ⟨hd, hcand⟩ := h
  refine ⟨hd, ?_⟩
  by_cases he : handleEmpty f = true ∧ (rowToks tok rAttr rtable d).length = 0
  · rw [mem_positionCands_empty f tok lAttr rAttr ltable rtable d hd he] at hcand
    rwa [mem_prefixCands_empty f tok lAttr rAttr ltable rtable d hd he]
  · rw [mem_positionCands_nonempty f tok lAttr rAttr ltable rtable d hd he] at hcand
    rw [mem_prefixCands_nonempty f tok lAttr rAttr ltable rtable d hd he]
    obtain ⟨v, hv, -⟩ := hcand
    obtain ⟨y, hy, -, -, ht⟩ := positionFindCandidates_mem f _ _ _ _ _ hv
    obtain ⟨hc, rfl⟩ := (lOrdToks_getElem? tok lAttr rAttr ltable rtable c y).1 hy
    exact ⟨hc, ht⟩

theorem positionPairs_common_token (c d : Nat) (h : (c, d) ∈ positionPairs f tok lAttr rAttr ltable rtable)
    (hne : ¬ (rowToks tok lAttr ltable c = [] ∧ rowToks tok rAttr rtable d = [])) :
    ∃ w, w ∈ rowToks tok lAttr ltable c ∧ w ∈ rowToks tok rAttr rtable d :=
  prefixPairs_common_token f tok lAttr rAttr ltable rtable c d
    (positionPairs_subset_prefixPairs f tok lAttr rAttr ltable rtable _ h) hne

/-- the position filter emits only pairs the size filter emits, provided the size filter's early exit
    (`lower n > n`) does not fire for the probe sizes -/
theorem positionPairs_subset_sizePairs
    (hearly : ∀ d < rtable.length,
      f.cfg.lower (rowToks tok rAttr rtable d).length ≤ ((rowToks tok rAttr rtable d).length : Int)) :
    ∀ p ∈ positionPairs f tok lAttr rAttr ltable rtable, p ∈ sizePairs f tok lAttr rAttr ltable rtable := by
  rintro ⟨c, d⟩ h
  unfold positionPairs at h
  rw [mem_idPairs] at h
  obtain ⟨hd, hcand⟩ := h
  rw [mem_sizePairs_iff]
  by_cases he : handleEmpty f = true ∧ (rowToks tok rAttr rtable d).length = 0
  · rw [mem_positionCands_empty f tok lAttr rAttr ltable rtable d hd he] at hcand
    exact ⟨hcand.1, hd, Or.inl ⟨hcand.2, he.2, he.1⟩⟩
  · rw [mem_positionCands_nonempty f tok lAttr rAttr ltable rtable d hd he] at hcand
    obtain ⟨v, hv, -⟩ := hcand
    obtain ⟨y, hy, hlo, hhi, t, -, ht⟩ := positionFindCandidates_mem f _ _ _ _ _ hv
    obtain ⟨hc, rfl⟩ := (lOrdToks_getElem? tok lAttr rAttr ltable rtable c y).1 hy
    have hne : (lOrd tok lAttr rAttr ltable rtable c).length ≠ 0 := by
      intro h0
      rw [List.eq_nil_of_length_eq_zero h0] at ht
      exact absurd (mem_of_mem_pyTake _ _ _ ht) (by simp)
    rw [rOrd_length tok lAttr rAttr ltable rtable d hd, lOrd_length tok lAttr rAttr ltable rtable c hc]
      at hlo hhi
    rw [lOrd_length tok lAttr rAttr ltable rtable c hc] at hne
    exact ⟨hc, hd, Or.inr ⟨hne, he, hearly d hd, hlo, hhi⟩⟩

/-- the informal form of `mem_sizePairs_iff`; it needs that a probe of size 0 finds no non-empty
    row (`upper 0 ≤ 0`), because with `handleEmpty f` an empty right row is never probed at all -/
theorem mem_sizePairs_iff' (hup : handleEmpty f = true → f.cfg.upper 0 ≤ 0) (c d : Nat) :
    (c, d) ∈ sizePairs f tok lAttr rAttr ltable rtable ↔
      c < ltable.length ∧ d < rtable.length ∧
      ((rowToks tok lAttr ltable c = [] ∧ rowToks tok rAttr rtable d = [] ∧ handleEmpty f = true) ∨
       (rowToks tok lAttr ltable c ≠ [] ∧
        f.cfg.lower (rowToks tok rAttr rtable d).length ≤ ((rowToks tok rAttr rtable d).length : Int) ∧
        f.cfg.lower (rowToks tok rAttr rtable d).length ≤ ((rowToks tok lAttr ltable c).length : Int) ∧
        ((rowToks tok lAttr ltable c).length : Int) ≤ f.cfg.upper (rowToks tok rAttr rtable d).length)) := by
  rw [mem_sizePairs_iff]
  unfold SizeEmits
  simp only [← List.length_eq_zero_iff, ne_eq]
  constructor
  · rintro ⟨hc, hd, h | ⟨h1, -, h3⟩⟩
    · exact ⟨hc, hd, Or.inl h⟩
    · exact ⟨hc, hd, Or.inr ⟨h1, h3⟩⟩
  · rintro ⟨hc, hd, h | ⟨h1, h2, h3, h4⟩⟩
    · exact ⟨hc, hd, Or.inl h⟩
    · refine ⟨hc, hd, Or.inr ⟨h1, ?_, h2, h3, h4⟩⟩
      rintro ⟨he, hn⟩
      rw [hn] at h4
      have := hup he
      omega

end Tables

end SSJ

/-
  SSJ.Proofs.GenLoops — the stage-2 generated loop helpers (`SSJ/Gen/Loops.lean`, written by
  tools/py2lean2.py from the Python AST) EQUAL the hand-model functions.

  Method: every `for` loop of the generated `Id.run do` blocks is a `forIn` over a list in `Id`
  whose body always ends in `ForInStep.yield` (there is no `break`/`return` inside the loops), so
  it is a `List.foldl` of its step function (`forIn_id_foldl`, or the simp set `gen2_loop_norm`
  built on core's `List.forIn_pure_yield_eq_foldl`); the folds are then related to the model's
  `filter`/`map`/`dedup`/`foldl`/`zipIdx` definitions by induction.

  Every theorem is stated for ALL arguments, without hypotheses.  A change of the Python loops
  changes `SSJ/Gen/Loops.lean` on regeneration and breaks the corresponding proof below (or is
  refused by the translator): see /tools/robustness_check.py and NOTES.md.
-/
import SSJ.Gen.Loops
import SSJ.Model.Frame
import SSJ.Proofs.TokenOrdering

namespace SSJ.Gen2
open SSJ

/-! ### generic loop lemmas -/

/-- a `for` loop in `Id` with `let mut` state and `continue` (but no `break`/`return`) is the
    `foldl` of its step function -/
theorem forIn_id_foldl {α β : Type} (l : List α) (init : β) (f : α → β → Id (ForInStep β))
    (g : β → α → β) (h : ∀ a b, f a b = pure (ForInStep.yield (g b a))) :
    (forIn l init f : Id β) = pure (l.foldl g init) := by
  have : f = fun a b => pure (ForInStep.yield (g b a)) := by funext a b; exact h a b
  subst this
  exact List.forIn_pure_yield_eq_foldl _ _

theorem ite_pure {β : Type} (c : Prop) [Decidable c] (x y : β) :
    (if c then (pure x : Id β) else pure y) = pure (if c then x else y) := by split <;> rfl

theorem ite_yield {β : Type} (c : Prop) [Decidable c] (x y : β) :
    (if c then ForInStep.yield x else ForInStep.yield y) = ForInStep.yield (if c then x else y) := by
  split <;> rfl

/-- normalise an `Id.run do` block whose loops contain only `if`/`continue`/assignments: every
    `forIn` becomes a `List.foldl` of its (pure) step function -/
macro "gen2_loop_norm" : tactic =>
  `(tactic| simp only [List.forIn_pure_yield_eq_foldl, ite_pure, ite_yield, pure_bind, bind_pure,
      Id.run_pure])

theorem foldl_append_filterMap {α β : Type} (f : α → Option β) (l : List α) (init : List β) :
    l.foldl (fun acc a => match f a with | some b => acc ++ [b] | none => acc) init
      = init ++ l.filterMap f := by
  induction l generalizing init with
  | nil => simp
  | cons x xs ih =>
    rw [List.foldl_cons, ih]
    cases h : f x <;> simp [h]

theorem foldl_append_map {α β : Type} (f : α → β) (l : List α) (init : List β) :
    l.foldl (fun acc a => acc ++ [f a]) init = init ++ l.map f := by
  induction l generalizing init with
  | nil => simp
  | cons x xs ih => rw [List.foldl_cons, ih]; simp

theorem foldl_append_filter {α : Type} (p : α → Bool) (l : List α) (init : List α) :
    l.foldl (fun acc a => if p a then acc ++ [a] else acc) init = init ++ l.filter p := by
  induction l generalizing init with
  | nil => simp
  | cons x xs ih =>
    rw [List.foldl_cons, ih]
    cases h : p x <;> simp [h]

/-- a loop that carries a position counter is a fold over `zipIdx` -/
theorem foldl_counter_zipIdx {α σ : Type} (g : σ → α → Nat → σ) (l : List α) (s : σ) (k : Nat) :
    l.foldl (fun (st : σ × Nat) a => (g st.1 a st.2, st.2 + 1)) (s, k)
      = ((l.zipIdx k).foldl (fun s (p : α × Nat) => g s p.1 p.2) s, k + l.length) := by
  induction l generalizing s k with
  | nil => simp
  | cons x xs ih =>
    rw [List.foldl_cons, ih]
    simp only [List.zipIdx_cons, List.foldl_cons, List.length_cons]
    congr 1; omega

/-! ### 1. `remove_redundant_attrs` -/

private theorem rra_fold (key : String) (l : List String) (u : List String) (seen : List (String × Bool))
    (hinv : ∀ a, (Dict.get? seen a).isSome = true ↔ a ∈ u) :
    (l.foldl (fun (s : List String × List (String × Bool)) attr =>
        if (attr == key || (Dict.get? s.2 attr).isSome) = true then s
        else (s.1 ++ [attr], Dict.set s.2 attr true)) (u, seen)).1
      = (l.filter (· ≠ key)).foldl (fun acc a => if a ∈ acc then acc else acc ++ [a]) u := by
  induction l generalizing u seen with
  | nil => simp
  | cons x xs ih =>
    rw [List.foldl_cons]
    by_cases hk : x = key
    · subst hk
      simp only [beq_self_eq_true, Bool.true_or, if_true]
      rw [ih u seen hinv]
      simp
    · have hf : (x :: xs).filter (· ≠ key) = x :: xs.filter (· ≠ key) := by
        simp [hk]
      rw [hf, List.foldl_cons]
      have hb : (x == key) = false := by simpa using hk
      simp only [hb, Bool.false_or]
      by_cases hs : (Dict.get? seen x).isSome = true
      · have hm : x ∈ u := (hinv x).mp hs
        simp only [hs, if_true, hm]
        exact ih u seen hinv
      · have hm : x ∉ u := fun h => hs ((hinv x).mpr h)
        simp only [hs, hm, if_false]
        apply ih
        intro a
        by_cases ha : x = a
        · subst ha; simp [Dict.get?_set_self]
        · rw [Dict.get?_set_other _ _ _ _ ha, hinv a]
          have : ¬ a = x := fun e => ha e.symm
          simp [this]

theorem remove_redundant_attrs_eq (out_attrs : Option (List String)) (key_attr : String) :
    remove_redundant_attrs out_attrs key_attr = removeRedundantAttrs out_attrs key_attr := by
  unfold remove_redundant_attrs removeRedundantAttrs
  cases out_attrs with
  | none => rfl
  | some l =>
    simp only [Option.isNone_some, Bool.false_eq_true, ↓reduceIte, Option.getD_some, Option.map_some]
    rw [forIn_id_foldl _ _ _ (fun s attr =>
        if (attr == key_attr || (Dict.get? s.2 attr).isSome) = true then s
        else (s.1 ++ [attr], Dict.set s.2 attr true)) (by intro a b; split <;> rfl)]
    simp only [bind_pure_comp, map_pure, Id.run_pure, Option.some.injEq]
    exact rra_fold key_attr l [] [] (by intro a; simp [Dict.get?])

/-! ### 2. `get_attrs_to_project` -/
theorem get_attrs_to_project_eq (out_attrs : Option (List String)) (key_attr join_attr : String) :
    get_attrs_to_project out_attrs key_attr join_attr
      = getAttrsToProject out_attrs key_attr join_attr := by
  unfold get_attrs_to_project getAttrsToProject
  cases out_attrs with
  | none => rfl
  | some l =>
    gen2_loop_norm
    simp only [Option.isSome_some, ↓reduceIte, Option.getD_some]
    rw [foldl_append_filter (fun a => a != join_attr)]
    congr 2
    funext a; by_cases h : a = join_attr <;> simp [bne, h]

/-! ### 3. `find_output_attribute_indices` -/
theorem find_output_attribute_indices_eq (original_columns : List String)
    (output_attributes : Option (List String)) :
    find_output_attribute_indices original_columns output_attributes
      = findOutputAttributeIndices original_columns output_attributes := by
  unfold find_output_attribute_indices findOutputAttributeIndices
  cases output_attributes with
  | none => rfl
  | some l =>
    gen2_loop_norm
    simp only [Option.isSome_some, ↓reduceIte, Option.getD_some]
    rw [foldl_append_map (fun a => List.idxOf a original_columns)]
    simp

/-! ### 4. `get_output_header_from_tables` -/

/-- `if xs: for x in xs: acc.append(f x)` — the truthiness guard is redundant -/
theorem guarded_append_map {α β : Type} (f : α → β) (xs : List α) (acc : List β) :
    (if (!xs.isEmpty) = true then acc ++ xs.map f else acc) = acc ++ xs.map f := by
  cases xs <;> simp

theorem get_output_header_from_tables_eq (l_key_attr r_key_attr : String)
    (l_out_attrs r_out_attrs : Option (List String)) (l_out_prefix r_out_prefix : String) :
    get_output_header_from_tables l_key_attr r_key_attr l_out_attrs r_out_attrs l_out_prefix r_out_prefix
      = getOutputHeader l_key_attr r_key_attr l_out_attrs r_out_attrs l_out_prefix r_out_prefix := by
  unfold get_output_header_from_tables getOutputHeader
  gen2_loop_norm
  simp only [foldl_append_map (fun a => l_out_prefix ++ a), foldl_append_map (fun a => r_out_prefix ++ a),
    guarded_append_map]
  cases hl : (l_out_attrs.getD []) <;> simp

/-! ### 5. `get_output_row_from_tables` -/
theorem get_output_row_from_tables_eq (o : OutCfg) (l r : Row) :
    get_output_row_from_tables l r o.lKey o.rKey o.lOut o.rOut = getOutputRow o l r := by
  unfold get_output_row_from_tables getOutputRow
  gen2_loop_norm
  simp only [foldl_append_map (fun a => Row.cell l a), foldl_append_map (fun a => Row.cell r a),
    guarded_append_map]
  cases hl : o.lOut <;> simp

/-! ### 6. `order_using_token_ordering` -/
theorem order_using_token_ordering_eq (tokens : List String) (token_ordering : List (String × Nat)) :
    order_using_token_ordering tokens token_ordering = orderUsing tokens token_ordering := by
  unfold order_using_token_ordering orderUsing
  gen2_loop_norm
  congr 1
  rw [← List.nil_append (List.filterMap _ _), ← foldl_append_filterMap]
  congr 1
  funext acc token
  cases Dict.get? token_ordering token <;> simp

/-! ### 7. `gen_token_ordering_for_lists` -/
theorem dict_set_of_not_mem {κ ν : Type} [DecidableEq κ] (d : List (κ × ν)) (k : κ) (v : ν)
    (h : k ∉ d.map (·.1)) : Dict.set d k v = d ++ [(k, v)] := by
  induction d with
  | nil => rfl
  | cons p m ih =>
    obtain ⟨k', v'⟩ := p
    simp only [List.map_cons, List.mem_cons, not_or] at h
    have : ¬ k' = k := fun e => h.1 e.symm
    simp [Dict.set, this, ih h.2]

/-- the ranking loop: `token_ordering[t[0]] = order_idx; order_idx += 1` over pairs with distinct keys -/
theorem rank_loop (L : List (String × Nat)) (k : Nat) (acc : List (String × Nat))
    (hnd : ((acc ++ L).map (·.1)).Nodup) :
    (L.foldl (fun (b : Nat × List (String × Nat)) a => (b.1 + 1, Dict.set b.2 a.1 b.1)) (k, acc)).2
      = acc ++ (L.zipIdx k).map (fun p => (p.1.1, p.2)) := by
  induction L generalizing k acc with
  | nil => simp
  | cons x xs ih =>
    have hx : x.1 ∉ acc.map (·.1) := by
      intro hm
      simp only [List.map_append, List.map_cons] at hnd
      exact (List.nodup_append.mp hnd).2.2 _ hm _ (List.mem_cons_self) rfl
    rw [List.foldl_cons]
    simp only [dict_set_of_not_mem _ _ _ hx]
    rw [ih (k + 1) (acc ++ [(x.1, k)]) (by simpa using hnd)]
    simp

/-- the counting loops with the stray `order_idx = 1` -/
private theorem count_inner (ts : List String) (d : List (String × Nat)) (k : Nat) :
    ts.foldl (fun (b : List (String × Nat) × Nat) t => (Dict.set b.1 t (Dict.getD b.1 t 0 + 1), 1)) (d, k)
      = (ts.foldl (fun d t => Dict.set d t (Dict.getD d t 0 + 1)) d, if ts = [] then k else 1) := by
  induction ts generalizing d k with
  | nil => simp
  | cons x xs ih => rw [List.foldl_cons, ih]; simp

private theorem count_outer (lists : List (List String)) (d : List (String × Nat)) (k : Nat) :
    lists.foldl (fun (b : List (String × Nat) × Nat) a =>
        (a.foldl (fun d t => Dict.set d t (Dict.getD d t 0 + 1)) b.1, if a = [] then b.2 else 1)) (d, k)
      = (lists.foldl (fun d l => l.foldl (fun d t => Dict.set d t (Dict.getD d t 0 + 1)) d) d,
         if lists.flatten = [] then k else 1) := by
  induction lists generalizing d k with
  | nil => simp
  | cons l ls ih =>
    rw [List.foldl_cons, ih]
    congr 1
    by_cases h1 : l = [] <;> by_cases h2 : ls.flatten = [] <;> simp [h1, h2]

theorem gen_token_ordering_for_lists_eq (token_lists : List (List String)) :
    gen_token_ordering_for_lists token_lists = genTokenOrdering token_lists := by
  unfold gen_token_ordering_for_lists genTokenOrdering
  gen2_loop_norm
  simp only [count_inner]
  rw [count_outer]
  change (List.foldl _ (_, []) (((tokenFreq token_lists).mergeSort _).mergeSort _)).2 = _
  by_cases hE : token_lists.flatten = []
  · have : tokenFreq token_lists = [] := by
      have h := tokenFreq_get? token_lists
      simp only [hE, List.not_mem_nil, if_false] at h
      cases hf : tokenFreq token_lists with
      | nil => rfl
      | cons p m => have := h p.1; rw [hf] at this; simp [Dict.get?] at this
    simp [this, rankTokens]
  · simp only [hE, if_false]
    rw [rank_loop]
    · unfold rankTokens
      simp only [List.nil_append]
      rw [List.zipIdx_succ]
      simp [List.map_map, Function.comp_def]
    · simp only [List.nil_append]
      exact (((List.mergeSort_perm _ _).trans (List.mergeSort_perm _ _)).map _).nodup_iff.mpr
        (tokenFreq_keys_nodup token_lists)

/-! ### 8. `OverlapFilter.find_candidates` -/
theorem OverlapFilter_find_candidates_eq (probe_tokens : List String) (inverted_index : InvIndex) :
    OverlapFilter_find_candidates probe_tokens inverted_index
      = overlapFindCandidates probe_tokens inverted_index := by
  unfold OverlapFilter_find_candidates overlapFindCandidates
  gen2_loop_norm

/-! ### 9. `PositionFilter.find_candidates` -/
theorem zipIdx_foldl_eq_counter {α σ : Type} (g : σ → α → Nat → σ) (l : List α) (s : σ) :
    l.zipIdx.foldl (fun s (p : α × Nat) => g s p.1 p.2) s
      = (l.foldl (fun (st : σ × Nat) a => (g st.1 a st.2, st.2 + 1)) (s, 0)).1 := by
  rw [foldl_counter_zipIdx]

theorem PositionFilter_find_candidates_eq (self : FilterObj) (probe_tokens : List Nat) (position_index : PosIndex) :
    PositionFilter_find_candidates self probe_tokens position_index
      = positionFindCandidates self probe_tokens position_index := by
  unfold PositionFilter_find_candidates positionFindCandidates
  gen2_loop_norm
  split
  · rfl
  · rw [zipIdx_foldl_eq_counter (fun d t ppos => (probe position_index.index t).foldl (fun d (x : Nat × Nat) =>
        posStep self probe_tokens.length (max (self.cfg.lower probe_tokens.length) position_index.minLength)
          (min (self.cfg.upper probe_tokens.length) position_index.maxLength) position_index.sizeCache d x.1 x.2 ppos) d)]
    congr 2
    funext st tok
    congr 1
    congr 1
    funext d x
    unfold posStep
    simp only [Int.ofNat_eq_natCast, bne_iff_ne, ne_eq, Bool.and_eq_true, decide_eq_true_eq, ge_iff_le]
    split_ifs <;> rfl

/-! ### 10. `PositionIndex.build` -/

/-- `if d.get(k) is None: d[k] = []` ; `d.get(k).append(v)` is the model's `appendAt` -/
theorem ensure_then_append {κ β : Type} [DecidableEq κ] (d : List (κ × List β)) (k : κ) (v : β) :
    (if (Dict.get? d k).isNone = true then
        Dict.set (Dict.set d k []) k ((Dict.get? (Dict.set d k []) k).getD [] ++ [v])
      else Dict.set d k ((Dict.get? d k).getD [] ++ [v])) = appendAt d k v := by
  unfold appendAt Dict.getD
  cases h : Dict.get? d k with
  | some l => simp
  | none =>
    simp only [Option.isNone_none, if_true, Dict.get?_set_self, Option.getD_some, Option.getD_none]
    have hk : k ∉ d.map (·.1) := by
      intro hm
      have := (Dict.get?_isSome_iff d k).mpr hm
      simp [h] at this
    rw [dict_set_of_not_mem d k [] hk, dict_set_of_not_mem d k _ hk]
    clear h
    induction d with
    | nil => simp [Dict.set]
    | cons p m ih =>
      obtain ⟨k', v'⟩ := p
      simp only [List.map_cons, List.mem_cons, not_or] at hk
      have hk' : ¬ k' = k := fun e => hk.1 e.symm
      have := ih hk.2
      simp only [List.nil_append] at this
      simp [Dict.set, hk', this]

private def piInner (rid : Nat) (toks : List Nat) (d : List (Nat × List (Nat × Nat))) :
    List (Nat × List (Nat × Nat)) :=
  toks.zipIdx.foldl (fun d (p : Nat × Nat) => appendAt d p.1 (rid, p.2)) d

private theorem piInner_eq (rid : Nat) (toks : List Nat) (d : List (Nat × List (Nat × Nat))) :
    (toks.foldl (fun (b : List (Nat × List (Nat × Nat)) × Nat) a =>
        if (Dict.get? b.1 a).isNone = true then
          (Dict.set (Dict.set b.1 a []) a ((Dict.get? (Dict.set b.1 a []) a).getD [] ++ [(rid, b.2)]), b.2 + 1)
        else (Dict.set b.1 a ((Dict.get? b.1 a).getD [] ++ [(rid, b.2)]), b.2 + 1)) (d, 0)).1
      = piInner rid toks d := by
  unfold piInner
  rw [zipIdx_foldl_eq_counter (fun d t pos => appendAt d t (rid, pos))]
  congr 2
  funext b a
  rw [← ensure_then_append]
  split <;> rfl

abbrev PiState := Int × Int × List (Nat × List (Nat × Nat)) × List Nat × List (List Nat) × List Nat × Nat

private def piStep (cfg : FCfg) (cacheEmpty cacheTokens : Bool) (b : PiState) (a : List Nat) : PiState :=
  (if (a.length : Int) < b.1 then (a.length : Int) else b.1,
   if (a.length : Int) > b.2.1 then (a.length : Int) else b.2.1,
   piInner b.2.2.2.2.2.2 (pyTake a (cfg.prefixLen a.length)) b.2.2.1,
   b.2.2.2.1 ++ [a.length],
   if cacheTokens then b.2.2.2.2.1 ++ [a] else b.2.2.2.2.1,
   if cacheEmpty && a.length == 0 then b.2.2.2.2.2.1 ++ [b.2.2.2.2.2.2] else b.2.2.2.2.2.1,
   b.2.2.2.2.2.2 + 1)

private theorem piFold (cfg : FCfg) (cacheEmpty cacheTokens : Bool) (L : List (List Nat))
    (mn mx : Int) (idx : List (Nat × List (Nat × Nat))) (sc : List Nat) (ct : List (List Nat))
    (er : List Nat) (rid : Nat) :
    L.foldl (piStep cfg cacheEmpty cacheTokens) (mn, mx, idx, sc, ct, er, rid) =
      ((L.map List.length).foldl (fun (m : Int) (n : Nat) => if (n : Int) < m then (n : Int) else m) mn,
       (L.map List.length).foldl (fun (m : Int) (n : Nat) => if (n : Int) > m then (n : Int) else m) mx,
       (L.zipIdx rid).foldl (fun d (p : List Nat × Nat) =>
          piInner p.2 (pyTake p.1 (cfg.prefixLen p.1.length)) d) idx,
       sc ++ L.map List.length,
       ct ++ (if cacheTokens then L else []),
       er ++ (if cacheEmpty then ((L.map List.length).zipIdx rid).filterMap
                (fun (p : Nat × Nat) => if p.1 = 0 then some p.2 else none) else []),
       rid + L.length) := by
  induction L generalizing mn mx idx sc ct er rid with
  | nil => simp
  | cons a as ih =>
    rw [List.foldl_cons, piStep, ih]
    simp only [List.map_cons, List.foldl_cons, List.zipIdx_cons, List.length_cons]
    refine Prod.ext rfl (Prod.ext rfl (Prod.ext rfl (Prod.ext (by simp) (Prod.ext ?_ (Prod.ext ?_ (by simp; omega))))))
    · cases cacheTokens <;> simp
    · cases cacheEmpty <;> simp
      by_cases h0 : a = [] <;> simp [h0]

private theorem pi_main (cfg : FCfg) (cacheEmpty cacheTokens : Bool) (L : List (List Nat))
    (F : PiState → List Nat → PiState) (hF : ∀ b a, F b a = piStep cfg cacheEmpty cacheTokens b a) :
    ({ index := (L.foldl F (maxsize, 0, [], [], [], [], 0)).2.2.1,
       sizeCache := (L.foldl F (maxsize, 0, [], [], [], [], 0)).2.2.2.1,
       minLength := (L.foldl F (maxsize, 0, [], [], [], [], 0)).1,
       maxLength := (L.foldl F (maxsize, 0, [], [], [], [], 0)).2.1,
       cachedTokens := (L.foldl F (maxsize, 0, [], [], [], [], 0)).2.2.2.2.1,
       emptyRecords := (L.foldl F (maxsize, 0, [], [], [], [], 0)).2.2.2.2.2.1 } : PosIndex)
      = PosIndex.build cfg L cacheEmpty cacheTokens := by
  have : F = piStep cfg cacheEmpty cacheTokens := by funext b a; exact hF b a
  subst this
  rw [piFold]
  unfold PosIndex.build posPostings minLength maxLength emptyRecords piInner
  simp only [List.nil_append]

theorem PositionIndex_build_eq (cfg : FCfg) (ordToks : List (List Nat)) (cacheEmpty cacheTokens : Bool) :
    PositionIndex_build cfg ordToks cacheEmpty cacheTokens = PosIndex.build cfg ordToks cacheEmpty cacheTokens := by
  unfold PositionIndex_build
  gen2_loop_norm
  simp only [piInner_eq]
  refine pi_main cfg cacheEmpty cacheTokens ordToks _ ?_
  intro b a
  unfold piStep
  simp only [Int.ofNat_eq_natCast, decide_eq_true_eq]
  split_ifs <;> rfl

end SSJ.Gen2

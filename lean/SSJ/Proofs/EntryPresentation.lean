/-
  SSJ.Proofs.EntryPresentation — helpers for the second half of property C10: the result of the join /
  `filter_tables` entry points does not depend on how the two input tables are PRESENTED.

  * `EP.Agree S f g`: the frames `f` and `g` show the same thing to a call that refers to the columns `S` only
    (same membership / dtype of these columns, the same cells under these labels, row by row).  Nothing is said about
    `Frame.index`, about other columns, or about the order of the columns.
  * validation (`validateTablesAttrs`, `validateOutAndKeys`, `validateJoin`) and `runTables` give the same verdict /
    the same frame on agreeing tables; hence every entry point returns the same outcome (`*_agree`).
  * instances: another index (`agree_withIndex`), an extra trailing column on a well-formed frame
    (`agree_of_extraColumn`).
  * row permutations: validation is insensitive to the order of the rows (`vsame_of_perm`); the exact joins return
    duplicate-free payloads characterised by membership of the source rows (`Expected`), hence permuted tables give
    permuted results (`perm_of_expected`).
-/
import SSJ.Proofs.EntryGeneric
import SSJ.Proofs.BodyOK
import SSJ.Proofs.EntryExact
import SSJ.Proofs.EntryED
import Mathlib.Data.List.Forall2
import Mathlib.Data.List.Perm.Basic

namespace SSJ
namespace EP
open SSJ.Props

/-! ## 0. list helpers -/

theorem forall₂_filter {α β : Type} {R : α → β → Prop} {p : α → Bool} {q : β → Bool}
    (h : ∀ x y, R x y → p x = q y) {xs : List α} {ys : List β} (hxy : List.Forall₂ R xs ys) :
    List.Forall₂ R (xs.filter p) (ys.filter q) := by
  induction hxy with
  | nil => exact List.Forall₂.nil
  | cons hab _ ih =>
    rw [List.filter_cons, List.filter_cons, h _ _ hab]
    split
    · exact List.Forall₂.cons hab ih
    · exact ih

theorem forall₂_map_eq {α β γ : Type} {R : α → β → Prop} {f : α → γ} {g : β → γ}
    (h : ∀ x y, R x y → f x = g y) {xs : List α} {ys : List β} (hxy : List.Forall₂ R xs ys) :
    xs.map f = ys.map g := by
  induction hxy with
  | nil => rfl
  | cons hab _ ih => rw [List.map_cons, List.map_cons, h _ _ hab, ih]

theorem forall₂_flatMap_eq {α β γ : Type} {R : α → β → Prop} {f : α → List γ} {g : β → List γ}
    (h : ∀ x y, R x y → f x = g y) {xs : List α} {ys : List β} (hxy : List.Forall₂ R xs ys) :
    xs.flatMap f = ys.flatMap g := by
  induction hxy with
  | nil => rfl
  | cons hab _ ih => rw [List.flatMap_cons, List.flatMap_cons, h _ _ hab, ih]

theorem any_congr_mem {α : Type} (L : List α) (p q : α → Bool) (h : ∀ x ∈ L, p x = q x) : L.any p = L.any q := by
  induction L with
  | nil => rfl
  | cons x L ih =>
    rw [List.any_cons, List.any_cons, h x List.mem_cons_self, ih (fun y hy => h y (List.mem_cons_of_mem _ hy))]

/-! ## 1. the columns a call refers to; tables replaced -/

/-- the column labels of the left / right table a call refers to: key, join attribute, requested output attributes -/
def lUsed (a : TableArgs) : List String := a.lKey :: a.lAttr :: a.lOut.getD []
def rUsed (a : TableArgs) : List String := a.rKey :: a.rAttr :: a.rOut.getD []

end EP

/-- the same table arguments with other tables -/
def TableArgs.withTables (a : TableArgs) (l r : Frame) : TableArgs := { a with ltable := some l, rtable := some r }

/-- the same join arguments with other tables -/
def JoinArgs.withTables (a : JoinArgs) (l r : Frame) : JoinArgs := { a with ltable := some l, rtable := some r }

/-- the same frame with other index labels -/
def Frame.withIndex (f : Frame) (idx : List Cell) : Frame := { f with index := idx }

theorem JoinArgs.withTables_toTableArgs (a : JoinArgs) (l r : Frame) :
    (a.withTables l r).toTableArgs = a.toTableArgs.withTables l r := rfl

namespace EP
open SSJ.Props

/-! ## 2. validation looks at the tables through a few tests only -/

/-- the tests the validations perform on the tables have the same outcome on `l, r` and on `l', r'` -/
structure VSame (a : TableArgs) (l r l' r' : Frame) : Prop where
  lHas : ∀ c ∈ lUsed a, l.hasCol c = l'.hasCol c
  rHas : ∀ c ∈ rUsed a, r.hasCol c = r'.hasCol c
  lType : l.dtype a.lAttr = l'.dtype a.lAttr
  rType : r.dtype a.rAttr = r'.dtype a.rAttr
  lKeyT : keyTest l a.lKey = keyTest l' a.lKey
  rKeyT : keyTest r a.rKey = keyTest r' a.rKey

theorem validateTablesAttrs_vsame (a : TableArgs) (l r l' r' : Frame) (hl : a.ltable = some l)
    (hr : a.rtable = some r) (h : VSame a l r l' r') :
    validateTablesAttrs (a.withTables l' r') = (validateTablesAttrs a).map (fun _ => (l', r')) := by
  rw [validateTablesAttrs_some a l r hl hr, validateTablesAttrs_some (a.withTables l' r') l' r' rfl rfl]
  show (if !l'.hasCol a.lKey then _ else if !r'.hasCol a.rKey then _ else if !l'.hasCol a.lAttr then _
    else if !r'.hasCol a.rAttr then _ else if (l'.dtype a.lAttr != "object" && l'.dtype a.lAttr != "str") then _
    else if (r'.dtype a.rAttr != "object" && r'.dtype a.rAttr != "str") then _ else _) = _
  rw [← h.lHas a.lKey (by simp [lUsed]), ← h.rHas a.rKey (by simp [rUsed]), ← h.lHas a.lAttr (by simp [lUsed]),
    ← h.rHas a.rAttr (by simp [rUsed]), ← h.lType, ← h.rType]
  split_ifs <;> rfl

theorem validateOutAndKeys_eq_ite (a : TableArgs) (l r : Frame) :
    validateOutAndKeys a l r =
      if (a.lOut.getD []).any (fun x => !l.hasCol x) then .error .assertion
      else if (a.rOut.getD []).any (fun x => !r.hasCol x) then .error .assertion
      else if !keyTest l a.lKey then .error .assertion
      else if !keyTest r a.rKey then .error .assertion
      else .ok () := by
  have h := validateOutAndKeys_bind a l r (fun u => (pure u : Except PyErr Unit))
  rw [bind_pure] at h
  exact h

theorem validateOutAndKeys_vsame (a : TableArgs) (l r l' r' : Frame) (h : VSame a l r l' r') :
    validateOutAndKeys (a.withTables l' r') l' r' = validateOutAndKeys a l r := by
  rw [validateOutAndKeys_eq_ite, validateOutAndKeys_eq_ite]
  show (if ((a.lOut.getD []).any fun x => !l'.hasCol x) then _ else if ((a.rOut.getD []).any fun x => !r'.hasCol x) then _
    else if !keyTest l' a.lKey then _ else if !keyTest r' a.rKey then _ else _) = _
  rw [← h.lKeyT, ← h.rKeyT,
    any_congr_mem (a.lOut.getD []) (fun x => !l'.hasCol x) (fun x => !l.hasCol x)
      (fun x hx => by rw [h.lHas x (by simp [lUsed, hx])]),
    any_congr_mem (a.rOut.getD []) (fun x => !r'.hasCol x) (fun x => !r.hasCol x)
      (fun x hx => by rw [h.rHas x (by simp [rUsed, hx])])]

/-- `validateJoin` gives the same verdict, and returns the replaced tables -/
theorem validateJoin_vsame (mname : String) (a : JoinArgs) (t : TokObj) (l r l' r' : Frame)
    (hl : a.ltable = some l) (hr : a.rtable = some r) (h : VSame a.toTableArgs l r l' r') :
    validateJoin mname (a.withTables l' r') t = (validateJoin mname a t).map (fun _ => (l', r')) := by
  rw [validateJoin_eq, validateJoin_eq, JoinArgs.withTables_toTableArgs,
    validateTablesAttrs_vsame a.toTableArgs l r l' r' hl hr h]
  cases hv : validateTablesAttrs a.toTableArgs with
  | error e => rfl
  | ok p =>
    have hp : p = (l, r) := by
      obtain ⟨p1, p2⟩ := p
      have ht := (validateTablesAttrs_ok_iff _ _ _).1 hv
      have e1 := ht.ltable
      have e2 := ht.rtable
      rw [hl] at e1; rw [hr] at e2
      cases e1; cases e2; rfl
    subst hp
    show (tokCheck mname t >>= fun _ =>
        genCheck (Gen.validate_threshold a.threshold (.str mname)) >>= fun _ =>
        genCheck (Gen.validate_comp_op_for_sim_measure (.str a.compOp) (.str mname)) >>= fun _ =>
        validateOutAndKeys (a.toTableArgs.withTables l' r') l' r' >>= fun _ => pure (l', r')) = _
    rw [validateOutAndKeys_vsame a.toTableArgs l r l' r' h]
    show _ = Except.map (fun _ => (l', r')) (tokCheck mname t >>= fun _ =>
        genCheck (Gen.validate_threshold a.threshold (.str mname)) >>= fun _ =>
        genCheck (Gen.validate_comp_op_for_sim_measure (.str a.compOp) (.str mname)) >>= fun _ =>
        validateOutAndKeys a.toTableArgs l r >>= fun _ => pure (l, r))
    generalize tokCheck mname t = x1
    generalize genCheck (Gen.validate_threshold a.threshold (.str mname)) = x2
    generalize genCheck (Gen.validate_comp_op_for_sim_measure (.str a.compOp) (.str mname)) = x3
    generalize validateOutAndKeys a.toTableArgs l r = x4
    cases x1 <;> cases x2 <;> cases x3 <;> cases x4 <;> rfl

/-! ## 3. frames that agree on the columns a call refers to -/

/-- `f` and `g` show the same to a call that refers to the columns `S` only: each label of `S` is a column of both or
    of neither, with the same dtype, and row by row the cells under these labels coincide.  (Other columns, the order
    of the columns and `Frame.index` are unconstrained.) -/
structure Agree (S : List String) (f g : Frame) : Prop where
  hasCol : ∀ c ∈ S, f.hasCol c = g.hasCol c
  dtype : ∀ c ∈ S, f.dtype c = g.dtype c
  rows : List.Forall₂ (fun x y => ∀ c ∈ S, Row.cell x (f.colIdx c) = Row.cell y (g.colIdx c)) f.rows g.rows

theorem Agree.col {S : List String} {f g : Frame} (h : Agree S f g) (c : String) (hc : c ∈ S) : f.col c = g.col c :=
  forall₂_map_eq (fun _ _ hxy => hxy c hc) h.rows

theorem Agree.keyTest {S : List String} {f g : Frame} (h : Agree S f g) (c : String) (hc : c ∈ S) :
    keyTest f c = keyTest g c := by
  unfold SSJ.keyTest
  rw [h.col c hc]

theorem vsame_of_agree (a : TableArgs) (l r l' r' : Frame) (hL : Agree (lUsed a) l l') (hR : Agree (rUsed a) r r') :
    VSame a l r l' r' :=
  ⟨hL.hasCol, hR.hasCol, hL.dtype _ (by simp [lUsed]), hR.dtype _ (by simp [rUsed]),
    hL.keyTest _ (by simp [lUsed]), hR.keyTest _ (by simp [rUsed])⟩

theorem mem_lUsed_of_lOut (a : TableArgs) (c : String) (h : c ∈ (RT.lOut a).getD []) : c ∈ lUsed a := by
  unfold RT.lOut at h
  cases ho : a.lOut with
  | none => rw [ho] at h; simp [removeRedundantAttrs] at h
  | some out =>
    rw [ho] at h
    obtain ⟨l, hl, _, _, hmem, _⟩ := removeRedundantAttrs_spec out a.lKey
    rw [hl] at h
    have := ((hmem c).1 h).1
    simp [lUsed, ho, this]

theorem mem_rUsed_of_rOut (a : TableArgs) (c : String) (h : c ∈ (RT.rOut a).getD []) : c ∈ rUsed a := by
  unfold RT.rOut at h
  cases ho : a.rOut with
  | none => rw [ho] at h; simp [removeRedundantAttrs] at h
  | some out =>
    rw [ho] at h
    obtain ⟨l, hl, _, _, hmem, _⟩ := removeRedundantAttrs_spec out a.rKey
    rw [hl] at h
    have := ((hmem c).1 h).1
    simp [rUsed, ho, this]

theorem mem_lUsed_of_lProj (a : TableArgs) (c : String) (h : c ∈ RT.lProj a) : c ∈ lUsed a := by
  rcases (mem_getAttrsToProject _ _ _ _).1 h with rfl | rfl | h
  · simp [lUsed]
  · simp [lUsed]
  · exact mem_lUsed_of_lOut a c h

theorem mem_rUsed_of_rProj (a : TableArgs) (c : String) (h : c ∈ RT.rProj a) : c ∈ rUsed a := by
  rcases (mem_getAttrsToProject _ _ _ _).1 h with rfl | rfl | h
  · simp [rUsed]
  · simp [rUsed]
  · exact mem_rUsed_of_rOut a c h

/-- the projected left array is the same -/
theorem lArr_agree (a : TableArgs) (l l' : Frame) (h : Agree (lUsed a) l l') : RT.lArr a l = RT.lArr a l' := by
  rw [RT.lArr_eq, RT.lArr_eq]
  refine forall₂_map_eq ?_ (forall₂_filter ?_ h.rows)
  · intro x y hxy
    show ((RT.lProj a).map l.colIdx).map x.cell = ((RT.lProj a).map l'.colIdx).map y.cell
    rw [List.map_map, List.map_map]
    exact List.map_congr_left (fun c hc => hxy c (mem_lUsed_of_lProj a c hc))
  · intro x y hxy
    show (!(Row.cell x (l.colIdx a.lAttr)).isMissing) = !(Row.cell y (l'.colIdx a.lAttr)).isMissing
    rw [hxy a.lAttr (by simp [lUsed])]

theorem rArr_agree (a : TableArgs) (r r' : Frame) (h : Agree (rUsed a) r r') : RT.rArr a r = RT.rArr a r' := by
  rw [RT.rArr_eq, RT.rArr_eq]
  refine forall₂_map_eq ?_ (forall₂_filter ?_ h.rows)
  · intro x y hxy
    show ((RT.rProj a).map r.colIdx).map x.cell = ((RT.rProj a).map r'.colIdx).map y.cell
    rw [List.map_map, List.map_map]
    exact List.map_congr_left (fun c hc => hxy c (mem_rUsed_of_rProj a c hc))
  · intro x y hxy
    show (!(Row.cell x (r.colIdx a.rAttr)).isMissing) = !(Row.cell y (r'.colIdx a.rAttr)).isMissing
    rw [hxy a.rAttr (by simp [rUsed])]

/-- the row `get_pairs_with_missing_value` emits for two related pairs of rows is the same -/
theorem missingRow_agree (a : TableArgs) (l r l' r' : Frame) (oss : Bool) (x y x' y' : Row)
    (hx : ∀ c ∈ lUsed a, Row.cell x (l.colIdx c) = Row.cell x' (l'.colIdx c))
    (hy : ∀ c ∈ rUsed a, Row.cell y (r.colIdx c) = Row.cell y' (r'.colIdx c)) :
    missingRow (RT.missOut a l r) oss x y = missingRow (RT.missOut a l' r') oss x' y' := by
  rw [RT.missingRow_faithful, RT.missingRow_faithful, hx a.lKey (by simp [lUsed]), hy a.rKey (by simp [rUsed]),
    List.map_congr_left (fun c hc => hx c (mem_lUsed_of_lOut a c hc)),
    List.map_congr_left (fun c hc => hy c (mem_rUsed_of_rOut a c hc))]

/-- the missing-value rows are the same -/
theorem missingRows_agree (a : TableArgs) (l r l' r' : Frame) (oss : Bool)
    (hL : Agree (lUsed a) l l') (hR : Agree (rUsed a) r r') :
    RT.missingRows a l r oss = RT.missingRows a l' r' oss := by
  have hlm : ∀ x y, (∀ c ∈ lUsed a, Row.cell x (l.colIdx c) = Row.cell y (l'.colIdx c)) →
      (Row.cell x (l.colIdx a.lAttr)).isMissing = (Row.cell y (l'.colIdx a.lAttr)).isMissing :=
    fun x y hxy => by rw [hxy a.lAttr (by simp [lUsed])]
  have hrm : ∀ x y, (∀ c ∈ rUsed a, Row.cell x (r.colIdx c) = Row.cell y (r'.colIdx c)) →
      (Row.cell x (r.colIdx a.rAttr)).isMissing = (Row.cell y (r'.colIdx a.rAttr)).isMissing :=
    fun x y hxy => by rw [hxy a.rAttr (by simp [rUsed])]
  unfold RT.missingRows
  congr 1
  · refine forall₂_flatMap_eq ?_ (forall₂_filter hlm hL.rows)
    intro x x' hx
    exact forall₂_map_eq (fun y y' hy => missingRow_agree a l r l' r' oss x y x' y' hx hy) hR.rows
  · refine forall₂_flatMap_eq ?_ (forall₂_filter hrm hR.rows)
    intro y y' hy
    refine forall₂_map_eq (fun x x' hx => missingRow_agree a l r l' r' oss x y x' y' hx hy)
      (forall₂_filter (fun x x' hx => ?_) hL.rows)
    rw [hlm x x' hx]

/-- `runTables` does not read `a.ltable` / `a.rtable` -/
theorem runTables_withTables (a : TableArgs) (l0 r0 l r : Frame) (am oss : Bool) (cpu : Int) (work : Work) :
    runTables (a.withTables l0 r0) l r am oss cpu work = runTables a l r am oss cpu work := rfl

/-- RUNTABLES: agreeing tables, same result frame (columns, index, rows, `_id`s — everything) -/
theorem runTables_agree (a : TableArgs) (l r l' r' : Frame) (am oss : Bool) (cpu : Int) (work : Work)
    (hL : Agree (lUsed a) l l') (hR : Agree (rUsed a) r r') :
    runTables a l' r' am oss cpu work = runTables a l r am oss cpu work := by
  rw [runTables_unfold, runTables_unfold, RT.getPairsWithMissingValue_eq, RT.getPairsWithMissingValue_eq,
    lArr_agree a l l' hL, rArr_agree a r r' hR, missingRows_agree a l r l' r' oss hL hR]

/-! ## 4. the entry points on agreeing tables -/

section Entry
variable (a : JoinArgs) (t : TokObj) (toks : TokFn) (cpu : Int) (l r l' r' : Frame)

theorem tables_of_validateJoin (mname : String) (hl : a.ltable = some l) (hr : a.rtable = some r) (l0 r0 : Frame)
    (hv : validateJoin mname a t = .ok (l0, r0)) : l0 = l ∧ r0 = r := by
  obtain ⟨ht, _⟩ := (validateJoin_ok_iff mname a t l0 r0).1 hv
  have e1 := ht.ltable
  have e2 := ht.rtable
  rw [hl] at e1; rw [hr] at e2
  cases e1; cases e2; exact ⟨rfl, rfl⟩

theorem setSimJoinPy_agree (m : Measure) (hl : a.ltable = some l) (hr : a.rtable = some r)
    (hL : Agree (lUsed a.toTableArgs) l l') (hR : Agree (rUsed a.toTableArgs) r r') :
    setSimJoinPy m (a.withTables l' r') t toks cpu = setSimJoinPy m a t toks cpu := by
  unfold setSimJoinPy
  rw [validateJoin_vsame m.name a t l r l' r' hl hr (vsame_of_agree _ l r l' r' hL hR)]
  cases hv : validateJoin m.name a t with
  | error e => rfl
  | ok p =>
    obtain ⟨l0, r0⟩ := p
    obtain ⟨rfl, rfl⟩ := tables_of_validateJoin a t l r m.name hl hr l0 r0 hv
    simp only [Except.map]
    rw [JoinArgs.withTables_toTableArgs, runTables_withTables, runTables_agree a.toTableArgs l0 r0 l' r' _ _ _ _ hL hR]
    rfl

theorem overlapCoefficientJoinPy_agree (hl : a.ltable = some l) (hr : a.rtable = some r)
    (hL : Agree (lUsed a.toTableArgs) l l') (hR : Agree (rUsed a.toTableArgs) r r') :
    overlapCoefficientJoinPy (a.withTables l' r') t toks cpu = overlapCoefficientJoinPy a t toks cpu := by
  unfold overlapCoefficientJoinPy
  rw [validateJoin_vsame _ a t l r l' r' hl hr (vsame_of_agree _ l r l' r' hL hR)]
  cases hv : validateJoin "OVERLAP_COEFFICIENT" a t with
  | error e => rfl
  | ok p =>
    obtain ⟨l0, r0⟩ := p
    obtain ⟨rfl, rfl⟩ := tables_of_validateJoin a t l r _ hl hr l0 r0 hv
    simp only [Except.map]
    rw [JoinArgs.withTables_toTableArgs, runTables_withTables, runTables_agree a.toTableArgs l0 r0 l' r' _ _ _ _ hL hR]
    rfl

theorem editDistanceJoinPy_agree (hl : a.ltable = some l) (hr : a.rtable = some r)
    (hL : Agree (lUsed a.toTableArgs) l l') (hR : Agree (rUsed a.toTableArgs) r r') :
    editDistanceJoinPy (a.withTables l' r') t toks cpu = editDistanceJoinPy a t toks cpu := by
  unfold editDistanceJoinPy
  rw [validateJoin_vsame _ a t l r l' r' hl hr (vsame_of_agree _ l r l' r' hL hR)]
  cases hv : validateJoin "EDIT_DISTANCE" a t with
  | error e => rfl
  | ok p =>
    obtain ⟨l0, r0⟩ := p
    obtain ⟨rfl, rfl⟩ := tables_of_validateJoin a t l r _ hl hr l0 r0 hv
    simp only [Except.map]
    simp only [JoinArgs.withTables_toTableArgs, runTables_withTables, runTables_agree a.toTableArgs l0 r0 l' r' _ _ _ _ hL hR]
    rfl

end Entry

section Tables
variable (a : TableArgs) (l r l' r' : Frame)

theorem validated_run_agree (hl : a.ltable = some l) (hr : a.rtable = some r)
    (hL : Agree (lUsed a) l l') (hR : Agree (rUsed a) r r') (am oss : Bool) (cpu : Int) (work : Work) :
    (do let (l, r) ← validateTablesAttrs (a.withTables l' r')
        validateOutAndKeys (a.withTables l' r') l r
        runTables (a.withTables l' r') l r am oss cpu work) =
    (do let (l, r) ← validateTablesAttrs a
        validateOutAndKeys a l r
        runTables a l r am oss cpu work) := by
  have hvs := vsame_of_agree a l r l' r' hL hR
  rw [validateTablesAttrs_vsame a l r l' r' hl hr hvs]
  cases hv : validateTablesAttrs a with
  | error e => rfl
  | ok p =>
    have hp : p = (l, r) := by
      obtain ⟨p1, p2⟩ := p
      have ht := (validateTablesAttrs_ok_iff _ _ _).1 hv
      have e1 := ht.ltable
      have e2 := ht.rtable
      rw [hl] at e1; rw [hr] at e2
      cases e1; cases e2; rfl
    subst hp
    show (validateOutAndKeys (a.withTables l' r') l' r' >>= fun _ =>
      runTables (a.withTables l' r') l' r' am oss cpu work) = _
    rw [validateOutAndKeys_vsame a l r l' r' hvs, runTables_withTables, runTables_agree a l r l' r' _ _ _ _ hL hR]
    rfl

theorem filterTables_agree (k : FilterKind) (f : FilterObj) (t : TokObj) (toks : TokFn) (cpu : Int)
    (hl : a.ltable = some l) (hr : a.rtable = some r)
    (hL : Agree (lUsed a) l l') (hR : Agree (rUsed a) r r') :
    filterTables k f (a.withTables l' r') t toks cpu = filterTables k f a t toks cpu :=
  validated_run_agree a l r l' r' hl hr hL hR _ _ _ _

theorem overlapFilterTables_agree (f : OverlapFilterObj) (oss : Bool) (tok : String → List Tok) (cpu : Int)
    (hl : a.ltable = some l) (hr : a.rtable = some r)
    (hL : Agree (lUsed a) l l') (hR : Agree (rUsed a) r r') :
    overlapFilterTables f (a.withTables l' r') oss tok cpu = overlapFilterTables f a oss tok cpu :=
  validated_run_agree a l r l' r' hl hr hL hR _ _ _ _

end Tables

theorem overlapJoinPy_agree (a : JoinArgs) (t : TokObj) (toks : TokFn) (cpu : Int) (l r l' r' : Frame)
    (hl : a.ltable = some l) (hr : a.rtable = some r)
    (hL : Agree (lUsed a.toTableArgs) l l') (hR : Agree (rUsed a.toTableArgs) r r') :
    overlapJoinPy (a.withTables l' r') t toks cpu = overlapJoinPy a t toks cpu := by
  unfold overlapJoinPy
  have h : ∀ f, overlapFilterTables f (a.withTables l' r').toTableArgs (a.withTables l' r').outSimScore (toks true) cpu =
      overlapFilterTables f a.toTableArgs a.outSimScore (toks true) cpu :=
    fun f => overlapFilterTables_agree a.toTableArgs l r l' r' f a.outSimScore (toks true) cpu hl hr hL hR
  simp only [h]
  rfl

/-! ## 5. instances: another index, an extra column -/

theorem agree_refl_of (S : List String) (f g : Frame) (hc : g.columns = f.columns) (hd : g.dtypes = f.dtypes)
    (hr : g.rows = f.rows) : Agree S f g := by
  have hidx : ∀ c, g.colIdx c = f.colIdx c := fun c => by unfold Frame.colIdx; rw [hc]
  refine ⟨fun c _ => by unfold Frame.hasCol; rw [hc], fun c _ => by unfold Frame.dtype; rw [hd, hidx], ?_⟩
  rw [hr]
  exact List.forall₂_same.2 (fun x _ c _ => by rw [hidx])

/-- the index labels are invisible -/
theorem agree_withIndex (S : List String) (f : Frame) (idx : List Cell) : Agree S f (f.withIndex idx) :=
  agree_refl_of S f _ rfl rfl rfl

/-- a frame as pandas builds it: one dtype per column, every row as wide as the header -/
structure WellFormed (f : Frame) : Prop where
  dtypes : f.dtypes.length = f.columns.length
  rows : ∀ row ∈ f.rows, row.length = f.columns.length

/-- `f'` is `f` with one more column appended: a label `c` that `f` does not have, some dtype, one more cell at the
    end of every row -/
structure ExtraColumn (f f' : Frame) (c : String) : Prop where
  fresh : c ∉ f.columns
  columns : f'.columns = f.columns ++ [c]
  dtypes : ∃ d, f'.dtypes = f.dtypes ++ [d]
  rows : List.Forall₂ (fun x y => ∃ v, y = x ++ [v]) f.rows f'.rows

theorem forall₂_imp_mem {α β : Type} {R T : α → β → Prop} {xs : List α} {ys : List β} (h : List.Forall₂ R xs ys)
    (himp : ∀ x ∈ xs, ∀ y, R x y → T x y) : List.Forall₂ T xs ys := by
  induction h with
  | nil => exact List.Forall₂.nil
  | cons hab _ ih =>
    exact List.Forall₂.cons (himp _ List.mem_cons_self _ hab)
      (ih (fun x hx y hxy => himp x (List.mem_cons_of_mem _ hx) y hxy))

theorem getD_append_left' {α : Type} (l m : List α) (i : Nat) (d : α) (h : i < l.length) :
    (l ++ m).getD i d = l.getD i d := by
  rw [List.getD_eq_getElem?_getD, List.getD_eq_getElem?_getD, List.getElem?_append_left h]

theorem getD_beyond {α : Type} (l : List α) (i : Nat) (d : α) (h : l.length ≤ i) : l.getD i d = d := by
  rw [List.getD_eq_getElem?_getD, List.getElem?_eq_none h]
  rfl

/-- an extra trailing column that the call does not refer to is invisible (on a well-formed frame) -/
theorem agree_of_extraColumn (S : List String) (f f' : Frame) (c : String) (hS : c ∉ S) (wf : WellFormed f)
    (h : ExtraColumn f f' c) : Agree S f f' := by
  obtain ⟨d, hd⟩ := h.dtypes
  have hne : ∀ a ∈ S, a ≠ c := fun a ha hac => hS (hac ▸ ha)
  -- position of a label in the longer header
  have hidx_mem : ∀ a, a ∈ f.columns → f'.colIdx a = f.colIdx a ∧ f.colIdx a < f.columns.length := by
    intro a ha
    unfold Frame.colIdx
    rw [h.columns, List.idxOf_append_of_mem ha]
    exact ⟨rfl, List.idxOf_lt_length_iff.2 ha⟩
  have hidx_not : ∀ a, a ≠ c → a ∉ f.columns →
      f.colIdx a = f.columns.length ∧ f'.colIdx a = f.columns.length + 1 := by
    intro a hac ha
    unfold Frame.colIdx
    rw [h.columns, List.idxOf_append_of_notMem ha, List.idxOf_of_notMem ha]
    refine ⟨rfl, ?_⟩
    rw [List.idxOf_of_notMem (by simpa using hac)]
    rfl
  refine ⟨?_, ?_, ?_⟩
  · intro a ha
    unfold Frame.hasCol
    rw [h.columns]
    have : a ≠ c := hne a ha
    simp [this]
  · intro a ha
    unfold Frame.dtype
    rw [hd]
    by_cases hm : a ∈ f.columns
    · obtain ⟨e, hlt⟩ := hidx_mem a hm
      rw [e, getD_append_left' _ _ _ _ (by rw [wf.dtypes]; exact hlt)]
    · obtain ⟨e1, e2⟩ := hidx_not a (hne a ha) hm
      rw [e1, e2, getD_beyond _ _ _ (by rw [wf.dtypes]),
        getD_beyond _ _ _ (by rw [List.length_append, wf.dtypes]; exact Nat.le_refl _)]
  · refine forall₂_imp_mem h.rows ?_
    rintro x hx y ⟨v, rfl⟩ a ha
    have hxl := wf.rows x hx
    unfold Row.cell
    by_cases hm : a ∈ f.columns
    · obtain ⟨e, hlt⟩ := hidx_mem a hm
      rw [e, getD_append_left' _ _ _ _ (by rw [hxl]; exact hlt)]
    · obtain ⟨e1, e2⟩ := hidx_not a (hne a ha) hm
      rw [e1, e2, getD_beyond _ _ _ (by rw [hxl]),
        getD_beyond _ _ _ (by rw [List.length_append, hxl]; exact Nat.le_refl _)]

/-! ## 6. row permutations: validation -/

theorem keyTest_perm (f g : Frame) (k : String) (hc : g.columns = f.columns) (hp : g.rows.Perm f.rows) :
    keyTest f k = keyTest g k := by
  have hcol : (g.col k).Perm (f.col k) := by
    unfold Frame.col Frame.colIdx
    rw [hc]
    exact hp.map _
  rw [Bool.eq_iff_iff, keyTest_iff, keyTest_iff]
  unfold KeyValid
  rw [PyDistinct.perm hcol]
  constructor
  · rintro ⟨h1, h2⟩
    exact ⟨h1, fun c hc => h2 c (hcol.mem_iff.1 hc)⟩
  · rintro ⟨h1, h2⟩
    exact ⟨h1, fun c hc => h2 c (hcol.mem_iff.2 hc)⟩

/-- validation does not look at the order of the rows (nor at the index) -/
theorem vsame_of_perm (a : TableArgs) (l r l' r' : Frame)
    (hcl : l'.columns = l.columns) (hdl : l'.dtypes = l.dtypes) (hpl : l'.rows.Perm l.rows)
    (hcr : r'.columns = r.columns) (hdr : r'.dtypes = r.dtypes) (hpr : r'.rows.Perm r.rows) :
    VSame a l r l' r' := by
  refine ⟨fun c _ => ?_, fun c _ => ?_, ?_, ?_, keyTest_perm l l' _ hcl hpl, keyTest_perm r r' _ hcr hpr⟩
  · unfold Frame.hasCol; rw [hcl]
  · unfold Frame.hasCol; rw [hcr]
  · unfold Frame.dtype Frame.colIdx; rw [hcl, hdl]
  · unfold Frame.dtype Frame.colIdx; rw [hcr, hdr]

/-! ## 7. row permutations: the expected payloads of an exact join -/

/-- the documented payload (result row without `_id`) of an exact join: the row of a pair of source rows with present
    join values satisfying `P · · s`, with score cell `s`; or, only with `allow_missing`, the row of a pair with a
    missing join value, with a missing score -/
def Expected (a : TableArgs) (l r : Frame) (am oss : Bool) (P : Cell → Cell → Cell → Prop) (x : Row) : Prop :=
  (∃ ls ∈ l.rows, ∃ rs ∈ r.rows, Present l a.lAttr ls ∧ Present r a.rAttr rs ∧
      ∃ s, P (valOf l a.lAttr ls) (valOf r a.rAttr rs) s ∧ x = withScore oss (RT.docRow a l r ls rs) s) ∨
  (am = true ∧ ∃ ls ∈ l.rows, ∃ rs ∈ r.rows, ¬(Present l a.lAttr ls ∧ Present r a.rAttr rs) ∧
      x = withScore oss (RT.docRow a l r ls rs) Cell.missing)

theorem expected_withTables (a : TableArgs) (l0 r0 l r : Frame) (am oss : Bool) (P : Cell → Cell → Cell → Prop)
    (x : Row) : Expected (a.withTables l0 r0) l r am oss P x ↔ Expected a l r am oss P x := Iff.rfl

theorem valOf_congr (f g : Frame) (hc : g.columns = f.columns) (attr : String) (srow : Row) :
    valOf g attr srow = valOf f attr srow := by
  unfold valOf Frame.colIdx; rw [hc]

theorem present_congr (f g : Frame) (hc : g.columns = f.columns) (attr : String) (srow : Row) :
    Present g attr srow ↔ Present f attr srow := by
  unfold Present; rw [valOf_congr f g hc]

theorem docRow_congr (a : TableArgs) (l r l' r' : Frame) (hcl : l'.columns = l.columns) (hcr : r'.columns = r.columns)
    (ls rs : Row) : RT.docRow a l' r' ls rs = RT.docRow a l r ls rs := by
  unfold RT.docRow Frame.colIdx; rw [hcl, hcr]

/-- the expected payloads depend on the tables only through their headers and the SETS of their rows -/
theorem expected_perm (a : TableArgs) (l r l' r' : Frame) (am oss : Bool) (P : Cell → Cell → Cell → Prop)
    (hcl : l'.columns = l.columns) (hpl : l'.rows.Perm l.rows)
    (hcr : r'.columns = r.columns) (hpr : r'.rows.Perm r.rows) (x : Row) :
    Expected a l' r' am oss P x ↔ Expected a l r am oss P x := by
  unfold Expected
  simp only [hpl.mem_iff, hpr.mem_iff, valOf_congr l l' hcl, valOf_congr r r' hcr, present_congr l l' hcl,
    present_congr r r' hcr, docRow_congr a l r l' r' hcl hcr]

theorem nodup_payload_of_keys (fr : Frame) (h : (fr.rows.map rowKeys).Nodup) :
    (fr.rows.map (fun row => row.drop 1)).Nodup := by
  have e : fr.rows.map rowKeys = (fr.rows.map (fun row => row.drop 1)).map EX.k2 := by
    rw [List.map_map]
    exact List.map_congr_left (fun row _ => EX.rowKeys_eq row)
  rw [e] at h
  exact h.of_map _

/-- two results whose payloads are the expected ones for tables with the same headers and permuted rows, each without
    a repeated key pair, are permutations of each other -/
theorem perm_of_expected {a : TableArgs} {l r l' r' : Frame} {am oss : Bool} {P : Cell → Cell → Cell → Prop}
    {fr fr' : Frame}
    (hcl : l'.columns = l.columns) (hpl : l'.rows.Perm l.rows)
    (hcr : r'.columns = r.columns) (hpr : r'.rows.Perm r.rows)
    (h : ∀ x, x ∈ fr.rows.map (fun row => row.drop 1) ↔ Expected a l r am oss P x)
    (h' : ∀ x, x ∈ fr'.rows.map (fun row => row.drop 1) ↔ Expected a l' r' am oss P x)
    (n : (fr.rows.map rowKeys).Nodup) (n' : (fr'.rows.map rowKeys).Nodup) :
    (fr.rows.map (fun row => row.drop 1)).Perm (fr'.rows.map (fun row => row.drop 1)) := by
  rw [List.perm_ext_iff_of_nodup (nodup_payload_of_keys fr n) (nodup_payload_of_keys fr' n')]
  intro x
  rw [h, h', expected_perm a l r l' r' am oss P hcl hpl hcr hpr]

theorem withScore_congr_score (oss : Bool) (row : Row) (s s' : Cell) (h : oss = true → s = s') :
    withScore oss row s = withScore oss row s' := by
  cases oss
  · rfl
  · rw [h rfl]

theorem k2_withScore_docRow (a : TableArgs) (l r : Frame) (ls rs : Row) (oss : Bool) (s : Cell) :
    EX.k2 (withScore oss (RT.docRow a l r ls rs) s) = (keyOf l a.lKey ls, keyOf r a.rKey rs) := by
  obtain ⟨e0, e1⟩ := RT.withScore_docRow_keys a l r ls rs oss s
  unfold EX.k2
  rw [e0, e1]
  rfl

theorem not_present_iff (l r : Frame) (la ra : String) (ls rs : Row) :
    ¬(Present l la ls ∧ Present r ra rs) ↔
      ((ls.cell (l.colIdx la)).isMissing = true ∨ (rs.cell (r.colIdx ra)).isMissing = true) := by
  unfold Present valOf
  cases (ls.cell (l.colIdx la)).isMissing <;> cases (rs.cell (r.colIdx ra)).isMissing <;> simp

/-- MEMBERSHIP: the payloads of a `runTables` result that is `Described` by a functional `P` (faithful work) are
    exactly the expected ones -/
theorem mem_payload_iff {oss : Bool} {work : Work} (hwf : WorkFaithful oss work) (a : TableArgs) (l r : Frame)
    (am : Bool) (cpu : Int) (fr : Frame) (hrun : runTables a l r am oss cpu work = .ok fr)
    (P : Cell → Cell → Cell → Prop) (hd : EX.Described a l r am oss P fr)
    (hfun : ∀ lv rv s s', P lv rv s → P lv rv s' → s = s')
    (hkl : validateKeyAttr a.lKey l = .ok ()) (hkr : validateKeyAttr a.rKey r = .ok ()) (x : Row) :
    x ∈ fr.rows.map (fun row => row.drop 1) ↔ Expected a l r am oss P x := by
  obtain ⟨fr0, hfr0, _, hrows⟩ := RT.run_ok hwf a l r am a.nJobs cpu (runTables_bodyOK _ _ _ _ _ _ _ _ hrun)
  rw [TableArgs.withJobs_self, hrun] at hfr0
  cases hfr0
  have hpay : fr.rows.map (fun row => row.drop 1) =
      RT.presentRows a l r a.nJobs cpu work ++ (if am then RT.missingRows a l r oss else []) := by
    rw [hrows, RT.zipIdx_map_drop]
  -- forward direction, for any payload
  have fwd : ∀ y, y ∈ fr.rows.map (fun row => row.drop 1) → Expected a l r am oss P y := by
    intro y hy
    obtain ⟨row, hrow, rfl⟩ := List.mem_map.1 hy
    have hy' := hy
    rw [hpay, List.mem_append] at hy'
    rcases hy' with hp | hm
    · obtain ⟨ls, hls, rs, hrs, hlp, hrp, s', he⟩ := RT.presentRows_faithful hwf a l r a.nJobs cpu _ hp
      have hk : rowKeys row = (keyOf l a.lKey ls, keyOf r a.rKey rs) := by
        rw [EX.rowKeys_eq, he, k2_withScore_docRow]
      obtain ⟨s, hs, hsc⟩ := hd.of_keys hkl hkr ls hls rs hrs hlp hrp row hrow hk
      refine Or.inl ⟨ls, hls, rs, hrs, hlp, hrp, s, hs, ?_⟩
      rw [he]
      apply withScore_congr_score
      intro ho
      subst ho
      have h1 := hsc rfl
      rw [EX.rowScore_eq row (by rw [he]; exact EX.withScore_true_ne_nil _ _), he, EX.withScore_true_last] at h1
      exact h1
    · cases am with
      | false => simp at hm
      | true =>
        obtain ⟨ls, hls, rs, hrs, hmiss, he⟩ := RT.missingRows_faithful a l r oss _ hm
        exact Or.inr ⟨rfl, ls, hls, rs, hrs, (not_present_iff l r _ _ ls rs).2 hmiss, he⟩
  refine ⟨fwd x, ?_⟩
  rintro (⟨ls, hls, rs, hrs, hlp, hrp, s, hs, rfl⟩ | ⟨ham, ls, hls, rs, hrs, hn, rfl⟩)
  · obtain ⟨row, hrow, hk⟩ := hd.complete ls hls rs hrs hlp hrp s hs
    have hy : row.drop 1 ∈ fr.rows.map (fun row => row.drop 1) := List.mem_map_of_mem hrow
    have hkeys : EX.k2 (row.drop 1) = (keyOf l a.lKey ls, keyOf r a.rKey rs) := by rw [← EX.rowKeys_eq, hk]
    rcases fwd _ hy with ⟨ls', hls', rs', hrs', _, _, s', hs', he⟩ | ⟨_, ls', hls', rs', hrs', hn', he⟩
    · rw [he, k2_withScore_docRow, Prod.mk.injEq] at hkeys
      have e1 : ls' = ls := row_eq_of_key_eq a.lKey l hkl ls' ls hls' hls hkeys.1
      have e2 : rs' = rs := row_eq_of_key_eq a.rKey r hkr rs' rs hrs' hrs hkeys.2
      subst e1 e2
      rw [hfun _ _ _ _ hs hs', ← he]
      exact hy
    · rw [he, k2_withScore_docRow, Prod.mk.injEq] at hkeys
      have e1 : ls' = ls := row_eq_of_key_eq a.lKey l hkl ls' ls hls' hls hkeys.1
      have e2 : rs' = rs := row_eq_of_key_eq a.rKey r hkr rs' rs hrs' hrs hkeys.2
      subst e1 e2
      exact absurd ⟨hlp, hrp⟩ hn'
  · subst ham
    rw [hpay, List.mem_append]
    right
    rw [if_pos rfl, RT.mem_missingRows_iff]
    exact ⟨ls, hls, rs, hrs, (not_present_iff l r _ _ ls rs).1 hn, (RT.missingRow_faithful a l r oss ls rs).symm⟩

/-! ## 8. row permutations: the exact joins -/

section PermHyps
variable (l r l' r' : Frame)

/-- `l'`, `r'` are `l`, `r` with their rows permuted (same header, same dtypes; the index is unconstrained) -/
structure RowsPermuted (l r l' r' : Frame) : Prop where
  lCols : l'.columns = l.columns
  lTypes : l'.dtypes = l.dtypes
  lRows : l'.rows.Perm l.rows
  rCols : r'.columns = r.columns
  rTypes : r'.dtypes = r.dtypes
  rRows : r'.rows.Perm r.rows

theorem RowsPermuted.vsame {l r l' r' : Frame} (h : RowsPermuted l r l' r') (a : TableArgs) : VSame a l r l' r' :=
  vsame_of_perm a l r l' r' h.lCols h.lTypes h.lRows h.rCols h.rTypes h.rRows

theorem strColumn_of_perm (f g : Frame) (attr : String) (hc : g.columns = f.columns) (hp : g.rows.Perm f.rows)
    (h : Props.StrColumn f attr) : Props.StrColumn g attr := by
  intro s hs
  have := h s (hp.subset hs)
  unfold Props.valOf Frame.colIdx at this ⊢
  rw [hc]; exact this

/-- the body conditions do not depend on the order of the rows -/
theorem RowsPermuted.bodyOK {l r l' r' : Frame} (h : RowsPermuted l r l' r') (a : TableArgs) (oss : Bool)
    (hb : Props.BodyOK a l r oss) : Props.BodyOK (a.withTables l' r') l' r' oss :=
  ⟨strColumn_of_perm l l' a.lAttr h.lCols h.lRows hb.lstr, strColumn_of_perm r r' a.rAttr h.rCols h.rRows hb.rstr,
    hb.noClash⟩

end PermHyps

theorem tables_of_validateTablesAttrs (a : TableArgs) (l r : Frame) (hv : validateTablesAttrs a = .ok (l, r)) :
    a.ltable = some l ∧ a.rtable = some r :=
  ⟨((validateTablesAttrs_ok_iff _ _ _).1 hv).ltable, ((validateTablesAttrs_ok_iff _ _ _).1 hv).rtable⟩

theorem POverlap_fun (f : OverlapFilterObj) (tok : String → List Tok) (lv rv s s' : Cell)
    (h : EX.POverlap f tok lv rv s) (h' : EX.POverlap f tok lv rv s') : s = s' := by
  rw [h.2.1, h'.2.1]

theorem POvc_fun (thr : PyV) (op : String) (ae : Bool) (tok : String → List Tok) (lv rv s s' : Cell)
    (h : EX.POvc thr op ae tok lv rv s) (h' : EX.POvc thr op ae tok lv rv s') : s = s' := by
  rw [EX.POvc_score _ _ _ _ _ _ _ h, EX.POvc_score _ _ _ _ _ _ _ h']

/-- `OverlapFilter.filter_tables` on row-permuted tables: both calls succeed, same columns, permuted payloads -/
theorem overlapFilterTables_perm (f : OverlapFilterObj) (a : TableArgs) (oss : Bool) (tok : String → List Tok)
    (cpu cpu' : Int) (l r l' r' : Frame) (hnd : ∀ s, (tok s).Nodup)
    (hv : validateTablesAttrs a = .ok (l, r)) (hk : validateOutAndKeys a l r = .ok ())
    (hlen : r.rows.length < 2 ^ 40) (hp : RowsPermuted l r l' r') (hb : Props.BodyOK a l r oss) :
    ∃ fr fr', overlapFilterTables f a oss tok cpu = .ok fr ∧
      overlapFilterTables f (a.withTables l' r') oss tok cpu' = .ok fr' ∧
      fr.columns = fr'.columns ∧
      (fr.rows.map (fun row => row.drop 1)).Perm (fr'.rows.map (fun row => row.drop 1)) := by
  obtain ⟨hl, hr⟩ := tables_of_validateTablesAttrs a l r hv
  have hvs := hp.vsame a
  have hv' : validateTablesAttrs (a.withTables l' r') = .ok (l', r') := by
    rw [validateTablesAttrs_vsame a l r l' r' hl hr hvs, hv]; rfl
  have hk' : validateOutAndKeys (a.withTables l' r') l' r' = .ok () := by
    rw [validateOutAndKeys_vsame a l r l' r' hvs, hk]
  have hlen' : r'.rows.length < 2 ^ 40 := by rw [hp.rRows.length_eq]; exact hlen
  obtain ⟨fr, hfr, hd⟩ := EX.overlapFilterTables_described f a oss tok cpu l r hnd hv hk hlen hb
  obtain ⟨fr', hfr', hd'⟩ := EX.overlapFilterTables_described f (a.withTables l' r') oss tok cpu' l' r' hnd hv' hk' hlen'
    (hp.bodyOK a oss hb)
  obtain ⟨hkl, hkr⟩ := validateOutAndKeys_keys a l r hk
  obtain ⟨hkl', hkr'⟩ := validateOutAndKeys_keys (a.withTables l' r') l' r' hk'
  have hrun : runTables a l r f.allowMissing oss cpu (Work.overlap f oss tok) = .ok fr := by
    rw [← eg_overlapFilterTables_eq f a oss tok cpu l r hv hk]; exact hfr
  have hrun' : runTables (a.withTables l' r') l' r' f.allowMissing oss cpu' (Work.overlap f oss tok) = .ok fr' := by
    rw [← eg_overlapFilterTables_eq f (a.withTables l' r') oss tok cpu' l' r' hv' hk']; exact hfr'
  have hmem := mem_payload_iff (Work.overlap_faithful f oss tok) a l r f.allowMissing cpu fr hrun _ hd
    (POverlap_fun f tok) hkl hkr
  have hmem' := mem_payload_iff (Work.overlap_faithful f oss tok) (a.withTables l' r') l' r' f.allowMissing cpu' fr'
    hrun' _ hd' (POverlap_fun f tok) hkl' hkr'
  refine ⟨fr, fr', hfr, hfr', ?_, ?_⟩
  · exact (RT.columns a l r _ oss cpu _ fr hrun).trans (RT.columns (a.withTables l' r') l' r' _ oss cpu' _ fr' hrun').symm
  · exact perm_of_expected hp.lCols hp.lRows hp.rCols hp.rRows hmem hmem' hd.once hd'.once

/-- `overlap_join_py` on row-permuted tables -/
theorem overlapJoinPy_perm (a : JoinArgs) (t : TokObj) (toks : TokFn) (cpu cpu' : Int) (f : OverlapFilterObj)
    (l r l' r' : Frame) (hnd : ∀ s, (toks true s).Nodup)
    (hf : mkOverlapFilter a.threshold a.compOp a.allowMissing t = .ok f)
    (hv : validateTablesAttrs a.toTableArgs = .ok (l, r)) (hk : validateOutAndKeys a.toTableArgs l r = .ok ())
    (hlen : r.rows.length < 2 ^ 40) (hp : RowsPermuted l r l' r') (hb : Props.BodyOK a.toTableArgs l r a.outSimScore) :
    ∃ fr fr', (overlapJoinPy a t toks cpu).result = .ok fr ∧
      (overlapJoinPy (a.withTables l' r') t toks cpu').result = .ok fr' ∧
      fr.columns = fr'.columns ∧
      (fr.rows.map (fun row => row.drop 1)).Perm (fr'.rows.map (fun row => row.drop 1)) := by
  have e : (overlapJoinPy a t toks cpu).result = overlapFilterTables f a.toTableArgs a.outSimScore (toks true) cpu := by
    show (mkOverlapFilter a.threshold a.compOp a.allowMissing t >>= _) = _
    rw [hf]; rfl
  have e' : (overlapJoinPy (a.withTables l' r') t toks cpu').result =
      overlapFilterTables f (a.toTableArgs.withTables l' r') a.outSimScore (toks true) cpu' := by
    show (mkOverlapFilter a.threshold a.compOp a.allowMissing t >>= _) = _
    rw [hf]; rfl
  rw [e, e']
  exact overlapFilterTables_perm f a.toTableArgs a.outSimScore (toks true) cpu cpu' l r l' r' hnd hv hk hlen hp hb

/-- `overlap_coefficient_join_py` on row-permuted tables -/
theorem overlapCoefficientJoinPy_perm (a : JoinArgs) (t : TokObj) (toks : TokFn) (cpu cpu' : Int)
    (l r l' r' : Frame) (hnd : ∀ s, (toks true s).Nodup)
    (hv : validateJoin "OVERLAP_COEFFICIENT" a t = .ok (l, r))
    (hlen : r.rows.length < 2 ^ 40) (hp : RowsPermuted l r l' r') (hb : Props.BodyOK a.toTableArgs l r a.outSimScore) :
    ∃ fr fr', (overlapCoefficientJoinPy a t toks cpu).result = .ok fr ∧
      (overlapCoefficientJoinPy (a.withTables l' r') t toks cpu').result = .ok fr' ∧
      fr.columns = fr'.columns ∧
      (fr.rows.map (fun row => row.drop 1)).Perm (fr'.rows.map (fun row => row.drop 1)) := by
  obtain ⟨hvt, _⟩ := validateJoin_parts _ a t l r hv
  obtain ⟨hl, hr⟩ := tables_of_validateTablesAttrs _ l r hvt
  have hv' : validateJoin "OVERLAP_COEFFICIENT" (a.withTables l' r') t = .ok (l', r') := by
    rw [validateJoin_vsame _ a t l r l' r' hl hr (hp.vsame _), hv]; rfl
  have hlen' : r'.rows.length < 2 ^ 40 := by rw [hp.rRows.length_eq]; exact hlen
  obtain ⟨fr, hfr, hd⟩ := EX.overlapCoefficientJoinPy_described a t toks cpu l r hnd hv hlen hb
  obtain ⟨fr', hfr', hd'⟩ := EX.overlapCoefficientJoinPy_described (a.withTables l' r') t toks cpu' l' r' hnd hv' hlen'
    (hp.bodyOK a.toTableArgs a.outSimScore hb)
  obtain ⟨hkl, hkr⟩ := validateOutAndKeys_of_validateJoin _ a t l r hv
  obtain ⟨hkl', hkr'⟩ := validateOutAndKeys_of_validateJoin _ (a.withTables l' r') t l' r' hv'
  have hrun := (overlapCoefficientJoinPy_eq a t toks cpu l r hv).symm.trans hfr
  have hrun' := (overlapCoefficientJoinPy_eq (a.withTables l' r') t toks cpu' l' r' hv').symm.trans hfr'
  have hmem := mem_payload_iff (Work.ovc_faithful _ _ _ _ _) a.toTableArgs l r a.allowMissing cpu fr hrun _ hd
    (POvc_fun _ _ _ _) hkl hkr
  have hmem' := mem_payload_iff (Work.ovc_faithful _ _ _ _ _) (a.withTables l' r').toTableArgs l' r' a.allowMissing
    cpu' fr' hrun' _ hd' (POvc_fun _ _ _ _) hkl' hkr'
  refine ⟨fr, fr', hfr, hfr', ?_, ?_⟩
  · exact (RT.columns _ l r _ _ cpu _ fr hrun).trans (RT.columns _ l' r' _ _ cpu' _ fr' hrun').symm
  · exact perm_of_expected hp.lCols hp.lRows hp.rCols hp.rRows hmem hmem' hd.once hd'.once

/-! ### edit distance -/

/-- the edit-distance join's condition on two present join cells, with the score cell it reports -/
def PED (op : String) (tau : Int) (tok : String → List Tok) (lv rv s : Cell) : Prop :=
  Spec.qualED op tau lv.strVal rv.strVal = true ∧ Spec.shareToken tok lv.strVal rv.strVal = true ∧
  s = Cell.int (lev lv.strVal rv.strVal)

/-- MEMBERSHIP for `edit_distance_join_py` (tokenizer obeying the q-gram count lemma): the payloads are exactly the
    expected ones -/
theorem ed_mem_payload_iff (a : JoinArgs) (t : TokObj) (toks : TokFn) (cpu : Int) (l r : Frame) (tau : Int) (fr : Frame)
    (hv : validateJoin "EDIT_DISTANCE" a t = .ok (l, r)) (htau : PyV.toInt (PyV.floor a.threshold) = .int tau)
    (hrows : r.rows.length < 2 ^ 40) (hres : (editDistanceJoinPy a t toks cpu).result = .ok fr)
    (hq0 : 0 ≤ t.qval)
    (hcount : ∀ s s' : String, ((toks false s).diff (toks false s')).length ≤ t.qval.toNat * lev s s') (x : Row) :
    x ∈ fr.rows.map (fun row => row.drop 1) ↔
      Expected a.toTableArgs l r a.allowMissing a.outSimScore (PED a.compOp tau (toks false)) x := by
  have hpay : fr.rows.map (fun row => row.drop 1) = EntryED.payloads a t toks cpu l r tau := by
    rw [EntryED.rows_eq a t toks cpu l r tau fr hv htau hres, RT.zipIdx_map_drop]
  rw [hpay]
  unfold EntryED.payloads
  rw [List.mem_append]
  constructor
  · rintro (hp | hp)
    · obtain ⟨ls, hls, rs, hrs, hlp, hrp, rfl, hq, hs⟩ := EntryED.chunk_sound a t toks cpu l r tau hrows x hp
      refine Or.inl ⟨ls, hls, rs, hrs, hlp, hrp, _, ⟨hq, hs, rfl⟩, ?_⟩
      exact congrArg (fun z => withScore a.outSimScore z _) (RT.outputRow_faithful a.toTableArgs l r ls rs)
    · obtain ⟨ham, ls, hls, rs, hrs, hm, rfl⟩ := EntryED.miss_sound a l r x hp
      exact Or.inr ⟨ham, ls, hls, rs, hrs, (not_present_iff l r _ _ ls rs).2 hm,
        RT.missingRow_faithful a.toTableArgs l r a.outSimScore ls rs⟩
  · rintro (⟨ls, hls, rs, hrs, hlp, hrp, s, ⟨hq, hs, rfl⟩, rfl⟩ | ⟨ham, ls, hls, rs, hrs, hn, rfl⟩)
    · left
      have hvj := (validateJoin_ok_iff _ a t l r).1 hv
      have hop := EntryED.op_cases a.compOp hvj.2.2.2.1
      have hdist := EntryED.qualED_dist_le a.compOp hop tau _ _ hq
      have htau0 := EntryED.tau_nonneg a.threshold tau htau hvj.2.2.1
      have hc := EntryED.chunk_complete a t toks cpu l r tau hrows hq0 htau0 ls rs hls hrs hlp hrp (hcount _ _)
        (by rw [lev_comm]; exact hcount _ _) hdist hq hs
      rw [RT.outputRow_faithful a.toTableArgs l r ls rs] at hc
      exact hc
    · right
      unfold EntryED.missRows
      rw [if_pos ham, RT.mem_missingRows_iff]
      exact ⟨ls, hls, rs, hrs, (not_present_iff l r _ _ ls rs).1 hn,
        (RT.missingRow_faithful a.toTableArgs l r a.outSimScore ls rs).symm⟩

theorem ed_once (a : JoinArgs) (t : TokObj) (toks : TokFn) (cpu : Int) (l r : Frame) (tau : Int) (fr : Frame)
    (hv : validateJoin "EDIT_DISTANCE" a t = .ok (l, r)) (htau : PyV.toInt (PyV.floor a.threshold) = .int tau)
    (hrows : r.rows.length < 2 ^ 40) (hres : (editDistanceJoinPy a t toks cpu).result = .ok fr) :
    (fr.rows.map rowKeys).Nodup := by
  obtain ⟨hvl, hvr⟩ := EntryED.keys_valid _ a t l r hv
  rw [EntryED.map_rowKeys_eq a t toks cpu l r tau fr hv htau hres]
  exact EntryED.payloads_keys_nodup a t toks cpu l r tau hvl hvr hrows

/-- `edit_distance_join_py` on row-permuted tables (tokenizer obeying the q-gram count lemma) -/
theorem editDistanceJoinPy_perm (a : JoinArgs) (t : TokObj) (toks : TokFn) (cpu cpu' : Int) (l r l' r' : Frame)
    (tau : Int) (hv : validateJoin "EDIT_DISTANCE" a t = .ok (l, r))
    (htau : PyV.toInt (PyV.floor a.threshold) = .int tau) (hrows : r.rows.length < 2 ^ 40) (hq0 : 0 ≤ t.qval)
    (hcount : ∀ s s' : String, ((toks false s).diff (toks false s')).length ≤ t.qval.toNat * lev s s')
    (hp : RowsPermuted l r l' r') (hb : Props.BodyOK a.toTableArgs l r a.outSimScore) :
    ∃ fr fr', (editDistanceJoinPy a t toks cpu).result = .ok fr ∧
      (editDistanceJoinPy (a.withTables l' r') t toks cpu').result = .ok fr' ∧
      fr.columns = fr'.columns ∧
      (fr.rows.map (fun row => row.drop 1)).Perm (fr'.rows.map (fun row => row.drop 1)) := by
  obtain ⟨hvt, _⟩ := validateJoin_parts _ a t l r hv
  obtain ⟨hl, hr⟩ := tables_of_validateTablesAttrs _ l r hvt
  have hv' : validateJoin "EDIT_DISTANCE" (a.withTables l' r') t = .ok (l', r') := by
    rw [validateJoin_vsame _ a t l r l' r' hl hr (hp.vsame _), hv]; rfl
  have hrows' : r'.rows.length < 2 ^ 40 := by rw [hp.rRows.length_eq]; exact hrows
  have htau' : PyV.toInt (PyV.floor (a.withTables l' r').threshold) = .int tau := htau
  obtain ⟨fr, hfr⟩ := EntryED.total a t toks cpu l r tau hv htau hb
  obtain ⟨fr', hfr'⟩ := EntryED.total (a.withTables l' r') t toks cpu' l' r' tau hv' htau'
    (hp.bodyOK a.toTableArgs a.outSimScore hb)
  have hmem := ed_mem_payload_iff a t toks cpu l r tau fr hv htau hrows hfr hq0 hcount
  have hmem' := ed_mem_payload_iff (a.withTables l' r') t toks cpu' l' r' tau fr' hv' htau' hrows' hfr' hq0 hcount
  have hrun := (EntryED.result_eq a t toks cpu l r tau hv htau).symm.trans hfr
  have hrun' := (EntryED.result_eq (a.withTables l' r') t toks cpu' l' r' tau hv' htau').symm.trans hfr'
  refine ⟨fr, fr', hfr, hfr', ?_, ?_⟩
  · exact (RT.columns _ l r _ _ cpu _ fr hrun).trans (RT.columns _ l' r' _ _ cpu' _ fr' hrun').symm
  · exact perm_of_expected hp.lCols hp.lRows hp.rCols hp.rRows hmem hmem'
      (ed_once a t toks cpu l r tau fr hv htau hrows hfr)
      (ed_once (a.withTables l' r') t toks cpu' l' r' tau fr' hv' htau' hrows' hfr')

/-! ## 9. row permutations: the missing-value rows, vocabulary transfer -/

theorem keyOf_congr (f g : Frame) (hc : g.columns = f.columns) (key : String) (srow : Row) :
    keyOf g key srow = keyOf f key srow := by
  unfold keyOf Frame.colIdx; rw [hc]

theorem tokensOf_congr (tok : String → List Tok) (f g : Frame) (hc : g.columns = f.columns) (attr : String)
    (srow : Row) : tokensOf tok g attr srow = tokensOf tok f attr srow := by
  unfold tokensOf; rw [valOf_congr f g hc]

theorem strOf_congr (f g : Frame) (hc : g.columns = f.columns) (attr : String) (srow : Row) :
    strOf g attr srow = strOf f attr srow := by
  unfold strOf; rw [valOf_congr f g hc]

/-- the rows `get_pairs_with_missing_value` contributes for row-permuted tables are a permutation -/
theorem missingRows_perm (a : TableArgs) (l r l' r' : Frame) (oss : Bool) (hp : RowsPermuted l r l' r') :
    (RT.missingRows a l r oss).Perm (RT.missingRows a l' r' oss) := by
  have e1 : ∀ c, l'.colIdx c = l.colIdx c := fun c => by unfold Frame.colIdx; rw [hp.lCols]
  have e2 : ∀ c, r'.colIdx c = r.colIdx c := fun c => by unfold Frame.colIdx; rw [hp.rCols]
  have e3 : RT.missOut a l' r' = RT.missOut a l r := by
    unfold RT.missOut missingOutCfg Frame.colIdx; rw [hp.lCols, hp.rCols]
  unfold RT.missingRows
  rw [e1, e2, e3]
  refine List.Perm.append ?_ ?_
  · refine (List.Perm.flatMap_left _ (fun x _ => (hp.rRows.symm.map _))).trans ?_
    exact List.Perm.flatMap_right _ (hp.lRows.symm.filter _)
  · refine (List.Perm.flatMap_left _ (fun y _ => ((hp.lRows.symm.filter _).map _))).trans ?_
    exact List.Perm.flatMap_right _ (hp.rRows.symm.filter _)

/-- the result with `allow_missing` is the result without, followed by the missing-value rows -/
theorem missing_tail {call : Bool → Int → Int → Except PyErr Frame} {a : TableArgs} {l r : Frame} {oss : Bool}
    (h : TableCall call a l r oss) (nj cpu : Int) (frT frF : Frame)
    (hT : call true nj cpu = .ok frT) (hF : call false nj cpu = .ok frF) :
    frT.rows.map (fun row => row.drop 1) = frF.rows.map (fun row => row.drop 1) ++ RT.missingRows a l r oss := by
  obtain ⟨work, _, hof⟩ := h.of_ok
  obtain ⟨_, hrT⟩ := hof true nj cpu frT hT
  obtain ⟨_, hrF⟩ := hof false nj cpu frF hF
  simp only [if_true] at hrT
  simp only [Bool.false_eq_true, if_false] at hrF
  rw [hrT, hrF, RT.zipIdx_map_drop, RT.zipIdx_map_drop, List.append_nil]

/-- `validateJoin` gives the same verdict on row-permuted tables -/
theorem validateJoin_perm (mname : String) (a : JoinArgs) (t : TokObj) (l r l' r' : Frame)
    (hv : validateJoin mname a t = .ok (l, r)) (hp : RowsPermuted l r l' r') :
    validateJoin mname (a.withTables l' r') t = .ok (l', r') := by
  obtain ⟨hvt, _⟩ := validateJoin_parts _ a t l r hv
  obtain ⟨hl, hr⟩ := tables_of_validateTablesAttrs _ l r hvt
  rw [validateJoin_vsame _ a t l r l' r' hl hr (hp.vsame _), hv]; rfl

theorem validateTables_perm (a : TableArgs) (l r l' r' : Frame)
    (hv : validateTablesAttrs a = .ok (l, r)) (hk : validateOutAndKeys a l r = .ok ()) (hp : RowsPermuted l r l' r') :
    validateTablesAttrs (a.withTables l' r') = .ok (l', r') ∧ validateOutAndKeys (a.withTables l' r') l' r' = .ok () := by
  obtain ⟨hl, hr⟩ := tables_of_validateTablesAttrs a l r hv
  constructor
  · rw [validateTablesAttrs_vsame a l r l' r' hl hr (hp.vsame a), hv]; rfl
  · rw [validateOutAndKeys_vsame a l r l' r' (hp.vsame a), hk]

/-- adding a column keeps a frame well-formed (so columns can be added one after the other) -/
theorem wellFormed_of_extraColumn (f f' : Frame) (c : String) (wf : WellFormed f) (h : ExtraColumn f f' c) :
    WellFormed f' := by
  obtain ⟨d, hd⟩ := h.dtypes
  constructor
  · rw [hd, h.columns, List.length_append, List.length_append, wf.dtypes]; rfl
  · intro y hy
    have key : ∀ (xs ys : List Row), List.Forall₂ (fun x y => ∃ v, y = x ++ [v]) xs ys →
        (∀ x ∈ xs, x.length = f.columns.length) → ∀ y ∈ ys, y.length = f.columns.length + 1 := by
      intro xs ys hxy
      induction hxy with
      | nil => intro _ y hy; cases hy
      | cons hab _ ih =>
        intro hx y hy
        rcases List.mem_cons.1 hy with rfl | hy
        · obtain ⟨v, rfl⟩ := hab
          rw [List.length_append, hx _ List.mem_cons_self]; rfl
        · exact ih (fun x hx' => hx x (List.mem_cons_of_mem _ hx')) y hy
    rw [h.columns, List.length_append]
    exact key _ _ h.rows wf.rows y hy

/-! ## 10. several extra columns -/

theorem forall₂_comp {α β γ : Type} {R : α → β → Prop} {T : β → γ → Prop} {U : α → γ → Prop}
    (hU : ∀ x y z, R x y → T y z → U x z) {xs : List α} {ys : List β} (h1 : List.Forall₂ R xs ys) :
    ∀ {zs : List γ}, List.Forall₂ T ys zs → List.Forall₂ U xs zs := by
  induction h1 with
  | nil => intro zs h2; cases h2; exact List.Forall₂.nil
  | cons hab _ ih =>
    intro zs h2
    cases h2 with
    | cons hbc h2' => exact List.Forall₂.cons (hU _ _ _ hab hbc) (ih h2')

theorem Agree.refl (S : List String) (f : Frame) : Agree S f f := agree_refl_of S f f rfl rfl rfl

theorem Agree.trans {S : List String} {f g h : Frame} (h1 : Agree S f g) (h2 : Agree S g h) : Agree S f h :=
  ⟨fun c hc => (h1.hasCol c hc).trans (h2.hasCol c hc), fun c hc => (h1.dtype c hc).trans (h2.dtype c hc),
    forall₂_comp (fun _ _ _ hxy hyz c hc => (hxy c hc).trans (hyz c hc)) h1.rows h2.rows⟩

/-- `f'` arises from `f` by appending zero or more columns, none of them labelled by a member of `S` -/
inductive ExtraColumns (S : List String) (f : Frame) : Frame → Prop
  | none : ExtraColumns S f f
  | more {g h : Frame} {c : String} : ExtraColumns S f g → c ∉ S → ExtraColumn g h c → ExtraColumns S f h

theorem ExtraColumns.one {S : List String} {f f' : Frame} {c : String} (hc : c ∉ S) (h : ExtraColumn f f' c) :
    ExtraColumns S f f' := .more .none hc h

/-- extra trailing columns that the call does not refer to are invisible (on a well-formed frame) -/
theorem agree_of_extraColumns {S : List String} {f f' : Frame} (wf : WellFormed f) (h : ExtraColumns S f f') :
    Agree S f f' ∧ WellFormed f' := by
  induction h with
  | none => exact ⟨Agree.refl S f, wf⟩
  | more _ hc hstep ih =>
    exact ⟨ih.1.trans (agree_of_extraColumn S _ _ _ hc ih.2 hstep), wellFormed_of_extraColumn _ _ _ ih.2 hstep⟩

end EP
end SSJ

section AxiomCheck
open SSJ SSJ.EP
#print axioms validateJoin_vsame
#print axioms runTables_agree
#print axioms setSimJoinPy_agree
#print axioms overlapCoefficientJoinPy_agree
#print axioms editDistanceJoinPy_agree
#print axioms overlapJoinPy_agree
#print axioms filterTables_agree
#print axioms overlapFilterTables_agree
#print axioms agree_withIndex
#print axioms agree_of_extraColumn
#print axioms wellFormed_of_extraColumn
#print axioms agree_of_extraColumns
#print axioms vsame_of_perm
#print axioms mem_payload_iff
#print axioms perm_of_expected
#print axioms overlapFilterTables_perm
#print axioms overlapJoinPy_perm
#print axioms overlapCoefficientJoinPy_perm
#print axioms ed_mem_payload_iff
#print axioms editDistanceJoinPy_perm
#print axioms missingRows_perm
#print axioms missing_tail
#print axioms validateJoin_perm
end AxiomCheck

/-
  SSJ.Proofs.PipelineMore — helpers for the companions of property C07 ("a join equals filter_tables followed by
  apply_matcher"):

  1. `overlap_join`'s three validity hypotheses amount to `validateJoin "OVERLAP"` (so that `stage1_valid`,
     `stage2_valid`, `stage2_total` of `EntryPipeline` apply to it);
  2. the overlap pipeline and the overlap-coefficient pipeline, per pair of present source rows, for an ABSTRACT first
     stage (any `TableCall` on `stage1Args`);
  3. counting lemma `filter ∘ filterMap` and the missing-value rows of `apply_matcher` on the candidate set of a first
     stage (C07.5).
-/
import SSJ.Proofs.EntryPipeline
import SSJ.Props.C08

namespace SSJ
namespace PipelineMore
open SSJ.Props SSJ.EntryPipeline

/-! ## 1. `overlap_join`'s validity as `validateJoin "OVERLAP"` -/

/-- the OverlapFilter constructor accepting threshold / operator / tokenizer, plus the two table validations of
    `overlap_join`, is `validateJoin "OVERLAP"` -/
theorem overlap_validateJoin (a : JoinArgs) (t : TokObj) (l r : Frame) (f : OverlapFilterObj)
    (hf : mkOverlapFilter a.threshold a.compOp a.allowMissing t = .ok f)
    (hv : validateTablesAttrs a.toTableArgs = .ok (l, r))
    (hk : validateOutAndKeys a.toTableArgs l r = .ok ()) :
    validateJoin "OVERLAP" a t = .ok (l, r) := by
  obtain ⟨h1, h2, h3, -⟩ := (EntryLaws.mkOverlapFilter_ok_iff _ _ _ _ _).1 hf
  obtain ⟨o1, o2, k1, k2⟩ := (EntryLaws.validateOutAndKeys_ok_iff _ _ _).1 hk
  have o1' : (a.lOut.getD []).any (fun x => !l.hasCol x) = false := o1
  have o2' : (a.rOut.getD []).any (fun x => !r.hasCol x) = false := o2
  have k1' : keyTest l a.lKey = true := k1
  have k2' : keyTest r a.rKey = true := k2
  have hq : ("OVERLAP" == "EDIT_DISTANCE" && !t.isQgram) = false := by
    rw [show ("OVERLAP" == "EDIT_DISTANCE") = false by decide, Bool.false_and]
  rw [validateJoin_of_tables _ a t l r hv, if_neg (by rw [h1]; decide), if_neg (by rw [hq]; decide), if_neg h2,
    if_neg h3,
    if_neg (by rw [o1']; decide), if_neg (by rw [o2']; decide), if_neg (by rw [k1']; decide),
    if_neg (by rw [k2']; decide)]

theorem overlap_op6 (a : JoinArgs) (t : TokObj) (f : OverlapFilterObj)
    (hf : mkOverlapFilter a.threshold a.compOp a.allowMissing t = .ok f) :
    a.compOp ∈ [">=", ">", "<=", "<", "=", "!="] := by
  have hop := (EX.mkOverlapFilter_valid _ _ _ _ _ hf).2
  simp only [List.mem_cons, List.not_mem_nil, or_false] at hop ⊢
  rcases hop with h | h | h <;> simp [h]

/-- `n >= k`, `n > k`, `n == k` on two ints all imply `k ≤ n` -/
theorem int_le_of_compFn (op : String) (hop : op ∈ [">=", ">", "="]) (k n : Int)
    (h : compFn op (.int n) (.int k) = true) : k ≤ n := by
  simp only [List.mem_cons, List.not_mem_nil, or_false] at hop
  rcases hop with rfl | rfl | rfl
  · rw [EntryLaws.compFn_ge] at h
    simp only [PyV.geb, PyV.leb, PyV.numVal?, decide_eq_true_eq] at h
    exact_mod_cast h
  · rw [EntryLaws.compFn_gt] at h
    simp only [PyV.gtb, PyV.ltb, PyV.numVal?, decide_eq_true_eq] at h
    have : (k : Rat) < n := h
    exact le_of_lt (by exact_mod_cast this)
  · rw [show compFn "=" = PyV.eqb from rfl] at h
    simp only [PyV.eqb, PyV.numVal?, beq_iff_eq, Option.some.injEq] at h
    have : (n : Rat) = k := h
    exact le_of_eq (by exact_mod_cast this.symm)

/-! ## 2. the two pipelines for an abstract first stage -/

section Core
variable (a : JoinArgs) (t : TokObj) (toks : TokFn) (l r : Frame)

/-- `apply_matcher` (with the tokenizer in set mode) on the candidate set of ANY entry point run on `stage1Args`:
    a pair of present source rows is in its result iff the first stage lists it and `sim_function(tokens)` satisfies
    the comparison; the score reported is that value -/
theorem stage2_iff (mname : String) (hv : validateJoin mname a t = .ok (l, r))
    (hop6 : a.compOp ∈ [">=", ">", "<=", "<", "=", "!="]) (hset : t.returnSet = true)
    (hn1 : a.lPre ++ a.lKey ≠ "_id") (hn2 : a.rPre ++ a.rKey ≠ "_id") (hn3 : a.lPre ++ a.lKey ≠ a.rPre ++ a.rKey)
    {call : Bool → Int → Int → Except PyErr Frame} (nj₁ : Int) (hcall : TableCall call (stage1Args a nj₁) l r false)
    (am : Bool) (nj cpu₁ : Int) (C : Frame) (hC : call am nj cpu₁ = .ok C) (hClen : C.rows.length < 2 ^ 40)
    (sim : SimArg → SimArg → PyV)
    (nj₂ cpu₂ : Int) (P : Frame) (h2 : applyMatcher (stage2Args a C nj₂) (some t) toks sim cpu₂ = .ok P)
    (ls rs : Row) (hls : ls ∈ l.rows) (hrs : rs ∈ r.rows)
    (hpl : Present l a.lAttr ls) (hpr : Present r a.rAttr rs) :
    (C13.InResult P (keyOf l a.lKey ls) (keyOf r a.rKey rs) ↔
      C13.InResult C (keyOf l a.lKey ls) (keyOf r a.rKey rs) ∧
      compFn a.compOp (sim (.toks (tokensOf (toks true) l a.lAttr ls)) (.toks (tokensOf (toks true) r a.rAttr rs)))
        a.threshold = true) ∧
    (a.outSimScore = true → C13.ScoreOf P (keyOf l a.lKey ls) (keyOf r a.rKey rs)
      (scoreCell (sim (.toks (tokensOf (toks true) l a.lAttr ls)) (.toks (tokensOf (toks true) r a.rAttr rs))))) := by
  obtain ⟨c1, c2, c3, c4⟩ := candset_columns hcall am nj cpu₁ C hC hn1 hn2 hn3
  have hsrc := candset_rows hcall am nj cpu₁ C hC
  have hvM := stage2_valid mname a t l r C nj₂ hv hop6 c3 c4 (some t) (Or.inl rfl)
  have hM := matcher_iff (stage2Args a C nj₂) (some t) toks sim cpu₂ C l r P hvM c1 c2 hsrc hClen h2 ls rs hls hrs hpl hpr
    (fun _ => ⟨(hcall.bodyOK hC).lstr, (hcall.bodyOK hC).rstr⟩)
  have hval : C05.simValue (C05.tokOf (some t) toks) sim (valOf l a.lAttr ls) (valOf r a.rAttr rs) =
      sim (.toks (tokensOf (toks true) l a.lAttr ls)) (.toks (tokensOf (toks true) r a.rAttr rs)) := by
    show sim (.toks (toks t.returnSet _)) (.toks (toks t.returnSet _)) = _
    rw [hset]
    rfl
  have hM1 : C13.InResult P (keyOf l a.lKey ls) (keyOf r a.rKey rs) ↔
      C13.InResult C (keyOf l a.lKey ls) (keyOf r a.rKey rs) ∧
      compFn a.compOp (C05.simValue (C05.tokOf (some t) toks) sim (valOf l a.lAttr ls) (valOf r a.rAttr rs))
        a.threshold = true := hM.1
  have hM2 : a.outSimScore = true → C13.ScoreOf P (keyOf l a.lKey ls) (keyOf r a.rKey rs)
      (scoreCell (C05.simValue (C05.tokOf (some t) toks) sim (valOf l a.lAttr ls) (valOf r a.rAttr rs))) := hM.2
  rw [hval] at hM1 hM2
  exact ⟨hM1, hM2⟩

/-- CORE of C07 for `overlap_join`: the first stage is ANY entry point run on `stage1Args`; the second stage is
    `apply_matcher` with the overlap size `|A ∩ B|` as `sim_function`.  Describes both sides. -/
theorem overlap_core (f : OverlapFilterObj)
    (hf : mkOverlapFilter a.threshold a.compOp a.allowMissing t = .ok f)
    (hv : validateTablesAttrs a.toTableArgs = .ok (l, r)) (hk : validateOutAndKeys a.toTableArgs l r = .ok ())
    (hnd : ∀ s, (toks true s).Nodup) (hlen : r.rows.length < 2 ^ 40) (hset : t.returnSet = true)
    (hn1 : a.lPre ++ a.lKey ≠ "_id") (hn2 : a.rPre ++ a.rKey ≠ "_id") (hn3 : a.lPre ++ a.lKey ≠ a.rPre ++ a.rKey)
    {call : Bool → Int → Int → Except PyErr Frame} (nj₁ : Int) (hcall : TableCall call (stage1Args a nj₁) l r false)
    (am : Bool) (nj cpu₁ : Int) (C : Frame) (hC : call am nj cpu₁ = .ok C) (hClen : C.rows.length < 2 ^ 40)
    (sim : SimArg → SimArg → PyV) (hsim : ∀ A B, sim (.toks A) (.toks B) = .int (interCount A B))
    (nj₂ cpu₂ : Int) (P : Frame) (h2 : applyMatcher (stage2Args a C nj₂) (some t) toks sim cpu₂ = .ok P)
    (cpu : Int) (J : Frame) (hJ : (overlapJoinPy a t toks cpu).result = .ok J)
    (ls rs : Row) (hls : ls ∈ l.rows) (hrs : rs ∈ r.rows)
    (hpl : Present l a.lAttr ls) (hpr : Present r a.rAttr rs) :
    (C13.InResult P (keyOf l a.lKey ls) (keyOf r a.rKey rs) ↔
      C13.InResult C (keyOf l a.lKey ls) (keyOf r a.rKey rs) ∧
      compFn a.compOp (.int (interCount (tokensOf (toks true) l a.lAttr ls) (tokensOf (toks true) r a.rAttr rs)))
        a.threshold = true) ∧
    (C13.InResult J (keyOf l a.lKey ls) (keyOf r a.rKey rs) ↔
      compFn a.compOp (.int (interCount (tokensOf (toks true) l a.lAttr ls) (tokensOf (toks true) r a.rAttr rs)))
        a.threshold = true) ∧
    (a.outSimScore = true →
      C13.ScoreOf P (keyOf l a.lKey ls) (keyOf r a.rKey rs)
        (.int (interCount (tokensOf (toks true) l a.lAttr ls) (tokensOf (toks true) r a.rAttr rs))) ∧
      C13.ScoreOf J (keyOf l a.lKey ls) (keyOf r a.rKey rs)
        (.int (interCount (tokensOf (toks true) l a.lAttr ls) (tokensOf (toks true) r a.rAttr rs)))) := by
  have hvJ := overlap_validateJoin a t l r f hf hv hk
  have hM := stage2_iff a t toks l r "OVERLAP" hvJ (overlap_op6 a t f hf) hset hn1 hn2 hn3 nj₁ hcall am nj cpu₁ C hC hClen
    sim nj₂ cpu₂ P h2 ls rs hls hrs hpl hpr
  rw [hsim] at hM
  have hJ' := C13.overlap_iff a t toks cpu l r f hf hv hk hnd hlen J hJ ls rs hls hrs hpl hpr
  exact ⟨hM.1, hJ'.1, fun ho => ⟨hM.2 ho, hJ'.2 ho⟩⟩

/-- CORE of C07 for `overlap_coefficient_join`: as `overlap_core`, with a `sim_function` that computes the overlap
    coefficient of two token lists having a common token. -/
theorem ovc_core (hv : validateJoin "OVERLAP_COEFFICIENT" a t = .ok (l, r))
    (hnd : ∀ s, (toks true s).Nodup) (hlen : r.rows.length < 2 ^ 40) (hset : t.returnSet = true)
    (hn1 : a.lPre ++ a.lKey ≠ "_id") (hn2 : a.rPre ++ a.rKey ≠ "_id") (hn3 : a.lPre ++ a.lKey ≠ a.rPre ++ a.rKey)
    {call : Bool → Int → Int → Except PyErr Frame} (nj₁ : Int) (hcall : TableCall call (stage1Args a nj₁) l r false)
    (am : Bool) (nj cpu₁ : Int) (C : Frame) (hC : call am nj cpu₁ = .ok C) (hClen : C.rows.length < 2 ^ 40)
    (sim : SimArg → SimArg → PyV)
    (nj₂ cpu₂ : Int) (P : Frame) (h2 : applyMatcher (stage2Args a C nj₂) (some t) toks sim cpu₂ = .ok P)
    (cpu : Int) (J : Frame) (hJ : (overlapCoefficientJoinPy a t toks cpu).result = .ok J)
    (ls rs : Row) (hls : ls ∈ l.rows) (hrs : rs ∈ r.rows)
    (hpl : Present l a.lAttr ls) (hpr : Present r a.rAttr rs)
    (hsim : sim (.toks (tokensOf (toks true) l a.lAttr ls)) (.toks (tokensOf (toks true) r a.rAttr rs)) =
      Spec.ovcScore (tokensOf (toks true) l a.lAttr ls) (tokensOf (toks true) r a.rAttr rs)) :
    (C13.InResult P (keyOf l a.lKey ls) (keyOf r a.rKey rs) ↔
      C13.InResult C (keyOf l a.lKey ls) (keyOf r a.rKey rs) ∧
      compFn a.compOp (Spec.ovcScore (tokensOf (toks true) l a.lAttr ls) (tokensOf (toks true) r a.rAttr rs))
        a.threshold = true) ∧
    (C13.InResult J (keyOf l a.lKey ls) (keyOf r a.rKey rs) ↔
      ((Spec.bothEmpty (tokensOf (toks true) l a.lAttr ls) (tokensOf (toks true) r a.rAttr rs) = true ∧
          a.allowEmpty = true) ∨
        compFn a.compOp (Spec.ovcScore (tokensOf (toks true) l a.lAttr ls) (tokensOf (toks true) r a.rAttr rs))
          a.threshold = true)) ∧
    (a.outSimScore = true →
      C13.ScoreOf P (keyOf l a.lKey ls) (keyOf r a.rKey rs)
        (scoreCell (Spec.ovcScore (tokensOf (toks true) l a.lAttr ls) (tokensOf (toks true) r a.rAttr rs))) ∧
      C13.ScoreOf J (keyOf l a.lKey ls) (keyOf r a.rKey rs)
        (if Spec.bothEmpty (tokensOf (toks true) l a.lAttr ls) (tokensOf (toks true) r a.rAttr rs) then .flt 1
         else scoreCell (Spec.ovcScore (tokensOf (toks true) l a.lAttr ls) (tokensOf (toks true) r a.rAttr rs)))) := by
  have hop := (EX.ovc_valid_thr_op a t l r hv).2
  have hop6 : a.compOp ∈ [">=", ">", "<=", "<", "=", "!="] := by
    simp only [List.mem_cons, List.not_mem_nil, or_false] at hop ⊢
    rcases hop with h | h | h <;> simp [h]
  have hM := stage2_iff a t toks l r _ hv hop6 hset hn1 hn2 hn3 nj₁ hcall am nj cpu₁ C hC hClen
    sim nj₂ cpu₂ P h2 ls rs hls hrs hpl hpr
  rw [hsim] at hM
  have hJ' := C13.ovc_iff a t toks cpu l r hv hnd hlen J hJ ls rs hls hrs hpl hpr
  exact ⟨hM.1, hJ'.1, fun ho => ⟨hM.2 ho, hJ'.2 ho⟩⟩

end Core

/-! ## 2a. py_stringmatching's overlap coefficient of two token lists -/

/-- `OverlapCoefficient().get_raw_score(A, B)` of py_stringmatching on two token LISTS: exact-LIST-match shortcut 1.0,
    one side empty ↦ 0, otherwise `float(|set(A) ∩ set(B)|) / min(|set(A)|, |set(B)|)` in double precision -/
def ovcRaw (A B : List Tok) : PyV :=
  if A = B then .float 1 else
  if A.length = 0 || B.length = 0 then .int 0 else
  PyV.div (PyV.toFloat (.int (interCount A B))) (PyV.toFloat (.int (min (setLen A) (setLen B) : Nat)))

theorem interCount_self (A : List Tok) (hA : A.Nodup) : interCount A A = A.length := by
  unfold interCount
  rw [dedup_eq_self_of_nodup A hA]
  congr 1
  rw [List.filter_eq_self]
  intro x hx
  exact decide_eq_true hx

/-- on two duplicate-free token lists (fewer than 2⁵³ tokens) with a common token py_stringmatching's function is the
    formula the join evaluates inline (`Spec.ovcScore`): the shortcut value 1.0 is `float(n) / n` -/
theorem ovcRaw_eq_ovcScore (A B : List Tok) (hA : A.Nodup) (hB : B.Nodup) (hAs : A.length < 2 ^ 53)
    (h : 1 ≤ interCount A B) : ovcRaw A B = Spec.ovcScore A B := by
  unfold ovcRaw
  by_cases he : A = B
  · subst he
    rw [if_pos rfl]
    unfold Spec.ovcScore
    rw [interCount_self A hA] at h ⊢
    rw [Nat.min_self]
    have hn : ((A.length : Nat) : Rat) ≤ 2 ^ 53 := by
      have : (A.length : Rat) < 2 ^ 53 := by exact_mod_cast hAs
      exact this.le
    have hpos : ((A.length : Nat) : Rat) ≠ 0 := by
      have : (1 : Rat) ≤ (A.length : Rat) := by exact_mod_cast h
      intro h0; rw [h0] at this; norm_num at this
    rw [toFloat_n _ hn, div_ff _ _ hpos, div_self hpos, ofExact_float (by norm_num) (by norm_num), EntrySetSim.rn_one]
  · rw [if_neg he]
    have hne : (decide (A.length = 0) || decide (B.length = 0)) = false := by
      rw [Bool.or_eq_false_iff, decide_eq_false_iff_not, decide_eq_false_iff_not]
      constructor
      · intro h0
        rw [EX.interCount_of_empty A B (Or.inl h0)] at h; omega
      · intro h0
        rw [EX.interCount_of_empty A B (Or.inr h0)] at h; omega
    rw [if_neg (by rw [hne]; exact Bool.false_ne_true), setLen_of_nodup A hA, setLen_of_nodup B hB]
    rfl


/-! ## 3. missing-value rows of `apply_matcher` on the candidate set of a first stage (C07.5) -/

/-- counting through `filterMap`: if `f` maps every element to a value with the same mark (`p (f x) = q x`) and keeps
    every marked element, the marked values of `filterMap f xs` are as many as the marked elements of `xs` -/
theorem length_filter_filterMap {α β : Type} (f : α → Option β) (p : β → Bool) (q : α → Bool) (xs : List α)
    (h1 : ∀ x ∈ xs, ∀ y, f x = some y → p y = q x) (h2 : ∀ x ∈ xs, q x = true → ∃ y, f x = some y) :
    ((xs.filterMap f).filter p).length = (xs.filter q).length := by
  induction xs with
  | nil => rfl
  | cons x xs ih =>
    have ih' := ih (fun x hx => h1 x (List.mem_cons_of_mem _ hx)) (fun x hx => h2 x (List.mem_cons_of_mem _ hx))
    cases hfx : f x with
    | none =>
      have hq : q x = false := by
        cases hqx : q x with
        | false => rfl
        | true =>
          obtain ⟨y, hy⟩ := h2 x List.mem_cons_self hqx
          rw [hfx] at hy; cases hy
      rw [List.filterMap_cons_none hfx, List.filter_cons, hq]
      exact ih'
    | some y =>
      have hpq := h1 x List.mem_cons_self y hfx
      rw [List.filterMap_cons_some hfx, List.filter_cons, List.filter_cons, hpq]
      cases q x with
      | false => exact ih'
      | true => simp only [if_true, List.length_cons, ih']

/-- in a list with exactly one marked element, every marked element is that one -/
theorem eq_of_filter_length_one {α : Type} (p : α → Bool) (xs : List α) (h : (xs.filter p).length = 1)
    (x y : α) (hx : x ∈ xs) (hy : y ∈ xs) (px : p x = true) (py : p y = true) : x = y := by
  obtain ⟨z, hz⟩ := List.length_eq_one_iff.1 h
  have h1 : x ∈ xs.filter p := List.mem_filter.2 ⟨hx, px⟩
  have h2 : y ∈ xs.filter p := List.mem_filter.2 ⟨hy, py⟩
  rw [hz, List.mem_singleton] at h1 h2
  rw [h1, h2]

/-- the output row of `apply_matcher` (second stage of the pipeline) without its `_id` is the documented row of the
    join: keys, requested attributes, score -/
theorem outRow_drop_one (a : JoinArgs) (C : Frame) (nj : Int) (l r : Frame) (id : Cell) (ls rs : Row) (s : Cell) :
    (C05.outRow (stage2Args a C nj) l r id ls rs s).drop 1 =
      C11.projectedRow a.toTableArgs l r ls rs ++ (if a.outSimScore then [s] else []) := by
  unfold C05.outRow C11.projectedRow withScore C05.outAttrs C11.outAttrs
  show List.drop 1 (if a.outSimScore = true then _ else _) = _
  by_cases h : a.outSimScore = true
  · rw [if_pos h, if_pos h]
    simp [stage2Args]
  · rw [if_neg h, if_neg h]
    simp [stage2Args]

theorem rowKeys_projected (a : TableArgs) (l r : Frame) (ls rs : Row) (i : Cell) (tail : List Cell) :
    rowKeys (i :: (C11.projectedRow a l r ls rs ++ tail)) = (keyOf l a.lKey ls, keyOf r a.rKey rs) := by
  unfold rowKeys C11.projectedRow
  rfl

section Missing
variable (a : JoinArgs) (t : TokObj) (toks : TokFn) (l r : Frame)

/-- `apply_matcher` on the candidate set of ANY entry point run on `stage1Args`, for a pair of source rows with a
    MISSING join value on at least one side:
    * with `allow_missing` the result has as many rows naming the pair as the candidate set, and each of them is the
      pair's output row with a missing (NaN) score;
    * without `allow_missing` the result has no row naming the pair;
    * in any case a row naming the pair stems from a candidate naming the pair. -/
theorem stage2_missing (mname : String) (hv : validateJoin mname a t = .ok (l, r))
    (hop6 : a.compOp ∈ [">=", ">", "<=", "<", "=", "!="])
    (hn1 : a.lPre ++ a.lKey ≠ "_id") (hn2 : a.rPre ++ a.rKey ≠ "_id") (hn3 : a.lPre ++ a.lKey ≠ a.rPre ++ a.rKey)
    {call : Bool → Int → Int → Except PyErr Frame} (nj₁ : Int) (hcall : TableCall call (stage1Args a nj₁) l r false)
    (am : Bool) (nj cpu₁ : Int) (C : Frame) (hC : call am nj cpu₁ = .ok C) (hClen : C.rows.length < 2 ^ 40)
    (t' : Option TokObj) (ht : t' = some t ∨ t' = none) (sim : SimArg → SimArg → PyV)
    (nj₂ cpu₂ : Int) (P : Frame) (h2 : applyMatcher (stage2Args a C nj₂) t' toks sim cpu₂ = .ok P)
    (ls rs : Row) (hls : ls ∈ l.rows) (hrs : rs ∈ r.rows)
    (hm : ¬ Present l a.lAttr ls ∨ ¬ Present r a.rAttr rs) :
    (a.allowMissing = true →
      (P.rows.filter (fun row => decide (rowKeys row = (keyOf l a.lKey ls, keyOf r a.rKey rs)))).length =
        (C.rows.filter (fun row => decide (rowKeys row = (keyOf l a.lKey ls, keyOf r a.rKey rs)))).length ∧
      ∀ row ∈ P.rows, rowKeys row = (keyOf l a.lKey ls, keyOf r a.rKey rs) →
        row.drop 1 = C11.projectedRow a.toTableArgs l r ls rs ++ (if a.outSimScore then [Cell.missing] else [])) ∧
    (a.allowMissing = false → ¬ C13.InResult P (keyOf l a.lKey ls) (keyOf r a.rKey rs)) ∧
    (C13.InResult P (keyOf l a.lKey ls) (keyOf r a.rKey rs) → C13.InResult C (keyOf l a.lKey ls) (keyOf r a.rKey rs)) := by
  obtain ⟨c1, c2, c3, c4⟩ := candset_columns hcall am nj cpu₁ C hC hn1 hn2 hn3
  have hsrc := candset_rows hcall am nj cpu₁ C hC
  have hvM := stage2_valid mname a t l r C nj₂ hv hop6 c3 c4 t' ht
  set aM := stage2Args a C nj₂ with haM
  have c1 : C.colIdx aM.candLKey = 1 := c1
  have c2 : C.colIdx aM.candRKey = 2 := c2
  have hsrc : ∀ row ∈ C.rows, ∃ ls ∈ l.rows, ∃ rs ∈ r.rows,
      rowKeys row = (keyOf l a.lKey ls, keyOf r a.rKey rs) := hsrc
  have hV := (validateMatcher_ok_iff aM t' C l r).1 hvM
  have hkeyL : ∀ s₁ ∈ l.rows, ∀ s₂ ∈ l.rows, keyOf l a.lKey s₁ = keyOf l a.lKey s₂ → s₁ = s₂ :=
    fun s₁ h₁ s₂ h₂ he => List.inj_on_of_nodup_map hV.lKeyValid.nodup h₁ h₂ he
  have hkeyR : ∀ s₁ ∈ r.rows, ∀ s₂ ∈ r.rows, keyOf r a.rKey s₁ = keyOf r a.rKey s₂ → s₁ = s₂ :=
    fun s₁ h₁ s₂ h₂ he => List.inj_on_of_nodup_map hV.rKeyValid.nodup h₁ h₂ he
  have hcell : ∀ cr : Row, (cr.cell (C.colIdx aM.candLKey), cr.cell (C.colIdx aM.candRKey)) = rowKeys cr := by
    intro cr; rw [c1, c2]; rfl
  obtain ⟨hl, hr⟩ := cand_keys_mem aM C l r c1 c2 hsrc
  obtain ⟨P', hP', hrows, -⟩ := C05.keeps_exactly aM t' toks sim cpu₂ C l r hvM
    (fun cr hcr => PyMem.of_mem (hl cr hcr)) (fun cr hcr => PyMem.of_mem (hr cr hcr)) hClen
    (fun _ => ⟨(hcall.bodyOK hC).lstr, (hcall.bodyOK hC).rstr⟩)
  rw [h2] at hP'
  cases Except.ok.inj hP'
  -- the specification of a candidate row, in terms of ITS source rows
  have hspec : ∀ cr ∈ C.rows, ∃ ls' ∈ l.rows, ∃ rs' ∈ r.rows,
      rowKeys cr = (keyOf l a.lKey ls', keyOf r a.rKey rs') ∧
      C05.rowSpec aM (C05.tokOf t' toks) sim C l r cr = C05.pairSpec aM (C05.tokOf t' toks) sim l r (cr.cell 0) ls' rs' := by
    intro cr hcr
    obtain ⟨ls', hls', rs', hrs', hk'⟩ := hsrc cr hcr
    have hk'' := hk'
    rw [← hcell cr, Prod.mk.injEq] at hk''
    exact ⟨ls', hls', rs', hrs', hk',
      C05.rowSpec_eq_pairSpec aM _ sim C l r hV.lKeyValid.1 hV.rKeyValid.1 cr ls' rs' hls' hrs' hk''.1.symm hk''.2.symm⟩
  -- a candidate naming the pair has `ls`, `rs` as its source rows
  have hspecK : ∀ cr ∈ C.rows, rowKeys cr = (keyOf l a.lKey ls, keyOf r a.rKey rs) →
      C05.rowSpec aM (C05.tokOf t' toks) sim C l r cr =
        if a.allowMissing then some (C05.outRow aM l r (cr.cell 0) ls rs .missing) else none := by
    intro cr hcr hk
    obtain ⟨ls', hls', rs', hrs', hk', hs⟩ := hspec cr hcr
    rw [hk, Prod.mk.injEq] at hk'
    have e1 : ls' = ls := hkeyL ls' hls' ls hls hk'.1.symm
    have e2 : rs' = rs := hkeyR rs' hrs' rs hrs hk'.2.symm
    subst e1 e2
    rw [hs, C05.missing_kept_iff aM _ sim l r _ ls' rs' hm]
    rfl
  -- every output row carries the keys of its candidate
  have hkeys : ∀ cr ∈ C.rows, ∀ row, C05.rowSpec aM (C05.tokOf t' toks) sim C l r cr = some row →
      rowKeys row = rowKeys cr := by
    intro cr hcr row hrow
    obtain ⟨ls', -, rs', -, hk', hs⟩ := hspec cr hcr
    rw [hs] at hrow
    rw [hk']
    exact pairSpec_keys aM _ sim l r _ ls' rs' row hrow
  have hback : ∀ row ∈ P.rows, rowKeys row = (keyOf l a.lKey ls, keyOf r a.rKey rs) →
      ∃ cr ∈ C.rows, rowKeys cr = (keyOf l a.lKey ls, keyOf r a.rKey rs) ∧
        C05.rowSpec aM (C05.tokOf t' toks) sim C l r cr = some row := by
    intro row hrow hk
    rw [hrows] at hrow
    obtain ⟨cr, hcr, hs⟩ := List.mem_filterMap.1 hrow
    exact ⟨cr, hcr, by rw [← hkeys cr hcr row hs]; exact hk, hs⟩
  refine ⟨fun ham => ⟨?_, ?_⟩, ?_, ?_⟩
  · rw [hrows]
    apply length_filter_filterMap
    · intro cr hcr row hs
      rw [hkeys cr hcr row hs]
    · intro cr hcr hq
      have hk : rowKeys cr = (keyOf l a.lKey ls, keyOf r a.rKey rs) := of_decide_eq_true hq
      exact ⟨_, by rw [hspecK cr hcr hk, ham]; rfl⟩
  · intro row hrow hk
    obtain ⟨cr, hcr, hkc, hs⟩ := hback row hrow hk
    rw [hspecK cr hcr hkc, ham, if_pos rfl] at hs
    cases hs
    exact outRow_drop_one a C nj₂ l r _ ls rs _
  · rintro ham ⟨row, hrow, hk⟩
    obtain ⟨cr, hcr, hkc, hs⟩ := hback row hrow hk
    rw [hspecK cr hcr hkc, ham] at hs
    cases hs
  · rintro ⟨row, hrow, hk⟩
    obtain ⟨cr, hcr, hkc, -⟩ := hback row hrow hk
    exact ⟨cr, hcr, hkc⟩

end Missing

end PipelineMore
end SSJ

section AxiomCheck
open SSJ.PipelineMore
#print axioms overlap_validateJoin
#print axioms int_le_of_compFn
#print axioms stage2_iff
#print axioms overlap_core
#print axioms ovc_core
#print axioms ovcRaw_eq_ovcScore
#print axioms stage2_missing
end AxiomCheck

/-
  SSJ.Proofs.Converter — property C16: numeric-to-string conversion (`utils/converter.py`).
-/
import Mathlib.Data.Rat.Floor
import Mathlib.Tactic.SplitIfs
import SSJ.Model.Converter

namespace SSJ.Converter
open SSJ

/-! ### cells -/

theorem cellToStr_isMissing (reprF : Rat → String) (b : Bool) (x : Cell) :
    (cellToStr reprF b x).isMissing = x.isMissing := by
  cases x with
  | other t => simp only [cellToStr]; split_ifs <;> rfl
  | _ => cases b <;> rfl

theorem cellToStr_missing (reprF : Rat → String) (b : Bool) : cellToStr reprF b .missing = .missing := rfl

theorem cellToStr_int (reprF : Rat → String) (b : Bool) (i : Int) :
    cellToStr reprF b (.int i) = .str (toString i) := rfl

theorem cellToStr_flt (reprF : Rat → String) (b : Bool) (q : Rat) :
    cellToStr reprF b (.flt q) = .str (if b then toString q.floor else reprF q) := by
  cases b <;> rfl

theorem cellToStr_posInf (reprF : Rat → String) (b : Bool) : cellToStr reprF b (.other posInfTag) = .str "inf" := by
  simp [cellToStr]

theorem cellToStr_negInf (reprF : Rat → String) (b : Bool) : cellToStr reprF b (.other negInfTag) = .str "-inf" := by
  simp [cellToStr, posInfTag, negInfTag]

theorem cellToStr_str (reprF : Rat → String) (b : Bool) (s : String) : cellToStr reprF b (.str s) = .str s := rfl

theorem isMissing_iff (x : Cell) : x.isMissing = true ↔ x = .missing := by
  cases x <;> simp [Cell.isMissing]

theorem map_cellToStr_of_all_missing (reprF : Rat → String) (b : Bool) (l : List Cell)
    (h : ∀ x ∈ l, x.isMissing = true) : l.map (cellToStr reprF b) = l := by
  induction l with
  | nil => rfl
  | cons x xs ih =>
    have hx := (isMissing_iff x).mp (h x List.mem_cons_self)
    subst hx
    rw [List.map_cons, ih (fun y hy => h y (List.mem_cons_of_mem _ hy))]
    rfl

/-- integral double ⇔ it equals its floor (so `str(int(v))` loses nothing) -/
theorem isIntegral_iff (q : Rat) : isIntegral q = true ↔ ((q.floor : Int) : Rat) = q := by
  unfold isIntegral
  rw [beq_iff_eq]
  constructor
  · intro h
    have hq : q = (q.num : Rat) := (Rat.den_eq_one_iff q).mp h |>.symm
    rw [hq, Rat.floor_intCast]
  · intro h
    rw [← h]
    exact Rat.den_intCast _

/-! ### what "converted" means -/

/-- the model's test "every present value is integral" of a float column -/
def presentAllIntegral (c : Column) : Bool :=
  (c.values.filter (fun v => !v.isMissing)).all
    (fun v => match v with | .flt q => isIntegral q | .int _ => true | _ => false)

/-- for a genuine float column (present cells are `.flt`) the test says: every present value is integral -/
theorem presentAllIntegral_iff (c : Column) (hflt : ∀ v ∈ c.values, v.isMissing = false → ∃ q, v = .flt q) :
    presentAllIntegral c = true ↔ ∀ q, Cell.flt q ∈ c.values → isIntegral q = true := by
  unfold presentAllIntegral
  rw [List.all_eq_true]
  constructor
  · intro h q hq
    exact h (.flt q) (List.mem_filter.mpr ⟨hq, rfl⟩)
  · intro h v hv
    obtain ⟨hv1, hv2⟩ := List.mem_filter.mp hv
    obtain ⟨q, rfl⟩ := hflt v hv1 (by simpa using hv2)
    exact h q hv1

/-- without any assumption on the cells: the test succeeds iff every present cell is an integral finite float (or an
    int); in particular a column holding `inf` / `-inf` is not integral -/
theorem presentAllIntegral_iff' (c : Column) :
    presentAllIntegral c = true ↔
      ∀ v ∈ c.values, v = .missing ∨ (∃ q, v = .flt q ∧ isIntegral q = true) ∨ ∃ i, v = .int i := by
  unfold presentAllIntegral
  rw [List.all_eq_true]
  constructor
  · intro h v hv
    cases v with
    | missing => exact Or.inl rfl
    | flt q => exact Or.inr (Or.inl ⟨q, rfl, h (.flt q) (List.mem_filter.mpr ⟨hv, rfl⟩)⟩)
    | int i => exact Or.inr (Or.inr ⟨i, rfl⟩)
    | str s => exact absurd (h (.str s) (List.mem_filter.mpr ⟨hv, rfl⟩)) (by simp)
    | other t => exact absurd (h (.other t) (List.mem_filter.mpr ⟨hv, rfl⟩)) (by simp)
  · intro h v hv
    obtain ⟨hv1, hv2⟩ := List.mem_filter.mp hv
    rcases h v hv1 with rfl | ⟨q, rfl, hq⟩ | ⟨i, rfl⟩
    · simp [Cell.isMissing] at hv2
    · exact hq
    · rfl

/-- a float column holding an infinity (or any other non-numeric cell) is not integral -/
theorem presentAllIntegral_of_other (c : Column) (t : String) (h : Cell.other t ∈ c.values) :
    presentAllIntegral c = false := by
  rw [← Bool.not_eq_true, presentAllIntegral_iff']
  intro hall
  rcases hall _ h with h | ⟨q, h, _⟩ | ⟨i, h⟩ <;> cases h

/-- the resulting column `res` is the string conversion of `c` -/
structure Converted (reprF : Rat → String) (c res : Column) : Prop where
  /-- missing stays missing, present stays present (in particular, same length) -/
  missing : res.values.map Cell.isMissing = c.values.map Cell.isMissing
  /-- string columns are returned unchanged -/
  objStr : c.dtype = "object" ∨ c.dtype = "str" → res.values = c.values
  /-- int columns: `str(v)` of every present value -/
  int : c.dtype = "int" → res.values = c.values.map (cellToStr reprF true)
  /-- float columns: `str(int(v))` if all present values are integral, else `repr(v)` -/
  float : c.dtype = "float" → res.values = c.values.map (cellToStr reprF (presentAllIntegral c))

namespace Converted
variable {reprF : Rat → String} {c res : Column}

theorem length_eq (h : Converted reprF c res) : res.values.length = c.values.length := by
  have := congrArg List.length h.missing
  simpa using this

theorem isMissing_getElem (h : Converted reprF c res) (i : Nat) (hi : i < c.values.length) :
    (res.values[i]'(by rw [h.length_eq]; exact hi)).isMissing = (c.values[i]).isMissing := by
  have := h.missing
  have h2 : (res.values.map Cell.isMissing)[i]? = (c.values.map Cell.isMissing)[i]? := by rw [this]
  simpa [List.getElem?_map, hi, h.length_eq] using h2

/-- the cell is missing in `res` iff it is missing in `c` (never turned into a string) -/
theorem missing_iff (h : Converted reprF c res) (i : Nat) (hi : i < c.values.length) :
    res.values[i]'(by rw [h.length_eq]; exact hi) = Cell.missing ↔ c.values[i] = Cell.missing := by
  rw [← isMissing_iff, ← isMissing_iff, h.isMissing_getElem i hi]

theorem getElem?_isMissing (h : Converted reprF c res) (i : Nat) :
    (res.values[i]?).map Cell.isMissing = (c.values[i]?).map Cell.isMissing := by
  have := h.missing
  rw [← List.getElem?_map, ← List.getElem?_map, this]

/-- int column: `.int i` becomes `.str (toString i)` -/
theorem int_cell (h : Converted reprF c res) (hd : c.dtype = "int") (i : Nat) (k : Int)
    (hc : c.values[i]? = some (.int k)) : res.values[i]? = some (.str (toString k)) := by
  rw [h.int hd, List.getElem?_map, hc]
  rfl

/-- float column, every present value integral: `.flt q` becomes `.str (toString q.floor)` -/
theorem float_cell_integral (h : Converted reprF c res) (hd : c.dtype = "float")
    (hall : presentAllIntegral c = true) (i : Nat) (q : Rat)
    (hc : c.values[i]? = some (.flt q)) : res.values[i]? = some (.str (toString q.floor)) := by
  rw [h.float hd, List.getElem?_map, hc, hall]
  rfl

/-- float column, some present value not integral: `.flt q` becomes `.str (reprF q)` -/
theorem float_cell_repr (h : Converted reprF c res) (hd : c.dtype = "float")
    (hall : presentAllIntegral c = false) (i : Nat) (q : Rat)
    (hc : c.values[i]? = some (.flt q)) : res.values[i]? = some (.str (reprF q)) := by
  rw [h.float hd, List.getElem?_map, hc, hall]
  rfl

/-- float column: `inf` becomes the string "inf", `-inf` the string "-inf" (and the other values are printed with
    `repr`, since the column is then not integral) -/
theorem float_cell_inf (h : Converted reprF c res) (hd : c.dtype = "float") (i : Nat) :
    (c.values[i]? = some (.other posInfTag) → res.values[i]? = some (.str "inf")) ∧
    (c.values[i]? = some (.other negInfTag) → res.values[i]? = some (.str "-inf")) := by
  constructor <;> intro hc
  · rw [h.float hd, List.getElem?_map, hc, Option.map_some, cellToStr_posInf]
  · rw [h.float hd, List.getElem?_map, hc, Option.map_some, cellToStr_negInf]

/-- every cell of a converted numeric column is missing or a string, provided the input cells are
    missing or numeric -/
theorem numeric_cell (h : Converted reprF c res) (hd : c.dtype = "int" ∨ c.dtype = "float")
    (i : Nat) (x : Cell) (hc : c.values[i]? = some x) :
    ∃ b, res.values[i]? = some (cellToStr reprF b x) := by
  rcases hd with hd | hd
  · exact ⟨true, by rw [h.int hd, List.getElem?_map, hc]; rfl⟩
  · exact ⟨presentAllIntegral c, by rw [h.float hd, List.getElem?_map, hc]; rfl⟩

end Converted

/-- a column whose values are kept as they are is "converted" when it is a string column or has no
    present value -/
theorem converted_of_values_eq (reprF : Rat → String) (c res : Column) (hv : res.values = c.values)
    (h : (c.dtype = "object" ∨ c.dtype = "str") ∨ ∀ x ∈ c.values, x.isMissing = true) :
    Converted reprF c res := by
  refine ⟨by rw [hv], fun _ => hv, ?_, ?_⟩
  · intro hd
    rcases h with (h | h) | h
    · rw [hd] at h; simp at h
    · rw [hd] at h; simp at h
    · rw [hv, map_cellToStr_of_all_missing reprF _ _ h]
  · intro hd
    rcases h with (h | h) | h
    · rw [hd] at h; simp at h
    · rw [hd] at h; simp at h
    · rw [hv, map_cellToStr_of_all_missing reprF _ _ h]

/-! ### `seriesToStr` -/

def Result.col? : Result → Option Column
  | .retTrue c => some c
  | .retCol c => some c
  | .err _ => none

theorem filter_present_length_zero (l : List Cell) (h : (l.filter (fun v => !v.isMissing)).length = 0) :
    ∀ x ∈ l, x.isMissing = true := by
  intro x hx
  have hnil := List.length_eq_zero_iff.mp h
  rw [List.filter_eq_nil_iff] at hnil
  simpa using hnil x hx

/-- the conversion of a non-empty int column -/
def intConv (reprF : Rat → String) (c : Column) : Column :=
  { dtype := "str", values := c.values.map (cellToStr reprF true) }

/-- the conversion of a float column with at least one present value -/
def floatConv (reprF : Rat → String) (c : Column) : Column :=
  { dtype := "str", values := c.values.map (cellToStr reprF (presentAllIntegral c)) }

def wrap (inplace : Bool) (c : Column) : Result := if inplace then .retTrue c else .retCol c

/-- `seriesToStr` by cases, in code order -/
theorem seriesToStr_eq (reprF : Rat → String) (c : Column) (inplace : Bool) :
    seriesToStr reprF c inplace =
      if c.values.length = 0 then
        (if c.dtype == "object" && inplace then .retTrue c else .retCol { c with dtype := "object" })
      else if c.dtype = "object" ∨ c.dtype = "str" then wrap inplace c
      else if c.dtype = "int" then wrap inplace (intConv reprF c)
      else if c.dtype = "float" then
        (if ∀ x ∈ c.values, x.isMissing = true then .retCol { c with dtype := "object" }
         else wrap inplace (floatConv reprF c))
      else .err .typeErr := by
  have hiff : (c.values.filter (fun v => !v.isMissing)).length = 0 ↔
      ∀ x ∈ c.values, x.isMissing = true := by
    rw [List.length_eq_zero_iff, List.filter_eq_nil_iff]
    simp
  unfold seriesToStr wrap intConv floatConv presentAllIntegral
  simp only [hiff, Bool.or_eq_true, beq_iff_eq]
  split_ifs <;> rfl

theorem wrap_col? (inplace : Bool) (c : Column) : (wrap inplace c).col? = some c := by
  cases inplace <;> rfl

theorem intConv_converted (reprF : Rat → String) (c : Column) (hd : c.dtype = "int") :
    Converted reprF c (intConv reprF c) := by
  refine ⟨by simp [intConv, cellToStr_isMissing, Function.comp_def], ?_, fun _ => rfl, ?_⟩
  · rw [hd]; simp
  · rw [hd]; simp

theorem floatConv_converted (reprF : Rat → String) (c : Column) (hd : c.dtype = "float") :
    Converted reprF c (floatConv reprF c) := by
  refine ⟨by simp [floatConv, cellToStr_isMissing, Function.comp_def], ?_, ?_, fun _ => rfl⟩
  · rw [hd]; simp
  · rw [hd]; simp

/-- C16 for `series_to_str`: whatever is returned (new column, or the column now held by the given
    object) is the conversion of the input -/
theorem seriesToStr_converted (reprF : Rat → String) (c : Column) (inplace : Bool) (res : Column)
    (h : (seriesToStr reprF c inplace).col? = some res) : Converted reprF c res := by
  rw [seriesToStr_eq] at h
  have hempty : c.values.length = 0 → ∀ x ∈ c.values, x.isMissing = true := by
    intro h0
    have := List.length_eq_zero_iff.mp h0
    simp [this]
  split_ifs at h with h0 h1 h2 h3 h4 h5
  · cases h; exact converted_of_values_eq _ _ _ rfl (Or.inr (hempty h0))
  · cases h; exact converted_of_values_eq _ _ _ rfl (Or.inr (hempty h0))
  · rw [wrap_col?] at h; cases h
    exact converted_of_values_eq _ _ _ rfl (Or.inl h2)
  · rw [wrap_col?] at h; cases h
    exact intConv_converted reprF c h3
  · cases h; exact converted_of_values_eq _ _ _ rfl (Or.inr h5)
  · rw [wrap_col?] at h; cases h
    exact floatConv_converted reprF c h4
  · cases h

/-- element-wise reading of C16 for `series_to_str` -/
theorem seriesToStr_spec (reprF : Rat → String) (c : Column) (inplace : Bool) (res : Column)
    (h : (seriesToStr reprF c inplace).col? = some res) :
    res.values.length = c.values.length ∧
    (∀ i (hi : i < c.values.length) (hi' : i < res.values.length),
        res.values[i] = Cell.missing ↔ c.values[i] = Cell.missing) ∧
    (c.dtype = "object" ∨ c.dtype = "str" → res.values = c.values) ∧
    (c.dtype = "int" → ∀ (i : Nat) (k : Int), c.values[i]? = some (Cell.int k) → res.values[i]? = some (Cell.str (toString k))) ∧
    (c.dtype = "float" → presentAllIntegral c = true →
        ∀ (i : Nat) (q : Rat), c.values[i]? = some (Cell.flt q) → res.values[i]? = some (Cell.str (toString q.floor))) ∧
    (c.dtype = "float" → presentAllIntegral c = false →
        ∀ (i : Nat) (q : Rat), c.values[i]? = some (Cell.flt q) → res.values[i]? = some (Cell.str (reprF q))) ∧
    (c.dtype = "float" → ∀ i : Nat,
        (c.values[i]? = some (Cell.other posInfTag) → res.values[i]? = some (Cell.str "inf")) ∧
        (c.values[i]? = some (Cell.other negInfTag) → res.values[i]? = some (Cell.str "-inf"))) := by
  have hc := seriesToStr_converted reprF c inplace res h
  exact ⟨hc.length_eq, fun i hi _ => hc.missing_iff i hi, hc.objStr, fun hd i k => hc.int_cell hd i k,
    fun hd ha i q => hc.float_cell_integral hd ha i q, fun hd ha i q => hc.float_cell_repr hd ha i q,
    fun hd i => hc.float_cell_inf hd i⟩

/-- errors of `series_to_str`: only TypeError, exactly for a non-empty column of another dtype -/
theorem seriesToStr_err_iff (reprF : Rat → String) (c : Column) (inplace : Bool) (e : PyErr) :
    seriesToStr reprF c inplace = .err e ↔
      e = .typeErr ∧ c.values.length ≠ 0 ∧
        c.dtype ≠ "object" ∧ c.dtype ≠ "str" ∧ c.dtype ≠ "int" ∧ c.dtype ≠ "float" := by
  rw [seriesToStr_eq]
  unfold wrap
  split_ifs <;> simp_all
  all_goals first | exact eq_comm | tauto

/-- the documented exception: an empty or all-missing float column cannot be converted in place;
    a new "object" column is returned even when `inplace = true` -/
theorem seriesToStr_float_all_missing (reprF : Rat → String) (c : Column) (inplace : Bool)
    (hd : c.dtype = "float") (h : c.values.length = 0 ∨ ∀ x ∈ c.values, x.isMissing = true) :
    seriesToStr reprF c inplace = .retCol { c with dtype := "object" } := by
  rw [seriesToStr_eq]
  by_cases h0 : c.values.length = 0
  · simp [h0, hd]
  · have hall : ∀ x ∈ c.values, x.isMissing = true := h.resolve_left h0
    simp only [h0, if_false, hd]
    rw [if_pos hall]
    simp

/-- otherwise `inplace = true` returns `True` (the object holds the converted column) and
    `inplace = false` returns a new column -/
theorem seriesToStr_mode (reprF : Rat → String) (c : Column) (inplace : Bool)
    (h : ¬ (c.dtype = "float" ∧ (c.values.length = 0 ∨ ∀ x ∈ c.values, x.isMissing = true)))
    (h' : ¬ (c.values.length = 0 ∧ c.dtype ≠ "object")) :
    (∃ e, seriesToStr reprF c inplace = .err e) ∨
    (inplace = true ∧ ∃ r, seriesToStr reprF c inplace = .retTrue r) ∨
    (inplace = false ∧ ∃ r, seriesToStr reprF c inplace = .retCol r) := by
  rw [seriesToStr_eq]
  unfold wrap
  cases inplace <;> split_ifs <;> simp_all

/-! ### `dataframeColumnToStr` -/

def FrameResult.col? : FrameResult → Option Column
  | .retTrue c => some c
  | .retCol c => some c
  | .retFrame c => some c
  | .err _ => none

/-- mode matrix, first row: both flags ⇒ AssertionError -/
theorem dataframeColumnToStr_both (reprF : Rat → String) (c : Column) :
    dataframeColumnToStr reprF c true true = .err .assertion := rfl

/-- `inplace` ⇒ returns `True` (never a column), or TypeError -/
theorem dataframeColumnToStr_inplace (reprF : Rat → String) (c : Column) :
    (∃ after, dataframeColumnToStr reprF c true false = .retTrue after) ∨
      dataframeColumnToStr reprF c true false = .err .typeErr := by
  unfold dataframeColumnToStr
  simp only [Bool.and_false, Bool.false_eq_true, if_false, if_true]
  split_ifs
  · exact Or.inl ⟨_, rfl⟩
  · cases hs : seriesToStr reprF c false with
    | retTrue r => exact Or.inl ⟨r, rfl⟩
    | retCol r => exact Or.inl ⟨r, rfl⟩
    | err e =>
      have := ((seriesToStr_err_iff reprF c false e).mp hs).1
      subst this
      exact Or.inr rfl

/-- `return_col` ⇒ returns the converted column, or TypeError -/
theorem dataframeColumnToStr_returnCol (reprF : Rat → String) (c : Column) :
    (∃ r, dataframeColumnToStr reprF c false true = .retCol r) ∨
      dataframeColumnToStr reprF c false true = .err .typeErr := by
  unfold dataframeColumnToStr
  simp only [Bool.false_and, Bool.false_eq_true, if_false, if_true]
  cases hs : seriesToStr reprF c false with
  | retTrue r => exact Or.inl ⟨r, rfl⟩
  | retCol r => exact Or.inl ⟨r, rfl⟩
  | err e =>
    have := ((seriesToStr_err_iff reprF c false e).mp hs).1
    subst this
    exact Or.inr rfl

/-- neither flag ⇒ returns a copy of the frame, or TypeError -/
theorem dataframeColumnToStr_copy (reprF : Rat → String) (c : Column) :
    (∃ r, dataframeColumnToStr reprF c false false = .retFrame r) ∨
      dataframeColumnToStr reprF c false false = .err .typeErr := by
  unfold dataframeColumnToStr
  simp only [Bool.false_and, Bool.false_eq_true, if_false]
  cases hs : seriesToStr reprF c false with
  | retTrue r => exact Or.inl ⟨r, rfl⟩
  | retCol r => exact Or.inl ⟨r, rfl⟩
  | err e =>
    have := ((seriesToStr_err_iff reprF c false e).mp hs).1
    subst this
    exact Or.inr rfl

/-- the whole matrix in one statement -/
theorem dataframeColumnToStr_mode (reprF : Rat → String) (c : Column) (inplace returnCol : Bool) :
    match dataframeColumnToStr reprF c inplace returnCol with
    | .err e => (e = .assertion ∧ inplace = true ∧ returnCol = true) ∨
                (e = .typeErr ∧ ¬(inplace = true ∧ returnCol = true))
    | .retTrue _ => inplace = true ∧ returnCol = false
    | .retCol _ => inplace = false ∧ returnCol = true
    | .retFrame _ => inplace = false ∧ returnCol = false := by
  cases inplace <;> cases returnCol
  · rcases dataframeColumnToStr_copy reprF c with ⟨r, h⟩ | h <;> rw [h] <;> simp
  · rcases dataframeColumnToStr_returnCol reprF c with ⟨r, h⟩ | h <;> rw [h] <;> simp
  · rcases dataframeColumnToStr_inplace reprF c with ⟨r, h⟩ | h <;> rw [h] <;> simp
  · rw [dataframeColumnToStr_both]; simp

/-- the column delivered by `dataframe_column_to_str` is the one `series_to_str` computes, except
    for the in-place treatment of an empty / all-missing column (kept, retyped "object") -/
theorem dataframeColumnToStr_col (reprF : Rat → String) (c : Column) (inplace returnCol : Bool)
    (res : Column) (h : (dataframeColumnToStr reprF c inplace returnCol).col? = some res) :
    (seriesToStr reprF c false).col? = some res ∨
      (inplace = true ∧ (∀ x ∈ c.values, x.isMissing = true) ∧ res = { c with dtype := "object" }) := by
  unfold dataframeColumnToStr at h
  split_ifs at h with h1 h2 h3 h4
  · cases h
  · right
    cases h
    refine ⟨h2, ?_, rfl⟩
    rcases (Bool.or_eq_true _ _).mp h3 with h3 | h3
    · have := List.length_eq_zero_iff.mp (by simpa using h3)
      simp [this]
    · simpa using h3
  · left
    cases hs : seriesToStr reprF c false <;> rw [hs] at h <;> exact h
  · left
    cases hs : seriesToStr reprF c false <;> rw [hs] at h <;> exact h
  · left
    cases hs : seriesToStr reprF c false <;> rw [hs] at h <;> exact h

/-- C16 for `dataframe_column_to_str` -/
theorem dataframeColumnToStr_converted (reprF : Rat → String) (c : Column) (inplace returnCol : Bool)
    (res : Column) (h : (dataframeColumnToStr reprF c inplace returnCol).col? = some res) :
    Converted reprF c res := by
  rcases dataframeColumnToStr_col reprF c inplace returnCol res h with h | ⟨_, hall, rfl⟩
  · exact seriesToStr_converted reprF c false res h
  · exact converted_of_values_eq _ _ _ rfl (Or.inr hall)

/-- element-wise reading of C16 for `dataframe_column_to_str` -/
theorem dataframeColumnToStr_spec (reprF : Rat → String) (c : Column) (inplace returnCol : Bool)
    (res : Column) (h : (dataframeColumnToStr reprF c inplace returnCol).col? = some res) :
    res.values.length = c.values.length ∧
    (∀ i (hi : i < c.values.length) (hi' : i < res.values.length),
        res.values[i] = Cell.missing ↔ c.values[i] = Cell.missing) ∧
    (c.dtype = "object" ∨ c.dtype = "str" → res.values = c.values) ∧
    (c.dtype = "int" → ∀ (i : Nat) (k : Int), c.values[i]? = some (Cell.int k) → res.values[i]? = some (Cell.str (toString k))) ∧
    (c.dtype = "float" → presentAllIntegral c = true →
        ∀ (i : Nat) (q : Rat), c.values[i]? = some (Cell.flt q) → res.values[i]? = some (Cell.str (toString q.floor))) ∧
    (c.dtype = "float" → presentAllIntegral c = false →
        ∀ (i : Nat) (q : Rat), c.values[i]? = some (Cell.flt q) → res.values[i]? = some (Cell.str (reprF q))) ∧
    (c.dtype = "float" → ∀ i : Nat,
        (c.values[i]? = some (Cell.other posInfTag) → res.values[i]? = some (Cell.str "inf")) ∧
        (c.values[i]? = some (Cell.other negInfTag) → res.values[i]? = some (Cell.str "-inf"))) := by
  have hc := dataframeColumnToStr_converted reprF c inplace returnCol res h
  exact ⟨hc.length_eq, fun i hi _ => hc.missing_iff i hi, hc.objStr, fun hd i k => hc.int_cell hd i k,
    fun hd ha i q => hc.float_cell_integral hd ha i q, fun hd ha i q => hc.float_cell_repr hd ha i q,
    fun hd i => hc.float_cell_inf hd i⟩

/-- errors of `dataframe_column_to_str` are AssertionError (both flags) or TypeError -/
theorem dataframeColumnToStr_err_kind (reprF : Rat → String) (c : Column) (inplace returnCol : Bool)
    (e : PyErr) (h : dataframeColumnToStr reprF c inplace returnCol = .err e) :
    e = .assertion ∨ e = .typeErr := by
  have := dataframeColumnToStr_mode reprF c inplace returnCol
  rw [h] at this
  rcases this with ⟨h, _⟩ | ⟨h, _⟩
  · exact Or.inl h
  · exact Or.inr h

end SSJ.Converter

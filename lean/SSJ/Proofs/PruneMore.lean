/-
  SSJ.Proofs.PruneMore — helpers for the companion of property C14 (SSJ/Props/C14_more.lean):

  1. PositionFilter ⊆ SizeFilter under a weaker hypothesis than `positionPairs_subset_sizePairs`: SizeFilter's early exit
     `lower n > n` need only be excluded for probes that have a NON-EMPTY PREFIX (a probe without prefix finds no
     position candidates anyway).  Under OVERLAP with an int threshold `k` a probe of `n` tokens has a prefix iff `k ≤ n`,
     i.e. iff the early exit does not fire.
  2. EDIT_DISTANCE with a FLOAT threshold `t`: bounds on the computed size window `[⌈rn(n − t)⌉, ⌊rn(n + t)⌋]`.
-/
import SSJ.Proofs.EntryFilters
import SSJ.Proofs.FloatThr

namespace SSJ
open F64

section Tables
variable (f : FilterObj) (tok : String → List Tok) (lAttr rAttr : Nat) (ltable rtable : List Row)

theorem pyTake_zero {α : Type} (l : List α) : pyTake l 0 = [] := by
  unfold pyTake
  simp

/-- the position filter emits only pairs the size filter emits, provided the prefix length is never negative and the
    size filter's early exit (`lower n > n`) does not fire for probe sizes that HAVE a prefix -/
theorem positionPairs_subset_sizePairs_of_prefix
    (hnonneg : ∀ n, 0 ≤ f.cfg.prefixLen n)
    (hearly : ∀ d < rtable.length, 1 ≤ f.cfg.prefixLen (rowToks tok rAttr rtable d).length →
      f.cfg.lower (rowToks tok rAttr rtable d).length ≤ ((rowToks tok rAttr rtable d).length : Int)) :
    ∀ p ∈ positionPairs f tok lAttr rAttr ltable rtable, p ∈ sizePairs f tok lAttr rAttr ltable rtable := by
  rintro ⟨c, d⟩ h
  unfold positionPairs at h
  rw [mem_idPairs] at h
  obtain ⟨hd, hcand⟩ := h
  rw [mem_sizePairs_iff]
  by_cases he : handleEmpty f = true ∧ (rowToks tok rAttr rtable d).length = 0
  · rw [mem_positionCands_empty f tok lAttr rAttr ltable rtable d hd he] at hcand
    exact ⟨hcand.1, hd, Or.inl ⟨hcand.2, he.2, he.1⟩⟩
  · rw [mem_positionCands_nonempty f tok lAttr rAttr ltable rtable d hd he] at hcand
    obtain ⟨v, hv, -⟩ := hcand
    obtain ⟨y, hy, hlo, hhi, t, htx, ht⟩ := positionFindCandidates_mem f _ _ _ _ _ hv
    obtain ⟨hc, rfl⟩ := (lOrdToks_getElem? tok lAttr rAttr ltable rtable c y).1 hy
    have hne : (lOrd tok lAttr rAttr ltable rtable c).length ≠ 0 := by
      intro h0
      rw [List.eq_nil_of_length_eq_zero h0] at ht
      exact absurd (mem_of_mem_pyTake _ _ _ ht) (by simp)
    rw [rOrd_length tok lAttr rAttr ltable rtable d hd, lOrd_length tok lAttr rAttr ltable rtable c hc]
      at hlo hhi
    rw [lOrd_length tok lAttr rAttr ltable rtable c hc] at hne
    -- the probe has a non-empty prefix
    have hpre : 1 ≤ f.cfg.prefixLen (rowToks tok rAttr rtable d).length := by
      rw [rOrd_length tok lAttr rAttr ltable rtable d hd] at htx
      by_contra hcon
      have h0 : f.cfg.prefixLen (rowToks tok rAttr rtable d).length = 0 := by
        have := hnonneg (rowToks tok rAttr rtable d).length
        omega
      rw [h0, pyTake_zero] at htx
      exact absurd htx (by simp)
    exact ⟨hc, hd, Or.inr ⟨hne, he, hearly d hd hpre, hlo, hhi⟩⟩

end Tables

namespace EntryFilters

section Emit
variable (f : FilterObj) (tok : String → List Tok) (lAttr rAttr : Nat) (lt rt : List Row)

theorem emits_position_size_of_prefix
    (hnonneg : ∀ n, 0 ≤ f.cfg.prefixLen n)
    (hearly : ∀ n : Nat, 1 ≤ f.cfg.prefixLen n → f.cfg.lower n ≤ (n : Int))
    (x y : Row) (h : Emits f tok lAttr rAttr lt rt .position x y) :
    Emits f tok lAttr rAttr lt rt .size x y := by
  obtain ⟨c, d, hcd, rfl, rfl⟩ := h
  exact ⟨c, d, positionPairs_subset_sizePairs_of_prefix f tok lAttr rAttr lt rt hnonneg
    (fun d _ hp => hearly _ hp) _ hcd, rfl, rfl⟩

end Emit

/-- OVERLAP, int threshold: the prefix length is never negative, and a probe with a non-empty prefix has at least `k`
    tokens, so the size filter's early exit does not fire for it -/
theorem overlap_prefix_facts (c : FCfg) (k : Int) (hm : c.measure = .overlap) (ht : c.threshold = .int k) :
    (∀ n, 0 ≤ c.prefixLen n) ∧ (∀ n : Nat, 1 ≤ c.prefixLen n → c.lower n ≤ (n : Int)) := by
  constructor
  · intro n
    rw [prefixLen_overlap c k hm ht n]
    split_ifs
    · exact le_refl _
    · exact le_max_right _ _
  · intro n h
    rw [prefixLen_overlap c k hm ht n] at h
    rw [lower_overlap c k hm ht n]
    split_ifs at h with h0
    · omega
    · rcases le_max_iff.1 h with h' | h'
      · omega
      · omega

/-! ## EDIT_DISTANCE with a float threshold: the computed size window -/

section EdFloatWindow
open FloatThr
variable (c : FCfg) (t : Rat) (ht0 : 0 ≤ t) (ht1 : t ≤ 2 ^ 30)
  (hm : c.measure = .editDistance) (ht : c.threshold = .float t)
include ht0 ht1 hm ht

/-- the upper end of the window is at most one beyond that of the int threshold `⌊t⌋` (one rounding of `n + t`) -/
theorem upper_ed_f_le (n : Nat) (hn : n < 2 ^ 32) : c.upper n ≤ (n : Int) + t.floor + 1 := by
  obtain ⟨f0, f1, f2⟩ := floor_bounds t ht0 ht1
  have hn' : (n : Rat) ≤ 2 ^ 32 := by exact_mod_cast hn.le
  have hn0 : (0 : Rat) ≤ n := by positivity
  have hlt : t < ((t.floor : Int) : Rat) + 1 := by
    have := Rat.lt_floor_add_one t
    push_cast at this
    exact this
  rw [upper_ed_f c t ht0 ht1 hm ht n hn]
  have key : rn ((n : Rat) + t) ≤ (((n : Int) + t.floor + 1 : Int) : Rat) :=
    rn_le_int_s (by linarith [show -(2:Rat)^53 ≤ 0 by norm_num])
      (by push_cast; linarith [show (2:Rat)^32 + 2^30 + 1 ≤ 2^53 by norm_num]) (by push_cast; linarith)
  have hfl : ((Rat.floor (rn ((n : Rat) + t)) : Int) : Rat) ≤ rn ((n : Rat) + t) := Rat.floor_le _
  have : ((Rat.floor (rn ((n : Rat) + t)) : Int) : Rat) ≤ (((n : Int) + t.floor + 1 : Int) : Rat) := le_trans hfl key
  exact_mod_cast this

/-- the lower end of the window is at most one below that of the int threshold `⌊t⌋` (one rounding of `n − t`) -/
theorem lower_ed_f_ge (n : Nat) (hn : n < 2 ^ 32) : (n : Int) - t.floor - 1 ≤ c.lower n := by
  obtain ⟨f0, f1, f2⟩ := floor_bounds t ht0 ht1
  have hn' : (n : Rat) ≤ 2 ^ 32 := by exact_mod_cast hn.le
  have hn0 : (0 : Rat) ≤ n := by positivity
  have hlt : t < ((t.floor : Int) : Rat) + 1 := by
    have := Rat.lt_floor_add_one t
    push_cast at this
    exact this
  rw [lower_ed_f c t ht0 ht1 hm ht n hn]
  have key : (((n : Int) - t.floor - 1 : Int) : Rat) ≤ rn ((n : Rat) - t) :=
    rn_ge_int_s (by linarith [show (2:Rat)^32 ≤ 2^53 by norm_num])
      (by push_cast; linarith [show -(2:Rat)^53 ≤ -(2^30) - 1 by norm_num]) (by push_cast; linarith)
  have hce : rn ((n : Rat) - t) ≤ ((Rat.ceil (rn ((n : Rat) - t)) : Int) : Rat) := Rat.le_ceil
  have : (((n : Int) - t.floor - 1 : Int) : Rat) ≤ ((Rat.ceil (rn ((n : Rat) - t)) : Int) : Rat) := le_trans key hce
  exact_mod_cast this

/-- when `n + t` is computed exactly, the upper end of the window is `⌊n + t⌋`: `m ≤ upper n ↔ m ≤ n + t` -/
theorem le_upper_ed_f_iff_of_exact (n : Nat) (hn : n < 2 ^ 32) (hex : rn ((n : Rat) + t) = n + t) (m : Int) :
    m ≤ c.upper n ↔ (m : Rat) ≤ n + t := by
  rw [upper_ed_f c t ht0 ht1 hm ht n hn, hex, Rat.le_floor_iff]

/-- when `n − t` is computed exactly, the lower end of the window is `⌈n − t⌉`: `lower n ≤ m ↔ n − t ≤ m` -/
theorem lower_ed_f_le_iff_of_exact (n : Nat) (hn : n < 2 ^ 32) (hex : rn ((n : Rat) - t) = n - t) (m : Int) :
    c.lower n ≤ m ↔ (n : Rat) - t ≤ m := by
  rw [lower_ed_f c t ht0 ht1 hm ht n hn, hex, Rat.ceil_le_iff]

end EdFloatWindow

/-- an integral float threshold (`2.0`): `n + t` and `n − t` are computed exactly -/
theorem ed_integral_exact (k : Int) (hk0 : 0 ≤ k) (hk1 : k ≤ 2 ^ 30) (n : Nat) (hn : n < 2 ^ 32) :
    rn ((n : Rat) + (k : Rat)) = n + k ∧ rn ((n : Rat) - (k : Rat)) = n - k := by
  have hn' : (n : Rat) ≤ 2 ^ 32 := by exact_mod_cast hn.le
  have hn0 : (0 : Rat) ≤ n := by positivity
  have hk0' : (0 : Rat) ≤ k := by exact_mod_cast hk0
  have hk1' : (k : Rat) ≤ 2 ^ 30 := by exact_mod_cast hk1
  constructor
  · have := rn_int ((n : Int) + k) (by
      push_cast
      rw [abs_of_nonneg (by linarith)]
      linarith [show (2:Rat)^32 + 2^30 ≤ 2^53 by norm_num])
    push_cast at this
    exact this
  · have := rn_int ((n : Int) - k) (by
      push_cast
      rw [abs_le]
      constructor
      · linarith [show -(2:Rat)^53 ≤ -(2^30) by norm_num]
      · linarith [show (2:Rat)^32 ≤ 2^53 by norm_num])
    push_cast at this
    exact this

end EntryFilters
end SSJ

section AxiomCheck
open SSJ SSJ.EntryFilters
#print axioms positionPairs_subset_sizePairs_of_prefix
#print axioms emits_position_size_of_prefix
#print axioms overlap_prefix_facts
#print axioms upper_ed_f_le
#print axioms lower_ed_f_ge
#print axioms le_upper_ed_f_iff_of_exact
#print axioms lower_ed_f_le_iff_of_exact
#print axioms ed_integral_exact
end AxiomCheck

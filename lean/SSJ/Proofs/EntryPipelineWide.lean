/-
  SSJ.Proofs.EntryPipelineWide — the helpers of `Proofs/EntryPipeline.lean` (property C07, "a join equals filter_tables
  followed by apply_matcher") that carry `ThrOK thr` / a float threshold, re-proved for every covered threshold VALUE
  `th : PyV` with `WideThr m th` (`Proofs/ArithWide.lean`: a float in `[thrLo m, 1]` or the Python int `1`):
  `reaches_of_comp_wide`, `c13_nonStraddling_wide`, `setsim_core_wide`, `filter_stage_safe_wide`,
  `overlap_stage_safe_wide`.  The proofs are those of `EntryPipeline` with `C13.setsim_iff_wide`,
  `EntryWide.filterTables_safe_set_wide`, `EntryWide.qual_facts_wide` in place of their `ThrOK` versions.
-/
import SSJ.Proofs.EntryPipeline
import SSJ.Proofs.EntryWide
import SSJ.Props.C13_wide

namespace SSJ
namespace EntryPipeline
open SSJ.Props F64 EntryLaws

/-- a comparison (`>=`, `>`, `=`) of the set similarity against a numeric threshold value of positive value can only
    hold if the similarity is a float reaching the threshold -/
theorem reaches_of_comp_wide (m : Measure) (hm : SetMeasure m) (op : String) (hop : op ∈ [">=", ">", "="])
    (th : PyV) (hn : NumThr th) (h0 : 0 < thrVal th) (A B : List Tok) (hA : A.Nodup) (hB : B.Nodup)
    (hAs : A.length < 2 ^ 32) (hBs : B.length < 2 ^ 32)
    (h : compFn op (Spec.simSet m A B) th = true) :
    ∃ s : Rat, Spec.simSet m A B = .float s ∧ thrVal th ≤ s := by
  rcases EntryFilters.simSet_cases m hm A B hA hB hAs hBs with e | ⟨s, e⟩
  · rw [e, EntryWide.compFn_int0_false_num hop hn h0] at h
    cases h
  · rw [e] at h
    exact ⟨s, e, EntryWide.compFn_float_ge_num hop hn h⟩

/-- non-straddling w.r.t. the LIST similarity (what the pipeline's second stage computes) implies non-straddling
    w.r.t. the SET similarity (`C13.NonStraddlingV`), any threshold value -/
theorem c13_nonStraddling_wide (m : Measure) (hm : SetMeasure m) (op : String) (th : PyV) (A B : List Tok)
    (hA : A.Nodup) (hB : B.Nodup) (hAs : A.length < 2 ^ 32) (hBs : B.length < 2 ^ 32)
    (h : compFn op (simRaw m A B) th = compFn op (PyV.round (simRaw m A B) (.int 4)) th) :
    C13.NonStraddlingV m op th A B := by
  have hround := round_simRaw_eq_score4 m hm A B hA hB hAs hBs
  unfold C13.NonStraddlingV Spec.qualStrict Spec.qualRounded
  by_cases hc : Spec.sameSet A B = true → A = B
  · rw [← simRaw_eq_simSet m A B hA hB hc, ← hround, h, Bool.and_self]
  · rw [Classical.not_imp] at hc
    have hset : Spec.simSet m A B = .float 1 := by
      unfold Spec.simSet
      rw [if_pos hc.1]
    have hsc : Spec.score4 m A B = .float 1 := by
      unfold Spec.score4
      rw [hset, round4_f, round4_one]
    rw [hset, hsc, Bool.and_self]

section SetSimCoreWide
variable (m : Measure) (a : JoinArgs) (t : TokObj) (toks : TokFn) (l r : Frame)

/-- CORE of C07 for jaccard / cosine / dice, every covered threshold value.  The first stage is ANY entry point `call`
    run on `stage1Args` that is SAFE for the pair (`hsafe`: lists it whenever its set similarity reaches the threshold). -/
theorem setsim_core_wide (hm : SetMeasure m) (hv : validateJoin m.name a t = .ok (l, r))
    (hth : WideThr m a.threshold) (hs : InScope (toks true) r)
    (hset : t.returnSet = true)
    (hn1 : a.lPre ++ a.lKey ≠ "_id") (hn2 : a.rPre ++ a.rKey ≠ "_id") (hn3 : a.lPre ++ a.lKey ≠ a.rPre ++ a.rKey)
    {call : Bool → Int → Int → Except PyErr Frame} (nj₁ : Int) (hcall : TableCall call (stage1Args a nj₁) l r false)
    (am : Bool) (nj cpu₁ : Int) (C : Frame) (hC : call am nj cpu₁ = .ok C) (hClen : C.rows.length < 2 ^ 40)
    (sim : SimArg → SimArg → PyV) (hsim : ∀ A B, sim (.toks A) (.toks B) = simRaw m A B)
    (nj₂ cpu₂ : Int) (P : Frame) (h2 : applyMatcher (stage2Args a C nj₂) (some t) toks sim cpu₂ = .ok P)
    (cpu : Int) (J : Frame) (hJ : (setSimJoinPy m a t toks cpu).result = .ok J)
    (ls rs : Row) (hls : ls ∈ l.rows) (hrs : rs ∈ r.rows)
    (hpl : Present l a.lAttr ls) (hpr : Present r a.rAttr rs)
    (hne : Spec.bothEmpty (tokensOf (toks true) l a.lAttr ls) (tokensOf (toks true) r a.rAttr rs) = false)
    (hsafe : ∀ s : Rat, Spec.simSet m (tokensOf (toks true) l a.lAttr ls) (tokensOf (toks true) r a.rAttr rs) = .float s →
      thrVal a.threshold ≤ s → C13.InResult C (keyOf l a.lKey ls) (keyOf r a.rKey rs))
    (hns : compFn a.compOp (simRaw m (tokensOf (toks true) l a.lAttr ls) (tokensOf (toks true) r a.rAttr rs)) a.threshold =
      compFn a.compOp (PyV.round (simRaw m (tokensOf (toks true) l a.lAttr ls) (tokensOf (toks true) r a.rAttr rs)) (.int 4))
        a.threshold) :
    (C13.InResult P (keyOf l a.lKey ls) (keyOf r a.rKey rs) ↔ C13.InResult J (keyOf l a.lKey ls) (keyOf r a.rKey rs)) ∧
    (a.outSimScore = true →
      C13.ScoreOf P (keyOf l a.lKey ls) (keyOf r a.rKey rs)
        (scoreCell (simRaw m (tokensOf (toks true) l a.lAttr ls) (tokensOf (toks true) r a.rAttr rs))) ∧
      C13.ScoreOf J (keyOf l a.lKey ls) (keyOf r a.rKey rs)
        (scoreCell (PyV.round (simRaw m (tokensOf (toks true) l a.lAttr ls) (tokensOf (toks true) r a.rAttr rs))
          (.int 4)))) := by
  obtain ⟨-, -, hop⟩ := EntrySetSim.of_validateJoin hm hv
  have hop6 : a.compOp ∈ [">=", ">", "<=", "<", "=", "!="] := by
    simp only [List.mem_cons, List.not_mem_nil, or_false] at hop ⊢
    rcases hop with h | h | h <;> simp [h]
  obtain ⟨c1, c2, c3, c4⟩ := candset_columns hcall am nj cpu₁ C hC hn1 hn2 hn3
  have hsrc := candset_rows hcall am nj cpu₁ C hC
  have hvM := stage2_valid m.name a t l r C nj₂ hv hop6 c3 c4 (some t) (Or.inl rfl)
  have hM := matcher_iff (stage2Args a C nj₂) (some t) toks sim cpu₂ C l r P hvM c1 c2 hsrc hClen h2 ls rs hls hrs hpl hpr
    (fun _ => ⟨(hcall.bodyOK hC).lstr, (hcall.bodyOK hC).rstr⟩)
  set A := tokensOf (toks true) l a.lAttr ls with hA
  set B := tokensOf (toks true) r a.rAttr rs with hB
  have hAn : A.Nodup := hs.nodup _
  have hBn : B.Nodup := hs.nodup _
  have hAs : A.length < 2 ^ 32 := hs.small _
  have hBs : B.length < 2 ^ 32 := hs.small _
  have hnsJ := c13_nonStraddling_wide m hm a.compOp a.threshold A B hAn hBn hAs hBs hns
  have hJ' := C13.setsim_iff_wide m a t toks cpu l r hm hv hth hs J hJ ls rs hls hrs hpl hpr hne hnsJ
  have hround := round_simRaw_eq_score4 m hm A B hAn hBn hAs hBs
  have hval : C05.simValue (C05.tokOf (some t) toks) sim (valOf l a.lAttr ls) (valOf r a.rAttr rs) = simRaw m A B := by
    show sim (.toks (toks t.returnSet _)) (.toks (toks t.returnSet _)) = _
    rw [hset, hsim]
    rfl
  have hM1 : C13.InResult P (keyOf l a.lKey ls) (keyOf r a.rKey rs) ↔
      C13.InResult C (keyOf l a.lKey ls) (keyOf r a.rKey rs) ∧
      compFn a.compOp (C05.simValue (C05.tokOf (some t) toks) sim (valOf l a.lAttr ls) (valOf r a.rAttr rs))
        a.threshold = true := hM.1
  have hM2 : a.outSimScore = true → C13.ScoreOf P (keyOf l a.lKey ls) (keyOf r a.rKey rs)
      (scoreCell (C05.simValue (C05.tokOf (some t) toks) sim (valOf l a.lAttr ls) (valOf r a.rAttr rs))) := hM.2
  rw [hval] at hM1
  rw [hval] at hM2
  have hq : compFn a.compOp (simRaw m A B) a.threshold = Spec.qualRounded m a.compOp a.threshold A B := by
    unfold Spec.qualRounded
    rw [← hround]
    exact hns
  refine ⟨?_, fun ho => ⟨hM2 ho, ?_⟩⟩
  · rw [hM1, hJ'.1, hq]
    refine ⟨fun h => h.2, fun h => ⟨?_, h⟩⟩
    have hstrict : Spec.qualStrict m a.compOp a.threshold A B = true := by rw [hnsJ]; exact h
    unfold Spec.qualStrict at hstrict
    rw [Bool.and_eq_true] at hstrict
    obtain ⟨s, hs1, hs2⟩ := reaches_of_comp_wide m hm a.compOp hop a.threshold hth.numThr hth.pos A B hAn hBn hAs hBs hstrict.1
    exact hsafe s hs1 hs2
  · rw [hround]
    exact hJ'.2 ho

end SetSimCoreWide

section StageSafeWide
variable (m : Measure) (a : JoinArgs) (t : TokObj) (toks : TokFn) (l r : Frame)

/-- Size / Prefix / Position / SuffixFilter.filter_tables (measure and threshold value of the join, tokenizer in set mode)
    list every pair whose set similarity reaches the threshold (`C04.tables_safe_*_wide`) -/
theorem filter_stage_safe_wide (hm : SetMeasure m) (mname : String) (hv : validateJoin mname a t = .ok (l, r))
    (th : PyV) (hth : WideThr m th) (hs : InScope (toks true) r) (hset : t.returnSet = true)
    (k : FilterKind) (f : FilterObj) (h4 : k = .suffix → prefThr m ≤ thrVal th)
    (hmeas : f.cfg.measure = m) (hfthr : f.cfg.threshold = th)
    (nj cpu₁ : Int) (C : Frame) (hres : filterTables k f (stage1Args a nj) t toks cpu₁ = .ok C)
    (ls rs : Row) (hls : ls ∈ l.rows) (hrs : rs ∈ r.rows)
    (hpl : Present l a.lAttr ls) (hpr : Present r a.rAttr rs)
    (hne : Spec.bothEmpty (tokensOf (toks true) l a.lAttr ls) (tokensOf (toks true) r a.rAttr rs) = false)
    (s : Rat) (hs1 : Spec.simSet m (tokensOf (toks true) l a.lAttr ls) (tokensOf (toks true) r a.rAttr rs) = .float s)
    (hs2 : thrVal th ≤ s) : C13.InResult C (keyOf l a.lKey ls) (keyOf r a.rKey rs) := by
  obtain ⟨hv1, hk1⟩ := stage1_valid mname a t l r nj hv
  have key := EntryWide.filterTables_safe_set_wide k f (stage1Args a nj) t toks cpu₁ l r C m hm th hth hmeas hfthr hv1 hk1
    hs.rows (by rw [hset]; exact hs.nodup) (by rw [hset]; exact hs.small) hres ls rs hls hrs hpl hpr
  rw [hset] at key
  exact key (not_both_of_bothEmpty _ _ hne) s hs1 hs2 h4

/-- OverlapFilter(overlap_size = 1, '>=').filter_tables lists every pair whose set similarity reaches a covered
    threshold value: such a pair has a common token (`C04.overlap_filter_tables_exact`) -/
theorem overlap_stage_safe_wide (hm : SetMeasure m) (mname : String) (hv : validateJoin mname a t = .ok (l, r))
    (th : PyV) (hth : WideThr m th) (hs : InScope (toks true) r) (hset : t.returnSet = true)
    (fo : OverlapFilterObj) (hsize : fo.overlapSize = .int 1) (hop : fo.compOp = ">=")
    (nj cpu₁ : Int) (C : Frame) (hres : overlapFilterTables fo (stage1Args a nj) false (toks t.returnSet) cpu₁ = .ok C)
    (ls rs : Row) (hls : ls ∈ l.rows) (hrs : rs ∈ r.rows)
    (hpl : Present l a.lAttr ls) (hpr : Present r a.rAttr rs)
    (hne : Spec.bothEmpty (tokensOf (toks true) l a.lAttr ls) (tokensOf (toks true) r a.rAttr rs) = false)
    (s : Rat) (hs1 : Spec.simSet m (tokensOf (toks true) l a.lAttr ls) (tokensOf (toks true) r a.rAttr rs) = .float s)
    (hs2 : thrVal th ≤ s) : C13.InResult C (keyOf l a.lKey ls) (keyOf r a.rKey rs) := by
  obtain ⟨hv1, hk1⟩ := stage1_valid mname a t l r nj hv
  rw [hset] at hres
  have key := EntryFilters.overlapFilterTables_iff fo (stage1Args a nj) false (toks true) cpu₁ l r C hs.nodup hv1 hk1
    hs.rows hres ls rs hls hrs hpl hpr
  have h1 := (EntryWide.qual_facts_wide m hm th hth _ _ (hs.nodup _) (hs.nodup _) (hs.small _) (hs.small _)
    (not_both_of_bothEmpty _ _ hne) s hs1 hs2).1
  refine key.2 ⟨h1, ?_⟩
  rw [hop, hsize, EntryFilters.compFn_ge]
  simp only [PyV.geb, PyV.leb, PyV.numVal?, decide_eq_true_eq]
  exact_mod_cast h1

end StageSafeWide

end EntryPipeline
end SSJ

section AxiomCheck
open SSJ.EntryPipeline
#print axioms c13_nonStraddling_wide
#print axioms setsim_core_wide
#print axioms filter_stage_safe_wide
#print axioms overlap_stage_safe_wide
end AxiomCheck

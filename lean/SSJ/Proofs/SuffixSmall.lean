/-
  SSJ.Proofs.SuffixSmall — the suffix filter under JACCARD / COSINE / DICE for TINY thresholds
  (`2⁻²⁰ ≤ t < prefThr m`), i.e. without the hypothesis `prefThr m ≤ t` of
  `EntryFilters.filterPair_safe_set` / `filterTables_safe_set`.

  Below `prefThr m` the size lower bound `ceil(round(t'·n, 4))` of a small record is 0 and
  `get_prefix_length` returns `n + 1`: the slice `tokens[n+1:]` is empty whereas the suffix length handed to
  `_est_hamming_dist_lower_bound` is `n − (n+1) = −1`.  Once the estimator is entered with such arguments it
  fails its first partition and the pair is dropped (`SSJ.suffixFilterSuffix_long_prefix_counterexample`).
  What is proved here: FOR A PAIR WHOSE SIMILARITY REACHES THE THRESHOLD the estimator is never entered in that
  situation, because the early test of `_filter_suffix`

      if l_prefix_num_tokens >= overlap_threshold and r_prefix_num_tokens >= overlap_threshold: return False

  fires: the long prefix `n + 1` exceeds the required overlap `T ≤ |A ∩ B| ≤ n`, and for the other record
  `T + lower(k) ≤ k + 1` (`ovThr_add_lower_le`: when `lower n = 0` the effective threshold is below `1.2·10⁻⁴`, so
  both `T` and `lower(k)` are tiny fractions of `k`).  When both prefixes are no longer than the records the
  existing theorem (`SSJ.suffixFilterSuffix_orderUsing`) applies.

  Main statements: `ovThr_add_lower_le`, `suffixFilterSuffix_qual` (rank-list level),
  `filterPair_suffix_safe_set`, `filterTables_suffix_safe_set` (entry level, no `prefThr`).
-/
import SSJ.Proofs.EntryFilters

namespace SSJ
namespace SuffixSmall
open SSJ.Props SSJ.Spec F64 EntryFilters

/-! ## 1. arithmetic: a record with size lower bound 0 forces tiny bounds for its partner -/

/-- `fsqrt` of a number `≥ 1/2` is at least `1/4` -/
theorem fsqrt_ge_quarter {P : Rat} (hP : 1 / 2 ≤ P) : 1 / 4 ≤ fsqrt P := by
  have hP0 : 0 < P := by linarith
  have := (fsqrt_sq' hP0).1
  have h0 := fsqrt_nonneg P
  by_contra hcon
  have hcon : fsqrt P < 1 / 4 := not_le.mp hcon
  have h1 : fsqrt P * fsqrt P < 1 / 4 * (1 / 4) := by nlinarith
  have h2 : (1 : Rat) / 2 * (1 - 1 / 2 ^ 51) ≤ P * (1 - 1 / 2 ^ 51) :=
    mul_le_mul_of_nonneg_right hP (by norm_num)
  norm_num at *
  linarith

/-- JACCARD: if the rounded product `rn (t·n)` of a non-empty record is below `6·10⁻⁵` (its size lower bound is 0)
    then for every partner size `k ≥ 1` the arguments of the overlap threshold and of the partner's lower bound add up
    to at most `k` -/
theorem jac_small {t n k : Rat} (ht : ThrOK t) (hn1 : 1 ≤ n) (hk1 : 1 ≤ k)
    (hlow : lowF .jaccard t n < 6 / 100000) : ovF .jaccard t n k + lowF .jaccard t k ≤ k := by
  have ht0 := ht.pos; have ht2 := ht.lo
  obtain ⟨a1, a2⟩ := one_add_range t ht
  obtain ⟨b1, b2⟩ := t_div_range t ht a1 a2
  simp only [lowF, ovF] at *
  have htn : 1 / 2 ^ 100 ≤ t * n := by nlinarith [show (1 : Rat) / 2 ^ 100 ≤ 1 / 2 ^ 20 by norm_num]
  have h1 := rn_ge_half htn
  have htn' : t * n < 12 / 100000 := by linarith
  have ht' : t < 12 / 100000 := by nlinarith
  -- the factor `c = rn (t / rn (1 + t)) ≤ 2 t`
  have hq : 1 / 2 ^ 100 ≤ t / rn (1 + t) := by
    rw [le_div_iff₀ (by linarith)]; nlinarith [show (1 : Rat) / 2 ^ 100 ≤ 1 / 2 ^ 21 by norm_num]
  have hq' : t / rn (1 + t) ≤ t := div_le_self ht0.le a1
  have hc : rn (t / rn (1 + t)) ≤ 2 * t := le_trans (rn_le_twice hq) (by linarith)
  have hc0 : 0 ≤ rn (t / rn (1 + t)) := le_trans (by positivity) b1
  have hnk : 0 ≤ n + k := by linarith
  have hprod : 1 / 2 ^ 100 ≤ rn (t / rn (1 + t)) * (n + k) := by
    nlinarith [show (1 : Rat) / 2 ^ 100 ≤ 1 / 2 ^ 22 by norm_num]
  have hov : rn (rn (t / rn (1 + t)) * (n + k)) ≤ 4 * t * (n + k) := by
    have := rn_le_twice hprod
    have h2 : rn (t / rn (1 + t)) * (n + k) ≤ 2 * t * (n + k) := mul_le_mul_of_nonneg_right hc hnk
    linarith
  have htk : 1 / 2 ^ 100 ≤ t * k := by nlinarith [show (1 : Rat) / 2 ^ 100 ≤ 1 / 2 ^ 20 by norm_num]
  have hlk := rn_le_twice htk
  have htk' : t * k ≤ 12 / 100000 * k := mul_le_mul_of_nonneg_right ht'.le (by linarith)
  nlinarith

/-- DICE, the same -/
theorem dice_small {t n k : Rat} (ht : ThrOK t) (hn1 : 1 ≤ n) (hk1 : 1 ≤ k)
    (hlow : lowF .dice t n < 6 / 100000) : ovF .dice t n k + lowF .dice t k ≤ k := by
  have ht0 := ht.pos; have ht2 := ht.lo
  obtain ⟨a1, a2⟩ := two_sub_range t ht
  obtain ⟨b1, b2⟩ := t_div_range t ht a1 a2
  simp only [lowF, ovF] at *
  have hd0 : 0 ≤ rn (t / rn (2 - t)) := le_trans (by positivity) b1
  have hdn : 1 / 2 ^ 100 ≤ rn (t / rn (2 - t)) * n := by
    nlinarith [show (1 : Rat) / 2 ^ 100 ≤ 1 / 2 ^ 22 by norm_num]
  have h1 := rn_ge_half hdn
  have hdn' : rn (t / rn (2 - t)) * n < 12 / 100000 := by linarith
  have hd' : rn (t / rn (2 - t)) < 12 / 100000 := by nlinarith
  -- `t ≤ 4 d`
  have hq : 1 / 2 ^ 100 ≤ t / rn (2 - t) := by
    rw [le_div_iff₀ (by linarith)]; nlinarith [show (1 : Rat) / 2 ^ 100 ≤ 1 / 2 ^ 21 by norm_num]
  have hq2 : t / 2 ≤ t / rn (2 - t) := div_le_div_of_nonneg_left ht0.le (by linarith) a2
  have hd2 := rn_ge_half hq
  have ht4 : t ≤ 4 * rn (t / rn (2 - t)) := by linarith
  have ht' : t < 48 / 100000 := by linarith
  have htn' : t * n < 48 / 100000 := by nlinarith
  -- `e = rn (t / 2) ≤ t`
  have he : 1 / 2 ^ 100 ≤ t / 2 := by linarith [show (1 : Rat) / 2 ^ 100 ≤ 1 / 2 ^ 21 by norm_num]
  have he1 := rn_le_twice he
  have he2 := rn_ge_half he
  have hnk : 0 ≤ n + k := by linarith
  have hprod : 1 / 2 ^ 100 ≤ rn (t / 2) * (n + k) := by
    nlinarith [show (1 : Rat) / 2 ^ 100 ≤ 1 / 2 ^ 22 by norm_num]
  have hov : rn (rn (t / 2) * (n + k)) ≤ 2 * t * (n + k) := by
    have := rn_le_twice hprod
    have h2 : rn (t / 2) * (n + k) ≤ t * (n + k) := mul_le_mul_of_nonneg_right (by linarith) hnk
    linarith
  have hdk : 1 / 2 ^ 100 ≤ rn (t / rn (2 - t)) * k := by
    nlinarith [show (1 : Rat) / 2 ^ 100 ≤ 1 / 2 ^ 22 by norm_num]
  have hlk := rn_le_twice hdk
  have hdk' : rn (t / rn (2 - t)) * k ≤ 12 / 100000 * k := mul_le_mul_of_nonneg_right hd'.le (by linarith)
  have htk' : t * k ≤ 48 / 100000 * k := mul_le_mul_of_nonneg_right ht'.le (by linarith)
  nlinarith

/-- COSINE, the same -/
theorem cos_small {t n k : Rat} (ht : ThrOK t) (hn1 : 1 ≤ n) (hk1 : 1 ≤ k)
    (hlow : lowF .cosine t n < 6 / 100000) : ovF .cosine t n k + lowF .cosine t k ≤ k := by
  have ht0 := ht.pos; have ht2 := ht.lo
  obtain ⟨c1, c2⟩ := tt_range t ht
  simp only [lowF, ovF] at *
  have hc0 : 0 ≤ rn (t * t) := le_trans (by positivity) c1
  have hcn : 1 / 2 ^ 100 ≤ rn (t * t) * n := by
    nlinarith [show (1 : Rat) / 2 ^ 100 ≤ 1 / 2 ^ 41 by norm_num]
  have h1 := rn_ge_half hcn
  have hcn' : rn (t * t) * n < 12 / 100000 := by linarith
  have hc' : rn (t * t) < 12 / 100000 := by nlinarith
  have htt : 1 / 2 ^ 100 ≤ t * t := by nlinarith [show (1 : Rat) / 2 ^ 100 ≤ 1 / 2 ^ 20 * (1 / 2 ^ 20) by norm_num]
  have htt2 := rn_ge_half htt
  have httn : t * t * n < 24 / 100000 := by nlinarith
  -- the square root
  have hnk1 : 1 ≤ n * k := by nlinarith
  have hnk : 1 / 2 ^ 100 ≤ n * k := by linarith [show (1 : Rat) / 2 ^ 100 ≤ 1 by norm_num]
  have hP := rn_le_twice hnk
  have hP2 := rn_ge_half hnk
  have hP0 : 0 ≤ rn (n * k) := by linarith
  have hF0 := fsqrt_ge_quarter (P := rn (n * k)) (by linarith)
  have hF : fsqrt (rn (n * k)) ≤ k / (8 * t) := by
    apply fsqrt_le_of_le hP0 (by positivity)
    rw [div_mul_div_comm, le_div_iff₀ (by positivity)]
    have e : rn (n * k) * (1 + 1 / 2 ^ 51) * (8 * t * (8 * t)) ≤ 2 * (n * k) * 2 * (64 * (t * t)) := by
      have h3 : rn (n * k) * (1 + 1 / 2 ^ 51) ≤ 2 * (n * k) * 2 := by nlinarith
      have h4 : 0 ≤ 64 * (t * t) := by positivity
      calc rn (n * k) * (1 + 1 / 2 ^ 51) * (8 * t * (8 * t))
          = rn (n * k) * (1 + 1 / 2 ^ 51) * (64 * (t * t)) := by ring
        _ ≤ 2 * (n * k) * 2 * (64 * (t * t)) := mul_le_mul_of_nonneg_right h3 h4
    refine le_trans e ?_
    have : 2 * (n * k) * 2 * (64 * (t * t)) = 256 * (t * t * n) * k := by ring
    rw [this]
    have h5 : 256 * (t * t * n) ≤ 1 := by linarith
    have hk0 : 0 ≤ k := by linarith
    nlinarith
  have h3 : t * fsqrt (rn (n * k)) ≤ k / 8 := by
    calc t * fsqrt (rn (n * k)) ≤ t * (k / (8 * t)) := mul_le_mul_of_nonneg_left hF ht0.le
      _ = k / 8 := by field_simp
  have h6 : 1 / 2 ^ 100 ≤ t * fsqrt (rn (n * k)) := by
    nlinarith [show (1 : Rat) / 2 ^ 100 ≤ 1 / 2 ^ 20 * (1 / 4) by norm_num]
  have hov := rn_le_twice h6
  have hck : 1 / 2 ^ 100 ≤ rn (t * t) * k := by
    nlinarith [show (1 : Rat) / 2 ^ 100 ≤ 1 / 2 ^ 41 by norm_num]
  have hlk := rn_le_twice hck
  have hck' : rn (t * t) * k ≤ 12 / 100000 * k := mul_le_mul_of_nonneg_right hc'.le (by linarith)
  linarith

/-- every set measure -/
theorem small_sum (m : Measure) (hm : SetMeasure m) {t n k : Rat} (ht : ThrOK t) (hn1 : 1 ≤ n) (hk1 : 1 ≤ k)
    (hlow : lowF m t n < 6 / 100000) : ovF m t n k + lowF m t k ≤ k := by
  rcases hm with rfl | rfl | rfl
  · exact jac_small ht hn1 hk1 hlow
  · exact cos_small ht hn1 hk1 hlow
  · exact dice_small ht hn1 hk1 hlow

/-- INTEGER FORM.  If the size lower bound of a non-empty record of `n` tokens is `≤ 0` (so that its prefix length is
    `n + 1`), then for every partner size `k ≥ 1`: required overlap + the partner's lower bound `≤ k + 1`, i.e. the
    partner's prefix length `k − lower k + 1` is at least the required overlap -/
theorem ovThr_add_lower_le (m : Measure) (hm : SetMeasure m) (t : Rat) (ht : ThrOK t) (n k : Nat)
    (hn1 : 1 ≤ n) (hk1 : 1 ≤ k) (hn : n < 2 ^ 32) (hk : k < 2 ^ 32) (h0 : (cfgOf m t).lower n ≤ 0) :
    (cfgOf m t).ovThr n k + (cfgOf m t).lower k ≤ (k : Int) + 1 := by
  have hn' := natCast_le_of_lt hn
  have hk' := natCast_le_of_lt hk
  have hn1' : (1 : Rat) ≤ n := by exact_mod_cast hn1
  have hk1' : (1 : Rat) ≤ k := by exact_mod_cast hk1
  have hlow : lowF m t n < 6 / 100000 := by
    by_contra hcon
    have hcon : (6 : Rat) / 100000 ≤ lowF m t n := not_lt.mp hcon
    have := lt_lower_of m hm ht n 0 hn (by push_cast; linarith)
    omega
  have hsum := small_sum m hm ht hn1' hk1' hlow
  have ho0 := ovF_nonneg m (t := t) (l := (n : Rat)) (r := (k : Rat)) ht (by positivity) (by positivity)
  have hl0 := (lowF_range m ht (n := (k : Rat)) (by positivity) hk').1
  rw [ovThr_eq m hm ht n k hn hk, lower_eq m hm ht k hk]
  -- both ceilings are bounded by the exact ceilings
  have hA : (round4 (ovF m t n k)).ceil ≤ (ovF m t n k).ceil :=
    round4_ceil_le ho0 (by
      have := Rat.ceil_lt (x := ovF m t n k)
      linarith [show (2 : Rat) ^ 32 + 1 ≤ 2 ^ 39 by norm_num]) (by linarith [Rat.le_ceil (x := ovF m t n k)])
  have hB : (round4 (lowF m t k)).ceil ≤ (lowF m t k).ceil :=
    round4_ceil_le hl0 (by
      have := Rat.ceil_lt (x := lowF m t k)
      linarith [show (2 : Rat) ^ 32 + 1 ≤ 2 ^ 39 by norm_num]) (by linarith [Rat.le_ceil (x := lowF m t k)])
  have hA' := Rat.ceil_lt (x := ovF m t n k)
  have hB' := Rat.ceil_lt (x := lowF m t k)
  have hlt : (((ovF m t n k).ceil + (lowF m t k).ceil : Int) : Rat) < ((k + 2 : Int) : Rat) := by
    push_cast; linarith
  have hlt' : (ovF m t n k).ceil + (lowF m t k).ceil < (k : Int) + 2 := by exact_mod_cast hlt
  omega

/-- the size lower bound is never negative -/
theorem lower_nonneg (m : Measure) (hm : SetMeasure m) (t : Rat) (ht : ThrOK t) (n : Nat) (hn : n < 2 ^ 32) :
    0 ≤ (cfgOf m t).lower n := by
  rw [lower_eq m hm ht n hn]
  have h0 := (lowF_range m ht (n := (n : Rat)) (by positivity) (natCast_le_of_lt hn)).1
  by_contra hcon
  have hcon : (round4 (lowF m t n)).ceil ≤ -1 := by omega
  rw [Rat.ceil_le_iff, round4_eq] at hcon
  have h1 : 0 ≤ rhe (lowF m t n * 10000) := rhe_nonneg (by positivity)
  have h2 : (0 : Rat) ≤ ((rhe (lowF m t n * 10000) : Int) : Rat) / 10000 := by
    have : (0 : Rat) ≤ ((rhe (lowF m t n * 10000) : Int) : Rat) := by exact_mod_cast h1
    positivity
  have := rn_nonneg h2
  push_cast at hcon
  linarith

/-! ## 2. `_filter_suffix` on a qualifying pair, any covered threshold -/

/-- the early exit of `_filter_suffix`: both prefix lengths reach the required overlap -/
theorem suffixFilterSuffix_early (f : FilterObj) (lSuf rSuf : List Nat) (lp rp : Int) (ln rn : Nat)
    (h1 : f.cfg.ovThr ln rn ≤ lp) (h2 : f.cfg.ovThr ln rn ≤ rp) :
    suffixFilterSuffix f lSuf rSuf lp rp ln rn = false := by
  unfold suffixFilterSuffix
  simp only
  rw [if_pos (by simp only [ge_iff_le, Bool.and_eq_true, decide_eq_true_eq]; exact ⟨h1, h2⟩)]

/-- `_filter_suffix` keeps a pair of token SETS `a`, `b` with `o = |a ∩ b| ≥ 1` common tokens whose similarity reaches
    the threshold, for EVERY covered threshold (no `prefThr`), under any injective ordering which knows all their
    tokens.  The facts used: required overlap `≤ o`, `lower ≤ o` for both records, and `ovThr_add_lower_le`. -/
theorem suffixFilterSuffix_qual (m : Measure) (hm : SetMeasure m) (t : Rat) (ht : ThrOK t) (f : FilterObj)
    (sb : SameBounds f.cfg (cfgOf m t)) (a b : List Tok) (ord : List (Tok × Nat))
    (ha : a.Nodup) (hb : b.Nodup) (has : a.length < 2 ^ 32) (hbs : b.length < 2 ^ 32)
    (hka : ∀ x ∈ a, (Dict.get? ord x).isSome) (hkb : ∀ x ∈ b, (Dict.get? ord x).isSome)
    (hinj : ∀ t1 t2 r, Dict.get? ord t1 = some r → Dict.get? ord t2 = some r → t1 = t2)
    (ho : 1 ≤ interCount a b)
    (hthr : (cfgOf m t).ovThr a.length b.length ≤ (interCount a b : Int))
    (hla : (cfgOf m t).lower a.length ≤ (interCount a b : Int))
    (hlb : (cfgOf m t).lower b.length ≤ (interCount a b : Int)) :
    suffixFilterSuffix f (pyDrop (orderUsing a ord) (f.cfg.prefixLen a.length))
      (pyDrop (orderUsing b ord) (f.cfg.prefixLen b.length))
      (f.cfg.prefixLen a.length) (f.cfg.prefixLen b.length) a.length b.length = false := by
  have h1 := interCount_le_length_left a b ha
  have h2 := interCount_le_length_right a b hb
  have hn1 : 1 ≤ a.length := by omega
  have hk1 : 1 ≤ b.length := by omega
  have pa := prefixLen_eq m hm t ht a.length hn1 has
  have pb := prefixLen_eq m hm t ht b.length hk1 hbs
  have na := lower_nonneg m hm t ht a.length has
  have nb := lower_nonneg m hm t ht b.length hbs
  by_cases hA : (cfgOf m t).lower a.length ≤ 0
  · -- the left prefix is `|a| + 1`
    have hs := ovThr_add_lower_le m hm t ht a.length b.length hn1 hk1 has hbs hA
    apply suffixFilterSuffix_early
    · rw [sb.ovThr, sb.prefixLen, pa]; omega
    · rw [sb.ovThr, sb.prefixLen, pb]; omega
  · by_cases hB : (cfgOf m t).lower b.length ≤ 0
    · -- the right prefix is `|b| + 1`
      have hs := ovThr_add_lower_le m hm t ht b.length a.length hk1 hn1 hbs has hB
      have hsym : (cfgOf m t).ovThr b.length a.length = (cfgOf m t).ovThr a.length b.length := by
        rw [ovThr_eq m hm ht _ _ hbs has, ovThr_eq m hm ht _ _ has hbs, ovF_symm]
      rw [hsym] at hs
      apply suffixFilterSuffix_early
      · rw [sb.ovThr, sb.prefixLen, pa]; omega
      · rw [sb.ovThr, sb.prefixLen, pb]; omega
    · -- both prefixes fit: the estimator is sound on strictly sorted lists
      refine suffixFilterSuffix_orderUsing f a b ord ha hb hka hkb hinj ?_ ?_ ?_ ?_ ?_
      · rw [sb.prefixLen, pa]; omega
      · rw [sb.prefixLen, pb]; omega
      · rw [sb.prefixLen, pa]; omega
      · rw [sb.prefixLen, pb]; omega
      · rw [sb.ovThr]; exact hthr

theorem ne_ed_of_set (m : Measure) (hm : SetMeasure m) (f : FilterObj) (hmeas : f.cfg.measure = m) :
    f.cfg.measure ≠ .editDistance := by
  rw [hmeas]
  rcases hm with rfl | rfl | rfl <;> intro h <;> cases h

/-- the same for `_filter_suffix` as called (`suffixFilterSuffixN`: no numbering under the set measures) -/
theorem suffixFilterSuffixN_qual (m : Measure) (hm : SetMeasure m) (t : Rat) (ht : ThrOK t) (f : FilterObj)
    (hmeas : f.cfg.measure = m)
    (sb : SameBounds f.cfg (cfgOf m t)) (a b : List Tok) (ord : List (Tok × Nat))
    (ha : a.Nodup) (hb : b.Nodup) (has : a.length < 2 ^ 32) (hbs : b.length < 2 ^ 32)
    (hka : ∀ x ∈ a, (Dict.get? ord x).isSome) (hkb : ∀ x ∈ b, (Dict.get? ord x).isSome)
    (hinj : ∀ t1 t2 r, Dict.get? ord t1 = some r → Dict.get? ord t2 = some r → t1 = t2)
    (ho : 1 ≤ interCount a b)
    (hthr : (cfgOf m t).ovThr a.length b.length ≤ (interCount a b : Int))
    (hla : (cfgOf m t).lower a.length ≤ (interCount a b : Int))
    (hlb : (cfgOf m t).lower b.length ≤ (interCount a b : Int)) :
    suffixFilterSuffixN f (pyDrop (orderUsing a ord) (f.cfg.prefixLen a.length))
      (pyDrop (orderUsing b ord) (f.cfg.prefixLen b.length))
      (f.cfg.prefixLen a.length) (f.cfg.prefixLen b.length) a.length b.length = false := by
  rw [suffixFilterSuffixN_of_ne f _ _ _ _ _ _ (ne_ed_of_set m hm f hmeas)]
  exact suffixFilterSuffix_qual m hm t ht f sb a b ord ha hb has hbs hka hkb hinj ho hthr hla hlb

/-! ## 3. entry level -/

/-- C04 for `SuffixFilter.filter_pair` under JACCARD / COSINE / DICE, every threshold `2⁻²⁰ ≤ thr ≤ 1` -/
theorem filterPair_suffix_safe_set (m : Measure) (hm : SetMeasure m) (thr : Rat) (ht : ThrOK thr)
    (f : FilterObj) (hmeas : f.cfg.measure = m) (hthr : f.cfg.threshold = .float thr) (tok : String → List Tok)
    (hnd : ∀ s, (tok s).Nodup) (hsm : ∀ s, (tok s).length < 2 ^ 32) (l r : Cell)
    (hl : l.isMissing = false) (hr : r.isMissing = false)
    (hne : ¬ ((tok l.strVal).length = 0 ∧ (tok r.strVal).length = 0))
    (s : Rat) (hs : Spec.simSet m (tok l.strVal) (tok r.strVal) = .float s) (hq : thr ≤ s) :
    filterPair .suffix f tok l r = false := by
  obtain ⟨ho, b1, b2, la, lb⟩ := qual_facts m hm thr ht _ _ (hnd _) (hnd _) (hsm _) (hsm _) hne s hs hq
  have sb := sameBounds_set f.cfg m hm thr hmeas hthr
  have h1 := interCount_le_length_left _ (tok r.strVal) (hnd l.strVal)
  have h2 := interCount_le_length_right (tok l.strVal) _ (hnd r.strVal)
  have p1 := b1.prefN
  have p2 := b1.prefK
  show suffixFilterPair f tok l r = false
  unfold suffixFilterPair
  rw [if_neg (by simp [hl, hr])]
  simp only
  rw [if_neg (by simpa using hne),
    if_neg (by simp only [Bool.or_eq_true, decide_eq_true_eq, sb.prefixLen]; omega)]
  exact suffixFilterSuffixN_qual m hm thr ht f hmeas sb _ _ _ (hnd _) (hnd _) (hsm _) (hsm _)
    (genTokenOrdering_isSome _ _ (by simp)) (genTokenOrdering_isSome _ _ (by simp))
    (genTokenOrdering_inj _) ho b2.ovThr la lb

/-- the suffix filter, run on the left array `lt` and the chunk `rt`, emits a pair of rows whose similarity reaches
    the threshold -/
theorem emits_suffix_set (m : Measure) (hm : SetMeasure m) (thr : Rat) (ht : ThrOK thr)
    (f : FilterObj) (hmeas : f.cfg.measure = m) (hthr : f.cfg.threshold = .float thr) (tok : String → List Tok)
    (hnd : ∀ s, (tok s).Nodup) (hsm : ∀ s, (tok s).length < 2 ^ 32)
    (lAttr rAttr : Nat) (lt rt : List Row) (x y : Row) (hx : x ∈ lt) (hy : y ∈ rt)
    (hne : ¬ ((tok (x.cell lAttr).strVal).length = 0 ∧ (tok (y.cell rAttr).strVal).length = 0))
    (s : Rat) (hs : Spec.simSet m (tok (x.cell lAttr).strVal) (tok (y.cell rAttr).strVal) = .float s) (hq : thr ≤ s) :
    Emits f tok lAttr rAttr lt rt .suffix x y := by
  obtain ⟨ho, b1, b2, la, lb⟩ := qual_facts m hm thr ht _ _ (hnd _) (hnd _) (hsm _) (hsm _) hne s hs hq
  have sb := sameBounds_set f.cfg m hm thr hmeas hthr
  have h1 := interCount_le_length_left _ (tok (y.cell rAttr).strVal) (hnd (x.cell lAttr).strVal)
  have h2 := interCount_le_length_right (tok (x.cell lAttr).strVal) _ (hnd (y.cell rAttr).strVal)
  have p1 := b1.prefN
  have p2 := b1.prefK
  have hka := genTokenOrdering_isSome (lt.map (fun row => tok (row.cell lAttr).strVal) ++
      rt.map (fun row => tok (row.cell rAttr).strVal)) _
    (List.mem_append_left _ (List.mem_map.2 ⟨x, hx, rfl⟩))
  have hkb := genTokenOrdering_isSome (lt.map (fun row => tok (row.cell lAttr).strVal) ++
      rt.map (fun row => tok (row.cell rAttr).strVal)) _
    (List.mem_append_right _ (List.mem_map.2 ⟨y, hy, rfl⟩))
  refine ⟨hx, hy, ?_⟩
  unfold suffixKeeps tableOrdering
  simp only [orderUsing_length _ _ hka, orderUsing_length _ _ hkb]
  rw [if_neg (by
    simp only [Bool.and_eq_true, decide_eq_true_eq, not_and]
    intro h3 h4
    exact hne ⟨h3.2, h4⟩)]
  rw [if_neg (by simp only [Bool.or_eq_true, decide_eq_true_eq, sb.prefixLen]; omega)]
  rw [suffixFilterSuffixN_qual m hm thr ht f hmeas sb _ _ _ (hnd _) (hnd _) (hsm _) (hsm _) hka hkb
    (genTokenOrdering_inj _) ho b2.ovThr la lb]
  rfl

/-- C04 for `SuffixFilter.filter_tables` under JACCARD / COSINE / DICE, every threshold `2⁻²⁰ ≤ thr ≤ 1` -/
theorem filterTables_suffix_safe_set (f : FilterObj) (a : TableArgs) (t : TokObj) (toks : TokFn) (cpu : Int)
    (l r fr : Frame) (m : Measure) (hm : SetMeasure m) (thr : Rat) (ht : ThrOK thr)
    (hmeas : f.cfg.measure = m) (hthr : f.cfg.threshold = .float thr)
    (hv : validateTablesAttrs a = .ok (l, r))
    (hk : validateOutAndKeys a l r = .ok ()) (hrows : r.rows.length < 2 ^ 40)
    (hnd : ∀ s, (toks t.returnSet s).Nodup) (hsm : ∀ s, (toks t.returnSet s).length < 2 ^ 32)
    (hres : filterTables .suffix f a t toks cpu = .ok fr)
    (ls rs : Row) (hls : ls ∈ l.rows) (hrs : rs ∈ r.rows)
    (hlp : Present l a.lAttr ls) (hrp : Present r a.rAttr rs)
    (hne : ¬ ((tokensOf (toks t.returnSet) l a.lAttr ls).length = 0 ∧ (tokensOf (toks t.returnSet) r a.rAttr rs).length = 0))
    (s : Rat) (hs : Spec.simSet m (tokensOf (toks t.returnSet) l a.lAttr ls) (tokensOf (toks t.returnSet) r a.rAttr rs) = .float s)
    (hq : thr ≤ s) :
    ∃ row ∈ fr.rows, rowKeys row = (keyOf l a.lKey ls, keyOf r a.rKey rs) := by
  rw [mem_filterTables_iff .suffix f a t toks cpu l r fr hv hk hrows hres ls rs hls hrs hlp hrp]
  obtain ⟨ch, hch, hy⟩ := rRow_mem_chunk a cpu r hrows rs hrs hrp
  refine ⟨ch, hch, emits_suffix_set m hm thr ht f hmeas hthr _ hnd hsm _ _ _ _ _ _ (lRow_mem a l ls hls hlp) hy ?_ s ?_ hq⟩
  · rw [lRow_tokens a l (toks t.returnSet), rRow_tokens a r (toks t.returnSet)]; exact hne
  · rw [lRow_tokens a l (toks t.returnSet), rRow_tokens a r (toks t.returnSet)]; exact hs

end SuffixSmall
end SSJ

section AxiomCheck
open SSJ.SuffixSmall
/-- info: 'SSJ.SuffixSmall.ovThr_add_lower_le' depends on axioms: [propext, Classical.choice, Quot.sound] -/
#guard_msgs in #print axioms ovThr_add_lower_le
/-- info: 'SSJ.SuffixSmall.filterPair_suffix_safe_set' depends on axioms: [propext, Classical.choice, Quot.sound] -/
#guard_msgs in #print axioms filterPair_suffix_safe_set
/-- info: 'SSJ.SuffixSmall.filterTables_suffix_safe_set' depends on axioms: [propext, Classical.choice, Quot.sound] -/
#guard_msgs in #print axioms filterTables_suffix_safe_set
end AxiomCheck

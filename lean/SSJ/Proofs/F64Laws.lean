/-
  SSJ.Proofs.F64Laws — the laws of the exact binary64 model (`SSJ.Py.F64`) every arithmetic
  proof rests on.  (R1) relative error of `rn`, (R2) exactness on integers, comparison of `rn`
  with representable integers, and the 4-decimal slack lemmas for `round4` followed by
  `ceil` / `floor`.
-/
import SSJ.Py.F64
import Mathlib.Tactic.Linarith
import Mathlib.Tactic.Ring
import Mathlib.Tactic.Positivity
import Mathlib.Tactic.FieldSimp
import Mathlib.Tactic.NormNum
import Mathlib.Algebra.Order.Floor.Ring
import Mathlib.Data.Rat.Floor
import Mathlib.Data.Nat.Sqrt

namespace SSJ.F64

theorem rhe_err (q : Rat) : |((rhe q : Int) : Rat) - q| ≤ 1/2 := by
  unfold rhe
  have h1 : ((q.floor : Int) : Rat) ≤ q := Rat.floor_le q
  have h2 : q < ((q.floor : Int) : Rat) + 1 := by
    have := Rat.lt_floor_add_one q
    push_cast at this; exact this
  simp only
  split_ifs with a b c
  · rw [abs_le]; constructor <;> linarith
  · push_cast; rw [abs_le]; constructor <;> linarith
  · rw [abs_le]; constructor <;> linarith
  · push_cast; rw [abs_le]; constructor <;> linarith

theorem rhe_int (k : Int) : rhe (k : Rat) = k := by
  unfold rhe
  have : (k : Rat).floor = k := Rat.floor_intCast k
  simp [this]

theorem rhe_ge_floor (q : Rat) : q.floor ≤ rhe q := by
  unfold rhe; simp only; split_ifs <;> omega

theorem rhe_le_floor_add_one (q : Rat) : rhe q ≤ q.floor + 1 := by
  unfold rhe; simp only; split_ifs <;> omega

theorem rhe_mono {q r : Rat} (h : q ≤ r) : rhe q ≤ rhe r := by
  have hf : q.floor ≤ r.floor := Rat.floor_monotone h
  rcases lt_or_eq_of_le hf with hlt | heq
  · have := rhe_le_floor_add_one q
    have := rhe_ge_floor r
    omega
  · unfold rhe
    simp only
    rw [heq]
    have hd : q - (r.floor : Rat) ≤ r - (r.floor : Rat) := by linarith
    split_ifs <;> first | omega | (exfalso; linarith)

/-- if `q < n + 1/2` then `rhe q ≤ n` -/
theorem rhe_le_of_lt {q : Rat} {n : Int} (h : q < n + 1/2) : rhe q ≤ n := by
  have := abs_le.mp (rhe_err q)
  have h2 : ((rhe q : Int) : Rat) < ((n + 1 : Int) : Rat) := by push_cast; linarith [this.2]
  have := Int.cast_lt.mp h2
  omega

theorem le_rhe_of_lt {q : Rat} {n : Int} (h : (n : Rat) - 1/2 < q) : n ≤ rhe q := by
  have := abs_le.mp (rhe_err q)
  have h2 : ((n - 1 : Int) : Rat) < ((rhe q : Int) : Rat) := by push_cast; linarith [this.1]
  have := Int.cast_lt.mp h2
  omega

theorem pow2_eq_zpow (e : Int) : pow2 e = (2 : Rat) ^ e := by
  unfold pow2
  split_ifs with h
  · obtain ⟨n, rfl⟩ := Int.eq_ofNat_of_zero_le h
    simp
  · obtain ⟨n, hn⟩ := Int.eq_ofNat_of_zero_le (show 0 ≤ -e by omega)
    have : e = -(n : Int) := by omega
    subst this
    simp

theorem pow2_pos (e : Int) : 0 < pow2 e := by
  rw [pow2_eq_zpow]; exact zpow_pos (by norm_num) e
theorem pow2_add (a b : Int) : pow2 (a + b) = pow2 a * pow2 b := by
  simp only [pow2_eq_zpow]; exact zpow_add₀ (by norm_num) a b
theorem pow2_ofNat (n : Nat) : pow2 (n : Int) = (2 : Rat) ^ n := by
  rw [pow2_eq_zpow]; simp
theorem pow2_neg (n : Nat) : pow2 (-(n : Int)) = 1 / (2 : Rat) ^ n := by
  rw [pow2_eq_zpow]; simp
theorem pow2_succ (e : Int) : pow2 (e + 1) = 2 * pow2 e := by
  rw [pow2_add, mul_comm]; congr 1
theorem pow2_mono {a b : Int} (h : a ≤ b) : pow2 a ≤ pow2 b := by
  simp only [pow2_eq_zpow]; exact zpow_le_zpow_right₀ (by norm_num) h
theorem pow2_lt {a b : Int} (h : a < b) : pow2 a < pow2 b := by
  simp only [pow2_eq_zpow]; exact zpow_lt_zpow_right₀ (by norm_num) h
theorem pow2_sub (a b : Int) : pow2 (a - b) = pow2 a / pow2 b := by
  simp only [pow2_eq_zpow]; exact zpow_sub₀ (by norm_num) a b

theorem ilog2_aux (p q : Nat) (hp0 : p ≠ 0) (hq0 : q ≠ 0) :
    pow2 ((p.log2 : Int) - (q.log2 : Int) - 1) ≤ (p : Rat) / q ∧
    (p : Rat) / q < pow2 ((p.log2 : Int) - (q.log2 : Int) + 1) := by
  have hdpos : (0 : Rat) < (q : Rat) := by exact_mod_cast Nat.pos_of_ne_zero hq0
  have h1 : (2 : Rat) ^ p.log2 ≤ p := by exact_mod_cast Nat.log2_self_le hp0
  have h2 : (p : Rat) < 2 ^ (p.log2 + 1) := by exact_mod_cast (Nat.lt_log2_self (n := p))
  have h3 : (2 : Rat) ^ q.log2 ≤ q := by exact_mod_cast Nat.log2_self_le hq0
  have h4 : (q : Rat) < 2 ^ (q.log2 + 1) := by exact_mod_cast (Nat.lt_log2_self (n := q))
  constructor
  · have : (p.log2 : Int) - (q.log2 : Int) - 1 = (p.log2 : Int) - ((q.log2 + 1 : Nat) : Int) := by
      push_cast; omega
    rw [this, pow2_sub, pow2_ofNat, pow2_ofNat]
    rw [div_le_div_iff₀ (by positivity) hdpos]
    calc (2 : Rat) ^ p.log2 * q ≤ p * q := by gcongr
      _ ≤ p * 2 ^ (q.log2 + 1) := by gcongr
  · have : (p.log2 : Int) - (q.log2 : Int) + 1 = ((p.log2 + 1 : Nat) : Int) - (q.log2 : Int) := by
      push_cast; omega
    rw [this, pow2_sub, pow2_ofNat, pow2_ofNat]
    rw [div_lt_div_iff₀ hdpos (by positivity)]
    calc (p : Rat) * 2 ^ q.log2 < 2 ^ (p.log2 + 1) * 2 ^ q.log2 := by gcongr
      _ ≤ 2 ^ (p.log2 + 1) * q := by gcongr

/-- `ilog2 a = ⌊log₂ a⌋` -/
theorem ilog2_spec {a : Rat} (ha : 0 < a) : pow2 (ilog2 a) ≤ a ∧ a < pow2 (ilog2 a + 1) := by
  have hnum : 0 < a.num := Rat.num_pos.mpr ha
  have hp0 : a.num.natAbs ≠ 0 := by omega
  have hpa : (a.num : Rat) = (a.num.natAbs : Rat) := by
    have : a.num = (a.num.natAbs : Int) := by omega
    have h2 := congrArg (Int.cast (R := Rat)) this
    rw [Int.cast_natCast] at h2; exact h2
  have haeq : (a.num.natAbs : Rat) / (a.den : Rat) = a := by
    rw [← hpa]; exact Rat.num_div_den a
  obtain ⟨hk1, hk2⟩ := ilog2_aux a.num.natAbs a.den hp0 a.den_nz
  rw [haeq] at hk1 hk2
  unfold ilog2
  simp only
  split_ifs with h
  · exact ⟨h, hk2⟩
  · refine ⟨hk1, ?_⟩
    rw [sub_add_cancel]; exact lt_of_not_ge h

theorem ilog2_unique {a : Rat} {l : Int} (h1 : pow2 l ≤ a) (h2 : a < pow2 (l + 1)) : ilog2 a = l := by
  have ha : 0 < a := lt_of_lt_of_le (pow2_pos l) h1
  obtain ⟨s1, s2⟩ := ilog2_spec ha
  by_contra hne
  rcases lt_or_gt_of_ne hne with h | h
  · have : pow2 (ilog2 a + 1) ≤ pow2 l := pow2_mono (by omega)
    linarith
  · have : pow2 (l + 1) ≤ pow2 (ilog2 a) := pow2_mono (by omega)
    linarith

theorem le_ilog2 {a : Rat} {l : Int} (ha : 0 < a) : l ≤ ilog2 a ↔ pow2 l ≤ a := by
  obtain ⟨s1, s2⟩ := ilog2_spec ha
  constructor
  · intro h; exact le_trans (pow2_mono h) s1
  · intro h
    by_contra hc
    have : pow2 (ilog2 a + 1) ≤ pow2 l := pow2_mono (by omega)
    linarith

theorem ilog2_lt {a : Rat} {l : Int} (ha : 0 < a) : ilog2 a < l ↔ a < pow2 l := by
  rw [← not_le, le_ilog2 ha, not_le]

/-! ### `rn` -/

/-- the exponent of the unit in the last place used by `rn` -/
def ulpExp (a : Rat) : Int := max (ilog2 a - 52) (-1074)

/-- `rn` on positive arguments -/
def rnPos (a : Rat) : Rat := ((rhe (a / pow2 (ulpExp a)) : Int) : Rat) * pow2 (ulpExp a)

theorem rn_of_pos {q : Rat} (h : 0 < q) : rn q = rnPos q := by
  unfold rn rnPos ulpExp
  simp [h.ne', not_lt.mpr h.le]

theorem rn_of_neg {q : Rat} (h : q < 0) : rn q = -rnPos (-q) := by
  unfold rn rnPos ulpExp
  simp [h.ne, h]

theorem rn_zero : rn 0 = 0 := by simp [rn]

theorem rn_neg (q : Rat) : rn (-q) = -rn q := by
  rcases lt_trichotomy q 0 with h | h | h
  · rw [rn_of_neg h, rn_of_pos (neg_pos.mpr h), neg_neg]
  · subst h; simp [rn_zero]
  · rw [rn_of_pos h, rn_of_neg (neg_neg_of_pos h), neg_neg]

theorem rhe_nonneg {q : Rat} (h : 0 ≤ q) : 0 ≤ rhe q := by
  have := rhe_mono h
  rwa [show (0 : Rat) = ((0 : Int) : Rat) by simp, rhe_int] at this

theorem rnPos_nonneg {a : Rat} (h : 0 ≤ a) : 0 ≤ rnPos a := by
  unfold rnPos
  have h1 : 0 ≤ a / pow2 (ulpExp a) := div_nonneg h (pow2_pos _).le
  have h2 : (0 : Rat) ≤ ((rhe (a / pow2 (ulpExp a)) : Int) : Rat) := by exact_mod_cast rhe_nonneg h1
  exact mul_nonneg h2 (pow2_pos _).le

theorem rn_nonneg {q : Rat} (h : 0 ≤ q) : 0 ≤ rn q := by
  rcases eq_or_lt_of_le h with h | h
  · subst h; rw [rn_zero]
  · rw [rn_of_pos h]; exact rnPos_nonneg h.le

theorem scaled_round_rel_err (a : Rat) (e : Int) (ha : pow2 52 * pow2 e ≤ a) :
    |((rhe (a / pow2 e) : Int) : Rat) * pow2 e - a| ≤ a / 2^53 := by
  have hp := pow2_pos e
  have h := rhe_err (a / pow2 e)
  have h52 : pow2 52 = 2 ^ 52 := pow2_ofNat 52
  rw [h52] at ha
  have : ((rhe (a / pow2 e) : Int) : Rat) * pow2 e - a
        = (((rhe (a / pow2 e) : Int) : Rat) - a / pow2 e) * pow2 e := by
    field_simp
  rw [this, abs_mul, abs_of_pos hp]
  calc |((rhe (a / pow2 e) : Int) : Rat) - a / pow2 e| * pow2 e ≤ 1/2 * pow2 e := by
        apply mul_le_mul_of_nonneg_right h hp.le
    _ ≤ a / 2^53 := by
        rw [le_div_iff₀ (by positivity)]
        nlinarith [ha]

theorem rnPos_rel_err {a : Rat} (ha : pow2 (-1022) ≤ a) : |rnPos a - a| ≤ a / 2 ^ 53 := by
  have hpos : 0 < a := lt_of_lt_of_le (pow2_pos _) ha
  have hl : -1022 ≤ ilog2 a := (le_ilog2 hpos).mpr ha
  have he : ulpExp a = ilog2 a - 52 := by unfold ulpExp; omega
  unfold rnPos
  rw [he]
  apply scaled_round_rel_err
  rw [← pow2_add]
  have : (52 : Int) + (ilog2 a - 52) = ilog2 a := by omega
  rw [this]
  exact (ilog2_spec hpos).1

/-- (R1) in the normal range the relative error of rounding is at most 2⁻⁵³ -/
theorem rn_rel_err {q : Rat} (hq : pow2 (-1022) ≤ |q|) : |rn q - q| ≤ |q| / 2 ^ 53 := by
  rcases lt_trichotomy q 0 with h | h | h
  · rw [abs_of_neg h] at hq ⊢
    rw [rn_of_neg h]
    have := rnPos_rel_err hq
    rwa [show -rnPos (-q) - q = -(rnPos (-q) - -q) by ring, abs_neg]
  · subst h; simp [rn_zero]
  · rw [abs_of_pos h] at hq ⊢
    rw [rn_of_pos h]
    exact rnPos_rel_err hq

theorem int_on_grid (k : Int) {e : Int} (he : e ≤ 0) : ∃ n : Int, (k : Rat) = (n : Rat) * pow2 e := by
  obtain ⟨m, hm⟩ := Int.eq_ofNat_of_zero_le (show 0 ≤ -e by omega)
  have : e = -(m : Int) := by omega
  subst this
  refine ⟨k * 2 ^ m, ?_⟩
  rw [pow2_neg]; push_cast
  field_simp

theorem rnPos_grid {a : Rat} {n : Int} (h : a = (n : Rat) * pow2 (ulpExp a)) : rnPos a = a := by
  unfold rnPos
  have : a / pow2 (ulpExp a) = (n : Rat) := by
    rw [div_eq_iff (pow2_pos _).ne']; exact h
  rw [this, rhe_int]; exact h.symm

theorem rnPos_le_grid {a b : Rat} {n : Int} (hb : b = (n : Rat) * pow2 (ulpExp a)) (h : a ≤ b) :
    rnPos a ≤ b := by
  unfold rnPos
  have hp := pow2_pos (ulpExp a)
  have : a / pow2 (ulpExp a) ≤ (n : Rat) := by
    rw [div_le_iff₀ hp]; rw [← hb]; exact h
  have h2 := rhe_mono this
  rw [rhe_int] at h2
  rw [hb]
  have : ((rhe (a / pow2 (ulpExp a)) : Int) : Rat) ≤ (n : Rat) := by exact_mod_cast h2
  exact mul_le_mul_of_nonneg_right this hp.le

theorem rnPos_ge_grid {a b : Rat} {n : Int} (hb : b = (n : Rat) * pow2 (ulpExp a)) (h : b ≤ a) :
    b ≤ rnPos a := by
  unfold rnPos
  have hp := pow2_pos (ulpExp a)
  have : (n : Rat) ≤ a / pow2 (ulpExp a) := by
    rw [le_div_iff₀ hp]; rw [← hb]; exact h
  have h2 := rhe_mono this
  rw [rhe_int] at h2
  rw [hb]
  have : (n : Rat) ≤ ((rhe (a / pow2 (ulpExp a)) : Int) : Rat) := by exact_mod_cast h2
  exact mul_le_mul_of_nonneg_right this hp.le

theorem ulpExp_nonpos {a : Rat} (ha : 0 < a) (h : a < 2 ^ 53) : ulpExp a ≤ 0 := by
  have : ilog2 a < 53 := (ilog2_lt ha).mpr (by rw [show (53 : Int) = ((53 : Nat) : Int) by rfl, pow2_ofNat]; exact h)
  unfold ulpExp; omega

theorem rnPos_two_pow_53 : rnPos (2 ^ 53) = 2 ^ 53 := by
  have hl : ilog2 ((2 : Rat) ^ 53) = 53 := by
    apply ilog2_unique
    · rw [show (53 : Int) = ((53 : Nat) : Int) by rfl, pow2_ofNat]
    · rw [show (53 : Int) + 1 = ((54 : Nat) : Int) by rfl, pow2_ofNat]; norm_num
  have he : ulpExp ((2 : Rat) ^ 53) = 1 := by unfold ulpExp; rw [hl]; rfl
  apply rnPos_grid (n := 2 ^ 52)
  rw [he, show (1 : Int) = ((1 : Nat) : Int) by rfl, pow2_ofNat]; norm_num

theorem rnPos_int {k : Int} (hk0 : 0 < k) (hk : (k : Rat) ≤ 2 ^ 53) : rnPos (k : Rat) = k := by
  rcases eq_or_lt_of_le hk with h | h
  · rw [h]; exact rnPos_two_pow_53
  · have hpos : (0 : Rat) < (k : Rat) := by exact_mod_cast hk0
    obtain ⟨n, hn⟩ := int_on_grid k (ulpExp_nonpos hpos h)
    exact rnPos_grid hn

/-- (R2) integers up to 2⁵³ are exact -/
theorem rn_int (k : Int) (hk : |(k : Rat)| ≤ 2 ^ 53) : rn (k : Rat) = k := by
  rcases lt_trichotomy k 0 with h | h | h
  · have hneg : (k : Rat) < 0 := by exact_mod_cast h
    rw [abs_of_neg hneg] at hk
    rw [rn_of_neg hneg]
    have := rnPos_int (k := -k) (by omega) (by push_cast; exact hk)
    push_cast at this
    rw [this, neg_neg]
  · subst h; simp [rn_zero]
  · have hpos : (0 : Rat) < (k : Rat) := by exact_mod_cast h
    rw [abs_of_pos hpos] at hk
    rw [rn_of_pos hpos]
    exact rnPos_int h hk

/-- rounding never crosses a representable integer (upper side) -/
theorem rn_le_int {q : Rat} {k : Int} (h0 : 0 ≤ q) (hk : (k : Rat) ≤ 2 ^ 53) (h : q ≤ k) : rn q ≤ k := by
  rcases eq_or_lt_of_le h0 with h0 | h0
  · subst h0; rw [rn_zero]; exact h
  · rw [rn_of_pos h0]
    rcases lt_or_ge q (2 ^ 53) with hq | hq
    · obtain ⟨n, hn⟩ := int_on_grid k (ulpExp_nonpos h0 hq)
      exact rnPos_le_grid hn h
    · have : q = 2 ^ 53 := le_antisymm (le_trans h hk) hq
      have hk' : (k : Rat) = 2 ^ 53 := le_antisymm hk (this ▸ h)
      rw [this, rnPos_two_pow_53, hk']

/-- rounding never crosses a representable integer (lower side) -/
theorem rn_ge_int {q : Rat} {k : Int} (hk0 : 0 ≤ k) (hq : q ≤ 2 ^ 53) (h : (k : Rat) ≤ q) : (k : Rat) ≤ rn q := by
  have hk0' : (0 : Rat) ≤ (k : Rat) := by exact_mod_cast hk0
  have h0 : 0 ≤ q := le_trans hk0' h
  rcases eq_or_lt_of_le h0 with h0 | h0
  · subst h0; rw [rn_zero]; exact h
  · rw [rn_of_pos h0]
    rcases lt_or_eq_of_le hq with hq | hq
    · obtain ⟨n, hn⟩ := int_on_grid k (ulpExp_nonpos h0 hq)
      exact rnPos_ge_grid hn h
    · rw [hq, rnPos_two_pow_53]; rw [← hq]; exact h

/-! ### `round(x, 4)` followed by `ceil` / `floor` absorbs an error below 4·10⁻⁵ -/

theorem round4_eq (v : Rat) : round4 v = rn (((rhe (v * 10000) : Int) : Rat) / 10000) := by
  unfold round4 roundN
  norm_num

theorem pow2_m1022_le : pow2 (-1022) ≤ 1 / 10000 := by
  rw [show (-1022 : Int) = -((1022 : Nat) : Int) by rfl, pow2_neg]
  rw [div_le_div_iff₀ (by positivity) (by norm_num), one_mul, one_mul]
  calc (10000 : Rat) ≤ 2 ^ 14 := by norm_num
    _ ≤ 2 ^ 1022 := pow_le_pow_right₀ (by norm_num) (by norm_num)

/-- lower bound after rounding for mid-range values -/
theorem rn_lower {w : Rat} (h1 : 1 / 10000 ≤ w) (h2 : w ≤ 2 ^ 39) : w - 1 / 16384 ≤ rn w := by
  have hw : 0 < w := by linarith
  have hq : pow2 (-1022) ≤ |w| := by rw [abs_of_pos hw]; exact le_trans pow2_m1022_le h1
  have := abs_le.mp (rn_rel_err hq)
  rw [abs_of_pos hw] at this
  have h3 : w / 2 ^ 53 ≤ 1 / 16384 := by
    rw [div_le_div_iff₀ (by positivity) (by norm_num)]; linarith
  linarith [this.1]

theorem rn_upper {w : Rat} (h1 : 1 / 10000 ≤ w) (h2 : w ≤ 2 ^ 39) : rn w ≤ w + 1 / 16384 := by
  have hw : 0 < w := by linarith
  have hq : pow2 (-1022) ≤ |w| := by rw [abs_of_pos hw]; exact le_trans pow2_m1022_le h1
  have := abs_le.mp (rn_rel_err hq)
  rw [abs_of_pos hw] at this
  have h3 : w / 2 ^ 53 ≤ 1 / 16384 := by
    rw [div_le_div_iff₀ (by positivity) (by norm_num)]; linarith
  linarith [this.2]

theorem round4_ceil_le {v : Rat} {k : Int} (hv : 0 ≤ v) (hk : (k : Rat) ≤ 2 ^ 39)
    (h : v ≤ k + 4 / 100000) : (round4 v).ceil ≤ k := by
  rw [Rat.ceil_le_iff, round4_eq]
  have h1 : rhe (v * 10000) ≤ k * 10000 := by
    apply rhe_le_of_lt; push_cast; linarith
  have h1' : ((rhe (v * 10000) : Int) : Rat) ≤ (k : Rat) * 10000 := by exact_mod_cast h1
  have h0 : (0 : Rat) ≤ ((rhe (v * 10000) : Int) : Rat) := by
    exact_mod_cast rhe_nonneg (by positivity : (0 : Rat) ≤ v * 10000)
  apply rn_le_int
  · positivity
  · linarith
  · rw [div_le_iff₀ (by norm_num)]; exact h1'

theorem round4_floor_ge {v : Rat} {k : Int} (hk0 : 0 ≤ k) (hv : v ≤ 2 ^ 39)
    (h : (k : Rat) - 4 / 100000 ≤ v) : k ≤ (round4 v).floor := by
  rw [Rat.le_floor_iff, round4_eq]
  have h1 : k * 10000 ≤ rhe (v * 10000) := by
    apply le_rhe_of_lt; push_cast; linarith
  have h1' : (k : Rat) * 10000 ≤ ((rhe (v * 10000) : Int) : Rat) := by exact_mod_cast h1
  have h2 : rhe (v * 10000) ≤ 2 ^ 39 * 10000 := by
    apply rhe_le_of_lt; push_cast; linarith
  have h2' : ((rhe (v * 10000) : Int) : Rat) ≤ 2 ^ 39 * 10000 := by exact_mod_cast h2
  apply rn_ge_int hk0
  · rw [div_le_iff₀ (by norm_num)]; linarith
  · rw [le_div_iff₀ (by norm_num)]; exact h1'

/-- tightness: more than 6·10⁻⁵ above an integer the ceiling moves up -/
theorem round4_ceil_gt {v : Rat} {k : Int} (hk0 : 0 ≤ k) (hv : v ≤ 2 ^ 39)
    (h : (k : Rat) + 6 / 100000 ≤ v) : k < (round4 v).ceil := by
  rw [Rat.lt_ceil_iff, round4_eq]
  have hk0' : (0 : Rat) ≤ (k : Rat) := by exact_mod_cast hk0
  have h1 : k * 10000 + 1 ≤ rhe (v * 10000) := by
    apply le_rhe_of_lt; push_cast; linarith
  have h1' : (k : Rat) * 10000 + 1 ≤ ((rhe (v * 10000) : Int) : Rat) := by exact_mod_cast h1
  have h2 : rhe (v * 10000) ≤ 2 ^ 39 * 10000 := by
    apply rhe_le_of_lt; push_cast; linarith
  have h2' : ((rhe (v * 10000) : Int) : Rat) ≤ 2 ^ 39 * 10000 := by exact_mod_cast h2
  have hw1 : (k : Rat) + 1 / 10000 ≤ ((rhe (v * 10000) : Int) : Rat) / 10000 := by
    rw [le_div_iff₀ (by norm_num)]; linarith
  have hw2 : ((rhe (v * 10000) : Int) : Rat) / 10000 ≤ 2 ^ 39 := by
    rw [div_le_iff₀ (by norm_num)]; linarith
  have := rn_lower (by linarith) hw2
  linarith

/-- tightness: more than 6·10⁻⁵ below an integer the floor moves down -/
theorem round4_floor_lt {v : Rat} {k : Int} (hv : 0 ≤ v) (hk : (k : Rat) ≤ 2 ^ 39)
    (h : v ≤ (k : Rat) - 6 / 100000) : (round4 v).floor < k := by
  rw [Rat.floor_lt_iff, round4_eq]
  have h1 : rhe (v * 10000) ≤ k * 10000 - 1 := by
    apply rhe_le_of_lt; push_cast; linarith
  have h1' : ((rhe (v * 10000) : Int) : Rat) ≤ (k : Rat) * 10000 - 1 := by exact_mod_cast h1
  have h0 : 0 ≤ rhe (v * 10000) := rhe_nonneg (by positivity : (0 : Rat) ≤ v * 10000)
  have hw1 : ((rhe (v * 10000) : Int) : Rat) / 10000 ≤ (k : Rat) - 1 / 10000 := by
    rw [div_le_iff₀ (by norm_num)]; linarith
  rcases eq_or_lt_of_le h0 with h0 | h0
  · rw [← h0]; simp only [Int.cast_zero, zero_div, rn_zero]; linarith
  · have h0' : (1 : Rat) ≤ ((rhe (v * 10000) : Int) : Rat) := by exact_mod_cast h0
    have hw0 : 1 / 10000 ≤ ((rhe (v * 10000) : Int) : Rat) / 10000 := by
      rw [le_div_iff₀ (by norm_num)]; linarith
    have := rn_upper hw0 (by linarith)
    linarith

/-! ### square root -/

/-- the integer significand chosen by `fsqrt` -/
def sqrtM (x : Rat) : Nat :=
  if x < (((2 * Nat.sqrt x.floor.toNat + 1 : Nat) : Rat) / 2) * (((2 * Nat.sqrt x.floor.toNat + 1 : Nat) : Rat) / 2)
  then Nat.sqrt x.floor.toNat else Nat.sqrt x.floor.toNat + 1

/-- the result exponent chosen by `fsqrt` -/
def sqrtE (q : Rat) : Int :=
  (if ilog2 q % 2 = 0 then ilog2 q / 2 else (ilog2 q - 1) / 2) - 52

theorem fsqrt_eq {q : Rat} (h : 0 < q) :
    fsqrt q = ((sqrtM (q / pow2 (2 * sqrtE q)) : Nat) : Rat) * pow2 (sqrtE q) := by
  unfold fsqrt sqrtM sqrtE
  simp only [not_le.mpr h, if_false]

theorem sqrtM_spec {x : Rat} (hx : 2 ^ 104 ≤ x) :
    (2 : Rat) ^ 52 ≤ (sqrtM x : Rat) ∧
    x * (1 - 1 / 2 ^ 51) ≤ (sqrtM x : Rat) * (sqrtM x : Rat) ∧
    (sqrtM x : Rat) * (sqrtM x : Rat) ≤ x * (1 + 1 / 2 ^ 51) := by
  have hfl : (2 ^ 104 : Int) ≤ x.floor := by
    rw [Rat.le_floor_iff]; push_cast; exact hx
  obtain ⟨n, hn⟩ := Int.eq_ofNat_of_zero_le (le_trans (by norm_num) hfl : (0 : Int) ≤ x.floor)
  have hn' : x.floor.toNat = n := by omega
  have hnx : (n : Rat) ≤ x := by
    have := Rat.floor_le x; rw [hn] at this; exact_mod_cast this
  have hxn : x < (n : Rat) + 1 := by
    have := Rat.lt_floor_add_one x; rw [hn] at this; exact_mod_cast this
  have hn104 : 2 ^ 52 * 2 ^ 52 ≤ n := by
    rw [hn] at hfl; exact_mod_cast hfl
  have hs52 : 2 ^ 52 ≤ Nat.sqrt n := Nat.le_sqrt.mpr hn104
  have hs1 : Nat.sqrt n * Nat.sqrt n ≤ n := Nat.sqrt_le n
  have hs2 : n + 1 ≤ (Nat.sqrt n + 1) * (Nat.sqrt n + 1) := Nat.lt_succ_sqrt n
  unfold sqrtM
  rw [hn']
  generalize Nat.sqrt n = s at *
  have hS52 : (2 : Rat) ^ 52 ≤ (s : Rat) := by exact_mod_cast hs52
  have hS1 : (s : Rat) * s ≤ n := by exact_mod_cast hs1
  have hS2 : (n : Rat) + 1 ≤ ((s : Rat) + 1) * ((s : Rat) + 1) := by exact_mod_cast hs2
  have hSS : (2 : Rat) ^ 52 * s ≤ (s : Rat) * s :=
    mul_le_mul_of_nonneg_right hS52 (le_trans (by positivity) hS52)
  have hh : (((2 * s + 1 : Nat) : Rat) / 2) * (((2 * s + 1 : Nat) : Rat) / 2)
      = (s : Rat) * s + s + 1 / 4 := by push_cast; ring
  rw [hh]
  have e1 : x * (1 - 1 / 2 ^ 51) = x - x / 2 ^ 51 := by ring
  have e2 : x * (1 + 1 / 2 ^ 51) = x + x / 2 ^ 51 := by ring
  have hx51 : 2 * (s : Rat) ≤ x / 2 ^ 51 := by
    rw [le_div_iff₀ (by positivity)]
    have : (s : Rat) * s ≤ x := le_trans hS1 hnx
    linarith
  rw [e1, e2]
  split_ifs with hc
  · refine ⟨hS52, ?_, ?_⟩ <;> linarith
  · push_cast
    have e3 : ((s : Rat) + 1) * ((s : Rat) + 1) = (s : Rat) * s + 2 * s + 1 := by ring
    rw [e3] at hS2 ⊢
    refine ⟨by linarith, ?_, ?_⟩ <;> linarith

theorem sqrtE_bounds (q : Rat) : 2 * sqrtE q + 104 ≤ ilog2 q ∧ ilog2 q ≤ 2 * sqrtE q + 105 := by
  unfold sqrtE
  split_ifs <;> omega

theorem sqrt_arg_ge {q : Rat} (h : 0 < q) : 2 ^ 104 ≤ q / pow2 (2 * sqrtE q) := by
  rw [le_div_iff₀ (pow2_pos _)]
  have h1 := (ilog2_spec h).1
  have h2 : pow2 (104 + 2 * sqrtE q) ≤ pow2 (ilog2 q) := pow2_mono (by have := sqrtE_bounds q; omega)
  rw [pow2_add, show (104 : Int) = ((104 : Nat) : Int) by rfl, pow2_ofNat] at h2
  linarith

/-- the correctly rounded square root squares back to within 2⁻⁵¹ relative error -/
theorem fsqrt_sq' {q : Rat} (h0 : 0 < q) :
    q * (1 - 1 / 2 ^ 51) ≤ fsqrt q * fsqrt q ∧ fsqrt q * fsqrt q ≤ q * (1 + 1 / 2 ^ 51) := by
  rw [fsqrt_eq h0]
  obtain ⟨-, s2, s3⟩ := sqrtM_spec (sqrt_arg_ge h0)
  have hP := pow2_pos (2 * sqrtE q)
  have hPP : pow2 (sqrtE q) * pow2 (sqrtE q) = pow2 (2 * sqrtE q) := by
    rw [← pow2_add]; congr 1; ring
  have hq1 : q * (1 - 1 / 2 ^ 51) = q / pow2 (2 * sqrtE q) * (1 - 1 / 2 ^ 51) * pow2 (2 * sqrtE q) := by
    field_simp
  have hq2 : q * (1 + 1 / 2 ^ 51) = q / pow2 (2 * sqrtE q) * (1 + 1 / 2 ^ 51) * pow2 (2 * sqrtE q) := by
    field_simp
  set x := q / pow2 (2 * sqrtE q) with hx
  set M := ((sqrtM x : Nat) : Rat) with hM
  have e : M * pow2 (sqrtE q) * (M * pow2 (sqrtE q)) = M * M * pow2 (2 * sqrtE q) := by
    rw [← hPP]; ring
  rw [e]
  constructor
  · calc q * (1 - 1 / 2 ^ 51) = x * (1 - 1 / 2 ^ 51) * pow2 (2 * sqrtE q) := hq1
      _ ≤ M * M * pow2 (2 * sqrtE q) := mul_le_mul_of_nonneg_right s2 hP.le
  · calc M * M * pow2 (2 * sqrtE q) ≤ x * (1 + 1 / 2 ^ 51) * pow2 (2 * sqrtE q) :=
          mul_le_mul_of_nonneg_right s3 hP.le
      _ = q * (1 + 1 / 2 ^ 51) := hq2.symm

theorem fsqrt_sq {q : Rat} (h1 : 1 ≤ q) (h2 : q ≤ 2 ^ 70) :
    q * (1 - 1 / 2 ^ 51) ≤ fsqrt q * fsqrt q ∧ fsqrt q * fsqrt q ≤ q * (1 + 1 / 2 ^ 51) := by
  have _ := h2
  exact fsqrt_sq' (by linarith)

theorem fsqrt_pos {q : Rat} (h1 : 1 ≤ q) : 1 ≤ fsqrt q := by
  have h0 : 0 < q := by linarith
  rw [fsqrt_eq h0]
  obtain ⟨s1, -, -⟩ := sqrtM_spec (sqrt_arg_ge h0)
  have hl : 0 ≤ ilog2 q := (le_ilog2 h0).mpr (by rw [show (0 : Int) = ((0 : Nat) : Int) by rfl, pow2_ofNat]; simpa using h1)
  have he : -52 ≤ sqrtE q := by have := sqrtE_bounds q; omega
  have hp : 1 / 2 ^ 52 ≤ pow2 (sqrtE q) := by
    have := pow2_mono he
    rwa [show (-52 : Int) = -((52 : Nat) : Int) by rfl, pow2_neg] at this
  calc (1 : Rat) = 2 ^ 52 * (1 / 2 ^ 52) := by norm_num
    _ ≤ _ := mul_le_mul s1 hp (by positivity) (le_trans (by positivity) s1)

end SSJ.F64

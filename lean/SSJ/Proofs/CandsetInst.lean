/-
  SSJ.Proofs.CandsetInst — the generic `filter_candset` theorem (`EntryFilters.filterCandset_keeps`: a candidate row is
  kept iff `filter_pair` does not drop the pair it references) in the form the instantiations for the concrete filters
  use: for a call that RETURNED a frame (`filterCandset a fp cpu = .ok fr`) and a `filter_pair` call `fp` whose answers,
  when it does not raise, are those of a total function `fpb`.  Used by SSJ/Props/C04_candset, C08_candset,
  C09_candset, C14_candset.
-/
import SSJ.Proofs.EntryFilters

namespace SSJ
namespace EntryFilters
open SSJ.Props

/-- a returned `filter_candset` call keeps a candidate row iff `filter_pair` (total function `fpb`) does not drop the
    join values of the two table rows it references -/
theorem filterCandset_mem_iff_of_ok (a : CandsetArgs) (fp : Cell → Cell → Except PyErr Bool) (fpb : Cell → Cell → Bool)
    (hfp : ∀ x y b, fp x y = .ok b → b = fpb x y) (cpu : Int) (c l r fr : Frame)
    (hval : CandsetValid a c l r) (hres : filterCandset a fp cpu = .ok fr)
    (cr ls rs : Row) (hcr : cr ∈ c.rows) (hls : ls ∈ l.rows) (hrs : rs ∈ r.rows)
    (hkl : keyOf l a.lKey ls = cr.cell (c.colIdx a.candLKey)) (hkr : keyOf r a.rKey rs = cr.cell (c.colIdx a.candRKey)) :
    cr ∈ fr.rows ↔ fpb (valOf l a.lAttr ls) (valOf r a.rAttr rs) = false := by
  have hres' := filterCandset_ok_pure a fp fpb hfp cpu fr hres
  obtain ⟨fr', hfr', -, h⟩ := filterCandset_keeps a (fun x y => .ok (fpb x y)) fpb cpu c l r hval (fun _ _ _ _ => rfl)
  rw [hres'] at hfr'
  cases Except.ok.inj hfr'
  exact h cr hcr ls hls rs hrs hkl hkr

/-- … and has the candidate set's columns -/
theorem filterCandset_columns_of_ok (a : CandsetArgs) (fp : Cell → Cell → Except PyErr Bool) (fpb : Cell → Cell → Bool)
    (hfp : ∀ x y b, fp x y = .ok b → b = fpb x y) (cpu : Int) (c l r fr : Frame)
    (hval : CandsetValid a c l r) (hres : filterCandset a fp cpu = .ok fr) : fr.columns = c.columns := by
  have hres' := filterCandset_ok_pure a fp fpb hfp cpu fr hres
  obtain ⟨fr', hfr', hc, -⟩ := filterCandset_keeps a (fun x y => .ok (fpb x y)) fpb cpu c l r hval (fun _ _ _ _ => rfl)
  rw [hres'] at hfr'
  cases Except.ok.inj hfr'
  exact hc

/-- Size / Prefix / Position / SuffixFilter: a returned `filter_candset` keeps a candidate row iff `filterPair` does not
    drop its pair -/
theorem filterCandset_mem_iff_filter (k : FilterKind) (f : FilterObj) (tok : String → List Tok)
    (a : CandsetArgs) (cpu : Int) (c l r fr : Frame)
    (hval : CandsetValid a c l r) (hres : filterCandset a (filterPairPy k f tok) cpu = .ok fr)
    (cr ls rs : Row) (hcr : cr ∈ c.rows) (hls : ls ∈ l.rows) (hrs : rs ∈ r.rows)
    (hkl : keyOf l a.lKey ls = cr.cell (c.colIdx a.candLKey)) (hkr : keyOf r a.rKey rs = cr.cell (c.colIdx a.candRKey)) :
    cr ∈ fr.rows ↔ filterPair k f tok (valOf l a.lAttr ls) (valOf r a.rAttr rs) = false :=
  filterCandset_mem_iff_of_ok a _ _ (filterPairPy_ok_eq k f tok) cpu c l r fr hval hres cr ls rs hcr hls hrs hkl hkr

/-- OverlapFilter: a returned `filter_candset` keeps a candidate row iff `overlapFilterPair` does not drop its pair -/
theorem filterCandset_mem_iff_overlap (f : OverlapFilterObj) (tok : String → List Tok)
    (a : CandsetArgs) (cpu : Int) (c l r fr : Frame)
    (hval : CandsetValid a c l r) (hres : filterCandset a (overlapFilterPairPy f tok) cpu = .ok fr)
    (cr ls rs : Row) (hcr : cr ∈ c.rows) (hls : ls ∈ l.rows) (hrs : rs ∈ r.rows)
    (hkl : keyOf l a.lKey ls = cr.cell (c.colIdx a.candLKey)) (hkr : keyOf r a.rKey rs = cr.cell (c.colIdx a.candRKey)) :
    cr ∈ fr.rows ↔ overlapFilterPair f tok (valOf l a.lAttr ls) (valOf r a.rAttr rs) = false :=
  filterCandset_mem_iff_of_ok a _ _ (overlapFilterPairPy_ok_eq f tok) cpu c l r fr hval hres cr ls rs hcr hls hrs hkl hkr

/-- OverlapFilter on string filter columns: `filter_pair` never raises, so `filter_candset` returns (with the candidate
    set's columns) and keeps a row iff `overlapFilterPair` does not drop its pair -/
theorem filterCandset_keeps_overlap (f : OverlapFilterObj) (tok : String → List Tok) (a : CandsetArgs) (cpu : Int)
    (c l r : Frame) (hval : CandsetValid a c l r) (hsl : StrColumn l a.lAttr) (hsr : StrColumn r a.rAttr) :
    ∃ fr, filterCandset a (overlapFilterPairPy f tok) cpu = .ok fr ∧ fr.columns = c.columns ∧
      ∀ cr ∈ c.rows, ∀ ls ∈ l.rows, ∀ rs ∈ r.rows,
        keyOf l a.lKey ls = cr.cell (c.colIdx a.candLKey) → keyOf r a.rKey rs = cr.cell (c.colIdx a.candRKey) →
        (cr ∈ fr.rows ↔ overlapFilterPair f tok (valOf l a.lAttr ls) (valOf r a.rAttr rs) = false) :=
  filterCandset_keeps a _ _ cpu c l r hval (overlapFilterPairPy_columns f tok l r a.lAttr a.rAttr hsl hsr)

/-- the chunks of a candidate set of fewer than 2⁴⁰ rows concatenate to the candidate set, for every `n_jobs` and cpu
    count (the hypothesis `hchunks` of `filterCandset_rows` / `C08.filterCandset_missing`) -/
theorem candset_chunks_flatten (c : Frame) (nJobs cpu : Int) (hlen : c.rows.length < 2 ^ 40) :
    (chunksFor (candLabelled c) nJobs cpu).flatten = candLabelled c :=
  chunksFor_flatten _ _ _ (by rw [candLabelled_length]; exact hlen)

end EntryFilters
end SSJ

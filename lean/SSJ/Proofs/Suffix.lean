/-
  SSJ.Proofs.Suffix — the suffix filter (`filter/suffix_filter.py`) never drops a pair whose
  overlap reaches the required overlap (C04 for SuffixFilter).
  §1–6: the estimator on duplicate-free (strictly ascending) lists, `suffixFilterSuffix_safe`.
  §6b: `_number_repeated_tokens` (`numberRepeated`, the repair of finding F8, commit 113c284): on ascending lists WITH
  repetitions the numbered lists are strictly ascending sets with the bag overlap; `suffixFilterSuffix_numbered_safe`,
  `suffixFilterSuffixN_safe_bag` (EDIT_DISTANCE, bags), `suffixFilterSuffixN_safe` (duplicate-free lists, any measure).
  §7–8: `filter_pair`, `_filter_tables_split` (which call `suffixFilterSuffixN`).
-/
import SSJ.Model.Filters
import SSJ.Proofs.TokenOrdering
import SSJ.Proofs.Position
import Mathlib.Data.List.Basic
import Mathlib.Data.List.GetD
import Mathlib.Data.List.Nodup
import Mathlib.Data.List.Count
import Mathlib.Data.List.Perm.Subperm
import Mathlib.Tactic.Linarith
import Mathlib.Tactic.Ring
import Mathlib.Tactic.NormNum
import Mathlib.Tactic.Push

namespace SSJ

set_option linter.unusedSimpArgs false

/-! ### 1. Hamming distance of duplicate-free lists -/

/-- Hamming distance between two duplicate-free lists = size of the symmetric difference -/
def hamming (x y : List Nat) : Nat :=
  (x.filter (fun t => decide (t ∉ y))).length + (y.filter (fun t => decide (t ∉ x))).length

theorem length_filter_mem_add (x y : List Nat) :
    (x.filter (fun t => decide (t ∉ y))).length + commonCount x y = x.length := by
  unfold commonCount
  have := List.length_eq_length_filter_add (l := x) (fun t => decide (t ∈ y))
  have e : x.filter (fun t => decide (t ∉ y)) = x.filter (fun t => !decide (t ∈ y)) := by
    apply List.filter_congr; intro t _; simp
  rw [e]; omega

theorem commonCount_comm (x y : List Nat) (hx : x.Nodup) (hy : y.Nodup) :
    commonCount x y = commonCount y x := by
  unfold commonCount
  apply List.Perm.length_eq
  rw [List.perm_ext_iff_of_nodup (hx.filter _) (hy.filter _)]
  intro t
  simp only [List.mem_filter, decide_eq_true_eq]
  tauto

theorem hamming_eq (x y : List Nat) (hx : x.Nodup) (hy : y.Nodup) :
    hamming x y + 2 * commonCount x y = x.length + y.length := by
  have h1 := length_filter_mem_add x y
  have h2 := length_filter_mem_add y x
  have h3 := commonCount_comm x y hx hy
  unfold hamming
  omega

theorem hamming_comm (x y : List Nat) : hamming x y = hamming y x := by
  unfold hamming; omega

/-- `hamming u v ≥ | |u| − |v| |` -/
theorem hamming_ge (x y : List Nat) (hx : x.Nodup) (hy : y.Nodup) :
    (x.length : Int) - y.length ≤ hamming x y ∧ (y.length : Int) - x.length ≤ hamming x y := by
  have h := hamming_eq x y hx hy
  have h1 := commonCount_le_left x y
  have h2 := commonCount_le_right x y hx
  omega

/-- splitting a filter count at a pivot -/
theorem length_filter_split3 (l : List Nat) (p : Nat → Bool) (w : Nat) :
    (l.filter p).length =
      ((l.filter (· < w)).filter p).length + ((l.filter (fun t => decide (t = w))).filter p).length +
        ((l.filter (· > w)).filter p).length := by
  induction l with
  | nil => simp
  | cons a l ih =>
    rcases Nat.lt_trichotomy a w with h | h | h
    · have h1 : ¬ a = w := by omega
      have h2 : ¬ a > w := by omega
      simp only [List.filter_cons, h, h1, h2, decide_true, decide_false, if_true, Bool.false_eq_true, if_false]
      cases hp : p a <;> simp only [List.filter_cons, hp, List.length_cons, if_true, Bool.false_eq_true, if_false] <;> omega
    · subst h
      have h1 : ¬ a < a := by omega
      have h2 : ¬ a > a := by omega
      simp only [List.filter_cons, h1, h2, decide_true, decide_false, if_true, Bool.false_eq_true, if_false]
      cases hp : p a <;> simp only [List.filter_cons, hp, List.length_cons, if_true, Bool.false_eq_true, if_false] <;> omega
    · have h1 : ¬ a < w := by omega
      have h2 : ¬ a = w := by omega
      simp only [List.filter_cons, h, h1, h2, decide_true, decide_false, if_true, Bool.false_eq_true, if_false]
      cases hp : p a <;> simp only [List.filter_cons, hp, List.length_cons, if_true, Bool.false_eq_true, if_false] <;> omega

theorem length_filter_eq_pivot (r : List Nat) (hr : r.Nodup) (w : Nat) :
    (r.filter (fun t => decide (t = w))).length = if w ∈ r then 1 else 0 := by
  induction r with
  | nil => simp
  | cons a r ih =>
    have hnd := List.nodup_cons.mp hr
    by_cases h : a = w
    · subst h
      have : (r.filter (fun t => decide (t = a))) = [] := by
        rw [List.filter_eq_nil_iff]
        intro t ht
        simp only [decide_eq_true_eq]
        rintro rfl
        exact hnd.1 ht
      simp [List.filter_cons, this]
    · have h' : ¬ w = a := fun e => h e.symm
      simp only [List.filter_cons, h, decide_false, List.mem_cons, h', false_or]
      simpa using ih hnd.2

/-- the sizes of the three parts of a duplicate-free list around a pivot -/
theorem length_split3 (l : List Nat) (hl : l.Nodup) (w : Nat) :
    l.length = (l.filter (· < w)).length + (if w ∈ l then 1 else 0) + (l.filter (· > w)).length := by
  have := length_filter_split3 l (fun _ => true) w
  simp only [List.filter_true] at this
  rw [length_filter_eq_pivot l hl w] at this
  exact this

/-- `H = hamming xl yl + hamming xr yr + [w ∉ l]` for a pivot `w ∈ r` -/
theorem hamming_split (l r : List Nat) (hr : r.Nodup) (w : Nat) (hw : w ∈ r) :
    hamming l r = hamming (l.filter (· < w)) (r.filter (· < w)) +
      hamming (l.filter (· > w)) (r.filter (· > w)) + (if w ∈ l then 0 else 1) := by
  unfold hamming
  rw [length_filter_split3 l _ w, length_filter_split3 r _ w]
  have e1 : ∀ (a b : List Nat), (a.filter (· < w)).filter (fun t => decide (t ∉ b)) =
      (a.filter (· < w)).filter (fun t => decide (t ∉ b.filter (· < w))) := by
    intro a b
    apply List.filter_congr
    intro t ht
    have := (List.mem_filter.1 ht).2
    simp only [decide_eq_true_eq] at this
    simp [List.mem_filter, this]
  have e2 : ∀ (a b : List Nat), (a.filter (· > w)).filter (fun t => decide (t ∉ b)) =
      (a.filter (· > w)).filter (fun t => decide (t ∉ b.filter (· > w))) := by
    intro a b
    apply List.filter_congr
    intro t ht
    have := (List.mem_filter.1 ht).2
    simp only [decide_eq_true_eq] at this
    simp [List.mem_filter, this]
  have e3 : (l.filter (fun t => decide (t = w))).filter (fun t => decide (t ∉ r)) = [] := by
    rw [List.filter_eq_nil_iff]
    intro t ht
    have := (List.mem_filter.1 ht).2
    simp only [decide_eq_true_eq] at this
    subst this
    simpa using hw
  have e4 : ((r.filter (fun t => decide (t = w))).filter (fun t => decide (t ∉ l))).length =
      if w ∈ l then 0 else 1 := by
    by_cases hwl : w ∈ l
    · rw [if_pos hwl]
      have : (r.filter (fun t => decide (t = w))).filter (fun t => decide (t ∉ l)) = [] := by
        rw [List.filter_eq_nil_iff]
        intro t ht
        have := (List.mem_filter.1 ht).2
        simp only [decide_eq_true_eq] at this
        subst this
        simpa using hwl
      rw [this]; rfl
    · rw [if_neg hwl]
      have : (r.filter (fun t => decide (t = w))).filter (fun t => decide (t ∉ l)) =
          r.filter (fun t => decide (t = w)) := by
        rw [List.filter_eq_self]
        intro t ht
        have := (List.mem_filter.1 ht).2
        simp only [decide_eq_true_eq] at this
        subst this
        simpa using hwl
      rw [this, length_filter_eq_pivot r hr w, if_pos hw]
  rw [e1 l r, e2 l r, e1 r l, e2 r l, e3, e4]
  simp only [List.length_nil]
  omega

/-! ### 2. Positions in strictly sorted lists -/

theorem getD_lt_of_sorted (l : List Nat) (hl : l.Pairwise (· < ·)) (i j : Nat) (hij : i < j)
    (hj : j < l.length) : l.getD i 0 < l.getD j 0 := by
  rw [List.getD_eq_getElem _ _ (show i < l.length by omega), List.getD_eq_getElem _ _ hj]
  exact List.pairwise_iff_getElem.1 hl i j (by omega) hj hij

theorem getD_le_of_sorted (l : List Nat) (hl : l.Pairwise (· < ·)) (i j : Nat) (hij : i ≤ j)
    (hj : j < l.length) : l.getD i 0 ≤ l.getD j 0 := by
  rcases Nat.eq_or_lt_of_le hij with h | h
  · subst h; exact le_refl _
  · exact Nat.le_of_lt (getD_lt_of_sorted l hl i j h hj)

theorem getD_mem (l : List Nat) (i : Nat) (hi : i < l.length) : l.getD i 0 ∈ l := by
  rw [List.getD_eq_getElem _ _ hi]; exact List.getElem_mem _

theorem exists_getD_of_mem (l : List Nat) (w : Nat) (h : w ∈ l) :
    ∃ j, j < l.length ∧ l.getD j 0 = w := by
  obtain ⟨j, hj, e⟩ := List.getElem_of_mem h
  exact ⟨j, hj, by rw [List.getD_eq_getElem _ _ hj]; exact e⟩

theorem mem_take_getD (l : List Nat) (k a : Nat) (h : a ∈ l.take k) :
    ∃ i, i < k ∧ i < l.length ∧ l.getD i 0 = a := by
  obtain ⟨j, hj, e⟩ := List.mem_take_iff_getElem.1 h
  have hj' : j < l.length := by omega
  exact ⟨j, by omega, hj', by rw [List.getD_eq_getElem _ _ hj']; exact e⟩

theorem mem_drop_getD (l : List Nat) (k a : Nat) (h : a ∈ l.drop k) :
    ∃ j, k ≤ j ∧ j < l.length ∧ l.getD j 0 = a := by
  obtain ⟨j, hj, e⟩ := List.mem_drop_iff_getElem.1 h
  have hj' : k + j < l.length := by omega
  exact ⟨k + j, by omega, hj', by rw [List.getD_eq_getElem _ _ hj']; exact e⟩

/-- a strictly sorted list splits at any position `k` which separates the tokens `< w` from
    the tokens `≥ w` -/
theorem sorted_split (l : List Nat) (hl : l.Pairwise (· < ·)) (w k : Nat) (hk : k ≤ l.length)
    (h1 : ∀ i, i < k → l.getD i 0 < w) (h2 : k < l.length → w ≤ l.getD k 0) :
    l.filter (· < w) = l.take k ∧
    ((k < l.length ∧ l.getD k 0 = w) → l.filter (· > w) = l.drop (k + 1) ∧ w ∈ l) ∧
    (¬ (k < l.length ∧ l.getD k 0 = w) → l.filter (· > w) = l.drop k ∧ w ∉ l) := by
  have hA : ∀ a ∈ l.take k, a < w := by
    intro a ha
    obtain ⟨i, hik, _, e⟩ := mem_take_getD l k a ha
    exact e ▸ h1 i hik
  have hB : ∀ a ∈ l.drop k, w ≤ a := by
    intro a ha
    obtain ⟨j, hkj, hj, e⟩ := mem_drop_getD l k a ha
    have := getD_le_of_sorted l hl k j hkj hj
    have := h2 (by omega)
    omega
  have hsplit : l = l.take k ++ l.drop k := (List.take_append_drop k l).symm
  have hT : (l.take k).filter (· > w) = [] := by
    rw [List.filter_eq_nil_iff]
    intro a ha
    have := hA a ha
    simp only [decide_eq_true_eq]; omega
  refine ⟨?_, ?_, ?_⟩
  · conv_lhs => rw [hsplit]
    rw [List.filter_append]
    have e1 : (l.take k).filter (· < w) = l.take k := by
      rw [List.filter_eq_self]
      intro a ha
      simpa using hA a ha
    have e2 : (l.drop k).filter (· < w) = [] := by
      rw [List.filter_eq_nil_iff]
      intro a ha
      have := hB a ha
      simp only [decide_eq_true_eq]; omega
    rw [e1, e2, List.append_nil]
  · rintro ⟨hkl, hkw⟩
    refine ⟨?_, hkw ▸ getD_mem l k hkl⟩
    conv_lhs => rw [hsplit]
    rw [List.filter_append, hT, List.nil_append, List.drop_eq_getElem_cons hkl]
    have hk' : l[k] = w := by rw [← List.getD_eq_getElem l 0 hkl]; exact hkw
    rw [List.filter_cons, hk']
    simp only [gt_iff_lt, lt_self_iff_false, decide_false, Bool.false_eq_true, if_false]
    rw [List.filter_eq_self]
    intro a ha
    obtain ⟨j, hkj, hj, e⟩ := mem_drop_getD l (k + 1) a ha
    have := getD_lt_of_sorted l hl k j (by omega) hj
    simp only [decide_eq_true_eq]; omega
  · intro hne
    have hC : ∀ a ∈ l.drop k, w < a := by
      intro a ha
      obtain ⟨j, hkj, hj, e⟩ := mem_drop_getD l k a ha
      have hkl : k < l.length := by omega
      have h3 := h2 hkl
      have h4 : l.getD k 0 ≠ w := fun e => hne ⟨hkl, e⟩
      have := getD_le_of_sorted l hl k j hkj hj
      omega
    constructor
    · conv_lhs => rw [hsplit]
      rw [List.filter_append, hT, List.nil_append, List.filter_eq_self]
      intro a ha
      simpa using hC a ha
    · intro hw
      rw [hsplit, List.mem_append] at hw
      rcases hw with hw | hw
      · have := hA w hw; omega
      · have := hC w hw; omega

/-- in a strictly sorted list the tokens below `w` are exactly those at the positions below
    `p = |{t < w}|` -/
theorem sorted_lt_iff (l : List Nat) (hl : l.Pairwise (· < ·)) (w : Nat) :
    ∀ i, i < l.length → (l.getD i 0 < w ↔ i < (l.filter (· < w)).length) := by
  induction l with
  | nil => intro i hi; simp at hi
  | cons a t ih =>
    have hl' := List.pairwise_cons.1 hl
    have hnil : ¬ a < w → t.filter (· < w) = [] := by
      intro h
      rw [List.filter_eq_nil_iff]
      intro b hb
      have := hl'.1 b hb
      simp only [decide_eq_true_eq]; omega
    intro i hi
    by_cases haw : a < w
    · rw [List.filter_cons_of_pos (by simpa using haw)]
      cases i with
      | zero => simp [haw]
      | succ j =>
        simp only [List.getD_cons_succ, List.length_cons, Nat.add_lt_add_iff_right]
        exact ih hl'.2 j (by simpa using hi)
    · rw [List.filter_cons_of_neg (by simpa using haw), hnil haw]
      cases i with
      | zero => simp [haw]
      | succ j =>
        simp only [List.getD_cons_succ, List.length_nil, Nat.not_lt_zero, iff_false]
        have : t.getD j 0 ∈ t := getD_mem t j (by simpa using hi)
        have := hl'.1 _ this
        omega

theorem sorted_getD_pivot (l : List Nat) (hl : l.Pairwise (· < ·)) (w : Nat) (hw : w ∈ l) :
    (l.filter (· < w)).length < l.length ∧ l.getD (l.filter (· < w)).length 0 = w := by
  obtain ⟨j, hj, e⟩ := exists_getD_of_mem l w hw
  have h1 := (sorted_lt_iff l hl w j hj)
  have hjp : ¬ j < (l.filter (· < w)).length := by
    intro h; have := h1.2 h; omega
  have hpj : ¬ (l.filter (· < w)).length < j := by
    intro h
    have h2 := getD_lt_of_sorted l hl _ j h hj
    rw [e] at h2
    have h3 := (sorted_lt_iff l hl w _ (by omega)).1 h2
    omega
  have : j = (l.filter (· < w)).length := by omega
  rw [← this]; exact ⟨hj, e⟩

/-! ### 3. `_binary_search` and `_partition` -/

theorem floor_half (n : Int) : ((n : Rat) / 2).floor = n / 2 := by
  apply le_antisymm
  · have : ((n : Rat) / 2).floor < n / 2 + 1 := by
      rw [Rat.floor_lt_iff]
      have h : n < 2 * (n / 2 + 1) := by omega
      have h' : (n : Rat) < 2 * ((n / 2 + 1 : Int) : Rat) := by exact_mod_cast h
      linarith
    omega
  · rw [Rat.le_floor_iff]
    have h : 2 * (n / 2) ≤ n := by omega
    have h' : 2 * ((n / 2 : Int) : Rat) ≤ (n : Rat) := by exact_mod_cast h
    linarith

/-- `_binary_search` returns the first position of the window whose token is `≥ w` -/
theorem suffixBinarySearch_spec (l : List Nat) (hl : l.Pairwise (· < ·)) (w : Nat) :
    ∀ (fuel a b : Nat), a ≤ b → b < l.length → b - a < fuel →
      (∀ i, i < a → l.getD i 0 < w) → w ≤ l.getD b 0 →
      ∃ k : Nat, suffixBinarySearch l w fuel (a : Int) (b : Int) = (k : Int) ∧ a ≤ k ∧ k ≤ b ∧
        (∀ i, i < k → l.getD i 0 < w) ∧ w ≤ l.getD k 0 := by
  intro fuel
  induction fuel with
  | zero => intro a b _ _ h; omega
  | succ fuel ih =>
    intro a b hab hb hf h1 h2
    unfold suffixBinarySearch
    by_cases hab' : (a : Int) = (b : Int)
    · rw [if_pos hab']
      have : a = b := by omega
      exact ⟨a, rfl, le_refl _, hab, h1, by rw [this]; exact h2⟩
    · rw [if_neg hab']
      have hmid : ((((a : Int) + (b : Int) : Int) : Rat) / 2).floor = (((a + b) / 2 : Nat) : Int) := by
        rw [floor_half]; omega
      simp only [hmid, Int.toNat_natCast]
      have hm1 : a ≤ (a + b) / 2 := by omega
      have hm2 : (a + b) / 2 < b := by omega
      generalize (a + b) / 2 = m at hm1 hm2
      by_cases e : l.getD m 0 = w
      · rw [if_pos e]
        exact ⟨m, rfl, hm1, by omega,
          fun i hi => by rw [← e]; exact getD_lt_of_sorted l hl i m hi (by omega), by omega⟩
      · rw [if_neg e]
        by_cases lt : l.getD m 0 < w
        · rw [if_pos lt]
          obtain ⟨k, hk, hk1, hk2, hk3, hk4⟩ := ih (m + 1) b (by omega) hb (by omega)
            (fun i hi => by
              have := getD_le_of_sorted l hl i m (by omega) (by omega)
              omega) h2
          have hc : ((m : Int) + 1) = ((m + 1 : Nat) : Int) := by push_cast; rfl
          rw [hc]
          exact ⟨k, hk, by omega, hk2, hk3, hk4⟩
        · rw [if_neg lt]
          obtain ⟨k, hk, hk1, hk2, hk3, hk4⟩ := ih a m hm1 (by omega) (by omega) h1 (by omega)
          exact ⟨k, hk, hk1, by omega, hk3, hk4⟩

/-- partition is correct whenever it reports success: left part = elements < w, right part =
    elements > w, diff = 0 iff w ∈ tokens -/
theorem suffixPartition_ok (tokens : List Nat) (ht : tokens.Pairwise (· < ·)) (w : Nat)
    (left right : Int) (hl0 : 0 ≤ left) (tl tr : List Nat) (diff : Int)
    (h : suffixPartition tokens w left right = (tl, tr, 1, diff)) :
    tl = tokens.filter (· < w) ∧ tr = tokens.filter (· > w) ∧
      (diff = if w ∈ tokens then 0 else 1) := by
  unfold suffixPartition at h
  generalize hr' : min right ((tokens.length : Int) - 1) = right' at h
  simp only at h
  by_cases c1 : right' < left
  · rw [if_pos c1] at h; simp at h
  rw [if_neg c1] at h
  obtain ⟨a, rfl⟩ : ∃ a : Nat, left = a := ⟨left.toNat, by omega⟩
  obtain ⟨b, rfl⟩ : ∃ b : Nat, right' = b := ⟨right'.toNat, by omega⟩
  simp only [Int.toNat_natCast] at h
  have hab : a ≤ b := by omega
  have hb : b < tokens.length := by omega
  by_cases c2 : tokens.getD a 0 > w
  · rw [if_pos c2] at h
    by_cases c3 : (a : Int) = 0
    · rw [if_pos c3] at h
      simp only [Prod.mk.injEq] at h
      obtain ⟨rfl, rfl, _, rfl⟩ := h
      have a0 : a = 0 := by omega
      subst a0
      obtain ⟨s1, _, s3⟩ := sorted_split tokens ht w 0 (by omega) (by intro i hi; omega)
        (fun _ => by omega)
      have hne : ¬ (0 < tokens.length ∧ tokens.getD 0 0 = w) := by rintro ⟨_, e⟩; omega
      obtain ⟨s4, s5⟩ := s3 hne
      exact ⟨by rw [s1]; rfl, by rw [s4]; rfl, by rw [if_neg s5]⟩
    · rw [if_neg c3] at h; simp at h
  rw [if_neg c2] at h
  by_cases c4 : tokens.getD b 0 < w
  · rw [if_pos c4] at h
    by_cases c5 : (b : Int) = (tokens.length : Int) - 1
    · rw [if_pos c5] at h
      simp only [Prod.mk.injEq] at h
      obtain ⟨rfl, rfl, _, rfl⟩ := h
      obtain ⟨s1, _, s3⟩ := sorted_split tokens ht w tokens.length (le_refl _)
        (by
          intro i hi
          have := getD_le_of_sorted tokens ht i b (by omega) hb
          omega)
        (fun h => by omega)
      obtain ⟨s4, s5⟩ := s3 (by rintro ⟨h, _⟩; omega)
      exact ⟨by rw [s1, List.take_length], by rw [s4, List.drop_length], by rw [if_neg s5]⟩
    · rw [if_neg c5] at h; simp at h
  rw [if_neg c4] at h
  obtain ⟨k, hk, hk1, hk2, hk3, hk4⟩ := suffixBinarySearch_spec tokens ht w
    ((b : Int) - (a : Int) + 2).toNat a b hab hb (by omega)
    (by
      intro i hi
      have := getD_lt_of_sorted tokens ht i a hi (by omega)
      omega)
    (by omega)
  rw [hk] at h
  simp only [Int.toNat_natCast] at h
  obtain ⟨s1, s2, s3⟩ := sorted_split tokens ht w k (by omega) hk3 (fun _ => hk4)
  by_cases c6 : tokens.getD k 0 = w
  · rw [if_pos c6] at h
    simp only [Prod.mk.injEq] at h
    obtain ⟨rfl, rfl, _, rfl⟩ := h
    obtain ⟨s4, s5⟩ := s2 ⟨by omega, c6⟩
    exact ⟨s1.symm, s4.symm, by rw [if_pos s5]⟩
  · rw [if_neg c6] at h
    simp only [Prod.mk.injEq] at h
    obtain ⟨rfl, rfl, _, rfl⟩ := h
    obtain ⟨s4, s5⟩ := s3 (fun hh => c6 hh.2)
    exact ⟨s1.symm, s4.symm, by rw [if_neg s5]⟩

theorem suffixPartition_flag (tokens : List Nat) (w : Nat) (left right : Int) :
    (suffixPartition tokens w left right).2.2.1 = 0 ∨
      (suffixPartition tokens w left right).2.2.1 = 1 := by
  unfold suffixPartition
  simp only
  split_ifs <;> simp

/-- the partition of the right list around its own token at `mid` -/
theorem suffixPartition_self (r : List Nat) (m : Nat) (hm : m < r.length) :
    ∃ tl tr, suffixPartition r (r.getD m 0) (m : Int) (m : Int) = (tl, tr, 1, 0) := by
  unfold suffixPartition
  have h1 : min (m : Int) ((r.length : Int) - 1) = (m : Int) := by omega
  simp only [h1, lt_self_iff_false, if_false, Int.toNat_natCast, gt_iff_lt]
  cases hfuel : ((m : Int) - (m : Int) + 2).toNat with
  | zero => omega
  | succ f =>
    simp only [suffixBinarySearch, if_true, Int.toNat_natCast]
    exact ⟨_, _, rfl⟩

/-- SUCCESS of the partition of the left list: if the insertion position `p` of `w` lies inside the
    window (by one more on the left when `w ∉ tokens`) the partition does not fail -/
theorem suffixPartition_flag1 (tokens : List Nat) (ht : tokens.Pairwise (· < ·)) (w : Nat)
    (left right : Int) (hl0 : 0 ≤ left) (hlr : left ≤ right) (hrn : right ≤ (tokens.length : Int) - 1)
    (hlo : left = 0 ∨
      left + (if w ∈ tokens then 0 else 1) ≤ ((tokens.filter (· < w)).length : Int))
    (hhi : right = (tokens.length : Int) - 1 ∨ ((tokens.filter (· < w)).length : Int) ≤ right) :
    (suffixPartition tokens w left right).2.2.1 = 1 := by
  unfold suffixPartition
  have h1 : min right ((tokens.length : Int) - 1) = right := by omega
  simp only [h1]
  rw [if_neg (by omega)]
  obtain ⟨a, rfl⟩ : ∃ a : Nat, left = a := ⟨left.toNat, by omega⟩
  obtain ⟨b, rfl⟩ : ∃ b : Nat, right = b := ⟨right.toNat, by omega⟩
  simp only [Int.toNat_natCast]
  have hb : b < tokens.length := by omega
  have hiff := sorted_lt_iff tokens ht w
  by_cases c2 : tokens.getD a 0 > w
  · rw [if_pos c2]
    by_cases c3 : (a : Int) = 0
    · rw [if_pos c3]
    · exfalso
      have hp : ¬ a < (tokens.filter (· < w)).length := by
        intro h; have := (hiff a (by omega)).2 h; omega
      rcases hlo with h | h
      · exact c3 h
      · by_cases hw : w ∈ tokens
        · rw [if_pos hw] at h
          have hpiv := (sorted_getD_pivot tokens ht w hw).2
          have : a = (tokens.filter (· < w)).length := by omega
          rw [← this] at hpiv
          omega
        · rw [if_neg hw] at h; omega
  rw [if_neg c2]
  by_cases c4 : tokens.getD b 0 < w
  · rw [if_pos c4]
    by_cases c5 : (b : Int) = (tokens.length : Int) - 1
    · rw [if_pos c5]
    · exfalso
      have := (hiff b hb).1 c4
      rcases hhi with h | h
      · exact c5 h
      · omega
  rw [if_neg c4]
  split_ifs <;> rfl

/-! ### 4. The search window -/

theorem le_truncRat (n : Int) (x : Rat) (h : (n : Rat) ≤ x) : n ≤ truncRat x := by
  unfold truncRat
  split
  · exact Rat.le_floor_iff.2 h
  · have h1 : x ≤ (x.ceil : Rat) := Rat.le_ceil
    have : (n : Rat) ≤ (x.ceil : Rat) := le_trans h h1
    exact_mod_cast this

theorem truncRat_le (n : Int) (x : Rat) (h : x ≤ (n : Rat)) : truncRat x ≤ n := by
  unfold truncRat
  split
  · have h1 := Rat.floor_le x
    have : (x.floor : Rat) ≤ (n : Rat) := le_trans h1 h
    exact_mod_cast this
  · exact Rat.ceil_le_iff.2 h

theorem intAbs_cases (x : Int) : (0 ≤ x ∧ intAbs x = x) ∨ (x < 0 ∧ intAbs x = -x) := by
  unfold intAbs; split <;> omega

/-- THE WINDOW LEMMA: if the lower bound `| |xl|−|yl| | + | |xr|−|yr| | + diff` of the Hamming
    distance is within the budget, the insertion position `p` of the pivot in the left list lies
    inside the (truncated) search window, and even one further from its left end when the pivot is
    missing (`diff = 1`). -/
theorem window_ok (ln rn mid hmax p diff A oL oR : Int)
    (hA : A = intAbs (ln - rn))
    (hO : (ln < rn ∧ oL = 1 ∧ oR = 0) ∨ (¬ ln < rn ∧ oL = 0 ∧ oR = 1))
    (hH : intAbs (p - mid) + intAbs ((ln - p - (1 - diff)) - (rn - mid - 1)) + diff ≤ hmax) :
    truncRat ((mid : Rat) - ((hmax - A : Int) : Rat) / 2 - ((A * oL : Int) : Rat)) + diff ≤ p ∧
    p ≤ truncRat ((mid : Rat) + ((hmax - A : Int) : Rat) / 2 + ((A * oR : Int) : Rat)) := by
  have i1 : 2 * mid - (hmax - A) - 2 * (A * oL) + 2 * diff ≤ 2 * p ∧
      2 * p ≤ 2 * mid + (hmax - A) + 2 * (A * oR) := by
    rcases intAbs_cases (ln - rn) with ⟨_, e1⟩ | ⟨_, e1⟩ <;>
    rcases intAbs_cases (p - mid) with ⟨_, e2⟩ | ⟨_, e2⟩ <;>
    rcases intAbs_cases ((ln - p - (1 - diff)) - (rn - mid - 1)) with ⟨_, e3⟩ | ⟨_, e3⟩ <;>
    rcases hO with ⟨_, rfl, rfl⟩ | ⟨_, rfl, rfl⟩ <;>
    simp only [mul_one, mul_zero] <;> omega
  constructor
  · have : truncRat ((mid : Rat) - ((hmax - A : Int) : Rat) / 2 - ((A * oL : Int) : Rat)) ≤
        p - diff := by
      apply truncRat_le
      have h : ((2 * mid - (hmax - A) - 2 * (A * oL) + 2 * diff : Int) : Rat) ≤ ((2 * p : Int) : Rat) := by
        exact_mod_cast i1.1
      push_cast at h ⊢
      linarith
    omega
  · apply le_truncRat
    have h : ((2 * p : Int) : Rat) ≤ ((2 * mid + (hmax - A) + 2 * (A * oR) : Int) : Rat) := by
      exact_mod_cast i1.2
    push_cast at h ⊢
    linarith

/-! ### 5. Soundness of the estimator -/

theorem hamming_ge_intAbs (x y : List Nat) (hx : x.Nodup) (hy : y.Nodup) :
    intAbs ((x.length : Int) - y.length) ≤ hamming x y := by
  have := hamming_ge x y hx hy
  rcases intAbs_cases ((x.length : Int) - y.length) with ⟨_, e⟩ | ⟨_, e⟩ <;> omega

theorem pivot_position (r : List Nat) (hr : r.Pairwise (· < ·)) (m : Nat) (hm : m < r.length) :
    (r.filter (· < r.getD m 0)).length = m := by
  obtain ⟨h1, h2⟩ := sorted_getD_pivot r hr (r.getD m 0) (getD_mem r m hm)
  rcases Nat.lt_trichotomy (r.filter (· < r.getD m 0)).length m with h | h | h
  · have := getD_lt_of_sorted r hr _ m h hm; omega
  · exact h
  · have := getD_lt_of_sorted r hr m _ h h1; omega

/-- ESTIMATOR SOUNDNESS: whatever it returns, `min(result, hmax+1)` never exceeds the true Hamming
    distance -/
theorem suffixEstHamming_sound (maxDepth : Nat) (fuel : Nat) (l r : List Nat) (hl : l.Pairwise (· < ·)) (hr : r.Pairwise (· < ·))
    (hmax : Int) (depth : Nat) :
    min (suffixEstHamming maxDepth fuel l r l.length r.length hmax depth) (hmax + 1) ≤ (hamming l r : Int) := by
  induction fuel generalizing l r hmax depth with
  | zero =>
    rw [suffixEstHamming]
    have := hamming_ge_intAbs l r hl.nodup hr.nodup
    exact le_trans (min_le_left _ _) this
  | succ fuel ih =>
    have hbase := hamming_ge_intAbs l r hl.nodup hr.nodup
    rw [suffixEstHamming]
    by_cases c1 : (decide (depth > maxDepth) || decide ((l.length : Int) = 0) || decide ((r.length : Int) = 0)) = true
    · rw [if_pos c1]; exact le_trans (min_le_left _ _) hbase
    rw [if_neg c1]
    simp only [Bool.or_eq_true, decide_eq_true_eq, not_or] at c1
    obtain ⟨⟨_, hl0⟩, hr0⟩ := c1
    by_cases c2 : (decide ((l.length : Int) = 1) && decide ((r.length : Int) = 1)) = true
    · rw [if_pos c2]
      simp only [Bool.and_eq_true, decide_eq_true_eq] at c2
      obtain ⟨a, rfl⟩ := List.length_eq_one_iff.1 (by omega : l.length = 1)
      obtain ⟨b, rfl⟩ := List.length_eq_one_iff.1 (by omega : r.length = 1)
      simp only [List.getD_cons_zero]
      by_cases hab : a = b
      · rw [if_pos hab]; exact le_trans (min_le_left _ _) (by omega)
      · rw [if_neg hab]
        have : hamming [a] [b] = 2 := by simp [hamming, hab, Ne.symm hab]
        rw [this]; exact le_trans (min_le_left _ _) (by norm_num)
    rw [if_neg c2]
    simp only [Bool.and_eq_true, decide_eq_true_eq, not_and] at c2
    have hmid : ((((r.length : Nat) : Int) : Rat) / 2).floor = ((r.length / 2 : Nat) : Int) := by
      rw [floor_half]; omega
    generalize hO : (if (l.length : Int) < (r.length : Int) then ((1 : Int), (0 : Int)) else (0, 1)) = O
    obtain ⟨oL, oR⟩ := O
    have hO' : ((l.length : Int) < r.length ∧ oL = 1 ∧ oR = 0) ∨ (¬ (l.length : Int) < r.length ∧ oL = 0 ∧ oR = 1) := by
      split at hO <;> simp only [Prod.mk.injEq] at hO <;> omega
    have hmlt : r.length / 2 < r.length := by omega
    obtain ⟨yl, yr, hyp⟩ := suffixPartition_self r (r.length / 2) hmlt
    obtain ⟨hyl, hyr, _⟩ := suffixPartition_ok r hr _ _ _ (by omega) _ _ _ hyp
    simp only [hmid, Int.toNat_natCast, hyp]
    have hwr : r.getD (r.length / 2) 0 ∈ r := getD_mem r _ hmlt
    have hylen : yl.length = r.length / 2 := by rw [hyl]; exact pivot_position r hr _ hmlt
    generalize r.getD (r.length / 2) 0 = w at *
    have hrlen := length_split3 r hr.nodup w
    rw [if_pos hwr, ← hyl, ← hyr] at hrlen
    have hllen := length_split3 l hl.nodup w
    have hsplit := hamming_split l r hr.nodup w hwr
    rw [← hyl, ← hyr] at hsplit
    obtain ⟨d, e, hde, hdN, heN, hdI⟩ : ∃ d e : Nat, d + e = 1 ∧ (if w ∈ l then 0 else 1 : Nat) = d ∧
        (if w ∈ l then 1 else 0 : Nat) = e ∧ (if w ∈ l then (0 : Int) else 1) = (d : Int) := by
      by_cases h : w ∈ l
      · exact ⟨0, 1, rfl, by simp [h], by simp [h], by simp [h]⟩
      · exact ⟨1, 0, rfl, by simp [h], by simp [h], by simp [h]⟩
    rw [hdN] at hsplit
    rw [heN] at hllen
    have hylS : yl.Pairwise (· < ·) := hyl ▸ hr.filter _
    have hyrS : yr.Pairwise (· < ·) := hyr ▸ hr.filter _
    have hxlS : (l.filter (· < w)).Pairwise (· < ·) := hl.filter _
    have hxrS : (l.filter (· > w)).Pairwise (· < ·) := hl.filter _
    have H1ge := hamming_ge_intAbs _ _ hxlS.nodup hylS.nodup
    have H2ge := hamming_ge_intAbs _ _ hxrS.nodup hyrS.nodup
    have hwin : (hamming l r : Int) ≤ hmax → _ := fun hH =>
      window_ok l.length r.length ((r.length / 2 : Nat) : Int) hmax (l.filter (· < w)).length d
        (intAbs ((l.length : Int) - r.length)) oL oR rfl hO' (by
          have e1 : ((l.filter (· < w)).length : Int) - ((r.length / 2 : Nat) : Int) =
              ((l.filter (· < w)).length : Int) - (yl.length : Int) := by omega
          have e2 : ((l.length : Int) - ((l.filter (· < w)).length : Int) - (1 - (d : Int))) -
              ((r.length : Int) - ((r.length / 2 : Nat) : Int) - 1) =
              ((l.filter (· > w)).length : Int) - (yr.length : Int) := by omega
          rw [e1, e2]
          omega)
    generalize truncRat (_ - _ - _ : Rat) = tlo at hwin ⊢
    generalize truncRat (_ + _ + _ : Rat) = thi at hwin ⊢
    have hflag := suffixPartition_flag l w (max 0 tlo) (min ((l.length : Int) - 1) thi)
    have hok := suffixPartition_ok l hl w (max 0 tlo) (min ((l.length : Int) - 1) thi) (by omega)
    have hf1 := suffixPartition_flag1 l hl w (max 0 tlo) (min ((l.length : Int) - 1) thi) (by omega)
    generalize suffixPartition l w _ _ = P at hflag hok hf1 ⊢
    obtain ⟨lL, lR, flag, diff'⟩ := P
    simp only at hflag hf1 ⊢
    rcases hflag with rfl | rfl
    · rw [if_pos rfl, min_self]
      by_contra hcon
      obtain ⟨w1, w2⟩ := hwin (by omega)
      have := hf1 (by omega) (by omega) (by rw [hdI]; omega) (by omega)
      omega
    · obtain ⟨e1, e2, e3⟩ := hok lL lR diff' rfl
      subst e1 e2
      rw [hdI] at e3
      subst e3
      rw [if_neg (by norm_num : ¬ (1 : Int) = 0)]
      have IH1 := ih _ _ hxlS hylS (hmax - intAbs (((l.filter (· > w)).length : Int) - (yr.length : Int)) - (d : Int)) (depth + 1)
      generalize suffixEstHamming maxDepth fuel (l.filter (· < w)) yl _ _ _ _ = hdL at IH1 ⊢
      have IH2 := ih _ _ hxrS hyrS (hmax - hdL - (d : Int)) (depth + 1)
      generalize suffixEstHamming maxDepth fuel (l.filter (· > w)) yr _ _ _ _ = hdR at IH2 ⊢
      generalize intAbs (((l.filter (· < w)).length : Int) - (yl.length : Int)) = a1 at *
      generalize intAbs (((l.filter (· > w)).length : Int) - (yr.length : Int)) = a2 at *
      rw [min_le_iff] at IH1 IH2
      split_ifs <;> rw [min_le_iff] <;> omega

/-! ### 6. Suffixes vs whole sets, and safety of `_filter_suffix` -/

theorem length_filter_le_add (l : List Nat) (f g h : Nat → Bool)
    (hfgh : ∀ a ∈ l, f a = true → g a = true ∨ h a = true) :
    (l.filter f).length ≤ (l.filter g).length + (l.filter h).length := by
  induction l with
  | nil => simp
  | cons a l ih =>
    have ih' := ih (fun b hb => hfgh b (List.mem_cons_of_mem _ hb))
    have ha := hfgh a (by simp)
    simp only [List.filter_cons]
    cases hf : f a <;> cases hg : g a <;> cases hh : h a <;>
      simp only [hf, hg, hh, if_true, Bool.false_eq_true, if_false, List.length_cons] at ha ⊢ <;>
      first | omega | (exfalso; simp at ha)

theorem length_filter_drop_le (x : List Nat) (p : Nat) (f : Nat → Bool) :
    ((x.drop p).filter f).length ≤ (x.filter f).length := by
  have : x.filter f = (x.take p).filter f ++ (x.drop p).filter f := by
    rw [← List.filter_append, List.take_append_drop]
  rw [this, List.length_append]
  omega

/-- suffixes vs whole sets: a prefix token of one list can occur in the suffix of the other, but not both ways -/
theorem hamming_suffix_le (x y : List Nat) (hx : x.Pairwise (· < ·)) (hy : y.Pairwise (· < ·)) (p q : Nat) :
    hamming (x.drop p) (y.drop q) ≤ hamming x y + max p q := by
  have hx' : (x.take p ++ x.drop p).Pairwise (· < ·) := by rw [List.take_append_drop]; exact hx
  have hy' : (y.take q ++ y.drop q).Pairwise (· < ·) := by rw [List.take_append_drop]; exact hy
  have hx2 : (x.drop p).Nodup := (List.pairwise_append.1 hx').2.1.nodup
  have hy2 : (y.drop q).Nodup := (List.pairwise_append.1 hy').2.1.nodup
  have A : ((x.drop p).filter (fun t => decide (t ∉ y.drop q))).length ≤
      ((x.drop p).filter (fun t => decide (t ∉ y))).length + commonCount (x.drop p) (y.take q) := by
    unfold commonCount
    apply length_filter_le_add
    intro a _ ha
    simp only [decide_eq_true_eq] at ha ⊢
    by_cases h : a ∈ y.take q
    · right; exact h
    · left
      intro hay
      have : a ∈ y.take q ++ y.drop q := by rw [List.take_append_drop]; exact hay
      rcases List.mem_append.1 this with h' | h'
      · exact h h'
      · exact ha h'
  have B : ((y.drop q).filter (fun t => decide (t ∉ x.drop p))).length ≤
      ((y.drop q).filter (fun t => decide (t ∉ x))).length + commonCount (y.drop q) (x.take p) := by
    unfold commonCount
    apply length_filter_le_add
    intro a _ ha
    simp only [decide_eq_true_eq] at ha ⊢
    by_cases h : a ∈ x.take p
    · right; exact h
    · left
      intro hax
      have : a ∈ x.take p ++ x.drop p := by rw [List.take_append_drop]; exact hax
      rcases List.mem_append.1 this with h' | h'
      · exact h h'
      · exact ha h'
  have A2 := length_filter_drop_le x p (fun t => decide (t ∉ y))
  have B2 := length_filter_drop_le y q (fun t => decide (t ∉ x))
  have C1 : commonCount (x.drop p) (y.take q) ≤ q :=
    le_trans (commonCount_le_right _ _ hx2) (by rw [List.length_take]; omega)
  have D1 : commonCount (y.drop q) (x.take p) ≤ p :=
    le_trans (commonCount_le_right _ _ hy2) (by rw [List.length_take]; omega)
  have CD : commonCount (x.drop p) (y.take q) = 0 ∨ commonCount (y.drop q) (x.take p) = 0 := by
    by_contra hcon
    rw [not_or] at hcon
    obtain ⟨hc, hd⟩ := hcon
    unfold commonCount at hc hd
    obtain ⟨a, ha⟩ := List.exists_mem_of_length_pos (Nat.pos_of_ne_zero hc)
    obtain ⟨b, hb⟩ := List.exists_mem_of_length_pos (Nat.pos_of_ne_zero hd)
    simp only [List.mem_filter, decide_eq_true_eq] at ha hb
    have h1 := (List.pairwise_append.1 hx').2.2 b hb.2 a ha.1
    have h2 := (List.pairwise_append.1 hy').2.2 a ha.2 b hb.1
    omega
  unfold hamming
  omega

theorem pyDrop_nat {α : Type} (l : List α) (k : Nat) : pyDrop l (k : Int) = l.drop k := by
  unfold pyDrop
  rw [if_pos (by omega)]
  simp

/-- SAFETY of `_filter_suffix`: if the overlap reaches the required overlap the pair is not dropped -/
theorem suffixFilterSuffix_safe (f : FilterObj) (x y : List Nat) (hx : x.Pairwise (· < ·)) (hy : y.Pairwise (· < ·))
    (lp rp : Int) (hlp : 0 ≤ lp) (hrp : 0 ≤ rp) (hlp' : lp ≤ x.length) (hrp' : rp ≤ y.length)
    (hthr : f.cfg.ovThr x.length y.length ≤ (commonCount x y : Int)) :
    suffixFilterSuffix f (pyDrop x lp) (pyDrop y rp) lp rp x.length y.length = false := by
  unfold suffixFilterSuffix
  simp only
  split
  · rfl
  · obtain ⟨a, rfl⟩ : ∃ a : Nat, lp = a := ⟨lp.toNat, by omega⟩
    obtain ⟨b, rfl⟩ : ∃ b : Nat, rp = b := ⟨rp.toNat, by omega⟩
    have l1 : ((x.length : Int) - a) = ((x.drop a).length : Int) := by rw [List.length_drop]; omega
    have l2 : ((y.length : Int) - b) = ((y.drop b).length : Int) := by rw [List.length_drop]; omega
    rw [pyDrop_nat, pyDrop_nat, l1, l2]
    have hs := suffixEstHamming_sound 2 4 (x.drop a) (y.drop b) (hx.sublist (List.drop_sublist _ _))
      (hy.sublist (List.drop_sublist _ _))
      ((x.length : Int) + y.length - 2 * f.cfg.ovThr x.length y.length + max (a : Int) (b : Int)) 1
    have h1 := hamming_suffix_le x y hx hy a b
    have h2 := hamming_eq x y hx.nodup hy.nodup
    rw [min_le_iff] at hs
    rw [if_pos (by omega)]

/-- The hypotheses `lp ≤ |x|`, `rp ≤ |y|` of `suffixFilterSuffix_safe` cannot be dropped: the caller
    passes the suffix length `ln - lp`, which is negative when the prefix length exceeds the number
    of tokens, while the slice `x[lp:]` is empty; the estimator then fails its first partition and
    the pair is dropped although its overlap (1) reaches the required overlap (1). -/
def suffixCexFilter : FilterObj := { cfg := { measure := .overlap, threshold := .int 1 } }

theorem suffixFilterSuffix_long_prefix_counterexample :
    suffixCexFilter.cfg.ovThr 1 2 = 1 ∧ commonCount [1] [1, 2] = 1 ∧
      suffixFilterSuffix suffixCexFilter (pyDrop [1] 5) (pyDrop [1, 2] 0) 5 0 1 2 = true := by
  decide +kernel

theorem commonCount_eq_interCount (x y : List Nat) (hx : x.Nodup) : commonCount x y = interCount x y := by
  unfold commonCount interCount
  rw [dedup_eq_self_of_nodup x hx]

/-- the core of both entry points: ordered token lists under any ordering which knows all tokens
    of the pair and is injective -/
theorem suffixFilterSuffix_orderUsing (f : FilterObj) (a b : List Tok) (ord : List (Tok × Nat))
    (ha : a.Nodup) (hb : b.Nodup)
    (hka : ∀ t ∈ a, (Dict.get? ord t).isSome) (hkb : ∀ t ∈ b, (Dict.get? ord t).isSome)
    (hinj : ∀ t1 t2 r, Dict.get? ord t1 = some r → Dict.get? ord t2 = some r → t1 = t2)
    (hpa : 0 ≤ f.cfg.prefixLen a.length) (hpb : 0 ≤ f.cfg.prefixLen b.length)
    (hpa' : f.cfg.prefixLen a.length ≤ a.length) (hpb' : f.cfg.prefixLen b.length ≤ b.length)
    (hthr : f.cfg.ovThr a.length b.length ≤ (interCount a b : Int)) :
    suffixFilterSuffix f (pyDrop (orderUsing a ord) (f.cfg.prefixLen a.length))
      (pyDrop (orderUsing b ord) (f.cfg.prefixLen b.length))
      (f.cfg.prefixLen a.length) (f.cfg.prefixLen b.length) a.length b.length = false := by
  have hinj' : ∀ (s : List Tok), ∀ t1 ∈ s, ∀ t2 ∈ s, ∀ r,
      Dict.get? ord t1 = some r → Dict.get? ord t2 = some r → t1 = t2 := fun _ t1 _ t2 _ r => hinj t1 t2 r
  have hxs := orderUsing_strict a ord ha (hinj' a)
  have hys := orderUsing_strict b ord hb (hinj' b)
  have hla := orderUsing_length a ord hka
  have hlb := orderUsing_length b ord hkb
  have hcc : commonCount (orderUsing a ord) (orderUsing b ord) = interCount a b := by
    rw [commonCount_eq_interCount _ _ hxs.nodup, interCount_orderUsing a b ord ha hb hka hkb (hinj' (a ++ b))]
  have := suffixFilterSuffix_safe f (orderUsing a ord) (orderUsing b ord) hxs hys
    (f.cfg.prefixLen a.length) (f.cfg.prefixLen b.length) hpa hpb (by rw [hla]; exact hpa')
    (by rw [hlb]; exact hpb') (by rw [hla, hlb, hcc]; exact hthr)
  rw [hla, hlb] at this
  exact this

/-! ### 6b. `_number_repeated_tokens`: bags become sets -/

theorem enc_div {b k : Nat} (t : Nat) (hk : k < b) : (t * b + k) / b = t := by
  rw [Nat.add_comm, Nat.add_mul_div_right _ _ (by omega), Nat.div_eq_of_lt hk, Nat.zero_add]

theorem enc_mod {b k : Nat} (t : Nat) (hk : k < b) : (t * b + k) % b = k := by
  rw [Nat.add_comm, Nat.add_mul_mod_self_right, Nat.mod_eq_of_lt hk]

theorem enc_eq_iff {b k : Nat} (t e : Nat) (hk : k < b) : e = t * b + k ↔ e / b = t ∧ e % b = k := by
  constructor
  · rintro rfl; exact ⟨enc_div t hk, enc_mod t hk⟩
  · rintro ⟨rfl, rfl⟩
    have := Nat.div_add_mod e b
    rw [Nat.mul_comm] at this
    omega

theorem numberRepeatedAux_length (b : Nat) (l : List Nat) :
    ∀ (prev : Option Nat) (occ : Nat), (numberRepeatedAux b prev occ l).length = l.length := by
  induction l with
  | nil => intro _ _; rfl
  | cons t l ih => intro prev occ; simp only [numberRepeatedAux, List.length_cons, ih]

theorem numberRepeated_length (b : Nat) (l : List Nat) : (numberRepeated b l).length = l.length :=
  numberRepeatedAux_length b l none 0

theorem numberRepeatedAux_take (b : Nat) (l : List Nat) :
    ∀ (prev : Option Nat) (occ p : Nat),
      (numberRepeatedAux b prev occ l).take p = numberRepeatedAux b prev occ (l.take p) := by
  induction l with
  | nil => intro _ _ p; simp [numberRepeatedAux]
  | cons t l ih =>
    intro prev occ p
    cases p with
    | zero => simp [numberRepeatedAux]
    | succ p => simp only [numberRepeatedAux, List.take_succ_cons, ih]

theorem numberRepeated_take (b : Nat) (l : List Nat) (p : Nat) :
    (numberRepeated b l).take p = numberRepeated b (l.take p) :=
  numberRepeatedAux_take b l none 0 p

/-- the invariant of the numbering loop: after the token `t0` with occurrence number `occ`, on an ascending rest `l`
    of tokens `≥ t0` -/
theorem numberRepeatedAux_spec (b : Nat) (l : List Nat) (hl : l.Pairwise (· ≤ ·)) :
    ∀ (t0 occ : Nat), (∀ u ∈ l, t0 ≤ u) → occ + l.length < b →
      (numberRepeatedAux b (some t0) occ l).Pairwise (· < ·) ∧
      (∀ e ∈ numberRepeatedAux b (some t0) occ l, t0 * b + occ < e) ∧
      (∀ e, e ∈ numberRepeatedAux b (some t0) occ l ↔
        ((e / b = t0 ∧ occ < e % b ∧ e % b ≤ occ + l.count t0) ∨ (e / b ≠ t0 ∧ e % b < l.count (e / b)))) := by
  induction l with
  | nil =>
    intro t0 occ _ _
    refine ⟨List.Pairwise.nil, by simp [numberRepeatedAux], fun e => ?_⟩
    simp only [numberRepeatedAux, List.not_mem_nil, List.count_nil, false_iff]
    omega
  | cons t l ih =>
    intro t0 occ hge hb
    have hl' := List.pairwise_cons.1 hl
    simp only [List.length_cons] at hb
    have ht0 : t0 ≤ t := hge t (by simp)
    by_cases htt : t = t0
    · subst htt
      obtain ⟨i1, i2, i3⟩ := ih hl'.2 t (occ + 1) hl'.1 (by omega)
      have e1 : numberRepeatedAux b (some t) occ (t :: l) =
          (t * b + (occ + 1)) :: numberRepeatedAux b (some t) (occ + 1) l := by
        simp [numberRepeatedAux]
      rw [e1]
      refine ⟨List.pairwise_cons.2 ⟨fun e he => i2 e he, i1⟩, ?_, fun e => ?_⟩
      · intro e he
        rcases List.mem_cons.1 he with rfl | he
        · omega
        · have := i2 e he; omega
      · rw [List.mem_cons, i3 e, enc_eq_iff t e (show occ + 1 < b by omega), List.count_cons_self]
        by_cases hd : e / b = t
        · simp only [hd, true_and, ne_eq, not_true_eq_false, false_and, or_false]; omega
        · simp only [hd, false_and, ne_eq, not_false_eq_true, true_and, false_or,
            List.count_cons_of_ne (Ne.symm hd)]
    · have hlt : t0 < t := lt_of_le_of_ne ht0 (Ne.symm htt)
      obtain ⟨i1, i2, i3⟩ := ih hl'.2 t 0 hl'.1 (by omega)
      have e1 : numberRepeatedAux b (some t0) occ (t :: l) =
          (t * b + 0) :: numberRepeatedAux b (some t) 0 l := by
        have : ¬ (t0 = t) := fun h => htt h.symm
        simp [numberRepeatedAux, this]
      rw [e1]
      have hbig : t0 * b + occ < t * b + 0 := by
        have : (t0 + 1) * b ≤ t * b := Nat.mul_le_mul_right b hlt
        rw [Nat.add_mul] at this
        omega
      have hc0 : l.count t0 = 0 := by
        rw [List.count_eq_zero]
        intro h
        have := hl'.1 t0 h
        omega
      refine ⟨List.pairwise_cons.2 ⟨fun e he => i2 e he, i1⟩, ?_, fun e => ?_⟩
      · intro e he
        rcases List.mem_cons.1 he with rfl | he
        · exact hbig
        · have := i2 e he; omega
      · rw [List.mem_cons, i3 e, enc_eq_iff t e (show 0 < b by omega),
          List.count_cons_of_ne (show t ≠ t0 from htt), hc0]
        by_cases hd : e / b = t
        · have hne : e / b ≠ t0 := by omega
          simp only [hd, true_and, ne_eq, not_true_eq_false, false_and, or_false, List.count_cons_self]
          have : ¬ t = t0 := htt
          simp only [this, false_and, not_false_eq_true, true_and, false_or]
          omega
        · simp only [hd, false_and, ne_eq, not_false_eq_true, true_and, false_or,
            List.count_cons_of_ne (Ne.symm hd)]
          constructor
          · intro h
            refine Or.inr ⟨?_, h⟩
            intro hd0
            have hpos : 0 < l.count (e / b) := by omega
            have hm := List.count_pos_iff.1 hpos
            have := hl'.1 _ hm
            omega
          · rintro (h | h)
            · omega
            · exact h.2

/-- SPECIFICATION of `_number_repeated_tokens` on an ascending list of fewer than `b` tokens: the result is strictly
    ascending and contains exactly the codes `t·b + k` of the pairs `(t, k)` with `k <` the multiplicity of `t` -/
theorem numberRepeated_spec (b : Nat) (l : List Nat) (hl : l.Pairwise (· ≤ ·)) (hb : l.length < b) :
    (numberRepeated b l).Pairwise (· < ·) ∧ ∀ e, e ∈ numberRepeated b l ↔ e % b < l.count (e / b) := by
  cases l with
  | nil => exact ⟨List.Pairwise.nil, fun e => by simp [numberRepeated, numberRepeatedAux]⟩
  | cons t l =>
    have hl' := List.pairwise_cons.1 hl
    simp only [List.length_cons] at hb
    obtain ⟨i1, i2, i3⟩ := numberRepeatedAux_spec b l hl'.2 t 0 hl'.1 (by omega)
    have e1 : numberRepeated b (t :: l) = (t * b + 0) :: numberRepeatedAux b (some t) 0 l := by
      simp [numberRepeated, numberRepeatedAux]
    rw [e1]
    refine ⟨List.pairwise_cons.2 ⟨fun e he => i2 e he, i1⟩, fun e => ?_⟩
    rw [List.mem_cons, i3 e, enc_eq_iff t e (show 0 < b by omega)]
    by_cases hd : e / b = t
    · simp only [hd, true_and, ne_eq, not_true_eq_false, false_and, or_false, List.count_cons_self]; omega
    · simp only [hd, false_and, ne_eq, not_false_eq_true, true_and, false_or,
        List.count_cons_of_ne (Ne.symm hd)]

theorem numberRepeated_sorted (b : Nat) (l : List Nat) (hl : l.Pairwise (· ≤ ·)) (hb : l.length < b) :
    (numberRepeated b l).Pairwise (· < ·) := (numberRepeated_spec b l hl hb).1

theorem mem_numberRepeated (b : Nat) (l : List Nat) (hl : l.Pairwise (· ≤ ·)) (hb : l.length < b) (e : Nat) :
    e ∈ numberRepeated b l ↔ e % b < l.count (e / b) := (numberRepeated_spec b l hl hb).2 e

/-- the tail of a numbered list: the pairs `(t, k)` whose occurrence number is not used up by the first `p` tokens -/
theorem mem_drop_numberRepeated (b : Nat) (x : List Nat) (hx : x.Pairwise (· ≤ ·)) (hb : x.length < b) (p e : Nat) :
    e ∈ (numberRepeated b x).drop p ↔ (x.take p).count (e / b) ≤ e % b ∧ e % b < x.count (e / b) := by
  have hnd := (numberRepeated_sorted b x hx hb).nodup
  have hT : ∀ e, e ∈ (numberRepeated b x).take p ↔ e % b < (x.take p).count (e / b) := by
    intro e
    rw [numberRepeated_take]
    exact mem_numberRepeated b _ (hx.sublist (List.take_sublist p x))
      (lt_of_le_of_lt (List.take_sublist p x).length_le hb) e
  have hM := mem_numberRepeated b x hx hb e
  constructor
  · intro h
    have h1 : e ∈ numberRepeated b x := List.mem_of_mem_drop h
    have h2 : e ∉ (numberRepeated b x).take p := fun ht =>
      (List.disjoint_take_drop hnd (le_refl p)) ht h
    rw [hT] at h2
    exact ⟨by omega, hM.1 h1⟩
  · rintro ⟨h1, h2⟩
    have hm : e ∈ (numberRepeated b x).take p ++ (numberRepeated b x).drop p := by
      rw [List.take_append_drop]; exact hM.2 h2
    rcases List.mem_append.1 hm with h | h
    · have := (hT e).1 h; omega
    · exact h

theorem count_take_add_drop (x : List Nat) (p t : Nat) : (x.take p).count t + (x.drop p).count t = x.count t := by
  conv_rhs => rw [← List.take_append_drop p x]
  rw [List.count_append]

/-- cardinality by an injection: a duplicate-free list which `g` maps injectively into `D` is no longer than `D` -/
theorem length_le_of_injOn (A D : List Nat) (g : Nat → Nat) (hA : A.Nodup)
    (hinj : ∀ e1 ∈ A, ∀ e2 ∈ A, g e1 = g e2 → e1 = e2) (hmem : ∀ e ∈ A, g e ∈ D) : A.length ≤ D.length := by
  have h1 : (A.map g).Nodup := hA.map_on hinj
  have h2 : A.map g ⊆ D := by
    intro v hv
    obtain ⟨e, he, rfl⟩ := List.mem_map.1 hv
    exact hmem e he
  have := (List.subperm_of_subset h1 h2).length_le
  rwa [List.length_map] at this

theorem div_mod_ext {b e1 e2 : Nat} (h1 : e1 / b = e2 / b) (h2 : e1 % b = e2 % b) : e1 = e2 := by
  have a1 := Nat.div_add_mod e1 b
  have a2 := Nat.div_add_mod e2 b
  rw [h1, h2] at a1
  omega

/-- numbered elements of `x` missing from the numbered `y`: at most the bag difference `x − y` -/
theorem numbered_not_mem_le_diff (b : Nat) (x y : List Nat) (hx : x.Pairwise (· ≤ ·)) (hy : y.Pairwise (· ≤ ·))
    (hxb : x.length < b) (hyb : y.length < b) :
    ((numberRepeated b x).filter (fun e => decide (e ∉ numberRepeated b y))).length ≤ (x.diff y).length := by
  have hds : (x.diff y).Pairwise (· ≤ ·) := hx.sublist (List.diff_sublist _ _)
  have hdl : (x.diff y).length < b := lt_of_le_of_lt (List.diff_sublist _ _).length_le hxb
  rw [← numberRepeated_length b (x.diff y)]
  have hcnt : ∀ t, x.count t ≤ x.length := fun t => List.count_le_length
  apply length_le_of_injOn _ _ (fun e => (e / b) * b + (e % b - y.count (e / b)))
    ((numberRepeated_sorted b x hx hxb).nodup.filter _)
  · intro e1 he1 e2 he2 hg
    simp only [List.mem_filter, decide_eq_true_eq, mem_numberRepeated b x hx hxb,
      mem_numberRepeated b y hy hyb] at he1 he2
    have k1 : e1 % b - y.count (e1 / b) < b := by have := hcnt (e1 / b); omega
    have k2 : e2 % b - y.count (e2 / b) < b := by have := hcnt (e2 / b); omega
    have d1 := congrArg (· / b) hg
    have m1 := congrArg (· % b) hg
    simp only [enc_div _ k1, enc_div _ k2, enc_mod _ k1, enc_mod _ k2] at d1 m1
    apply div_mod_ext d1
    rw [d1] at m1 he1
    omega
  · intro e he
    simp only [List.mem_filter, decide_eq_true_eq, mem_numberRepeated b x hx hxb,
      mem_numberRepeated b y hy hyb] at he
    have k1 : e % b - y.count (e / b) < b := by have := hcnt (e / b); omega
    rw [mem_numberRepeated b _ hds hdl, enc_div _ k1, enc_mod _ k1, List.count_diff]
    omega

/-- hence the numbered lists have at least `|x| − |x − y|` common elements -/
theorem commonCount_numbered_ge (b : Nat) (x y : List Nat) (hx : x.Pairwise (· ≤ ·)) (hy : y.Pairwise (· ≤ ·))
    (hxb : x.length < b) (hyb : y.length < b) :
    x.length ≤ commonCount (numberRepeated b x) (numberRepeated b y) + (x.diff y).length := by
  have h1 := length_filter_mem_add (numberRepeated b x) (numberRepeated b y)
  have h2 := numbered_not_mem_le_diff b x y hx hy hxb hyb
  rw [numberRepeated_length] at h1
  omega

/-- numbering the suffixes afresh keeps at least the common elements which the suffixes of the fully numbered lists
    have: per token the occurrence numbers `[a_p, a_p + a_s)` and `[c_p, c_p + c_s)` share at most `min(a_s, c_s)` values -/
theorem commonCount_drop_numbered_le (B b : Nat) (x y : List Nat) (hx : x.Pairwise (· ≤ ·)) (hy : y.Pairwise (· ≤ ·))
    (hxB : x.length < B) (hyB : y.length < B) (p q : Nat)
    (hb : (x.drop p).length + (y.drop q).length < b) :
    commonCount ((numberRepeated B x).drop p) ((numberRepeated B y).drop q) ≤
      commonCount (numberRepeated b (x.drop p)) (numberRepeated b (y.drop q)) := by
  have hxs : (x.drop p).Pairwise (· ≤ ·) := hx.sublist (List.drop_sublist _ _)
  have hys : (y.drop q).Pairwise (· ≤ ·) := hy.sublist (List.drop_sublist _ _)
  have hxsb : (x.drop p).length < b := by omega
  have hysb : (y.drop q).length < b := by omega
  have hcx : ∀ t, (x.drop p).count t ≤ (x.drop p).length := fun t => List.count_le_length
  have hA : (((numberRepeated B x).drop p).filter
      (fun e => decide (e ∈ (numberRepeated B y).drop q))).Nodup :=
    (((numberRepeated_sorted B x hx hxB).nodup.sublist (List.drop_sublist _ _))).filter _
  unfold commonCount
  apply length_le_of_injOn _ _
    (fun e => (e / B) * b + (e % B - max ((x.take p).count (e / B)) ((y.take q).count (e / B)))) hA
  · intro e1 he1 e2 he2 hg
    simp only [List.mem_filter, decide_eq_true_eq, mem_drop_numberRepeated B x hx hxB,
      mem_drop_numberRepeated B y hy hyB] at he1 he2
    have c1 := count_take_add_drop x p (e1 / B)
    have c2 := count_take_add_drop x p (e2 / B)
    have k1 : e1 % B - max ((x.take p).count (e1 / B)) ((y.take q).count (e1 / B)) < b := by
      have := hcx (e1 / B); omega
    have k2 : e2 % B - max ((x.take p).count (e2 / B)) ((y.take q).count (e2 / B)) < b := by
      have := hcx (e2 / B); omega
    have d1 := congrArg (· / b) hg
    have m1 := congrArg (· % b) hg
    simp only [enc_div _ k1, enc_div _ k2, enc_mod _ k1, enc_mod _ k2] at d1 m1
    apply div_mod_ext d1
    rw [d1] at m1 he1
    omega
  · intro e he
    simp only [List.mem_filter, decide_eq_true_eq, mem_drop_numberRepeated B x hx hxB,
      mem_drop_numberRepeated B y hy hyB] at he
    have c1 := count_take_add_drop x p (e / B)
    have c2 := count_take_add_drop y q (e / B)
    have k1 : e % B - max ((x.take p).count (e / B)) ((y.take q).count (e / B)) < b := by
      have := hcx (e / B); omega
    simp only [List.mem_filter, decide_eq_true_eq, mem_numberRepeated b _ hxs hxsb,
      mem_numberRepeated b _ hys hysb, enc_div _ k1, enc_mod _ k1]
    omega

/-- SAFETY of `_filter_suffix` WITH the numbering step, on ascending lists with repetitions (bags): if the required
    overlap is at most `|x| − |x − y|` (the size of the bag intersection) the pair is not dropped -/
theorem suffixFilterSuffix_numbered_safe (f : FilterObj) (x y : List Nat) (hx : x.Pairwise (· ≤ ·))
    (hy : y.Pairwise (· ≤ ·)) (p q : Nat) (hp : p ≤ x.length) (hq : q ≤ y.length) (b : Nat)
    (hb : (x.drop p).length + (y.drop q).length < b)
    (hthr : f.cfg.ovThr x.length y.length + ((x.diff y).length : Int) ≤ x.length) :
    suffixFilterSuffix f (numberRepeated b (x.drop p)) (numberRepeated b (y.drop q)) p q x.length y.length = false := by
  unfold suffixFilterSuffix
  simp only
  split
  · rfl
  · have hxs : (x.drop p).Pairwise (· ≤ ·) := hx.sublist (List.drop_sublist _ _)
    have hys : (y.drop q).Pairwise (· ≤ ·) := hy.sublist (List.drop_sublist _ _)
    have sx := numberRepeated_sorted b _ hxs (by omega)
    have sy := numberRepeated_sorted b _ hys (by omega)
    have l1 : ((x.length : Int) - p) = ((numberRepeated b (x.drop p)).length : Int) := by
      rw [numberRepeated_length, List.length_drop]; omega
    have l2 : ((y.length : Int) - q) = ((numberRepeated b (y.drop q)).length : Int) := by
      rw [numberRepeated_length, List.length_drop]; omega
    rw [l1, l2]
    have hs := suffixEstHamming_sound 2 4 _ _ sx sy
      ((x.length : Int) + y.length - 2 * f.cfg.ovThr x.length y.length + max (p : Int) (q : Int)) 1
    -- the fully numbered lists
    have SX := numberRepeated_sorted (x.length + y.length + 1) x hx (by omega)
    have SY := numberRepeated_sorted (x.length + y.length + 1) y hy (by omega)
    have h1 := hamming_suffix_le _ _ SX SY p q
    have h2 := hamming_eq _ _ SX.nodup SY.nodup
    have h3 := commonCount_numbered_ge (x.length + y.length + 1) x y hx hy (by omega) (by omega)
    have h4 := commonCount_drop_numbered_le (x.length + y.length + 1) b x y hx hy (by omega) (by omega) p q hb
    have h5 := hamming_eq _ _ sx.nodup sy.nodup
    have h6 := hamming_eq _ _ (SX.nodup.sublist (List.drop_sublist p _)) (SY.nodup.sublist (List.drop_sublist q _))
    simp only [numberRepeated_length, List.length_drop] at h2 h5 h6
    rw [min_le_iff] at hs
    rw [if_pos (by omega)]

/-- for duplicate-free lists the bag difference is the set difference -/
theorem length_diff_of_nodup (x y : List Nat) (hx : x.Nodup) : (x.diff y).length + commonCount x y = x.length := by
  rw [hx.sdiff_eq_filter]
  exact length_filter_mem_add x y

theorem suffixFilterSuffixN_of_ne (f : FilterObj) (l r : List Nat) (lp rp : Int) (ln rn : Nat)
    (h : f.cfg.measure ≠ .editDistance) :
    suffixFilterSuffixN f l r lp rp ln rn = suffixFilterSuffix f l r lp rp ln rn := by
  unfold suffixFilterSuffixN; rw [if_neg h]

theorem suffixFilterSuffixN_of_ed (f : FilterObj) (l r : List Nat) (lp rp : Int) (ln rn : Nat)
    (h : f.cfg.measure = .editDistance) :
    suffixFilterSuffixN f l r lp rp ln rn =
      suffixFilterSuffix f (numberRepeated (l.length + r.length + 1) l) (numberRepeated (l.length + r.length + 1) r)
        lp rp ln rn := by
  unfold suffixFilterSuffixN; rw [if_pos h]

/-- SAFETY of `_filter_suffix` as called (numbering under EDIT_DISTANCE) on BAGS under EDIT_DISTANCE -/
theorem suffixFilterSuffixN_safe_bag (f : FilterObj) (hm : f.cfg.measure = .editDistance)
    (x y : List Nat) (hx : x.Pairwise (· ≤ ·)) (hy : y.Pairwise (· ≤ ·))
    (lp rp : Int) (hlp : 0 ≤ lp) (hrp : 0 ≤ rp) (hlp' : lp ≤ x.length) (hrp' : rp ≤ y.length)
    (hthr : f.cfg.ovThr x.length y.length + ((x.diff y).length : Int) ≤ x.length) :
    suffixFilterSuffixN f (pyDrop x lp) (pyDrop y rp) lp rp x.length y.length = false := by
  obtain ⟨a, rfl⟩ : ∃ a : Nat, lp = a := ⟨lp.toNat, by omega⟩
  obtain ⟨b, rfl⟩ : ∃ b : Nat, rp = b := ⟨rp.toNat, by omega⟩
  rw [pyDrop_nat, pyDrop_nat, suffixFilterSuffixN_of_ed f _ _ _ _ _ _ hm]
  exact suffixFilterSuffix_numbered_safe f x y hx hy a b (by omega) (by omega) _ (by omega) hthr

/-- SAFETY of `_filter_suffix` as called, on duplicate-free lists, any measure -/
theorem suffixFilterSuffixN_safe (f : FilterObj) (x y : List Nat) (hx : x.Pairwise (· < ·)) (hy : y.Pairwise (· < ·))
    (lp rp : Int) (hlp : 0 ≤ lp) (hrp : 0 ≤ rp) (hlp' : lp ≤ x.length) (hrp' : rp ≤ y.length)
    (hthr : f.cfg.ovThr x.length y.length ≤ (commonCount x y : Int)) :
    suffixFilterSuffixN f (pyDrop x lp) (pyDrop y rp) lp rp x.length y.length = false := by
  by_cases hm : f.cfg.measure = .editDistance
  · have := length_diff_of_nodup x y hx.nodup
    exact suffixFilterSuffixN_safe_bag f hm x y (hx.imp Nat.le_of_lt) (hy.imp Nat.le_of_lt) lp rp hlp hrp hlp' hrp'
      (by omega)
  · rw [suffixFilterSuffixN_of_ne f _ _ _ _ _ _ hm]
    exact suffixFilterSuffix_safe f x y hx hy lp rp hlp hrp hlp' hrp' hthr


/-- the core of both entry points AS CALLED (with the numbering step under EDIT_DISTANCE): ordered token lists of two
    token SETS under any ordering which knows all tokens of the pair and is injective; any measure -/
theorem suffixFilterSuffixN_orderUsing (f : FilterObj) (a b : List Tok) (ord : List (Tok × Nat))
    (ha : a.Nodup) (hb : b.Nodup)
    (hka : ∀ t ∈ a, (Dict.get? ord t).isSome) (hkb : ∀ t ∈ b, (Dict.get? ord t).isSome)
    (hinj : ∀ t1 t2 r, Dict.get? ord t1 = some r → Dict.get? ord t2 = some r → t1 = t2)
    (hpa : 0 ≤ f.cfg.prefixLen a.length) (hpb : 0 ≤ f.cfg.prefixLen b.length)
    (hpa' : f.cfg.prefixLen a.length ≤ a.length) (hpb' : f.cfg.prefixLen b.length ≤ b.length)
    (hthr : f.cfg.ovThr a.length b.length ≤ (interCount a b : Int)) :
    suffixFilterSuffixN f (pyDrop (orderUsing a ord) (f.cfg.prefixLen a.length))
      (pyDrop (orderUsing b ord) (f.cfg.prefixLen b.length))
      (f.cfg.prefixLen a.length) (f.cfg.prefixLen b.length) a.length b.length = false := by
  have hinj' : ∀ (s : List Tok), ∀ t1 ∈ s, ∀ t2 ∈ s, ∀ r,
      Dict.get? ord t1 = some r → Dict.get? ord t2 = some r → t1 = t2 := fun _ t1 _ t2 _ r => hinj t1 t2 r
  have hxs := orderUsing_strict a ord ha (hinj' a)
  have hys := orderUsing_strict b ord hb (hinj' b)
  have hla := orderUsing_length a ord hka
  have hlb := orderUsing_length b ord hkb
  have hcc : commonCount (orderUsing a ord) (orderUsing b ord) = interCount a b := by
    rw [commonCount_eq_interCount _ _ hxs.nodup, interCount_orderUsing a b ord ha hb hka hkb (hinj' (a ++ b))]
  have := suffixFilterSuffixN_safe f (orderUsing a ord) (orderUsing b ord) hxs hys
    (f.cfg.prefixLen a.length) (f.cfg.prefixLen b.length) hpa hpb (by rw [hla]; exact hpa')
    (by rw [hlb]; exact hpb') (by rw [hla, hlb, hcc]; exact hthr)
  rw [hla, hlb] at this
  exact this

/-! ### 7. `filter_pair` -/

theorem suffixFilterPair_missing (f : FilterObj) (tok : String → List Tok) (l r : Cell)
    (h : l.isMissing = true ∨ r.isMissing = true) : suffixFilterPair f tok l r = !f.allowMissing := by
  unfold suffixFilterPair
  rw [if_pos (by simpa using h)]

theorem suffixFilterPair_empty (f : FilterObj) (tok : String → List Tok) (l r : Cell)
    (hl : l.isMissing = false) (hr : r.isMissing = false)
    (ha : (tok l.strVal).length = 0) (hb : (tok r.strVal).length = 0) :
    suffixFilterPair f tok l r = emptyPairDropped f := by
  unfold suffixFilterPair
  rw [if_neg (by simp [hl, hr])]
  simp only
  rw [if_pos (by simp [ha, hb])]

/-- C04 for `SuffixFilter.filter_pair`: a pair whose overlap reaches the required overlap is not dropped -/
theorem suffixFilterPair_safe (f : FilterObj) (tok : String → List Tok) (hnd : ∀ s, (tok s).Nodup)
    (l r : Cell) (hl : l.isMissing = false) (hr : r.isMissing = false)
    (hne : ¬ ((tok l.strVal).length = 0 ∧ (tok r.strVal).length = 0))
    (hpa : 0 < f.cfg.prefixLen (tok l.strVal).length) (hpb : 0 < f.cfg.prefixLen (tok r.strVal).length)
    (hpa' : f.cfg.prefixLen (tok l.strVal).length ≤ (tok l.strVal).length)
    (hpb' : f.cfg.prefixLen (tok r.strVal).length ≤ (tok r.strVal).length)
    (hthr : f.cfg.ovThr (tok l.strVal).length (tok r.strVal).length ≤
      (interCount (tok l.strVal) (tok r.strVal) : Int)) :
    suffixFilterPair f tok l r = false := by
  unfold suffixFilterPair
  rw [if_neg (by simp [hl, hr])]
  simp only
  rw [if_neg (by simpa using hne), if_neg (by simp only [Bool.or_eq_true, decide_eq_true_eq]; omega)]
  exact suffixFilterSuffixN_orderUsing f _ _ _ (hnd _) (hnd _)
    (genTokenOrdering_isSome _ _ (by simp)) (genTokenOrdering_isSome _ _ (by simp))
    (genTokenOrdering_inj _) (by omega) (by omega) hpa' hpb' hthr

/-! ### 8. `_filter_tables_split` -/

/-- the rows contributed by one pair of rows -/
def suffixPairRows (f : FilterObj) (o : OutCfg) (ordering : List (Tok × Nat))
    (lRow : Row) (lt : List Tok) (rRow : Row) (rt : List Tok) : List Row :=
  let ol := orderUsing lt ordering
  let ln := ol.length
  let lp := f.cfg.prefixLen ln
  let lSuf := pyDrop ol lp
  let or_ := orderUsing rt ordering
  let rn := or_.length
  if handleEmpty f && ln = 0 && rn = 0 then [outputRow o lRow rRow] else
  let rp := f.cfg.prefixLen rn
  if lp ≤ 0 || rp ≤ 0 then [] else
  if !suffixFilterSuffixN f lSuf (pyDrop or_ rp) lp rp ln rn then [outputRow o lRow rRow] else []

theorem suffixFilterTablesSplit_eq (f : FilterObj) (tok : String → List Tok) (o : OutCfg)
    (lAttr rAttr : Nat) (ltable rtable : List Row) :
    suffixFilterTablesSplit f tok o lAttr rAttr ltable rtable =
      ltable.flatMap (fun lRow => rtable.flatMap (fun rRow =>
        suffixPairRows f o
          (genTokenOrdering (ltable.map (fun row => tok (row.cell lAttr).strVal) ++
            rtable.map (fun row => tok (row.cell rAttr).strVal)))
          lRow (tok (lRow.cell lAttr).strVal) rRow (tok (rRow.cell rAttr).strVal))) := by
  have hz : ∀ {α β : Type} (l : List α) (g : α → β), l.zip (l.map g) = l.map (fun x => (x, g x)) := by
    intro α β l g
    induction l with
    | nil => rfl
    | cons a l ih => simp [ih]
  unfold suffixFilterTablesSplit
  simp only [hz, List.flatMap_map]
  rfl

theorem prefixLen_zero (c : FCfg) : c.prefixLen 0 = 0 := by
  unfold FCfg.prefixLen FCfg.prefixV Gen.get_prefix_length
  rfl

/-- both token lists empty: the pair contributes its row iff `handleEmpty f` -/
theorem suffixPairRows_empty (f : FilterObj) (o : OutCfg) (ordering : List (Tok × Nat))
    (lRow rRow : Row) (lt rt : List Tok) (ha : lt.length = 0) (hb : rt.length = 0) :
    suffixPairRows f o ordering lRow lt rRow rt =
      if handleEmpty f then [outputRow o lRow rRow] else [] := by
  have ea : lt = [] := List.length_eq_zero_iff.1 ha
  have eb : rt = [] := List.length_eq_zero_iff.1 hb
  subst ea eb
  have e0 : (orderUsing [] ordering).length = 0 := by
    rw [orderUsing_length [] ordering (by simp)]; rfl
  unfold suffixPairRows
  simp only [e0, prefixLen_zero]
  cases handleEmpty f <;> simp

/-- a pair whose overlap reaches the required overlap contributes exactly its row -/
theorem suffixPairRows_safe (f : FilterObj) (o : OutCfg) (ord : List (Tok × Nat))
    (lRow rRow : Row) (a b : List Tok) (ha : a.Nodup) (hb : b.Nodup)
    (hka : ∀ t ∈ a, (Dict.get? ord t).isSome) (hkb : ∀ t ∈ b, (Dict.get? ord t).isSome)
    (hinj : ∀ t1 t2 r, Dict.get? ord t1 = some r → Dict.get? ord t2 = some r → t1 = t2)
    (hne : ¬ (a.length = 0 ∧ b.length = 0))
    (hpa : 0 < f.cfg.prefixLen a.length) (hpb : 0 < f.cfg.prefixLen b.length)
    (hpa' : f.cfg.prefixLen a.length ≤ a.length) (hpb' : f.cfg.prefixLen b.length ≤ b.length)
    (hthr : f.cfg.ovThr a.length b.length ≤ (interCount a b : Int)) :
    suffixPairRows f o ord lRow a rRow b = [outputRow o lRow rRow] := by
  unfold suffixPairRows
  simp only [orderUsing_length a ord hka, orderUsing_length b ord hkb]
  rw [if_neg (by
    simp only [Bool.and_eq_true, decide_eq_true_eq, not_and]
    intro h1 h2
    exact hne ⟨h1.2, h2⟩)]
  rw [if_neg (by simp only [Bool.or_eq_true, decide_eq_true_eq]; omega)]
  rw [suffixFilterSuffixN_orderUsing f a b ord ha hb hka hkb hinj (by omega) (by omega) hpa' hpb' hthr]
  rfl

theorem mem_suffixFilterTablesSplit (f : FilterObj) (tok : String → List Tok) (o : OutCfg)
    (lAttr rAttr : Nat) (ltable rtable : List Row) (row : Row) :
    row ∈ suffixFilterTablesSplit f tok o lAttr rAttr ltable rtable ↔
      ∃ lRow ∈ ltable, ∃ rRow ∈ rtable, row ∈ suffixPairRows f o
        (genTokenOrdering (ltable.map (fun row => tok (row.cell lAttr).strVal) ++
          rtable.map (fun row => tok (row.cell rAttr).strVal)))
        lRow (tok (lRow.cell lAttr).strVal) rRow (tok (rRow.cell rAttr).strVal) := by
  rw [suffixFilterTablesSplit_eq]
  simp only [List.mem_flatMap]

/-- C04 for `SuffixFilter._filter_tables_split`: the row of a pair whose overlap reaches the
    required overlap is in the output -/
theorem suffixFilterTablesSplit_safe (f : FilterObj) (tok : String → List Tok) (hnd : ∀ s, (tok s).Nodup)
    (o : OutCfg) (lAttr rAttr : Nat) (ltable rtable : List Row) (lRow rRow : Row)
    (hl : lRow ∈ ltable) (hr : rRow ∈ rtable)
    (hne : ¬ ((tok (lRow.cell lAttr).strVal).length = 0 ∧ (tok (rRow.cell rAttr).strVal).length = 0))
    (hpa : 0 < f.cfg.prefixLen (tok (lRow.cell lAttr).strVal).length)
    (hpb : 0 < f.cfg.prefixLen (tok (rRow.cell rAttr).strVal).length)
    (hpa' : f.cfg.prefixLen (tok (lRow.cell lAttr).strVal).length ≤ (tok (lRow.cell lAttr).strVal).length)
    (hpb' : f.cfg.prefixLen (tok (rRow.cell rAttr).strVal).length ≤ (tok (rRow.cell rAttr).strVal).length)
    (hthr : f.cfg.ovThr (tok (lRow.cell lAttr).strVal).length (tok (rRow.cell rAttr).strVal).length ≤
      (interCount (tok (lRow.cell lAttr).strVal) (tok (rRow.cell rAttr).strVal) : Int)) :
    outputRow o lRow rRow ∈ suffixFilterTablesSplit f tok o lAttr rAttr ltable rtable := by
  rw [mem_suffixFilterTablesSplit]
  refine ⟨lRow, hl, rRow, hr, ?_⟩
  rw [suffixPairRows_safe f o _ lRow rRow _ _ (hnd _) (hnd _)
    (genTokenOrdering_isSome _ _ (List.mem_append_left _ (List.mem_map.2 ⟨lRow, hl, rfl⟩)))
    (genTokenOrdering_isSome _ _ (List.mem_append_right _ (List.mem_map.2 ⟨rRow, hr, rfl⟩)))
    (genTokenOrdering_inj _) hne hpa hpb hpa' hpb' hthr]
  simp

/-- both token lists empty and `handleEmpty f`: the row of the pair is in the output -/
theorem suffixFilterTablesSplit_empty (f : FilterObj) (tok : String → List Tok)
    (o : OutCfg) (lAttr rAttr : Nat) (ltable rtable : List Row) (lRow rRow : Row)
    (hl : lRow ∈ ltable) (hr : rRow ∈ rtable)
    (ha : (tok (lRow.cell lAttr).strVal).length = 0) (hb : (tok (rRow.cell rAttr).strVal).length = 0)
    (he : handleEmpty f = true) :
    outputRow o lRow rRow ∈ suffixFilterTablesSplit f tok o lAttr rAttr ltable rtable := by
  rw [mem_suffixFilterTablesSplit]
  refine ⟨lRow, hl, rRow, hr, ?_⟩
  rw [suffixPairRows_empty f o _ lRow rRow _ _ ha hb, if_pos he]
  simp

end SSJ

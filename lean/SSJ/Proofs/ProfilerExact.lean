/-
  SSJ.Proofs.ProfilerExact — property C17: the profiler model (`SSJ/Model/Profiler.lean`) against the independent
  specification `SSJ/Spec/ProfilerSpec.lean`.

  * `dedupBy_length`            a table keyed by an equality "same image under f" holds as many elements as there are
                                distinct images;
  * `pyEq_iff`                  the model's pairwise Python `==` on cells is "same `Value`";
  * `uniqueCount_eq`, `missingCount_eq`   the model's counts are `distinctValues`, `missingValues`;
  * `percent_eq`                `round(float(k) / float(n) * 100, 2)` evaluates in `PyV` without error to `percentDouble`
                                (a table without rows: `0.0` on both sides, `percentDouble_zero_rows`);
  * `percentDouble_eq_two_decimals`, `rhe_rn_hundredths`, `pctHundredths_close`   the percentage is the double nearest
                                to a two-decimal number in [0, 100], which is the exact percentage rounded to 2 decimals;
  * `pctToString_eq`, `formatStatistic_percent`   the rendered entry is the specification's `statString`;
  * `profileColumn_*`           C17 for one column.
-/
import Mathlib.Data.Finset.Option
import Mathlib.Tactic.IntervalCases
import SSJ.Spec.ProfilerSpec
import SSJ.Proofs.Profiler
import SSJ.Proofs.Arith

namespace SSJ.Profiler
open SSJ

/-! ### `dedupBy`: a hash table keyed by an equality that is "same image under `f`" -/
section DedupBy
variable {α β : Type} [DecidableEq β]

omit [DecidableEq β] in
theorem dedupBy_fold (eq : α → α → Bool) (f : α → β) (h : ∀ a b, eq a b = true ↔ f a = f b)
    (l acc : List α) (hacc : (acc.map f).Nodup) :
    ((l.foldl (fun acc a => if acc.any (fun b => eq b a) then acc else a :: acc) acc).map f).Nodup ∧
    ∀ x, x ∈ (l.foldl (fun acc a => if acc.any (fun b => eq b a) then acc else a :: acc) acc).map f ↔
      x ∈ acc.map f ∨ x ∈ l.map f := by
  induction l generalizing acc with
  | nil => simp [hacc]
  | cons a l ih =>
    simp only [List.foldl_cons]
    by_cases hany : acc.any (fun b => eq b a) = true
    · rw [if_pos hany]
      obtain ⟨h1, h2⟩ := ih acc hacc
      refine ⟨h1, fun x => ?_⟩
      rw [h2 x, List.map_cons, List.mem_cons]
      obtain ⟨b, hb, hba⟩ := List.any_eq_true.mp hany
      have hfa : f a ∈ acc.map f := List.mem_map.mpr ⟨b, hb, (h b a).mp hba⟩
      constructor
      · rintro (hx | hx)
        · exact Or.inl hx
        · exact Or.inr (Or.inr hx)
      · rintro (hx | hx | hx)
        · exact Or.inl hx
        · exact Or.inl (hx ▸ hfa)
        · exact Or.inr hx
    · rw [if_neg hany]
      have hfa : f a ∉ acc.map f := by
        intro hmem
        obtain ⟨b, hb, hba⟩ := List.mem_map.mp hmem
        exact hany (List.any_eq_true.mpr ⟨b, hb, (h b a).mpr hba⟩)
      obtain ⟨h1, h2⟩ := ih (a :: acc) (by rw [List.map_cons]; exact List.nodup_cons.mpr ⟨hfa, hacc⟩)
      refine ⟨h1, fun x => ?_⟩
      rw [h2 x, List.map_cons, List.map_cons, List.mem_cons, List.mem_cons]
      tauto

/-- the number of elements `dedupBy` keeps is the number of distinct images -/
theorem dedupBy_length (eq : α → α → Bool) (f : α → β) (h : ∀ a b, eq a b = true ↔ f a = f b) (l : List α) :
    (dedupBy eq l).length = (l.map f).toFinset.card := by
  obtain ⟨h1, h2⟩ := dedupBy_fold eq f h l [] (by simp)
  have : ((dedupBy eq l).map f).toFinset = (l.map f).toFinset := by
    ext x
    rw [List.mem_toFinset, List.mem_toFinset]
    unfold dedupBy
    rw [h2 x]
    simp
  have h1' : ((dedupBy eq l).map f).Nodup := h1
  rw [← this, List.toFinset_card_of_nodup h1', List.length_map]

end DedupBy

/-! ### the model's cell equality is the specification's "same value" -/
open ProfilerSpec

theorem isMissing_iff (c : Cell) : c.isMissing = true ↔ c = .missing := by
  cases c <;> simp [Cell.isMissing]

theorem valueOf_eq_none_iff (c : Cell) : valueOf c = none ↔ c = .missing := by
  cases c <;> simp [valueOf]

/-- `Cell.pyEq` (the model: pairwise Python `==`) holds exactly when the two cells hold the same `Value`
    (the specification) — missing cells included (missing "equals" missing only) -/
theorem pyEq_iff (a b : Cell) : a.pyEq b = true ↔ valueOf a = valueOf b := by
  have hTF : ("bool:True" : String) ≠ "bool:False" := by decide
  cases a <;> cases b <;>
    simp only [Cell.pyEq, Cell.numVal?, valueOf, beq_iff_eq, Option.some.injEq, Value.num.injEq,
      Value.str.injEq, reduceCtorEq, Int.cast_inj, Bool.false_eq_true] <;>
    (try split_ifs) <;>
    simp_all


/-! ### counts: the model against the specification -/

theorem missingCount_eq (col : List Cell) : missingCount col = missingValues col := by
  unfold missingCount missingValues
  rw [List.count_eq_countP, List.countP_eq_length_filter]
  congr 1
  apply List.filter_congr
  intro c _
  cases c <;> simp [Cell.isMissing]

theorem missingCount_le (col : List Cell) : missingCount col ≤ col.length :=
  List.length_filter_le _ _

theorem missingCount_pos_iff (col : List Cell) :
    0 < missingCount col ↔ ∃ c ∈ col, c.isMissing = true := by
  unfold missingCount
  rw [List.length_pos_iff_exists_mem]
  simp only [List.mem_filter]

theorem missingCount_pos_iff_mem (col : List Cell) : 0 < missingCount col ↔ Cell.missing ∈ col := by
  rw [missingCount_pos_iff]
  constructor
  · rintro ⟨c, hc, hm⟩
    rwa [(isMissing_iff c).mp hm] at hc
  · intro h
    exact ⟨_, h, rfl⟩

theorem missingCount_eq_zero_iff (col : List Cell) :
    missingCount col = 0 ↔ ∀ c ∈ col, c.isMissing = false := by
  unfold missingCount
  rw [List.length_eq_zero_iff, List.filter_eq_nil_iff]
  simp

theorem missingCount_eq_zero_iff_not_mem (col : List Cell) : missingCount col = 0 ↔ Cell.missing ∉ col := by
  rw [← missingCount_pos_iff_mem]
  omega

theorem missingValues_pos_iff (col : List Cell) : 0 < missingValues col ↔ Cell.missing ∈ col := by
  rw [← missingCount_eq, missingCount_pos_iff_mem]

/-- the set of present values is the set of all cell values with "missing" (`none`) removed -/
theorem presentValues_eq (col : List Cell) :
    presentValues col = Finset.eraseNone (col.map valueOf).toFinset := by
  ext v
  simp only [presentValues, List.mem_toFinset, List.mem_filterMap, Finset.mem_eraseNone, List.mem_map]

theorem none_mem_values_iff (col : List Cell) : none ∈ (col.map valueOf).toFinset ↔ Cell.missing ∈ col := by
  rw [List.mem_toFinset, List.mem_map]
  constructor
  · rintro ⟨c, hc, hv⟩
    rwa [(valueOf_eq_none_iff c).mp hv] at hc
  · intro h
    exact ⟨_, h, rfl⟩

/-- "a missing value counts as one value": the number of distinct values is the number of distinct elements of the
    column read as `Option Value`s, `none` being the one missing value -/
theorem distinctValues_eq_card (col : List Cell) :
    distinctValues col = (col.map valueOf).toFinset.card := by
  unfold distinctValues
  rw [presentValues_eq]
  by_cases h : Cell.missing ∈ col
  · have hn := (none_mem_values_iff col).mpr h
    rw [if_pos h, Finset.card_eraseNone_of_mem hn]
    have : 0 < (col.map valueOf).toFinset.card := Finset.card_pos.mpr ⟨_, hn⟩
    omega
  · have hn : none ∉ (col.map valueOf).toFinset := fun hn => h ((none_mem_values_iff col).mp hn)
    rw [if_neg h, Finset.card_eraseNone_of_not_mem hn, Nat.add_zero]

/-- `nunique(dropna=True)` of the model is the number of distinct present values -/
theorem nunique_eq (col : List Cell) : nunique col = (presentValues col).card := by
  unfold nunique
  rw [dedupBy_length Cell.pyEq valueOf pyEq_iff]
  set pres := col.filter (fun c => !c.isMissing) with hpres
  have hn : none ∉ (pres.map valueOf).toFinset := by
    rw [List.mem_toFinset, List.mem_map]
    rintro ⟨c, hc, hv⟩
    have := (List.mem_filter.mp hc).2
    rw [(valueOf_eq_none_iff c).mp hv] at this
    simp [Cell.isMissing] at this
  rw [← Finset.card_eraseNone_of_not_mem hn]
  congr 1
  ext v
  simp only [presentValues, List.mem_toFinset, List.mem_filterMap, Finset.mem_eraseNone, List.mem_map, hpres,
    List.mem_filter]
  constructor
  · rintro ⟨c, ⟨hc, _⟩, hv⟩
    exact ⟨c, hc, hv⟩
  · rintro ⟨c, hc, hv⟩
    refine ⟨c, ⟨hc, ?_⟩, hv⟩
    cases c <;> simp_all [valueOf, Cell.isMissing]

/-- the model's unique count IS the number of distinct values of the specification -/
theorem uniqueCount_eq (col : List Cell) : uniqueCount col = distinctValues col := by
  unfold uniqueCount distinctValues
  rw [nunique_eq]
  congr 1
  by_cases h : Cell.missing ∈ col
  · rw [if_pos h, if_pos ((missingCount_pos_iff_mem col).mpr h)]
  · rw [if_neg h, if_neg (fun h' => h ((missingCount_pos_iff_mem col).mp h'))]

theorem distinctValues_le (col : List Cell) : distinctValues col ≤ col.length := by
  rw [distinctValues_eq_card]
  exact (List.toFinset_card_le _).trans_eq (List.length_map _)

theorem distinctValues_pos (col : List Cell) (h : col ≠ []) : 1 ≤ distinctValues col := by
  rw [distinctValues_eq_card]
  obtain ⟨a, ha⟩ := List.exists_mem_of_ne_nil col h
  exact Finset.card_pos.mpr ⟨valueOf a, List.mem_toFinset.mpr (List.mem_map_of_mem ha)⟩

/-- as many distinct values as rows ⇔ no two cells hold the same value (two missing cells do) -/
theorem distinctValues_eq_length_iff (col : List Cell) :
    distinctValues col = col.length ↔ AllDistinct col := by
  unfold AllDistinct
  rw [distinctValues_eq_card]
  have := Multiset.toFinset_card_eq_card_iff_nodup (m := ((col.map valueOf : List (Option Value)) : Multiset (Option Value)))
  simpa using this

theorem missingValues_le (col : List Cell) : missingValues col ≤ col.length := List.count_le_length

theorem uniqueCount_le (col : List Cell) : uniqueCount col ≤ col.length := by
  rw [uniqueCount_eq]; exact distinctValues_le col

theorem uniqueCount_pos (col : List Cell) (h : col ≠ []) : 1 ≤ uniqueCount col := by
  rw [uniqueCount_eq]; exact distinctValues_pos col h

/-- all values distinct ⇔ the unique count equals the number of rows -/
theorem uniqueCount_eq_length_iff (col : List Cell) : uniqueCount col = col.length ↔ AllDistinct col := by
  rw [uniqueCount_eq]; exact distinctValues_eq_length_iff col

theorem uniqueCount_bounds (col : List Cell) (h : col ≠ []) :
    1 ≤ uniqueCount col ∧ uniqueCount col ≤ col.length :=
  ⟨uniqueCount_pos col h, uniqueCount_le col⟩

/-! ### the percentage: `round(float(k) / float(n) * 100, 2)` and its `str` -/
open F64

/-- the unrounded-to-2-decimals percentage `float(k) / float(n) * 100` as a double -/
def rawPct (k n : Nat) : Rat := rn (rn ((k : Rat) / (n : Rat)) * 100)

theorem ratio_bounds {k n : Nat} (hk : k ≤ n) : (0 : Rat) ≤ (k : Rat) / n ∧ (k : Rat) / n ≤ 1 := by
  rcases Nat.eq_zero_or_pos n with rfl | h1
  · simp
  have hn : (0 : Rat) < n := by exact_mod_cast h1
  refine ⟨by positivity, ?_⟩
  rw [div_le_one hn]
  exact_mod_cast hk

theorem rn_ratio_bounds {k n : Nat} (hk : k ≤ n) :
    0 ≤ rn ((k : Rat) / n) ∧ rn ((k : Rat) / n) ≤ 1 := by
  obtain ⟨h0, hle⟩ := ratio_bounds hk
  exact ⟨rn_nonneg h0, rn_le_one h0 hle⟩

theorem rawPct_bounds {k n : Nat} (hk : k ≤ n) : 0 ≤ rawPct k n ∧ rawPct k n ≤ 100 := by
  obtain ⟨h0, hle⟩ := rn_ratio_bounds hk
  unfold rawPct
  refine ⟨rn_nonneg (by positivity), ?_⟩
  have := rn_le_int (q := rn ((k : Rat) / n) * 100) (k := 100) (by positivity) (by norm_num)
    (by push_cast; linarith)
  simpa using this

/-- the specification's double for a table without rows is `0.0` (`k / 0 = 0` in `Rat`): what the code's
    `else` branch assigns -/
theorem percentDouble_zero_rows (k : Nat) : percentDouble k 0 = 0 := by
  unfold percentDouble round2 roundN
  simp only [Nat.cast_zero, div_zero, rn_zero, zero_mul]
  have := rhe_int 0
  simp only [Int.cast_zero] at this
  norm_num [this, rn_zero]

/-- `round(float(k) / float(n) * 100, 2)` (or the `0.0` of a table without rows) evaluates without any Python error
    to the specification's double -/
theorem percent_eq (k n : Nat) (hk : k ≤ n) (hn : n < 2 ^ 53) :
    percent k n = .float (percentDouble k n) := by
  rcases Nat.eq_zero_or_pos n with rfl | h1
  · rw [percentDouble_zero_rows]; rfl
  have hnR : (n : Rat) ≤ 2 ^ 53 := by exact_mod_cast hn.le
  have hkR : (k : Rat) ≤ 2 ^ 53 := le_trans (by exact_mod_cast hk) hnR
  have hn0 : (n : Rat) ≠ 0 := by
    have : (0 : Rat) < n := by exact_mod_cast h1
    exact ne_of_gt this
  obtain ⟨h0, hle⟩ := ratio_bounds hk
  obtain ⟨r0, rle⟩ := rn_ratio_bounds hk
  unfold percent percentDouble
  rw [if_neg (by omega), toFloat_n k hkR, toFloat_n n hnR, div_ff _ _ hn0,
    ofExact_float h0 (le_trans hle (by norm_num))]
  have h100 : PyV.mul (.float (rn ((k : Rat) / n))) (.int 100) = PyV.ofExact (rn ((k : Rat) / n) * 100) := by
    have := mul_fn (rn ((k : Rat) / n)) 100 (by norm_num)
    simpa using this
  rw [h100, ofExact_float (by positivity) (by linarith [show (100 : Rat) ≤ 2 ^ 100 by norm_num])]
  simp [PyV.round, round2]


/-- the percentage in hundredths: `round(·, 2)` rounds the raw percentage to this many hundredths -/
def pctHundredths (k n : Nat) : Int := rhe (rawPct k n * 100)

theorem pctHundredths_bounds {k n : Nat} (hk : k ≤ n) :
    0 ≤ pctHundredths k n ∧ pctHundredths k n ≤ 10000 := by
  obtain ⟨h0, hle⟩ := rawPct_bounds hk
  unfold pctHundredths
  refine ⟨rhe_nonneg (by positivity), ?_⟩
  have := rhe_mono (q := rawPct k n * 100) (r := ((10000 : Int) : Rat)) (by push_cast; linarith)
  rwa [rhe_int] at this

/-- the profiler's percentage is the double nearest to a two-decimal number `c / 100`, `0 ≤ c ≤ 10000` -/
theorem percentDouble_eq_two_decimals (k n : Nat) :
    percentDouble k n = rn ((pctHundredths k n : Rat) / 100) := by
  unfold percentDouble round2 roundN pctHundredths rawPct
  norm_num

/-- reading the hundredths back from the double nearest to `c / 100` gives `c`: such doubles are pairwise
    different and the decimal `c / 100` determines, and is determined by, the double -/
theorem rhe_rn_hundredths (c : Int) (h0 : 0 ≤ c) (h : c ≤ 10000) : rhe (rn ((c : Rat) / 100) * 100) = c := by
  rcases h0.eq_or_lt with rfl | hpos
  · have := rhe_int 0
    simpa [rn_zero] using this
  · have hc1 : (1 : Rat) ≤ c := by exact_mod_cast hpos
    have hc2 : (c : Rat) ≤ 10000 := by exact_mod_cast h
    have hw : (1 : Rat) / 2 ^ 100 ≤ (c : Rat) / 100 := by
      have : (1 : Rat) / 2 ^ 100 ≤ 1 / 100 := by norm_num
      linarith [show (1 : Rat) / 100 ≤ (c : Rat) / 100 by linarith]
    have hub := rn_ub hw
    have hlb := rn_lb hw
    have he : (c : Rat) / 100 * (1 / 2 ^ 53) ≤ 1 / 2 ^ 40 := by
      have : (c : Rat) / 100 ≤ 100 := by linarith
      calc (c : Rat) / 100 * (1 / 2 ^ 53) ≤ 100 * (1 / 2 ^ 53) := by
            apply mul_le_mul_of_nonneg_right this (by positivity)
        _ ≤ 1 / 2 ^ 40 := by norm_num
    apply le_antisymm
    · apply rhe_le_of_lt
      nlinarith
    · apply le_rhe_of_lt
      nlinarith

theorem hundredths_percentDouble {k n : Nat} (hk : k ≤ n) :
    hundredths (percentDouble k n) = (pctHundredths k n).toNat := by
  obtain ⟨h0, hle⟩ := pctHundredths_bounds hk
  unfold hundredths
  rw [percentDouble_eq_two_decimals, rhe_rn_hundredths _ h0 hle]

/-- … and that two-decimal number is the exact percentage `100·k/n` rounded to two decimals, up to the error of the
    two binary roundings (`< 10⁻¹³`): "percentage to two decimals" -/
theorem pctHundredths_close {k n : Nat} (hk : k ≤ n) (h1 : 1 ≤ n) (hn : n < 2 ^ 53) :
    |(pctHundredths k n : Rat) / 100 - 100 * (k : Rat) / n| ≤ 1 / 200 + 1 / 10 ^ 13 := by
  have hnpos : (0 : Rat) < n := by exact_mod_cast h1
  have herr := rhe_err (rawPct k n * 100)
  have hraw : |rawPct k n - 100 * (k : Rat) / n| ≤ 1 / 10 ^ 13 := by
    rcases Nat.eq_zero_or_pos k with rfl | hkpos
    · simp [rawPct, rn_zero]
    · obtain ⟨h0, hle⟩ := ratio_bounds hk
      have hx : (1 : Rat) / 2 ^ 53 ≤ (k : Rat) / n := by
        rw [div_le_div_iff₀ (by positivity) hnpos, one_mul]
        have : (n : Rat) ≤ 2 ^ 53 := by exact_mod_cast hn.le
        have : (1 : Rat) ≤ k := by exact_mod_cast hkpos
        nlinarith
      have hx' : (1 : Rat) / 2 ^ 100 ≤ (k : Rat) / n := le_trans (by norm_num) hx
      have u1 := rn_ub hx'
      have l1 := rn_lb hx'
      have hr1 : (1 : Rat) / 2 ^ 100 ≤ rn ((k : Rat) / n) * 100 := by
        have : (1 : Rat) / 2 ^ 100 ≤ (k : Rat) / n * (1 - 1 / 2 ^ 53) * 100 := by
          have : (1 : Rat) / 2 ^ 53 * (1 - 1 / 2 ^ 53) * 100 ≤ (k : Rat) / n * (1 - 1 / 2 ^ 53) * 100 := by
            apply mul_le_mul_of_nonneg_right _ (by norm_num)
            apply mul_le_mul_of_nonneg_right hx (by norm_num)
          linarith [show (1 : Rat) / 2 ^ 100 ≤ 1 / 2 ^ 53 * (1 - 1 / 2 ^ 53) * 100 by norm_num]
        linarith
      have u2 := rn_ub hr1
      have l2 := rn_lb hr1
      have e : 100 * (k : Rat) / n = (k : Rat) / n * 100 := by ring
      unfold rawPct
      rw [e, abs_le]
      set x := (k : Rat) / n
      set r := rn x
      have hr0 : 0 ≤ r := rn_nonneg h0
      constructor <;> nlinarith
  have h2 : |(pctHundredths k n : Rat) / 100 - rawPct k n| ≤ 1 / 200 := by
    unfold pctHundredths
    rw [abs_le] at herr ⊢
    constructor <;> linarith [herr.1, herr.2]
  calc |(pctHundredths k n : Rat) / 100 - 100 * (k : Rat) / n|
      = |((pctHundredths k n : Rat) / 100 - rawPct k n) + (rawPct k n - 100 * (k : Rat) / n)| := by ring_nf
    _ ≤ _ := (abs_add_le _ _).trans (add_le_add h2 hraw)


/-! ### rendering -/

theorem two_digits (m : Nat) (h1 : 10 ≤ m) (h2 : m < 100) :
    toString m = toString (m / 10) ++ toString (m % 10) := by
  interval_cases m <;> rfl

theorem toString_natCast (m : Nat) : toString ((m : Nat) : Int) = toString m := rfl

/-- the model's renderer and the specification's renderer agree on every double with a non-negative number of
    hundredths -/
theorem pctToString_eq (q : Rat) (h : 0 ≤ rhe (q * 100)) : pctToString q = reprHundredths (hundredths q) := by
  unfold pctToString reprHundredths hundredths
  obtain ⟨c, hc⟩ := Int.eq_ofNat_of_zero_le h
  rw [hc]
  simp only [Int.toNat_natCast]
  have e1 : ((c : Int) / 100) = ((c / 100 : Nat) : Int) := by norm_cast
  have e2 : ((c : Int) % 100).toNat = c % 100 := by
    rw [show ((c : Int) % 100) = ((c % 100 : Nat) : Int) by norm_cast, Int.toNat_natCast]
  rw [e1, e2]
  have e3 : c % 100 % 10 = c % 10 := by omega
  rw [e3]
  by_cases hd : c % 10 = 0
  · simp only [hd, if_true]
    rfl
  · simp only [hd, if_false]
    by_cases hlt : c % 100 < 10
    · rw [if_pos hlt]
      have h1 : c % 100 / 10 = 0 := by omega
      have h2 : c % 100 = c % 10 := by omega
      rw [h1, h2]
      show toString ((c / 100 : Nat) : Int) ++ ".0" ++ toString (c % 10) = toString (c / 100) ++ "." ++ "0" ++ toString (c % 10)
      rw [toString_natCast, String.append_assoc (s₁ := toString (c / 100)) (s₂ := ".") (s₃ := "0")]
      rfl
    · rw [if_neg hlt]
      show toString ((c / 100 : Nat) : Int) ++ "." ++ toString (c % 100) = toString (c / 100) ++ "." ++ toString (c % 100 / 10) ++ toString (c % 10)
      rw [toString_natCast, two_digits (c % 100) (by omega) (by omega), ← String.append_assoc, e3]


/-! ### C17 for `profileColumn` -/

/-- the formatted statistic of the model is the specification's entry: no Python error, no `"?%"` fallback -/
theorem formatStatistic_percent (stat k n : Nat) (hk : k ≤ n) (hn : n < 2 ^ 53) :
    formatStatistic stat (percent k n) = s!"{stat} ({percentString k n}%)" := by
  rw [percent_eq k n hk hn]
  unfold formatStatistic percentString
  simp only
  rw [pctToString_eq]
  rw [percentDouble_eq_two_decimals, rhe_rn_hundredths _ (pctHundredths_bounds hk).1 (pctHundredths_bounds hk).2]
  exact (pctHundredths_bounds hk).1

theorem percentString_eq {k n : Nat} (hk : k ≤ n) :
    percentString k n = reprHundredths (pctHundredths k n).toNat := by
  unfold percentString
  rw [hundredths_percentDouble hk]

/-- a table without rows: the specification's percentage string is "0.0", whatever the count -/
theorem percentString_zero_rows (k : Nat) : percentString k 0 = "0.0" := by
  unfold percentString hundredths
  rw [percentDouble_zero_rows, zero_mul]
  have := rhe_int 0
  simp only [Int.cast_zero] at this
  rw [this]
  decide

theorem statString_zero_rows : statString 0 0 = "0 (0.0%)" := by
  unfold statString
  rw [percentString_zero_rows]
  decide

theorem pctHundredths_self {n : Nat} (h1 : 1 ≤ n) : pctHundredths n n = 10000 := by
  have hn : (n : Rat) ≠ 0 := by
    have : (0 : Rat) < n := by exact_mod_cast h1
    exact ne_of_gt this
  unfold pctHundredths rawPct
  rw [div_self hn]
  have e1 : rn 1 = 1 := by simpa using rn_int 1 (by norm_num)
  have e2 : rn (1 * 100) = 100 := by simpa using rn_int 100 (by norm_num)
  rw [e1, e2, show (100 : Rat) * 100 = ((10000 : Int) : Rat) by norm_num, rhe_int]

theorem pctHundredths_zero (n : Nat) : pctHundredths 0 n = 0 := by
  unfold pctHundredths rawPct
  simp only [Nat.cast_zero, zero_div, rn_zero, zero_mul]
  simpa using rhe_int 0

/-- whenever the exact percentage `100·k/n`, in hundredths, is not within `10⁻¹⁰` of a rounding tie, the printed
    percentage is the correctly rounded one -/
theorem pctHundredths_of_near {k n : Nat} (c : Nat) (hk : k ≤ n) (h1 : 1 ≤ n) (hn : n < 2 ^ 53)
    (hlo : (c : Rat) - 1 / 2 + 1 / 10 ^ 10 ≤ 10000 * (k : Rat) / n)
    (hhi : 10000 * (k : Rat) / n ≤ (c : Rat) + 1 / 2 - 1 / 10 ^ 10) : pctHundredths k n = c := by
  have hclose := abs_le.mp (pctHundredths_close hk h1 hn)
  have e : 10000 * (k : Rat) / n = 100 * (100 * (k : Rat) / n) := by ring
  rw [e] at hlo hhi
  have h1' : (pctHundredths k n : Rat) < (c : Rat) + 1 := by
    have := hclose.2
    linarith [show (1 : Rat) / 10 ^ 13 * 100 < 1 / 10 ^ 10 by norm_num]
  have h2' : (c : Rat) - 1 < (pctHundredths k n : Rat) := by
    have := hclose.1
    linarith [show (1 : Rat) / 10 ^ 13 * 100 < 1 / 10 ^ 10 by norm_num]
  have h3 : pctHundredths k n < (c : Int) + 1 := by exact_mod_cast h1'
  have h4 : (c : Int) - 1 < pctHundredths k n := by exact_mod_cast h2'
  omega

/-- the 'Unique values' entry: the exact number of distinct values and its percentage -/
theorem profileColumn_fst (col : List Cell) (hn : col.length < 2 ^ 53) :
    (profileColumn col).1 = statString (distinctValues col) col.length := by
  unfold profileColumn statString
  simp only
  rw [uniqueCount_eq, formatStatistic_percent _ _ _ (distinctValues_le col) hn]

/-- the 'Missing values' entry: the exact number of missing values and its percentage -/
theorem profileColumn_snd (col : List Cell) (hn : col.length < 2 ^ 53) :
    (profileColumn col).2.1 = statString (missingValues col) col.length := by
  unfold profileColumn statString
  simp only
  rw [missingCount_eq, formatStatistic_percent _ _ _ (missingValues_le col) hn]

/-- the profile of a column of a table without rows -/
theorem profileColumn_nil :
    profileColumn [] = ("0 (0.0%)", "0 (0.0%)", "This attribute can be used as a key attribute.") := by
  have a := profileColumn_fst [] (by norm_num)
  have b := profileColumn_snd [] (by norm_num)
  have c : (profileColumn []).2.2 = "This attribute can be used as a key attribute." := by
    unfold profileColumn
    simp only
    rw [comment_key_iff]
    decide
  rw [show distinctValues [] = 0 by decide, List.length_nil, statString_zero_rows] at a
  rw [show missingValues [] = 0 by decide, List.length_nil, statString_zero_rows] at b
  exact Prod.ext a (Prod.ext b c)

/-- "This attribute can be used as a key attribute." ⇔ all values distinct and none missing -/
theorem profileColumn_key_iff (col : List Cell) :
    (profileColumn col).2.2 = "This attribute can be used as a key attribute." ↔
      AllDistinct col ∧ Cell.missing ∉ col := by
  unfold profileColumn
  simp only
  rw [comment_key_iff, uniqueCount_eq_length_iff, missingCount_eq_zero_iff_not_mem]

/-- "Joining on this attribute will ignore <missing stat> rows." ⇔ some value is missing -/
theorem profileColumn_ignore_iff (col : List Cell) :
    (profileColumn col).2.2 =
        s!"Joining on this attribute will ignore {(profileColumn col).2.1} rows." ↔
      Cell.missing ∈ col := by
  unfold profileColumn
  simp only
  rw [comment_ignore_iff', missingCount_pos_iff_mem]

/-- the comment starts with "Joining on this attribute will ignore " ⇔ some value is missing -/
theorem profileColumn_ignore_prefix_iff (col : List Cell) :
    "Joining on this attribute will ignore ".toList <+: (profileColumn col).2.2.toList ↔
      Cell.missing ∈ col := by
  unfold profileColumn
  simp only
  rw [← missingCount_pos_iff_mem]
  exact comment_prefix_iff _ _ _ _

/-- the comment is empty ⇔ no value is missing but some value repeats -/
theorem profileColumn_empty_iff (col : List Cell) :
    (profileColumn col).2.2 = "" ↔ ¬ AllDistinct col ∧ Cell.missing ∉ col := by
  unfold profileColumn
  simp only
  rw [comment_empty_iff, ← uniqueCount_eq_length_iff, missingCount_eq_zero_iff_not_mem]

/-- a column with a missing value is never reported as a key -/
theorem profileColumn_missing_not_key (col : List Cell) (h : Cell.missing ∈ col) :
    (profileColumn col).2.2 ≠ "This attribute can be used as a key attribute." := by
  rw [Ne, profileColumn_key_iff]
  rintro ⟨_, h2⟩
  exact h2 h

/-- the three comments are mutually exclusive and exhaustive -/
theorem profileColumn_comment_cases (col : List Cell) :
    (profileColumn col).2.2 = "This attribute can be used as a key attribute." ∨
    (profileColumn col).2.2 = s!"Joining on this attribute will ignore {(profileColumn col).2.1} rows." ∨
    (profileColumn col).2.2 = "" := by
  unfold profileColumn
  simp only
  rw [comment_eq]
  split_ifs
  · exact Or.inl rfl
  · exact Or.inr (Or.inl rfl)
  · exact Or.inr (Or.inr rfl)

/-- the count bounds for a non-empty table -/
theorem profileColumn_counts (col : List Cell) (h : col ≠ []) :
    missingValues col ≤ col.length ∧ 1 ≤ distinctValues col ∧ distinctValues col ≤ col.length :=
  ⟨missingValues_le col, distinctValues_pos col h, distinctValues_le col⟩

end SSJ.Profiler

/-
  SSJ.Proofs.EntryWide — the helper lemmas of `Proofs/EntrySetSim.lean` (C01/C02), `Proofs/EntryFilters.lean`
  (C04/C14) and `Proofs/EntryLaws.lean` (C13) that carry the hypothesis `ThrOK thr` (a float threshold with
  `2⁻²⁰ ≤ thr ≤ 1`), re-proved for every covered threshold VALUE `th : PyV` with `WideThr m th`
  (`Proofs/ArithWide.lean`): a float `t` with `thrLo m ≤ t ≤ 1` (`thrLo = 2⁻⁹⁸⁹` JACCARD / DICE, `2⁻⁴⁹⁵` COSINE) or the
  Python int `1`.  The configuration of the generated bound functions is `cfgWith m th`; the numeric value of the
  threshold is `thrVal th`.

  Layout
  0. threshold values: positivity, validity, the comparison map `compFn` against a numeric threshold value;
  1. every covered threshold value behaves like the float `thrVal th` on sizes `< 2³²` (`wide_bounds_eq`); consequences:
     `lower_le_self_wide`, `upper_zero_lt_wide`, `lower_pos_wide`, `prefixLen_le_wide`, `size_tight_*_wide`
     (the tightness statements and the `prefThr` statements force `thrVal th > 10⁻⁴`, i.e. `ThrOK`, so they reduce to the
     lemmas of `Arith`; for the int `1` through `int1_eq_float1`);
  2. `sameBounds_wide` (bounds do not depend on `qval`);
  3. joins: `boundsFacts_of_qual_wide`, `chunkPart_complete_wide`, `complete_wide` (C01), `sound_any` (C02, any
     threshold value);
  4. filters: `qual_facts_wide`, `reaches_of_qualStrict_wide`, `filterPair_safe_set_wide`, `filterTables_safe_set_wide`;
  5. fixtures for the non-vacuity examples of the `Props/*_wide` files (threshold `2⁻³⁰`, threshold int `1`).
-/
import SSJ.Proofs.ArithWide
import SSJ.Proofs.EntrySetSim
import SSJ.Proofs.EntryFilters
import SSJ.Proofs.EntryLaws

namespace SSJ
open SSJ.Props SSJ.Spec F64 EntryLaws
open EntryFilters (SameBounds)

/-! ## 0. threshold values -/

theorem thrVal_float (t : Rat) : thrVal (.float t) = t := rfl
theorem thrVal_int1 : thrVal (.int 1) = 1 := by simp [thrVal]

theorem thrLo_pos (m : Measure) : 0 < thrLo m := by
  cases m <;> simp only [thrLo] <;> positivity

theorem WideThr.pos {m : Measure} {th : PyV} (h : WideThr m th) : 0 < thrVal th := by
  cases h with
  | float t ht => exact lt_of_lt_of_le (thrLo_pos m) ht.lo
  | intOne => rw [thrVal_int1]; norm_num

theorem WideThr.le_one {m : Measure} {th : PyV} (h : WideThr m th) : thrVal th ≤ 1 := by
  cases h with
  | float t ht => exact ht.hi
  | intOne => rw [thrVal_int1]

theorem WideThr.numThr {m : Measure} {th : PyV} (h : WideThr m th) : NumThr th := by
  cases h with
  | float t ht => exact numThr_float t
  | intOne => exact numThr_int 1

/-- the float `thrVal th` is itself a covered float threshold -/
theorem WideThr.wide {m : Measure} {th : PyV} (h : WideThr m th) : ThrWide m (thrVal th) := by
  cases h with
  | float t ht => exact ht
  | intOne => rw [thrVal_int1]; exact thrOK_one.wide m

/-- every covered threshold value passes `validate_threshold` of jaccard / cosine / dice -/
theorem WideThr.valid {m : Measure} (hm : SetMeasure m) {th : PyV} (h : WideThr m th) :
    Gen.validate_threshold th (.str m.name) ≠ .err .assertion := by
  cases h with
  | float t ht => exact unitThr_valid _ (setMeasure_unit hm) t (lt_of_lt_of_le (thrLo_pos m) ht.lo) ht.hi
  | intOne =>
    intro h
    have := (Gen.validate_threshold_unit_int m.name 1 (setMeasure_unit hm)).1 h
    omega

namespace EntryWide

/-- `ThrOK` thresholds are covered -/
theorem wideThr_of_thrOK (m : Measure) {t : Rat} (h : ThrOK t) : WideThr m (.float t) := .float t (h.wide m)

/-- the three operators accepted by the similarity joins all imply `threshold ≤ score` (numeric threshold value:
    Python compares an int and a float by value) -/
theorem compFn_float_ge_num {op : String} (hop : op ∈ [">=", ">", "="]) {s : Rat} {th : PyV} (hn : NumThr th)
    (h : compFn op (.float s) th = true) : thrVal th ≤ s := by
  simp only [List.mem_cons, List.not_mem_nil, or_false] at hop
  rcases hn with ⟨q, rfl⟩ | ⟨k, rfl⟩
  · exact EntrySetSim.compFn_float_ge (by simp [hop]) h
  · show ((k : Int) : Rat) ≤ s
    rcases hop with rfl | rfl | rfl
    · simpa [compFn, Gen.comp_op_map, PyV.geb, PyV.leb, PyV.numVal?] using h
    · have : ((k : Int) : Rat) < s := by simpa [compFn, Gen.comp_op_map, PyV.gtb, PyV.ltb, PyV.numVal?] using h
      exact this.le
    · have : s = ((k : Int) : Rat) := by simpa [compFn, Gen.comp_op_map, PyV.eqb, PyV.numVal?] using h
      exact this.ge

/-- the int 0 (py_stringmatching's score when one side is empty) never reaches a positive threshold value -/
theorem compFn_int0_false_num {op : String} (hop : op ∈ [">=", ">", "="]) {th : PyV} (hn : NumThr th)
    (h0 : 0 < thrVal th) : compFn op (.int 0) th = false := by
  rcases hn with ⟨q, rfl⟩ | ⟨k, rfl⟩
  · exact EntrySetSim.compFn_int0_false hop h0
  · have h0' : (0 : Rat) < ((k : Int) : Rat) := h0
    simp only [List.mem_cons, List.not_mem_nil, or_false] at hop
    rcases hop with rfl | rfl | rfl
    · simpa [compFn, Gen.comp_op_map, PyV.geb, PyV.leb, PyV.numVal?] using h0'
    · simpa [compFn, Gen.comp_op_map, PyV.gtb, PyV.ltb, PyV.numVal?] using h0'.le
    · simpa [compFn, Gen.comp_op_map, PyV.eqb, PyV.numVal?] using h0'.ne

/-- against `>=` / `>` an int threshold acts like the float of the same value -/
theorem compFn_num_float (op : String) (hop : op = ">=" ∨ op = ">") (x v : PyV) (hv : NumThr v) :
    compFn op x v = compFn op x (.float (thrVal v)) := by
  rcases hv with ⟨q, rfl⟩ | ⟨k, rfl⟩
  · rfl
  · rcases hop with rfl | rfl
    · rw [compFn_ge]; cases x <;> rfl
    · rw [compFn_gt]; cases x <;> rfl

/-- `>=` and `>` against a numeric threshold value are antitone in the threshold's value -/
theorem ge_mono_num (op : String) (hop : op = ">=" ∨ op = ">") (x : PyV) (v₁ v₂ : PyV) (h₁ : NumThr v₁) (h₂ : NumThr v₂)
    (h12 : thrVal v₁ ≤ thrVal v₂) (h : compFn op x v₂ = true) : compFn op x v₁ = true := by
  rw [compFn_num_float op hop x _ h₂] at h
  rw [compFn_num_float op hop x _ h₁]
  exact ge_mono_float op hop x _ _ h12 h

/-! ## 1. a covered threshold value acts like the float `thrVal th` -/

/-- on sizes `< 2³²` the four generated bounds for the threshold value `th` are those for the float `thrVal th`
    (trivial for a float; for the int `1`: `int1_eq_float1`) -/
theorem wide_bounds_eq (m : Measure) (hm : SetMeasure m) (th : PyV) (hth : WideThr m th) (n k : Nat)
    (hn : n < 2 ^ 32) (hk : k < 2 ^ 32) :
    (cfgWith m th).lower n = (cfgOf m (thrVal th)).lower n ∧ (cfgWith m th).upper n = (cfgOf m (thrVal th)).upper n ∧
    (cfgWith m th).prefixLen n = (cfgOf m (thrVal th)).prefixLen n ∧
    (cfgWith m th).ovThr n k = (cfgOf m (thrVal th)).ovThr n k := by
  cases hth with
  | float t ht => exact ⟨rfl, rfl, rfl, rfl⟩
  | intOne =>
    obtain ⟨a1, a2, a3, a4⟩ := int1_eq_float1 m hm n k hn hk
    rw [thrVal_int1, cfgWith_int1]
    simp only [FCfg.lower, FCfg.upper, FCfg.prefixLen, FCfg.ovThr, a1, a2, a3, a4, and_self]

theorem thrOK_of_gt {t : Rat} (h : 1 / 10000 < t) (h1 : t ≤ 1) : ThrOK t :=
  ⟨le_trans (by norm_num) h.le, h1⟩

theorem prefThr_ge (m : Measure) : 1 / 10000 ≤ prefThr m := by
  cases m <;> simp only [prefThr] <;> norm_num

theorem thrOK_of_pref {m : Measure} {t : Rat} (h : prefThr m ≤ t) (h1 : t ≤ 1) : ThrOK t :=
  ⟨le_trans (by norm_num) (le_trans (prefThr_ge m) h), h1⟩

theorem lowF_zero (m : Measure) (hm : SetMeasure m) (t : Rat) : lowF m t ((0 : Nat) : Rat) = 0 := by
  rcases hm with rfl | rfl | rfl <;> simp [lowF, rn_zero]

theorem upF_zero (m : Measure) (hm : SetMeasure m) (t : Rat) : upF m t ((0 : Nat) : Rat) = 0 := by
  rcases hm with rfl | rfl | rfl <;> simp [upF, rn_zero]

/-- the early exit of the size filter (`lower n > n`) never fires, float thresholds `thrLo m ≤ t ≤ 1` -/
theorem lower_le_selfW (m : Measure) (hm : SetMeasure m) (t : Rat) (ht : ThrWide m t) (n : Nat) (hn : n < 2 ^ 32) :
    (cfgOf m t).lower n ≤ (n : Int) := by
  rcases Nat.eq_zero_or_pos n with rfl | hn1
  · apply lower_le_ofW m hm ht 0 0 hn hn
    rw [lowF_zero m hm]; norm_num
  · exact (bounds_selfW m hm t ht n hn1 hn).lower

/-- a probe without tokens finds no non-empty record, float thresholds `thrLo m ≤ t ≤ 1` -/
theorem upper_zero_ltW (m : Measure) (hm : SetMeasure m) (t : Rat) (ht : ThrWide m t) (k : Nat) (hk1 : 1 ≤ k)
    (hk : k < 2 ^ 32) : (cfgOf m t).upper 0 < (k : Int) := by
  rw [upper_eqW m hm ht 0 (by norm_num), upF_zero m hm]
  have hk1' : (1 : Rat) ≤ k := by exact_mod_cast hk1
  have hk' := natCast_le_of_lt hk
  exact round4_floor_lt (le_refl _) (by push_cast; linarith [show (2 : Rat) ^ 32 ≤ 2 ^ 39 by norm_num])
    (by push_cast; linarith)

/-- the early exit of the size filter never fires, every covered threshold value -/
theorem lower_le_self_wide (m : Measure) (hm : SetMeasure m) (th : PyV) (hth : WideThr m th) (n : Nat)
    (hn : n < 2 ^ 32) : (cfgWith m th).lower n ≤ (n : Int) := by
  rw [(wide_bounds_eq m hm th hth n n hn hn).1]
  exact lower_le_selfW m hm _ hth.wide n hn

/-- `upper 0 < k` for `k ≥ 1`, every covered threshold value -/
theorem upper_zero_lt_wide (m : Measure) (hm : SetMeasure m) (th : PyV) (hth : WideThr m th) (k : Nat) (hk1 : 1 ≤ k)
    (hk : k < 2 ^ 32) : (cfgWith m th).upper 0 < (k : Int) := by
  rw [(wide_bounds_eq m hm th hth 0 0 (by norm_num) (by norm_num)).2.1]
  exact upper_zero_ltW m hm _ hth.wide k hk1 hk

/-- for threshold values `≥ prefThr m` the lower bound of a non-empty record is positive … -/
theorem lower_pos_wide (m : Measure) (hm : SetMeasure m) (th : PyV) (hth : WideThr m th) (h4 : prefThr m ≤ thrVal th)
    (n : Nat) (hn1 : 1 ≤ n) (hn : n < 2 ^ 32) : 1 ≤ (cfgWith m th).lower n := by
  rw [(wide_bounds_eq m hm th hth n n hn hn).1]
  exact lower_pos m hm _ (thrOK_of_pref h4 hth.le_one) h4 n hn1 hn

/-- … hence the prefix is no longer than the record -/
theorem prefixLen_le_wide (m : Measure) (hm : SetMeasure m) (th : PyV) (hth : WideThr m th) (h4 : prefThr m ≤ thrVal th)
    (n : Nat) (hn : n < 2 ^ 32) : (cfgWith m th).prefixLen n ≤ (n : Int) := by
  rw [(wide_bounds_eq m hm th hth n n hn hn).2.2.1]
  exact prefixLen_le m hm _ (thrOK_of_pref h4 hth.le_one) h4 n hn

/-! ### tightness of the size window (C14).  The hypothesis "best attainable similarity `< thr − 10⁻⁴`" forces
    `thr > 10⁻⁴`, so every covered threshold value satisfying it is (numerically) a `ThrOK` threshold. -/

theorem size_tight_jaccard_wide (th : PyV) (hth : WideThr .jaccard th) (n k : Nat) (hn1 : 1 ≤ n) (hk1 : 1 ≤ k)
    (hn : n < 2 ^ 32) (hk : k < 2 ^ 32)
    (h : ((min n k : Nat) : Rat) / ((max n k : Nat) : Rat) < thrVal th - 1 / 10000) :
    ¬ ((cfgWith .jaccard th).lower n ≤ (k : Int) ∧ (k : Int) ≤ (cfgWith .jaccard th).upper n) := by
  have h0 : (0 : Rat) ≤ ((min n k : Nat) : Rat) / ((max n k : Nat) : Rat) := by positivity
  obtain ⟨e1, e2, -, -⟩ := wide_bounds_eq .jaccard (Or.inl rfl) th hth n n hn hn
  rw [e1, e2]
  exact size_tight_jaccard _ (thrOK_of_gt (by linarith) hth.le_one) n k hn1 hk1 hn hk h

theorem size_tight_dice_wide (th : PyV) (hth : WideThr .dice th) (n k : Nat) (hn1 : 1 ≤ n) (hk1 : 1 ≤ k)
    (hn : n < 2 ^ 32) (hk : k < 2 ^ 32)
    (h : (2 * (min n k : Nat) : Rat) / ((n : Rat) + k) < thrVal th - 1 / 10000) :
    ¬ ((cfgWith .dice th).lower n ≤ (k : Int) ∧ (k : Int) ≤ (cfgWith .dice th).upper n) := by
  have h0 : (0 : Rat) ≤ (2 * (min n k : Nat) : Rat) / ((n : Rat) + k) := by positivity
  obtain ⟨e1, e2, -, -⟩ := wide_bounds_eq .dice (Or.inr (Or.inr rfl)) th hth n n hn hn
  rw [e1, e2]
  exact size_tight_dice _ (thrOK_of_gt (by linarith) hth.le_one) n k hn1 hk1 hn hk h

theorem size_tight_cosine_wide (th : PyV) (hth : WideThr .cosine th) (h4 : 1 / 10000 < thrVal th) (n k : Nat)
    (hn1 : 1 ≤ n) (hk1 : 1 ≤ k) (hn : n < 2 ^ 32) (hk : k < 2 ^ 32)
    (h : ((min n k : Nat) : Rat) / ((max n k : Nat) : Rat) < (thrVal th - 1 / 10000) ^ 2) :
    ¬ ((cfgWith .cosine th).lower n ≤ (k : Int) ∧ (k : Int) ≤ (cfgWith .cosine th).upper n) := by
  obtain ⟨e1, e2, -, -⟩ := wide_bounds_eq .cosine (Or.inr (Or.inl rfl)) th hth n n hn hn
  rw [e1, e2]
  exact size_tight_cosine _ (thrOK_of_gt h4 hth.le_one) h4 n k hn1 hk1 hn hk h

/-! ## 2. the bounds do not depend on `qval` -/

/-- under JACCARD / COSINE / DICE the bounds depend on measure and threshold VALUE only — not on `qval` -/
theorem sameBounds_wide (c : FCfg) (m : Measure) (hm : SetMeasure m) (th : PyV)
    (h1 : c.measure = m) (h2 : c.threshold = th) : SameBounds c (cfgWith m th) := by
  have j1 : PyV.eqb (.str "JACCARD") (.str "COSINE") = false := by decide
  have j2 : PyV.eqb (.str "JACCARD") (.str "DICE") = false := by decide
  have j3 : PyV.eqb (.str "JACCARD") (.str "EDIT_DISTANCE") = false := by decide
  have d1 : PyV.eqb (.str "DICE") (.str "COSINE") = false := by decide
  have d2 : PyV.eqb (.str "DICE") (.str "DICE") = true := by decide
  have c1 : PyV.eqb (.str "COSINE") (.str "COSINE") = true := by decide
  refine ⟨fun n => ?_, fun n => ?_, fun n => ?_, fun l r => ?_⟩
  · unfold FCfg.lower FCfg.lowerV cfgWith; rw [h1, h2]
  · unfold FCfg.upper FCfg.upperV cfgWith; rw [h1, h2]
  · unfold FCfg.prefixLen FCfg.prefixV cfgWith Gen.get_prefix_length
    rw [h1, h2]
    rcases hm with rfl | rfl | rfl <;> simp only [Measure.name, j1, j2, j3, d1, d2, c1, Bool.false_eq_true, if_false, if_true]
  · unfold FCfg.ovThr FCfg.ovThrV cfgWith Gen.get_overlap_threshold
    rw [h1, h2]
    rcases hm with rfl | rfl | rfl <;> simp only [Measure.name, j1, j2, j3, d1, d2, c1, Bool.false_eq_true, if_false, if_true]

/-! ## 3. joins (C01, C02) -/

/-- C01's arithmetic core for every covered threshold value: if the similarity computed in double precision satisfies
    the comparison (one of `>=`, `>`, `=`) against the threshold value, the pair has a common token and all pruning
    bounds accept it -/
theorem boundsFacts_of_qual_wide (m : Measure) (hm : SetMeasure m) (th : PyV) (hth : WideThr m th) (op : String)
    (hop : op ∈ [">=", ">", "="]) (a b : List Tok) (ha : a.Nodup) (hb : b.Nodup)
    (hal : a.length < 2 ^ 32) (hbl : b.length < 2 ^ 32)
    (hne : Spec.bothEmpty a b = false)
    (hq : compFn op (Spec.simSet m a b) th = true) :
    1 ≤ interCount b a ∧ BoundsFacts (cfgWith m th) b.length a.length (interCount b a) := by
  unfold Spec.simSet at hq
  split at hq
  · rename_i hs
    obtain ⟨e1, e2⟩ := EntrySetSim.sameSet_counts a b ha hb hs
    have hb1 : 1 ≤ b.length := by
      by_contra hlt
      have hb0 : b.length = 0 := by omega
      have : Spec.bothEmpty a b = true := (jss_bothEmpty_eq_true_iff a b).2 ⟨by omega, hb0⟩
      rw [this] at hne; cases hne
    rw [e1, e2]
    exact ⟨hb1, bounds_self_wide m hm th hth b.length hb1 hbl⟩
  · split at hq
    · rw [compFn_int0_false_num hop hth.numThr hth.pos] at hq; cases hq
    · rename_i hs hz
      simp only [Bool.or_eq_true, decide_eq_true_eq, not_or] at hz
      have ha1 : 1 ≤ a.length := by omega
      have hb1 : 1 ≤ b.length := by omega
      have hoa : interCount a b ≤ a.length := EntrySetSim.interCount_le_len_left a b ha
      have hob : interCount a b ≤ b.length := EntrySetSim.interCount_le_len_right a b hb
      rw [interCount_comm b a]
      by_cases ho : interCount a b = 0
      · rw [ho, EntrySetSim.simFormula_zero m hm _ _ ha1 hb1 hal hbl] at hq
        have := compFn_float_ge_num hop hth.numThr hq
        have := hth.pos
        linarith
      · have ho1 : 1 ≤ interCount a b := by omega
        obtain ⟨s, hs', -⟩ := simFormula_float m hm a.length b.length _ ho1 hoa hob hal hbl
        rw [hs'] at hq
        have hts := compFn_float_ge_num hop hth.numThr hq
        rw [simFormula_symm m hm] at hs'
        exact ⟨ho1, boundsFacts_wide m hm th hth b.length a.length _ ho1 hob hoa hbl hal s hs' hts⟩

section Chunk
open EntrySetSim
variable (m : Measure) (a : JoinArgs) (toks : TokFn) (cpu : Int) (l r : Frame)

/-- the per-chunk configuration of the join is `cfgWith m a.threshold` -/
theorem jcfg_cfg_wide : (jcfg m a).f.cfg = cfgWith m a.threshold := rfl

/-- COMPLETE, every covered threshold value -/
theorem chunkPart_complete_wide (hm : SetMeasure m) (hop : a.compOp ∈ [">=", ">", "="])
    (hth : WideThr m a.threshold) (hs : InScope (toks true) r)
    (ls : Row) (hls : ls ∈ l.rows) (rs : Row) (hrs : rs ∈ r.rows)
    (hpl : Present l a.lAttr ls) (hpr : Present r a.rAttr rs)
    (hne : Spec.bothEmpty (tokensOf (toks true) l a.lAttr ls) (tokensOf (toks true) r a.rAttr rs) = false)
    (hq : Spec.qualStrict m a.compOp a.threshold (tokensOf (toks true) l a.lAttr ls)
      (tokensOf (toks true) r a.rAttr rs) = true) :
    prow a.toTableArgs l r a.outSimScore ls rs
      (scoreCell (Spec.score4 m (tokensOf (toks true) l a.lAttr ls) (tokensOf (toks true) r a.rAttr rs)))
      ∈ chunkPart m a toks cpu l r := by
  obtain ⟨c, hc, hel⟩ := lArr_index a.toTableArgs l ls hls hpl
  obtain ⟨ch, hch, d, hd, her⟩ := chunk_index a.toTableArgs r cpu hs.rows rs hrs hpr
  have tA : (toks true) (((RT.lArr a.toTableArgs l).getD c []).cell (jcfg m a).lAttr).strVal
      = tokensOf (toks true) l a.lAttr ls := by
    rw [hel]; exact lRow_tokens a.toTableArgs l (toks true) ls
  have tB : (toks true) ((ch.getD d []).cell (jcfg m a).rAttr).strVal = tokensOf (toks true) r a.rAttr rs := by
    rw [her]; exact rRow_tokens a.toTableArgs r (toks true) rs
  unfold Spec.qualStrict at hq
  rw [Bool.and_eq_true] at hq
  obtain ⟨ho1, hb⟩ := boundsFacts_of_qual_wide m hm a.threshold hth a.compOp hop _ _ (hs.nodup _) (hs.nodup _)
    (hs.small _) (hs.small _) hne hq.1
  have key := setSimJoinPairs_complete (jcfg m a) (toks true) (RT.lArr a.toTableArgs l) ch hs.nodup c d hc hd
  rw [tA, tB] at key
  have hmem := key ho1 hb hq.2
  refine (mem_chunkPart_iff m a toks cpu l r _).2 ⟨ch, hch, c, d, _, hmem, ?_⟩
  rw [hel, her]; rfl

end Chunk

section Entry
open EntrySetSim
variable (m : Measure) (a : JoinArgs) (t : TokObj) (toks : TokFn) (cpu : Int) (l r : Frame)

/-- C01 for every covered threshold value (a float in `[thrLo m, 1]` or the int `1`) -/
theorem complete_wide (hm : SetMeasure m) (hv : validateJoin m.name a t = .ok (l, r))
    (hth : WideThr m a.threshold) (hs : InScope (toks true) r)
    (ls : Row) (hls : ls ∈ l.rows) (rs : Row) (hrs : rs ∈ r.rows)
    (hpl : Present l a.lAttr ls) (hpr : Present r a.rAttr rs)
    (hne : Spec.bothEmpty (tokensOf (toks true) l a.lAttr ls) (tokensOf (toks true) r a.rAttr rs) = false)
    (hq : Spec.qualStrict m a.compOp a.threshold (tokensOf (toks true) l a.lAttr ls)
      (tokensOf (toks true) r a.rAttr rs) = true)
    (hb : Props.BodyOK a.toTableArgs l r a.outSimScore) :
    ∃ fr, (setSimJoinPy m a t toks cpu).result = .ok fr ∧
      ∃ row ∈ fr.rows, rowKeys row = (keyOf l a.lKey ls, keyOf r a.rKey rs) ∧
        (a.outSimScore = true → rowScore row = scoreCell (Spec.score4 m (tokensOf (toks true) l a.lAttr ls)
          (tokensOf (toks true) r a.rAttr rs))) := by
  obtain ⟨fr, hres, hrows⟩ := result_rows m a t toks cpu l r hv hb
  obtain ⟨-, -, hop⟩ := of_validateJoin hm hv
  have hmem := chunkPart_complete_wide m a toks cpu l r hm hop hth hs ls hls rs hrs hpl hpr hne hq
  obtain ⟨i, hi⟩ := mem_rows_intro (payload m a toks cpu l r) _ (List.mem_append_left _ hmem)
  refine ⟨fr, hres, _, by rw [hrows]; exact hi, ?_, ?_⟩
  · rw [rowKeys_cons, pkeys_prow]
  · intro hss
    rw [hss]
    exact score_prow _ _ _ _ _ _ _

/-- C02 (sound) for ANY threshold value (whatever the validation accepted): the comparison is against `a.threshold` -/
theorem sound_any (hv : validateJoin m.name a t = .ok (l, r)) (hs : InScope (toks true) r)
    (fr : Frame) (hres : (setSimJoinPy m a t toks cpu).result = .ok fr) (row : Row) (hrow : row ∈ fr.rows) :
    (a.allowMissing = true ∧ ∃ ls ∈ l.rows, ∃ rs ∈ r.rows,
      (¬ Present l a.lAttr ls ∨ ¬ Present r a.rAttr rs) ∧
      rowKeys row = (keyOf l a.lKey ls, keyOf r a.rKey rs) ∧
      (a.outSimScore = true → rowScore row = Cell.missing)) ∨
    (∃ ls ∈ l.rows, ∃ rs ∈ r.rows, Present l a.lAttr ls ∧ Present r a.rAttr rs ∧
      rowKeys row = (keyOf l a.lKey ls, keyOf r a.rKey rs) ∧
      ((Spec.bothEmpty (tokensOf (toks true) l a.lAttr ls) (tokensOf (toks true) r a.rAttr rs) = true ∧
          a.allowEmpty = true ∧ (a.outSimScore = true → rowScore row = Cell.flt 1)) ∨
       (Spec.bothEmpty (tokensOf (toks true) l a.lAttr ls) (tokensOf (toks true) r a.rAttr rs) = false ∧
          Spec.qualRounded m a.compOp a.threshold (tokensOf (toks true) l a.lAttr ls)
            (tokensOf (toks true) r a.rAttr rs) = true ∧
          (a.outSimScore = true → rowScore row = scoreCell (Spec.score4 m (tokensOf (toks true) l a.lAttr ls)
            (tokensOf (toks true) r a.rAttr rs)))))) := by
  rw [rows_of_result m a t toks cpu l r hv fr hres] at hrow
  obtain ⟨p, hp, i, rfl⟩ := mem_rows_elim _ _ hrow
  rcases payload_cases m a toks cpu l r hs p hp with ⟨ham, ls, hls, rs, hrs, hmiss, rfl⟩ |
      ⟨ls, hls, rs, hrs, hpl, hpr, s, rfl, -, hE⟩
  · left
    refine ⟨ham, ls, hls, rs, hrs, hmiss, by rw [rowKeys_cons, pkeys_missingRow], ?_⟩
    intro hss
    rw [hss]
    exact score_missingRow _ _ _ _ _ _
  · right
    refine ⟨ls, hls, rs, hrs, hpl, hpr, by rw [rowKeys_cons, pkeys_prow], ?_⟩
    have hsc : a.outSimScore = true →
        rowScore (Cell.int i :: prow a.toTableArgs l r a.outSimScore ls rs s) = s := by
      intro hss
      rw [hss]
      exact score_prow _ _ _ _ _ _ _
    rcases hE with ⟨h1, h2, rfl⟩ | ⟨h1, h2, rfl⟩
    · exact Or.inl ⟨h1, h2, hsc⟩
    · exact Or.inr ⟨h1, h2, hsc⟩

/-- C02 (sound), read from the rows' side, for ANY threshold value -/
theorem sound_of_keys_any (hv : validateJoin m.name a t = .ok (l, r)) (hs : InScope (toks true) r)
    (fr : Frame) (hres : (setSimJoinPy m a t toks cpu).result = .ok fr) (row : Row) (hrow : row ∈ fr.rows)
    (ls : Row) (hls : ls ∈ l.rows) (rs : Row) (hrs : rs ∈ r.rows)
    (hpl : Present l a.lAttr ls) (hpr : Present r a.rAttr rs)
    (hk : rowKeys row = (keyOf l a.lKey ls, keyOf r a.rKey rs)) :
    (Spec.bothEmpty (tokensOf (toks true) l a.lAttr ls) (tokensOf (toks true) r a.rAttr rs) = true ∧
        a.allowEmpty = true ∧ (a.outSimScore = true → rowScore row = Cell.flt 1)) ∨
    (Spec.bothEmpty (tokensOf (toks true) l a.lAttr ls) (tokensOf (toks true) r a.rAttr rs) = false ∧
        Spec.qualRounded m a.compOp a.threshold (tokensOf (toks true) l a.lAttr ls)
          (tokensOf (toks true) r a.rAttr rs) = true ∧
        (a.outSimScore = true → rowScore row = scoreCell (Spec.score4 m (tokensOf (toks true) l a.lAttr ls)
          (tokensOf (toks true) r a.rAttr rs)))) := by
  obtain ⟨s, ⟨-, hE⟩, hsc⟩ := row_inv m a t toks cpu l r hv hs fr hres row hrow ls hls rs hrs hpl hpr hk
  rcases hE with ⟨h1, h2, rfl⟩ | ⟨h1, h2, rfl⟩
  · exact Or.inl ⟨h1, h2, hsc⟩
  · exact Or.inr ⟨h1, h2, hsc⟩

end Entry

/-! ## 4. filters (C04, C14) -/

/-- MAIN arithmetic bridge for every covered threshold value: if py_stringmatching's similarity of two token sets (not
    both empty, fewer than 2³² tokens each) is a float `s ≥ thrVal th`, the sets share a token and every pruning bound
    accepts the pair — with either set in the role of the probe -/
theorem qual_facts_wide (m : Measure) (hm : SetMeasure m) (th : PyV) (hth : WideThr m th) (A B : List Tok)
    (hA : A.Nodup) (hB : B.Nodup) (hAs : A.length < 2 ^ 32) (hBs : B.length < 2 ^ 32)
    (hne : ¬ (A.length = 0 ∧ B.length = 0))
    (s : Rat) (hs : Spec.simSet m A B = .float s) (hq : thrVal th ≤ s) :
    1 ≤ interCount A B ∧
    BoundsFacts (cfgWith m th) A.length B.length (interCount A B) ∧
    BoundsFacts (cfgWith m th) B.length A.length (interCount A B) ∧
    (cfgWith m th).lower A.length ≤ (interCount A B : Int) ∧
    (cfgWith m th).lower B.length ≤ (interCount A B : Int) := by
  unfold Spec.simSet at hs
  split at hs
  · next hsame =>
    obtain ⟨e1, e2⟩ := EntryFilters.sameSet_counts A B hA hB hsame
    have hn1 : 1 ≤ A.length := by omega
    have hb := bounds_self_wide m hm th hth A.length hn1 hAs
    rw [e1, e2]
    exact ⟨hn1, hb, hb, hb.lower, hb.lower⟩
  · split at hs
    · cases hs
    · next hemp =>
      simp only [Bool.or_eq_true, decide_eq_true_eq, not_or] at hemp
      have h1 := interCount_le_length_left A B hA
      have h2 := interCount_le_length_right A B hB
      rcases Nat.eq_zero_or_pos (interCount A B) with h0 | hpos
      · rw [h0, EntryFilters.simFormula_zero m hm _ _ (by omega) (by omega) hAs hBs] at hs
        cases hs
        exact absurd hq (not_le.mpr hth.pos)
      · obtain ⟨a1, a2, a3, a4, a5, a6, a7, a8⟩ :=
          bounds_of_qual_wide m hm th hth A.length B.length (interCount A B) hpos h1 h2 hAs hBs s hs hq
        obtain ⟨b1, b2, -, -, -, -, -, -⟩ :=
          bounds_of_qual_wide m hm th hth B.length A.length (interCount A B) hpos h2 h1 hBs hAs s
            (by rw [← simFormula_symm m hm]; exact hs) hq
        exact ⟨hpos, ⟨a1, a2, a4, a5, a6⟩, ⟨b1, b2, a3, a6, a5⟩, a7, a8⟩

/-- the property's reading of "meets the threshold" (`qualStrict … ">="`) implies the hypothesis the safety theorems
    use, for a numeric threshold value of positive value -/
theorem reaches_of_qualStrict_wide (m : Measure) (hm : SetMeasure m) (th : PyV) (hn : NumThr th) (hpos : 0 < thrVal th)
    (A B : List Tok) (hA : A.Nodup) (hB : B.Nodup) (hAs : A.length < 2 ^ 32) (hBs : B.length < 2 ^ 32)
    (h : Spec.qualStrict m ">=" th A B = true) :
    ∃ s : Rat, Spec.simSet m A B = .float s ∧ thrVal th ≤ s := by
  unfold Spec.qualStrict at h
  rw [Bool.and_eq_true] at h
  have h1 := h.1
  rcases EntryFilters.simSet_cases m hm A B hA hB hAs hBs with h0 | ⟨s, hs⟩
  · rw [h0, compFn_int0_false_num (by decide) hn hpos] at h1
    cases h1
  · rw [hs] at h1
    exact ⟨s, hs, compFn_float_ge_num (by decide) hn h1⟩

/-- C04 for `filter_pair` of the four filters under JACCARD / COSINE / DICE, every covered threshold value.  The suffix
    filter needs `prefThr m ≤ thrVal th` (so that the prefix is never longer than the record). -/
theorem filterPair_safe_set_wide (k : FilterKind) (m : Measure) (hm : SetMeasure m) (th : PyV) (hth : WideThr m th)
    (f : FilterObj) (hmeas : f.cfg.measure = m) (hthr : f.cfg.threshold = th) (tok : String → List Tok)
    (hnd : ∀ s, (tok s).Nodup) (hsm : ∀ s, (tok s).length < 2 ^ 32) (l r : Cell)
    (hl : l.isMissing = false) (hr : r.isMissing = false)
    (hne : ¬ ((tok l.strVal).length = 0 ∧ (tok r.strVal).length = 0))
    (s : Rat) (hs : Spec.simSet m (tok l.strVal) (tok r.strVal) = .float s) (hq : thrVal th ≤ s)
    (hsuf : k = .suffix → prefThr m ≤ thrVal th) :
    filterPair k f tok l r = false := by
  obtain ⟨ho, b1, b2, -, -⟩ := qual_facts_wide m hm th hth _ _ (hnd _) (hnd _) (hsm _) (hsm _) hne s hs hq
  have sb := sameBounds_wide f.cfg m hm th hmeas hthr
  replace b1 := EntryFilters.BoundsFacts.of_same sb b1
  replace b2 := EntryFilters.BoundsFacts.of_same sb b2
  cases k
  · exact sizeFilterPair_safe f tok l r hl hr hne b1.lower b1.upper
  · exact prefixFilterPair_safe f tok hnd l r hl hr ho b1.prefN b1.prefK
  · exact positionFilterPair_safe f tok hnd l r hl hr ho b1.prefN b1.prefK b2.ovThr
  · have h4 := hsuf rfl
    have h1 := interCount_le_length_left _ (tok r.strVal) (hnd l.strVal)
    have h2 := interCount_le_length_right (tok l.strVal) _ (hnd r.strVal)
    have p1 := b1.prefN
    have p2 := b1.prefK
    refine suffixFilterPair_safe f tok hnd l r hl hr hne (by omega) (by omega) ?_ ?_ b2.ovThr
    · rw [sb.prefixLen]; exact prefixLen_le_wide m hm th hth h4 _ (hsm _)
    · rw [sb.prefixLen]; exact prefixLen_le_wide m hm th hth h4 _ (hsm _)

section TablesSafe
variable (k : FilterKind) (f : FilterObj) (a : TableArgs) (t : TokObj) (toks : TokFn) (cpu : Int) (l r fr : Frame)

/-- C04 at entry level for JACCARD / COSINE / DICE, every covered threshold value -/
theorem filterTables_safe_set_wide (m : Measure) (hm : SetMeasure m) (th : PyV) (hth : WideThr m th)
    (hmeas : f.cfg.measure = m) (hthr : f.cfg.threshold = th)
    (hv : validateTablesAttrs a = .ok (l, r))
    (hk : validateOutAndKeys a l r = .ok ()) (hrows : r.rows.length < 2 ^ 40)
    (hnd : ∀ s, (toks t.returnSet s).Nodup) (hsm : ∀ s, (toks t.returnSet s).length < 2 ^ 32)
    (hres : filterTables k f a t toks cpu = .ok fr)
    (ls rs : Row) (hls : ls ∈ l.rows) (hrs : rs ∈ r.rows)
    (hlp : Present l a.lAttr ls) (hrp : Present r a.rAttr rs)
    (hne : ¬ ((tokensOf (toks t.returnSet) l a.lAttr ls).length = 0 ∧ (tokensOf (toks t.returnSet) r a.rAttr rs).length = 0))
    (s : Rat) (hs : Spec.simSet m (tokensOf (toks t.returnSet) l a.lAttr ls) (tokensOf (toks t.returnSet) r a.rAttr rs) = .float s)
    (hq : thrVal th ≤ s) (hsuf : k = .suffix → prefThr m ≤ thrVal th) :
    ∃ row ∈ fr.rows, rowKeys row = (keyOf l a.lKey ls, keyOf r a.rKey rs) := by
  obtain ⟨ho, -, b2, -, l2⟩ := qual_facts_wide m hm th hth _ _ (hnd _) (hnd _) (hsm _) (hsm _) hne s hs hq
  have h2 := interCount_le_length_right (tokensOf (toks t.returnSet) l a.lAttr ls) _ (hnd (valOf r a.rAttr rs).strVal)
  have sb := sameBounds_wide f.cfg m hm th hmeas hthr
  replace b2 := EntryFilters.BoundsFacts.of_same sb b2
  rw [← sb.lower] at l2
  refine EntryFilters.filterTables_safe_of_bounds k f a t toks cpu l r fr hv hk hrows hnd hres ls rs hls hrs hlp hrp ho b2
    (fun _ => ?_) (fun hk' => ?_)
  · unfold tokensOf at *; omega
  · rw [sb.prefixLen, sb.prefixLen]
    exact ⟨prefixLen_le_wide m hm th hth (hsuf hk') _ (hsm _), prefixLen_le_wide m hm th hth (hsuf hk') _ (hsm _)⟩

end TablesSafe

/-! ## 5. fixtures for the non-vacuity examples of the `Props/*_wide` files -/

namespace Ex
open EntrySetSim.Ex

set_option exponentiation.threshold 1100 in
/-- `2⁻³⁰` (below the former limit `2⁻²⁰`) is a covered threshold of every measure -/
theorem thrSmall (m : Measure) : WideThr m (.float (1 / 2 ^ 30)) :=
  .float _ ⟨by cases m <;> simp only [thrLo] <;> norm_num, by norm_num⟩

/-- the request of `EntrySetSim.Ex` with threshold `2⁻³⁰` -/
def exArgsSmall : JoinArgs := exArgs.withThreshold (.float (1 / 2 ^ 30))

/-- the request of `EntrySetSim.Ex` with the threshold given as the Python int `1` -/
def exArgsInt : JoinArgs := exArgs.withThreshold (.int 1)

theorem exValidSmall : validateJoin Measure.jaccard.name exArgsSmall {} = .ok (exL, exR) :=
  validateJoin_withThreshold _ exArgs {} exL exR _ exValid (WideThr.valid (Or.inl rfl) (thrSmall .jaccard))

theorem exValidInt : validateJoin Measure.jaccard.name exArgsInt {} = .ok (exL, exR) :=
  validateJoin_withThreshold _ exArgs {} exL exR _ exValid (WideThr.valid (Or.inl rfl) .intOne)

/-- the pair ("ab", "abc") (Jaccard = the double nearest 2/3) qualifies, raw and rounded, against `2⁻³⁰` -/
theorem exPair_qual_small : Spec.qualStrict .jaccard exArgsSmall.compOp exArgsSmall.threshold
    (tokensOf (exToks true) exL exArgsSmall.lAttr exLs) (tokensOf (exToks true) exR exArgsSmall.rAttr exRs) = true := by
  show Spec.qualStrict .jaccard ">=" (.float (1 / 2 ^ 30)) (tokensOf (exToks true) exL exArgs.lAttr exLs)
    (tokensOf (exToks true) exR exArgs.rAttr exRs) = true
  rw [exLs_tokens, exRs_tokens, EntryLaws.Ex.exNonStraddling ">=" (by decide) _ (by norm_num)]
  exact EntryLaws.Ex.exQualRounded _ (by norm_num)

/-- a second tokenization table: every non-empty string ↦ {a, b}; so "ab" and "abc" have EQUAL token sets -/
def exToks1 : TokFn := fun _ s => if s = "" then [] else ["a", "b"]

theorem exScope1 : InScope (exToks1 true) exR := by
  refine ⟨fun s => ?_, fun s => ?_, by decide⟩
  · unfold exToks1; split_ifs <;> simp
  · unfold exToks1; split_ifs <;> simp

theorem exLs_tokens1 : tokensOf (exToks1 true) exL exArgs.lAttr exLs = ["a", "b"] := by decide +kernel
theorem exRs_tokens1 : tokensOf (exToks1 true) exR exArgs.rAttr exRs = ["a", "b"] := by decide +kernel

/-- equal sets have similarity 1.0, which satisfies `>= 1` (int), raw and rounded -/
theorem exQualInt : Spec.qualStrict .jaccard ">=" (.int 1) ["a", "b"] ["a", "b"] = true := by decide +kernel

theorem exPair_qual_int : Spec.qualStrict .jaccard exArgsInt.compOp exArgsInt.threshold
    (tokensOf (exToks1 true) exL exArgsInt.lAttr exLs) (tokensOf (exToks1 true) exR exArgsInt.rAttr exRs) = true := by
  show Spec.qualStrict .jaccard ">=" (.int 1) (tokensOf (exToks1 true) exL exArgs.lAttr exLs)
    (tokensOf (exToks1 true) exR exArgs.rAttr exRs) = true
  rw [exLs_tokens1, exRs_tokens1]
  exact exQualInt

theorem exPair_nonempty1 : Spec.bothEmpty (tokensOf (exToks1 true) exL exArgs.lAttr exLs)
    (tokensOf (exToks1 true) exR exArgs.rAttr exRs) = false := by
  rw [exLs_tokens1, exRs_tokens1]; rfl

/-- filters: the pair ("x", "y") of `EntryFilters.Ex` (Jaccard `rn (1/3)`) reaches `2⁻³⁰` -/
theorem ex_reach_small : thrVal (.float (1 / 2 ^ 30)) ≤ rn (1 / 3) := by
  have := EntryFilters.Ex.ex_reach
  show (1 / 2 ^ 30 : Rat) ≤ rn (1 / 3)
  linarith [show (1 / 2 ^ 30 : Rat) ≤ 1 / 4 by norm_num]

/-- filters: the pair ("x", "x") has similarity 1.0, which reaches the int threshold `1` -/
theorem ex_sim_self : Spec.simSet .jaccard (EntryFilters.Ex.exTok "x") (EntryFilters.Ex.exTok "x") = .float 1 := by
  decide +kernel

theorem ex_reach_int : thrVal (.int 1) ≤ 1 := by rw [thrVal_int1]

end Ex

section AxiomCheck
#print axioms wide_bounds_eq
#print axioms size_tight_jaccard_wide
#print axioms size_tight_dice_wide
#print axioms size_tight_cosine_wide
#print axioms boundsFacts_of_qual_wide
#print axioms complete_wide
#print axioms sound_any
#print axioms qual_facts_wide
#print axioms filterPair_safe_set_wide
#print axioms filterTables_safe_set_wide
#print axioms Ex.exPair_qual_small
#print axioms Ex.exPair_qual_int
end AxiomCheck

end EntryWide
end SSJ

/-
  SSJ.Proofs.BodyOK — the entry points after their argument validations: each is `runTables` on its
  per-chunk worker (`*_run`), hence a call that RETURNS a frame met only string join values and had no `_id`
  clash (`*_bodyOK`: the inversion lemmas that let theorems with a hypothesis `… = .ok fr` dispense with
  `StrColumn` / `NoIdClash` hypotheses).
-/
import SSJ.Proofs.Frames
import SSJ.Proofs.Session

namespace SSJ
open Props

/-! ### the bodies -/

theorem filterTables_run (k : FilterKind) (f : FilterObj) (a : TableArgs) (t : TokObj) (toks : TokFn) (cpu : Int)
    (l r : Frame) (hv : validateTablesAttrs a = .ok (l, r)) :
    filterTables k f a t toks cpu =
      validateOutAndKeys a l r >>= fun _ =>
        runTables a l r f.allowMissing false cpu
          (fun o lAttr rAttr lArr ch => filterTablesSplit k f (toks t.returnSet) o lAttr rAttr lArr ch) := by
  unfold filterTables
  rw [hv]
  rfl

theorem overlapFilterTables_run (f : OverlapFilterObj) (a : TableArgs) (oss : Bool) (tok : String → List Tok) (cpu : Int)
    (l r : Frame) (hv : validateTablesAttrs a = .ok (l, r)) :
    overlapFilterTables f a oss tok cpu =
      validateOutAndKeys a l r >>= fun _ =>
        runTables a l r f.allowMissing oss cpu
          (fun o lAttr rAttr lArr ch => overlapFilterTablesSplit f tok o lAttr rAttr oss lArr ch) := by
  unfold overlapFilterTables
  rw [hv]
  rfl

theorem setSimJoinPy_run (m : Measure) (a : JoinArgs) (t : TokObj) (toks : TokFn) (cpu : Int) (l r : Frame)
    (hv : validateJoin m.name a t = .ok (l, r)) :
    setSimJoinPy m a t toks cpu =
      withFlag t true (runTables a.toTableArgs l r a.allowMissing a.outSimScore cpu
        (fun o lAttr rAttr lArr ch =>
          setSimJoin { f := { cfg := { measure := m, threshold := a.threshold }, allowEmpty := a.allowEmpty },
                       compOp := a.compOp, lAttr := lAttr, rAttr := rAttr, out := o, outSimScore := a.outSimScore }
            (toks true) lArr ch)) := by
  unfold setSimJoinPy
  rw [hv]

theorem overlapCoefficientJoinPy_run (a : JoinArgs) (t : TokObj) (toks : TokFn) (cpu : Int) (l r : Frame)
    (hv : validateJoin "OVERLAP_COEFFICIENT" a t = .ok (l, r)) :
    overlapCoefficientJoinPy a t toks cpu =
      withFlag t true (runTables a.toTableArgs l r a.allowMissing a.outSimScore cpu
        (fun o lAttr rAttr lArr ch =>
          overlapCoefficientJoinSplit a.threshold a.compOp a.allowEmpty lAttr rAttr o a.outSimScore (toks true) lArr ch)) := by
  unfold overlapCoefficientJoinPy
  rw [hv]

theorem editDistanceJoinPy_run (a : JoinArgs) (t : TokObj) (toks : TokFn) (cpu : Int) (l r : Frame) (tau : Int)
    (hv : validateJoin "EDIT_DISTANCE" a t = .ok (l, r)) (htau : PyV.toInt (PyV.floor a.threshold) = .int tau) :
    editDistanceJoinPy a t toks cpu =
      withFlag t false (runTables a.toTableArgs l r a.allowMissing a.outSimScore cpu
        (fun o lAttr rAttr lArr ch =>
          editDistanceJoinSplit tau t.qval a.compOp lAttr rAttr o a.outSimScore (toks false) lArr ch)) := by
  unfold editDistanceJoinPy
  rw [hv]
  simp only [htau]

theorem overlapJoinPy_run (a : JoinArgs) (t : TokObj) (toks : TokFn) (cpu : Int) (f : OverlapFilterObj)
    (hf : mkOverlapFilter a.threshold a.compOp a.allowMissing t = .ok f) :
    (overlapJoinPy a t toks cpu).result = overlapFilterTables f a.toTableArgs a.outSimScore (toks true) cpu := by
  show (mkOverlapFilter a.threshold a.compOp a.allowMissing t >>= _) = _
  rw [hf]
  rfl

/-! ### a call that returns a frame satisfied `BodyOK` -/

theorem bodyOK_of_bind_runTables {a : TableArgs} {l r : Frame} {am oss : Bool} {cpu : Int}
    {work : OutCfg → Nat → Nat → List Row → List Row → List Row} {x : Except PyErr Unit} {fr : Frame}
    (h : (x >>= fun _ => runTables a l r am oss cpu work) = .ok fr) : BodyOK a l r oss := by
  obtain ⟨_, _, h⟩ := (except_bind_eq_ok_iff _ _ _).1 h
  exact runTables_bodyOK _ _ _ _ _ _ _ _ h

theorem filterTables_bodyOK (k : FilterKind) (f : FilterObj) (a : TableArgs) (t : TokObj) (toks : TokFn) (cpu : Int)
    (l r : Frame) (hv : validateTablesAttrs a = .ok (l, r)) (fr : Frame) (h : filterTables k f a t toks cpu = .ok fr) :
    BodyOK a l r false := by
  rw [filterTables_run k f a t toks cpu l r hv] at h
  exact bodyOK_of_bind_runTables h

theorem overlapFilterTables_bodyOK (f : OverlapFilterObj) (a : TableArgs) (oss : Bool) (tok : String → List Tok)
    (cpu : Int) (l r : Frame) (hv : validateTablesAttrs a = .ok (l, r)) (fr : Frame)
    (h : overlapFilterTables f a oss tok cpu = .ok fr) : BodyOK a l r oss := by
  rw [overlapFilterTables_run f a oss tok cpu l r hv] at h
  exact bodyOK_of_bind_runTables h

theorem setSimJoinPy_bodyOK (m : Measure) (a : JoinArgs) (t : TokObj) (toks : TokFn) (cpu : Int) (l r : Frame)
    (hv : validateJoin m.name a t = .ok (l, r)) (fr : Frame) (h : (setSimJoinPy m a t toks cpu).result = .ok fr) :
    BodyOK a.toTableArgs l r a.outSimScore := by
  rw [setSimJoinPy_run m a t toks cpu l r hv, withFlag_result] at h
  exact runTables_bodyOK _ _ _ _ _ _ _ _ h

theorem overlapCoefficientJoinPy_bodyOK (a : JoinArgs) (t : TokObj) (toks : TokFn) (cpu : Int) (l r : Frame)
    (hv : validateJoin "OVERLAP_COEFFICIENT" a t = .ok (l, r)) (fr : Frame)
    (h : (overlapCoefficientJoinPy a t toks cpu).result = .ok fr) : BodyOK a.toTableArgs l r a.outSimScore := by
  rw [overlapCoefficientJoinPy_run a t toks cpu l r hv, withFlag_result] at h
  exact runTables_bodyOK _ _ _ _ _ _ _ _ h

theorem editDistanceJoinPy_bodyOK (a : JoinArgs) (t : TokObj) (toks : TokFn) (cpu : Int) (l r : Frame)
    (hv : validateJoin "EDIT_DISTANCE" a t = .ok (l, r)) (fr : Frame)
    (h : (editDistanceJoinPy a t toks cpu).result = .ok fr) : BodyOK a.toTableArgs l r a.outSimScore := by
  unfold editDistanceJoinPy at h
  rw [hv] at h
  dsimp only at h
  split at h
  · rw [withFlag_result] at h
    exact runTables_bodyOK _ _ _ _ _ _ _ _ h
  · cases h
  · cases h

theorem overlapJoinPy_bodyOK (a : JoinArgs) (t : TokObj) (toks : TokFn) (cpu : Int) (l r : Frame)
    (hv : validateTablesAttrs a.toTableArgs = .ok (l, r)) (fr : Frame)
    (h : (overlapJoinPy a t toks cpu).result = .ok fr) : BodyOK a.toTableArgs l r a.outSimScore := by
  have h' : (mkOverlapFilter a.threshold a.compOp a.allowMissing t >>= fun f =>
      overlapFilterTables f a.toTableArgs a.outSimScore (toks true) cpu) = .ok fr := h
  obtain ⟨f, _, h'⟩ := (except_bind_eq_ok_iff _ _ _).1 h'
  exact overlapFilterTables_bodyOK f a.toTableArgs a.outSimScore (toks true) cpu l r hv fr h'

/-! ### `filter_pair` as a Python call -/

theorem Cell.isMissing_or_isStr_of_strOrMissing (c : Cell) (h : c.strOrMissing = true) :
    c.isMissing = true ∨ c.isStr = true := by
  cases c <;> first | exact Or.inl rfl | exact Or.inr rfl | exact Bool.noConfusion h

/-- on strings and missing values `filter_pair` does not raise -/
theorem filterPairPy_of_str (k : FilterKind) (f : FilterObj) (tok : String → List Tok) (x y : Cell)
    (hx : x.strOrMissing = true) (hy : y.strOrMissing = true) :
    filterPairPy k f tok x y = .ok (filterPair k f tok x y) := by
  unfold filterPairPy
  rcases Cell.isMissing_or_isStr_of_strOrMissing x hx with h1 | h1 <;>
    rcases Cell.isMissing_or_isStr_of_strOrMissing y hy with h2 | h2 <;> simp [h1, h2]

theorem overlapFilterPairPy_of_str (f : OverlapFilterObj) (tok : String → List Tok) (x y : Cell)
    (hx : x.strOrMissing = true) (hy : y.strOrMissing = true) :
    overlapFilterPairPy f tok x y = .ok (overlapFilterPair f tok x y) := by
  unfold overlapFilterPairPy
  rcases Cell.isMissing_or_isStr_of_strOrMissing x hx with h1 | h1 <;>
    rcases Cell.isMissing_or_isStr_of_strOrMissing y hy with h2 | h2 <;> simp [h1, h2]

/-- whenever `filter_pair` returns, it returns the value of the pure function -/
theorem filterPairPy_ok_eq (k : FilterKind) (f : FilterObj) (tok : String → List Tok) (x y : Cell) (b : Bool)
    (h : filterPairPy k f tok x y = .ok b) : b = filterPair k f tok x y := by
  unfold filterPairPy at h
  split at h
  · cases h
  · exact (Except.ok.inj h).symm

theorem overlapFilterPairPy_ok_eq (f : OverlapFilterObj) (tok : String → List Tok) (x y : Cell) (b : Bool)
    (h : overlapFilterPairPy f tok x y = .ok b) : b = overlapFilterPair f tok x y := by
  unfold overlapFilterPairPy at h
  split at h
  · cases h
  · exact (Except.ok.inj h).symm

/-- two present values one of which is not a string: TypeError -/
theorem filterPairPy_typeErr (k : FilterKind) (f : FilterObj) (tok : String → List Tok) (x y : Cell)
    (hx : x.isMissing = false) (hy : y.isMissing = false) (h : ¬ (x.isStr = true ∧ y.isStr = true)) :
    filterPairPy k f tok x y = .error .typeErr := by
  unfold filterPairPy
  rw [if_pos]
  rw [hx, hy]
  cases hxs : x.isStr <;> cases hys : y.isStr <;> simp_all

/-- `OverlapFilter.filter_pair`: two present, truthy values one of which is not a string: TypeError -/
theorem overlapFilterPairPy_typeErr (f : OverlapFilterObj) (tok : String → List Tok) (x y : Cell)
    (hx : x.isMissing = false) (hy : y.isMissing = false) (hfx : x.falsy = false) (hfy : y.falsy = false)
    (h : ¬ (x.isStr = true ∧ y.isStr = true)) :
    overlapFilterPairPy f tok x y = .error .typeErr := by
  unfold overlapFilterPairPy
  rw [if_pos]
  rw [hx, hy, hfx, hfy]
  cases hxs : x.isStr <;> cases hys : y.isStr <;> simp_all

/-- `OverlapFilter.filter_pair`: a missing or falsy value (`''`, `0`, `0.0`, `False`) — no tokenizing, no error -/
theorem overlapFilterPairPy_falsy (f : OverlapFilterObj) (tok : String → List Tok) (x y : Cell)
    (h : x.isMissing = true ∨ y.isMissing = true ∨ x.falsy = true ∨ y.falsy = true) :
    overlapFilterPairPy f tok x y = .ok (overlapFilterPair f tok x y) := by
  unfold overlapFilterPairPy
  rw [if_neg]
  rcases h with h | h | h | h <;> simp [h]

/-- string columns: `filter_pair` never raises on a pair of values of the two columns -/
theorem filterPairPy_columns (k : FilterKind) (f : FilterObj) (tok : String → List Tok) (l r : Frame) (la ra : String)
    (hl : StrColumn l la) (hr : StrColumn r ra) :
    ∀ ls ∈ l.rows, ∀ rs ∈ r.rows,
      filterPairPy k f tok (valOf l la ls) (valOf r ra rs) = .ok (filterPair k f tok (valOf l la ls) (valOf r ra rs)) :=
  fun ls hls rs hrs => filterPairPy_of_str k f tok _ _ (hl ls hls) (hr rs hrs)

theorem overlapFilterPairPy_columns (f : OverlapFilterObj) (tok : String → List Tok) (l r : Frame) (la ra : String)
    (hl : StrColumn l la) (hr : StrColumn r ra) :
    ∀ ls ∈ l.rows, ∀ rs ∈ r.rows,
      overlapFilterPairPy f tok (valOf l la ls) (valOf r ra rs) =
        .ok (overlapFilterPair f tok (valOf l la ls) (valOf r ra rs)) :=
  fun ls hls rs hrs => overlapFilterPairPy_of_str f tok _ _ (hl ls hls) (hr rs hrs)

section AxiomCheck
#print axioms filterPairPy_of_str
#print axioms filterPairPy_typeErr
#print axioms overlapFilterPairPy_typeErr
#print axioms filterTables_bodyOK
#print axioms overlapFilterTables_bodyOK
#print axioms setSimJoinPy_bodyOK
#print axioms overlapCoefficientJoinPy_bodyOK
#print axioms editDistanceJoinPy_bodyOK
#print axioms overlapJoinPy_bodyOK
end AxiomCheck

end SSJ

/-
  SSJ.Proofs.Position — the position filter's `find_candidates` over a `PositionIndex`:
  completeness, key uniqueness/validity, pruning power.
-/
import SSJ.Model.Filters
import SSJ.Proofs.DictFold
import Mathlib.Data.List.Basic
import Mathlib.Data.List.Perm.Subperm
import Mathlib.Data.List.Nodup
import Mathlib.Tactic.Linarith

namespace SSJ

/-! ### 1. The postings of the position index -/

/-- the flat list of `(token, (row_id, pos))` appended to the index, in order -/
def postingList (cfg : FCfg) (ordToks : List (List Nat)) : List (Nat × (Nat × Nat)) :=
  ordToks.zipIdx.flatMap (fun p =>
    (pyTake p.1 (cfg.prefixLen p.1.length)).zipIdx.map (fun q => (q.1, (p.2, q.2))))

theorem posPostings_eq (cfg : FCfg) (ordToks : List (List Nat)) :
    posPostings cfg ordToks = (postingList cfg ordToks).foldl (fun d e => appendAt d e.1 e.2) [] := by
  unfold posPostings postingList
  rw [List.foldl_flatMap]
  congr 1
  funext d p
  rw [List.foldl_map]

theorem probe_posPostings (cfg : FCfg) (ordToks : List (List Nat)) (t : Nat) :
    probe (posPostings cfg ordToks) t =
      ((postingList cfg ordToks).filter (fun e => decide (e.1 = t))).map (·.2) := by
  rw [posPostings_eq, probe_foldl_appendAt, probe_nil, List.nil_append]

/-- membership characterisation of a posting list -/
theorem mem_probe_posPostings (cfg : FCfg) (ordToks : List (List Nat)) (t rid pos : Nat)
    (h : (rid, pos) ∈ probe (posPostings cfg ordToks) t) :
    ∃ y, ordToks[rid]? = some y ∧ (pyTake y (cfg.prefixLen y.length))[pos]? = some t := by
  rw [probe_posPostings] at h
  simp only [List.mem_map, List.mem_filter, decide_eq_true_eq] at h
  obtain ⟨e, ⟨he, het⟩, he2⟩ := h
  unfold postingList at he
  simp only [List.mem_flatMap, List.mem_map] at he
  obtain ⟨p, hp, q, hq, hqe⟩ := he
  rw [List.mem_zipIdx_iff_getElem?] at hp hq
  subst hqe
  simp only at het he2
  obtain ⟨h1, h2⟩ := Prod.mk.inj he2
  subst h1 h2 het
  exact ⟨p.1, hp, hq⟩

/-- only the element at index `c` contributes to a `flatMap` over `zipIdx` -/
theorem zipIdx_flatMap_single {α β : Type} (l : List α) (c : Nat) (y : α) (hy : l[c]? = some y)
    (g : α × Nat → List β) (hg : ∀ a i, i ≠ c → g (a, i) = []) :
    l.zipIdx.flatMap g = g (y, c) := by
  obtain ⟨hc, hyc⟩ := List.getElem?_eq_some_iff.1 hy
  have hl : l = l.take c ++ y :: l.drop (c + 1) := by
    rw [← hyc]; simp
  have hlen : (l.take c).length = c := by simp; omega
  rw [hl, List.zipIdx_append, List.zipIdx_cons, List.flatMap_append, List.flatMap_cons]
  have h1 : (List.take c l).zipIdx.flatMap g = [] := by
    rw [List.flatMap_eq_nil_iff]
    rintro ⟨a, i⟩ hai
    have := List.mem_zipIdx hai
    apply hg
    omega
  have h2 : ((List.drop (c + 1) l).zipIdx (0 + (List.take c l).length + 1)).flatMap g = [] := by
    rw [List.flatMap_eq_nil_iff]
    rintro ⟨a, i⟩ hai
    have := List.mem_zipIdx hai
    apply hg
    omega
  rw [h1, h2, hlen]
  simp

/-- the postings of row `c` in the posting list of token `t` -/
theorem probe_posPostings_filter (cfg : FCfg) (ordToks : List (List Nat)) (t c : Nat) (y : List Nat)
    (hy : ordToks[c]? = some y) :
    (probe (posPostings cfg ordToks) t).filter (fun e => decide (e.1 = c)) =
      ((pyTake y (cfg.prefixLen y.length)).zipIdx.filter (fun q => decide (q.1 = t))).map
        (fun q => (c, q.2)) := by
  rw [probe_posPostings, List.filter_map, List.filter_filter]
  unfold postingList
  rw [List.filter_flatMap]
  rw [zipIdx_flatMap_single ordToks c y hy]
  · simp only [List.filter_map, List.map_map]
    rw [List.filter_congr (q := fun q => decide (q.1 = t))]
    · rfl
    · intro q _; simp
  · intro a i hi
    rw [List.filter_eq_nil_iff]
    intro e he
    simp only [List.mem_map] at he
    obtain ⟨q, _, rfl⟩ := he
    simp [hi]

/-! ### 2. Combinatorics of strictly sorted lists -/

/-- number of common elements of two duplicate-free lists -/
def commonCount (x y : List Nat) : Nat := (x.filter (fun t => decide (t ∈ y))).length

/-- a duplicate-free list of elements of a strictly sorted list which are all `≥ w` is not longer
    than the part of the list starting at `w` -/
theorem tail_count (y1 y2 : List Nat) (w : Nat) (hy : (y1 ++ w :: y2).Pairwise (· < ·))
    (S : List Nat) (hS : S.Nodup) (h : ∀ v ∈ S, v ∈ y1 ++ w :: y2 ∧ w ≤ v) :
    S.length ≤ y2.length + 1 := by
  have hsub : S ⊆ w :: y2 := by
    intro v hv
    obtain ⟨hvy, hwv⟩ := h v hv
    rcases List.mem_append.1 hvy with h1 | h1
    · have := (List.pairwise_append.1 hy).2.2 v h1 w (by simp)
      omega
    · exact h1
  simpa using (List.subperm_of_subset hS hsub).length_le

/-- the bound used at a match `t = x[|x0|] = y[|y1|]`: the common elements below `t` were all
    counted already, the others lie in the two suffixes -/
theorem common_bound (x0 xr y1 y2 : List Nat) (t : Nat)
    (hx : (x0 ++ t :: xr).Pairwise (· < ·)) (hy : (y1 ++ t :: y2).Pairwise (· < ·))
    (yp : List Nat) (h1 : ∀ u ∈ y1, u ∈ yp) (h2 : ∀ u ∈ yp, u ∈ y1 ++ t :: y2) :
    commonCount (x0 ++ t :: xr) (y1 ++ t :: y2) ≤
      (x0.filter (fun u => decide (u ∈ yp))).length + min (xr.length + 1) (y2.length + 1) := by
  unfold commonCount
  rw [List.filter_append, List.length_append]
  have e1 : x0.filter (fun u => decide (u ∈ y1 ++ t :: y2)) = x0.filter (fun u => decide (u ∈ yp)) := by
    apply List.filter_congr
    intro u hu
    have hut : u < t := (List.pairwise_append.1 hx).2.2 u hu t (by simp)
    have : u ∈ y1 ++ t :: y2 ↔ u ∈ yp := by
      constructor
      · intro h
        rcases List.mem_append.1 h with h | h
        · exact h1 u h
        · rcases List.mem_cons.1 h with h | h
          · omega
          · have := List.rel_of_pairwise_cons (List.pairwise_append.1 hy).2.1 h
            omega
      · exact h2 u
    simp [this]
  rw [e1]
  have hx2 : (t :: xr).Pairwise (· < ·) := (List.pairwise_append.1 hx).2.1
  have b1 : ((t :: xr).filter (fun u => decide (u ∈ y1 ++ t :: y2))).length ≤ xr.length + 1 := by
    simpa using List.length_filter_le (fun u => decide (u ∈ y1 ++ t :: y2)) (t :: xr)
  have b2 : ((t :: xr).filter (fun u => decide (u ∈ y1 ++ t :: y2))).length ≤ y2.length + 1 := by
    apply tail_count y1 y2 t hy _ (hx2.nodup.filter _)
    intro v hv
    rw [List.mem_filter] at hv
    refine ⟨by simpa using hv.2, ?_⟩
    rcases List.mem_cons.1 hv.1 with h | h
    · omega
    · have := List.rel_of_pairwise_cons hx2 h
      omega
  omega

/-- the smallest common element lies inside both prefixes -/
theorem exists_common_in_prefixes (x y : List Nat) (hx : x.Pairwise (· < ·)) (hy : y.Pairwise (· < ·))
    (p q : Nat) (ho1 : 1 ≤ commonCount x y)
    (hp : x.length + 1 ≤ p + commonCount x y) (hq : y.length + 1 ≤ q + commonCount x y) :
    ∃ w, w ∈ x.take p ∧ w ∈ y.take q := by
  unfold commonCount at *
  generalize hC : x.filter (fun t => decide (t ∈ y)) = C at *
  have hCs : C.Pairwise (· < ·) := hC ▸ hx.filter _
  match C, hC, hCs with
  | [], _, _ => simp at ho1
  | w :: C', hC, hCs =>
    have hmem : ∀ v ∈ w :: C', v ∈ x ∧ v ∈ y ∧ w ≤ v := by
      intro v hv
      have hv' : v ∈ x.filter (fun t => decide (t ∈ y)) := hC ▸ hv
      rw [List.mem_filter] at hv'
      refine ⟨hv'.1, by simpa using hv'.2, ?_⟩
      rcases List.mem_cons.1 hv with h | h
      · omega
      · have := List.rel_of_pairwise_cons hCs h
        omega
    have hwx := (hmem w (by simp)).1
    have hwy := (hmem w (by simp)).2.1
    refine ⟨w, ?_, ?_⟩
    · obtain ⟨x1, x2, rfl⟩ := List.append_of_mem hwx
      have := tail_count x1 x2 w hx (w :: C') hCs.nodup (fun v hv => ⟨(hmem v hv).1, (hmem v hv).2.2⟩)
      simp only [List.length_append, List.length_cons] at hp this
      rw [List.take_append]
      apply List.mem_append_right
      obtain ⟨k, hk⟩ : ∃ k, p - x1.length = k + 1 := ⟨p - x1.length - 1, by omega⟩
      rw [hk, List.take_succ_cons]
      simp
    · obtain ⟨y1, y2, rfl⟩ := List.append_of_mem hwy
      have := tail_count y1 y2 w hy (w :: C') hCs.nodup (fun v hv => ⟨(hmem v hv).2.1, (hmem v hv).2.2⟩)
      simp only [List.length_append, List.length_cons] at hq this
      rw [List.take_append]
      apply List.mem_append_right
      obtain ⟨k, hk⟩ : ∃ k, q - y1.length = k + 1 := ⟨q - y1.length - 1, by omega⟩
      rw [hk, List.take_succ_cons]
      simp

/-- in a duplicate-free list the positions of a given element -/
theorem zipIdx_filter_eq_single (y1 y2 : List Nat) (t : Nat) (hnd : (y1 ++ t :: y2).Nodup) :
    (y1 ++ t :: y2).zipIdx.filter (fun q => decide (q.1 = t)) = [(t, y1.length)] := by
  rw [List.zipIdx_append, List.zipIdx_cons, List.filter_append, List.filter_cons]
  have hn1 : t ∉ y1 := fun h => (List.nodup_append.1 hnd).2.2 t h t (by simp) rfl
  have hn2 : t ∉ y2 := (List.nodup_cons.1 (List.nodup_append.1 hnd).2.1).1
  have e1 : y1.zipIdx.filter (fun q => decide (q.1 = t)) = [] := by
    rw [List.filter_eq_nil_iff]
    rintro ⟨a, i⟩ h
    have := (List.mem_zipIdx h).2.2
    simp only [decide_eq_true_eq]
    rintro rfl
    exact hn1 (this ▸ List.getElem_mem _)
  have e2 : (y2.zipIdx (0 + y1.length + 1)).filter (fun q => decide (q.1 = t)) = [] := by
    rw [List.filter_eq_nil_iff]
    rintro ⟨a, i⟩ h
    have := (List.mem_zipIdx h).2.2
    simp only [decide_eq_true_eq]
    rintro rfl
    exact hn2 (this ▸ List.getElem_mem _)
  rw [e1, e2]
  simp

theorem zipIdx_filter_eq_nil (yp : List Nat) (t : Nat) (h : t ∉ yp) :
    yp.zipIdx.filter (fun q => decide (q.1 = t)) = [] := by
  rw [List.filter_eq_nil_iff]
  rintro ⟨a, i⟩ hq
  have := (List.mem_zipIdx hq).2.2
  simp only [decide_eq_true_eq]
  rintro rfl
  exact h (this ▸ List.getElem_mem _)

/-! ### 3. `positionFindCandidates` as one fold of per-key updates -/

/-- what `posStep` does to the entry of its candidate; a step is `(cand, cand_pos, probe_pos)` -/
def posUpd (f : FilterObj) (n : Nat) (lo hi : Int) (sizeCache : List Nat) (s : Nat × Nat × Nat)
    (cur? : Option Int) : Option Int :=
  let cur := cur?.getD 0
  if cur ≠ -1 then
    let cn := sizeCache.getD s.1 0
    if lo ≤ (cn : Int) && (cn : Int) ≤ hi then
      let ub : Int := if (n : Int) - s.2.2 ≤ (cn : Int) - s.2.1 then (n : Int) - s.2.2
                      else (cn : Int) - s.2.1
      if cur + ub ≥ f.cfg.ovThr cn n then some (cur + 1) else some (-1)
    else cur?
  else cur?

def posStep' (f : FilterObj) (n : Nat) (lo hi : Int) (sizeCache : List Nat)
    (d : List (Nat × Int)) (s : Nat × Nat × Nat) : List (Nat × Int) :=
  posStep f n lo hi sizeCache d s.1 s.2.1 s.2.2

theorem posStep'_self (f : FilterObj) (n : Nat) (lo hi : Int) (sizeCache : List Nat)
    (d : List (Nat × Int)) (s : Nat × Nat × Nat) :
    Dict.get? (posStep' f n lo hi sizeCache d s) s.1 = posUpd f n lo hi sizeCache s (Dict.get? d s.1) := by
  unfold posStep' posStep posUpd Dict.getD
  simp only
  split_ifs <;> first | rfl | rw [Dict.get?_set_self]

theorem posStep'_other (f : FilterObj) (n : Nat) (lo hi : Int) (sizeCache : List Nat)
    (d : List (Nat × Int)) (s : Nat × Nat × Nat) (c : Nat) (h : s.1 ≠ c) :
    Dict.get? (posStep' f n lo hi sizeCache d s) c = Dict.get? d c := by
  unfold posStep' posStep
  simp only
  split_ifs <;> first | rfl | rw [Dict.get?_set_other _ _ _ _ h]

/-- the flat list of steps `(cand, cand_pos, probe_pos)` -/
def posSteps (index : List (Nat × List (Nat × Nat))) (xp : List Nat) : List (Nat × Nat × Nat) :=
  xp.zipIdx.flatMap (fun p => (probe index p.1).map (fun e => (e.1, e.2, p.2)))

theorem positionFindCandidates_eq (f : FilterObj) (x : List Nat) (idx : PosIndex) :
    positionFindCandidates f x idx =
      if idx.index.isEmpty then [] else
        (posSteps idx.index (pyTake x (f.cfg.prefixLen x.length))).foldl
          (posStep' f x.length (max (f.cfg.lower x.length) idx.minLength)
            (min (f.cfg.upper x.length) idx.maxLength) idx.sizeCache) [] := by
  unfold positionFindCandidates posSteps
  split
  · rfl
  · simp only
    rw [List.foldl_flatMap]
    congr 1
    funext d p
    rw [List.foldl_map]
    rfl

/-! ### 4. The size window -/

theorem foldl_min_le (sizes : List Nat) (init : Int) :
    sizes.foldl (fun (m : Int) (n : Nat) => if (n : Int) < m then (n : Int) else m) init ≤ init ∧
    ∀ n ∈ sizes, sizes.foldl (fun (m : Int) (n : Nat) => if (n : Int) < m then (n : Int) else m) init ≤ (n : Int) := by
  induction sizes generalizing init with
  | nil => simp
  | cons a l ih =>
    simp only [List.foldl_cons, List.mem_cons, forall_eq_or_imp]
    obtain ⟨h1, h2⟩ := ih (if (a : Int) < init then (a : Int) else init)
    refine ⟨?_, ?_, h2⟩ <;> split_ifs at h1 ⊢ <;> omega

theorem foldl_max_ge (sizes : List Nat) (init : Int) :
    init ≤ sizes.foldl (fun (m : Int) (n : Nat) => if (n : Int) > m then (n : Int) else m) init ∧
    ∀ n ∈ sizes, (n : Int) ≤ sizes.foldl (fun (m : Int) (n : Nat) => if (n : Int) > m then (n : Int) else m) init := by
  induction sizes generalizing init with
  | nil => simp
  | cons a l ih =>
    simp only [List.foldl_cons, List.mem_cons, forall_eq_or_imp]
    obtain ⟨h1, h2⟩ := ih (if (a : Int) > init then (a : Int) else init)
    refine ⟨?_, ?_, h2⟩ <;> split_ifs at h1 ⊢ <;> omega

theorem minLength_le (sizes : List Nat) (n : Nat) (h : n ∈ sizes) : minLength sizes ≤ (n : Int) :=
  (foldl_min_le sizes maxsize).2 n h

theorem le_maxLength (sizes : List Nat) (n : Nat) (h : n ∈ sizes) : (n : Int) ≤ maxLength sizes :=
  (foldl_max_ge sizes 0).2 n h

theorem sizeCache_getD (ordToks : List (List Nat)) (c : Nat) (y : List Nat) (hy : ordToks[c]? = some y) :
    (ordToks.map List.length).getD c 0 = y.length := by
  rw [List.getD_eq_getElem?_getD, List.getElem?_map, hy]
  rfl

theorem pyTake_of_nonneg {α : Type} (l : List α) (k : Int) (h : 0 ≤ k) : pyTake l k = l.take k.toNat := by
  unfold pyTake
  rw [if_pos h]

/-! ### 5. The scan for one candidate -/

/-- the steps of candidate `c` -/
def candSteps (c : Nat) (yp : List Nat) (k : Nat) (xs : List Nat) : List (Nat × Nat × Nat) :=
  (xs.zipIdx k).flatMap (fun p =>
    (yp.zipIdx.filter (fun q => decide (q.1 = p.1))).map (fun q => (c, q.2, p.2)))

theorem posSteps_filter (cfg : FCfg) (ordToks : List (List Nat)) (c : Nat) (y : List Nat)
    (hy : ordToks[c]? = some y) (xp : List Nat) :
    (posSteps (posPostings cfg ordToks) xp).filter (fun s => decide (s.1 = c)) =
      candSteps c (pyTake y (cfg.prefixLen y.length)) 0 xp := by
  unfold posSteps candSteps
  rw [List.filter_flatMap]
  congr 1
  funext p
  rw [List.filter_map]
  have : ((fun s : Nat × Nat × Nat => decide (s.1 = c)) ∘ fun e : Nat × Nat => (e.1, e.2, p.2)) =
      fun e => decide (e.1 = c) := rfl
  rw [this, probe_posPostings_filter cfg ordToks p.1 c y hy, List.map_map]
  rfl

theorem posUpd_match (f : FilterObj) (c n : Nat) (lo hi : Int) (sizes : List Nat) (m j i : Nat)
    (s : Option Int) (k : Nat) (hs : s.getD 0 = (k : Int)) (hsz : sizes.getD c 0 = m)
    (hlo : lo ≤ (m : Int)) (hhi : (m : Int) ≤ hi)
    (hb : f.cfg.ovThr m n ≤ (k : Int) + min ((n : Int) - i) ((m : Int) - j)) :
    posUpd f n lo hi sizes (c, j, i) s = some ((k : Int) + 1) := by
  unfold posUpd
  simp only [hs, hsz]
  rw [if_pos (by omega)]
  simp only [hlo, hhi, decide_true, Bool.and_self, if_true]
  rw [if_pos]
  split_ifs <;> omega

theorem scan_complete (f : FilterObj) (c n : Nat) (lo hi : Int) (sizes : List Nat)
    (x y xp xr yp yr : List Nat) (hxe : x = xp ++ xr) (hye : y = yp ++ yr) (hn : n = x.length)
    (hx : x.Pairwise (· < ·)) (hy : y.Pairwise (· < ·))
    (hsz : sizes.getD c 0 = y.length) (hlo : lo ≤ (y.length : Int)) (hhi : (y.length : Int) ≤ hi)
    (hthr : f.cfg.ovThr y.length n ≤ (commonCount x y : Int))
    (xs x0 : List Nat) (hxp : xp = x0 ++ xs) (s : Option Int)
    (hs : s.getD 0 = ((x0.filter (fun u => decide (u ∈ yp))).length : Int)) :
    ((candSteps c yp x0.length xs).foldl (fun v st => posUpd f n lo hi sizes st v) s).getD 0 =
      ((xp.filter (fun u => decide (u ∈ yp))).length : Int) := by
  induction xs generalizing x0 s with
  | nil =>
    simp only [List.append_nil] at hxp
    subst hxp
    simpa [candSteps] using hs
  | cons t xs ih =>
    unfold candSteps
    rw [List.zipIdx_cons, List.flatMap_cons, List.foldl_append]
    have hlen : x0.length + 1 = (x0 ++ [t]).length := by simp
    by_cases ht : t ∈ yp
    · obtain ⟨y1, y2, rfl⟩ := List.append_of_mem ht
      have hnd : (y1 ++ t :: y2).Nodup := by
        have : (y1 ++ t :: y2 ++ yr).Pairwise (· < ·) := hye ▸ hy
        exact (List.pairwise_append.1 this).1.nodup
      rw [zipIdx_filter_eq_single y1 y2 t hnd]
      simp only [List.map_cons, List.map_nil, List.foldl_cons, List.foldl_nil]
      have hb : (commonCount x y : Int) ≤
          ((x0.filter (fun u => decide (u ∈ y1 ++ t :: y2))).length : Int) +
            min ((n : Int) - x0.length) ((y.length : Int) - y1.length) := by
        have hx' : (x0 ++ t :: (xs ++ xr)).Pairwise (· < ·) := by
          have := hx; rw [hxe, hxp] at this; simpa using this
        have hy' : (y1 ++ t :: (y2 ++ yr)).Pairwise (· < ·) := by
          have := hy; rw [hye] at this; simpa using this
        have := common_bound x0 (xs ++ xr) y1 (y2 ++ yr) t hx' hy' (y1 ++ t :: y2)
          (fun u hu => List.mem_append_left _ hu)
          (fun u hu => by
            rcases List.mem_append.1 hu with h | h
            · exact List.mem_append_left _ h
            · rcases List.mem_cons.1 h with h | h
              · subst h; simp
              · simp [h])
        have ex : x = x0 ++ t :: (xs ++ xr) := by rw [hxe, hxp]; simp
        have ey : y = y1 ++ t :: (y2 ++ yr) := by rw [hye]; simp
        rw [← ex, ← ey] at this
        have lx : x.length = x0.length + (xs.length + xr.length + 1) := by rw [ex]; simp
        have ly : y.length = y1.length + (y2.length + yr.length + 1) := by rw [ey]; simp
        simp only [List.length_append] at this
        omega
      rw [posUpd_match f c n lo hi sizes y.length y1.length x0.length s _ hs hsz hlo hhi (by omega)]
      rw [hlen]
      apply ih (x0 ++ [t]) (by rw [hxp]; simp)
      rw [List.filter_append]
      simp
    · rw [zipIdx_filter_eq_nil yp t ht]
      simp only [List.map_nil, List.foldl_nil]
      rw [hlen]
      apply ih (x0 ++ [t]) (by rw [hxp]; simp)
      rw [List.filter_append]
      simpa [ht] using hs

/-! ### 6. Completeness -/

theorem commonCount_le_left (x y : List Nat) : commonCount x y ≤ x.length :=
  List.length_filter_le _ _

theorem commonCount_le_right (x y : List Nat) (hx : x.Nodup) : commonCount x y ≤ y.length := by
  unfold commonCount
  refine (List.subperm_of_subset (hx.filter _) ?_).length_le
  intro v hv
  simpa using (List.mem_filter.1 hv).2

/-- COMPLETENESS: a candidate whose sizes are inside the window, whose overlap with the probe reaches the
    required overlap, and for which both prefixes are long enough, ends with a positive count. -/
theorem positionFindCandidates_complete (f : FilterObj) (ordToks : List (List Nat)) (x : List Nat)
    (c : Nat) (y : List Nat) (hy : ordToks[c]? = some y)
    (hx : x.Pairwise (· < ·)) (hys : y.Pairwise (· < ·))
    (o : Nat) (ho : o = commonCount x y) (ho1 : 1 ≤ o)
    (hlo : f.cfg.lower x.length ≤ (y.length : Int)) (hhi : (y.length : Int) ≤ f.cfg.upper x.length)
    (hthr : f.cfg.ovThr y.length x.length ≤ (o : Int))
    (hpx : (x.length : Int) - o + 1 ≤ f.cfg.prefixLen x.length)
    (hpy : (y.length : Int) - o + 1 ≤ f.cfg.prefixLen y.length)
    (ce ct : Bool) :
    ∃ v : Int, Dict.get? (positionFindCandidates f x (PosIndex.build f.cfg ordToks ce ct)) c = some v ∧ 0 < v := by
  subst ho
  have hon := commonCount_le_left x y
  have hom := commonCount_le_right x y hx.nodup
  have hpl : 0 ≤ f.cfg.prefixLen x.length := by omega
  have hply : 0 ≤ f.cfg.prefixLen y.length := by omega
  -- a common token inside both prefixes
  obtain ⟨w, hwx, hwy⟩ := exists_common_in_prefixes x y hx hys (f.cfg.prefixLen x.length).toNat
    (f.cfg.prefixLen y.length).toNat ho1 (by omega) (by omega)
  rw [← pyTake_of_nonneg x _ hpl] at hwx
  rw [← pyTake_of_nonneg y _ hply] at hwy
  -- the index is not empty
  have hne : (PosIndex.build f.cfg ordToks ce ct).index.isEmpty = false := by
    have h1 := probe_posPostings_filter f.cfg ordToks w c y hy
    obtain ⟨y1, y2, hyp⟩ := List.append_of_mem hwy
    have hnd : (y1 ++ w :: y2).Nodup := by
      rw [← hyp, pyTake_of_nonneg y _ hply]
      exact (hys.sublist (List.take_sublist _ _)).nodup
    rw [hyp, zipIdx_filter_eq_single y1 y2 w hnd] at h1
    show (posPostings f.cfg ordToks).isEmpty = false
    cases hidx : posPostings f.cfg ordToks with
    | nil => rw [hidx] at h1; simp [probe_nil] at h1
    | cons a l => rfl
  rw [positionFindCandidates_eq, hne]
  simp only [Bool.false_eq_true, if_false]
  rw [Dict.get?_foldl _ (fun s => s.1) _ (posStep'_self f _ _ _ _) (posStep'_other f _ _ _ _)]
  show ∃ v, List.foldl _ _ (List.filter _ (posSteps (posPostings f.cfg ordToks) _)) = some v ∧ 0 < v
  rw [posSteps_filter f.cfg ordToks c y hy, Dict.get?_nil]
  -- window
  have hmem : y.length ∈ ordToks.map List.length :=
    List.mem_map.2 ⟨y, List.mem_of_getElem? hy, rfl⟩
  have hscan := scan_complete f c x.length
    (max (f.cfg.lower x.length) (PosIndex.build f.cfg ordToks ce ct).minLength)
    (min (f.cfg.upper x.length) (PosIndex.build f.cfg ordToks ce ct).maxLength)
    (PosIndex.build f.cfg ordToks ce ct).sizeCache x y
    (pyTake x (f.cfg.prefixLen x.length)) (x.drop (f.cfg.prefixLen x.length).toNat)
    (pyTake y (f.cfg.prefixLen y.length)) (y.drop (f.cfg.prefixLen y.length).toNat)
    (by rw [pyTake_of_nonneg x _ hpl]; simp) (by rw [pyTake_of_nonneg y _ hply]; simp) rfl hx hys
    (sizeCache_getD ordToks c y hy)
    (max_le hlo (minLength_le _ _ hmem)) (le_min hhi (le_maxLength _ _ hmem)) hthr
    (pyTake x (f.cfg.prefixLen x.length)) [] rfl none (by simp)
  simp only [List.length_nil] at hscan
  have hpos : 1 ≤ ((pyTake x (f.cfg.prefixLen x.length)).filter
      (fun u => decide (u ∈ pyTake y (f.cfg.prefixLen y.length)))).length :=
    List.length_pos_of_mem (List.mem_filter.2 ⟨hwx, by simpa using hwy⟩)
  generalize List.foldl _ none (candSteps c _ 0 _) = r at hscan ⊢
  cases r with
  | none => simp at hscan; omega
  | some v => exact ⟨v, rfl, by simp at hscan; omega⟩

/-! ### 7. Keys of the result and pruning power -/

theorem posStep'_cases (f : FilterObj) (n : Nat) (lo hi : Int) (sizeCache : List Nat)
    (d : List (Nat × Int)) (s : Nat × Nat × Nat) :
    posStep' f n lo hi sizeCache d s = d ∨
      (lo ≤ (sizeCache.getD s.1 0 : Int) ∧ (sizeCache.getD s.1 0 : Int) ≤ hi ∧
        ∃ v, posStep' f n lo hi sizeCache d s = Dict.set d s.1 v) := by
  unfold posStep' posStep
  simp only
  split_ifs with h1 h2 h3 h4
  all_goals first
    | exact Or.inl rfl
    | (simp only [Bool.and_eq_true, decide_eq_true_eq] at h2
       exact Or.inr ⟨h2.1, h2.2, _, rfl⟩)

theorem mem_posSteps (index : List (Nat × List (Nat × Nat))) (xp : List Nat) (s : Nat × Nat × Nat)
    (h : s ∈ posSteps index xp) : ∃ t, t ∈ xp ∧ (s.1, s.2.1) ∈ probe index t := by
  unfold posSteps at h
  simp only [List.mem_flatMap, List.mem_map] at h
  obtain ⟨p, hp, e, he, rfl⟩ := h
  refine ⟨p.1, ?_, he⟩
  obtain ⟨a, i⟩ := p
  have := (List.mem_zipIdx hp).2.2
  exact this ▸ List.getElem_mem _

/-- every key of the result is a valid row id whose size is inside the window and whose prefix
    shares a token with the probe prefix -/
theorem positionFindCandidates_mem (f : FilterObj) (ordToks : List (List Nat)) (x : List Nat) (ce ct : Bool)
    (p : Nat × Int) (h : p ∈ positionFindCandidates f x (PosIndex.build f.cfg ordToks ce ct)) :
    ∃ y, ordToks[p.1]? = some y ∧
      f.cfg.lower x.length ≤ (y.length : Int) ∧ (y.length : Int) ≤ f.cfg.upper x.length ∧
      ∃ t, t ∈ pyTake x (f.cfg.prefixLen x.length) ∧ t ∈ pyTake y (f.cfg.prefixLen y.length) := by
  rw [positionFindCandidates_eq] at h
  split at h
  · simp at h
  · revert p
    apply Dict.foldl_invariant (fun d : List (Nat × Int) => ∀ p ∈ d, ∃ y, ordToks[p.1]? = some y ∧
      f.cfg.lower x.length ≤ (y.length : Int) ∧ (y.length : Int) ≤ f.cfg.upper x.length ∧
      ∃ t, t ∈ pyTake x (f.cfg.prefixLen x.length) ∧ t ∈ pyTake y (f.cfg.prefixLen y.length))
    · intro p hp; simp at hp
    · intro d s hs hd p hp
      rcases posStep'_cases f x.length _ _ (PosIndex.build f.cfg ordToks ce ct).sizeCache d s with
        e | ⟨hlo, hhi, v, e⟩
      · rw [e] at hp; exact hd p hp
      · rw [e] at hp
        rcases Dict.mem_set d s.1 v p hp with hp | rfl
        · exact hd p hp
        · obtain ⟨t, htx, htp⟩ := mem_posSteps _ _ s hs
          obtain ⟨y, hy, hty⟩ := mem_probe_posPostings f.cfg ordToks t s.1 s.2.1 htp
          have hsz : (PosIndex.build f.cfg ordToks ce ct).sizeCache.getD s.1 0 = y.length :=
            sizeCache_getD ordToks s.1 y hy
          rw [hsz] at hlo hhi
          exact ⟨y, hy, le_trans (le_max_left _ _) hlo, le_trans hhi (min_le_left _ _),
            t, htx, List.mem_of_getElem? hty⟩

/-- each candidate occurs at most once in the result and is a valid row id -/
theorem positionFindCandidates_keys (f : FilterObj) (ordToks : List (List Nat)) (x : List Nat) (ce ct : Bool) :
    ((positionFindCandidates f x (PosIndex.build f.cfg ordToks ce ct)).map (·.1)).Nodup ∧
    ∀ p ∈ positionFindCandidates f x (PosIndex.build f.cfg ordToks ce ct), p.1 < ordToks.length := by
  constructor
  · rw [positionFindCandidates_eq]
    split
    · simp
    · apply Dict.foldl_invariant (fun d : List (Nat × Int) => (d.map (·.1)).Nodup)
      · simp
      · intro d s _ hd
        rcases posStep'_cases f x.length _ _ (PosIndex.build f.cfg ordToks ce ct).sizeCache d s with
          e | ⟨_, _, v, e⟩
        · rw [e]; exact hd
        · rw [e]; exact Dict.nodup_keys_set d s.1 v hd
  · intro p hp
    obtain ⟨y, hy, _⟩ := positionFindCandidates_mem f ordToks x ce ct p hp
    exact (List.getElem?_eq_some_iff.1 hy).1

set_option linter.unusedVariables false in
/-- PRUNING POWER: a positive count means the sizes are inside the window and the two prefixes share a token
    (`hv` is not even needed: every key of the result has this property, see `positionFindCandidates_mem`) -/
theorem positionFindCandidates_pos (f : FilterObj) (ordToks : List (List Nat)) (x : List Nat) (ce ct : Bool)
    (c : Nat) (v : Int)
    (h : (c, v) ∈ positionFindCandidates f x (PosIndex.build f.cfg ordToks ce ct)) (hv : 0 < v) :
    ∃ y, ordToks[c]? = some y ∧
      f.cfg.lower x.length ≤ (y.length : Int) ∧ (y.length : Int) ≤ f.cfg.upper x.length ∧
      ∃ t, t ∈ pyTake x (f.cfg.prefixLen x.length) ∧ t ∈ pyTake y (f.cfg.prefixLen y.length) :=
  positionFindCandidates_mem f ordToks x ce ct (c, v) h

end SSJ

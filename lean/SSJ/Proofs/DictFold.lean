/-
  SSJ.Proofs.DictFold — lemmas on the Python-dict association lists (`Dict.get?/getD/set`),
  the fold factorisation lemma (the final entry of a key only depends on the steps touching
  that key), and `appendAt`/`probe`.
-/
import SSJ.Model.Index
import Mathlib.Data.List.Basic

namespace SSJ

namespace Dict
variable {κ ν : Type} [DecidableEq κ]

@[simp] theorem get?_nil (k : κ) : get? ([] : List (κ × ν)) k = none := rfl

theorem get?_cons (p : κ × ν) (m : List (κ × ν)) (k : κ) :
    get? (p :: m) k = if p.1 = k then some p.2 else get? m k := by
  obtain ⟨k', v⟩ := p; rfl

theorem get?_set_self (d : List (κ × ν)) (k : κ) (v : ν) : get? (set d k v) k = some v := by
  induction d with
  | nil => simp [set, get?]
  | cons p m ih =>
    obtain ⟨k', v'⟩ := p
    by_cases h : k' = k
    · simp [set, get?, h]
    · simp [set, get?, h, ih]

theorem get?_set_other (d : List (κ × ν)) (k c : κ) (v : ν) (h : k ≠ c) :
    get? (set d k v) c = get? d c := by
  induction d with
  | nil => simp [set, get?, h]
  | cons p m ih =>
    obtain ⟨k', v'⟩ := p
    by_cases h' : k' = k
    · subst h'; simp [set, get?, h]
    · by_cases hc : k' = c
      · subst hc; simp [set, get?, h']
      · simp [set, get?, h', hc, ih]

theorem keys_set (d : List (κ × ν)) (k : κ) (v : ν) :
    (set d k v).map (·.1) = if k ∈ d.map (·.1) then d.map (·.1) else d.map (·.1) ++ [k] := by
  induction d with
  | nil => simp [set]
  | cons p m ih =>
    obtain ⟨k', v'⟩ := p
    by_cases h : k' = k
    · subst h; simp [set]
    · have h2 : ¬ k = k' := fun e => h e.symm
      simp only [set, h, if_false, List.map_cons, ih, List.mem_cons, h2, false_or]
      split <;> simp

theorem nodup_keys_set (d : List (κ × ν)) (k : κ) (v : ν) (h : (d.map (·.1)).Nodup) :
    ((set d k v).map (·.1)).Nodup := by
  rw [keys_set]
  split
  · exact h
  · rename_i hk
    rw [List.nodup_append]
    refine ⟨h, by simp, ?_⟩
    intro a ha b hb
    simp only [List.mem_singleton] at hb
    subst hb
    intro e; subst e; exact hk ha

theorem mem_set (d : List (κ × ν)) (k : κ) (v : ν) (p : κ × ν) (h : p ∈ set d k v) :
    p ∈ d ∨ p = (k, v) := by
  induction d with
  | nil => simpa [set] using h
  | cons q m ih =>
    obtain ⟨k', v'⟩ := q
    by_cases hk : k' = k
    · subst hk
      simp only [set, if_true, List.mem_cons] at h
      rcases h with h | h
      · exact Or.inr h
      · exact Or.inl (List.mem_cons_of_mem _ h)
    · simp only [set, hk, if_false, List.mem_cons] at h
      rcases h with h | h
      · exact Or.inl (h ▸ List.mem_cons_self)
      · rcases ih h with h | h
        · exact Or.inl (List.mem_cons_of_mem _ h)
        · exact Or.inr h

theorem mem_of_get? (d : List (κ × ν)) (k : κ) (v : ν) (h : get? d k = some v) : (k, v) ∈ d := by
  induction d with
  | nil => simp at h
  | cons q m ih =>
    obtain ⟨k', v'⟩ := q
    by_cases hk : k' = k
    · subst hk
      simp only [get?, if_true, Option.some.injEq] at h
      subst h; exact List.mem_cons_self
    · simp only [get?, hk, if_false] at h
      exact List.mem_cons_of_mem _ (ih h)

/-- **fold factorisation**: if every step only touches the entry of its own key, the final
    entry of key `c` is obtained by folding only the steps with key `c` over the initial entry. -/
theorem get?_foldl {σ : Type} (step : List (κ × ν) → σ → List (κ × ν)) (key : σ → κ)
    (upd : σ → Option ν → Option ν)
    (hself : ∀ d s, get? (step d s) (key s) = upd s (get? d (key s)))
    (hother : ∀ d s c, key s ≠ c → get? (step d s) c = get? d c)
    (steps : List σ) (d : List (κ × ν)) (c : κ) :
    get? (steps.foldl step d) c =
      (steps.filter (fun s => decide (key s = c))).foldl (fun v s => upd s v) (get? d c) := by
  induction steps generalizing d with
  | nil => rfl
  | cons s steps ih =>
    rw [List.foldl_cons, ih]
    by_cases h : key s = c
    · subst h
      simp [hself]
    · simp [h, hother d s c h]

/-- invariants of a fold (generic, for convenience) -/
theorem foldl_invariant {α σ : Type} (P : α → Prop) (step : α → σ → α) (steps : List σ) (a : α)
    (h0 : P a) (hstep : ∀ a s, s ∈ steps → P a → P (step a s)) : P (steps.foldl step a) := by
  induction steps generalizing a with
  | nil => exact h0
  | cons s steps ih =>
    rw [List.foldl_cons]
    exact ih _ (hstep a s List.mem_cons_self h0)
      (fun a s' hs' => hstep a s' (List.mem_cons_of_mem _ hs'))

end Dict

/-! ### `appendAt` / `probe` -/
section Probe
variable {κ β : Type} [DecidableEq κ]

theorem probe_nil (k : κ) : probe ([] : List (κ × List β)) k = [] := rfl

theorem probe_appendAt (d : List (κ × List β)) (k t : κ) (v : β) :
    probe (appendAt d k v) t = if k = t then probe d t ++ [v] else probe d t := by
  unfold probe appendAt Dict.getD
  by_cases h : k = t
  · subst h; simp [Dict.get?_set_self]
  · simp [h, Dict.get?_set_other _ _ _ _ h]

/-- the posting list of `t` after appending a list of `(key, value)` pairs -/
theorem probe_foldl_appendAt (L : List (κ × β)) (d : List (κ × List β)) (t : κ) :
    probe (L.foldl (fun d e => appendAt d e.1 e.2) d) t =
      probe d t ++ (L.filter (fun e => decide (e.1 = t))).map (·.2) := by
  induction L generalizing d with
  | nil => simp
  | cons e L ih =>
    rw [List.foldl_cons, ih, probe_appendAt]
    by_cases h : e.1 = t
    · simp [h]
    · simp [h]

end Probe

end SSJ

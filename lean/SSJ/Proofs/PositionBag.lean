/-
  SSJ.Proofs.PositionBag — the position filter's `find_candidates` over a `PositionIndex` on BAGS
  (weakly sorted rank lists, duplicates allowed), as they occur under EDIT_DISTANCE (bags of q-grams).

  QUESTION.  With duplicates a probe token occurring several times in the probe prefix meets several postings
  `(cand, cand_pos)` of one candidate; every (probe position, posting) pair is one step of the scan, the running count
  of a candidate can exceed the true bag overlap, and the positional upper bound `min(n − probe_pos, cn − cand_pos)` is
  evaluated per posting.  Is the scan still SAFE, i.e. is a candidate whose bag overlap reaches the required overlap
  never set to −1 and reported with a positive count?

  ANSWER: YES (`positionFindCandidates_complete_bag`).  Over-counting only helps.  At a step
  `(i, j)` with `x[i] = y[j] = t` (`x` probe, `y` candidate, both ascending) the running count `K` is the number of
  earlier steps, and
    * `K ≥ |{u ∈ x[0..i) : u ∈ prefix(y)}|`: every such `u` met at least one posting; the other elements of `x[0..i)`
      are `≤ t`, hence not in `y` at all, so `i ≤ K + |x∖y|` and `o = n − |x∖y| ≤ K + (n − i)`;
    * `K ≥ |{w ∈ y[0..j) : w ∈ x[0..i)}| + |{w ∈ y[0..j) : w = t}|`: the first part was met by earlier probe positions,
      the second by the current one; the other elements of `y[0..j)` are not in `x`, so `j ≤ K + |y∖x|` and
      `o = cn − |y∖x| ≤ K + (cn − j)`
  (`o` = size of the bag intersection, `∖` = bag difference).  Hence `K + min(n − i, cn − j) ≥ o ≥ ovThr`
  (`bag_bound`).  An exhaustive `#eval` search on the model (all strings over {a,b} up to length 6 / {a,b,c} up to length
  4, q ∈ {1,2,3}, padded or not, τ ∈ {1,2,3}, plus random sub-tables) found no omitted pair either.

  The file then lifts the result to `PositionFilter.filter_tables` under EDIT_DISTANCE at entry level
  (`filterTables_position_safe_ed`), which `SSJ/Props/C04_ed.lean` restates.
-/
import SSJ.Proofs.Position
import SSJ.Proofs.EntryFilters
import Mathlib.Data.List.Lattice

namespace SSJ

/-! ### 1. Bag combinatorics -/

/-- size of the bag intersection + size of the bag difference = length -/
theorem length_bagInter_add_diff (x y : List Nat) : (x.bagInter y).length + (x.diff y).length = x.length := by
  induction x generalizing y with
  | nil => simp
  | cons a x ih =>
    rw [List.cons_bagInter, List.cons_diff]
    by_cases ha : a ∈ y
    · rw [if_pos ha, if_pos ha]
      have := ih (y.erase a)
      simp only [List.length_cons]
      omega
    · rw [if_neg ha, if_neg ha]
      have := ih y
      simp only [List.length_cons]
      omega

/-- a list is covered by three filters whose predicates cover its elements -/
theorem length_le_filter3 (l : List Nat) (p1 p2 p3 : Nat → Bool) (h : ∀ u ∈ l, p1 u = true ∨ p2 u = true ∨ p3 u = true) :
    l.length ≤ (l.filter p1).length + (l.filter p2).length + (l.filter p3).length := by
  induction l with
  | nil => simp
  | cons a l ih =>
    have := ih (fun u hu => h u (List.mem_cons_of_mem _ hu))
    have ha := h a List.mem_cons_self
    simp only [List.filter_cons, List.length_cons]
    cases h1 : p1 a <;> cases h2 : p2 a <;> cases h3 : p3 a <;>
      simp only [h1, h2, h3, Bool.false_eq_true, or_self, if_true, if_false, List.length_cons] at ha ⊢ <;> omega

theorem length_le_filter2 (l : List Nat) (p1 p2 : Nat → Bool) (h : ∀ u ∈ l, p1 u = true ∨ p2 u = true) :
    l.length ≤ (l.filter p1).length + (l.filter p2).length := by
  have := length_le_filter3 l p1 p2 (fun _ => false) (fun u hu => by
    rcases h u hu with h | h
    · exact Or.inl h
    · exact Or.inr (Or.inl h))
  simpa using this

/-- THE POSITIONAL BOUND ON BAGS.  `x = x0 ++ t :: xr` (probe), `y = ya ++ t :: yb` (candidate), both ascending;
    `yp` a prefix of `y` which contains the position `|ya|`; the running count `K` is at least the number of elements of
    `x0` occurring in `yp` and at least the number of elements of `yp` occurring in `x0`.  Then the bag overlap `o` is at
    most `K` + the number of earlier postings of `t` + the positional bound. -/
theorem bag_bound (x y x0 xr ya yb yp yr ypb : List Nat) (t : Nat)
    (hx : x.Pairwise (· ≤ ·)) (hy : y.Pairwise (· ≤ ·))
    (hxe : x = x0 ++ t :: xr) (hye : y = ya ++ t :: yb) (hyp : y = yp ++ yr) (hypa : yp = ya ++ t :: ypb)
    (o : Nat) (ho : o + (x.diff y).length = x.length)
    (K : Nat) (hK1 : (x0.filter (fun u => decide (u ∈ yp))).length ≤ K)
    (hK2 : (yp.filter (fun w => decide (w ∈ x0))).length ≤ K) :
    (o : Int) ≤ (K : Int) + ((ya.filter (fun w => decide (w = t))).length : Int) +
      min ((x.length : Int) - x0.length) ((y.length : Int) - ya.length) := by
  have hx' := hx; rw [hxe] at hx'
  have hy' := hy; rw [hye] at hy'
  have hy'' := hy; rw [hyp] at hy''
  have htyp : t ∈ yp := by rw [hypa]; simp
  -- part A : `|x0| ≤ K + |x ∖ y|`
  have hA : x0.length ≤ K + (x.diff y).length := by
    have h1 := length_le_filter2 x0 (fun u => decide (u ∈ yp)) (fun u => decide (u ∉ y)) (by
      intro u hu
      by_cases h : u ∈ yp
      · exact Or.inl (by simpa using h)
      · right
        simp only [decide_eq_true_eq]
        intro huy
        rw [hyp] at huy
        rcases List.mem_append.1 huy with h' | h'
        · exact h h'
        · have h1 : u ≤ t := (List.pairwise_append.1 hx').2.2 u hu t (by simp)
          have h2 : t ≤ u := (List.pairwise_append.1 hy'').2.2 t htyp u h'
          have : u = t := le_antisymm h1 h2
          exact h (this ▸ htyp))
    have h2 : (x0.filter (fun u => decide (u ∉ y))).length ≤ (x0.diff y).length :=
      EntryFilters.length_filter_not_mem_le_diff x0 y
    have h3 : (x0.diff y).length ≤ (x.diff y).length := by
      have hsub : List.Sublist x0 x := by rw [hxe]; exact List.sublist_append_left _ _
      exact (hsub.diff_right).length_le
    omega
  -- part B : `|ya| ≤ K + v + |y ∖ x|`
  have hB : ya.length ≤ K + (ya.filter (fun w => decide (w = t))).length + (y.diff x).length := by
    have h1 := length_le_filter3 ya (fun w => decide (w ∉ x)) (fun w => decide (w ∈ x0)) (fun w => decide (w = t)) (by
      intro w hw
      by_cases h : w ∈ x
      · right
        rw [hxe] at h
        rcases List.mem_append.1 h with h' | h'
        · exact Or.inl (by simpa using h')
        · right
          have h1 : w ≤ t := (List.pairwise_append.1 hy').2.2 w hw t (by simp)
          have h2 : t ≤ w := by
            rcases List.mem_cons.1 h' with h'' | h''
            · omega
            · exact List.rel_of_pairwise_cons (List.pairwise_append.1 hx').2.1 h''
          simp only [decide_eq_true_eq]
          omega
      · exact Or.inl (by simpa using h))
    have h2 : (ya.filter (fun w => decide (w ∉ x))).length ≤ (ya.diff x).length :=
      EntryFilters.length_filter_not_mem_le_diff ya x
    have h3 : (ya.diff x).length ≤ (y.diff x).length := by
      have hsub : List.Sublist ya y := by rw [hye]; exact List.sublist_append_left _ _
      exact (hsub.diff_right).length_le
    have h4 : (ya.filter (fun w => decide (w ∈ x0))).length ≤ (yp.filter (fun w => decide (w ∈ x0))).length := by
      have hsub : List.Sublist ya yp := by rw [hypa]; exact List.sublist_append_left _ _
      exact (hsub.filter _).length_le
    omega
  have hC := EntryFilters.length_add_diff x y
  have lx : x.length = x0.length + (xr.length + 1) := by rw [hxe]; simp
  have ly : y.length = ya.length + (yb.length + 1) := by rw [hye]; simp
  omega

theorem length_filter_or_le (l : List Nat) (p q : Nat → Bool) :
    (l.filter (fun u => p u || q u)).length ≤ (l.filter p).length + (l.filter q).length := by
  induction l with
  | nil => simp
  | cons a l ih =>
    simp only [List.filter_cons]
    cases h1 : p a <;> cases h2 : q a <;>
      simp only [Bool.or_self, Bool.or_true, Bool.true_or, Bool.false_eq_true, if_true, if_false,
        List.length_cons] <;> omega

/-! ### 2. The scan for one candidate, on bags -/

/-- the postings of one probe token `t` (probe position `i`) for candidate `c`: every posting is accepted and adds one -/
theorem inner_scan (f : FilterObj) (c n : Nat) (lo hi : Int) (sizes : List Nat) (cn : Nat)
    (hsz : sizes.getD c 0 = cn) (hlo : lo ≤ (cn : Int)) (hhi : (cn : Int) ≤ hi)
    (t i : Nat) (yp : List Nat) (K : Nat)
    (hb : ∀ ya ypb, yp = ya ++ t :: ypb →
      f.cfg.ovThr cn n ≤ ((K + (ya.filter (fun w => decide (w = t))).length : Nat) : Int) +
        min ((n : Int) - i) ((cn : Int) - ya.length))
    (ya yb : List Nat) (hyp : yp = ya ++ yb) (s : Option Int)
    (hs : s.getD 0 = ((K + (ya.filter (fun w => decide (w = t))).length : Nat) : Int)) :
    ((((yb.zipIdx ya.length).filter (fun q => decide (q.1 = t))).map (fun q => (c, q.2, i))).foldl
        (fun v st => posUpd f n lo hi sizes st v) s).getD 0 =
      ((K + (yp.filter (fun w => decide (w = t))).length : Nat) : Int) := by
  induction yb generalizing ya s with
  | nil =>
    simp only [List.append_nil] at hyp
    subst hyp
    simpa using hs
  | cons w yb ih =>
    rw [List.zipIdx_cons, List.filter_cons]
    have hlen : ya.length + 1 = (ya ++ [w]).length := by simp
    have hyp' : yp = (ya ++ [w]) ++ yb := by rw [hyp]; simp
    by_cases hw : w = t
    · subst hw
      rw [if_pos (by simp)]
      simp only [List.map_cons, List.foldl_cons]
      rw [posUpd_match f c n lo hi sizes cn ya.length i s _ hs hsz hlo hhi (hb ya yb hyp)]
      rw [hlen]
      apply ih (ya ++ [w]) hyp'
      rw [List.filter_append]
      simp only [List.filter_cons, decide_true, if_true, List.filter_nil, List.length_append, List.length_cons,
        List.length_nil, Option.getD_some]
      push_cast
      omega
    · rw [if_neg (by simpa using hw)]
      rw [hlen]
      apply ih (ya ++ [w]) hyp'
      rw [List.filter_append]
      simpa [hw] using hs

/-- the whole scan of candidate `c`: the count stays a natural number (never −1) and ends at least as large as the number
    of probe-prefix elements occurring in the candidate's prefix -/
theorem scan_complete_bag (f : FilterObj) (c n : Nat) (lo hi : Int) (sizes : List Nat)
    (x y xp xr yp yr : List Nat) (hxe : x = xp ++ xr) (hye : y = yp ++ yr) (hn : n = x.length)
    (hx : x.Pairwise (· ≤ ·)) (hy : y.Pairwise (· ≤ ·))
    (hsz : sizes.getD c 0 = y.length) (hlo : lo ≤ (y.length : Int)) (hhi : (y.length : Int) ≤ hi)
    (o : Nat) (ho : o + (x.diff y).length = x.length) (hthr : f.cfg.ovThr y.length n ≤ (o : Int))
    (xs x0 : List Nat) (hxp : xp = x0 ++ xs) (s : Option Int) (K : Nat) (hs : s.getD 0 = (K : Int))
    (hK1 : (x0.filter (fun u => decide (u ∈ yp))).length ≤ K)
    (hK2 : (yp.filter (fun w => decide (w ∈ x0))).length ≤ K) :
    ∃ K' : Nat, ((candSteps c yp x0.length xs).foldl (fun v st => posUpd f n lo hi sizes st v) s).getD 0 = (K' : Int) ∧
      (xp.filter (fun u => decide (u ∈ yp))).length ≤ K' := by
  subst hn
  induction xs generalizing x0 s K with
  | nil =>
    simp only [List.append_nil] at hxp
    subst hxp
    exact ⟨K, by simpa [candSteps] using hs, hK1⟩
  | cons t xs ih =>
    unfold candSteps
    rw [List.zipIdx_cons, List.flatMap_cons, List.foldl_append]
    have hlen : x0.length + 1 = (x0 ++ [t]).length := by simp
    have ex : x = x0 ++ t :: (xs ++ xr) := by rw [hxe, hxp]; simp
    have hin := inner_scan f c x.length lo hi sizes y.length hsz hlo hhi t x0.length yp K
      (by
        intro ya ypb hypa
        have ey : y = ya ++ t :: (ypb ++ yr) := by rw [hye, hypa]; simp
        have := bag_bound x y x0 (xs ++ xr) ya (ypb ++ yr) yp yr ypb t hx hy ex ey hye hypa o ho K hK1 hK2
        push_cast
        omega)
      [] yp rfl s (by simpa using hs)
    simp only [List.length_nil] at hin
    rw [hlen]
    refine ih (x0 ++ [t]) (by rw [hxp]; simp) _ (K + (yp.filter (fun w => decide (w = t))).length) hin ?_ ?_
    · rw [List.filter_append, List.length_append]
      by_cases ht : t ∈ yp
      · have : 1 ≤ (yp.filter (fun w => decide (w = t))).length :=
          List.length_pos_of_mem (List.mem_filter.2 ⟨ht, by simp⟩)
        simp only [List.filter_cons, ht, decide_true, if_true, List.filter_nil, List.length_cons, List.length_nil]
        omega
      · simp only [List.filter_cons, ht, decide_false, Bool.false_eq_true, if_false, List.filter_nil, List.length_nil]
        omega
    · have h1 := length_filter_or_le yp (fun w => decide (w ∈ x0)) (fun w => decide (w = t))
      have e : yp.filter (fun w => decide (w ∈ x0 ++ [t])) =
          yp.filter (fun w => decide (w ∈ x0) || decide (w = t)) := by
        apply List.filter_congr
        intro w _
        simp
      rw [e]
      omega

/-! ### 3. Completeness on bags -/

theorem zipIdx_filter_ne_nil (yp : List Nat) (w : Nat) (h : w ∈ yp) :
    yp.zipIdx.filter (fun q => decide (q.1 = w)) ≠ [] := by
  obtain ⟨j, hj⟩ := List.getElem?_of_mem h
  have hm : (w, j) ∈ yp.zipIdx := List.mem_zipIdx_iff_getElem?.2 hj
  exact List.ne_nil_of_mem (List.mem_filter.2 ⟨hm, by simp⟩)

/-- COMPLETENESS ON BAGS, general prefixes: probe `x` and candidate `y` ascending with duplicates allowed, candidate size
    inside the window, required overlap at most the size `o` of the bag intersection, and the two prefixes (whatever their
    lengths) share a value.  Then the candidate's counter is never set to −1 and ends positive. -/
theorem positionFindCandidates_complete_bag_gen (f : FilterObj) (ordToks : List (List Nat)) (x : List Nat)
    (c : Nat) (y : List Nat) (hy : ordToks[c]? = some y)
    (hx : x.Pairwise (· ≤ ·)) (hys : y.Pairwise (· ≤ ·))
    (o : Nat) (ho : o = (x.bagInter y).length)
    (hlo : f.cfg.lower x.length ≤ (y.length : Int)) (hhi : (y.length : Int) ≤ f.cfg.upper x.length)
    (hthr : f.cfg.ovThr y.length x.length ≤ (o : Int))
    (px py : Nat) (hpx : pyTake x (f.cfg.prefixLen x.length) = x.take px)
    (hpy : pyTake y (f.cfg.prefixLen y.length) = y.take py)
    (hcommon : ∃ w, w ∈ x.take px ∧ w ∈ y.take py)
    (ce ct : Bool) :
    ∃ v : Int, Dict.get? (positionFindCandidates f x (PosIndex.build f.cfg ordToks ce ct)) c = some v ∧ 0 < v := by
  obtain ⟨w, hwx, hwy⟩ := hcommon
  have ho' : o + (x.diff y).length = x.length := by rw [ho]; exact length_bagInter_add_diff x y
  -- the index is not empty
  have hne : (PosIndex.build f.cfg ordToks ce ct).index.isEmpty = false := by
    have h1 := probe_posPostings_filter f.cfg ordToks w c y hy
    rw [hpy] at h1
    have h2 := zipIdx_filter_ne_nil _ w hwy
    show (posPostings f.cfg ordToks).isEmpty = false
    cases hidx : posPostings f.cfg ordToks with
    | nil =>
      rw [hidx] at h1
      simp only [probe_nil, List.filter_nil] at h1
      exact absurd (List.map_eq_nil_iff.1 h1.symm) h2
    | cons a l => rfl
  rw [positionFindCandidates_eq, hne]
  simp only [Bool.false_eq_true, if_false]
  rw [Dict.get?_foldl _ (fun s => s.1) _ (posStep'_self f _ _ _ _) (posStep'_other f _ _ _ _)]
  show ∃ v, List.foldl _ _ (List.filter _ (posSteps (posPostings f.cfg ordToks) _)) = some v ∧ 0 < v
  rw [posSteps_filter f.cfg ordToks c y hy, Dict.get?_nil, hpx, hpy]
  have hmem : y.length ∈ ordToks.map List.length :=
    List.mem_map.2 ⟨y, List.mem_of_getElem? hy, rfl⟩
  obtain ⟨K', hK', hpos'⟩ := scan_complete_bag f c x.length
    (max (f.cfg.lower x.length) (PosIndex.build f.cfg ordToks ce ct).minLength)
    (min (f.cfg.upper x.length) (PosIndex.build f.cfg ordToks ce ct).maxLength)
    (PosIndex.build f.cfg ordToks ce ct).sizeCache x y
    (x.take px) (x.drop px) (y.take py) (y.drop py)
    (List.take_append_drop _ _).symm (List.take_append_drop _ _).symm rfl hx hys
    (sizeCache_getD ordToks c y hy)
    (max_le hlo (minLength_le _ _ hmem)) (le_min hhi (le_maxLength _ _ hmem)) o ho' hthr
    (x.take px) [] rfl none 0 (by simp) (by simp) (by simp)
  simp only [List.length_nil] at hK'
  have hpos : 1 ≤ ((x.take px).filter (fun u => decide (u ∈ y.take py))).length :=
    List.length_pos_of_mem (List.mem_filter.2 ⟨hwx, by simpa using hwy⟩)
  generalize List.foldl _ none (candSteps c _ 0 _) = r at hK' ⊢
  cases r with
  | none => simp at hK'; omega
  | some v => exact ⟨v, rfl, by simp at hK'; omega⟩

/-- COMPLETENESS ON BAGS (the form used under EDIT_DISTANCE): probe `x` and candidate `y` ascending with duplicates
    allowed; each loses at most `k` elements against the other (bag differences); both prefixes are the first `k + 1`
    elements; the candidate size is inside the window; the required overlap is at most the size `o` of the bag
    intersection; the two bags share a value.  Then the candidate ends with a positive count. -/
theorem positionFindCandidates_complete_bag (f : FilterObj) (ordToks : List (List Nat)) (x : List Nat)
    (c : Nat) (y : List Nat) (hy : ordToks[c]? = some y)
    (hx : x.Pairwise (· ≤ ·)) (hys : y.Pairwise (· ≤ ·))
    (o : Nat) (ho : o = (x.bagInter y).length)
    (k : Nat) (hxy : (x.diff y).length ≤ k) (hyx : (y.diff x).length ≤ k)
    (hpx : pyTake x (f.cfg.prefixLen x.length) = x.take (k + 1))
    (hpy : pyTake y (f.cfg.prefixLen y.length) = y.take (k + 1))
    (hlo : f.cfg.lower x.length ≤ (y.length : Int)) (hhi : (y.length : Int) ≤ f.cfg.upper x.length)
    (hthr : f.cfg.ovThr y.length x.length ≤ (o : Int))
    (hc : ∃ w, w ∈ x ∧ w ∈ y) (ce ct : Bool) :
    ∃ v : Int, Dict.get? (positionFindCandidates f x (PosIndex.build f.cfg ordToks ce ct)) c = some v ∧ 0 < v :=
  positionFindCandidates_complete_bag_gen f ordToks x c y hy hx hys o ho hlo hhi hthr (k + 1) (k + 1) hpx hpy
    (bag_prefix x y hx hys k hxy hyx hc) ce ct

/-! ### 4. `PositionFilter.filter_tables` under EDIT_DISTANCE, entry level -/

namespace EntryFilters
open SSJ.Props SSJ.Spec

/-- PositionFilter._filter_tables_split under EDIT_DISTANCE emits every pair of rows whose token bags lose at most `q·τ`
    tokens against each other, whose token counts differ by at most `τ`, and which share a token -/
theorem emits_position_ed (f : FilterObj) (tau : Int) (q : Nat) (htau : 0 ≤ tau) (hf : f.cfg = edCfg tau q)
    (tok : String → List Tok) (lAttr rAttr : Nat) (lt rt : List Row) (x y : Row) (hx : x ∈ lt) (hy : y ∈ rt)
    (h1 : ((tok (x.cell lAttr).strVal).diff (tok (y.cell rAttr).strVal)).length ≤ ((q : Int) * tau).toNat)
    (h2 : ((tok (y.cell rAttr).strVal).diff (tok (x.cell lAttr).strVal)).length ≤ ((q : Int) * tau).toNat)
    (hs1 : ((tok (x.cell lAttr).strVal).length : Int) - (tok (y.cell rAttr).strVal).length ≤ tau)
    (hs2 : ((tok (y.cell rAttr).strVal).length : Int) - (tok (x.cell lAttr).strVal).length ≤ tau)
    (hc : ∃ g, g ∈ tok (x.cell lAttr).strVal ∧ g ∈ tok (y.cell rAttr).strVal) :
    Emits f tok lAttr rAttr lt rt .position x y := by
  obtain ⟨c, hc', rfl⟩ := exists_index lt x hx
  obtain ⟨d, hd, rfl⟩ := exists_index rt y hy
  refine ⟨c, d, ?_, rfl, rfl⟩
  have hqt : 0 ≤ (q : Int) * tau := Int.mul_nonneg (Int.natCast_nonneg q) htau
  have hK : ((((q : Int) * tau).toNat : Nat) : Int) = (q : Int) * tau := Int.toNat_of_nonneg hqt
  have hhe : handleEmpty f = false := handleEmpty_ed f (by rw [hf])
  obtain ⟨g, hg1, hg2⟩ := hc
  have hn2 : (rowToks tok rAttr rt d).length ≠ 0 := fun h => by
    have : rowToks tok rAttr rt d = [] := List.length_eq_zero_iff.1 h
    unfold rowToks at this
    rw [this] at hg2; simp at hg2
  unfold positionPairs
  rw [mem_idPairs, mem_positionCands_nonempty f tok lAttr rAttr lt rt d hd (fun h => hn2 h.2)]
  refine ⟨hd, ?_⟩
  have hsl := genTokenOrdering_isSome _ _ (rowToks_mem_left tok lAttr rAttr lt rt c hc')
  have hsr := genTokenOrdering_isSome _ _ (rowToks_mem_right tok lAttr rAttr lt rt d hd)
  have hinj : ∀ t1 t2 r, Dict.get? (tableOrdering tok lAttr rAttr lt rt) t1 = some r →
      Dict.get? (tableOrdering tok lAttr rAttr lt rt) t2 = some r → t1 = t2 := genTokenOrdering_inj _
  have hxl := rOrd_length tok lAttr rAttr lt rt d hd
  have hyl := lOrd_length tok lAttr rAttr lt rt c hc'
  have e : f.cfg = (edFilter tau q).cfg := hf
  have hd1 : ((rOrd tok lAttr rAttr lt rt d).diff (lOrd tok lAttr rAttr lt rt c)).length ≤ ((q : Int) * tau).toNat := by
    unfold rOrd lOrd
    rw [orderUsing_diff_length _ hinj _ _ hsr hsl]; exact h2
  have hd2 : ((lOrd tok lAttr rAttr lt rt c).diff (rOrd tok lAttr rAttr lt rt d)).length ≤ ((q : Int) * tau).toNat := by
    unfold rOrd lOrd
    rw [orderUsing_diff_length _ hinj _ _ hsl hsr]; exact h1
  have hA := length_bagInter_add_diff (rOrd tok lAttr rAttr lt rt d) (lOrd tok lAttr rAttr lt rt c)
  have hB := length_add_diff (rOrd tok lAttr rAttr lt rt d) (lOrd tok lAttr rAttr lt rt c)
  have hs1' : ((rowToks tok lAttr lt c).length : Int) - (rowToks tok rAttr rt d).length ≤ tau := hs1
  have hs2' : ((rowToks tok rAttr rt d).length : Int) - (rowToks tok lAttr lt c).length ≤ tau := hs2
  obtain ⟨v, hv, hpos⟩ := positionFindCandidates_complete_bag f (lOrdToks tok lAttr rAttr lt rt)
    (rOrd tok lAttr rAttr lt rt d) c (lOrd tok lAttr rAttr lt rt c)
    ((lOrdToks_getElem? tok lAttr rAttr lt rt c _).2 ⟨hc', rfl⟩)
    (orderUsing_sorted _ _) (orderUsing_sorted _ _) _ rfl (((q : Int) * tau).toNat) hd1 hd2
    (by rw [e]; exact pyTake_prefixLen_ed tau q hqt _) (by rw [e]; exact pyTake_prefixLen_ed tau q hqt _)
    (by rw [lower_ed f.cfg tau (by rw [hf]) (by rw [hf]), hxl, hyl]; omega)
    (by rw [upper_ed f.cfg tau (by rw [hf]) (by rw [hf]), hxl, hyl]; omega)
    (by rw [ovThr_ed f.cfg tau q (by rw [hf]) (by rw [hf]) (by rw [hf])]; omega)
    (by
      obtain ⟨r, hr⟩ := Option.isSome_iff_exists.1 (hsl g hg1)
      exact ⟨r, (mem_orderUsing _ _ _).2 ⟨g, hg2, hr⟩, (mem_orderUsing _ _ _).2 ⟨g, hg1, hr⟩⟩)
    (handleEmpty f) false
  exact ⟨v, Dict.mem_of_get? _ _ _ hv, hpos⟩

section TablesED
variable (f : FilterObj) (a : TableArgs) (t : TokObj) (toks : TokFn) (cpu : Int) (l r fr : Frame)

/-- C04, PositionFilter.filter_tables under EDIT_DISTANCE -/
theorem filterTables_position_safe_ed (tau : Int) (q : Nat) (hf : f.cfg = edCfg tau q)
    (pad : Bool) (htok : ∀ s, toks t.returnSet s = qgrams q pad s)
    (hv : validateTablesAttrs a = .ok (l, r)) (hk : validateOutAndKeys a l r = .ok ())
    (hrows : r.rows.length < 2 ^ 40) (hres : filterTables .position f a t toks cpu = .ok fr)
    (ls rs : Row) (hls : ls ∈ l.rows) (hrs : rs ∈ r.rows)
    (hlp : Present l a.lAttr ls) (hrp : Present r a.rAttr rs)
    (hd : (lev (strOf l a.lAttr ls) (strOf r a.rAttr rs) : Int) ≤ tau)
    (hshare : shareToken (qgrams q pad) (strOf l a.lAttr ls) (strOf r a.rAttr rs) = true) :
    ∃ row ∈ fr.rows, rowKeys row = (keyOf l a.lKey ls, keyOf r a.rKey rs) := by
  rw [mem_filterTables_iff .position f a t toks cpu l r fr hv hk hrows hres ls rs hls hrs hlp hrp]
  obtain ⟨ch, hch, hy⟩ := rRow_mem_chunk a cpu r hrows rs hrs hrp
  have htau : 0 ≤ tau := le_trans (Int.natCast_nonneg _) hd
  have eA : toks t.returnSet ((RT.lRow a l ls).cell (RT.lAttrIdx a)).strVal = qgrams q pad (strOf l a.lAttr ls) := by
    rw [lRow_tokens a l (toks t.returnSet)]; exact htok _
  have eB : toks t.returnSet ((RT.rRow a r rs).cell (RT.rAttrIdx a)).strVal = qgrams q pad (strOf r a.rAttr rs) := by
    rw [rRow_tokens a r (toks t.returnSet)]; exact htok _
  obtain ⟨hc1, hc2⟩ := qgrams_count_diff q pad (strOf l a.lAttr ls) (strOf r a.rAttr rs)
  refine ⟨ch, hch, emits_position_ed f tau q htau hf _ _ _ _ _ _ _ (lRow_mem a l ls hls hlp) hy ?_ ?_ ?_ ?_ ?_⟩
  · rw [eA, eB]; exact le_trans (qgrams_diff_le q pad _ _) (qlev_le q tau _ hd)
  · rw [eA, eB]; exact le_trans (qgrams_diff_le' q pad _ _) (qlev_le q tau _ hd)
  · rw [eA, eB]; omega
  · rw [eA, eB]; omega
  · rw [eA, eB]; exact (shareToken_iff _ _ _).1 hshare

end TablesED

end EntryFilters

end SSJ

section AxiomCheck
open SSJ
/-- info: 'SSJ.bag_bound' depends on axioms: [propext, Classical.choice, Quot.sound] -/
#guard_msgs in #print axioms bag_bound
/-- info: 'SSJ.positionFindCandidates_complete_bag_gen' depends on axioms: [propext, Classical.choice, Quot.sound] -/
#guard_msgs in #print axioms positionFindCandidates_complete_bag_gen
/-- info: 'SSJ.positionFindCandidates_complete_bag' depends on axioms: [propext, Classical.choice, Quot.sound] -/
#guard_msgs in #print axioms positionFindCandidates_complete_bag
/-- info: 'SSJ.EntryFilters.emits_position_ed' depends on axioms: [propext, Classical.choice, Quot.sound] -/
#guard_msgs in #print axioms EntryFilters.emits_position_ed
/-- info: 'SSJ.EntryFilters.filterTables_position_safe_ed' depends on axioms: [propext, Classical.choice, Quot.sound] -/
#guard_msgs in #print axioms EntryFilters.filterTables_position_safe_ed
end AxiomCheck

/-
  SSJ.Py.F64 — exact, executable model of IEEE-754 binary64 arithmetic over `Rat`.

  A finite double is represented by the rational number it denotes.  `rn` is
  round-to-nearest-even into the binary64 grid (normal and subnormal range);
  overflow is detected by the callers (`Py.Val`) and turned into a Python error
  or `inf` surrogate there.  Everything here is core Lean (no Mathlib), so the
  driver executable can link it.

  Validated (not proved) against hardware doubles: `tools/harness` compares every
  operation with CPython bit-for-bit on each run (suite `f64`).
-/
namespace SSJ.F64

/-- round half even, `Rat → Int` -/
def rhe (q : Rat) : Int :=
  let f := q.floor
  let d := q - (f : Rat)
  if d < 1/2 then f else if d > 1/2 then f + 1 else if f % 2 = 0 then f else f + 1

/-- `2^e` for an integer exponent -/
def pow2 (e : Int) : Rat :=
  if e ≥ 0 then ((2 ^ e.toNat : Nat) : Rat) else 1 / ((2 ^ (-e).toNat : Nat) : Rat)

/-- `⌊log₂ a⌋` for `a > 0` -/
def ilog2 (a : Rat) : Int :=
  let k : Int := (Nat.log2 a.num.natAbs : Int) - (Nat.log2 a.den : Int)
  if pow2 k ≤ a then k else k - 1

/-- round to nearest even into binary64 (finite result assumed; callers check the range) -/
def rn (q : Rat) : Rat :=
  if q = 0 then 0 else
  let a := if q < 0 then -q else q
  let e := max (ilog2 a - 52) (-1074)
  let m := rhe (a / pow2 e)
  let r := (m : Rat) * pow2 e
  if q < 0 then -r else r

/-- the overflow threshold: a rounded magnitude `≥ 2^1024` is not a finite double -/
def huge : Rat := ((2 ^ 1024 : Nat) : Rat)

def finite (r : Rat) : Bool := decide (-huge < r ∧ r < huge)

/-- correctly rounded square root of a non-negative rational -/
def fsqrt (q : Rat) : Rat :=
  if q ≤ 0 then 0 else
  let l := ilog2 q
  let er := (if l % 2 = 0 then l / 2 else (l - 1) / 2) - 52
  let x := q / pow2 (2 * er)
  let s := Nat.sqrt x.floor.toNat
  let h : Rat := ((2 * s + 1 : Nat) : Rat) / 2
  let m := if x < h * h then s else s + 1
  (m : Rat) * pow2 er

/-- CPython `round(x, n)` for a finite double `x` and `n ≥ 0` digits:
    correctly rounded decimal (half-even on the exact binary value), then nearest double. -/
def roundN (n : Nat) (q : Rat) : Rat :=
  let s : Rat := ((10 ^ n : Nat) : Rat)
  rn ((rhe (q * s) : Rat) / s)

def round4 (q : Rat) : Rat := roundN 4 q
def round2 (q : Rat) : Rat := roundN 2 q

/-- value of a binary64 bit pattern (finite patterns only; inf/nan map to `none`) -/
def ofBits (b : UInt64) : Option Rat :=
  let s := b >>> 63
  let ex := ((b >>> 52) &&& 0x7FF).toNat
  let fr := (b &&& 0xFFFFFFFFFFFFF).toNat
  if ex = 0x7FF then none else
  let v : Rat :=
    if ex = 0 then (fr : Rat) * pow2 (-1074)
    else ((fr + 2^52 : Nat) : Rat) * pow2 ((ex : Int) - 1075)
  some (if s = 1 then -v else v)

/-- bit pattern of a rational that is exactly a finite double (sign of zero: +0) -/
def toBits (q : Rat) : UInt64 :=
  if q = 0 then 0 else
  let a := if q < 0 then -q else q
  let l := ilog2 a
  let sgn : UInt64 := if q < 0 then (1 : UInt64) <<< 63 else 0
  if l < -1022 then
    -- subnormal: a = fr * 2^-1074
    let fr := (a / pow2 (-1074)).floor.toNat
    sgn ||| UInt64.ofNat fr
  else
    let m := (a / pow2 (l - 52)).floor.toNat   -- in [2^52, 2^53)
    let ex := (l + 1023).toNat
    sgn ||| (UInt64.ofNat ex <<< 52) ||| UInt64.ofNat (m - 2^52)

end SSJ.F64

/-
  SSJ.Py.Val — the dynamically typed value domain the translator (`tools/py2lean.py`) targets.

  The translator is purely syntactic: a Python expression `a * b` becomes `PyV.mul a b`; the
  int/float coercions of CPython live here.  Finite doubles are exact rationals (see `F64`).
  A float operation whose rounded result is not finite yields `PyV.inf` (CPython: `inf`, no
  exception for `*`,`/`,`+`,`-`); consumers that raise on `inf` (`int`, `ceil`, `floor`) yield
  `err overflow`; true division by zero yields `err zeroDiv`.  Negative infinity and NaN cannot
  arise from the translated code on valid inputs and are mapped to `err other`.
-/
import SSJ.Py.F64

namespace SSJ
open F64

inductive PyErr where
  | zeroDiv | overflow | typeErr | assertion | other
  deriving DecidableEq, Repr, Inhabited

inductive PyV where
  | int (i : Int)
  | float (q : Rat)
  | inf
  | str (s : String)
  | bool (b : Bool)
  | none
  | err (e : PyErr)
  deriving DecidableEq, Repr, Inhabited

namespace PyV

/-- result of a float computation with exact value `q` before rounding -/
def ofExact (q : Rat) : PyV :=
  let r := rn q
  if r ≥ huge then .inf else if r ≤ -huge then .err .other else .float r

/-- `float(i)` for a Python int -/
def intToFloat (i : Int) : PyV := ofExact (i : Rat)

/-- propagate errors; apply `f` on two floats after int→float coercion -/
def floatOp (f : Rat → Rat → PyV) (a b : PyV) : PyV :=
  match a, b with
  | .err e, _ => .err e
  | _, .err e => .err e
  | .float x, .float y => f x y
  | .float x, .int j => match intToFloat j with | .float y => f x y | .inf => .err .overflow | v => v
  | .int i, .float y => match intToFloat i with | .float x => f x y | .inf => .err .overflow | v => v
  | _, _ => .err .typeErr

def mul (a b : PyV) : PyV :=
  match a, b with
  | .int i, .int j => .int (i * j)
  | .inf, .float y => if y > 0 then .inf else .err .other
  | .float x, .inf => if x > 0 then .inf else .err .other
  | .inf, .int j => if j > 0 then .inf else .err .other
  | .int i, .inf => if i > 0 then .inf else .err .other
  | .inf, .inf => .inf
  | _, _ => floatOp (fun x y => ofExact (x * y)) a b

def add (a b : PyV) : PyV :=
  match a, b with
  | .int i, .int j => .int (i + j)
  | .str s, .str t => .str (s ++ t)
  | .inf, .float _ => .inf
  | .float _, .inf => .inf
  | .inf, .int _ => .inf
  | .int _, .inf => .inf
  | .inf, .inf => .inf
  | _, _ => floatOp (fun x y => ofExact (x + y)) a b

def sub (a b : PyV) : PyV :=
  match a, b with
  | .int i, .int j => .int (i - j)
  | .inf, .float _ => .inf
  | .inf, .int _ => .inf
  | .float _, .inf => .err .other
  | .int _, .inf => .err .other
  | .inf, .inf => .err .other
  | _, _ => floatOp (fun x y => ofExact (x - y)) a b

/-- Python true division `/` -/
def div (a b : PyV) : PyV :=
  match a, b with
  | .err e, _ => .err e
  | _, .err e => .err e
  | _, .int 0 => .err .zeroDiv
  | .int i, .int j =>
      -- CPython int/int true division is correctly rounded on the exact quotient
      match ofExact ((i : Rat) / (j : Rat)) with
      | .inf => .err .overflow
      | v => v
  | .inf, .float y => if y > 0 then .inf else .err .other
  | .inf, .int j => if j > 0 then .inf else .err .other
  | .float _, .inf => .float 0
  | .int _, .inf => .float 0
  | _, _ => floatOp (fun x y => if y = 0 then .err .zeroDiv else ofExact (x / y)) a b

/-- `math.ceil` -/
def ceil (a : PyV) : PyV :=
  match a with
  | .int i => .int i
  | .float q => .int q.ceil
  | .inf => .err .overflow
  | .err e => .err e
  | _ => .err .typeErr

/-- `math.floor` -/
def floor (a : PyV) : PyV :=
  match a with
  | .int i => .int i
  | .float q => .int q.floor
  | .inf => .err .overflow
  | .err e => .err e
  | _ => .err .typeErr

/-- `math.sqrt` -/
def sqrt (a : PyV) : PyV :=
  match a with
  | .int i => if i < 0 then .err .other else
      match intToFloat i with
      | .float x => .float (fsqrt x)
      | .inf => .err .overflow
      | v => v
  | .float q => if q < 0 then .err .other else .float (fsqrt q)
  | .inf => .inf
  | .err e => .err e
  | _ => .err .typeErr

/-- `int(x)` (truncation towards zero for floats) -/
def toInt (a : PyV) : PyV :=
  match a with
  | .int i => .int i
  | .float q => .int (if q ≥ 0 then q.floor else q.ceil)
  | .bool b => .int (if b then 1 else 0)
  | .inf => .err .overflow
  | .err e => .err e
  | _ => .err .typeErr

/-- `float(x)` -/
def toFloat (a : PyV) : PyV :=
  match a with
  | .int i => match intToFloat i with | .inf => .err .overflow | v => v
  | .float q => .float q
  | .inf => .inf
  | .bool b => .float (if b then 1 else 0)
  | .err e => .err e
  | _ => .err .typeErr

/-- `round(x, n)` with an int literal `n ≥ 0` -/
def round (a n : PyV) : PyV :=
  match a, n with
  | .err e, _ => .err e
  | .int i, .int _ => .int i
  | .float q, .int k => if k < 0 then .err .other else .float (roundN k.toNat q)
  | .inf, .int _ => .inf
  | _, _ => .err .typeErr

/-- one-argument `round(x)`: nearest integer, ties to even, as an int -/
def round0 (a : PyV) : PyV :=
  match a with
  | .int i => .int i
  | .float q => .int (rhe q)
  | .inf => .err .overflow
  | .err e => .err e
  | _ => .err .typeErr

/-- exact numeric value for comparisons (`inf` is larger than everything) -/
def numVal? : PyV → Option (Option Rat)   -- some none = +inf
  | .int i => some (some (i : Rat))
  | .float q => some (some q)
  | .bool b => some (some (if b then 1 else 0))
  | .inf => some Option.none
  | _ => Option.none

def ltb (a b : PyV) : Bool :=
  match a, b with
  | .str s, .str t => s < t
  | _, _ =>
    match numVal? a, numVal? b with
    | some (some x), some (some y) => x < y
    | some (some _), some Option.none => true
    | _, _ => false

def leb (a b : PyV) : Bool :=
  match a, b with
  | .str s, .str t => s ≤ t
  | _, _ =>
    match numVal? a, numVal? b with
    | some (some x), some (some y) => x ≤ y
    | some _, some Option.none => true
    | _, _ => false

def gtb (a b : PyV) : Bool := ltb b a
def geb (a b : PyV) : Bool := leb b a

/-- Python `==` (numbers compare by value across int/float) -/
def eqb (a b : PyV) : Bool :=
  match a, b with
  | .str s, .str t => s == t
  | .none, .none => true
  | _, _ =>
    match numVal? a, numVal? b with
    | some x, some y => x == y
    | _, _ => false

def neb (a b : PyV) : Bool := !(eqb a b)

/-- `min(a, b)`: returns `a` unless `b < a` -/
def min (a b : PyV) : PyV :=
  match a, b with
  | .err e, _ => .err e
  | _, .err e => .err e
  | _, _ => if ltb b a then b else a

/-- `max(a, b)`: returns `a` unless `b > a` -/
def max (a b : PyV) : PyV :=
  match a, b with
  | .err e, _ => .err e
  | _, .err e => .err e
  | _, _ => if gtb b a then b else a

def abs (a : PyV) : PyV :=
  match a with
  | .int i => .int i.natAbs
  | .float q => .float (if q < 0 then -q else q)
  | .inf => .inf
  | .err e => .err e
  | _ => .err .typeErr

def truthy (a : PyV) : Bool :=
  match a with
  | .int i => i != 0
  | .float q => q != 0
  | .inf => true
  | .str s => s != ""
  | .bool b => b
  | .none => false
  | .err _ => false

/-- `s.upper()` (ASCII letters; the measure names are ASCII) -/
def upper : PyV → PyV
  | .str s => .str s.toUpper
  | .err e => .err e
  | _ => .err .typeErr

def isErr : PyV → Bool
  | .err _ => true
  | _ => false

/-- integer payload (0 when the value is not an int; callers establish `isInt` first) -/
def toIntD : PyV → Int
  | .int i => i
  | _ => 0

def isInt : PyV → Bool
  | .int _ => true
  | _ => false

end PyV
end SSJ

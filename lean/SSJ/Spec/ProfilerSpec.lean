/-
  SSJ.Spec.ProfilerSpec — what the statistics of `profile_table_for_join` MEAN (property C17), independently of how
  the model (`SSJ/Model/Profiler.lean`) computes them.  Nothing here mentions `dedup`, hash tables or `PyV`.

  * `distinctValues col`  the number of distinct values in a column, a missing value counting as one value:
                          the cardinality of the SET of Python values of the present cells, plus one if a cell is
                          missing.  Two cells hold the same value when Python's `==` says so: numbers by exact value
                          across int / float / bool (`1 == 1.0 == True`, `0 == 0.0 == -0.0 == False`,
                          `2**53 + 1 != float(2**53)`), strings with strings only (`'1' != 1`), everything else
                          (±inf, opaque objects) with itself only.  This is what pandas' `unique()` / `nunique()`
                          does on object columns and on numeric dtypes (hash table keyed by `hash` / `==`);
  * `missingValues col`   the number of missing cells (None, NaN, pd.NA, pd.NaT: one value class, `Cell.missing`);
  * `percentString k n`   Python's `str(round(float(k) / float(n) * 100, 2))` for `n ≥ 1`; for a table without rows
                          (`n = 0`) the Python expression has no value, the code (since /repo 39fa1bc) takes `0.0`
                          instead, and so does this definition: `k / 0 = 0` in `Rat`, hence `percentDouble k 0 = 0`,
                          `percentString k 0 = "0.0"` (proved: `Proofs/ProfilerExact.lean`, `percentString_zero_rows`);
  * `statString k n`      the entry `'<k> (<percent>%)'`.

  TRUSTED (the only assumption about CPython's `repr(float)` in this file): for `0 ≤ c ≤ 10000`,
  `repr(<the double nearest to c/100>) = reprHundredths c`, i.e. the decimal `c/100` itself with trailing zeros
  trimmed down to one fractional digit ("33.33", "66.67", "14.29", "0.01", "0.5", "100.0", "0.0").  `repr` prints
  the shortest decimal that reads back as the same double; a decimal with at most 5 significant digits always does,
  and no shorter one can (two different decimals of ≤ 15 digits never share a double).  Checked exhaustively on
  CPython (`all(repr(c/100) == reprHundredths(c) for c in range(10001))`) and by the `profiler` correspondence
  suite.  That the profiler's percentage IS such a double is proved (`Proofs/ProfilerExact.lean`,
  `percentDouble_eq_two_decimals`).
-/
import Mathlib.Data.Finset.Card
import Mathlib.Data.Finset.Dedup
import SSJ.Model.Basic

namespace SSJ.ProfilerSpec
open SSJ

/-- the Python value held by a present cell, up to Python `==` -/
inductive Value where
  | num (q : Rat)        -- int, finite float, bool (True = 1, False = 0): the exact numeric value
  | str (s : String)
  | obj (tag : String)   -- +inf, -inf, any other object: its canonical tag (equal only to itself)
  deriving DecidableEq

/-- the value of a cell; `none` for a missing cell.  (The harness hands a bool to the model as the cell
    `.other "bool:True"` / `.other "bool:False"`, an infinity or any other object as `.other <tag>`.) -/
def valueOf : Cell → Option Value
  | .missing => none
  | .str s => some (.str s)
  | .int i => some (.num i)
  | .flt q => some (.num q)
  | .other t => some (if t = "bool:True" then .num 1 else if t = "bool:False" then .num 0 else .obj t)

/-- the set of values occurring in the column (missing cells aside) -/
def presentValues (col : List Cell) : Finset Value := (col.filterMap valueOf).toFinset

/-- number of missing cells -/
def missingValues (col : List Cell) : Nat := col.count Cell.missing

/-- number of distinct values, all missing cells together counting as one value -/
def distinctValues (col : List Cell) : Nat :=
  (presentValues col).card + (if Cell.missing ∈ col then 1 else 0)

/-- no two cells of the column hold the same value (two missing cells do hold the same value) -/
def AllDistinct (col : List Cell) : Prop := (col.map valueOf).Nodup

instance (col : List Cell) : Decidable (AllDistinct col) := inferInstanceAs (Decidable (List.Nodup _))

/-! ### the percentage -/

/-- the double `round(float(k) / float(n) * 100, 2)`: division and multiplication each rounded to binary64 (`rn`),
    then CPython's `round(·, 2)` -/
def percentDouble (k n : Nat) : Rat := F64.round2 (F64.rn (F64.rn ((k : Rat) / (n : Rat)) * 100))

/-- the number of hundredths of a (two-decimal) double -/
def hundredths (x : Rat) : Nat := (F64.rhe (x * 100)).toNat

/-- `repr` of the double nearest to `c / 100` (TRUSTED, see the header): integer part, point, first decimal, and
    the second decimal unless it is 0 -/
def reprHundredths (c : Nat) : String :=
  let d1 := c % 100 / 10
  let d2 := c % 10
  if d2 = 0 then s!"{c / 100}.{d1}" else s!"{c / 100}.{d1}{d2}"

/-- `str(round(float(k) / float(n) * 100, 2))`; "0.0" for `n = 0` (see the header) -/
def percentString (k n : Nat) : String := reprHundredths (hundredths (percentDouble k n))

/-- the entry of the 'Unique values' / 'Missing values' column for the count `k` in a table of `n` rows -/
def statString (k n : Nat) : String := s!"{k} ({percentString k n}%)"

end SSJ.ProfilerSpec

/-
  SSJ.Spec.Spec — the specifications the property theorems are stated against.  Short enough to
  read in a minute: similarity of two token sets, "qualifies" in the two senses the properties
  distinguish (raw-and-rounded vs rounded only), and the nested-loop descriptions of the joins.

  Validated on every run against an independent Python oracle that calls py_stringmatching
  directly (tools/harness/oracle.py), so a tidy spec that means something else is noticed.
-/
import SSJ.Model.Joins

namespace SSJ.Spec
open SSJ

/-- two duplicate-free lists denote the same set -/
def sameSet (a b : List Tok) : Bool := a.all (fun t => decide (t ∈ b)) && b.all (fun t => decide (t ∈ a))

/-- py_stringmatching's Jaccard / Cosine / Dice `get_raw_score` on two token SETS (given as
    duplicate-free lists): equal sets ↦ 1.0, one side empty ↦ 0, otherwise the double-precision
    formula on `|A ∩ B|`, `|A|`, `|B|` -/
def simSet (m : Measure) (a b : List Tok) : PyV :=
  if sameSet a b then .float 1
  else if a.length = 0 || b.length = 0 then .int 0
  else simFormula m (interCount a b) a.length b.length

/-- the score a set-similarity join reports: `round(sim, 4)` -/
def score4 (m : Measure) (a b : List Tok) : PyV := PyV.round (simSet m a b) (.int 4)

/-- C01's "satisfies": the comparison holds for the similarity as computed in double precision
    AND as rounded to four decimals -/
def qualStrict (m : Measure) (op : String) (t : PyV) (a b : List Tok) : Bool :=
  compFn op (simSet m a b) t && compFn op (score4 m a b) t

/-- C02's "satisfies": the comparison holds for the reported (rounded) score -/
def qualRounded (m : Measure) (op : String) (t : PyV) (a b : List Tok) : Bool :=
  compFn op (score4 m a b) t

/-- overlap coefficient of two token sets: `float(|A∩B|) / min(|A|,|B|)`, not rounded.  This is the formula the join
    computes inline (join/overlap_coefficient_join_py.py), NOT py_stringmatching's `OverlapCoefficient` (which returns 1.0
    for two empty sets and 0 when one is empty): with an empty side the formula divides by zero — the join never evaluates
    it there (both-empty pairs are decided by `allow_empty` before, a one-empty pair has no common token and is never a
    candidate), and an `err` value satisfies none of the comparisons. -/
def ovcScore (a b : List Tok) : PyV :=
  PyV.div (PyV.toFloat (.int (interCount a b))) (PyV.toFloat (.int (min a.length b.length : Nat)))

def bothEmpty (a b : List Tok) : Bool := a.length = 0 && b.length = 0

/-- edit-distance qualification against the integral threshold -/
def qualED (op : String) (tau : Int) (s t : String) : Bool := compFn op (.int (lev s t)) (.int tau)

/-- the two strings share at least one q-gram under the supplied (bag) tokenizer -/
def shareToken (tok : String → List Tok) (s t : String) : Bool := (tok s).any (fun g => decide (g ∈ tok t))

end SSJ.Spec

import warnings; warnings.filterwarnings('ignore')
import pandas as pd, numpy as np
import py_stringmatching as sm
from py_stringsimjoin.join.jaccard_join_py import jaccard_join_py
from py_stringsimjoin.join.cosine_join_py import cosine_join_py
def mk(rows): return pd.DataFrame({'id':list(range(len(rows))),'s':pd.Series(rows,dtype=object)})
tok=sm.WhitespaceTokenizer(return_set=True)
A=mk(['a b','c']);B=mk(['a b','c d'])
for t in (1e-320,1e-310,1e-300,1e-160, 5e-324):
    for j in (jaccard_join_py,cosine_join_py):
        try: print(t,j.__name__,len(j(A,B,'id','id','s','s',tok,t,show_progress=False)))
        except Exception as e: print(t,j.__name__,'ERR',type(e).__name__,e)
# string dtype downstream
import py_stringsimjoin.utils.validation as V
A2=pd.DataFrame({'id':[0,1,2],'s':['a b',None,'c']});B2=pd.DataFrame({'id':[0,1],'s':['a b','c d']})
print(A2.dtypes.to_dict(), type(A2['s'].dtype), isinstance(A2['s'].dtype,pd.StringDtype))
orig=V.validate_attr_type
import py_stringsimjoin.join.jaccard_join_py as J
J.validate_attr_type=lambda *a,**k: True
print(jaccard_join_py(A2,B2,'id','id','s','s',tok,0.5,allow_missing=True,out_sim_score=False,show_progress=False))
print(A2[['id','s']].dropna(subset=['s']).values)

import warnings; warnings.filterwarnings('ignore')
import random, sys, math
import pandas as pd, numpy as np
import py_stringmatching as sm
from py_stringsimjoin.filter.size_filter import SizeFilter
from py_stringsimjoin.filter.prefix_filter import PrefixFilter
from py_stringsimjoin.filter.position_filter import PositionFilter
from py_stringsimjoin.filter.suffix_filter import SuffixFilter
from py_stringsimjoin.filter.overlap_filter import OverlapFilter
from py_stringsimjoin.utils.simfunctions import get_sim_function
random.seed(int(sys.argv[1]) if len(sys.argv)>1 else 0)
def mk(rows): return pd.DataFrame({'id':list(range(len(rows))),'s':pd.Series(rows,dtype=object)})
tok=sm.WhitespaceTokenizer(return_set=True)
lev=sm.Levenshtein().get_raw_score
bad={}
def rec(k,v): bad.setdefault(k,[]).append(v)
for it in range(1200):
    U=random.randint(2,10)
    def rs():
        return ' '.join('t%d'%i for i in random.sample(range(U),random.randint(0,U)))
    L=[rs() for _ in range(random.randint(0,6))]; R=[rs() for _ in range(random.randint(0,6))]
    A=mk(L);B=mk(R)
    meas=random.choice(['JACCARD','COSINE','DICE','OVERLAP'])
    t=random.choice([random.randint(1,100)/100.0, round(random.random()*0.999+0.001,3)]) if meas!='OVERLAP' else random.randint(1,4)
    ae=random.choice([True,False]); nj=random.choice([1,1,2,3])
    res={}
    for F in (SizeFilter,PrefixFilter,PositionFilter,SuffixFilter):
        f=F(tok,meas,t,ae)
        try:
            out=f.filter_tables(A,B,'id','id','s','s',show_progress=False,n_jobs=nj)
        except Exception as e:
            rec((F.__name__,meas,'EXC'),(repr(e),L,R,t)); continue
        got=list(zip(out['l_id'],out['r_id']))
        if len(set(got))!=len(got): rec((F.__name__,meas,'dup'),(L,R,t))
        res[F.__name__]=set(got)
        sf=get_sim_function(meas)
        for i,l in enumerate(L):
            for k,r in enumerate(R):
                ls,rs_=set(l.split()),set(r.split())
                fp=f.filter_pair(l,r)
                if not ls and not rs_:
                    want = ae and meas!='OVERLAP'
                    if ((i,k) in res[F.__name__])!=want: rec((F.__name__,meas,'empty-tables'),(L,R,t,ae,i,k))
                    if (not fp)!=want: rec((F.__name__,meas,'empty-pair'),(l,r,t,ae))
                    continue
                s=sf(ls,rs_)
                if s>=t and (meas=='OVERLAP' or round(s,4)>=t):
                    if (i,k) not in res[F.__name__]: rec((F.__name__,meas,'unsafe-tables'),(L,R,t,i,k,s))
                    if fp: rec((F.__name__,meas,'unsafe-pair'),(l,r,t,s))
                if F in (PrefixFilter,PositionFilter) and not (ls&rs_):
                    if (i,k) in res[F.__name__]: rec((F.__name__,meas,'nocommon-kept-tables'),(L,R,t,i,k))
                    if not fp: rec((F.__name__,meas,'nocommon-kept-pair'),(l,r,t))
    if len(res)==4:
        if not res['PositionFilter']<=res['PrefixFilter']: rec(('pos⊆prefix',meas),(L,R,t,ae,nj))
        if not res['PositionFilter']<=res['SizeFilter']: rec(('pos⊆size',meas),(L,R,t,ae,nj, sorted(res['PositionFilter']-res['SizeFilter'])))
for k,v in bad.items(): print(k,len(v),v[0])
print('done')

import Mathlib.Data.List.Sort
import Mathlib.Data.List.Perm.Subperm
import Mathlib.Tactic

open List

/-- position lemma: in a strictly sorted list `x`, if `w ∈ x` and `c` is a duplicate-free list of
elements of `x` all `> w`, then `w` sits at an index `≤ |x| - 1 - |c|`. -/
theorem idx_bound (x : List Nat) (hx : x.Pairwise (· < ·)) (w : Nat) (hw : w ∈ x)
    (c : List Nat) (hc : c.Nodup) (hcx : ∀ v ∈ c, v ∈ x ∧ w < v) :
    w ∈ x.take (x.length - c.length) := by
  obtain ⟨l1, l2, rfl⟩ := List.append_of_mem hw
  have hsub : c ⊆ l2 := by
    intro v hv
    obtain ⟨hvx, hwv⟩ := hcx v hv
    rcases List.mem_append.1 hvx with h | h
    · have := (List.pairwise_append.1 hx).2.2 v h w (by simp)
      omega
    · rcases List.mem_cons.1 h with h | h
      · omega
      · exact h
  have hlen : c.length ≤ l2.length := (List.subperm_of_subset hc hsub).length_le
  rw [List.take_append]
  simp only [List.length_append, List.length_cons]
  apply List.mem_append_right
  have : l1.length + (l2.length + 1) - c.length - l1.length = (l2.length + 1 - c.length) := by omega
  rw [this]
  have : l2.length + 1 - c.length = (l2.length - c.length) + 1 := by omega
  rw [this, List.take_succ_cons]
  simp

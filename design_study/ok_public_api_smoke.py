import warnings; warnings.filterwarnings('ignore')
import random, sys, math, copy
import pandas as pd, numpy as np
import py_stringmatching as sm
import py_stringsimjoin as ssj
ssj.__use_cython__=False
from py_stringsimjoin.utils.generic_helper import COMP_OP_MAP
random.seed(int(sys.argv[1]) if len(sys.argv)>1 else 0)
tok=sm.WhitespaceTokenizer(return_set=True)
jac=sm.Jaccard().get_raw_score
bad={}
def rec(k,v): bad.setdefault(k,[]).append(v)
def mk(rows,extra=True):
    n=len(rows)
    d={'zz':[random.random() for _ in range(n)],'id':random.sample(range(100,100+n*3),n),'s':pd.Series(rows,dtype=object),
       'x':pd.Series(['x%d'%i for i in range(n)],dtype=object),'y':list(range(n))}
    df=pd.DataFrame(d)
    df.index=random.sample(range(1000),n)
    cols=list(df.columns); random.shuffle(cols)
    return df[cols]
for it in range(600):
    U=random.randint(2,8)
    def rs():
        r=random.random()
        if r<0.12: return None
        if r<0.2: return ''
        return ' '.join('t%d'%i for i in random.sample(range(U),random.randint(1,U)))
    L=[rs() for _ in range(random.randint(1,6))]; R=[rs() for _ in range(random.randint(1,6))]
    A=mk(L);B=mk(R)
    A0=A.copy(deep=True);B0=B.copy(deep=True)
    t=random.choice([0.3,0.5,0.75,1.0,random.random()*0.9+0.05])
    op=random.choice(['>=','>','='])
    am=random.choice([True,False]); ae=random.choice([True,False]); sc=random.choice([True,False])
    lo=random.choice([None,[],['x'],['s','x'],['id','y','x','y'],['zz']]); ro=random.choice([None,[],['y'],['s'],['x','id','s']])
    nj=random.choice([1,1,2,7,-1]) if it%20==0 else 1
    lmiss=[i for i,v in enumerate(L) if v is None]; rmiss=[i for i,v in enumerate(R) if v is None]
    if am and sc and lmiss and not rmiss: continue  # F2 known
    try:
        out=ssj.jaccard_join(A,B,'id','id','s','s',tok,t,op,ae,am,lo,ro,'L.','R.',sc,nj,False)
    except Exception as e:
        rec('EXC',(repr(e),L,R,t,op,am,ae,sc,lo,ro)); continue
    if not (A.equals(A0) and B.equals(B0) and list(A.index)==list(A0.index)): rec('mutated',(L,R))
    # header
    def dd(o,k):
        if o is None: return []
        r=[]
        for a in o:
            if a!=k and a not in r: r.append(a)
        return r
    exp_hdr=['_id','L.id','R.id']+['L.'+a for a in dd(lo,'id')]+['R.'+a for a in dd(ro,'id')]+(['_sim_score'] if sc else [])
    if list(out.columns)!=exp_hdr: rec('header',(list(out.columns),exp_hdr)); continue
    if list(out['_id'])!=list(range(len(out))): rec('_id',(list(out['_id']),))
    Ak=A.set_index('id');Bk=B.set_index('id')
    got=[]
    for row in out.itertuples(index=False):
        row=list(row); lk,rk=row[1],row[2]; got.append((lk,rk))
        j=3
        for a in dd(lo,'id'):
            v=Ak.loc[lk,a]; 
            if not (v==row[j] or (pd.isnull(v) and pd.isnull(row[j]))): rec('proj',(a,v,row[j],lo,ro))
            j+=1
        for a in dd(ro,'id'):
            v=Bk.loc[rk,a]
            if not (v==row[j] or (pd.isnull(v) and pd.isnull(row[j]))): rec('proj',(a,v,row[j],lo,ro))
            j+=1
    if len(set(got))!=len(got): rec('dup',(L,R,got))
    exp=set()
    for i,l in enumerate(L):
        for k,r in enumerate(R):
            lk,rk=A['id'].iloc[i],B['id'].iloc[k]
            if l is None or r is None:
                if am: exp.add((lk,rk))
                continue
            ls,rs_=set(l.split()),set(r.split())
            if not ls and not rs_:
                if ae: exp.add((lk,rk))
                continue
            if COMP_OP_MAP[op](round(jac(ls,rs_),4),t): exp.add((lk,rk))
    if set(got)!=exp: rec('pairs',(L,R,t,op,am,ae,sorted(set(got)^exp)))
    # apply_matcher on a candset from size filter
    sf=ssj.SizeFilter(tok,'JACCARD',t,ae,am)
    c=sf.filter_tables(A,B,'id','id','s','s',show_progress=False)
    for njm in (1,3):
        m=ssj.apply_matcher(c,'l_id','r_id',A,B,'id','id','s','s',tok,jac,t,op,am,lo,ro,'L.','R.',sc,njm,False)
        gm=set(zip(m['L.id'],m['R.id'])) if len(m) else set()
        expm=set()
        for i,l in enumerate(L):
            for k,r in enumerate(R):
                lk,rk=A['id'].iloc[i],B['id'].iloc[k]
                if (lk,rk) not in set(zip(c['l_id'],c['r_id'])): continue
                if l is None or r is None:
                    if am: expm.add((lk,rk))
                    continue
                if COMP_OP_MAP[op](jac(set(l.split()),set(r.split())),t): expm.add((lk,rk))
        if gm!=expm: rec('matcher',(L,R,t,op,am,ae,njm,sorted(gm^expm)))
    fc=sf.filter_candset(c,'l_id','r_id',A,B,'id','id','s','s',show_progress=False,n_jobs=random.choice([1,2]))
    if len(fc)!=len(c): rec('candset-idempotent',(L,R,t,len(fc),len(c)))
for k,v in bad.items(): print(k,len(v),v[0])
print('done')

import warnings; warnings.filterwarnings('ignore')
import random, sys
import py_stringmatching as sm
from py_stringsimjoin.filter.suffix_filter import SuffixFilter
from py_stringsimjoin.filter.filter_utils import get_overlap_threshold
from py_stringsimjoin.utils.simfunctions import get_sim_function
random.seed(int(sys.argv[1]) if len(sys.argv)>1 else 0)
tok=sm.WhitespaceTokenizer(return_set=True)
def part(self,tokens,probe,left,right):
    # clip-aware partition
    n=len(tokens)
    if n==0: return [],[],1,1
    req_right=right
    right=min(right,n-1)
    if right<left: 
        return [],[],0,1
    if tokens[left]>probe:
        if left==0: return [],tokens[:],1,1
        return [],[],0,1
    if tokens[right]<probe:
        if req_right>=n-1 and right==n-1: return tokens[:],[],1,1
        return [],[],0,1
    pos=self._binary_search(tokens,probe,left,right)
    tl=tokens[0:pos]
    if tokens[pos]==probe: return tl,tokens[pos+1:],1,0
    return tl,tokens[pos:],1,1
mode=sys.argv[2] if len(sys.argv)>2 else 'both'
if mode in('both','part'): SuffixFilter._partition=part
f=SuffixFilter(tok,'JACCARD',0.5)
bad=[];
for it in range(300000):
    U=random.randint(1,12)
    a=sorted(random.sample(range(U),random.randint(0,U))); b=sorted(random.sample(range(U),random.randint(0,U)))
    H=len(set(a)^set(b))
    hmax=random.randint(-2,14)
    est=f._est_hamming_dist_lower_bound(a,b,len(a),len(b),hmax,1)
    if est>hmax and not H>hmax: bad.append((a,b,hmax,est,H))
print('estimator unsound cases',len(bad),bad[:5])

import warnings; warnings.filterwarnings('ignore')
import pandas as pd, numpy as np
from py_stringsimjoin.utils.converter import dataframe_column_to_str, series_to_str
df=pd.DataFrame({'i':[1,2,3],'f':[1.0,np.nan,3.0],'g':[1.5,np.nan,2.0],'o':pd.Series(['a',None,'c'],dtype=object),'s':['a',None,'c']})
for col in 'ifgos':
    for kw in ({},{'return_col':True},{'inplace':True}):
        d=df.copy()
        try:
            r=dataframe_column_to_str(d,col,**kw)
            out = r[col] if isinstance(r,pd.DataFrame) else (d[col] if r is True else r)
            print(col,kw,'->',type(r).__name__, list(out), out.dtype)
        except Exception as e: print(col,kw,'ERR',type(e).__name__,str(e)[:60])
for col in 'ifgos':
    for ip in (False,True):
        s=df[col].copy()
        try:
            r=series_to_str(s,ip); out = s if r is True else r
            print('series',col,ip,'->',type(r).__name__,list(out),out.dtype)
        except Exception as e: print('series',col,ip,'ERR',type(e).__name__,str(e)[:60])

import sys, math, random
sys.path.insert(0,'/repo')
from py_stringsimjoin.filter.filter_utils import *
from math import sqrt
def sim(meas,n,m,o):
    if meas=='JACCARD': return float(o)/float(n+m-o)
    if meas=='DICE': return 2.0*float(o)/float(n+m)
    if meas=='COSINE': return float(o)/(sqrt(float(n))*sqrt(float(m)))
N=int(sys.argv[1]) if len(sys.argv)>1 else 60
ths=sorted(set([k/100.0 for k in range(1,101)]+[k/1000.0 for k in range(1,1001)]+[random.random() for _ in range(300)]+[1/3,2/3,0.1+0.2]))
viol={}
for meas in ['JACCARD','COSINE','DICE']:
  for t in ths:
    if t<=0 or t>1: continue
    for n in range(1,N+1):
      lo=get_size_lower_bound(n,meas,t); up=get_size_upper_bound(n,meas,t); pn=get_prefix_length(n,meas,t,None)
      for m in range(1,N+1):
        for o in range(1,min(n,m)+1):
          s=sim(meas,n,m,o) if not (n==m==o) else 1.0
          if s>=t and round(s,4)>=t:
            if not (lo<=m<=up): viol.setdefault((meas,'size'),[]).append((t,n,m,o,lo,up))
            a=get_overlap_threshold(n,m,meas,t,None)
            if a>o: viol.setdefault((meas,'alpha'),[]).append((t,n,m,o,a))
            if pn < n-o+1: viol.setdefault((meas,'prefix'),[]).append((t,n,m,o,pn))
            break  # smallest qualifying o is the binding case
for k,v in viol.items(): print(k,len(v),v[:5])
print('done')

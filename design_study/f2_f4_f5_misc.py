import warnings; warnings.filterwarnings('ignore')
import pandas as pd, numpy as np, time
import py_stringmatching as sm
from py_stringsimjoin.join.jaccard_join_py import jaccard_join_py
from py_stringsimjoin.profiler.profiler import profile_table_for_join
from py_stringsimjoin.filter.overlap_filter import OverlapFilter
from py_stringsimjoin.join.overlap_join_py import overlap_join_py
print(pd.DataFrame([[1,2],[1,2,3.0]],columns=['a','b','c']))
try: print(pd.DataFrame([[1,2],[1,2]],columns=['a','b','c']))
except Exception as e: print('ERR',type(e).__name__,e)
def mk(rows): return pd.DataFrame({'id':list(range(len(rows))),'s':pd.Series(rows,dtype=object)})
tok=sm.WhitespaceTokenizer(return_set=True)
A=mk(['a b',None,'c']);B=mk(['a b','c d'])
for sc in (True,False):
    try: print(jaccard_join_py(A,B,'id','id','s','s',tok,0.5,allow_missing=True,out_sim_score=sc,show_progress=False))
    except Exception as e: print('ERR left-only missing, score',sc,type(e).__name__,e)
A=mk(['a b','c']);B=mk(['a b',np.nan])
print(jaccard_join_py(A,B,'id','id','s','s',tok,0.5,allow_missing=True,show_progress=False))
A=mk(['a b',None,'c']);B=mk(['a b',np.nan])
print(jaccard_join_py(A,B,'id','id','s','s',tok,0.5,allow_missing=True,show_progress=False))
# profiler None vs NaN
df=pd.DataFrame({'x':pd.Series([None,np.nan,'a','a'],dtype=object)})
print(profile_table_for_join(df))
df=pd.DataFrame({'x':list(range(20000))+[0]})
print(profile_table_for_join(df))
df=pd.DataFrame({'x':[float(i) for i in range(20000)]+[np.nan]})
print(profile_table_for_join(df).values)
# overlap_join flag leak
t2=sm.WhitespaceTokenizer(return_set=False)
try: overlap_join_py(A,B,'id','id','s','s',t2,0,show_progress=False)
except Exception as e: print('ERR',type(e).__name__, 'flag now', t2.get_return_set())
# timing
import random
random.seed(1)
L=[' '.join('t%d'%random.randint(0,30) for _ in range(random.randint(0,8))) for _ in range(8)]
A=mk(L);B=mk(L[::-1])
t0=time.time()
for _ in range(200): jaccard_join_py(A,B,'id','id','s','s',tok,0.4,show_progress=False)
print('per join ms',(time.time()-t0)/200*1000)
t0=time.time()
jaccard_join_py(A,B,'id','id','s','s',tok,0.4,show_progress=False,n_jobs=2)
print('n_jobs=2 ms',(time.time()-t0)*1000)
t0=time.time()
jaccard_join_py(A,B,'id','id','s','s',tok,0.4,show_progress=False,n_jobs=2)
print('n_jobs=2 second ms',(time.time()-t0)*1000)

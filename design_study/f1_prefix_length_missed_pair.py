import warnings; warnings.filterwarnings('ignore')
import pandas as pd, numpy as np
from math import ceil
import py_stringmatching as sm
from py_stringsimjoin.join.jaccard_join_py import jaccard_join_py
from py_stringsimjoin.filter.filter_utils import *
# find smallest n with float(t*n) > exact integer
from fractions import Fraction
hits=[]
for n in range(1,60):
    for k in range(1,101):
        t=k/100.0
        ex=Fraction(k,100)*n
        if ex.denominator==1 and ceil(t*n)!=ex:
            hits.append((n,t,t*n))
print(hits[:10])
n,t=25,0.28
print(get_prefix_length(25,'JACCARD',0.28,None), get_prefix_length(7,'JACCARD',0.28,None))
# x = tokens t00..t24 ; y = 7 tokens that must rank last in x => make them frequent
toks=['t%02d'%i for i in range(25)]
x=' '.join(toks)
ytoks=toks[18:]
y=' '.join(ytoks)
# add filler rows in the right table to make y tokens frequent
A=pd.DataFrame({'id':[0],'s':[x]},dtype=object)
B=pd.DataFrame({'id':[0,1,2],'s':[y, ' '.join(ytoks+['zz1']), ' '.join(ytoks+['zz2'])]},dtype=object)
A['id']=A['id'].astype(int);B['id']=B['id'].astype(int)
tok=sm.WhitespaceTokenizer(return_set=True)
print(7/25, 7/25>=0.28, round(7/25,4)>=0.28)
print(jaccard_join_py(A,B,'id','id','s','s',tok,0.28,show_progress=False))
print(jaccard_join_py(B,A,'id','id','s','s',tok,0.28,show_progress=False))

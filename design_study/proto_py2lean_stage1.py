"""Probe of translator stage 1: filter_utils.py -> Lean over a dynamically typed value domain."""
import ast, sys, hashlib
src=open('/repo/py_stringsimjoin/filter/filter_utils.py').read()
tree=ast.parse(src)
BIN={ast.Add:'add',ast.Sub:'sub',ast.Mult:'mul',ast.Div:'div'}
CALL1={'ceil':'ceil','floor':'floor','sqrt':'sqrt','int':'toInt'}
def ex(e):
    if isinstance(e,ast.Constant):
        if isinstance(e.value,bool): raise NotImplementedError
        if isinstance(e.value,int): return f'(.int {e.value})'
        if isinstance(e.value,str): return f'(.str "{e.value}")'
        raise NotImplementedError(e.value)
    if isinstance(e,ast.Name):
        if e.id=='maxsize': return '(.int 9223372036854775807)'
        return e.id
    if isinstance(e,ast.Attribute) and isinstance(e.value,ast.Name): return f'{e.value.id}_{e.attr}'
    if isinstance(e,ast.BinOp): return f'(PyV.{BIN[type(e.op)]} {ex(e.left)} {ex(e.right)})'
    if isinstance(e,ast.Call) and isinstance(e.func,ast.Name):
        f=e.func.id; a=[ex(x) for x in e.args]
        if f in CALL1 and len(a)==1: return f'(PyV.{CALL1[f]} {a[0]})'
        if f=='round' and len(a)==2: return f'(PyV.round {a[0]} {a[1]})'
        if f in('min','max') and len(a)==2: return f'(PyV.{f} {a[0]} {a[1]})'
    if isinstance(e,ast.Compare) and len(e.ops)==1:
        op={ast.Eq:'eq',ast.Lt:'lt',ast.LtE:'le',ast.Gt:'gt',ast.GtE:'ge'}[type(e.ops[0])]
        return f'(PyV.{op} {ex(e.left)} {ex(e.comparators[0])})'
    raise NotImplementedError(ast.dump(e))
def body(stmts,ind):
    if not stmts: return ' '*ind+'.none'
    s=stmts[0]
    if isinstance(s,ast.Expr) and isinstance(s.value,ast.Constant): return body(stmts[1:],ind)  # docstring
    if isinstance(s,ast.Return): return ' '*ind+ex(s.value)
    if isinstance(s,ast.If):
        return (' '*ind+f'if PyV.truthy {ex(s.test)} then\n'+body(s.body,ind+2)+'\n'+' '*ind+'else\n'+body(s.orelse+stmts[1:] if not ends_ret(s.orelse) else s.orelse,ind+2))
    raise NotImplementedError(ast.dump(s))
def ends_ret(st): return bool(st) and isinstance(st[-1],(ast.Return,ast.If)) and (not isinstance(st[-1],ast.If) or True)
out=[f'-- generated from filter_utils.py sha256={hashlib.sha256(src.encode()).hexdigest()[:16]}','namespace Gen']
for f in tree.body:
    if isinstance(f,ast.FunctionDef):
        args=[a.arg for a in f.args.args]
        largs=' '.join(f'({a} : PyV)' if a!='tokenizer' else '(tokenizer_qval : PyV)' for a in args)
        out.append(f'def {f.name} {largs} : PyV :=\n'+body(f.body,2))
out.append('end Gen')
print('\n'.join(out))

import warnings; warnings.filterwarnings('ignore')
import random, sys, math
import pandas as pd, numpy as np
import py_stringmatching as sm
from py_stringsimjoin.join.jaccard_join_py import jaccard_join_py
from py_stringsimjoin.join.cosine_join_py import cosine_join_py
from py_stringsimjoin.join.dice_join_py import dice_join_py
from py_stringsimjoin.join.overlap_join_py import overlap_join_py
from py_stringsimjoin.join.overlap_coefficient_join_py import overlap_coefficient_join_py
from py_stringsimjoin.join.edit_distance_join_py import edit_distance_join_py
from py_stringsimjoin.utils.simfunctions import get_sim_function
from py_stringsimjoin.utils.generic_helper import COMP_OP_MAP
random.seed(int(sys.argv[1]) if len(sys.argv)>1 else 0)
def mk(rows):
    df=pd.DataFrame({'id':list(range(len(rows))),'s':pd.Series(rows,dtype=object)})
    return df
joins={'JACCARD':jaccard_join_py,'COSINE':cosine_join_py,'DICE':dice_join_py,'OVERLAP_COEFFICIENT':overlap_coefficient_join_py}
tok=sm.WhitespaceTokenizer(return_set=True)
bad=[]
for it in range(1500):
    U=random.randint(2,10)
    def rs():
        k=random.randint(0,U)
        return ' '.join('t%d'%i for i in random.sample(range(U),k))
    L=[rs() for _ in range(random.randint(0,6))]; R=[rs() for _ in range(random.randint(0,6))]
    A=mk(L);B=mk(R)
    t=random.choice([random.randint(1,100)/100.0, round(random.random()*0.999+0.001,3)])
    op=random.choice(['>=','>','='])
    ae=random.choice([True,False])
    nj=random.choice([1,1,2,3])
    for m,j in joins.items():
        try:
            out=j(A,B,'id','id','s','s',tok,t,op,ae,show_progress=False,n_jobs=nj)
        except Exception as e:
            bad.append((m,'EXC',repr(e),L,R,t,op)); continue
        got=sorted(zip(out['l_id'],out['r_id']))
        exp=[]
        sf=get_sim_function(m)
        for i,l in enumerate(L):
            for k,r in enumerate(R):
                ls,rs_=set(l.split()),set(r.split())
                if not ls and not rs_:
                    if ae: exp.append((i,k))
                    continue
                s=sf(ls,rs_)
                s2=round(s,4) if m!='OVERLAP_COEFFICIENT' else s
                if COMP_OP_MAP[op](s2,t): exp.append((i,k))
        if got!=sorted(exp):
            bad.append((m,L,R,t,op,ae,nj,got,sorted(exp)))
    # overlap join
    th=random.randint(1,4)
    out=overlap_join_py(A,B,'id','id','s','s',tok,th,op,show_progress=False,n_jobs=nj)
    got=sorted(zip(out['l_id'],out['r_id']))
    exp=sorted((i,k) for i,l in enumerate(L) for k,r in enumerate(R) if COMP_OP_MAP[op](len(set(l.split())&set(r.split())),th) and l and r)
    if got!=exp: bad.append(('OVERLAP',L,R,th,op,nj,got,exp))
print(len(bad))
for b in bad[:8]: print(b)

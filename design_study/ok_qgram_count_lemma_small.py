import itertools, collections
import py_stringmatching as sm
lev=sm.Levenshtein().get_raw_score
def grams(s,q,pad):
    if pad: s='#'*(q-1)+s+'$'*(q-1)
    return collections.Counter(s[i:i+q] for i in range(len(s)-q+1)) if len(s)>=q else collections.Counter()
strs=[''.join(p) for n in range(0,7) for p in itertools.product('ab',repeat=n)]
strs3=[''.join(p) for n in range(0,5) for p in itertools.product('abc',repeat=n)]
bad=0;tot=0
for S in (strs,strs3):
  for q in (1,2,3,4):
    for pad in (True,False):
        G={s:grams(s,q,pad) for s in S}
        for s in S:
            for t in S:
                d=int(lev(s,t)); tot+=1
                diff=sum((G[s]-G[t]).values())
                if diff>q*d: bad+=1; print('DIFF',s,t,q,pad,d,diff)
                if pad:
                    common=sum((G[s]&G[t]).values())
                    if common < max(len(s),len(t))+q-1-q*d: bad+=1; print('COMMON',s,t,q,pad,d,common)
print(tot,bad)

import Mathlib.Tactic

/-! probe for lemma (d): folding per-key updates over an insertion-ordered assoc list -/
namespace PyDict
variable {κ ν : Type} [DecidableEq κ]

def get (m : List (κ × ν)) (k : κ) : Option ν := (m.find? (·.1 = k)).map (·.2)

/-- Python `d[k] = v` : overwrite in place if present, else append (keeps insertion order) -/
def set : List (κ × ν) → κ → ν → List (κ × ν)
  | [], k, v => [(k, v)]
  | (k', v') :: m, k, v => if k' = k then (k', v) :: m else (k', v') :: set m k v

theorem get_set_self (m : List (κ × ν)) (k : κ) (v : ν) : get (set m k v) k = some v := by
  induction m with
  | nil => simp [set, get]
  | cons p m ih =>
    obtain ⟨k', v'⟩ := p
    by_cases h : k' = k
    · simp [set, get, h]
    · simp only [set, h, if_false]
      simp only [get, List.find?_cons, h, decide_false] at ih ⊢
      exact ih

theorem get_set_other (m : List (κ × ν)) (k c : κ) (v : ν) (h : k ≠ c) :
    get (set m k v) c = get m c := by
  induction m with
  | nil => simp [set, get, h]
  | cons p m ih =>
    obtain ⟨k', v'⟩ := p
    by_cases h' : k' = k
    · subst h'; simp [set, get, h]
    · simp only [set, h', if_false]
      by_cases hc : k' = c
      · simp [get, hc]
      · simp only [get, List.find?_cons, hc, decide_false] at ih ⊢
        exact ih

/-- one step: `d[k] = f(d.get(k, dflt))` -/
def step (dflt : ν) (m : List (κ × ν)) (s : κ × (ν → ν)) : List (κ × ν) :=
  set m s.1 (s.2 ((get m s.1).getD dflt))

/-- factorisation: the final entry of key `c` only depends on the steps that touch `c`. -/
theorem fold_get (dflt : ν) (steps : List (κ × (ν → ν))) (m : List (κ × ν)) (c : κ) :
    (get (steps.foldl (step dflt) m) c).getD dflt =
      ((steps.filter (·.1 = c)).foldl (fun v s => s.2 v) ((get m c).getD dflt)) := by
  induction steps generalizing m with
  | nil => simp
  | cons s steps ih =>
    obtain ⟨k, f⟩ := s
    simp only [List.foldl_cons]
    rw [ih]
    by_cases h : k = c
    · subst h
      simp [step, get_set_self]
    · simp [h, step, get_set_other _ _ _ _ h]
end PyDict

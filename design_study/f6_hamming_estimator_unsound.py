import warnings; warnings.filterwarnings('ignore')
import random, sys
import py_stringmatching as sm
from py_stringsimjoin.filter.suffix_filter import SuffixFilter
random.seed(int(sys.argv[1]) if len(sys.argv)>1 else 0)
tok=sm.WhitespaceTokenizer(return_set=True)
f=SuffixFilter(tok,'JACCARD',0.5)
print('max_depth',f.max_depth)
bad=[]
for it in range(300000):
    U=random.randint(1,12)
    a=sorted(random.sample(range(U),random.randint(0,U))); b=sorted(random.sample(range(U),random.randint(0,U)))
    H=len(set(a)^set(b))
    hmax=random.randint(-2,14)
    try:
        est=f._est_hamming_dist_lower_bound(a,b,len(a),len(b),hmax,1)
    except Exception as e:
        bad.append(('EXC',a,b,hmax,repr(e))); continue
    if est>hmax and not H>hmax:
        bad.append((a,b,hmax,est,H))
    if est<=hmax and est>H:
        bad.append(('notlb',a,b,hmax,est,H))
print(len(bad)); print(bad[:10])

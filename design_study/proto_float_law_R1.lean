import Mathlib.Tactic.Linarith
import Mathlib.Tactic.Ring
import Mathlib.Tactic.Positivity
import Mathlib.Tactic.FieldSimp
import Mathlib.Algebra.Order.Floor.Ring
import Mathlib.Data.Rat.Floor

namespace SF

/-- round half even, Rat → Int (core-only definition) -/
def rhe (q : Rat) : Int :=
  let f := q.floor
  let d := q - (f : Rat)
  if d < 1/2 then f else if d > 1/2 then f + 1 else if f % 2 = 0 then f else f + 1

theorem rhe_err (q : Rat) : |((rhe q : Int) : Rat) - q| ≤ 1/2 := by
  unfold rhe
  have h1 : ((q.floor : Int) : Rat) ≤ q := Rat.floor_le q
  have h2 : q < ((q.floor : Int) : Rat) + 1 := by
    have := Rat.lt_floor_add_one q
    push_cast at this; exact this
  simp only
  split_ifs with a b c
  · rw [abs_le]; constructor <;> linarith
  · push_cast; rw [abs_le]; constructor <;> linarith
  · rw [abs_le]; constructor <;> linarith
  · push_cast; rw [abs_le]; constructor <;> linarith

theorem rhe_int (k : Int) : rhe (k : Rat) = k := by
  unfold rhe
  have : (k : Rat).floor = k := Rat.floor_intCast k
  simp [this]


/-- 2^e for integer exponent, core-only -/
def pow2 (e : Int) : Rat := if e ≥ 0 then ((2 ^ e.toNat : Nat) : Rat) else 1 / ((2 ^ (-e).toNat : Nat) : Rat)

theorem pow2_pos (e : Int) : 0 < pow2 e := by
  unfold pow2; split_ifs <;> positivity

theorem pow2_succ (e : Int) : pow2 (e + 1) = 2 * pow2 e := by
  unfold pow2
  by_cases h : e ≥ 0
  · have h' : e + 1 ≥ 0 := by omega
    simp only [h, h', if_true]
    have : (e + 1).toNat = e.toNat + 1 := by omega
    rw [this, pow_succ]; push_cast; ring
  · by_cases h1 : e + 1 ≥ 0
    · have he : e = -1 := by omega
      subst he; simp
    · simp only [h, h1, if_false]
      have : (-e).toNat = (-(e + 1)).toNat + 1 := by omega
      rw [this, pow_succ]; push_cast
      field_simp

/-- core statement of (R1): rounding the scaled significand and scaling back has
relative error at most 2^-53 when the scaled value is at least 2^52. -/
theorem scaled_round_rel_err (a : Rat) (e : Int) (ha : (2:Rat)^52 * pow2 e ≤ a) :
    |((rhe (a / pow2 e) : Int) : Rat) * pow2 e - a| ≤ a / 2^53 := by
  have hp := pow2_pos e
  have h := rhe_err (a / pow2 e)
  have : ((rhe (a / pow2 e) : Int) : Rat) * pow2 e - a
        = (((rhe (a / pow2 e) : Int) : Rat) - a / pow2 e) * pow2 e := by
    field_simp
  rw [this, abs_mul, abs_of_pos hp]
  calc |((rhe (a / pow2 e) : Int) : Rat) - a / pow2 e| * pow2 e ≤ 1/2 * pow2 e := by
        apply mul_le_mul_of_nonneg_right h hp.le
    _ ≤ a / 2^53 := by
        rw [le_div_iff₀ (by positivity)]
        nlinarith [ha]

end SF

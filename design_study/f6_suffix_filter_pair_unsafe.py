import warnings; warnings.filterwarnings('ignore')
import random, itertools, sys
import pandas as pd, numpy as np
import py_stringmatching as sm
from py_stringsimjoin.filter.size_filter import SizeFilter
from py_stringsimjoin.filter.prefix_filter import PrefixFilter
from py_stringsimjoin.filter.position_filter import PositionFilter
from py_stringsimjoin.filter.suffix_filter import SuffixFilter
from py_stringsimjoin.utils.simfunctions import get_sim_function
random.seed(int(sys.argv[1]) if len(sys.argv)>1 else 0)
tok=sm.WhitespaceTokenizer(return_set=True)
fails={}
for it in range(60000):
    U=random.randint(2,14)
    a=random.sample(range(U),random.randint(1,U)); b=random.sample(range(U),random.randint(1,U))
    ls=' '.join('t%02d'%i for i in a); rs=' '.join('t%02d'%i for i in b)
    t=random.choice([random.randint(1,100)/100.0, random.random()*0.999+0.001])
    for meas in ['JACCARD','COSINE','DICE']:
        sim=get_sim_function(meas)(set(ls.split()),set(rs.split()))
        if sim>=t and round(sim,4)>=t:
            for F in (SizeFilter,PrefixFilter,PositionFilter,SuffixFilter):
                f=F(tok,meas,t)
                if f.filter_pair(ls,rs):
                    k=(F.__name__,meas)
                    fails.setdefault(k,[]).append((ls,rs,t,sim))
for k,v in fails.items(): print(k,len(v),v[0])
print('done')

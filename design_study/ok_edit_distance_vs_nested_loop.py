import warnings; warnings.filterwarnings('ignore')
import random, sys, math
import pandas as pd, numpy as np
import py_stringmatching as sm
from py_stringsimjoin.join.edit_distance_join_py import edit_distance_join_py
from py_stringsimjoin.utils.generic_helper import COMP_OP_MAP
random.seed(int(sys.argv[1]) if len(sys.argv)>1 else 0)
lev=sm.Levenshtein().get_raw_score
def mk(rows):
    return pd.DataFrame({'id':list(range(len(rows))),'s':pd.Series(rows,dtype=object)})
bad=[];miss_noshare=0;nq=0
for it in range(3000):
    alpha=random.choice(['ab','abc','abcdé'])
    def rs():
        return ''.join(random.choice(alpha) for _ in range(random.randint(0,8)))
    L=[rs() for _ in range(random.randint(0,6))]; R=[rs() for _ in range(random.randint(0,6))]
    A=mk(L);B=mk(R)
    q=random.choice([1,2,3,4]); pad=random.choice([True,False]); rset=random.choice([True,False])
    tok=sm.QgramTokenizer(qval=q,padding=pad,return_set=rset)
    th=random.choice([0,1,2,3,1.5])
    op=random.choice(['<=','<','='])
    nj=random.choice([1,1,2,3])
    try:
        out=edit_distance_join_py(A,B,'id','id','s','s',th,op,show_progress=False,n_jobs=nj,tokenizer=tok)
    except Exception as e:
        bad.append(('EXC',repr(e),L,R,th,op,q,pad)); continue
    assert tok.get_return_set()==rset
    got=dict(((a,b),c) for a,b,c in zip(out['l_id'],out['r_id'],out['_sim_score']))
    assert len(got)==len(out)
    tokb=sm.QgramTokenizer(qval=q,padding=pad,return_set=False)
    thi=int(math.floor(th))
    for i,l in enumerate(L):
        for k,r in enumerate(R):
            d=lev(l,r)
            ok=COMP_OP_MAP[op](d,thi)
            share=bool(set(tokb.tokenize(l))&set(tokb.tokenize(r)))
            if (i,k) in got:
                if not ok or got[(i,k)]!=d: bad.append(('unsound',l,r,d,th,op))
            else:
                if ok:
                    nq+=1
                    if share: bad.append(('missed',l,r,d,th,op,q,pad,nj,L,R))
                    else: miss_noshare+=1
print(len(bad),miss_noshare,nq)
for b in bad[:8]: print(b)

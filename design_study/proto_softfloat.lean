/-! prototype softfloat: binary64 round-to-nearest-even on Rat (no overflow handling) -/
namespace SF

def rhe (q : Rat) : Int :=
  let f := q.floor
  let d := q - (f : Rat)
  if d < 1/2 then f else if d > 1/2 then f + 1 else if f % 2 = 0 then f else f + 1

def pow2 (e : Int) : Rat := if e ≥ 0 then ((2 ^ e.toNat : Nat) : Rat) else 1 / ((2 ^ (-e).toNat : Nat) : Rat)

/-- floor(log2 a) for a > 0 -/
def ilog2 (a : Rat) : Int :=
  let k : Int := (Nat.log2 a.num.natAbs : Int) - (Nat.log2 a.den : Int)
  if pow2 k ≤ a then k else k - 1

def rn (q : Rat) : Rat :=
  if q = 0 then 0 else
  let a := if q < 0 then -q else q
  let e := max (ilog2 a - 52) (-1074)
  let m := rhe (a / pow2 e)
  let r := (m : Rat) * pow2 e
  if q < 0 then -r else r

def ofFloat (x : Float) : Rat :=
  let b := x.toBits
  let s := b >>> 63
  let ex := ((b >>> 52) &&& 0x7FF).toNat
  let fr := (b &&& 0xFFFFFFFFFFFFF).toNat
  let v : Rat := if ex = 0 then (fr : Rat) * pow2 (-1074) else ((fr + 2^52 : Nat) : Rat) * pow2 ((ex : Int) - 1075)
  if s = 1 then -v else v

def sqrtRn (q : Rat) : Rat := -- correctly rounded sqrt for q ≥ 0
  if q ≤ 0 then 0 else
  -- exponent of result: floor(log2 q / 2)
  let l := ilog2 q
  let er := (if l % 2 = 0 then l / 2 else (l - 1) / 2) - 52   -- result = m * 2^er with m in [2^52, 2^53)
  -- m = round( sqrt(q) / 2^er ) = round( sqrt( q / 4^er ) )
  let x := q / pow2 (2 * er)
  -- floor sqrt of x: use integer sqrt on floor(x) (x ≥ 2^104 so plenty of bits) and refine by comparing
  let s := Nat.sqrt x.floor.toNat
  -- candidate s or s+1 : nearest to sqrt x  <=> compare x with (s+1/2)^2
  let h : Rat := ((2 * s + 1 : Nat) : Rat) / 2
  let m := if x < h * h then s else s + 1
  (m : Rat) * pow2 er

def round4 (q : Rat) : Rat := rn ((rhe (q * 10000) : Rat) / 10000)

end SF
open SF
def xs : List Float := [0.28, 0.1, 0.3, 1.0/3.0, 0.9999999, 1e-5, 0.56, 0.7, 123456.789, 5e-324, 2.2250738585072014e-308]
def ns : List Float := [1, 3, 7, 25, 50, 1000, 12345, 99999]
#eval (do
  let mut bad := 0
  for x in xs do for n in ns do
    let a := ofFloat x; let b := ofFloat n
    if rn (a*b) != ofFloat (x*n) then bad := bad + 1
    if rn (a/b) != ofFloat (x/n) then bad := bad + 1
    if rn (b/a) != ofFloat (n/x) && (n/x).isFinite then bad := bad + 1
    if rn (a+b) != ofFloat (x+n) then bad := bad + 1
    if sqrtRn (a*b) != ofFloat (Float.sqrt (Float.ofScientific 0 false 0 + (x*n)))  then
       -- x*n rounded first: compare sqrt of the rounded product
       if sqrtRn (ofFloat (x*n)) != ofFloat (Float.sqrt (x*n)) then bad := bad + 1
  return bad : Id Nat)
#eval round4 (ofFloat (0.28*25))
#eval ofFloat 7.0001
#eval round4 (ofFloat 7.00006) == ofFloat 7.0001
#eval round4 (ofFloat 0.03125) == ofFloat 0.0312

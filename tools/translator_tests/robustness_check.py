#!/usr/bin/env python3
"""Robustness check for py2lean2: apply small deliberate edits to a scratch COPY of the Python
sources and record, for each, whether the translator refuses (exit 3) or the regenerated Lean
changes and `SSJ.Proofs.GenLoops` stops compiling.  Never touches /repo.

usage: robustness_check.py <repo_root> <lean_project_dir> [2|3|4|all]     (stage-2 / stage-3 / stage-4 mutants, or all)
"""
import os, shutil, subprocess, sys, tempfile, json

MUTANTS = [
    ('M01 rra: drop the `if …: continue`', 'py_stringsimjoin/utils/generic_helper.py',
     "        if attr == key_attr or seen_attrs.get(attr) is not None:\n            continue\n", ""),
    ('M02 rra: `continue` -> `pass`', 'py_stringsimjoin/utils/generic_helper.py',
     "is not None:\n            continue\n", "is not None:\n            pass\n"),
    ('M03 rra: `is not None` -> `is None`', 'py_stringsimjoin/utils/generic_helper.py',
     "seen_attrs.get(attr) is not None", "seen_attrs.get(attr) is None"),
    ('M04 get_attrs_to_project: `!=` -> `==`', 'py_stringsimjoin/utils/generic_helper.py',
     "if attr != join_attr:", "if attr == join_attr:"),
    ('M05 get_attrs_to_project: swap key/join', 'py_stringsimjoin/utils/generic_helper.py',
     "proj_attrs = [key_attr, join_attr]", "proj_attrs = [join_attr, key_attr]"),
    ('M06 output row: r before l', 'py_stringsimjoin/utils/generic_helper.py',
     "    output_row.append(l_row[l_key_attr_index])\n\n    # add rtable id attr\n    output_row.append(r_row[r_key_attr_index])\n",
     "    output_row.append(r_row[r_key_attr_index])\n\n    # add rtable id attr\n    output_row.append(l_row[l_key_attr_index])\n"),
    ('M07 output header: prefix on the wrong side', 'py_stringsimjoin/utils/generic_helper.py',
     "output_header.append(l_out_prefix + l_attr)", "output_header.append(l_attr + l_out_prefix)"),
    ('M08 find_output_attribute_indices: index of attr in output_attributes', 'py_stringsimjoin/utils/generic_helper.py',
     "original_columns.index(attr)", "output_attributes.index(attr)"),
    ('M09 order_using: drop the sort', 'py_stringsimjoin/utils/token_ordering.py',
     "    ordered_tokens.sort()\n", ""),
    ('M10 gen_token_ordering: drop `order_idx = 1`', 'py_stringsimjoin/utils/token_ordering.py',
     "            token_freq_dict[token] = token_freq_dict.get(token, 0) + 1\n            order_idx = 1\n",
     "            token_freq_dict[token] = token_freq_dict.get(token, 0) + 1\n"),
    ('M11 gen_token_ordering: `order_idx = 0`', 'py_stringsimjoin/utils/token_ordering.py',
     "            order_idx = 1\n", "            order_idx = 0\n"),
    ('M12 gen_token_ordering: swap the two sort keys', 'py_stringsimjoin/utils/token_ordering.py',
     "    ordered_tokens = sorted(list(token_freq_dict.items()), key=itemgetter(0))\n\n    token_ordering = {}\n    for token_freq_tuple in sorted(ordered_tokens, key=itemgetter(1)):\n        token_ordering[token_freq_tuple[0]] = order_idx",
     "    ordered_tokens = sorted(list(token_freq_dict.items()), key=itemgetter(1))\n\n    token_ordering = {}\n    for token_freq_tuple in sorted(ordered_tokens, key=itemgetter(0)):\n        token_ordering[token_freq_tuple[0]] = order_idx"),
    ('M13 gen_token_ordering: sorted(..., reverse=True)', 'py_stringsimjoin/utils/token_ordering.py',
     "            order_idx = 1\n\n    ordered_tokens = sorted(list(token_freq_dict.items()), key=itemgetter(0))\n\n    token_ordering = {}\n    for token_freq_tuple in sorted(ordered_tokens, key=itemgetter(1)):",
     "            order_idx = 1\n\n    ordered_tokens = sorted(list(token_freq_dict.items()), key=itemgetter(0))\n\n    token_ordering = {}\n    for token_freq_tuple in sorted(ordered_tokens, key=itemgetter(1), reverse=True):"),
    ('M14 overlap find_candidates: +2', 'py_stringsimjoin/filter/overlap_filter.py',
     "candidate_overlap[cand] = candidate_overlap.get(cand, 0) + 1", "candidate_overlap[cand] = candidate_overlap.get(cand, 0) + 2"),
    ('M15 InvertedIndex.probe without default', 'py_stringsimjoin/index/inverted_index.py',
     "return self.index.get(token, [])", "return self.index.get(token)"),
    ('M16 position: swap args of get_overlap_threshold', 'py_stringsimjoin/filter/position_filter.py',
     "overlap_threshold_cache[size] = get_overlap_threshold(\n                                                size, probe_num_tokens,",
     "overlap_threshold_cache[size] = get_overlap_threshold(\n                                                probe_num_tokens, size,"),
    ('M17 position: cache range off by one', 'py_stringsimjoin/filter/position_filter.py',
     "for size in xrange(size_lower_bound, size_upper_bound + 1):", "for size in xrange(size_lower_bound, size_upper_bound):"),
    ('M18 position: size guard loses its upper bound', 'py_stringsimjoin/filter/position_filter.py',
     "if size_lower_bound <= cand_num_tokens <= size_upper_bound:", "if size_lower_bound <= cand_num_tokens:"),
    ('M19 position: `!= -1` -> `== -1`', 'py_stringsimjoin/filter/position_filter.py',
     "                if current_overlap != -1:\n                    cand_num_tokens", "                if current_overlap == -1:\n                    cand_num_tokens"),
    ('M20 position: probe_pos advanced inside the inner loop', 'py_stringsimjoin/filter/position_filter.py',
     "                            candidate_overlap[cand] = -1\n\n            probe_pos += 1\n\n        return candidate_overlap",
     "                            candidate_overlap[cand] = -1\n\n                probe_pos += 1\n\n        return candidate_overlap"),
    ('M21 position: max -> min in the lower bound', 'py_stringsimjoin/filter/position_filter.py',
     "size_lower_bound = max(get_size_lower_bound(probe_num_tokens,", "size_lower_bound = min(get_size_lower_bound(probe_num_tokens,"),
    ('M22 position: cache key changed between guard and read', 'py_stringsimjoin/filter/position_filter.py',
     "                        if (current_overlap + overlap_upper_bound >=\n",
     "                        cand_num_tokens = cand_num_tokens + 1\n                        if (current_overlap + overlap_upper_bound >=\n"),
    ('M23 position: prefix slice dropped', 'py_stringsimjoin/filter/position_filter.py',
     "for token in probe_tokens[0:probe_prefix_length]:\n            for (cand, cand_pos) in position_index.probe(token):\n                current_overlap",
     "for token in probe_tokens:\n            for (cand, cand_pos) in position_index.probe(token):\n                current_overlap"),
    ('M24 PositionIndex.build: drop `pos += 1`', 'py_stringsimjoin/index/position_index.py',
     "                self.index.get(token).append((row_id, pos))\n                pos += 1\n",
     "                self.index.get(token).append((row_id, pos))\n"),
    ('M25 PositionIndex.build: posting (pos, row_id)', 'py_stringsimjoin/index/position_index.py',
     "self.index.get(token).append((row_id, pos))", "self.index.get(token).append((pos, row_id))"),
    ('M26 PositionIndex.build: min_length test compares with max_length', 'py_stringsimjoin/index/position_index.py',
     "if num_tokens < self.min_length:", "if num_tokens <= self.max_length:"),
    ('M27 PositionIndex.__init__: min_length = 0', 'py_stringsimjoin/index/position_index.py',
     "self.min_length = maxsize", "self.min_length = 0"),
    ('M28 PositionIndex.build: missing `is None` initialisation', 'py_stringsimjoin/index/position_index.py',
     "                if self.index.get(token) is None:\n                    self.index[token] = []\n", ""),
    ('M29 PositionIndex.build: rows tokenized without the ordering', 'py_stringsimjoin/index/position_index.py',
     "index_attr_tokens = order_using_token_ordering(\n                self.tokenizer.tokenize(index_string), self.token_ordering)",
     "index_attr_tokens = self.tokenizer.tokenize(index_string)"),
    ('M30 PositionIndex.build: `row_id += 1` moved before the empty-record test', 'py_stringsimjoin/index/position_index.py',
     "            if cache_empty_records and num_tokens == 0:\n                empty_records.append(row_id)\n\n            row_id += 1",
     "            row_id += 1\n            if cache_empty_records and num_tokens == 0:\n                empty_records.append(row_id)\n"),
    ('M31 PositionIndex.probe returns None for unknown tokens', 'py_stringsimjoin/index/position_index.py',
     "return self.index.get(token, [])", "return self.index.get(token)"),
]

SFP = 'py_stringsimjoin/filter/suffix_filter.py'
SZP = 'py_stringsimjoin/filter/size_filter.py'
PRP = 'py_stringsimjoin/filter/prefix_filter.py'
PFP = 'py_stringsimjoin/filter/position_filter.py'
OFP = 'py_stringsimjoin/filter/overlap_filter.py'
SSJP = 'py_stringsimjoin/join/set_sim_join.py'
OCP = 'py_stringsimjoin/join/overlap_coefficient_join_py.py'
EDP = 'py_stringsimjoin/join/edit_distance_join_py.py'
MUTANTS3 = [
    ('S01 _number_repeated_tokens: occurrence += 2', SFP, "            occurrence += 1\n", "            occurrence += 2\n"),
    ('S02 _number_repeated_tokens: restart at 1', SFP, "        else:\n            occurrence = 0\n", "        else:\n            occurrence = 1\n"),
    ('S03 _binary_search: mid+1 -> mid', SFP, "probe_token, mid+1, right)", "probe_token, mid, right)"),
    ('S04 _binary_search: < -> >', SFP, "elif mid_token < probe_token:", "elif mid_token > probe_token:"),
    ('S05 _partition: clip at len(tokens)', SFP, "right = min(right, len(tokens) - 1)", "right = min(right, len(tokens))"),
    ('S06 _partition: keep the probe token on the right', SFP, "tokens_right = tokens[pos+1:len(tokens)]", "tokens_right = tokens[pos:len(tokens)]"),
    ('S07 _est_hamming: o_l/o_r swapped', SFP, "            o_l = 1\n            o_r = 0\n", "            o_l = 0\n            o_r = 1\n"),
    ('S08 _est_hamming: depth >= max_depth', SFP, "if (depth > self.max_depth or", "if (depth >= self.max_depth or"),
    ('S09 SuffixFilter.__init__: max_depth = 3', SFP, "self.max_depth = 2", "self.max_depth = 3"),
    ('S10 _est_hamming: return hamming_dist_max when the partition fails', SFP, "            return hamming_dist_max + 1\n", "            return hamming_dist_max\n"),
    ('S11 _filter_suffix: overlap threshold counted once', SFP, "                            2 * overlap_threshold +", "                            overlap_threshold +"),
    ('S12 _filter_suffix: numbering under the wrong measure', SFP, "        if self.sim_measure_type == 'EDIT_DISTANCE':\n            l_suffix = _number", "        if self.sim_measure_type == 'JACCARD':\n            l_suffix = _number"),
    ('S13 SuffixFilter.filter_pair: right suffix cut at the left prefix length', SFP, "ordered_rtokens[r_prefix_length:],\n                             l_prefix_length,", "ordered_rtokens[l_prefix_length:],\n                             l_prefix_length,"),
    ('S14 suffix worker: `not` dropped before _filter_suffix', SFP, "            if not suffix_filter._filter_suffix(l_suffix,", "            if suffix_filter._filter_suffix(l_suffix,"),
    ('Z01 SizeFilter.filter_pair: strict bounds', SZP, "if size_lower_bound <= r_num_tokens <= size_upper_bound:\n            return False", "if size_lower_bound < r_num_tokens < size_upper_bound:\n            return False"),
    ('Z02 SizeFilter.filter_pair: OVERLAP empty pair kept', SZP, "            if self.sim_measure_type == 'OVERLAP':\n                return True", "            if self.sim_measure_type == 'OVERLAP':\n                return False"),
    ('Z03 SizeFilter.find_candidates: >= probe_size', SZP, "if size_lower_bound > probe_size:", "if size_lower_bound >= probe_size:"),
    ('Z04 SizeFilter.find_candidates: range misses the upper bound', SZP, "xrange(size_lower_bound, size_upper_bound + 1)", "xrange(size_lower_bound, size_upper_bound)"),
    ('Z05 size worker: empty rows matched without handle_empty', SZP, "        if handle_empty and r_num_tokens == 0:", "        if r_num_tokens == 0:"),
    ('P01 PrefixFilter.filter_pair: >= 0', PRP, "if len(prefix_overlap) > 0:", "if len(prefix_overlap) >= 0:"),
    ('P02 PrefixFilter.find_candidates: whole token list probed', PRP, "for token in probe_tokens[0:probe_prefix_length]:\n            candidates.update", "for token in probe_tokens:\n            candidates.update"),
    ('Q01 PositionFilter.filter_pair: r_pos not advanced', PFP, "                current_overlap += 1\n            r_pos += 1\n", "                current_overlap += 1\n"),
    ('Q02 PositionFilter.filter_pair: upper bound without the 1 +', PFP, "overlap_upper_bound = 1 + min(l_num_tokens - l_pos - 1,", "overlap_upper_bound = min(l_num_tokens - l_pos - 1,"),
    ('Q03 position worker: overlap >= 0', PFP, "        for cand, overlap in iteritems(candidate_overlap):\n            if overlap > 0:\n                if has_output_attributes:", "        for cand, overlap in iteritems(candidate_overlap):\n            if overlap >= 0:\n                if has_output_attributes:"),
    ('O01 OverlapFilter.filter_pair: comparison arguments swapped', OFP, "if COMP_OP_MAP[self.comp_op](num_overlap, self.overlap_size):", "if COMP_OP_MAP[self.comp_op](self.overlap_size, num_overlap):"),
    ('O02 overlap worker: score not appended', OFP, "                if out_sim_score:\n                    output_row.append(overlap)\n", ""),
    ('O03 utils.simfunctions.overlap counts the union', 'py_stringsimjoin/utils/simfunctions.py', "return len(set1.intersection(set2))", "return len(set1.union(set2))"),
    ('I01 SizeIndex.build: row_id not advanced for empty rows', 'py_stringsimjoin/index/size_index.py', "            if num_tokens == 0:\n                row_id += 1\n                continue", "            if num_tokens == 0:\n                continue"),
    ('I02 PrefixIndex.build: posts the token count', 'py_stringsimjoin/index/prefix_index.py', "self.index.get(token).append(row_id)", "self.index.get(token).append(num_tokens)"),
    ('I03 InvertedIndex.build: size cache flag negated', 'py_stringsimjoin/index/inverted_index.py', "            if self.cache_size_flag:", "            if not self.cache_size_flag:"),
    ('T01 gen_token_ordering_for_tables: table_index not advanced', 'py_stringsimjoin/utils/token_ordering.py', "                token_freq_dict[token] = token_freq_dict.get(token, 0) + 1\n        table_index += 1\n", "                token_freq_dict[token] = token_freq_dict.get(token, 0) + 1\n"),
    ('T02 gen_token_ordering_for_tables: ranks from 0', 'py_stringsimjoin/utils/token_ordering.py', "    token_ordering = {}\n    order_idx = 1\n", "    token_ordering = {}\n    order_idx = 0\n"),
    ('J01 set_sim_join: round to 3 digits', SSJP, "r_ordered_tokens), 4)", "r_ordered_tokens), 3)"),
    ('J02 set_sim_join: overlap >= 0', SSJP, "            if overlap > 0:", "            if overlap >= 0:"),
    ('J03 set_sim_join: empty pairs scored 0.0', SSJP, "output_row.append(1.0)", "output_row.append(0.0)"),
    ('J04 set_sim_join: tokens not cached', SSJP, "position_index.build(allow_empty, cache_tokens=True)", "position_index.build(allow_empty, cache_tokens=False)"),
    ('J05 set_sim_join: tables swapped in the token ordering call', SSJP, "                         [ltable, rtable],\n                         [l_join_attr_index, r_join_attr_index],", "                         [rtable, ltable],\n                         [l_join_attr_index, r_join_attr_index],"),
    ('J06 set_sim_join: comparison arguments swapped', SSJP, "if comp_fn(sim_score, threshold):", "if comp_fn(threshold, sim_score):"),
    ('J07 set_sim_join: row stored before the score is appended (aliasing)', SSJP,
     "                    if out_sim_score:\n                        output_row.append(sim_score)\n\n                    output_rows.append(output_row)",
     "                    output_rows.append(output_row)\n                    if out_sim_score:\n                        output_row.append(sim_score)\n"),
    ('J08 set_sim_join: PositionFilter built for another threshold', SSJP, "pos_filter = PositionFilter(tokenizer, sim_measure_type, threshold)", "pos_filter = PositionFilter(tokenizer, sim_measure_type, 0.5)"),
    ('K01 overlap coefficient: max instead of min', OCP, "float(min(r_num_tokens,", "float(max(r_num_tokens,"),
    ('K02 overlap coefficient: sizes not cached', OCP, "tokenizer, cache_size_flag=True)", "tokenizer, cache_size_flag=False)"),
    ('D01 edit distance: length filter loses its upper bound', EDP, "if r_len - threshold <= l_join_attr_list[cand] <= r_len + threshold:", "if r_len - threshold <= l_join_attr_list[cand]:"),
    ('D02 edit distance: prefix index caches empty records', EDP, "prefix_index.build(False)", "prefix_index.build(True)"),
    ('D03 edit distance: measure constant changed', EDP, "sim_measure_type = 'EDIT_DISTANCE'", "sim_measure_type = 'JACCARD'"),
    ('V01 missing pairs: second loop over the missing left rows', 'py_stringsimjoin/utils/missing_value_handler.py', "for l_row in ltable_not_missing.itertuples(index=False):", "for l_row in ltable_missing.itertuples(index=False):"),
    ('V02 missing pairs: selection negated', 'py_stringsimjoin/utils/missing_value_handler.py', "ltable_missing = ltable[pd.isnull(ltable[l_join_attr])]", "ltable_missing = ltable[pd.notnull(ltable[l_join_attr])]"),
    ('V03 missing pairs: NaN score only in the second loop', 'py_stringsimjoin/utils/missing_value_handler.py',
     "                output_row = [l_row[l_key_attr_index], r_row[r_key_attr_index]]\n\n            if out_sim_score:\n                output_row.append(np.NaN)\n\n            output_rows.append(output_row)\n\n        if show_progress:\n            prog_bar.update()\n\n    # For each rtable",
     "                output_row = [l_row[l_key_attr_index], r_row[r_key_attr_index]]\n\n            output_rows.append(output_row)\n\n        if show_progress:\n            prog_bar.update()\n\n    # For each rtable"),
    ('G01 build_dict_from_table: `and` -> `or`', 'py_stringsimjoin/utils/generic_helper.py', "if remove_null and pd.isnull(row[join_attr_index]):\n            continue\n        table_dict", "if remove_null or pd.isnull(row[join_attr_index]):\n            continue\n        table_dict"),
]

FLP = 'py_stringsimjoin/filter/filter.py'
AMP = 'py_stringsimjoin/matcher/apply_matcher.py'
PRO = 'py_stringsimjoin/profiler/profiler.py'
MUTANTS4 = [
    ('F01 candset split: `not` dropped', FLP, "valid_rows.append(not filter_object.filter_pair(", "valid_rows.append(filter_object.filter_pair("),
    ('F02 candset split: l_id read from the right key column', FLP, "        l_id = candset_row[candset_l_key_attr_index]\n        r_id = candset_row[candset_r_key_attr_index]\n\n        l_row = ltable_dict[l_id]\n        r_row = rtable_dict[r_id]\n\n        valid_rows", "        l_id = candset_row[candset_r_key_attr_index]\n        r_id = candset_row[candset_r_key_attr_index]\n\n        l_row = ltable_dict[l_id]\n        r_row = rtable_dict[r_id]\n\n        valid_rows"),
    ('F03 candset split: dict.get instead of d[k]', FLP, "        l_row = ltable_dict[l_id]\n        r_row = rtable_dict[r_id]\n\n        valid_rows", "        l_row = ltable_dict.get(l_id)\n        r_row = rtable_dict[r_id]\n\n        valid_rows"),
    ('F04 candset split: remove_null=True', FLP, "                                        l_filter_attr_index,\n                                        remove_null=False)", "                                        l_filter_attr_index,\n                                        remove_null=True)"),
    ('A01 matcher: allow_missing negated', AMP, "            if allow_missing:\n                allow_pair = True", "            if not allow_missing:\n                allow_pair = True"),
    ('A02 matcher: NaN score not set for missing pairs', AMP, "                allow_pair = True\n                sim_score = np.NaN\n", "                allow_pair = True\n"),
    ('A03 matcher: left tokens looked up with the right id', AMP, "l_apply_col_value = l_tokens[l_id]", "l_apply_col_value = l_tokens[r_id]"),
    ('A04 matcher: _id not inserted', AMP, "                output_row.insert(0, candset_row[0])\n", ""),
    ('A05 matcher: comparison arguments swapped', AMP, "allow_pair = comp_fn(sim_score, threshold)", "allow_pair = comp_fn(threshold, sim_score)"),
    ('A06 matcher: cache used when only one side is cached', AMP, "if l_tokens is not None and r_tokens is not None:", "if l_tokens is not None or r_tokens is not None:"),
    ('A07 matcher: _id appended to the header', AMP, "output_header.insert(0, '_id')", "output_header.append('_id')"),
    ('A08 matcher: missing test with `and`', AMP, "if pd.isnull(l_apply_col_value) or pd.isnull(r_apply_col_value):", "if pd.isnull(l_apply_col_value) and pd.isnull(r_apply_col_value):"),
    ('A09 matcher: right value tokenized from the left value', AMP, "r_apply_col_value = tokenizer.tokenize(r_apply_col_value)", "r_apply_col_value = tokenizer.tokenize(l_apply_col_value)"),
    ('G01 generate_tokens: null rows selected', AMP, "table_nonnull = table[pd.notnull(table[join_attr])]", "table_nonnull = table[pd.isnull(table[join_attr])]"),
    ('G02 generate_tokens: keys and values swapped', AMP, "    return dict(zip(table_nonnull[key_attr],\n                    table_nonnull[join_attr].apply(tokenizer.tokenize)))", "    return dict(zip(table_nonnull[join_attr].apply(tokenizer.tokenize),\n                    table_nonnull[key_attr]))"),
    ('R01 profiler: missing counts as two values', PRO, "            unique_values += 1", "            unique_values += 2"),
    ('R02 profiler: >= 0', PRO, "        unique_values = input_table[attr].nunique(dropna=True)\n        if missing_values > 0:", "        unique_values = input_table[attr].nunique(dropna=True)\n        if missing_values >= 0:"),
    ('R03 profiler: unique percentage rounded to 1 digit', PRO, "        unique_percent = round((float(unique_values) / float(num_rows)) * 100,\n                               2)", "        unique_percent = round((float(unique_values) / float(num_rows)) * 100,\n                               1)"),
    ('R04 profiler: key test with `or`', PRO, "if unique_values == num_rows and missing_values == 0:", "if unique_values == num_rows or missing_values == 0:"),
    ('R05 _format_statistic: bracket', PRO, "return ''.join([str(stat), ' (', str(stat_percent), '%)'])", "return ''.join([str(stat), ' [', str(stat_percent), '%)'])"),
    ('R06 profiler: attributes not validated', PRO, "            validate_attr(attr, input_table.columns,\n                          'profile attribute', 'input table')", "            pass"),
    ('R07 profiler: missing percentage of the unique count', PRO, "missing_percent = round((float(missing_values) / float(num_rows)) * 100,", "missing_percent = round((float(unique_values) / float(num_rows)) * 100,"),
]


def main():
    repo, lean = sys.argv[1], sys.argv[2]
    which = sys.argv[3] if len(sys.argv) > 3 else 'all'
    mutants = {'2': MUTANTS, '3': MUTANTS3, '4': MUTANTS4, 'all': MUTANTS + MUTANTS3 + MUTANTS4}[which]
    here = os.path.dirname(os.path.abspath(__file__))
    tr = os.path.join(here, 'py2lean2.py')
    gens = [os.path.join(lean, 'SSJ', 'Gen', n) for n in ('Loops.lean', 'Loops2.lean', 'Loops3.lean')]
    orig = [open(g, encoding='utf-8').read() for g in gens]
    body = lambda t: t[t.index('import SSJ'):]
    results = []
    try:
        for (name, rel, old, new) in mutants:
            tmp = tempfile.mkdtemp(prefix='mut_')
            shutil.copytree(os.path.join(repo, 'py_stringsimjoin'), os.path.join(tmp, 'py_stringsimjoin'),
                            ignore=shutil.ignore_patterns('*.so', '*.pyc', '__pycache__', '*.c', '*.cpp'))
            p = os.path.join(tmp, rel)
            src = open(p, encoding='utf-8').read()
            if src.count(old) != 1:
                results.append((name, 'MUTATION DID NOT APPLY (%d matches)' % src.count(old)))
                shutil.rmtree(tmp)
                continue
            open(p, 'w', encoding='utf-8').write(src.replace(old, new))
            out = os.path.join(tmp, 'out')
            r = subprocess.run([sys.executable, tr, tmp, out], capture_output=True, text=True)
            if r.returncode == 3:
                results.append((name, 'REFUSED: ' + json.loads(r.stdout)['error'].splitlines()[0][:230]))
            elif r.returncode != 0:
                results.append((name, 'TRANSLATOR CRASH rc=%d %s' % (r.returncode, r.stderr[-300:])))
            else:
                texts = [open(os.path.join(out, os.path.basename(g)), encoding='utf-8').read() for g in gens]
                if all(body(t) == body(o) for t, o in zip(texts, orig)):
                    results.append((name, 'UNDETECTED: generated Lean unchanged'))
                else:
                    for g, t in zip(gens, texts):
                        open(g, 'w', encoding='utf-8').write(t)
                    b = subprocess.run(['lake', 'build', 'SSJ.Proofs.GenLoops3'], cwd=lean, capture_output=True, text=True)
                    if b.returncode == 0:
                        results.append((name, 'UNDETECTED: Lean changed but proofs still compile'))
                    else:
                        errs = [l for l in b.stdout.splitlines() if l.startswith('error:') and '.lean:' in l]
                        results.append((name, 'PROOF BREAKS: ' + (errs[0][:140] if errs else 'build failed')))
                    for g, o in zip(gens, orig):
                        open(g, 'w', encoding='utf-8').write(o)
            shutil.rmtree(tmp)
    finally:
        for g, o in zip(gens, orig):
            open(g, 'w', encoding='utf-8').write(o)
        subprocess.run(['lake', 'build', 'SSJ.Proofs.GenLoops3'], cwd=lean, capture_output=True, text=True)
    bad = 0
    counts = {}
    for name, res in results:
        print('%-74s %s' % (name, res))
        counts[res.split(':')[0]] = counts.get(res.split(':')[0], 0) + 1
        if res.startswith(('UNDETECTED', 'MUTATION', 'TRANSLATOR')):
            bad += 1
    print('%d mutants: %s; %d not detected' % (len(results), counts, bad))
    sys.exit(1 if bad else 0)


if __name__ == '__main__':
    main()

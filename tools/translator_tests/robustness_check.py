#!/usr/bin/env python3
"""Robustness check for py2lean2: apply small deliberate edits to a scratch COPY of the Python
sources and record, for each, whether the translator refuses (exit 3) or the regenerated Lean
changes and `SSJ.Proofs.GenLoops` stops compiling.  Never touches /repo.

usage: robustness_check.py <repo_root> <lean_project_dir>
"""
import os, shutil, subprocess, sys, tempfile, json

MUTANTS = [
    ('M01 rra: drop the `if …: continue`', 'py_stringsimjoin/utils/generic_helper.py',
     "        if attr == key_attr or seen_attrs.get(attr) is not None:\n            continue\n", ""),
    ('M02 rra: `continue` -> `pass`', 'py_stringsimjoin/utils/generic_helper.py',
     "is not None:\n            continue\n", "is not None:\n            pass\n"),
    ('M03 rra: `is not None` -> `is None`', 'py_stringsimjoin/utils/generic_helper.py',
     "seen_attrs.get(attr) is not None", "seen_attrs.get(attr) is None"),
    ('M04 get_attrs_to_project: `!=` -> `==`', 'py_stringsimjoin/utils/generic_helper.py',
     "if attr != join_attr:", "if attr == join_attr:"),
    ('M05 get_attrs_to_project: swap key/join', 'py_stringsimjoin/utils/generic_helper.py',
     "proj_attrs = [key_attr, join_attr]", "proj_attrs = [join_attr, key_attr]"),
    ('M06 output row: r before l', 'py_stringsimjoin/utils/generic_helper.py',
     "    output_row.append(l_row[l_key_attr_index])\n\n    # add rtable id attr\n    output_row.append(r_row[r_key_attr_index])\n",
     "    output_row.append(r_row[r_key_attr_index])\n\n    # add rtable id attr\n    output_row.append(l_row[l_key_attr_index])\n"),
    ('M07 output header: prefix on the wrong side', 'py_stringsimjoin/utils/generic_helper.py',
     "output_header.append(l_out_prefix + l_attr)", "output_header.append(l_attr + l_out_prefix)"),
    ('M08 find_output_attribute_indices: index of attr in output_attributes', 'py_stringsimjoin/utils/generic_helper.py',
     "original_columns.index(attr)", "output_attributes.index(attr)"),
    ('M09 order_using: drop the sort', 'py_stringsimjoin/utils/token_ordering.py',
     "    ordered_tokens.sort()\n", ""),
    ('M10 gen_token_ordering: drop `order_idx = 1`', 'py_stringsimjoin/utils/token_ordering.py',
     "            token_freq_dict[token] = token_freq_dict.get(token, 0) + 1\n            order_idx = 1\n",
     "            token_freq_dict[token] = token_freq_dict.get(token, 0) + 1\n"),
    ('M11 gen_token_ordering: `order_idx = 0`', 'py_stringsimjoin/utils/token_ordering.py',
     "            order_idx = 1\n", "            order_idx = 0\n"),
    ('M12 gen_token_ordering: swap the two sort keys', 'py_stringsimjoin/utils/token_ordering.py',
     "    ordered_tokens = sorted(list(token_freq_dict.items()), key=itemgetter(0))\n\n    token_ordering = {}\n    for token_freq_tuple in sorted(ordered_tokens, key=itemgetter(1)):\n        token_ordering[token_freq_tuple[0]] = order_idx",
     "    ordered_tokens = sorted(list(token_freq_dict.items()), key=itemgetter(1))\n\n    token_ordering = {}\n    for token_freq_tuple in sorted(ordered_tokens, key=itemgetter(0)):\n        token_ordering[token_freq_tuple[0]] = order_idx"),
    ('M13 gen_token_ordering: sorted(..., reverse=True)', 'py_stringsimjoin/utils/token_ordering.py',
     "            order_idx = 1\n\n    ordered_tokens = sorted(list(token_freq_dict.items()), key=itemgetter(0))\n\n    token_ordering = {}\n    for token_freq_tuple in sorted(ordered_tokens, key=itemgetter(1)):",
     "            order_idx = 1\n\n    ordered_tokens = sorted(list(token_freq_dict.items()), key=itemgetter(0))\n\n    token_ordering = {}\n    for token_freq_tuple in sorted(ordered_tokens, key=itemgetter(1), reverse=True):"),
    ('M14 overlap find_candidates: +2', 'py_stringsimjoin/filter/overlap_filter.py',
     "candidate_overlap[cand] = candidate_overlap.get(cand, 0) + 1", "candidate_overlap[cand] = candidate_overlap.get(cand, 0) + 2"),
    ('M15 InvertedIndex.probe without default', 'py_stringsimjoin/index/inverted_index.py',
     "return self.index.get(token, [])", "return self.index.get(token)"),
    ('M16 position: swap args of get_overlap_threshold', 'py_stringsimjoin/filter/position_filter.py',
     "overlap_threshold_cache[size] = get_overlap_threshold(\n                                                size, probe_num_tokens,",
     "overlap_threshold_cache[size] = get_overlap_threshold(\n                                                probe_num_tokens, size,"),
    ('M17 position: cache range off by one', 'py_stringsimjoin/filter/position_filter.py',
     "for size in xrange(size_lower_bound, size_upper_bound + 1):", "for size in xrange(size_lower_bound, size_upper_bound):"),
    ('M18 position: size guard loses its upper bound', 'py_stringsimjoin/filter/position_filter.py',
     "if size_lower_bound <= cand_num_tokens <= size_upper_bound:", "if size_lower_bound <= cand_num_tokens:"),
    ('M19 position: `!= -1` -> `== -1`', 'py_stringsimjoin/filter/position_filter.py',
     "                if current_overlap != -1:\n                    cand_num_tokens", "                if current_overlap == -1:\n                    cand_num_tokens"),
    ('M20 position: probe_pos advanced inside the inner loop', 'py_stringsimjoin/filter/position_filter.py',
     "                            candidate_overlap[cand] = -1\n\n            probe_pos += 1\n\n        return candidate_overlap",
     "                            candidate_overlap[cand] = -1\n\n                probe_pos += 1\n\n        return candidate_overlap"),
    ('M21 position: max -> min in the lower bound', 'py_stringsimjoin/filter/position_filter.py',
     "size_lower_bound = max(get_size_lower_bound(probe_num_tokens,", "size_lower_bound = min(get_size_lower_bound(probe_num_tokens,"),
    ('M22 position: cache key changed between guard and read', 'py_stringsimjoin/filter/position_filter.py',
     "                        if (current_overlap + overlap_upper_bound >=\n",
     "                        cand_num_tokens = cand_num_tokens + 1\n                        if (current_overlap + overlap_upper_bound >=\n"),
    ('M23 position: prefix slice dropped', 'py_stringsimjoin/filter/position_filter.py',
     "for token in probe_tokens[0:probe_prefix_length]:\n            for (cand, cand_pos) in position_index.probe(token):\n                current_overlap",
     "for token in probe_tokens:\n            for (cand, cand_pos) in position_index.probe(token):\n                current_overlap"),
    ('M24 PositionIndex.build: drop `pos += 1`', 'py_stringsimjoin/index/position_index.py',
     "                self.index.get(token).append((row_id, pos))\n                pos += 1\n",
     "                self.index.get(token).append((row_id, pos))\n"),
    ('M25 PositionIndex.build: posting (pos, row_id)', 'py_stringsimjoin/index/position_index.py',
     "self.index.get(token).append((row_id, pos))", "self.index.get(token).append((pos, row_id))"),
    ('M26 PositionIndex.build: min_length test compares with max_length', 'py_stringsimjoin/index/position_index.py',
     "if num_tokens < self.min_length:", "if num_tokens <= self.max_length:"),
    ('M27 PositionIndex.__init__: min_length = 0', 'py_stringsimjoin/index/position_index.py',
     "self.min_length = maxsize", "self.min_length = 0"),
    ('M28 PositionIndex.build: missing `is None` initialisation', 'py_stringsimjoin/index/position_index.py',
     "                if self.index.get(token) is None:\n                    self.index[token] = []\n", ""),
    ('M29 PositionIndex.build: rows tokenized without the ordering', 'py_stringsimjoin/index/position_index.py',
     "index_attr_tokens = order_using_token_ordering(\n                self.tokenizer.tokenize(index_string), self.token_ordering)",
     "index_attr_tokens = self.tokenizer.tokenize(index_string)"),
    ('M30 PositionIndex.build: `row_id += 1` moved before the empty-record test', 'py_stringsimjoin/index/position_index.py',
     "            if cache_empty_records and num_tokens == 0:\n                empty_records.append(row_id)\n\n            row_id += 1",
     "            row_id += 1\n            if cache_empty_records and num_tokens == 0:\n                empty_records.append(row_id)\n"),
    ('M31 PositionIndex.probe returns None for unknown tokens', 'py_stringsimjoin/index/position_index.py',
     "return self.index.get(token, [])", "return self.index.get(token)"),
]


def main():
    repo, lean = sys.argv[1], sys.argv[2]
    here = os.path.dirname(os.path.abspath(__file__))
    tr = os.path.join(here, 'py2lean2.py')
    gen = os.path.join(lean, 'SSJ', 'Gen', 'Loops.lean')
    orig = open(gen, encoding='utf-8').read()
    results = []
    try:
        for (name, rel, old, new) in MUTANTS:
            tmp = tempfile.mkdtemp(prefix='mut_')
            shutil.copytree(os.path.join(repo, 'py_stringsimjoin'), os.path.join(tmp, 'py_stringsimjoin'),
                            ignore=shutil.ignore_patterns('*.so', '*.pyc', '__pycache__', '*.c', '*.cpp'))
            p = os.path.join(tmp, rel)
            src = open(p, encoding='utf-8').read()
            if src.count(old) != 1:
                results.append((name, 'MUTATION DID NOT APPLY (%d matches)' % src.count(old)))
                shutil.rmtree(tmp)
                continue
            open(p, 'w', encoding='utf-8').write(src.replace(old, new))
            out = os.path.join(tmp, 'out')
            r = subprocess.run([sys.executable, tr, tmp, out], capture_output=True, text=True)
            if r.returncode == 3:
                results.append((name, 'REFUSED: ' + json.loads(r.stdout)['error']))
            elif r.returncode != 0:
                results.append((name, 'TRANSLATOR CRASH rc=%d %s' % (r.returncode, r.stderr[-300:])))
            else:
                text = open(os.path.join(out, 'Loops.lean'), encoding='utf-8').read()
                body = lambda t: t[t.index('import SSJ'):]
                if body(text) == body(orig):
                    results.append((name, 'UNDETECTED: generated Lean unchanged'))
                else:
                    open(gen, 'w', encoding='utf-8').write(text)
                    b = subprocess.run(['lake', 'build', 'SSJ.Proofs.GenLoops'], cwd=lean, capture_output=True, text=True)
                    if b.returncode == 0:
                        results.append((name, 'UNDETECTED: Lean changed but proofs still compile'))
                    else:
                        errs = [l for l in b.stdout.splitlines() if l.startswith('error:') and '.lean:' in l]
                        results.append((name, 'PROOF BREAKS: ' + (errs[0][:140] if errs else 'build failed')))
            shutil.rmtree(tmp)
    finally:
        open(gen, 'w', encoding='utf-8').write(orig)
        subprocess.run(['lake', 'build', 'SSJ.Proofs.GenLoops'], cwd=lean, capture_output=True, text=True)
    bad = 0
    for name, res in results:
        print('%-62s %s' % (name, res))
        if res.startswith(('UNDETECTED', 'MUTATION', 'TRANSLATOR')):
            bad += 1
    print('%d mutants, %d not detected' % (len(results), bad))
    sys.exit(1 if bad else 0)


if __name__ == '__main__':
    main()

#!/usr/bin/env python3
"""Self-test of the py2lean2 idiom table on ad-hoc functions (idioms that the nine library functions
do not all exercise: xrange loops, elif, tuple construction, `.get(k) is None`, min/max, chained
comparisons) and of the refusals.  usage: test_py2lean2.py <lean_project_dir>   (compiles the
positive cases with `lake env lean`)."""
import ast, os, subprocess, sys, tempfile
sys.path.insert(0, os.path.dirname(os.path.abspath(__file__)))
import py2lean2 as T
L, O, D, P = T.L, T.O, T.D, T.P

HEADER = "from operator import itemgetter\nfrom six.moves import xrange\nfrom math import floor\n"


def run(src, params, ret, locals_, **extra):
    mod = ast.parse(HEADER + src)
    f = [s for s in mod.body if isinstance(s, ast.FunctionDef)][0]
    spec = dict(lean=f.name, file='<test>', cls=None, py=f.name, model='-', params=params, ret=ret, locals=locals_)
    spec.update(extra)
    return T.Tr(spec, '<test>', mod, f).function()


POS = [
    ("""
def t_xrange(a, b):
    out = []
    for i in xrange(a, b):
        if i < 0:
            continue
        elif 3 <= i <= 5:
            out.append((i, i + 1))
        else:
            out.append((i, min(i, 7)))
    return out
""", [('a', 'Int'), ('b', 'Nat')], L(P('Int', 'Int')), {'out': L(P('Int', 'Int')), 'i': 'Int'}),
    ("""
def t_dict(keys):
    d = {}
    n = 0
    for k in keys:
        if d.get(k) is None:
            d[k] = n
            n += 1
    s = sorted(list(d.items()), key=itemgetter(1))
    return s[0:n]
""", [('keys', L('String'))], L(P('String', 'Nat')),
     {'d': D('String', 'Nat'), 'n': 'Nat', 'k': 'String', 's': L(P('String', 'Nat'))}),
]

# stage-3 idioms: recursion on fuel, tuple return / unpacking, true division + floor, sets, conditional expression
POS3 = [
    ("""
def t_rec(xs, lo, hi):
    if lo >= hi:
        return lo, 0
    mid = int(floor((lo + hi) / 2))
    (a, n) = t_rec(xs, mid + 1, hi)
    return a, n + (1 if xs[mid] > 2 else 0)
""", [('xs', L('Nat')), ('lo', 'Int'), ('hi', 'Int')], T.T('Int', 'Nat'), {'mid': 'Int', 'a': 'Int', 'n': 'Nat'},
     dict(fuel=dict(exhausted='(lo, 0)'),
          calls={'t_rec': dict(lean='t_rec', fuel='fuel', args=[L('Nat'), 'Int', 'Int'], ret=T.T('Int', 'Nat'))})),
    ("""
def t_set(xs, ys):
    seen = set()
    for x in xs:
        seen.add(x)
    seen.update(ys)
    both = set(xs).intersection(set(ys))
    return len(seen) - len(both)
""", [('xs', L('Nat')), ('ys', L('Nat'))], 'Int', {'seen': ('Set', 'Nat'), 'x': 'Nat', 'both': ('Set', 'Nat')}, {}),
]

# stage-4 idiom: a function that may raise (`Except PyErr`), KeyError of d[k]
POS4 = [
    ("""
def t_exc(d, ks):
    out = []
    for k in ks:
        v = d[k]
        out.append(v + 1)
    return out
""", [('d', D('String', 'Nat')), ('ks', L('String'))], L('Nat'), {'out': L('Nat'), 'k': 'String', 'v': 'Nat'},
     dict(raises=True)),
]

NEG = [
    ('d[k] in a function without an exception result', "def f(d, k):\n    return d[k]\n",
     [('d', D('String', 'Nat')), ('k', 'String')], 'Nat', {}),
    ('row stored and mutated afterwards', "def f(xs):\n    out = []\n    for x in xs:\n        r = [x]\n        out.append(r)\n        r.append(x)\n    return out\n",
     [('xs', L('Nat'))], L(L('Nat')), {'out': L(L('Nat')), 'x': 'Nat', 'r': L('Nat')}),
    ('list parameter rebound', "def f(xs):\n    xs = [1]\n    return xs\n", [('xs', L('Nat'))], L('Nat'), {}),
    ('true division where an int is expected', "def f(n):\n    return n / 2\n", [('n', 'Nat')], 'Nat', {}),
    ('recursion without a fuel entry', "def f(n):\n    return f(n)\n", [('n', 'Nat')], 'Nat', {}),
    ('negative list index constant', "def f(xs):\n    return xs[-1]\n", [('xs', L('Nat'))], 'Nat', {}),
    ('while', "def f(xs):\n    n = 0\n    while n < 3:\n        n += 1\n    return n\n", [('xs', L('Nat'))], 'Nat', {'n': 'Nat'}),
    ('break', "def f(xs):\n    n = 0\n    for x in xs:\n        break\n    return n\n", [('xs', L('Nat'))], 'Nat', {'n': 'Nat', 'x': 'Nat'}),
    ('alias', "def f(xs):\n    a = []\n    b = a\n    a.append(1)\n    return b\n", [('xs', L('Nat'))], L('Nat'), {'a': L('Nat'), 'b': L('Nat')}),
    ('append list to list (alias)', "def f(xs):\n    a = []\n    b = []\n    b.append(a)\n    a.append(1)\n    return b\n",
     [('xs', L('Nat'))], L(L('Nat')), {'a': L('Nat'), 'b': L(L('Nat'))}),
    ('mutate iterated list', "def f(xs):\n    a = [1]\n    for x in a:\n        a.append(x)\n    return a\n", [('xs', L('Nat'))], L('Nat'), {'a': L('Nat'), 'x': 'Nat'}),
    ('mutate parameter', "def f(xs):\n    xs.append(1)\n    return xs\n", [('xs', L('Nat'))], L('Nat'), {}),
    ('assign parameter', "def f(xs):\n    xs = []\n    return xs\n", [('xs', L('Nat'))], L('Nat'), {}),
    ('unknown variable', "def f(xs):\n    return ys\n", [('xs', L('Nat'))], L('Nat'), {}),
    ('type mismatch', "def f(xs):\n    a = []\n    a.append('s')\n    return a\n", [('xs', L('Nat'))], L('Nat'), {'a': L('Nat')}),
    ('loop variable used after the loop', "def f(xs):\n    n = 0\n    for x in xs:\n        n += 1\n    return x\n", [('xs', L('Nat'))], 'Nat', {'n': 'Nat', 'x': 'Nat'}),
    ('Option iterated without a None test', "def f(xs):\n    n = 0\n    for x in xs:\n        n += 1\n    return n\n", [('xs', O(L('Nat')))], 'Nat', {'n': 'Nat', 'x': 'Nat'}),
    ('int truthiness', "def f(n):\n    a = []\n    if n:\n        a.append(n)\n    return a\n", [('n', 'Nat')], L('Nat'), {'a': L('Nat')}),
    ('power', "def f(n):\n    return n ** 2\n", [('n', 'Nat')], 'Nat', {}),
    ('list comprehension', "def f(xs):\n    return [x for x in xs]\n", [('xs', L('Nat'))], L('Nat'), {'x': 'Nat'}),
    ('sorted without key', "def f(xs):\n    return sorted(xs)\n", [('xs', L('Nat'))], L('Nat'), {}),
    ('negative slice start', "def f(xs):\n    return xs[1:2]\n", [('xs', L('Nat'))], L('Nat'), {}),
    ('keyword argument', "def f(d):\n    return d.get('a', default=1)\n", [('d', D('String', 'Nat'))], 'Nat', {}),
    ('value carried between iterations', "def f(xs):\n    out = []\n    for x in xs:\n        if x < 3:\n            prev = x\n        else:\n            out.append(prev)\n    return out\n",
     [('xs', L('Nat'))], L('Nat'), {'out': L('Nat'), 'x': 'Nat', 'prev': 'Nat'}),
    ('narrowing of a reassigned local', "def f(d, ks):\n    o = d.get('a')\n    if o is None:\n        return 0\n    for k in ks:\n        o = d.get(k)\n    return o\n",
     [('d', D('String', 'Nat')), ('ks', L('String'))], 'Nat', {'o': O('Nat'), 'k': 'String'}),
    ('mutation of a loop variable (aliases the element)', "def f(xss):\n    n = 0\n    for xs in xss:\n        xs.append(1)\n    return n\n",
     [('xss', L(L('Nat')))], 'Nat', {'n': 'Nat', 'xs': L('Nat')}),
    ('read before assignment', "def f(xs):\n    for x in xs:\n        n += x\n        n = 1\n    return n\n", [('xs', L('Nat'))], 'Nat', {'n': 'Nat', 'x': 'Nat'}),
]


def main():
    lean = sys.argv[1]
    ok = True
    text = 'import SSJ.Model.Filters\nnamespace SSJ.Gen2Test\nopen SSJ\n'
    for src, params, ret, locs in POS:
        text += run(src, params, ret, locs) + '\n'
    for src, params, ret, locs, extra in POS3:
        text += run(src, params, ret, locs, **extra) + '\n'
    # expected values computed by running the Python functions themselves
    env = {'xrange': range}
    exec('from operator import itemgetter\n' + POS[0][0] + POS[1][0], env)
    def lit(v):
        if isinstance(v, list):
            return '[' + ', '.join(lit(x) for x in v) + ']'
        if isinstance(v, tuple):
            return '(' + ', '.join(lit(x) for x in v) + ')'
        if isinstance(v, str):
            return '"%s"' % v
        return str(v)
    text += '#guard t_xrange (-2) 7 = %s\n' % lit(env['t_xrange'](-2, 7))
    text += '#guard t_xrange 4 2 = ([] : List (Int × Int))\n'
    assert env['t_xrange'](4, 2) == []
    text += '#guard t_dict ["b", "a", "b", "c"] = %s\n' % lit(env['t_dict'](['b', 'a', 'b', 'c']))
    for src, params, ret, locs, extra in POS4:
        text += run(src, params, ret, locs, **extra) + '\n'
    text += '#guard (match t_exc [("a", 1), ("b", 5)] ["b", "a"] with | .ok v => v == [6, 2] | .error _ => false)\n'
    text += '#guard (match t_exc [("a", 1)] ["a", "zz"] with | .ok _ => false | .error e => e == PyErr.other)\n'
    env3 = {'floor': __import__('math').floor}
    exec(POS3[0][0] + POS3[1][0], env3)
    text += '#guard t_rec 10 [1, 5, 0, 7, 3] 0 4 = %s\n' % lit(env3['t_rec']([1, 5, 0, 7, 3], 0, 4))
    text += '#guard t_set [1, 2, 2, 3] [3, 4] = %s\n' % lit(env3['t_set']([1, 2, 2, 3], [3, 4]))
    text += 'end SSJ.Gen2Test\n'
    with tempfile.NamedTemporaryFile('w', suffix='.lean', delete=False) as fh:
        fh.write(text)
    r = subprocess.run(['lake', 'env', 'lean', fh.name], cwd=lean, capture_output=True, text=True)
    print(text)
    print('positive cases compile and evaluate:', r.returncode == 0, r.stdout[-2000:], r.stderr[-500:])
    ok &= r.returncode == 0
    os.unlink(fh.name)
    try:
        out = run("def f(d, k):\n    out = []\n    if k == 'x' or d[k] > 0:\n        out.append(1)\n    return out\n",
                  [('d', D('String', 'Nat')), ('k', 'String')], L('Nat'), {'out': L('Nat')}, raises=True)
        print('NOT REFUSED: raising expression under `or`\n%s' % out)
        ok = False
    except T.Untranslatable as e:
        print('refused  %-40s %s' % ('raising expression under `or`', e))
    for name, src, params, ret, locs in NEG:
        try:
            out = run(src, params, ret, locs)
            print('NOT REFUSED: %s\n%s' % (name, out))
            ok = False
        except T.Untranslatable as e:
            print('refused  %-40s %s' % (name, e))
    sys.exit(0 if ok else 1)


if __name__ == '__main__':
    main()

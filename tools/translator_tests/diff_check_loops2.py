#!/venv/bin/python
"""Differential sample check of the STAGE-3 generated Lean (SSJ/Gen/Loops2.lean) against the Python functions
themselves: random inputs are run through the real Python code, the results are written as `#guard` lines against
`SSJ.Gen2.*`, and the file is compiled with `lake env lean`.  (Equality with the hand model is PROVED in
SSJ/Proofs/GenLoops2.lean; this check exercises the idiom table: NumTok ordering, Rat for true division,
truncRat for int(), sets as duplicate-free lists, the object/row-view tables …)

usage: diff_check_loops2.py <repo_root> <lean_project_dir> [seed] [cases]
"""
import math, os, random, subprocess, sys, tempfile, warnings
from fractions import Fraction
warnings.simplefilter('ignore')


def lit(v):
    if v is None:
        return 'none'
    if isinstance(v, bool):
        return 'true' if v else 'false'
    if isinstance(v, (list, set)):
        return '[' + ', '.join(lit(x) for x in v) + ']'
    if isinstance(v, tuple):
        return '(' + ', '.join(lit(x) for x in v) + ')'
    if isinstance(v, dict):
        return '[' + ', '.join('(%s, %s)' % (lit(k), lit(x)) for k, x in v.items()) + ']'
    if isinstance(v, str):
        return '"%s"' % v
    if isinstance(v, int):
        return str(v) if v >= 0 else '(%d)' % v
    raise AssertionError(repr(v))


def opt(v):
    return 'none' if v is None else '(some %s)' % lit(v)


def cell(v):
    if v is None or (isinstance(v, float) and math.isnan(v)):
        return 'Cell.missing'
    if isinstance(v, str):
        return 'Cell.str %s' % lit(v)
    if isinstance(v, float):
        fr = Fraction(v)
        return 'Cell.flt ((%d : Rat) / %d)' % (fr.numerator, fr.denominator)
    return 'Cell.int %s' % lit(int(v))


def row(r):
    return '[' + ', '.join(cell(x) for x in r) + ']'


def rows(rs):
    return '[' + ', '.join(row(r) for r in rs) + ']'


def pyv(t):
    if isinstance(t, int):
        return '(PyV.int %d)' % t
    fr = Fraction(t)
    return '(PyV.float ((%d : Rat) / %d))' % (fr.numerator, fr.denominator)


MEAS = {'JACCARD': 'jaccard', 'COSINE': 'cosine', 'DICE': 'dice', 'OVERLAP': 'overlap', 'EDIT_DISTANCE': 'editDistance'}


def fobj(meas, thr, allow_empty=True, allow_missing=False, qval=None):
    q = '' if qval is None else ', qval := PyV.int %d' % qval
    return '{ cfg := { measure := .%s, threshold := %s%s }, allowEmpty := %s, allowMissing := %s }' % (
        MEAS[meas], pyv(thr), q, lit(allow_empty), lit(allow_missing))


def cfg(meas, thr, qval=None):
    q = '' if qval is None else ', qval := PyV.int %d' % qval
    return '{ measure := .%s, threshold := %s%s }' % (MEAS[meas], pyv(thr), q)


def frame_out(df):
    return '(%s, %s)' % (lit(list(df.columns)), rows(df.astype(object).values.tolist()))


def frame_perm(call, df):
    """rows compared as a multiset: the Python code iterates over a `set` of candidates, whose iteration order
    is not the insertion order the Lean model of sets uses (NOTES.md)"""
    return '#guard (let r := %s; r.1 == %s && r.2.isPerm %s)' % (
        call, lit(list(df.columns)), rows(df.astype(object).values.tolist()))


def main():
    repo, lean = sys.argv[1], sys.argv[2]
    seed = int(sys.argv[3]) if len(sys.argv) > 3 else 1
    cases = int(sys.argv[4]) if len(sys.argv) > 4 else 12
    sys.path.insert(0, repo)
    import pandas as pd
    import py_stringsimjoin
    from py_stringsimjoin.utils import generic_helper as gh, token_ordering as to, missing_value_handler as mvh
    from py_stringsimjoin.filter import suffix_filter as sfm, size_filter as szm, prefix_filter as prm, \
        position_filter as pfm, overlap_filter as ofm
    from py_stringsimjoin.index.size_index import SizeIndex
    from py_stringsimjoin.index.prefix_index import PrefixIndex
    from py_stringsimjoin.index.inverted_index import InvertedIndex
    from py_stringsimjoin.join.set_sim_join import set_sim_join
    from py_stringsimjoin.join.overlap_coefficient_join_py import _overlap_coefficient_join_split
    from py_stringsimjoin.join.edit_distance_join_py import _edit_distance_join_split
    from py_stringmatching.tokenizer.delimiter_tokenizer import DelimiterTokenizer
    from py_stringmatching.tokenizer.qgram_tokenizer import QgramTokenizer
    rnd = random.Random(seed)
    words = ['aa', 'b', 'c', 'dd', 'e', 'B', 'ab', 'f', 'g']
    tok = DelimiterTokenizer(delim_set=[' '], return_set=False)
    g = []

    def sentence(lo=0, hi=5):
        return ' '.join(rnd.sample(words, rnd.randint(lo, hi)))

    def table(n, missing=False):
        t = []
        for i in range(n):
            s = sentence()
            if missing and rnd.random() < 0.25:
                s = None
            t.append((i + 10, s, rnd.choice(['x', 'y', 'z'])))
        return t

    def setm():
        m = rnd.choice(['JACCARD', 'COSINE', 'DICE', 'OVERLAP'])
        return m, (rnd.choice([1, 2, 3]) if m == 'OVERLAP' else rnd.choice([0.3, 0.5, 0.8, 1.0, 0.65]))

    cols = ['id', 'attr', 'extra']
    for _ in range(cases):
        # ---- A: suffix filter helpers -------------------------------------------------------------------
        srt = sorted(rnd.choice(range(1, 9)) for _ in range(rnd.randint(0, 7)))
        g.append('#guard (Gen2.number_repeated_tokens %s).map (fun p => (p.tok, p.occ)) = %s' % (
            lit(srt), lit(sfm._number_repeated_tokens(srt))))
        m, thr = setm()
        sf = sfm.SuffixFilter(tok, m, thr)
        toks = sorted(rnd.sample(range(1, 20), rnd.randint(1, 8)))
        probe = rnd.randint(0, 21)
        left = rnd.randint(0, len(toks) - 1)
        right = rnd.randint(left, len(toks) + 1)
        try:
            res = sf._partition(toks, probe, left, right)
            g.append('#guard Gen2.SuffixFilter_partition %s %d %d %d = (%s, %s, %d, %d)' % (
                lit(toks), probe, left, right, lit(res[0]), lit(res[1]), res[2], res[3]))
        except IndexError:
            pass
        r2 = min(right, len(toks) - 1)
        if left <= r2:
            g.append('#guard Gen2.SuffixFilter_binary_search %d %s %d %d %d = %d' % (
                r2 - left + 2, lit(toks), probe, left, r2, sf._binary_search(toks, probe, left, r2)))
        l2 = sorted(rnd.sample(range(1, 14), rnd.randint(0, 8)))
        r3 = sorted(rnd.sample(range(1, 14), rnd.randint(0, 8)))
        hmax = rnd.randint(0, 8)
        g.append('#guard Gen2.SuffixFilter_est_hamming_dist_lower_bound 4 (%s : List Nat) %s %d %d %d 1 = %d' % (
            lit(l2), lit(r3), len(l2), len(r3), hmax,
            sf._est_hamming_dist_lower_bound(l2, r3, len(l2), len(r3), hmax, 1)))
        lp, rp = rnd.randint(0, 3), rnd.randint(0, 3)
        ln, rn = len(l2) + lp, len(r3) + rp
        g.append('#guard Gen2.SuffixFilter_filter_suffix %s %s %s %d %d %d %d = %s' % (
            fobj(m, thr), lit(l2), lit(r3), lp, rp, ln, rn, lit(sf._filter_suffix(l2, r3, lp, rp, ln, rn))))
        # edit distance: bags with repeated tokens
        q = QgramTokenizer(qval=2)
        sfe = sfm.SuffixFilter(q, 'EDIT_DISTANCE', rnd.choice([1, 2, 3]))
        l4 = sorted(rnd.choice(range(1, 6)) for _ in range(rnd.randint(0, 7)))
        r4 = sorted(rnd.choice(range(1, 6)) for _ in range(rnd.randint(0, 7)))
        ln, rn = len(l4) + lp, len(r4) + rp
        g.append('#guard Gen2.SuffixFilter_filter_suffix %s %s %s %d %d %d %d = %s' % (
            fobj('EDIT_DISTANCE', sfe.threshold, qval=2), lit(l4), lit(r4), lp, rp, ln, rn,
            lit(sfe._filter_suffix(l4, r4, lp, rp, ln, rn))))
        # ---- B: filter_pair ------------------------------------------------------------------------------
        a, b = sentence(), sentence()
        if rnd.random() < 0.15:
            a = None
        ae, am = rnd.random() < 0.5, rnd.random() < 0.5
        for name, mod, cls in (('SizeFilter', szm, 'SizeFilter'), ('PrefixFilter', prm, 'PrefixFilter'),
                               ('PositionFilter', pfm, 'PositionFilter'), ('SuffixFilter', sfm, 'SuffixFilter')):
            f = getattr(mod, cls)(tok, m, thr, ae, am)
            g.append('#guard Gen2.%s_filter_pair %s wsTok (%s) (%s) = %s' % (
                name, fobj(m, thr, ae, am), cell(a), cell(b), lit(bool(f.filter_pair(a, b)))))
        osz, cop = rnd.choice([1, 2, 3]), rnd.choice(['>=', '>', '='])
        of = ofm.OverlapFilter(tok, osz, cop, am)
        g.append('#guard Gen2.OverlapFilter_filter_pair { overlapSize := PyV.int %d, compOp := %s, allowMissing := %s } '
                 'wsTok (%s) (%s) = %s' % (osz, lit(cop), lit(am), cell(a), cell(b), lit(bool(of.filter_pair(a, b)))))
        # ---- C: indexes, find_candidates, token ordering --------------------------------------------------
        lt, rt = table(rnd.randint(0, 6)), table(rnd.randint(0, 5))
        ordering = to.gen_token_ordering_for_tables([lt, rt], [1, 1], tok, m)
        g.append('#guard Gen2.gen_token_ordering_for_tables [%s, %s] [1, 1] wsTok = %s' % (rows(lt), rows(rt), lit(ordering)))
        ce = rnd.random() < 0.6
        si = SizeIndex(lt, 1, tok)
        sret = si.build(ce)
        sizes = [len(tok.tokenize(r[1])) for r in lt]
        g.append('#guard (let r := Gen2.SizeIndex_build %s %s; r.index == %s && r.minLength == %d && r.maxLength == %d '
                 '&& r.emptyRecords == %s)' % (lit(sizes), lit(ce), lit(si.index), si.min_length, si.max_length,
                                               lit(sret['empty_records'])))
        probe_n = rnd.randint(0, 6)
        szf = szm.SizeFilter(tok, m, thr)
        g.append('#guard (Gen2.SizeFilter_find_candidates %s %d { index := %s, minLength := %d, maxLength := %d, '
                 'emptyRecords := [] }).mergeSort = %s' % (fobj(m, thr), probe_n, lit(si.index), si.min_length,
                                                           si.max_length, lit(sorted(szf.find_candidates(probe_n, si)))))
        pi = PrefixIndex(lt, 1, tok, m, thr, ordering)
        pret = pi.build(ce)
        orows = [to.order_using_token_ordering(tok.tokenize(r[1]), ordering) for r in lt]
        g.append('#guard (let r := Gen2.PrefixIndex_build %s %s %s; r.index == %s && r.emptyRecords == %s)' % (
            cfg(m, thr), lit(orows), lit(ce), lit(pi.index), lit(pret['empty_records'])))
        ptoks = to.order_using_token_ordering(tok.tokenize(sentence()), ordering)
        prf = prm.PrefixFilter(tok, m, thr)
        g.append('#guard (Gen2.PrefixFilter_find_candidates %s %s { index := %s, emptyRecords := [] }).mergeSort = %s' % (
            fobj(m, thr), lit(ptoks), lit(pi.index), lit(sorted(prf.find_candidates(ptoks, pi)))))
        cs = rnd.random() < 0.5
        ii = InvertedIndex(lt, 1, tok, cs)
        iret = ii.build(ce)
        g.append('#guard (let r := Gen2.InvertedIndex_build %s %s %s; r.index == %s && r.sizeCache == %s && '
                 'r.emptyRecords == %s)' % (lit([tok.tokenize(r[1]) for r in lt]), lit(cs), lit(ce), lit(ii.index),
                                            lit(ii.size_cache), lit(iret['empty_records'])))
        # ---- D: workers -----------------------------------------------------------------------------------
        lo = rnd.choice([None, ['extra'], ['attr', 'extra']])
        ro = rnd.choice([None, ['extra'], []])
        oss = rnd.random() < 0.5
        allow_empty = rnd.random() < 0.5
        if m != 'OVERLAP':
            cop2 = rnd.choice(['>=', '>'])
            df = set_sim_join(lt, rt, cols, cols, 'id', 'id', 'attr', 'attr', tok, m, thr, cop2, allow_empty,
                              lo, ro, 'l_', 'r_', oss, False)
            g.append('#guard Gen2.set_sim_join %s %s %s %s "id" "id" "attr" "attr" wsTok %s %s %s %s %s "l_" "r_" %s = %s' % (
                rows(lt), rows(rt), lit(cols), lit(cols), cfg(m, thr), lit(cop2), lit(allow_empty), opt(lo), opt(ro),
                lit(oss), frame_out(df)))
        othr = rnd.choice([0.3, 0.5, 1.0])
        df = _overlap_coefficient_join_split(lt, rt, cols, cols, 'id', 'id', 'attr', 'attr', tok, othr, '>=',
                                             allow_empty, lo, ro, 'l_', 'r_', oss, False)
        g.append('#guard Gen2.overlap_coefficient_join_split %s %s %s %s "id" "id" "attr" "attr" wsTok %s ">=" %s %s %s '
                 '"l_" "r_" %s = %s' % (rows(lt), rows(rt), lit(cols), lit(cols), pyv(othr), lit(allow_empty), opt(lo),
                                        opt(ro), lit(oss), frame_out(df)))
        ethr = rnd.choice([1, 2, 3])
        ltq = [(i, ''.join(rnd.choice('abc') for _ in range(rnd.randint(0, 6))), 'x') for i in range(rnd.randint(0, 5))]
        rtq = [(i, ''.join(rnd.choice('abc') for _ in range(rnd.randint(0, 6))), 'y') for i in range(rnd.randint(0, 4))]
        df = _edit_distance_join_split(ltq, rtq, cols, cols, 'id', 'id', 'attr', 'attr', q, ethr, '<=',
                                       lo, ro, 'l_', 'r_', oss, False)
        if oss:
            # py_stringmatching's Levenshtein returns the float 0.0 for equal strings; the model's `lev` is a Nat
            df['_sim_score'] = [int(x) for x in df['_sim_score']]
        g.append(frame_perm('Gen2.edit_distance_join_split %s %s %s %s "id" "id" "attr" "attr" (qgrams 2 true) 2 %d "<=" %s %s '
                            '"l_" "r_" %s' % (rows(ltq), rows(rtq), lit(cols), lit(cols), ethr, opt(lo), opt(ro), lit(oss)), df))
        for name, mod, cls in (('SizeFilter', szm, 'SizeFilter'), ('PrefixFilter', prm, 'PrefixFilter'),
                               ('PositionFilter', pfm, 'PositionFilter'), ('SuffixFilter', sfm, 'SuffixFilter')):
            f = getattr(mod, cls)(tok, m, thr, ae, am)
            df = mod._filter_tables_split(lt, rt, cols, cols, 'id', 'id', 'attr', 'attr', f, lo, ro, 'l_', 'r_', False)
            g.append(frame_perm('Gen2.%s_filter_tables_split %s %s %s %s "id" "id" "attr" "attr" %s wsTok %s %s "l_" "r_"' % (
                name, rows(lt), rows(rt), lit(cols), lit(cols), fobj(m, thr, ae, am), opt(lo), opt(ro)), df))
        df = ofm._filter_tables_split(lt, rt, cols, cols, 'id', 'id', 'attr', 'attr', of, lo, ro, 'l_', 'r_', oss, False)
        g.append('#guard Gen2.OverlapFilter_filter_tables_split %s %s %s %s "id" "id" "attr" "attr" '
                 '{ overlapSize := PyV.int %d, compOp := %s, allowMissing := %s } wsTok %s %s "l_" "r_" %s = %s' % (
                     rows(lt), rows(rt), lit(cols), lit(cols), osz, lit(cop), lit(am), opt(lo), opt(ro), lit(oss),
                     frame_out(df)))
        # ---- E --------------------------------------------------------------------------------------------
        ltm, rtm = table(rnd.randint(1, 5), True), table(rnd.randint(1, 4), True)
        ldf = pd.DataFrame(ltm, columns=cols).astype(object)
        rdf = pd.DataFrame(rtm, columns=cols).astype(object)
        d = gh.build_dict_from_table(ldf, 0, 1, remove_null=rnd.random() < 0.5)
        rn_flag = len(d) != len(ltm)
        # recompute with a known flag
        flag = rnd.random() < 0.5
        d = gh.build_dict_from_table(ldf, 0, 1, remove_null=flag)
        g.append('#guard Gen2.build_dict_from_table %s 0 1 %s = [%s]' % (
            rows(ltm), lit(flag), ', '.join('(%s, %s)' % (cell(k), row(v)) for k, v in d.items())))
        df = mvh.get_pairs_with_missing_value(ldf, rdf, 'id', 'id', 'attr', 'attr', lo, ro, 'l_', 'r_', oss, False)
        lmiss = [r for r in ltm if r[1] is None]
        lnot = [r for r in ltm if r[1] is not None]
        rmiss = [r for r in rtm if r[1] is None]
        g.append('#guard Gen2.get_pairs_with_missing_value %s %s %s %s %s %s "id" "id" "attr" "attr" %s %s "l_" "r_" %s = %s' % (
            lit(cols), lit(cols), rows(lmiss), rows(lnot), rows(rmiss), rows(rtm), opt(lo), opt(ro), lit(oss),
            frame_out(df)))
    header = ('import SSJ.Gen.Loops2\nopen SSJ\n'
              'def wsTok (s : String) : List String := (s.splitOn " ").filter (fun t => t != "")\n')
    text = header + '\n'.join(g) + '\n'
    with tempfile.NamedTemporaryFile('w', suffix='.lean', delete=False) as fh:
        fh.write(text)
    r = subprocess.run(['lake', 'env', 'lean', fh.name], cwd=lean, capture_output=True, text=True)
    if r.returncode != 0:
        lines = text.splitlines()
        shown = 0
        for l in r.stdout.splitlines():
            if 'error' in l and shown < 12:
                shown += 1
                print(l[:300])
                try:
                    n = int(l.split(':')[1])
                    print('   ', lines[n - 1][:700])
                except Exception:
                    pass
        print('FAILED (%d guards) — file kept at %s' % (len(g), fh.name))
        sys.exit(1)
    os.unlink(fh.name)
    print('ok: %d #guard checks of the stage-3 Gen2.* functions against the Python functions (seed %d)' % (len(g), seed))


if __name__ == '__main__':
    main()

#!/venv/bin/python
"""Differential sample check of the STAGE-4 generated Lean (SSJ/Gen/Loops3.lean: functions that may raise) against
the Python functions themselves: random inputs are run through the real Python code, results (or the fact that an
exception was raised, and its class) are written as `#guard` lines against `SSJ.Gen2.*` and compiled.

usage: diff_check_loops3.py <repo_root> <lean_project_dir> [seed] [cases]
"""
import math, os, random, subprocess, sys, tempfile, warnings
from fractions import Fraction
warnings.simplefilter('ignore')
sys.path.insert(0, os.path.dirname(os.path.abspath(__file__)))
from diff_check_loops2 import lit, opt, cell, row, rows, pyv, fobj, MEAS

ERR = {KeyError: 'PyErr.other', TypeError: 'PyErr.typeErr', AssertionError: 'PyErr.assertion',
       ZeroDivisionError: 'PyErr.zeroDiv'}
SELECT = '(fun rows mask => (rows.zip mask).filterMap (fun q => if q.2 then some q.1 else none))'


def expect(call, thunk, show):
    """#guard for a call that may raise"""
    try:
        v = thunk()
    except tuple(ERR) as e:
        return '#guard (match %s with | .error e => e == %s | .ok _ => false)' % (call, ERR[type(e)])
    return '#guard (match %s with | .ok v => v == %s | .error _ => false)' % (call, show(v))


def main():
    repo, lean = sys.argv[1], sys.argv[2]
    seed = int(sys.argv[3]) if len(sys.argv) > 3 else 1
    cases = int(sys.argv[4]) if len(sys.argv) > 4 else 12
    sys.path.insert(0, repo)
    import pandas as pd
    import py_stringsimjoin
    from py_stringsimjoin.filter.filter import _filter_candset_split
    from py_stringsimjoin.filter.size_filter import SizeFilter
    from py_stringsimjoin.matcher.apply_matcher import _apply_matcher_split, generate_tokens
    from py_stringsimjoin.profiler.profiler import profile_table_for_join, _format_statistic
    from py_stringmatching.tokenizer.delimiter_tokenizer import DelimiterTokenizer
    from py_stringmatching.similarity_measure.jaccard import Jaccard
    rnd = random.Random(seed)
    words = ['aa', 'b', 'c', 'dd', 'e', 'B', 'ab', 'f', 'g']
    tok = DelimiterTokenizer(delim_set=[' '], return_set=False)
    jac = Jaccard().get_raw_score
    g = []
    cols = ['id', 'attr', 'extra']
    ccols = ['_id', 'l_id', 'r_id']

    def sentence():
        return ' '.join(rnd.sample(words, rnd.randint(0, 5)))

    def table(n, base, missing=True, nonstr=False):
        t = []
        for i in range(n):
            s = sentence()
            if missing and rnd.random() < 0.2:
                s = None
            if nonstr and rnd.random() < 0.15:
                s = 7
            t.append((base + i, s, rnd.choice(['x', 'y'])))
        return t

    def frame_out(df, int_scores=False):
        vals = df.astype(object).values.tolist()
        if int_scores and '_sim_score' in df.columns:
            # pandas turns a score column holding ints and NaN into floats when it builds the DataFrame (outside
            # the translated part): undo that for the comparison
            j = list(df.columns).index('_sim_score')
            for r in vals:
                if isinstance(r[j], float) and not math.isnan(r[j]):
                    r[j] = int(r[j])
        return '(%s, %s)' % (lit(list(df.columns)), rows(vals))

    for _ in range(cases):
        nonstr = rnd.random() < 0.25
        lt, rt = table(rnd.randint(1, 5), 10, nonstr=nonstr), table(rnd.randint(1, 5), 20, nonstr=nonstr)
        ldf = pd.DataFrame(lt, columns=cols).astype(object)
        rdf = pd.DataFrame(rt, columns=cols).astype(object)
        cand = [(i, rnd.choice(lt)[0], rnd.choice(rt)[0]) for i in range(rnd.randint(1, 6))]
        if rnd.random() < 0.15:
            cand.append((99, 999, rt[0][0]))         # unknown key: KeyError
        cdf = pd.DataFrame(cand, columns=ccols).astype(object)
        # ---- _filter_candset_split --------------------------------------------------------------------------
        m, thr = rnd.choice([('JACCARD', 0.5), ('COSINE', 0.8), ('DICE', 0.3)])
        sf = SizeFilter(tok, m, thr, allow_missing=rnd.random() < 0.5)
        fo = fobj(m, thr, True, sf.allow_missing)
        fp = ('(fun l r => if !(l.isMissing || r.isMissing) && !(l.isStr && r.isStr) then Except.error PyErr.typeErr '
              'else Except.ok (Gen2.SizeFilter_filter_pair %s wsTok l r))' % fo)
        call = ('Gen2.filter_candset_split %s %s %s %s %s %s "l_id" "r_id" "id" "id" "attr" "attr" %s %s' % (
            lit(ccols), lit(cols), lit(cols), rows(cand), rows(lt), rows(rt), fp, SELECT))
        g.append(expect(call, lambda: _filter_candset_split(cdf, 'l_id', 'r_id', ldf, rdf, 'id', 'id', 'attr', 'attr',
                                                           sf, False),
                        lambda df: rows(df.astype(object).values.tolist())))
        # ---- generate_tokens / _apply_matcher_split -------------------------------------------------------------
        def gen(df):
            nn = df[pd.notnull(df['attr'])]
            return nn
        for tbl, df in ((lt, ldf), (rt, rdf)):
            nn = [r for r in tbl if r[1] is not None]
            call = 'Gen2.generate_tokens [%s] [%s] wsTok' % (', '.join(cell(r[0]) for r in nn),
                                                             ', '.join(cell(r[1]) for r in nn))
            g.append(expect(call, lambda: generate_tokens(df, 'id', 'attr', tok),
                            lambda d: '[' + ', '.join('(%s, %s)' % (cell(k), lit(v)) for k, v in d.items()) + ']'))
        use_tok = rnd.random() < 0.8
        use_cache = use_tok and rnd.random() < 0.5 and not nonstr
        lo = rnd.choice([None, ['extra'], ['attr', 'extra']])
        ro = rnd.choice([None, ['extra']])
        am, oss = rnd.random() < 0.5, rnd.random() < 0.5
        cop = rnd.choice(['>=', '>', '<='])
        mthr = rnd.choice([0.2, 0.5, 1.0]) if use_tok else rnd.choice([3, 8, 12])
        if use_tok:
            simf = jac
            siml = ('(fun a b => match a, b with | SimArg.toks l, SimArg.toks r => simRaw Measure.jaccard l r '
                    '| _, _ => PyV.none)')
        else:
            simf = lambda a, b: len(a) + len(b)
            siml = ('(fun a b => match a, b with | SimArg.raw l, SimArg.raw r => '
                    'PyV.int (Int.ofNat (l.strVal.length + r.strVal.length)) | _, _ => PyV.none)')
        ltk = generate_tokens(ldf, 'id', 'attr', tok) if use_cache else None
        rtk = generate_tokens(rdf, 'id', 'attr', tok) if use_cache else None
        dl = lambda d: 'none' if d is None else '(some [' + ', '.join('(%s, %s)' % (cell(k), lit(v)) for k, v in d.items()) + '])'
        call = ('Gen2.apply_matcher_split %s %s %s %s %s %s "l_id" "r_id" "id" "id" "attr" "attr" %s %s %s %s %s %s %s '
                '"l_" "r_" %s %s %s' % (lit(ccols), lit(cols), lit(cols), rows(cand), rows(lt), rows(rt),
                                       '(some wsTok)' if use_tok else 'none', siml, pyv(mthr), lit(cop), lit(am),
                                       opt(lo), opt(ro), lit(oss), dl(ltk), dl(rtk)))
        if nonstr and not use_tok:
            pass        # len(7) raises TypeError inside the user's function: not modelled
        else:
            g.append(expect(call, lambda: _apply_matcher_split(cdf, 'l_id', 'r_id', ldf, rdf, 'id', 'id', 'attr', 'attr',
                                                               tok if use_tok else None, simf, mthr, cop, am, lo, ro,
                                                               'l_', 'r_', oss, False, ltk, rtk),
                            lambda df: frame_out(df, int_scores=not use_tok)))
        # ---- profiler ----------------------------------------------------------------------------------------------
        n = rnd.randint(0, 7)
        ptab = [(rnd.choice([1, 2, 3, None]), rnd.choice(['a', 'b', None, 'c']), i) for i in range(n)]
        pdf = pd.DataFrame(ptab, columns=['p', 'q', 'k']).astype(object)
        attrs = rnd.choice([None, ['q'], ['k', 'p'], ['zz'], []])
        def mc(c):
            return sum(1 for r in ptab if r[c] is None)
        def nu(c):
            return len(set(r[c] for r in ptab if r[c] is not None))
        fn = lambda f: '(fun a => if a == "p" then %d else if a == "q" then %d else %d)' % (f(0), f(1), f(2))
        call = 'Gen2.profile_table_for_join ["p", "q", "k"] %d %s %s %s' % (n, fn(mc), fn(nu), opt(attrs))
        def prof():
            df = profile_table_for_join(pdf, attrs)
            return [tuple([idx] + list(r)) for idx, r in zip(df.index, df.values.tolist())]
        g.append(expect(call, prof, lit))
        st, pc = rnd.randint(0, 40), round(rnd.random() * 100, 2)
        fr = Fraction(pc)
        g.append('#guard Gen2.format_statistic %d (PyV.float ((%d : Rat) / %d)) = %s' % (
            st, fr.numerator, fr.denominator, lit(_format_statistic(st, pc))))
    header = ('import SSJ.Gen.Loops3\nopen SSJ\n'
              'def wsTok (s : String) : List String := (s.splitOn " ").filter (fun t => t != "")\n')
    text = header + '\n'.join(g) + '\n'
    with tempfile.NamedTemporaryFile('w', suffix='.lean', delete=False) as fh:
        fh.write(text)
    r = subprocess.run(['lake', 'env', 'lean', fh.name], cwd=lean, capture_output=True, text=True)
    if r.returncode != 0:
        lines = text.splitlines()
        shown = 0
        for l in r.stdout.splitlines():
            if 'error' in l and shown < 10:
                shown += 1
                print(l[:300])
                try:
                    print('   ', lines[int(l.split(':')[1]) - 1][:900])
                except Exception:
                    pass
        print('FAILED (%d guards) — file kept at %s' % (len(g), fh.name))
        sys.exit(1)
    os.unlink(fh.name)
    nerr = sum(1 for x in g if '.error e => e ==' in x)
    print('ok: %d #guard checks of the stage-4 Gen2.* functions against the Python functions (seed %d; %d of them '
          'expect an exception)' % (len(g), seed, nerr))


if __name__ == '__main__':
    main()

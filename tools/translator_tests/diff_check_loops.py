#!/venv/bin/python
"""Differential sample check of the stage-2 generated Lean against the Python functions themselves:
random inputs are run through the real Python code, the results are written as `#guard` lines
against `SSJ.Gen2.*`, and the file is compiled with `lake env lean`.  (The equality with the hand
model is PROVED in SSJ/Proofs/GenLoops.lean; this check exercises the idiom table itself.)

usage: diff_check_loops.py <repo_root> <lean_project_dir> [seed] [cases]
"""
import os, random, subprocess, sys, tempfile, warnings
from fractions import Fraction
warnings.simplefilter('ignore')


def lit(v):
    if v is None:
        return 'none'
    if isinstance(v, bool):
        return 'true' if v else 'false'
    if isinstance(v, list):
        return '[' + ', '.join(lit(x) for x in v) + ']'
    if isinstance(v, tuple):
        return '(' + ', '.join(lit(x) for x in v) + ')'
    if isinstance(v, dict):
        return '[' + ', '.join('(%s, %s)' % (lit(k), lit(x)) for k, x in v.items()) + ']'
    if isinstance(v, str):
        return '"%s"' % v
    if isinstance(v, int):
        return str(v) if v >= 0 else '(%d)' % v
    raise AssertionError(v)


def opt(v):
    return 'none' if v is None else '(some %s)' % lit(v)


def cell(v):
    return 'Cell.str %s' % lit(v) if isinstance(v, str) else 'Cell.int %s' % lit(v)


def main():
    repo, lean = sys.argv[1], sys.argv[2]
    seed = int(sys.argv[3]) if len(sys.argv) > 3 else 1
    cases = int(sys.argv[4]) if len(sys.argv) > 4 else 40
    sys.path.insert(0, repo)
    import py_stringsimjoin
    from py_stringsimjoin.utils import generic_helper as gh, token_ordering as to
    from py_stringsimjoin.filter.overlap_filter import OverlapFilter
    from py_stringsimjoin.filter.position_filter import PositionFilter
    from py_stringsimjoin.index.inverted_index import InvertedIndex
    from py_stringsimjoin.index.position_index import PositionIndex
    from py_stringmatching.tokenizer.delimiter_tokenizer import DelimiterTokenizer
    rnd = random.Random(seed)
    names = ['a', 'b', 'c', 'id', 'x', 'B', 'ab', '']
    words = ['aa', 'b', 'c', 'dd', 'e', 'B', 'ab', 'f', 'g']
    g = []

    def attrs():
        return None if rnd.random() < 0.2 else [rnd.choice(names) for _ in range(rnd.randint(0, 5))]

    for _ in range(cases):
        o, k, j = attrs(), rnd.choice(names), rnd.choice(names)
        r = gh.remove_redundant_attrs(None if o is None else list(o), k)
        g.append('#guard Gen2.remove_redundant_attrs %s %s = %s' % (opt(o), lit(k), opt(r)))
        g.append('#guard Gen2.get_attrs_to_project %s %s %s = %s' % (opt(o), lit(k), lit(j), lit(gh.get_attrs_to_project(o, k, j))))
        cols = rnd.sample(names, rnd.randint(1, len(names)))
        oa = None if rnd.random() < 0.2 else [rnd.choice(cols) for _ in range(rnd.randint(0, 4))]
        g.append('#guard Gen2.find_output_attribute_indices %s %s = %s' % (lit(cols), opt(oa), lit(gh.find_output_attribute_indices(cols, oa))))
        lo, ro = attrs(), attrs()
        g.append('#guard Gen2.get_output_header_from_tables %s %s %s %s %s %s = %s' % (
            lit(k), lit(j), opt(lo), opt(ro), lit('l_'), lit('r_'),
            lit(gh.get_output_header_from_tables(k, j, lo, ro, 'l_', 'r_'))))
        lrow = [rnd.choice(words + [1, 2, 3]) for _ in range(4)]
        rrow = [rnd.choice(words + [1, 2, 3]) for _ in range(4)]
        li = [rnd.randrange(4) for _ in range(rnd.randint(0, 3))]
        ri = [rnd.randrange(4) for _ in range(rnd.randint(0, 3))]
        lk, rk = rnd.randrange(4), rnd.randrange(4)
        out = gh.get_output_row_from_tables(lrow, rrow, lk, rk, li, ri)
        row = lambda r: '[' + ', '.join(cell(x) for x in r) + ']'
        g.append('#guard Gen2.get_output_row_from_tables %s %s %d %d %s %s = %s' % (row(lrow), row(rrow), lk, rk, lit(li), lit(ri), row(out)))
        lists = [[rnd.choice(words) for _ in range(rnd.randint(0, 5))] for _ in range(rnd.randint(0, 4))]
        ordering = to.gen_token_ordering_for_lists(lists)
        g.append('#guard Gen2.gen_token_ordering_for_lists %s = %s' % (lit(lists), lit(ordering)))
        toks = [rnd.choice(words + ['zz']) for _ in range(rnd.randint(0, 6))]
        g.append('#guard Gen2.order_using_token_ordering %s %s = %s' % (lit(toks), lit(ordering), lit(to.order_using_token_ordering(toks, ordering))))
        # indexes
        tok = DelimiterTokenizer(delim_set=[' '], return_set=True)
        table = [(i, ' '.join(rnd.choice(words) for _ in range(rnd.randint(0, 6)))) for i in range(rnd.randint(0, 8))]
        inv = InvertedIndex(table, 1, tok)
        inv.build()
        probe = tok.tokenize(' '.join(rnd.choice(words) for _ in range(rnd.randint(0, 6))))
        of = OverlapFilter(tok, 1)
        g.append('#guard Gen2.OverlapFilter_find_candidates %s { index := %s, sizeCache := [], emptyRecords := [] } = %s' % (
            lit(probe), lit(inv.index), lit(of.find_candidates(probe, inv))))
        meas = rnd.choice(['JACCARD', 'COSINE', 'DICE', 'OVERLAP'])
        thr = rnd.choice([1, 2, 3]) if meas == 'OVERLAP' else rnd.choice([0.3, 0.5, 0.8, 1.0, 0.65])
        ordering = to.gen_token_ordering_for_lists([tok.tokenize(r[1]) for r in table] + [probe])
        pidx = PositionIndex(table, 1, tok, meas, thr, ordering)
        ce, ct = rnd.random() < 0.7, rnd.random() < 0.5
        ret = pidx.build(ce, ct)
        fr = Fraction(thr)
        thrv = '(PyV.int %d)' % thr if isinstance(thr, int) else '(PyV.float ((%d : Rat) / %d))' % (fr.numerator, fr.denominator)
        mname = {'JACCARD': 'jaccard', 'COSINE': 'cosine', 'DICE': 'dice', 'OVERLAP': 'overlap'}[meas]
        rows = [to.order_using_token_ordering(tok.tokenize(r[1]), ordering) for r in table]
        g.append('#guard (let r := Gen2.PositionIndex_build { measure := .%s, threshold := %s } %s %s %s; '
                 'r.index == %s && r.sizeCache == %s && r.minLength == %d && r.maxLength == %d && '
                 'r.cachedTokens == %s && r.emptyRecords == %s)' % (
                     mname, thrv, lit(rows), lit(ce), lit(ct), lit(pidx.index), lit(pidx.size_cache),
                     pidx.min_length, pidx.max_length, lit(ret['cached_tokens']), lit(ret['empty_records'])))
        pf = PositionFilter(tok, meas, thr)
        ptoks = to.order_using_token_ordering(probe, ordering)
        res = pf.find_candidates(ptoks, pidx)
        g.append('#guard Gen2.PositionFilter_find_candidates { cfg := { measure := .%s, threshold := %s } } %s '
                 '{ index := %s, sizeCache := %s, minLength := %d, maxLength := %d, cachedTokens := [], emptyRecords := [] } = %s' % (
                     mname, thrv, lit(ptoks), lit(pidx.index), lit(pidx.size_cache), pidx.min_length, pidx.max_length, lit(res)))
    text = 'import SSJ.Gen.Loops\nopen SSJ\n' + '\n'.join(g) + '\n'
    with tempfile.NamedTemporaryFile('w', suffix='.lean', delete=False) as fh:
        fh.write(text)
    r = subprocess.run(['lake', 'env', 'lean', fh.name], cwd=lean, capture_output=True, text=True)
    if r.returncode != 0:
        lines = text.splitlines()
        for l in r.stdout.splitlines():
            if 'error' in l:
                print(l)
                try:
                    n = int(l.split(':')[1])
                    print('   ', lines[n - 1][:400])
                except Exception:
                    pass
        print('FAILED (%d guards) — file kept at %s' % (len(g), fh.name))
        sys.exit(1)
    os.unlink(fh.name)
    nonempty = sum(1 for l in g if 'PositionFilter' in l and not l.endswith('= []'))
    minus1 = sum(1 for l in g if 'PositionFilter' in l and '(-1)' in l.split(' = ')[-1])
    print('ok: %d #guard checks of Gen2.* against the Python functions (seed %d; position filter: %d non-empty '
          'results, %d with a pruned (-1) candidate)' % (len(g), seed, nonempty, minus1))


if __name__ == '__main__':
    main()

#!/usr/bin/env python3
"""run_seeded_all.py [ids...] : run the quick checks against every stored seeded change, each applied in a scratch
worktree of /repo (never in /repo itself), and write seeded/RESULTS.json + seeded/RESULTS.md.

For every seeded/<id>/ : git worktree add <scratch>; git apply patch.diff; SSJ_REPO=<scratch> tools/check.py <prop> quick
for the property the change breaks (and the ones listed as also relevant); record exit code, the VIOLATION line and the
first message line; remove the worktree.  Sequential on purpose: the checks regenerate lean/SSJ/Gen from the tree they
are pointed at."""
import json, os, subprocess, sys, shutil, tempfile

VERIF = os.path.dirname(os.path.dirname(os.path.abspath(__file__)))
SEEDED = os.path.join(VERIF, 'seeded')


def run(cmd, **kw):
    return subprocess.run(cmd, stdout=subprocess.PIPE, stderr=subprocess.STDOUT, text=True, **kw)


def main():
    only = set(sys.argv[1:])
    ids = sorted(d for d in os.listdir(SEEDED) if os.path.isdir(os.path.join(SEEDED, d)))
    if only:
        ids = [i for i in ids if i in only or i.split('-')[0] in only]
    res_path = os.path.join(SEEDED, 'RESULTS.json')
    results = json.load(open(res_path)) if os.path.exists(res_path) else {}
    scratch_root = tempfile.mkdtemp(prefix='ssj-seeded-')
    for sid in ids:
        d = os.path.join(SEEDED, sid)
        meta = json.load(open(os.path.join(d, 'meta.json')))
        props = [meta['breaks_property']] + [p for p in meta.get('also_relevant', []) if p != meta['breaks_property']]
        wt = os.path.join(scratch_root, sid)
        r = run(['git', '-C', '/repo', 'worktree', 'add', '--detach', wt, 'HEAD'])
        if r.returncode != 0:
            print(sid, 'worktree failed', r.stdout); continue
        try:
            r = run(['git', '-C', wt, 'apply', os.path.join(d, 'patch.diff')])
            if r.returncode != 0:
                results[sid] = {'error': 'patch does not apply: ' + r.stdout[-300:]}
                print(sid, 'PATCH DOES NOT APPLY'); continue
            entry = {}
            for p in props:
                env = dict(os.environ, SSJ_REPO=wt, SSJ_EVIDENCE_DIR=os.path.join(scratch_root, 'evidence'), VERIF_SEED=os.environ.get('VERIF_SEED', '0'))
                r = run([os.path.join(VERIF, 'tools', 'check.py'), p, 'quick'], env=env, cwd=VERIF)
                lines = [l for l in r.stdout.splitlines() if not l.startswith('KNOWN-FINDING')]
                vio = [i for i, l in enumerate(lines) if l.startswith('VIOLATION')]
                first = lines[vio[0]] if vio else ''
                msg = lines[vio[0] + 1].strip() if vio and vio[0] + 1 < len(lines) else ''
                entry[p] = {'exit': r.returncode, 'violation': first, 'message': msg,
                            'no_failing_input': first.rstrip().endswith('no-failing-input-found')}
                print(sid, p, 'exit', r.returncode, first, '|', msg, flush=True)
            results[sid] = entry
        finally:
            run(['git', '-C', '/repo', 'worktree', 'remove', '--force', wt])
        json.dump(results, open(res_path, 'w'), indent=1, sort_keys=True)
    run(['git', '-C', '/repo', 'worktree', 'prune'])
    shutil.rmtree(scratch_root, ignore_errors=True)
    # restore lean/SSJ/Gen for /repo itself
    run([sys.executable, os.path.join(VERIF, 'tools', 'py2lean.py'), '/repo', os.path.join(VERIF, 'lean', 'SSJ', 'Gen')], cwd=VERIF)
    run([sys.executable, os.path.join(VERIF, 'tools', 'py2lean2.py'), '/repo', os.path.join(VERIF, 'lean', 'SSJ', 'Gen')], cwd=VERIF)
    with open(os.path.join(SEEDED, 'RESULTS.md'), 'w') as f:
        f.write('# Quick checks against the stored seeded changes (tools/run_seeded_all.py)\n\n')
        f.write('| seeded change | property | exit | outcome |\n|---|---|---|---|\n')
        for sid in sorted(results):
            e = results[sid]
            if 'error' in e:
                f.write('| %s | | | %s |\n' % (sid, e['error'])); continue
            for p in sorted(e):
                x = e[p]
                out = (x['message'] or 'no violation reported') + (' (no-failing-input-found)' if x['no_failing_input'] else '')
                f.write('| %s | %s | %d | %s |\n' % (sid, p, x['exit'], out.replace('|', '/')))
    missed = [s for s, e in results.items() if 'error' in e or e.get(json.load(open(os.path.join(SEEDED, s, 'meta.json')))['breaks_property'], {}).get('exit') != 1]
    print('missed (primary property not reported):', missed)


if __name__ == '__main__':
    main()

#!/usr/bin/env python3
"""Run the repository's pinned test suite (guard OFF) and compare with /root/.vp/BASELINE.json:
every test in stable_pass must still pass.  Exit 0 iff so."""
import json
import os
import subprocess
import sys
import tempfile
import xml.etree.ElementTree as ET

base = json.load(open('/root/.vp/BASELINE.json'))
with tempfile.TemporaryDirectory(dir='/var/tmp') as d:
    xml = os.path.join(d, 'junit.xml')
    cmd = base['cmd'].replace('<file>', xml)
    env = dict(os.environ)
    env.pop('PY_STRINGSIMJOIN_VERIF', None)
    subprocess.run(cmd, shell=True, stdout=subprocess.DEVNULL, stderr=subprocess.DEVNULL, env=env)
    passed = set()
    for tc in ET.parse(xml).getroot().iter('testcase'):
        if not any(ch.tag in ('failure', 'error', 'skipped') for ch in tc):
            passed.add('%s::%s' % (tc.get('classname'), tc.get('name')))
missing = [t for t in base['stable_pass'] if t not in passed]
print('baseline: %d/%d stable tests pass' % (len(base['stable_pass']) - len(missing), len(base['stable_pass'])))
for t in missing:
    print('  NOT PASSING:', t)
sys.exit(1 if missing else 0)

#!/usr/bin/env python3
"""Regenerate MANIFEST.json from tools/check.py's property table and the Props files present."""
import json, os, re, sys
VERIF = os.path.dirname(os.path.dirname(os.path.abspath(__file__)))
sys.path.insert(0, os.path.join(VERIF, 'tools'))
src = open(os.path.join(VERIF, 'tools', 'check.py')).read()
ids = ['C%02d' % i for i in range(1, 18)]
titles = dict(re.findall(r"'(C\d\d)': dict\(title='([^']+)'", src))
NOTES = json.load(open(os.path.join(VERIF, 'tools', 'manifest_notes.json')))
checks, na = [], []
for pid in ids:
    if not os.path.exists(os.path.join(VERIF, 'lean', 'SSJ', 'Props', pid + '.lean')):
        na.append({'property_id': pid, 'reason': 'property theorems not yet assembled into lean/SSJ/Props/%s.lean (work in progress; correspondence and oracle exist)' % pid})
        continue
    n = NOTES.get(pid, {})
    checks.append({
        'property_id': pid,
        'quick_cmd': 'tools/check.py %s quick' % pid,
        'thorough_cmd': 'tools/check.py %s thorough' % pid,
        'evidence_file': 'evidence/%s.json' % pid,
        'replay_cmd_template': 'tools/check.py --replay {path}',
        'engine': 'lean4-proof+correspondence',
        'level_claimed': {'category': 'proof', 'text': n.get('text', titles.get(pid, '')), 'design_ref': n.get('design_ref', 'DESIGN.md §6 ' + pid)},
        'level_note': 'Which clauses of the statement have a theorem, which only an oracle, which are limited by a known finding: REVIEW_COVERAGE.md (clause-by-clause). ' + n.get('note', 'Lean 4 kernel; axioms propext/Classical.choice/Quot.sound; translator py2lean + PyV/F64 semantics; hand model tied by differential correspondence; pandas/joblib/py_stringmatching/CPython floats modelled (DESIGN §8)'),
        'technique': n.get('technique', 'machine-checked proof in Lean 4 over a model tied to the source by translation and correspondence'),
    })
m = {
    'version': 1,
    'setup_cmd': 'tools/setup.sh',
    'hooks': {'guard': 'PY_STRINGSIMJOIN_VERIF', 'enable': 'no source hooks are needed: the harness imports /repo in-process, sets py_stringsimjoin.__use_cython__ = False at run time and calls internal functions directly',
              'baseline_off_cmd': 'python3 tools/baseline_check.py', 'source_commits': [], 'add_only': True},
    'engines': [{'name': 'lean4-proof+correspondence', 'path': 'tools/check.py', 'serves_properties': [c['property_id'] for c in checks],
                 'kind_free_text': 'Lean 4 theorems (lean/SSJ/Props) about an executable model; model tied to /repo by (A) tools/py2lean.py and tools/py2lean2.py regenerating lean/SSJ/Gen from the Python source on every run (54 functions; the loop functions are proved equal to the hand model) and (B) a JSON-line correspondence harness (tools/harness) diffing the compiled model against the real code; independent Python oracles search the real code for a failing input when a proof or the correspondence breaks'}],
    'checks': checks,
    'notes': 'Genuine defects found on the pinned tree were repaired by "fix:" commits in /repo (list in known_findings.json, fixed[]); those that are not small repairs are recorded as known findings K1..K10 there and printed as KNOWN-FINDING lines. See DESIGN.md §7.',
    'not_applicable': na,
}
json.dump(m, open(os.path.join(VERIF, 'MANIFEST.json'), 'w'), indent=1)
print('claimed', [c['property_id'] for c in checks], 'unclaimed', [x['property_id'] for x in na])

#!/bin/sh
# run_against_seeded.sh <seeded-id-dir> <property ids...> : apply the seeded change to /repo, run the quick checks, undo
d="$1"; shift
cd /repo && git apply "$d/patch.diff" || exit 3
cd /verif
for p in "$@"; do
  echo "=== $p against $(basename $d)"
  SSJ_EVIDENCE_DIR=/verif/.cache/evidence-seeded VERIF_SEED=${VERIF_SEED:-0} tools/check.py $p ${TIER:-quick} 2>&1 | grep -v '^KNOWN-FINDING' | head -6
  echo "exit=$?"
done
git -C /repo checkout -- .
git -C /repo status --short | head -3

#!/usr/bin/env python3
"""rename declarations in NEW.lean that clash with declarations of the OTHER files (prefix given)"""
import re, sys
new, prefix, others = sys.argv[1], sys.argv[2], sys.argv[3:]
decl = re.compile(r'^(?:@\[[^\]]*\]\s*)?(?:private\s+|protected\s+)?(?:theorem|lemma|def|abbrev|structure|inductive)\s+([^\s:({\[]+)', re.M)
def names(path):
    return set(n.split('.')[-1] for n in decl.findall(open(path).read()))
mine = names(new)
theirs = set()
for o in others:
    theirs |= names(o)
clash = sorted(mine & theirs, key=len, reverse=True)
s = open(new).read()
for n in clash:
    s = re.sub(r'(?<![\w?!\'])' + re.escape(n) + r'(?![\w?!\'])', prefix + n, s)
open(new, 'w').write(s)
print('renamed', clash)

#!/bin/sh
# sweep.sh <tier> <seeds...> : run every claimed check with several seeds on the current tree; print non-OK lines
tier=$1; shift
cd "$(dirname "$0")/.."
ids=$(python3 -c "import json; print(' '.join(c['property_id'] for c in json.load(open('MANIFEST.json'))['checks']))")
for s in "$@"; do for p in $ids; do
  out=$(VERIF_SEED=$s tools/check.py $p $tier 2>&1); rc=$?
  echo "seed=$s $p rc=$rc $(echo "$out" | grep -v KNOWN-FINDING | tail -1)"
  if [ $rc -ne 0 ]; then echo "$out" | tail -5; fi
done; done

#!/usr/bin/env python3
"""seeded_table.py : rewrite the table of DESIGN.md §9 (between the SEEDED-TABLE markers) from seeded/*/meta.json and
seeded/RESULTS.json (written by tools/run_seeded_all.py)."""
import json, os, re
V = os.path.dirname(os.path.dirname(os.path.abspath(__file__)))
res = json.load(open(os.path.join(V, 'seeded', 'RESULTS.json')))
rows = ['| seeded change | needs, to show | reported by (quick tier: property → first message) |', '|---|---|---|']
for sid in sorted(d for d in os.listdir(os.path.join(V, 'seeded')) if os.path.isdir(os.path.join(V, 'seeded', d))):
    m = json.load(open(os.path.join(V, 'seeded', sid, 'meta.json')))
    need = re.sub(r'\s+', ' ', (m.get('needs_to_manifest') or '')).strip()
    need = (need[:230] + '…') if len(need) > 231 else need
    files = ', '.join(os.path.basename(f) for f in (m.get('files') or []))
    r = res.get(sid, {})
    outs = []
    for p in sorted(r):
        if p == 'error':
            outs.append('ERROR ' + r[p]); continue
        x = r[p]
        if x['exit'] == 1:
            outs.append('**%s** → %s%s' % (p, x['message'][:110], ' *(no-failing-input-found)*' if x['no_failing_input'] else ''))
        else:
            outs.append('%s → not reported (exit %d)' % (p, x['exit']))
    rows.append('| `%s` (%s) | %s | %s |' % (sid, files, need.replace('|', '/'), '; '.join(outs).replace('|', '/') or 'not yet run'))
p = os.path.join(V, 'DESIGN.md')
s = open(p).read()
a, b = '<!-- SEEDED-TABLE-BEGIN -->', '<!-- SEEDED-TABLE-END -->'
i, j = s.index(a) + len(a), s.index(b)
s = s[:i] + '\n' + '\n'.join(rows) + '\n' + s[j:]
open(p, 'w').write(s)
print(len(rows) - 2, 'seeded changes tabulated')

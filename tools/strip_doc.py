import ast, sys
src = open(sys.argv[1]).read()
tree = ast.parse(src)
for node in ast.walk(tree):
    if isinstance(node, (ast.FunctionDef, ast.ClassDef, ast.Module)):
        if node.body and isinstance(node.body[0], ast.Expr) and isinstance(getattr(node.body[0], 'value', None), ast.Constant) and isinstance(node.body[0].value.value, str):
            node.body = node.body[1:] or [ast.Pass()]
print(ast.unparse(tree))
